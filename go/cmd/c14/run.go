package main

// C14 correspondence + implementation-level oracle.
//
//  (a) untyped: byte strings (encodings of random trees, their mutations, size-field attacks, random bytes) go to
//      the real rlp.DecodeBytes(&interface{}) and to the Lean `Rlp.decode`; result class, tree, re-encoding and
//      allocation weight are compared; oracle on the real code: accepted => re-encodes to exactly those bytes.
//  (b) typed, per generated schema: a value is generated from the schema, the MODEL encodes it, the real code
//      must decode those bytes into the real Go type, yield the same value (read back through reflect/accessors)
//      and re-encode to the same bytes (round trip); then mutated/malformed/"wild" variants of the bytes go to both
//      sides (class, value, re-encoding compared). Oracle on the real code: accepted => re-encodes to exactly those
//      bytes, unless the difference is exactly one of the modelled non-canonical rules (known-finding matchers).
//  (c) exploration (not a proof): every real decode runs under recover; allocation of a sample is measured with
//      runtime.MemStats; hostile.go drives MessageHandler.HandleMsg and TxConverter.ApplyMessage.

import (
	"bytes"
	"encoding/hex"
	"errors"
	"fmt"
	"io/ioutil"
	"reflect"
	"runtime"
	"sort"
	"strings"

	"github.com/youchainhq/go-youchain/core/types"
	"github.com/youchainhq/go-youchain/crypto"
	"github.com/youchainhq/go-youchain/rlp"

	"verifharness/internal/quiet"
	"verifharness/internal/vh"
)

const prop = "C14"

// matcher names of the known findings (KNOWN_FINDINGS.txt) by rule
var ruleMatcher = map[string]string{
	"expelled": "validator-expelled-byte-not-0-1",
	"addrSet":  "validator-index-unsorted-or-duplicate",
	"dsMap":    "doublesign-map-order-duplicate-hashlen",
	// "nilptr" (an rlp:"nil" pointer given as the wrong kind of empty value) was F-C14d, fixed in /repo by d3120fe:
	// no matcher any more, a hit is a violation; its witness is kept in corpus/C14.
}
var ruleOrder = []string{"nilptr", "expelled", "addrSet", "dsMap"}

type H struct {
	c          *vh.Ctx
	res        *vh.Result
	drv        *vh.Driver
	es         []*entry
	byName     map[string]*entry
	err        error
	seen       map[string]int // failure de-duplication
	quietF     bool           // replay mode: collect messages instead of writing replays
	msgs       []string
	failed     bool
	maxAlloc   uint64
	maxAllocIn int
	maxAllocTy string
}

func (h *H) ask(l string) string {
	if h.drv == nil || h.err != nil {
		return ""
	}
	s, e := h.drv.Ask(l)
	if e != nil {
		h.err = e
	}
	return s
}

func hx(b []byte) string {
	if len(b) == 0 {
		return "-"
	}
	return hex.EncodeToString(b)
}

func unhx(s string) []byte {
	if s == "-" {
		return nil
	}
	b, _ := hex.DecodeString(s)
	return b
}

func (h *H) fail(kind, matcher, key, what string, body []string) {
	h.failed = true
	if h.quietF {
		h.msgs = append(h.msgs, what)
		return
	}
	k := kind + "|" + matcher + "|" + key
	h.seen[k]++
	h.res.Dist("fail:" + kind + ":" + key)
	if h.seen[k] > 1 {
		return
	}
	name := strings.NewReplacer(" ", "_", "/", "_", ":", "_", "*", "", "[", "", "]", "", "(", "", ")", "").Replace(key)
	if matcher != "" {
		name = "known-" + matcher
	} else {
		name = fmt.Sprintf("%s-%s-%d", kind, name, len(h.seen))
	}
	hdr := strings.Split(what, "\n")
	if matcher == "" && len(body) == 1 {
		if sb := h.shrink(body[0], what); sb != body[0] {
			hdr = append(hdr, "shrunk from: "+clip(body[0]))
			body = []string{sb}
		}
	}
	rp := vh.WriteReplay(h.c.ReplayDir, prop, name, h.c.Seed, hdr, body)
	h.res.Fail(kind, matcher, what, rp)
}

// shrink reduces a failing `T <schema> <hex>` / `U <hex>` line: greedily drops list elements and shortens strings of
// the (parsable) input while the replay still fails with the same kind of message. Bounded effort.
func (h *H) shrink(line, what string) string {
	f := strings.Fields(line)
	if len(f) < 2 || (f[0] != "T" && f[0] != "U") {
		return line
	}
	key := what
	if i := strings.IndexAny(key, ":\n"); i > 0 {
		key = key[:i]
	}
	mk := func(b []byte) string { return strings.Join(append(append([]string{}, f[:len(f)-1]...), hx(b)), " ") }
	budget := 150
	fails := func(b []byte) bool {
		if budget <= 0 {
			return false
		}
		budget--
		still, msg := h.replayBody([]string{mk(b)})
		return still && strings.Contains(msg, key)
	}
	cur := unhx(f[len(f)-1])
	if !fails(cur) {
		return line
	}
	for progress := true; progress && budget > 0; {
		progress = false
		t, err := parseTree(cur)
		if err != nil {
			// not parsable: try cutting bytes off the end
			for cut := len(cur) / 2; cut >= 1 && budget > 0; cut /= 2 {
				if c := cur[:len(cur)-cut]; fails(c) {
					cur, progress = c, true
					break
				}
			}
			continue
		}
		var ns []*node
		t.all(&ns)
		for idx := range ns {
			if budget <= 0 || progress {
				break
			}
			n := ns[idx]
			if n.list {
				for j := range n.kids {
					c := t.clone()
					var cs []*node
					c.all(&cs)
					cn := cs[idx]
					cn.kids = append(cn.kids[:j], cn.kids[j+1:]...)
					if b := c.enc(); len(b) < len(cur) && fails(b) {
						cur, progress = b, true
						break
					}
				}
			} else if len(n.b) > 1 {
				c := t.clone()
				var cs []*node
				c.all(&cs)
				cs[idx].b = cs[idx].b[:len(n.b)/2]
				if b := c.enc(); len(b) < len(cur) && fails(b) {
					cur, progress = b, true
				}
			}
		}
	}
	return mk(cur)
}

type goOut struct {
	g   interface{}
	err error
	pan interface{}
}

func goDecode(e *entry, bs []byte) (o goOut) {
	defer func() {
		if r := recover(); r != nil {
			o.pan = r
		}
	}()
	o.g = e.fresh()
	o.err = rlp.DecodeBytes(bs, o.g)
	return
}

func goEncode(g interface{}) (bs []byte, err error, pan interface{}) {
	defer func() {
		if r := recover(); r != nil {
			pan = r
		}
	}()
	bs, err = rlp.EncodeToBytes(g)
	return
}

func (e *entry) abstractGo(g interface{}) (*Val, error) {
	v := reflect.ValueOf(g)
	if e.sch.K != "custom" {
		v = v.Elem()
	}
	return abstract(v, e.sch)
}

// measure runs f and returns the bytes allocated meanwhile (exploration only; the harness is single-threaded here)
func measure(f func()) uint64 {
	var a, b runtime.MemStats
	runtime.ReadMemStats(&a)
	f()
	runtime.ReadMemStats(&b)
	return b.TotalAlloc - a.TotalAlloc
}

const allocSlack = 1 << 20
const allocFactor = 64

// typedCase runs one byte string through the real decoder of entry e and through the model.
// wantVal/wantRe are set for the well-formed stream (the value the bytes were generated from).
func (h *H) typedCase(e *entry, bs []byte, label string, wantVal string, meas bool) (accepted bool, deep bool) {
	line := "T " + e.name + " " + hx(bs)
	var o goOut
	if meas {
		n := measure(func() { o = goDecode(e, bs) })
		if n > h.maxAlloc {
			h.maxAlloc, h.maxAllocIn, h.maxAllocTy = n, len(bs), e.name
		}
		if n > allocSlack+allocFactor*uint64(len(bs)) {
			h.fail("oracle", "", "alloc "+e.name, fmt.Sprintf("exploration: decoding %d input bytes into %s allocated %d bytes (> %d + %d x input)", len(bs), e.name, n, allocSlack, allocFactor), []string{line})
		}
	} else {
		o = goDecode(e, bs)
	}
	if o.pan != nil {
		h.fail("oracle", "", "panic "+e.name, fmt.Sprintf("decoding hostile bytes into %s panics: %v (%s)", e.name, o.pan, label), []string{line})
		return false, false
	}
	lean := h.ask("D " + e.name + " " + hx(bs))
	if h.err != nil {
		return false, false
	}
	lf := strings.Fields(lean)
	leanOK := len(lf) == 3 && lf[0] == "ok"
	goOK := o.err == nil
	deep = goOK || !firstHeaderError(bs)
	if len(lf) == 0 || (lf[0] != "ok" && lf[0] != "err") {
		h.fail("correspondence", "", "driver "+e.name, "driver answered "+lean, []string{line})
		return goOK, deep
	}
	if goOK != leanOK {
		ge := "ok"
		if o.err != nil {
			ge = "err: " + o.err.Error()
		}
		h.fail("correspondence", "", "class "+e.name, fmt.Sprintf("%s (%s): real decoder says %s, model says %s", e.name, label, ge, lean), []string{line})
		if goOK {
			// the property's statement on the real code alone: accepted => re-encodes to exactly those bytes
			if re, eerr, epan := goEncode(o.g); eerr == nil && epan == nil && !bytes.Equal(re, bs) && !e.rules["dsMap"] {
				h.fail("oracle", "", "noncanonical "+e.name, fmt.Sprintf("%s (%s): the real decoder accepts bytes that re-encode differently\ninput     %x\nre-encode %x", e.name, label, bs, re), []string{line})
			}
		}
		return goOK, deep
	}
	if wantVal != "" && !goOK {
		h.fail("correspondence", "", "reject-valid "+e.name, fmt.Sprintf("%s: the real decoder rejects the model's encoding of a generated value: %v\nvalue %s", e.name, o.err, wantVal), []string{line})
		return false, deep
	}
	if !goOK {
		return false, deep
	}
	// --- accepted by both -----------------------------------------------------------------------------------
	re, eerr, epan := goEncode(o.g)
	if epan != nil || eerr != nil {
		h.fail("oracle", "", "reencode "+e.name, fmt.Sprintf("%s: a value the decoder accepted cannot be re-encoded: %v %v", e.name, eerr, epan), []string{line})
		return true, deep
	}
	if av, aerr := e.abstractGo(o.g); errors.Is(aerr, errStale) {
		h.res.Dist("value-readback-skipped-stale-mirror:" + e.name)
	} else if aerr != nil {
		h.fail("correspondence", "", "abstract "+e.name, fmt.Sprintf("%s: cannot read the decoded Go value back: %v", e.name, aerr), []string{line})
	} else if av.String() != lf[1] {
		h.fail("correspondence", "", "value "+e.name, fmt.Sprintf("%s (%s): decoded values differ\nreal  %s\nmodel %s", e.name, label, av.String(), lf[1]), []string{line})
	} else if wantVal != "" && av.String() != wantVal {
		h.fail("oracle", "", "roundtrip-value "+e.name, fmt.Sprintf("%s: decoding the encoding of a value yields a different value\nvalue   %s\ndecoded %s", e.name, wantVal, av.String()), []string{line})
	}
	if lf[2] == "none" {
		h.fail("correspondence", "", "reenc-none "+e.name, fmt.Sprintf("%s: the model cannot re-encode the value it decoded", e.name), []string{line})
		return true, deep
	}
	// re-encoding: model vs real (EvidenceDoubleSign entries come back in Go's map order: compare sorted)
	reN, leanN := re, unhx(lf[2])
	hasDs := e.rules["dsMap"]
	if hasDs {
		if t, err := parseTree(re); err == nil {
			reN = sortDs(e.sch, t).enc()
		}
	}
	if !bytes.Equal(reN, leanN) {
		h.fail("correspondence", "", "reenc "+e.name, fmt.Sprintf("%s (%s): re-encodings differ\nreal  %x\nmodel %x", e.name, label, reN, leanN), []string{line})
		return true, deep
	}
	// --- oracle on the real code: accepted => re-encodes to exactly the input ------------------------------------
	in, perr := parseTree(bs)
	if perr != nil {
		h.fail("oracle", "", "accepted-unparsable "+e.name, fmt.Sprintf("%s: the typed decoder accepted bytes that rlp.Split rejects: %v", e.name, perr), []string{line})
		return true, deep
	}
	hits := map[string]bool{}
	norm := diagnose(e.sch, in, hits)
	if len(hits) == 0 {
		if bytes.Equal(re, bs) {
			if why := hashOracle(o.g, bs); why != "" {
				h.fail("oracle", "", "hash "+e.name, fmt.Sprintf("%s: one encoding, one hash: %s", e.name, why), []string{line})
			}
		}
		if !bytes.Equal(re, bs) {
			h.fail("oracle", "", "noncanonical "+e.name, fmt.Sprintf("%s (%s): accepted bytes re-encode differently and no modelled rule explains it\ninput     %x\nre-encode %x", e.name, label, bs, re), []string{line})
		}
		return true, deep
	}
	if !bytes.Equal(norm.enc(), reN) {
		h.fail("oracle", "", "noncanonical-unexplained "+e.name, fmt.Sprintf("%s (%s): accepted bytes re-encode differently, not as the known rules %v predict\ninput     %x\nre-encode %x\npredicted %x", e.name, label, keys(hits), bs, reN, norm.enc()), []string{line})
		return true, deep
	}
	for _, r := range ruleOrder {
		if hits[r] {
			h.res.Dist("known-rule:" + r)
			h.fail("oracle", ruleMatcher[r], r, fmt.Sprintf("%s: accepted bytes are not the encoding of the decoded value (rule %s)\ninput     %x\nre-encode %x", e.name, r, bs, reN), []string{line})
			break
		}
	}
	return true, deep
}

func keys(m map[string]bool) []string {
	var k []string
	for x := range m {
		k = append(k, x)
	}
	sort.Strings(k)
	return k
}

// firstHeaderError: does the outermost header already fail (rlp.Split)? Such byte strings are trivial cases.
func firstHeaderError(bs []byte) bool {
	_, _, _, err := rlp.Split(bs)
	return err != nil
}

func (h *H) untypedCase(bs []byte, label string, meas bool) (accepted bool, deep bool) {
	line := "U " + hx(bs)
	var x interface{}
	var err error
	var pan interface{}
	dec := func() {
		defer func() {
			if r := recover(); r != nil {
				pan = r
			}
		}()
		err = rlp.DecodeBytes(bs, &x)
	}
	if meas {
		n := measure(dec)
		if n > allocSlack+allocFactor*uint64(len(bs)) {
			h.fail("oracle", "", "alloc untyped", fmt.Sprintf("exploration: decoding %d input bytes into interface{} allocated %d bytes", len(bs), n), []string{line})
		}
	} else {
		dec()
	}
	if pan != nil {
		h.fail("oracle", "", "panic untyped", fmt.Sprintf("decoding hostile bytes into interface{} panics: %v (%s)", pan, label), []string{line})
		return false, false
	}
	// rlp.Split (raw.go) against the model's header reader
	{
		k, content, rest, serr := rlp.Split(bs)
		ans := h.ask("H " + hx(bs))
		want := "err"
		if serr == nil {
			want = fmt.Sprintf("ok %v %d %d", k == rlp.List, len(content), len(bs)-len(content)-len(rest))
		}
		if got := ans; !(got == want || (want == "err" && strings.HasPrefix(got, "err"))) {
			h.fail("correspondence", "", "split", fmt.Sprintf("rlp.Split (%s): real %s (%v), model %s", label, want, serr, ans), []string{line})
		}
	}
	if why := rawOracle(bs); why != "" {
		h.fail("oracle", "", "raw", "rlp raw.go / RawValue ("+label+"): "+why, []string{line})
	}
	lean := h.ask("U " + hx(bs))
	if h.err != nil {
		return false, false
	}
	lf := strings.Fields(lean)
	goOK := err == nil
	leanOK := len(lf) == 4 && lf[0] == "ok"
	deep = goOK || !firstHeaderError(bs)
	if goOK != leanOK {
		ge := "ok"
		if err != nil {
			ge = "err: " + err.Error()
		}
		h.fail("correspondence", "", "class untyped", fmt.Sprintf("untyped (%s): real decoder says %s, model says %s", label, ge, lean), []string{line})
		if goOK {
			if re, eerr, epan := goEncode(x); eerr == nil && epan == nil && !bytes.Equal(re, bs) {
				h.fail("oracle", "", "noncanonical untyped", fmt.Sprintf("untyped (%s): the real decoder accepts bytes that re-encode differently\ninput     %x\nre-encode %x", label, bs, re), []string{line})
			}
		}
		return goOK, deep
	}
	if !goOK {
		return false, deep
	}
	t := fromIface(x)
	if t.String() != lf[1] {
		h.fail("correspondence", "", "tree untyped", fmt.Sprintf("untyped: decoded trees differ\nreal  %s\nmodel %s", t.String(), lf[1]), []string{line})
	}
	re, eerr, epan := goEncode(x)
	if eerr != nil || epan != nil {
		h.fail("oracle", "", "reencode untyped", fmt.Sprintf("untyped: decoded tree cannot be re-encoded: %v %v", eerr, epan), []string{line})
		return true, deep
	}
	if hx(re) != lf[2] {
		h.fail("correspondence", "", "reenc untyped", fmt.Sprintf("untyped: re-encodings differ\nreal  %x\nmodel %s", re, lf[2]), []string{line})
	}
	if !bytes.Equal(re, bs) {
		h.fail("oracle", "", "noncanonical untyped", fmt.Sprintf("untyped (%s): accepted bytes re-encode differently\ninput     %x\nre-encode %x", label, bs, re), []string{line})
	}
	if w := weight(t); fmt.Sprint(w) != lf[3] || w > 2*len(bs) {
		h.fail("oracle", "", "weight untyped", fmt.Sprintf("untyped: decoded tree weight %d (model %s) exceeds twice the input length %d", w, lf[3], len(bs)), []string{line})
	}
	return true, deep
}

func genTree(r *vh.RNG, depth int) *node {
	if depth <= 0 || r.Chance(45) {
		return &node{b: genBytes(r, -1)}
	}
	n := &node{list: true}
	k := r.Intn(5)
	if r.Chance(10) {
		k = r.Range(20, 60) // long lists: payload > 55 bytes
	}
	for i := 0; i < k; i++ {
		n.kids = append(n.kids, genTree(r, depth-1))
	}
	return n
}

func (n *node) hasNestedList() bool {
	if !n.list {
		return false
	}
	for _, k := range n.kids {
		if k.list {
			return true
		}
	}
	return false
}

func newH(c *vh.Ctx) (*H, error) {
	quiet.Silence()
	h := &H{c: c, res: c.Res, seen: map[string]int{}, byName: map[string]*entry{}}
	es, err := loadScope()
	if err != nil {
		return nil, err
	}
	h.es = es
	for _, e := range es {
		h.byName[e.name] = e
		e.rules = map[string]bool{}
		e.sch.rules(e.rules)
	}
	if c.Driver != "" {
		h.drv, err = vh.StartDriver(c.Driver)
		if err != nil {
			return nil, err
		}
	}
	return h, nil
}

func run(c *vh.Ctx) error {
	h, err := newH(c)
	if err != nil {
		return err
	}
	if h.drv == nil {
		return fmt.Errorf("no driver")
	}
	defer h.drv.Close()
	res := c.Res
	res.Rule = "case = one byte string decoded by the real code and the model (untyped, or typed against one generated schema), or one generated value taken through encode/decode/re-encode; non-trivial when the value has a list nested in a list, resp. when the byte string gets past its first header (accepted, or rejected deeper than rlp.Split of the outer item); distinct by (schema, bytes)"

	// ---- the generated table the driver was built from must be the one this binary derives ------------------
	if n := h.ask("N"); n != fmt.Sprint(len(h.es)) {
		res.Fail("correspondence", "", fmt.Sprintf("driver has %s schemas, translator derives %d: GenSchemas.lean is stale", n, len(h.es)), "")
	}
	for _, e := range h.es {
		want := fmt.Sprintf("canonical=%v sound=true", e.sch.canonical())
		if got := h.ask("C " + e.name); got != want {
			res.Fail("correspondence", "", fmt.Sprintf("schema %s: driver says %q, translator says %q", e.name, got, want), "")
		}
		res.Dist("schema-canonical-" + fmt.Sprint(e.sch.canonical()))
	}

	// ---- exploration: the in-scope types used for the FIRST time by several goroutines at once (must come before
	// anything else in this process hands them to package rlp)
	h.concurrentColdScope()

	// ---- corpus first ----------------------------------------------------------------------------------------
	for _, f := range vh.CorpusFiles(prop) {
		body, comments, e := vh.ReadReplay(f)
		if e != nil {
			continue
		}
		res.Dist("corpus")
		expectKnown := ""
		for _, cm := range comments {
			if strings.HasPrefix(cm, "expect-known ") {
				expectKnown = strings.TrimSpace(strings.TrimPrefix(cm, "expect-known "))
			}
		}
		still, what := h.replayBody(body)
		if expectKnown != "" {
			// witness of an open finding: it must still reproduce with exactly that matcher (else the ledger is stale)
			continue
		}
		if still {
			res.Fail("corpus", "", "corpus witness fails again: "+f+": "+what, f)
		}
	}

	// ---- (a) untyped -------------------------------------------------------------------------------------------
	nU := c.N(10000, 150000)
	if c.Search {
		nU *= 3
	}
	for i := 0; i < nU && h.err == nil; i++ {
		t := genTree(c.R, 4)
		bs := t.enc()
		label := "valid"
		k := c.R.Intn(10)
		meas := i%16 == 0
		switch {
		case k < 3:
		case k < 9:
			label, bs = mutate(c.R, t)
			if strings.HasPrefix(label, "size") {
				meas = true
			}
		default:
			label, bs = "random", c.R.Bytes(c.R.Intn(24))
			if len(bs) > 0 && c.R.Bool() {
				bs[0] = byte(0xb8 + c.R.Intn(8) + 0x40*c.R.Intn(2)) // long string/list headers with random sizes
			}
			meas = true
		}
		acc, deep := h.untypedCase(bs, label, meas)
		res.Count("U|"+string(bs), deep)
		res.Dist("untyped-" + label)
		if acc {
			res.Dist("untyped-accepted")
		}
		res.TracesVsImpl++
		if i < 2 {
			res.Sample(map[string]interface{}{"untyped": hx(bs), "label": label, "accepted": acc})
		}
	}

	// ---- (b) typed ------------------------------------------------------------------------------------------------
	perType := c.N(100, 1200)
	if c.Search {
		perType *= 3
	}
	mutPer := 6
	for round := 0; round < perType && h.err == nil; round++ {
		for _, e := range h.es {
			if h.err != nil {
				break
			}
			v := genVal(c.R, e.sch, 5)
			vt := v.String()
			ans := h.ask("E " + e.name + " " + vt)
			af := strings.Fields(ans)
			if len(af) != 2 || af[0] != "ok" {
				h.fail("correspondence", "", "gen "+e.name, fmt.Sprintf("%s: the model cannot encode a generated value (%s): %s", e.name, ans, vt), []string{"V " + e.name + " " + vt})
				continue
			}
			bs := unhx(af[1])
			acc, _ := h.typedCase(e, bs, "valid", vt, round%8 == 0)
			res.Count("T|"+e.name+"|"+string(bs), v.nested())
			res.Dist("typed-valid")
			res.Dist("type:" + e.name)
			res.TracesVsImpl++
			if round == 0 && len(res.Samples) < 5 && v.nested() {
				res.Sample(map[string]interface{}{"schema": e.name, "value": clip(vt), "bytes": clip(hx(bs)), "accepted": acc})
			}
			// honest Go value -> REAL encoder -> real decoder + model (round trip on the real code)
			if g0, gerr := goValue(c.R, e); gerr == nil {
				if gb, eerr, epan := goEncode(g0); eerr != nil || epan != nil {
					res.Dist("go-valid-outside-encoder-domain")
				} else if why := honestRoundTrip(e, gb); why != "" {
					// the property's round-trip statement on the real code alone (no model involved)
					h.fail("oracle", "", "honest-roundtrip "+e.name, fmt.Sprintf("%s: %s\nencoding of an honest value: %x", e.name, why, gb), []string{"G " + e.name + " " + hx(gb)})
				} else if av, aerr := e.abstractGo(g0); aerr != nil {
					if !errors.Is(aerr, errStale) {
						res.Dist("go-valid-not-a-model-value")
					}
				} else {
					h.typedCase(e, gb, "go-valid", av.String(), false)
					res.Count("T|"+e.name+"|"+string(gb), av.nested())
					res.Dist("typed-go-valid")
					res.TracesVsImpl++
				}
			} else {
				res.Dist("go-valid-no-generator")
			}
			t, perr := parseTree(bs)
			if perr != nil {
				h.fail("correspondence", "", "model-enc "+e.name, fmt.Sprintf("%s: rlp.Split rejects the model's encoding: %v", e.name, perr), []string{"V " + e.name + " " + vt})
				continue
			}
			for m := 0; m < mutPer && h.err == nil; m++ {
				var label string
				var mb []byte
				if m == 0 && len(e.rules) > 0 {
					w := t.clone()
					if rule := wild(c.R, e.sch, w); rule != "" {
						label, mb = "wild-"+rule, w.enc()
					}
				}
				if mb == nil {
					label, mb = mutate(c.R, t)
				}
				meas := strings.HasPrefix(label, "size") || m == 1
				acc, deep := h.typedCase(e, mb, label, "", meas)
				res.Count("T|"+e.name+"|"+string(mb), deep)
				res.Dist("typed-" + label)
				if acc {
					res.Dist("typed-mutant-accepted")
				}
				res.TracesVsImpl++
			}
		}
	}
	if h.err != nil {
		return h.err
	}

	// ---- exploration: allocation on large hostile / honest lists, type cache under concurrent first use ----------
	h.allocExplore()
	h.concurrentFirstUse()

	// ---- the node's own decode entry points: honest encodings and padded / re-headed variants ---------------------
	h.entryPoints()

	// ---- object histories of the hash/size caches; the encoder as a pure function of the value under concurrency ------
	h.objectHistories()
	h.concurrentByValue()

	// ---- known-finding probes (fixed witnesses, independent of the seed) ------------------------------------------
	h.probes()

	// ---- (c) exploration of the message entry points -------------------------------------------------------------
	h.hostile()

	res.Extra["max_alloc_seen"] = fmt.Sprintf("%d bytes allocated decoding %d input bytes into %s (alarm threshold %d + %d x input)", h.maxAlloc, h.maxAllocIn, h.maxAllocTy, allocSlack, allocFactor)
	res.Extra["schemas"] = len(h.es)
	res.Partial = append(res.Partial,
		"panic-freedom and allocation bounds of the Go code are explored (recover + runtime.MemStats over the mutated/size-attack/random streams), not proved; the proved counterpart is decode_weight_le_length on the model",
		"types with rlp.RawValue / rlp:\"tail\" / interface{} fields (p2p handshake and discovery packets) are outside the generated table",
		"nil pointers outside rlp:\"nil\", nil *big.Int and nil slices are identified with the zero value they are encoded as")
	return h.err
}

// honestRoundTrip: bytes written by the real encoder for an honest value must be accepted by the real decoder and
// re-encode to themselves (EvidenceDoubleSign: up to the order of its map entries).
func honestRoundTrip(e *entry, bs []byte) string {
	o := goDecode(e, bs)
	if o.pan != nil {
		return fmt.Sprintf("the decoder panics on the encoder's output: %v", o.pan)
	}
	if o.err != nil {
		return fmt.Sprintf("the decoder rejects the encoder's output: %v", o.err)
	}
	re, eerr, epan := goEncode(o.g)
	if eerr != nil || epan != nil {
		return fmt.Sprintf("the decoded value cannot be encoded again: %v %v", eerr, epan)
	}
	a, b := bs, re
	if e.rules["dsMap"] {
		if t, err := parseTree(bs); err == nil {
			a = sortDs(e.sch, t).enc()
		}
		if t, err := parseTree(re); err == nil {
			b = sortDs(e.sch, t).enc()
		}
	}
	if !bytes.Equal(a, b) {
		return fmt.Sprintf("decode∘encode is not the identity on the encoder's output: re-encoded as %x", re)
	}
	return ""
}

// hashOracle: the hash the node computes for an accepted, canonically encoded transaction / header / block is the
// Keccak-256 of exactly the accepted bytes (header: of the header bytes inside the block).
func hashOracle(g interface{}, bs []byte) string {
	switch x := g.(type) {
	case *types.Transaction:
		if x.Hash() != crypto.Keccak256Hash(bs) {
			return fmt.Sprintf("Transaction.Hash() %x is not keccak256 of the accepted bytes", x.Hash())
		}
	case *types.Header:
		if x.MixDigest != types.UConMixHash && x.Hash() != crypto.Keccak256Hash(bs) {
			return fmt.Sprintf("Header.Hash() %x is not keccak256 of the accepted bytes", x.Hash())
		}
		var y types.Header
		if err := rlp.DecodeBytes(bs, &y); err != nil || y.Hash() != x.Hash() {
			return "decoding the same header bytes twice gives two hashes"
		}
	case *types.Block:
		if x.Hash() != x.Header().Hash() {
			return "Block.Hash() differs from its header's hash"
		}
		var y types.Block
		if err := rlp.DecodeBytes(bs, &y); err != nil || y.Hash() != x.Hash() {
			return "decoding the same block bytes twice gives two hashes"
		}
	}
	return ""
}

// rawOracle: the helpers of rlp/raw.go and the RawValue/EncodeToReader paths agree with Split and DecodeBytes.
func rawOracle(bs []byte) (why string) {
	defer func() {
		if r := recover(); r != nil {
			why = fmt.Sprintf("panic: %v", r)
		}
	}()
	k, content, rest, serr := rlp.Split(bs)
	var rv rlp.RawValue
	derr := rlp.DecodeBytes(bs, &rv)
	// known leniency of the unchanged code, outside the in-scope types (none has a RawValue): Stream.Raw does not apply
	// the single-byte rule, so 0x81 0x05 is a RawValue although Split rejects it
	lenient := derr == nil && serr != nil && len(bs) == 2 && bs[0] == 0x81 && bs[1] < 0x80
	if (derr == nil) != (serr == nil && len(rest) == 0) && !lenient {
		return fmt.Sprintf("DecodeBytes into RawValue says %v, Split says %v with %d trailing bytes", derr, serr, len(rest))
	}
	if derr == nil {
		if !bytes.Equal(rv, bs) {
			return fmt.Sprintf("RawValue %x differs from the input", []byte(rv))
		}
		if re, err := rlp.EncodeToBytes(rv); err != nil || !bytes.Equal(re, bs) {
			return "RawValue does not encode to itself"
		}
		if _, rd, err := rlp.EncodeToReader(rv); err != nil {
			return "EncodeToReader: " + err.Error()
		} else if b, _ := ioutil.ReadAll(rd); !bytes.Equal(b, bs) {
			return "EncodeToReader yields different bytes than EncodeToBytes"
		}
	}
	if serr != nil {
		return ""
	}
	if k == rlp.List {
		c2, r2, err := rlp.SplitList(bs)
		if err != nil || !bytes.Equal(c2, content) || !bytes.Equal(r2, rest) {
			return "SplitList disagrees with Split"
		}
		if _, _, err := rlp.SplitString(bs); err == nil {
			return "SplitString accepts a list"
		}
		// CountValues counts the items of the content iff every item header splits
		n, cerr := rlp.CountValues(content)
		m, c := 0, content
		var werr error
		for len(c) > 0 && werr == nil {
			_, _, c, werr = rlp.Split(c)
			m++
		}
		if (cerr == nil) != (werr == nil) || (cerr == nil && n != m) {
			return fmt.Sprintf("CountValues = %d (%v), walking with Split = %d (%v)", n, cerr, m, werr)
		}
	} else {
		c2, r2, err := rlp.SplitString(bs)
		if err != nil || !bytes.Equal(c2, content) || !bytes.Equal(r2, rest) {
			return "SplitString disagrees with Split"
		}
		if _, _, err := rlp.SplitList(bs); err == nil {
			return "SplitList accepts a string"
		}
	}
	return ""
}

func clip(s string) string {
	if len(s) > 400 {
		return s[:400] + "…"
	}
	return s
}

// ---- replay ---------------------------------------------------------------------------------------------------

func (h *H) replayBody(body []string) (bool, string) {
	h.quietF, h.failed, h.msgs = true, false, nil
	defer func() { h.quietF = false }()
	for _, l := range body {
		f := strings.Fields(l)
		switch {
		case len(f) == 2 && f[0] == "U":
			h.untypedCase(unhx(f[1]), "replay", true)
		case len(f) == 3 && f[0] == "T":
			e := h.byName[f[1]]
			if e == nil {
				h.msgs = append(h.msgs, "unknown schema "+f[1])
				h.failed = true
				continue
			}
			h.typedCase(e, unhx(f[2]), "replay", "", true)
		case len(f) == 3 && f[0] == "V":
			e := h.byName[f[1]]
			if e == nil {
				continue
			}
			ans := strings.Fields(h.ask("E " + f[1] + " " + f[2]))
			if len(ans) != 2 || ans[0] != "ok" {
				h.failed = true
				h.msgs = append(h.msgs, "model cannot encode the value")
				continue
			}
			h.typedCase(e, unhx(ans[1]), "replay", f[2], true)
		case len(f) == 3 && f[0] == "G":
			// bytes the real encoder produced from an honest value: the real decoder must take them back
			if e := h.byName[f[1]]; e != nil {
				if why := honestRoundTrip(e, unhx(f[2])); why != "" {
					h.failed = true
					h.msgs = append(h.msgs, why)
				}
			}
		case len(f) == 5 && f[0] == "O" && f[1] == "WithSeal":
			if w := sealHistory(unhx(f[3]), unhx(f[4]), f[2] == "true"); w != "" {
				h.failed = true
				h.msgs = append(h.msgs, w)
			}
		case len(f) >= 1 && f[0] == "B":
			// scheduling is not replayable: re-run the concurrent stream a few times
			for k := 0; k < 5 && !h.failed; k++ {
				h.concurrentByValue()
			}
		case len(f) == 3 && f[0] == "P":
			if w := entryOne(f[1], unhx(f[2])); w != "" {
				h.failed = true
				h.msgs = append(h.msgs, w)
			}
		case len(f) >= 2 && (f[0] == "A" || f[0] == "C"):
			h.replayExplore(f)
		case len(f) >= 2 && f[0] == "M":
			if w := hostileOne(f[1], unhx(f[len(f)-1])); w != "" {
				h.failed = true
				h.msgs = append(h.msgs, w)
			}
		}
	}
	return h.failed, strings.Join(h.msgs, "; ")
}

func replay(c *vh.Ctx, body, comments []string) (bool, string) {
	h, err := newH(c)
	if err != nil {
		return true, "harness error: " + err.Error()
	}
	if h.drv != nil {
		defer h.drv.Close()
	}
	still, what := h.replayBody(body)
	if !still {
		what = "no longer fails " + what
	}
	return still, what
}
