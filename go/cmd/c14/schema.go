package main

// Schema extraction (the C14 translator): walks the reflect.Type of every in-scope wire/disk type of /repo
// exactly the way rlp/typecache.go + makeDecoder/makeWriter do (exported fields in order, struct tags,
// pointer/nil rules, byte slices/arrays, big ints, uints by width) and emits lean/YouVerif/C14/GenSchemas.lean.
//
// Hand-written EncodeRLP/DecodeRLP pairs cannot be seen by reflection; they are listed in `customs` with
//   - kind:   the value-level behaviour modelled by hand in Model.lean (CKind),
//   - wire:   the struct the method hands to package rlp: the REAL unexported type when a verif hook exports
//             it (core/types, core/state), else a mirror struct declared here (function-local anonymous
//             structs in the Go source); when both exist the translator checks they give the same schema.
// A type with EncodeRLP/DecodeRLP that is not in the table aborts the translator (a new custom codec must be modelled).

import (
	"fmt"
	"math/big"
	"os"
	"path/filepath"
	"reflect"
	"sort"
	"strings"

	"github.com/youchainhq/go-youchain/common"
	"github.com/youchainhq/go-youchain/consensus/ucon"
	"github.com/youchainhq/go-youchain/core/rawdb"
	"github.com/youchainhq/go-youchain/core/state"
	"github.com/youchainhq/go-youchain/core/types"
	"github.com/youchainhq/go-youchain/rlp"
	"github.com/youchainhq/go-youchain/staking"
)

type Sch struct {
	K      string // uint bigint bool bytes fixed list struct ptr nilptr custom
	N      int    // uint: width in bytes; fixed: length
	Elem   *Sch   // list, ptr, nilptr, custom (wire)
	Fields []*Sch // struct
	Names  []string
	CK     string       // custom kind
	Stale  bool         // custom: the harness mirror no longer matches the real wire struct (values cannot be read back)
	GoT    reflect.Type // Go type this node describes (for custom: the type with the methods)
}

func (s *Sch) lean() string {
	switch s.K {
	case "uint":
		return fmt.Sprintf("(.uint %d)", s.N)
	case "bigint", "bool", "bytes":
		return "." + s.K
	case "fixed":
		return fmt.Sprintf("(.fixed %d)", s.N)
	case "list":
		return "(.list " + s.Elem.lean() + ")"
	case "ptr":
		return "(.ptr " + s.Elem.lean() + ")"
	case "nilptr":
		return "(.nilptr " + s.Elem.lean() + ")"
	case "custom":
		return "(.custom ." + s.CK + " " + s.Elem.lean() + ")"
	case "struct":
		body := ".snil"
		for i := len(s.Fields) - 1; i >= 0; i-- {
			body = "(.scons " + s.Fields[i].lean() + " " + body + ")"
		}
		return "(.struct " + body + ")"
	}
	return "<?>"
}

// canonical says what Model.Canonical says (kept in step by the `C` driver query, checked at start-up).
func (s *Sch) canonical() bool {
	switch s.K {
	case "list", "ptr":
		return s.Elem.canonical()
	case "nilptr":
		return s.Elem.canonical()
	case "custom":
		return (s.CK == "ident" || s.CK == "receiptStatus") && s.Elem.canonical()
	case "struct":
		for _, f := range s.Fields {
			if !f.canonical() {
				return false
			}
		}
	}
	return true
}

// rules lists the non-canonical rule kinds a schema contains.
func (s *Sch) rules(acc map[string]bool) {
	switch s.K {
	case "list", "ptr":
		s.Elem.rules(acc)
	case "nilptr":
		acc["nilptr"] = true
		s.Elem.rules(acc)
	case "custom":
		if s.CK != "ident" && s.CK != "receiptStatus" {
			acc[s.CK] = true
		}
		s.Elem.rules(acc)
	case "struct":
		for _, f := range s.Fields {
			f.rules(acc)
		}
	}
}

// ---- mirrors of function-local wire structs ---------------------------------------------------------

type wireValKindStat struct {
	Stake          *big.Int
	Token          *big.Int
	Count          uint64
	OfflineStake   *big.Int
	OfflineToken   *big.Int
	OfflineCount   uint64
	RewardsResidue *big.Int
	Rewards        *big.Int
}
type wireValidatorsStat struct {
	KindValidator  *state.ValKindStat
	KindChamber    *state.ValKindStat
	KindHouse      *state.ValKindStat
	RoleChancellor *state.ValKindStat
	RoleSenator    *state.ValKindStat
	RoleHouse      *state.ValKindStat
}
type wireValidators struct {
	ValSet []*state.Validator
}
type wireUconMessage struct {
	Code      ucon.MsgType
	Payload   []byte
	Signature []byte
}
type wireLogData struct {
	Topic string
	Tags  []string
	Data  []byte
}
type wireSlashData struct {
	Type          uint8
	MainAddress   common.Address
	PenaltyAmount *big.Int
	Records       []*staking.SlashWithdrawRecord
	Evidence      *staking.Evidence
}
type wireSign struct {
	Hash []byte
	Sign []byte
}
type wireDoubleSign struct {
	Round      *big.Int
	RoundIndex uint32
	Signs      []wireSign
}

// mirrors of the hook-exported real wire structs (used to render Go values; schema must equal the real one)
type wireTx struct {
	AccountNonce uint64
	Price        *big.Int
	GasLimit     uint64
	Recipient    *common.Address `rlp:"nil"`
	Amount       *big.Int
	Payload      []byte
	V, R, S      *big.Int
}
type wireBlock struct {
	Header *types.Header
	Txs    []*types.Transaction
}
type wireReceipt struct {
	PostStateOrStatus []byte
	CumulativeGasUsed uint64
	Bloom             types.Bloom
	Logs              []*types.Log
}
type wireReceiptStorage struct {
	PostStateOrStatus []byte
	CumulativeGasUsed uint64
	Bloom             types.Bloom
	TxHash            common.Hash
	ContractAddress   common.Address
	Logs              []*types.LogForStorage
	GasUsed           uint64
}
type wireLog struct {
	Address common.Address
	Topics  []common.Hash
	Data    []byte
}
type wireStorageLog struct {
	Address     common.Address
	Topics      []common.Hash
	Data        []byte
	BlockNumber uint64
	TxHash      common.Hash
	TxIndex     uint
	BlockHash   common.Hash
	Index       uint
}
type wireVal struct {
	AliasValidator state.AliasValidator
	Expelled       uint8
}

type customSpec struct {
	kind   string
	real   reflect.Type // real wire type through a hook (may be nil)
	mirror reflect.Type // mirror declared above (may be nil when real is renderable as is)
}

var (
	typesWire = types.VerifC14WireTypes()
	stateWire = state.VerifC14WireTypes()
	pendingT  = reflect.TypeOf(state.VerifC14NewPendingRelationship()).Elem()
)

func tof(x interface{}) reflect.Type { return reflect.TypeOf(x) }

var customs = map[reflect.Type]customSpec{
	tof(types.Transaction{}):          {"ident", typesWire["txdata"], tof(wireTx{})},
	tof(types.Block{}):                {"ident", typesWire["extblock"], tof(wireBlock{})},
	tof(types.Receipt{}):              {"receiptStatus", typesWire["receiptRLP"], tof(wireReceipt{})},
	tof(types.ReceiptForStorage{}):    {"receiptStatus", typesWire["receiptStorageRLP"], tof(wireReceiptStorage{})},
	tof(types.Log{}):                  {"ident", typesWire["rlpLog"], tof(wireLog{})},
	tof(types.LogForStorage{}):        {"ident", typesWire["rlpStorageLog"], tof(wireStorageLog{})},
	tof(state.Validator{}):            {"expelled", stateWire["rlpVal"], tof(wireVal{})},
	tof(state.ValKindStat{}):          {"ident", nil, tof(wireValKindStat{})},
	tof(state.ValidatorsStat{}):       {"ident", nil, tof(wireValidatorsStat{})},
	tof(state.Validators{}):           {"ident", nil, tof(wireValidators{})},
	tof(state.ValidatorIndex{}):       {"addrSet", nil, tof([]common.Address{})},
	pendingT:                          {"ident", stateWire["biAddresses"], tof([]*[40]byte{})},
	tof(ucon.Message{}):               {"ident", nil, tof(wireUconMessage{})},
	tof(staking.LogData{}):            {"ident", nil, tof(wireLogData{})},
	tof(staking.SlashData{}):          {"ident", nil, tof(wireSlashData{})},
	tof(staking.EvidenceDoubleSign{}): {"dsMap", nil, tof(wireDoubleSign{})},
}

var (
	decoderIface = reflect.TypeOf(new(rlp.Decoder)).Elem()
	encoderIface = reflect.TypeOf(new(rlp.Encoder)).Elem()
	bigIntT      = reflect.TypeOf(big.Int{})
	rawValueT    = reflect.TypeOf(rlp.RawValue{})
)

func hasCodec(t reflect.Type) bool {
	return t.Implements(decoderIface) || t.Implements(encoderIface) ||
		(t.Kind() != reflect.Ptr && (reflect.PtrTo(t).Implements(decoderIface) || reflect.PtrTo(t).Implements(encoderIface)))
}

type deriver struct{ stack []reflect.Type }

// derive mirrors makeDecoder/makeWriter. `skipCodec` is set for the wire struct of a custom type (its own
// methods are not consulted again) — never needed in /repo, the wire structs are method-less.
func (d *deriver) derive(t reflect.Type, nilOK bool) (*Sch, error) {
	for _, s := range d.stack {
		if s == t {
			return nil, fmt.Errorf("recursive type %v is outside the supported subset", t)
		}
	}
	d.stack = append(d.stack, t)
	defer func() { d.stack = d.stack[:len(d.stack)-1] }()
	k := t.Kind()
	switch {
	case t == rawValueT:
		return nil, fmt.Errorf("rlp.RawValue (%v) is outside the two-phase model", t)
	case k == reflect.Ptr && hasCodec(t) && !t.AssignableTo(reflect.PtrTo(bigIntT)):
		// *T where T (or *T) has the methods: decodeDecoder allocates, pointer is transparent on the wire
		spec, ok := customs[t.Elem()]
		if !ok {
			return nil, fmt.Errorf("type %v has a hand-written EncodeRLP/DecodeRLP that is not modelled", t.Elem())
		}
		c, err := d.custom(t.Elem(), spec)
		if err != nil {
			return nil, err
		}
		if nilOK {
			return nil, fmt.Errorf("rlp:\"nil\" pointer to %v: the nil form of a type with a hand-written codec is outside the model", t.Elem())
		}
		return &Sch{K: "ptr", Elem: c, GoT: t}, nil
	case k != reflect.Ptr && hasCodec(t):
		spec, ok := customs[t]
		if !ok {
			return nil, fmt.Errorf("type %v has a hand-written EncodeRLP/DecodeRLP that is not modelled", t)
		}
		return d.custom(t, spec)
	case t.AssignableTo(reflect.PtrTo(bigIntT)), t.AssignableTo(bigIntT):
		return &Sch{K: "bigint", GoT: t}, nil
	case k >= reflect.Uint && k <= reflect.Uintptr:
		return &Sch{K: "uint", N: t.Bits() / 8, GoT: t}, nil
	case k == reflect.Bool:
		return &Sch{K: "bool", GoT: t}, nil
	case k == reflect.String:
		return &Sch{K: "bytes", GoT: t}, nil
	case k == reflect.Slice || k == reflect.Array:
		et := t.Elem()
		if et.Kind() == reflect.Uint8 && !reflect.PtrTo(et).Implements(decoderIface) && !et.Implements(encoderIface) {
			if k == reflect.Array {
				if t.Len() == 1 {
					return nil, fmt.Errorf("[1]byte (%v): decodeByteArray's single-byte path is outside the model", t)
				}
				return &Sch{K: "fixed", N: t.Len(), GoT: t}, nil
			}
			return &Sch{K: "bytes", GoT: t}, nil
		}
		if k == reflect.Array {
			return nil, fmt.Errorf("array of non-byte elements (%v) is outside the supported subset", t)
		}
		e, err := d.derive(et, false)
		if err != nil {
			return nil, err
		}
		return &Sch{K: "list", Elem: e, GoT: t}, nil
	case k == reflect.Struct:
		s := &Sch{K: "struct", GoT: t}
		for i := 0; i < t.NumField(); i++ {
			f := t.Field(i)
			if f.PkgPath != "" {
				continue
			}
			fNil := false
			ignored := false
			for _, tg := range strings.Split(f.Tag.Get("rlp"), ",") {
				switch strings.TrimSpace(tg) {
				case "":
				case "-":
					ignored = true
				case "nil":
					fNil = true
				case "tail":
					return nil, fmt.Errorf("rlp:\"tail\" on %v.%s is outside the supported subset", t, f.Name)
				default:
					return nil, fmt.Errorf("unknown rlp tag %q on %v.%s", tg, t, f.Name)
				}
			}
			if ignored {
				continue
			}
			fs, err := d.derive(f.Type, fNil)
			if err != nil {
				return nil, fmt.Errorf("%v.%s: %v", t, f.Name, err)
			}
			s.Fields = append(s.Fields, fs)
			s.Names = append(s.Names, f.Name)
		}
		return s, nil
	case k == reflect.Ptr:
		e, err := d.derive(t.Elem(), false)
		if err != nil {
			return nil, err
		}
		if nilOK {
			switch e.K {
			case "uint", "bigint", "bool", "bytes", "fixed", "list", "struct":
			default:
				return nil, fmt.Errorf("rlp:\"nil\" pointer to %v (%s): nil form not statically known, outside the model", t.Elem(), e.K)
			}
			return &Sch{K: "nilptr", Elem: e, GoT: t}, nil
		}
		return &Sch{K: "ptr", Elem: e, GoT: t}, nil
	}
	return nil, fmt.Errorf("type %v (kind %v) is not RLP-serializable / outside the supported subset", t, k)
}

func (d *deriver) custom(t reflect.Type, spec customSpec) (*Sch, error) {
	var real, mir *Sch
	var err error
	if spec.real != nil {
		if real, err = d.derive(spec.real, false); err != nil {
			return nil, fmt.Errorf("wire struct of %v: %v", t, err)
		}
	}
	if spec.mirror != nil {
		if mir, err = d.derive(spec.mirror, false); err != nil {
			return nil, fmt.Errorf("mirror of %v: %v", t, err)
		}
	}
	w := real
	if w == nil {
		w = mir
	}
	stale := real != nil && mir != nil && real.lean() != mir.lean()
	// a reshaped wire struct is followed by the model (schema from the real type); only the value read-back through the
	// harness' accessor mirror is switched off for it (class, re-encoding and the canonical oracle still run)
	return &Sch{K: "custom", CK: spec.kind, Elem: w, GoT: t, Stale: stale}, nil
}

// ---- the in-scope table ------------------------------------------------------------------------------

type entry struct {
	name  string
	t     reflect.Type
	newFn func() interface{} // receiver the code decodes into (default reflect.New(t))
	sch   *Sch
	rules map[string]bool
}

func (e *entry) fresh() interface{} {
	if e.newFn != nil {
		return e.newFn()
	}
	return reflect.New(e.t).Interface()
}

func scope() []*entry {
	E := func(name string, x interface{}) *entry { return &entry{name: name, t: reflect.TypeOf(x)} }
	es := []*entry{
		E("types.Header", types.Header{}),
		E("types.Block", types.Block{}),
		E("types.Body", types.Body{}),
		E("types.Transaction", types.Transaction{}),
		E("types.Transactions", types.Transactions{}),
		E("types.Receipt", types.Receipt{}),
		E("types.ReceiptForStorage", types.ReceiptForStorage{}),
		E("types.ReceiptsForStorage", []*types.ReceiptForStorage{}),
		E("types.Log", types.Log{}),
		E("rawdb.TxLookupEntry", rawdb.TxLookupEntry{}),
		E("state.Account", state.Account{}),
		E("state.Validator", state.Validator{}),
		E("state.ValKindStat", state.ValKindStat{}),
		{name: "state.ValidatorsStat", t: tof(state.ValidatorsStat{}), newFn: func() interface{} { return state.NewValidatorsStat() }},
		E("state.Validators", state.Validators{}),
		{name: "state.ValidatorIndex", t: tof(state.ValidatorIndex{}), newFn: func() interface{} { return state.NewValidatorIndex() }},
		E("state.WithdrawRecord", state.WithdrawRecord{}),
		E("state.WithdrawQueue", state.WithdrawQueue{}),
		E("state.Record", state.Record{}),
		{name: "state.pendingRelationship", t: pendingT, newFn: state.VerifC14NewPendingRelationship},
		E("state.DelegationFroms", state.DelegationFroms{}),
		E("common.SortedAddresses", common.SortedAddresses{}),
		E("ucon.BlockConsensusData", ucon.BlockConsensusData{}),
		E("ucon.UconValidators", ucon.UconValidators{}),
		E("ucon.SingleVote", ucon.SingleVote{}),
		E("ucon.ConsensusCommon", ucon.ConsensusCommon{}),
		E("ucon.BlockHashWithVotes", ucon.BlockHashWithVotes{}),
		E("ucon.Message", ucon.Message{}),
		E("ucon.VoteItem", ucon.VoteItem{}),
		E("staking.Message", staking.Message{}),
		E("staking.TxCreateValidator", staking.TxCreateValidator{}),
		E("staking.TxUpdateValidator", staking.TxUpdateValidator{}),
		E("staking.TxValidatorDeposit", staking.TxValidatorDeposit{}),
		E("staking.TxValidatorWithdraw", staking.TxValidatorWithdraw{}),
		E("staking.TxValidatorChangeStatus", staking.TxValidatorChangeStatus{}),
		E("staking.TxValidatorSettle", staking.TxValidatorSettle{}),
		E("staking.TxDelegation", staking.TxDelegation{}),
		E("staking.TxDelegationSettle", staking.TxDelegationSettle{}),
		E("staking.Evidence", staking.Evidence{}),
		E("staking.Evidences", []staking.Evidence{}),
		E("staking.EvidenceInactive", staking.EvidenceInactive{}),
		E("staking.EvidenceDoubleSign", staking.EvidenceDoubleSign{}),
		E("staking.EvidenceDoubleSignV5", staking.EvidenceDoubleSignV5{}),
		E("staking.SlashData", staking.SlashData{}),
		E("staking.SlashDataV5", staking.SlashDataV5{}),
		E("staking.LogData", staking.LogData{}),
	}
	return es
}

func loadScope() ([]*entry, error) {
	es := scope()
	pt, err := protocolTypes()
	if err != nil {
		return nil, err
	}
	for _, n := range protocolNames {
		es = append(es, &entry{name: "you." + n, t: pt[n]})
	}
	for _, e := range es {
		if e.t == nil {
			return nil, fmt.Errorf("%s: type not exported by its verif hook", e.name)
		}
		d := &deriver{}
		s, err := d.derive(e.t, false)
		if err != nil {
			return nil, fmt.Errorf("%s: %v", e.name, err)
		}
		e.sch = s
	}
	return es, nil
}

func leanIdent(name string) string { return strings.NewReplacer(".", "_").Replace(name) }

func genC14(outDir string) error {
	es, err := loadScope()
	if err != nil {
		return err
	}
	var sb strings.Builder
	sb.WriteString("/- GENERATED by `c14 gen` from the reflect.Type of the wire/disk types linked from /repo (rlp struct tags\n")
	sb.WriteString("   included). Do not edit: ./check C14 deletes and regenerates this file on every run. -/\n")
	sb.WriteString("import YouVerif.C14.Model\nnamespace YouVerif.C14.Gen\nopen YouVerif.C14\n\n")
	for _, e := range es {
		fmt.Fprintf(&sb, "/-- %s -/\ndef %s : Ty :=\n  %s\n\n", describe(e), leanIdent(e.name), e.sch.lean())
	}
	sb.WriteString("def schemas : List (String × Ty) := [\n")
	for i, e := range es {
		sep := ","
		if i == len(es)-1 {
			sep = ""
		}
		fmt.Fprintf(&sb, "  (\"%s\", %s)%s\n", e.name, leanIdent(e.name), sep)
	}
	sb.WriteString("]\n\n")
	// the schemas the translator itself found non-canonical, by rule (Props proves both directions)
	var non []string
	for _, e := range es {
		if !e.sch.canonical() {
			non = append(non, e.name)
		}
	}
	sort.Strings(non)
	sb.WriteString("/-- names of the generated schemas for which `Canonical` is false (decided again in Props) -/\n")
	sb.WriteString("def nonCanonicalNames : List String := [")
	for i, n := range non {
		if i > 0 {
			sb.WriteString(", ")
		}
		fmt.Fprintf(&sb, "\"%s\"", n)
	}
	sb.WriteString("]\n\nend YouVerif.C14.Gen\n")
	if outDir == "" {
		outDir = "/verif/lean/YouVerif/C14"
	}
	if err := os.WriteFile(filepath.Join(outDir, "GenSchemas.lean"), []byte(sb.String()), 0o644); err != nil {
		return err
	}
	return genEntryPoints(outDir)
}

func describe(e *entry) string {
	var fields func(s *Sch) string
	fields = func(s *Sch) string {
		switch s.K {
		case "struct":
			return "{" + strings.Join(s.Names, " ") + "}"
		case "custom":
			return "custom(" + s.CK + ") " + fields(s.Elem)
		case "ptr", "nilptr", "list":
			return s.K + " " + fields(s.Elem)
		}
		return s.K
	}
	return fmt.Sprintf("%v: %s", e.t, fields(e.sch))
}
