package main

// Exploration (NOT a proof, labelled as such in the evidence): hostile payloads into the two message entry points
// built on package rlp — ucon MessageHandler.HandleMsg (consensus gossip) and staking TxConverter.ApplyMessage
// (staking transactions) — under recover. Payloads: model-encoded values of the matching schema, their mutations,
// random bytes; for HandleMsg the attacker signs what it sends, so the signature is valid most of the time and the
// payload decoders are reached.

import (
	"crypto/ecdsa"
	"fmt"
	"math/big"
	"sort"
	"strings"
	"time"

	"github.com/youchainhq/go-youchain/common"
	"github.com/youchainhq/go-youchain/consensus/ucon"
	"github.com/youchainhq/go-youchain/core"
	"github.com/youchainhq/go-youchain/core/state"
	"github.com/youchainhq/go-youchain/core/types"
	"github.com/youchainhq/go-youchain/core/vm"
	"github.com/youchainhq/go-youchain/crypto"
	"github.com/youchainhq/go-youchain/event"
	"github.com/youchainhq/go-youchain/local"
	"github.com/youchainhq/go-youchain/params"
	"github.com/youchainhq/go-youchain/rlp"
	"github.com/youchainhq/go-youchain/staking"
	"github.com/youchainhq/go-youchain/youdb"

	"verifharness/internal/vh"
)

var (
	hostKey  *ecdsa.PrivateKey
	hostAddr common.Address
	hostMH   *ucon.MessageHandler
	hostMux  *event.TypeMux
	hostLast string // outcome class of the last hostileOne call (for the distribution)
)

func errClass(err error) string {
	if err == nil {
		return "nil"
	}
	s := err.Error()
	for _, k := range []string{"decode from msg.data", "recovery failed", "invalid signature", "MsgSizeNotMatch", "Empty Round", "UnkownMsgCode", "get validator", "rlp:"} {
		if strings.Contains(s, k) {
			return strings.ReplaceAll(k, " ", "-")
		}
	}
	return "other-error"
}

func hostInit() {
	if hostMH != nil {
		return
	}
	params.InitNetworkId(params.NetworkIdForTestCase)
	hostKey, _ = crypto.ToECDSA(common.Hex2Bytes("4c0883a69102937d6231471b5dbb6204fe5129617082792ae468d01a3f362318"))
	hostAddr = crypto.PubkeyToAddress(hostKey.PublicKey)
	getVal := func(round *big.Int, addr common.Address, lb params.LookBackType) (*state.Validator, bool) {
		return &state.Validator{OperatorAddress: addr, Coinbase: addr, Role: params.RoleChancellor, Status: params.ValidatorOnline,
			Token: big.NewInt(1), Stake: big.NewInt(1)}, false
	}
	hostMux = new(event.TypeMux)
	hostMH = ucon.NewMessageHandler(hostKey, hostMux, getVal,
		func(ev ucon.ReceivedMsgEvent) (error, bool) { return nil, true },
		func(msg *ucon.CachedPriorityMessage, st ucon.MsgReceivedStatus) (error, bool) { return nil, false },
		func(msg *ucon.CachedBlockMessage, st ucon.MsgReceivedStatus) (error, bool) { return nil, false },
		func(ev ucon.VoteMsgEvent, st ucon.MsgReceivedStatus) (error, bool) { return nil, false })
}

// hostileOne runs one entry point on one input under recover; returns "" or the description of the crash.
func hostileOne(kind string, data []byte) (what string) {
	hostInit()
	defer func() {
		if r := recover(); r != nil {
			what = fmt.Sprintf("%s panics on hostile input: %v", kind, r)
		}
	}()
	switch kind {
	case "ucon":
		hostLast = errClass(hostMH.HandleMsg(data, time.Unix(1700000000, 0)))
	case "logdata":
		_, _, _, err := staking.DecodeLogDataFromBytes(data)
		hostLast = errClass(err)
	case "staking":
		db := state.NewDatabase(youdb.NewMemDatabase())
		st, err := state.New(common.Hash{}, common.Hash{}, common.Hash{}, db)
		if err != nil {
			return "harness: cannot create state: " + err.Error()
		}
		st.AddBalance(hostAddr, new(big.Int).Lsh(big.NewInt(1), 100))
		// a validator operated by the sender, so that update/deposit/withdraw/status/settle/delegation get past the
		// "validator not found" check when the payload names it
		pub := crypto.CompressPubkey(&hostKey.PublicKey)
		tok := new(big.Int).Mul(big.NewInt(1000000), big.NewInt(1000000000000000000))
		st.CreateValidator("v", hostAddr, hostAddr, params.RoleHouse, pub, []byte{1, 2, 3}, tok, params.YOUToStake(tok), 1, 100, 100, params.ValidatorOnline)
		yp := params.Versions[params.YouV5]
		cfg := &vm.Config{}
		cfg.CurrYouParams = &yp
		to := params.StakingModuleAddress
		msg := types.NewMessage(hostAddr, &to, 0, new(big.Int), 10000000, big.NewInt(1), data, false)
		hdr := &types.Header{Number: big.NewInt(1000), Time: 1700000000, GasLimit: 100000000, CurrVersion: params.YouV5,
			GasRewards: new(big.Int), Subsidy: new(big.Int)}
		ctx := core.NewMsgContext(msg, st, nil, hdr, hostAddr, new(core.GasPool).AddGas(100000000), cfg, local.FakeRecorder())
		ctx.InitialGas, ctx.AvailableGas = 10000000, 10000000
		_, _, failed, err := (&staking.TxConverter{}).ApplyMessage(ctx)
		hostLast = fmt.Sprintf("failed=%v-%s", failed, errClass(err))
	}
	return ""
}

func hostValAddr() common.Address {
	hostInit()
	return state.PubToAddress(crypto.CompressPubkey(&hostKey.PublicKey))
}

// substAddr replaces 20-byte strings of a value by addr (each with probability 1/2)
func substAddr(r *vh.RNG, v *Val, addr []byte) {
	switch v.K {
	case 'b':
		if len(v.B) == 20 && r.Bool() {
			v.B = append([]byte{}, addr...)
		}
	case 'l':
		for _, x := range v.L {
			substAddr(r, x, addr)
		}
	case 'S':
		substAddr(r, v.Of, addr)
	}
}

func (h *H) modelBytes(name string, r *vh.RNG, addr ...[]byte) []byte {
	e := h.byName[name]
	if e == nil {
		return nil
	}
	v := genVal(r, e.sch, 3)
	for _, a := range addr {
		substAddr(r, v, a)
	}
	ans := strings.Fields(h.ask("E " + name + " " + v.String()))
	if len(ans) != 2 || ans[0] != "ok" {
		return nil
	}
	return unhx(ans[1])
}

func (h *H) hostile() {
	hostInit()
	r := h.c.R
	n := h.c.N(3000, 40000)
	if h.c.Search {
		n *= 3
	}
	perturb := func(bs []byte) ([]byte, string) {
		switch r.Intn(4) {
		case 0:
			return bs, "valid"
		case 3:
			return r.Bytes(r.Intn(40)), "random"
		}
		if t, err := parseTree(bs); err == nil {
			k, m := mutate(r, t)
			return m, k
		}
		return bs, "valid"
	}
	uconSchemas := map[uint8]string{1: "ucon.ConsensusCommon", 2: "types.Block", 3: "ucon.BlockHashWithVotes", 4: "ucon.BlockHashWithVotes",
		5: "ucon.BlockHashWithVotes", 6: "ucon.BlockHashWithVotes"}
	for i := 0; i < n && h.err == nil; i++ {
		code := uint8(r.Intn(8))
		if r.Chance(3) {
			code = uint8(r.Intn(256))
		}
		sch := uconSchemas[code]
		if sch == "" {
			sch = "ucon.SingleVote"
		}
		payload, label := perturb(h.modelBytes(sch, r))
		var sig []byte
		if r.Chance(85) {
			sig, _ = ucon.Sign(hostKey, append(append([]byte{}, payload...), code))
		} else {
			sig = r.Bytes([]int{0, 64, 65, 66}[r.Intn(4)])
		}
		data, _ := rlp.EncodeToBytes(&ucon.Message{Code: ucon.MsgType(code), Payload: payload, Signature: sig})
		if r.Chance(10) {
			data, _ = perturb(data)
			label += "+outer"
		}
		h.res.Count("M|ucon|"+string(data), label != "random")
		if w := hostileOne("ucon", data); w != "" {
			h.fail("oracle", "", "ucon-handler", w+" ("+label+")", []string{"M ucon " + hx(data)})
		} else {
			h.res.Dist("hostile-ucon:" + hostLast)
		}
	}
	// staking.DecodeLogDataFromBytes: a LogData envelope whose Data is decoded again according to its topic
	topics := map[string]string{staking.LogTopicCreate: "state.Validator", staking.LogTopicUpdate: "state.Validator", staking.LogTopicDeposit: "state.Validator",
		staking.LogTopicChangeStatus: "state.Validator", staking.LogTopicWithdraw: "state.WithdrawRecord", staking.LogTopicWithdrawResult: "state.WithdrawRecord",
		staking.LogTopicSettle: "staking.Message", staking.LogTopicRewards: "staking.Message", staking.LogTopicSlashing: "staking.SlashData", "unknown": "state.Record"}
	var topicNames []string
	for k := range topics {
		topicNames = append(topicNames, k)
	}
	sort.Strings(topicNames)
	for i := 0; i < n/3 && h.err == nil; i++ {
		topic := topicNames[r.Intn(len(topicNames))]
		payload, label := perturb(h.modelBytes(topics[topic], r))
		data, _ := rlp.EncodeToBytes(&staking.LogData{Topic: topic, Tags: []string{"a"}, Data: payload})
		if r.Chance(15) {
			data, _ = perturb(data)
			label += "+outer"
		}
		h.res.Count("M|logdata|"+string(data), label != "random")
		if w := hostileOne("logdata", data); w != "" {
			h.fail("oracle", "", "logdata-decoder", w+" ("+label+")", []string{"M logdata " + hx(data)})
		} else {
			h.res.Dist("hostile-logdata:" + hostLast)
		}
	}
	h.honestSendLoop()
	stakingSchemas := map[uint8]string{1: "staking.TxCreateValidator", 2: "staking.TxUpdateValidator", 3: "staking.TxValidatorDeposit",
		4: "staking.TxValidatorWithdraw", 5: "staking.TxValidatorChangeStatus", 6: "staking.TxValidatorSettle",
		0x10: "staking.TxDelegation", 0x11: "staking.TxDelegation", 0x12: "staking.TxDelegationSettle"}
	actions := []uint8{1, 2, 3, 4, 5, 6, 0x10, 0x11, 0x12, 0, 7, 0x13, 0xff}
	for i := 0; i < n/3 && h.err == nil; i++ {
		act := actions[r.Intn(len(actions))]
		sch := stakingSchemas[act]
		if sch == "" {
			sch = "staking.TxValidatorSettle"
		}
		va := hostValAddr()
		payload, label := perturb(h.modelBytes(sch, r, va.Bytes()))
		data, _ := rlp.EncodeToBytes(&staking.Message{Action: staking.ActionType(act), Payload: payload})
		if r.Chance(15) {
			data, _ = perturb(data)
			label += "+outer"
		}
		h.res.Count("M|staking|"+string(data), label != "random")
		if w := hostileOne("staking", data); w != "" {
			h.fail("oracle", "", "staking-converter", w+" ("+label+")", []string{"M staking " + hx(data)})
		} else {
			h.res.Dist("hostile-staking:" + hostLast)
		}
	}
}

// honestSendLoop: the handler's own sending path (Start, eventLoop, sendMsg: sign + Message.Encode + gossip event) and
// context updates; every message the node itself would gossip must get past decoding and signature recovery of HandleMsg.
func (h *H) honestSendLoop() {
	r := h.c.R
	hostMH.Start()
	defer hostMH.Stop()
	sub := hostMux.Subscribe(ucon.MessageEvent{})
	defer sub.Unsubscribe()
	n := h.c.N(60, 600)
	for i := 0; i < n; i++ {
		code := uint8(1 + r.Intn(6))
		sch := map[uint8]string{1: "ucon.ConsensusCommon", 2: "types.Block"}[code]
		if sch == "" {
			sch = "ucon.BlockHashWithVotes"
		}
		payload := h.modelBytes(sch, r)
		if payload == nil {
			continue
		}
		if i%10 == 0 {
			hostMux.Post(ucon.ContextChangeEvent{Round: big.NewInt(int64(1 + r.Intn(5))), RoundIndex: uint32(r.Intn(3)), Step: ucon.UConStepStart})
		}
		hostMux.Post(ucon.SendMessageEvent{Code: ucon.MsgType(code), Payload: payload, Round: big.NewInt(1)})
		select {
		case ev := <-sub.Chan():
			me, ok := ev.Data.(ucon.MessageEvent)
			if !ok {
				continue
			}
			if w := hostileOne("ucon", me.Payload); w != "" {
				h.fail("oracle", "", "ucon-honest-send", w+" (message produced by the handler's own sendMsg)", []string{"M ucon " + hx(me.Payload)})
				continue
			}
			h.res.Dist("honest-send:" + hostLast)
			switch hostLast {
			case "decode-from-msg.data", "invalid-signature", "recovery-failed":
				h.fail("oracle", "", "ucon-honest-send", "HandleMsg does not take back a message produced by the handler's own sendMsg: "+hostLast, []string{"M ucon " + hx(me.Payload)})
			}
		case <-time.After(5 * time.Second):
			h.res.Dist("honest-send:timeout-not-exercised")
			return
		}
	}
}
