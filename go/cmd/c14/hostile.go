package main

func (h *H) hostile() {}

func hostileOne(kind string, payload []byte) string { return "" }
