package main

// "Honest values" stream: Go values of the real types built the way the node builds them (exported constructors,
// exported fields filled by reflection), including the nil forms the encoder has to cope with (nil *big.Int, nil
// slices, nil rlp:"nil" pointers, contract-creation transactions). They are encoded by the REAL encoder; the bytes
// then go through typedCase (real decoder + model), with the abstraction of the original value as the value the
// decoder must give back — the property's round-trip statement evaluated on the real code.

import (
	"fmt"
	"math/big"
	"reflect"

	"github.com/youchainhq/go-youchain/common"
	"github.com/youchainhq/go-youchain/core/state"
	"github.com/youchainhq/go-youchain/core/types"
	"github.com/youchainhq/go-youchain/staking"

	"verifharness/internal/vh"
)

var errNoGoGen = fmt.Errorf("no Go-side generator for this type")

var (
	txT       = reflect.TypeOf(types.Transaction{})
	blockT    = reflect.TypeOf(types.Block{})
	receiptT  = reflect.TypeOf(types.Receipt{})
	receiptST = reflect.TypeOf(types.ReceiptForStorage{})
	valIndexT = reflect.TypeOf(state.ValidatorIndex{})
	slashT    = reflect.TypeOf(staking.SlashData{})
	valT      = reflect.TypeOf(state.Validator{})
	evidenceT = reflect.TypeOf(staking.Evidence{})
	bigPtrT   = reflect.TypeOf((*big.Int)(nil))
)

// goSkip: types with unexported state and no setter (covered by the model-encoded stream only)
var goSkip = map[reflect.Type]bool{
	reflect.TypeOf(state.ValKindStat{}):    true,
	reflect.TypeOf(state.ValidatorsStat{}): true,
	reflect.TypeOf(state.Validators{}):     true,
}

func genBig(r *vh.RNG) *big.Int { return genNat(r, -1) }

// genGo fills v (settable) with a random value of its type. Pointers are non-nil except *big.Int (sometimes nil),
// and pointers named in nilOK positions.
func genGo(r *vh.RNG, v reflect.Value, size int, nilOK bool) error {
	t := v.Type()
	if goSkip[t] || t == pendingT || (t.Kind() == reflect.Ptr && (goSkip[t.Elem()] || t.Elem() == pendingT)) {
		return errNoGoGen
	}
	switch {
	case t == bigPtrT:
		if r.Chance(10) {
			v.Set(reflect.Zero(t)) // nil *big.Int: encoded as 0
		} else {
			v.Set(reflect.ValueOf(genBig(r)))
		}
		return nil
	case t == bigIntT:
		v.Set(reflect.ValueOf(*genBig(r)))
		return nil
	case t == reflect.PtrTo(txT):
		v.Set(reflect.ValueOf(genTx(r)))
		return nil
	case t == txT:
		v.Set(reflect.ValueOf(*genTx(r)))
		return nil
	case t == reflect.PtrTo(blockT), t == blockT:
		var hdr types.Header
		if err := genGo(r, reflect.ValueOf(&hdr).Elem(), size, false); err != nil {
			return err
		}
		var txs []*types.Transaction
		for i := r.Intn(size + 1); i > 0; i-- {
			txs = append(txs, genTx(r))
		}
		b := types.NewBlock(&hdr, txs, nil)
		if t.Kind() == reflect.Ptr {
			v.Set(reflect.ValueOf(b))
		} else {
			return errNoGoGen // a Block value would copy its atomic caches; the node only handles *Block
		}
		return nil
	case t == valIndexT:
		return errNoGoGen
	case t == reflect.PtrTo(valIndexT):
		idx := state.NewValidatorIndex()
		for i := r.Intn(size + 2); i > 0; i-- {
			idx.Add(common.BytesToAddress(genBytes(r, 20)))
		}
		v.Set(reflect.ValueOf(idx))
		return nil
	}
	switch t.Kind() {
	case reflect.Uint8, reflect.Uint16, reflect.Uint32, reflect.Uint64, reflect.Uint:
		n := genNat(r, t.Bits()/8)
		v.SetUint(n.Uint64() & (^uint64(0) >> uint(64-t.Bits())))
	case reflect.Bool:
		v.SetBool(r.Bool())
	case reflect.String:
		v.SetString(string(genBytes(r, -1)))
	case reflect.Array:
		if t.Elem().Kind() != reflect.Uint8 {
			return errNoGoGen
		}
		reflect.Copy(v, reflect.ValueOf(genBytes(r, t.Len())))
	case reflect.Slice:
		if t.Elem().Kind() == reflect.Uint8 {
			if r.Chance(10) {
				v.Set(reflect.Zero(t)) // nil []byte
			} else {
				v.SetBytes(genBytes(r, -1))
			}
			return nil
		}
		if r.Chance(10) {
			v.Set(reflect.Zero(t)) // nil slice: encoded as the empty list
			return nil
		}
		n := r.Intn(size + 1)
		s := reflect.MakeSlice(t, n, n)
		for i := 0; i < n; i++ {
			if err := genGo(r, s.Index(i), size/2, false); err != nil {
				return err
			}
		}
		v.Set(s)
	case reflect.Ptr:
		if nilOK && r.Chance(35) {
			v.Set(reflect.Zero(t))
			return nil
		}
		p := reflect.New(t.Elem())
		if err := genGo(r, p.Elem(), size, false); err != nil {
			return err
		}
		v.Set(p)
	case reflect.Map:
		// EvidenceDoubleSign.Signs: map[common.Hash][]byte
		m := reflect.MakeMap(t)
		for i := r.Intn(3); i > 0; i-- {
			k := reflect.New(t.Key()).Elem()
			e := reflect.New(t.Elem()).Elem()
			if err := genGo(r, k, size, false); err != nil {
				return err
			}
			if err := genGo(r, e, size, false); err != nil {
				return err
			}
			m.SetMapIndex(k, e)
		}
		v.Set(m)
	case reflect.Interface:
		// SlashData.Evidence: the node stores *staking.Evidence
		ev := &staking.Evidence{Type: string(genBytes(r, -1)), Data: genBytes(r, -1)}
		v.Set(reflect.ValueOf(ev))
	case reflect.Struct:
		for i := 0; i < t.NumField(); i++ {
			f := t.Field(i)
			if f.PkgPath != "" {
				continue
			}
			tag := f.Tag.Get("rlp")
			if tag == "-" && !(t == valT && f.Name == "Expelled") {
				continue
			}
			if err := genGo(r, v.Field(i), size, tag == "nil"); err != nil {
				return fmt.Errorf("%v.%s: %w", t, f.Name, err)
			}
		}
		switch t {
		case receiptT, receiptST:
			// the value space of a receipt: a 32-byte post state, or a status
			rc := v.Addr().Interface()
			var rr *types.Receipt
			if t == receiptT {
				rr = rc.(*types.Receipt)
			} else {
				rr = (*types.Receipt)(rc.(*types.ReceiptForStorage))
			}
			if r.Bool() {
				rr.PostState, rr.Status = genBytes(r, 32), 0
			} else {
				rr.PostState, rr.Status = nil, uint64(r.Intn(2))
			}
		}
	default:
		return errNoGoGen
	}
	return nil
}

func genTx(r *vh.RNG) *types.Transaction {
	data := genBytes(r, -1)
	if r.Chance(40) {
		return types.NewContractCreation(genNat(r, 8).Uint64(), genBig(r), genNat(r, 8).Uint64(), genBig(r), data)
	}
	return types.NewTransaction(genNat(r, 8).Uint64(), common.BytesToAddress(genBytes(r, 20)), genBig(r), genNat(r, 8).Uint64(), genBig(r), data)
}

// goValue builds one honest Go value for entry e (a pointer to it, as the node passes to rlp.Encode).
func goValue(r *vh.RNG, e *entry) (interface{}, error) {
	t := e.t
	switch t {
	case txT, blockT, valIndexT:
		p := reflect.New(reflect.PtrTo(t)).Elem()
		if err := genGo(r, p, 4, false); err != nil {
			return nil, err
		}
		return p.Interface(), nil
	}
	p := reflect.New(t)
	if err := genGo(r, p.Elem(), 4, false); err != nil {
		return nil, err
	}
	return p.Interface(), nil
}
