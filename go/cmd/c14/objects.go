package main

// Object-level history stream for the hash/size caches, and the "codec is a pure function of the value" stream under
// concurrency. Both evaluate the statement on the real code alone (no theorem changes: carried by correspondence).
//
//  objectHistories  Block / Header / Transaction carry atomic.Value caches (hash, size, from). A history is: build the
//     object, optionally WARM the caches (Hash(), Size()), apply a copy/derive method (Block.WithSeal with a header that
//     differs in random fields, Block.WithBody, CopyHeader, Transaction.WithSignature, encode->decode), then require
//       obj.Hash() == hash recomputed from the freshly decoded encoding of obj == Header().Hash() == the hash computed
//       independently from the encoding (keccak of the header bytes, seal fields blanked for ucon headers),
//       obj.Size() == len(encoding), and the cache-warm and the cache-cold history agree.
//  concurrentByValue  several goroutines encode their OWN distinct by-value byte arrays ([8]/[20]/[32]byte, common.Hash,
//     common.Address, inside []interface{} and inside structs passed by value) at the same time; every output is compared
//     with the sequential reference encoding of ITS value. Scheduling is not replayable: the replay re-runs the stream.

import (
	"bytes"
	"fmt"
	"math/big"
	"reflect"
	"runtime"
	"sync"

	"github.com/youchainhq/go-youchain/common"
	"github.com/youchainhq/go-youchain/core/types"
	"github.com/youchainhq/go-youchain/crypto"
	"github.com/youchainhq/go-youchain/rlp"

	"verifharness/internal/vh"
)

// headerHashRef: the header hash computed from the encoding alone.
func headerHashRef(h *types.Header) common.Hash {
	c := *h
	if c.MixDigest == types.UConMixHash {
		c.Validator, c.Signature, c.Certificate = []byte{}, []byte{}, []byte{}
	}
	return crypto.Keccak256Hash(enc(&c))
}

// checkBlock evaluates the statement on a block object.
func checkBlock(b *types.Block, what string) string {
	got := b.Hash()
	if hh := b.Header().Hash(); got != hh {
		return fmt.Sprintf("%s: Block.Hash() %x differs from the hash of the header it carries %x", what, got, hh)
	}
	if ref := headerHashRef(b.Header()); got != ref {
		return fmt.Sprintf("%s: Block.Hash() %x differs from the hash computed from the header encoding %x", what, got, ref)
	}
	e := enc(b)
	var d types.Block
	if err := rlp.DecodeBytes(e, &d); err != nil {
		return fmt.Sprintf("%s: the block does not decode from its own encoding: %v", what, err)
	}
	if d.Hash() != got {
		return fmt.Sprintf("%s: Block.Hash() %x differs from the Hash() %x of the block decoded from its own encoding", what, got, d.Hash())
	}
	if !bytes.Equal(enc(&d), e) {
		return what + ": the decoded block re-encodes differently"
	}
	if int(b.Size()) != len(e) || int(d.Size()) != len(e) {
		return fmt.Sprintf("%s: Size() = %d (decoded: %d) but the encoding has %d bytes", what, int(b.Size()), int(d.Size()), len(e))
	}
	return ""
}

func checkTx(tx *types.Transaction, what string) string {
	e := enc(tx)
	if h := tx.Hash(); h != crypto.Keccak256Hash(e) {
		return fmt.Sprintf("%s: Transaction.Hash() %x is not keccak256 of its encoding", what, h)
	}
	if int(tx.Size()) != len(e) {
		return fmt.Sprintf("%s: Transaction.Size() = %d but the encoding has %d bytes", what, int(tx.Size()), len(e))
	}
	var d types.Transaction
	if err := rlp.DecodeBytes(e, &d); err != nil {
		return fmt.Sprintf("%s: the transaction does not decode from its own encoding: %v", what, err)
	}
	if d.Hash() != tx.Hash() || int(d.Size()) != len(e) {
		return what + ": the decoded transaction has another hash or size"
	}
	return ""
}

// sealHistory: WithSeal on a (warm or cold) block. Returns why the statement fails, or "".
func sealHistory(blockRLP, sealHeaderRLP []byte, warm bool) string {
	var b types.Block
	if err := rlp.DecodeBytes(blockRLP, &b); err != nil {
		return ""
	}
	var sh types.Header
	if err := rlp.DecodeBytes(sealHeaderRLP, &sh); err != nil {
		return ""
	}
	// rebuild through the constructor so that the caches are those of a freshly built block
	nb := types.NewBlockWithHeader(b.Header()).WithBody(&types.Body{Transactions: b.Transactions()})
	if warm {
		nb.Hash()
		nb.Size()
	}
	sealed := nb.WithSeal(&sh)
	label := "cold"
	if warm {
		label = "warm"
	}
	if w := checkBlock(sealed, "WithSeal on a cache-"+label+" block"); w != "" {
		return w
	}
	if w := checkBlock(nb, "the block WithSeal was applied to ("+label+")"); w != "" {
		return w
	}
	return ""
}

func mutateHeader(r *vh.RNG, h *types.Header) {
	for k := r.Range(1, 3); k > 0; k-- {
		switch r.Intn(10) {
		case 0:
			h.Signature = r.Bytes(65)
		case 1:
			h.Validator = r.Bytes(r.Range(1, 80))
		case 2:
			h.Certificate = r.Bytes(r.Range(1, 80))
		case 3:
			h.Consensus = r.Bytes(r.Range(1, 60))
		case 4:
			h.MixDigest = types.UConMixHash
		case 5:
			h.MixDigest = common.BytesToHash(r.Bytes(32))
		case 6:
			h.Extra = r.Bytes(r.Intn(40))
		case 7:
			h.Time = uint64(r.Intn(1 << 30))
		case 8:
			h.SlashData = r.Bytes(r.Intn(40))
		case 9:
			h.GasUsed = uint64(r.Intn(1 << 20))
		}
	}
}

func (h *H) objFail(kind, why string, body []string) {
	h.fail("oracle", "", "object "+kind, "object history ("+kind+"): "+why, body)
}

func (h *H) objectHistories() {
	r := h.c.R
	n := h.c.N(400, 6000)
	signer := types.NewYouSigner(1)
	for i := 0; i < n; i++ {
		var hdr types.Header
		if err := genGo(r, reflect.ValueOf(&hdr).Elem(), 3, false); err != nil {
			return
		}
		switch r.Intn(3) {
		case 0:
			hdr.MixDigest = types.UConMixHash
		case 1:
			hdr.MixDigest = common.Hash{}
		}
		var txs []*types.Transaction
		for k := r.Intn(4); k > 0; k-- {
			txs = append(txs, genTx(r))
		}
		b := types.NewBlock(&hdr, txs, nil)
		blockRLP := enc(b)
		// --- Header: CopyHeader and decode keep the hash
		h0 := b.Header()
		if hh, ref := h0.Hash(), headerHashRef(h0); hh != ref {
			h.objFail("header", fmt.Sprintf("Header.Hash() %x differs from the hash computed from its encoding %x", hh, ref), []string{"T types.Header " + hx(enc(h0))})
		}
		if c := types.CopyHeader(h0); c.Hash() != h0.Hash() || !bytes.Equal(enc(c), enc(h0)) {
			h.objFail("header", "CopyHeader changes the hash or the encoding", []string{"T types.Header " + hx(enc(h0))})
		}
		// --- Block.WithSeal, warm and cold
		sh := b.Header()
		mutateHeader(r, sh)
		sealRLP := enc(sh)
		for _, warm := range []bool{true, false} {
			h.res.Dist("object-history:WithSeal")
			h.res.Count(fmt.Sprintf("O|seal|%v|%x|%x", warm, blockRLP, sealRLP), true)
			if w := sealHistory(blockRLP, sealRLP, warm); w != "" {
				h.objFail("Block.WithSeal", w, []string{fmt.Sprintf("O WithSeal %v %s %s", warm, hx(blockRLP), hx(sealRLP))})
				break
			}
		}
		// --- Block.WithBody, warm and cold
		var txs2 []*types.Transaction
		for k := r.Intn(4); k > 0; k-- {
			txs2 = append(txs2, genTx(r))
		}
		for _, warm := range []bool{true, false} {
			nb := types.NewBlock(&hdr, txs, nil)
			if warm {
				nb.Hash()
				nb.Size()
			}
			wb := nb.WithBody(&types.Body{Transactions: txs2})
			h.res.Dist("object-history:WithBody")
			if w := checkBlock(wb, fmt.Sprintf("WithBody (warm=%v)", warm)); w != "" {
				h.objFail("Block.WithBody", w, []string{"T types.Block " + hx(enc(wb))})
				break
			}
			if w := checkBlock(nb, fmt.Sprintf("block WithBody was applied to (warm=%v)", warm)); w != "" {
				h.objFail("Block.WithBody", w, []string{"T types.Block " + hx(enc(nb))})
				break
			}
		}
		// --- Transaction.WithSignature, warm and cold
		tx := genTx(r)
		sig := r.Bytes(65)
		sig[64] = byte(r.Intn(2))
		for _, warm := range []bool{true, false} {
			t0 := tx
			if !warm {
				var d types.Transaction
				if rlp.DecodeBytes(enc(tx), &d) == nil {
					t0 = &d
				}
			} else {
				t0.Hash()
				t0.Size()
			}
			st, err := t0.WithSignature(signer, sig)
			if err != nil {
				continue
			}
			h.res.Dist("object-history:WithSignature")
			if w := checkTx(st, fmt.Sprintf("WithSignature (warm=%v)", warm)); w != "" {
				h.objFail("Transaction.WithSignature", w, []string{"T types.Transaction " + hx(enc(st))})
				break
			}
			if w := checkTx(t0, fmt.Sprintf("transaction WithSignature was applied to (warm=%v)", warm)); w != "" {
				h.objFail("Transaction.WithSignature", w, []string{"T types.Transaction " + hx(enc(t0))})
				break
			}
		}
	}
}

// ---- concurrency: the encoder is a pure function of the value ---------------------------------------------------

type byValStruct struct {
	A [8]byte
	H common.Hash
	B common.Address
	N uint64
	C [32]byte
}

func refArr(b []byte) *node { return &node{b: append([]byte{}, b...)} }

func (h *H) concurrentByValue() {
	gor := 8
	if runtime.NumCPU() < 2 || runtime.GOMAXPROCS(0) < 2 {
		h.res.Partial = append(h.res.Partial, "concurrent by-value encoding not exercised: fewer than 2 CPUs")
		return
	}
	iters := h.c.N(4000, 60000)
	seed := h.c.R.U64()
	type bad struct{ what, want, got string }
	bads := make([]*bad, gor)
	var wg sync.WaitGroup
	start := make(chan struct{})
	for g := 0; g < gor; g++ {
		wg.Add(1)
		go func(g int) {
			defer wg.Done()
			defer func() {
				if r := recover(); r != nil {
					bads[g] = &bad{what: fmt.Sprintf("panic: %v", r)}
				}
			}()
			r := vh.NewRNG(seed + uint64(g)*7919)
			<-start
			for i := 0; i < iters && bads[g] == nil; i++ {
				var a8 [8]byte
				var a20 [20]byte
				var a32 [32]byte
				copy(a8[:], r.Bytes(8))
				copy(a20[:], r.Bytes(20))
				copy(a32[:], r.Bytes(32))
				// every array of goroutine g carries g in its first byte: a foreign array is recognisable
				a8[0], a20[0], a32[0] = byte(0x80+g), byte(0x80+g), byte(0x80+g)
				hs, ad := common.Hash(a32), common.Address(a20)
				st := byValStruct{A: a8, H: hs, B: ad, N: uint64(g), C: a32}
				cases := []struct {
					what string
					val  interface{}
					ref  *node
				}{
					{"[8]byte by value", a8, refArr(a8[:])},
					{"[20]byte by value", a20, refArr(a20[:])},
					{"[32]byte by value", a32, refArr(a32[:])},
					{"common.Hash by value", hs, refArr(a32[:])},
					{"common.Address by value", ad, refArr(a20[:])},
					{"[]interface{}{Hash, Address, [8]byte}", []interface{}{hs, ad, a8}, &node{list: true, kids: []*node{refArr(a32[:]), refArr(a20[:]), refArr(a8[:])}}},
					{"struct with arrays passed by value", st, &node{list: true, kids: []*node{refArr(a8[:]), refArr(a32[:]), refArr(a20[:]), refArr(big.NewInt(int64(g)).Bytes()), refArr(a32[:])}}},
				}
				c := cases[i%len(cases)]
				got, err := rlp.EncodeToBytes(c.val)
				want := c.ref.enc()
				if err != nil || !bytes.Equal(got, want) {
					bads[g] = &bad{what: fmt.Sprintf("goroutine %d, %s (err=%v)", g, c.what, err), want: hx(want), got: hx(got)}
				}
			}
		}(g)
	}
	close(start)
	wg.Wait()
	h.res.DistN("concurrent-by-value-encodes", gor*iters)
	h.res.Count(fmt.Sprintf("B|%d|%d|%d", seed, gor, iters), true)
	for _, b := range bads {
		if b != nil {
			h.fail("oracle", "", "concurrent-by-value", fmt.Sprintf("the encoder is not a pure function of the value under concurrency: %s\nencoding of its own value %s\nreturned             %s\n(scheduling is not replayable: the replay re-runs the concurrent stream)", b.what, b.want, b.got),
				[]string{fmt.Sprintf("B %d %d", gor, iters), "# want " + b.want, "# got  " + b.got})
			break
		}
	}
	h.res.Extra["concurrent_by_value"] = fmt.Sprintf("%d goroutines x %d encodes of distinct by-value byte arrays (GOMAXPROCS %d), each compared with the reference encoding of its own value", gor, iters, runtime.GOMAXPROCS(0))
}
