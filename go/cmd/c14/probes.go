package main

// Known-finding probes: one fixed witness per open finding (seed-independent), replayed on the real code.

import (
	"bytes"
	"fmt"
	"strings"

	"verifharness/internal/vh"
)

type probeSpec struct {
	id, rule, schema string
}

var probeSpecs = []probeSpec{
	{"F-C14a", "expelled", "state.Validator"},
	{"F-C14b", "addrSet", "state.ValidatorIndex"},
	{"F-C14c", "dsMap", "staking.EvidenceDoubleSign"},
}

// witness builds the fixed witness of a rule: the model's encoding of a fixed generated value, rewritten once by `wild`.
func (h *H) witness(p probeSpec) (e *entry, canon, bs []byte, err error) {
	e = h.byName[p.schema]
	if e == nil {
		return nil, nil, nil, fmt.Errorf("schema %s not in scope", p.schema)
	}
	if !e.rules[p.rule] {
		return e, nil, nil, fmt.Errorf("schema %s no longer contains rule %s", p.schema, p.rule)
	}
	r := vh.NewRNG(1400)
	for try := 0; try < 50; try++ {
		v := genVal(r, e.sch, 3)
		ans := strings.Fields(h.ask("E " + e.name + " " + v.String()))
		if len(ans) != 2 || ans[0] != "ok" {
			continue
		}
		canon = unhx(ans[1])
		t, perr := parseTree(canon)
		if perr != nil {
			continue
		}
		if wild(r, e.sch, t) == p.rule {
			return e, canon, t.enc(), nil
		}
	}
	return e, nil, nil, fmt.Errorf("no witness site for rule %s in %s", p.rule, p.schema)
}

func (h *H) probes() {
	for _, p := range probeSpecs {
		e, canon, bs, err := h.witness(p)
		if err != nil {
			h.res.Probes = append(h.res.Probes, vh.Probe{ID: p.id, Reproduced: false, What: err.Error()})
			continue
		}
		o := goDecode(e, bs)
		repro := false
		what := ""
		if o.pan != nil || o.err != nil {
			what = fmt.Sprintf("%s now rejects the witness (%v %v)", p.schema, o.err, o.pan)
		} else {
			re, _, _ := goEncode(o.g)
			if p.rule == "dsMap" {
				// the value has several encodings; the witness differs from all of them (duplicate / hash length)
				if t, perr := parseTree(re); perr == nil {
					re = sortDs(e.sch, t).enc()
				}
			}
			repro = !bytes.Equal(re, bs)
			what = fmt.Sprintf("%s accepts %x and re-encodes it as %x (canonical form of the witness: %x)", p.schema, bs, re, canon)
		}
		rp := vh.WriteReplay(h.c.ReplayDir, prop, "probe-"+p.id, 0, []string{"probe " + p.id + " rule " + p.rule, what}, []string{"T " + e.name + " " + hx(bs)})
		_ = rp
		h.res.Probes = append(h.res.Probes, vh.Probe{ID: p.id, Reproduced: repro, What: clip(what)})
	}
}
