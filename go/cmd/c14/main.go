package main

import "verifharness/internal/vh"

func main() {
	vh.Main(vh.Harness{Property: "C14", Run: run, Replay: replay, Gen: genC14})
}
