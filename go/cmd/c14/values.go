package main

// Values of the typed model (the `Val` text of the Lean driver), their seeded generator from a schema,
// and the abstraction function Go value -> Val (reflect walk along the schema; hand-written codecs are
// read through exported accessors into the mirror of their wire struct).

import (
	"bytes"
	"encoding/hex"
	"fmt"
	"math/big"
	"reflect"
	"sort"
	"strings"

	"github.com/youchainhq/go-youchain/common"
	"github.com/youchainhq/go-youchain/consensus/ucon"
	"github.com/youchainhq/go-youchain/core/state"
	"github.com/youchainhq/go-youchain/core/types"
	"github.com/youchainhq/go-youchain/params"
	"github.com/youchainhq/go-youchain/staking"

	"verifharness/internal/vh"
)

type Val struct {
	K  byte // 'n' 'b' 'l' 'N' 'S'
	N  *big.Int
	B  []byte
	L  []*Val
	Of *Val
}

func (v *Val) String() string {
	var sb strings.Builder
	v.write(&sb)
	return sb.String()
}
func (v *Val) write(sb *strings.Builder) {
	switch v.K {
	case 'n':
		sb.WriteByte('n')
		sb.WriteString(v.N.String())
	case 'b':
		sb.WriteByte('b')
		sb.WriteString(hex.EncodeToString(v.B))
	case 'l':
		sb.WriteByte('[')
		for i, x := range v.L {
			if i > 0 {
				sb.WriteByte(',')
			}
			x.write(sb)
		}
		sb.WriteByte(']')
	case 'N':
		sb.WriteByte('N')
	case 'S':
		sb.WriteByte('S')
		v.Of.write(sb)
	}
}

func vnum(u uint64) *Val   { return &Val{K: 'n', N: new(big.Int).SetUint64(u)} }
func vbig(b *big.Int) *Val { return &Val{K: 'n', N: new(big.Int).Set(b)} }
func vbytes(b []byte) *Val { return &Val{K: 'b', B: append([]byte{}, b...)} }
func vlist(l ...*Val) *Val { return &Val{K: 'l', L: l} }
func (v *Val) nested() bool { // has a list inside a list
	if v.K == 'S' {
		return v.Of.nested()
	}
	if v.K != 'l' {
		return false
	}
	for _, x := range v.L {
		if x.K == 'l' || (x.K == 'S' && x.Of.K == 'l') {
			return true
		}
	}
	return false
}

// ---- generator ------------------------------------------------------------------------------------------

func genBytes(r *vh.RNG, fixed int) []byte {
	if fixed >= 0 {
		b := r.Bytes(fixed)
		switch r.Intn(8) {
		case 0:
			for i := range b {
				b[i] = 0
			}
		case 1:
			for i := range b {
				b[i] = 0xff
			}
		case 2:
			if fixed > 0 {
				b[0] = 0
			}
		}
		return b
	}
	var n int
	switch r.Intn(12) {
	case 0:
		n = 0
	case 1:
		n = 1
	case 2:
		n = 55
	case 3:
		n = 56
	case 4:
		n = r.Range(57, 300)
	case 5:
		n = r.Range(250, 270) // around the 1-byte/2-byte length boundary
	case 6:
		n = 32
	default:
		n = r.Range(0, 40)
	}
	b := r.Bytes(n)
	if n == 1 {
		switch r.Intn(4) {
		case 0:
			b[0] = 0
		case 1:
			b[0] = 0x7f
		case 2:
			b[0] = 0x80
		}
	}
	if n > 0 && r.Chance(10) {
		b[0] = 0
	}
	return b
}

func genNat(r *vh.RNG, width int) *big.Int {
	// width in bytes; <0 = unbounded
	max := width
	if width < 0 {
		max = []int{0, 1, 8, 9, 20, 32, 33, 40}[r.Intn(8)]
	}
	switch r.Intn(8) {
	case 0:
		return big.NewInt(0)
	case 1:
		return big.NewInt(int64(r.Intn(3)))
	case 2:
		return big.NewInt(127 + int64(r.Intn(3)))
	case 3:
		if max == 0 {
			return big.NewInt(0)
		}
		x := new(big.Int).Lsh(big.NewInt(1), uint(8*max))
		return x.Sub(x, big.NewInt(1+int64(r.Intn(2))))
	case 4:
		return big.NewInt(255 + int64(r.Intn(3)))
	}
	n := r.Intn(max + 1)
	return new(big.Int).SetBytes(r.Bytes(n))
}

// genVal builds a value in the encoder's domain of the schema (wild=false) — for the lossy custom kinds
// the value is in normal form. size scales list lengths.
func genVal(r *vh.RNG, s *Sch, size int) *Val {
	switch s.K {
	case "uint":
		n := genNat(r, s.N)
		lim := new(big.Int).Lsh(big.NewInt(1), uint(8*s.N))
		if n.Cmp(lim) >= 0 {
			n.Mod(n, lim)
		}
		return vbig(n)
	case "bigint":
		return vbig(genNat(r, -1))
	case "bool":
		return vnum(uint64(r.Intn(2)))
	case "bytes":
		return vbytes(genBytes(r, -1))
	case "fixed":
		return vbytes(genBytes(r, s.N))
	case "list":
		n := 0
		switch r.Intn(6) {
		case 0:
			n = 0
		case 1:
			n = 1
		default:
			n = r.Intn(size + 1)
		}
		l := make([]*Val, n)
		for i := range l {
			l[i] = genVal(r, s.Elem, size/2)
		}
		return vlist(l...)
	case "struct":
		l := make([]*Val, len(s.Fields))
		for i, f := range s.Fields {
			l[i] = genVal(r, f, size)
		}
		return vlist(l...)
	case "ptr":
		return genVal(r, s.Elem, size)
	case "nilptr":
		if r.Chance(35) {
			return &Val{K: 'N'}
		}
		return &Val{K: 'S', Of: genVal(r, s.Elem, size)}
	case "custom":
		v := genVal(r, s.Elem, size)
		switch s.CK {
		case "receiptStatus":
			switch r.Intn(3) {
			case 0:
				v.L[0] = vbytes(nil)
			case 1:
				v.L[0] = vbytes([]byte{1})
			default:
				v.L[0] = vbytes(r.Bytes(32))
			}
		case "expelled":
			v.L[1] = vnum(uint64(r.Intn(2)))
		case "addrSet":
			v = normAddrSet(v)
		case "dsMap":
			for _, p := range v.L[2].L {
				p.L[0] = vbytes(r.Bytes(32))
			}
			v = normDsMap(v)
		}
		return v
	}
	panic("genVal: bad schema kind " + s.K)
}

func normAddrSet(v *Val) *Val {
	m := map[string]bool{}
	var keys []string
	for _, x := range v.L {
		if !m[string(x.B)] {
			m[string(x.B)] = true
			keys = append(keys, string(x.B))
		}
	}
	sort.Strings(keys)
	out := vlist()
	for _, k := range keys {
		out.L = append(out.L, vbytes([]byte(k)))
	}
	return out
}

func toHash32(b []byte) []byte { return common.BytesToHash(b).Bytes() }

func normDsMap(v *Val) *Val {
	m := map[string][]byte{}
	for _, p := range v.L[2].L {
		m[string(toHash32(p.L[0].B))] = p.L[1].B
	}
	var keys []string
	for k := range m {
		keys = append(keys, k)
	}
	sort.Strings(keys)
	signs := vlist()
	for _, k := range keys {
		signs.L = append(signs.L, vlist(vbytes([]byte(k)), vbytes(m[k])))
	}
	return vlist(v.L[0], v.L[1], signs)
}

// ---- Go value -> Val ------------------------------------------------------------------------------------

func bigOrZero(b *big.Int) *big.Int {
	if b == nil {
		return new(big.Int)
	}
	return b
}

// mirrorOf reads a value of a type with a hand-written codec into the mirror of its wire struct.
func mirrorOf(v reflect.Value) (interface{}, error) {
	if v.Kind() == reflect.Ptr {
		if v.IsNil() {
			return nil, fmt.Errorf("nil %v", v.Type())
		}
		v = v.Elem()
	}
	if !v.CanAddr() {
		c := reflect.New(v.Type()).Elem()
		c.Set(v)
		v = c
	}
	switch x := v.Addr().Interface().(type) {
	case *types.Transaction:
		V, R, S := x.RawSignatureValues()
		return &wireTx{x.Nonce(), x.GasPrice(), x.Gas(), x.To(), x.Value(), x.Data(), V, R, S}, nil
	case *types.Block:
		return &wireBlock{x.Header(), x.Transactions()}, nil
	case *types.Receipt:
		return &wireReceipt{statusEnc(x), x.CumulativeGasUsed, x.Bloom, x.Logs}, nil
	case *types.ReceiptForStorage:
		r := (*types.Receipt)(x)
		logs := make([]*types.LogForStorage, len(r.Logs))
		for i, l := range r.Logs {
			logs[i] = (*types.LogForStorage)(l)
		}
		return &wireReceiptStorage{statusEnc(r), r.CumulativeGasUsed, r.Bloom, r.TxHash, r.ContractAddress, logs, r.GasUsed}, nil
	case *types.Log:
		return &wireLog{x.Address, x.Topics, x.Data}, nil
	case *types.LogForStorage:
		return &wireStorageLog{x.Address, x.Topics, x.Data, x.BlockNumber, x.TxHash, x.TxIndex, x.BlockHash, x.Index}, nil
	case *state.Validator:
		e := uint8(0)
		if x.Expelled {
			e = 1
		}
		return &wireVal{state.AliasValidator(*x), e}, nil
	case *state.ValKindStat:
		return &wireValKindStat{x.GetOnlineStake(), x.GetOnlineToken(), x.GetCount(), x.GetOfflineStake(), x.GetOfflineToken(),
			x.GetOfflineCount(), x.GetRewardsResidue(), x.GetRewardsDistributable()}, nil
	case *state.ValidatorsStat:
		return &wireValidatorsStat{x.Kinds[params.KindValidator], x.Kinds[params.KindChamber], x.Kinds[params.KindHouse],
			x.Roles[params.RoleChancellor], x.Roles[params.RoleSenator], x.Roles[params.RoleHouse]}, nil
	case *state.Validators:
		return &wireValidators{x.List()}, nil
	case *state.ValidatorIndex:
		l := x.List()
		if l == nil {
			l = []common.Address{}
		}
		return &l, nil
	case *ucon.Message:
		return &wireUconMessage{x.Code, x.Payload, x.Signature}, nil
	case *staking.LogData:
		return &wireLogData{x.Topic, x.Tags, x.Data}, nil
	case *staking.SlashData:
		ev, _ := x.Evidence.(*staking.Evidence)
		if ev == nil {
			return nil, fmt.Errorf("SlashData.Evidence is %T", x.Evidence)
		}
		return &wireSlashData{x.Type, x.MainAddress, x.Total, x.Records, ev}, nil
	case *staking.EvidenceDoubleSign:
		w := &wireDoubleSign{Round: x.Round, RoundIndex: x.RoundIndex, Signs: []wireSign{}}
		for h, s := range x.Signs {
			w.Signs = append(w.Signs, wireSign{h.Bytes(), s})
		}
		sort.Slice(w.Signs, func(i, j int) bool { return bytes.Compare(w.Signs[i].Hash, w.Signs[j].Hash) < 0 })
		return w, nil
	}
	if v.Type() == pendingT {
		ps := state.VerifC14PendingPairs(v.Addr().Interface())
		out := make([]*[40]byte, len(ps))
		for i, p := range ps {
			var a [40]byte
			copy(a[:], p)
			out[i] = &a
		}
		return &out, nil
	}
	return nil, fmt.Errorf("no accessor mirror for %v", v.Type())
}

func statusEnc(r *types.Receipt) []byte {
	if len(r.PostState) == 0 {
		if r.Status == types.ReceiptStatusFailed {
			return []byte{}
		}
		return []byte{1}
	}
	return r.PostState
}

var errStale = fmt.Errorf("stale accessor mirror")

// abstractFields reads a mirror value (struct: fields by POSITION among the exported, non-ignored ones) along the wire schema.
func abstractFields(v reflect.Value, s *Sch) (*Val, error) {
	if s.K != "struct" || v.Kind() != reflect.Struct {
		return abstract(v, s)
	}
	out := vlist()
	k := 0
	t := v.Type()
	for i := 0; i < t.NumField() && k < len(s.Fields); i++ {
		f := t.Field(i)
		if f.PkgPath != "" || f.Tag.Get("rlp") == "-" {
			continue
		}
		x, err := abstract(v.Field(i), s.Fields[k])
		if err != nil {
			return nil, fmt.Errorf(".%s: %w", f.Name, err)
		}
		out.L = append(out.L, x)
		k++
	}
	if k != len(s.Fields) {
		return nil, errStale
	}
	return out, nil
}

// abstract maps a Go value to the model value along the schema. nil *big.Int / nil slices are the zero value
// (that is what the encoder writes); nil pointers outside rlp:"nil" are not values of the model (error).
func abstract(v reflect.Value, s *Sch) (*Val, error) {
	switch s.K {
	case "uint":
		return vnum(v.Uint()), nil
	case "bigint":
		if v.Kind() == reflect.Ptr {
			if v.IsNil() {
				return vnum(0), nil
			}
			return vbig(v.Interface().(*big.Int)), nil
		}
		b := v.Interface().(big.Int)
		return vbig(&b), nil
	case "bool":
		if v.Bool() {
			return vnum(1), nil
		}
		return vnum(0), nil
	case "bytes":
		if v.Kind() == reflect.String {
			return vbytes([]byte(v.String())), nil
		}
		return vbytes(v.Bytes()), nil
	case "fixed":
		b := make([]byte, v.Len())
		for i := range b {
			b[i] = byte(v.Index(i).Uint())
		}
		return vbytes(b), nil
	case "list":
		out := vlist()
		for i := 0; i < v.Len(); i++ {
			x, err := abstract(v.Index(i), s.Elem)
			if err != nil {
				return nil, err
			}
			out.L = append(out.L, x)
		}
		return out, nil
	case "struct":
		out := vlist()
		for i, name := range s.Names {
			x, err := abstract(v.FieldByName(name), s.Fields[i])
			if err != nil {
				return nil, fmt.Errorf(".%s: %w", name, err)
			}
			out.L = append(out.L, x)
		}
		return out, nil
	case "ptr":
		if s.Elem.K == "custom" {
			return abstract(v, s.Elem)
		}
		if v.IsNil() {
			return nil, fmt.Errorf("nil pointer %v", v.Type())
		}
		return abstract(v.Elem(), s.Elem)
	case "nilptr":
		if v.IsNil() {
			return &Val{K: 'N'}, nil
		}
		var x *Val
		var err error
		if s.Elem.K == "custom" {
			x, err = abstract(v, s.Elem)
		} else {
			x, err = abstract(v.Elem(), s.Elem)
		}
		if err != nil {
			return nil, err
		}
		return &Val{K: 'S', Of: x}, nil
	case "custom":
		if s.Stale {
			return nil, errStale
		}
		m, err := mirrorOf(v)
		if err != nil {
			return nil, err
		}
		return abstractFields(reflect.ValueOf(m).Elem(), s.Elem)
	}
	return nil, fmt.Errorf("bad schema kind %s", s.K)
}
