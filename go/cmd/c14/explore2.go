package main

// Two more explorations of the Go code (NOT proofs; labelled so in the evidence):
//
//  allocExplore   "never allocates far beyond the input size": for every in-scope type plus a few shapes with large
//                 elements, every slice position of the schema gets (a) a HOSTILE input whose list header honestly
//                 announces a large payload (64 KiB-1 MiB) of elements that fail at the first element, and (b) an
//                 HONEST large list (a valid element repeated). runtime.MemStats.TotalAlloc is measured around the real
//                 DecodeBytes: (a) must stay below garbageFactor x input + slack (the unchanged code allocates a few
//                 hundred bytes there), (b) below honestFactor x max(deep size of the decoded value, input) + slack (the
//                 unchanged code's append-growth costs about 3-4 x the value). Maximum factors per type go to the evidence.
//  concurrentFirstUse   rlp's type cache under concurrent FIRST use: the in-scope types before anything else in the
//                 process has used them, then fresh reflect.StructOf types per round; N goroutines encode+decode at
//                 once under recover; any panic, error or wrong round trip is a failure.

import (
	"bytes"
	"fmt"
	"math/big"
	"reflect"
	"runtime"
	"sync"
	"time"

	"github.com/youchainhq/go-youchain/common"
	"github.com/youchainhq/go-youchain/core/state"
	"github.com/youchainhq/go-youchain/core/types"
	"github.com/youchainhq/go-youchain/rlp"

	"verifharness/internal/vh"
)

const (
	garbageFactor = 1 // hostile list whose first element is invalid: alloc <= 1 x input + slack
	honestFactor  = 8 // honest large list: alloc <= 8 x max(deep size of the decoded value, input) + slack
	allocSlack2   = 128 << 10
)

// deepSize: bytes a decoded value occupies (structs, slice backing arrays by length, pointees, strings).
func deepSize(v reflect.Value, depth int) uint64 {
	if depth > 40 {
		return 0
	}
	switch v.Kind() {
	case reflect.Ptr:
		if v.IsNil() {
			return 0
		}
		return uint64(v.Type().Elem().Size()) + deepSize(v.Elem(), depth+1)
	case reflect.Slice:
		n := uint64(v.Len()) * uint64(v.Type().Elem().Size())
		switch v.Type().Elem().Kind() {
		case reflect.Ptr, reflect.Slice, reflect.Struct, reflect.String, reflect.Array, reflect.Interface:
			for i := 0; i < v.Len(); i++ {
				n += deepSize(v.Index(i), depth+1)
			}
		}
		return n
	case reflect.Array:
		switch v.Type().Elem().Kind() {
		case reflect.Ptr, reflect.Slice, reflect.Struct, reflect.String, reflect.Interface:
			var n uint64
			for i := 0; i < v.Len(); i++ {
				n += deepSize(v.Index(i), depth+1)
			}
			return n
		}
		return 0
	case reflect.String:
		return uint64(v.Len())
	case reflect.Struct:
		var n uint64
		for i := 0; i < v.NumField(); i++ {
			n += deepSize(v.Field(i), depth+1)
		}
		return n
	case reflect.Interface:
		if v.IsNil() {
			return 0
		}
		return uint64(v.Elem().Type().Size()) + deepSize(v.Elem(), depth+1)
	case reflect.Map:
		return uint64(v.Len()) * uint64(v.Type().Key().Size()+v.Type().Elem().Size()+16)
	}
	return 0
}

type listSite struct {
	n    *node
	elem *Sch
}

func listSites(s *Sch, n *node, acc *[]listSite) {
	switch s.K {
	case "list":
		if n.list {
			*acc = append(*acc, listSite{n, s.Elem})
			for _, k := range n.kids {
				listSites(s.Elem, k, acc)
			}
		}
	case "struct":
		if n.list && len(n.kids) == len(s.Fields) {
			for i, k := range n.kids {
				listSites(s.Fields[i], k, acc)
			}
		}
	case "ptr", "custom":
		listSites(s.Elem, n, acc)
	case "nilptr":
		if !((n.list && len(n.kids) == 0) || (!n.list && len(n.b) == 0)) {
			listSites(s.Elem, n, acc)
		}
	}
}

// badElem: one byte that is an invalid element for the schema (so the decoder fails at the first element)
func badElem(s *Sch) byte {
	switch s.K {
	case "ptr", "nilptr", "custom":
		if s.K == "nilptr" {
			return 0x05
		}
		return badElem(s.Elem)
	case "list", "struct":
		return 0x80 // empty string where a list is expected
	}
	return 0xC0 // empty list where a string is expected
}

type allocStat struct {
	Garbage      float64 `json:"hostile_alloc_per_input_byte"`
	Honest       float64 `json:"honest_alloc_per_input_byte"`
	HonestVsSize float64 `json:"honest_alloc_per_value_byte"`
	Cases        int     `json:"cases"`
}

func (h *H) allocExplore() {
	r := h.c.R
	N := h.c.N(128<<10, 1<<20)
	extra := []*entry{
		{name: "adhoc.[]common.Hash", t: reflect.TypeOf([]common.Hash{})},
		{name: "adhoc.[]*types.Header", t: reflect.TypeOf([]*types.Header{})},
		{name: "adhoc.[]*types.Receipt", t: reflect.TypeOf([]*types.Receipt{})},
		{name: "adhoc.[][]byte", t: reflect.TypeOf([][]byte{})},
		{name: "adhoc.[]*state.Validator", t: reflect.TypeOf([]*state.Validator{})},
		{name: "adhoc.[]*big.Int", t: reflect.TypeOf([]*big.Int{})},
		{name: "adhoc.[][]common.Hash", t: reflect.TypeOf([][]common.Hash{})},
	}
	for _, e := range extra {
		s, err := (&deriver{}).derive(e.t, false)
		if err != nil {
			continue
		}
		e.sch, e.rules = s, map[string]bool{}
	}
	stats := map[string]*allocStat{}
	all := append(append([]*entry{}, h.es...), extra...)
	for _, e := range all {
		if e.sch == nil {
			continue
		}
		// a well-formed encoding with non-empty lists where possible
		var base []byte
		for try := 0; try < 6 && base == nil; try++ {
			if g0, err := goValue(r, e); err == nil {
				if b, eerr, epan := goEncode(g0); eerr == nil && epan == nil {
					base = b
				}
			}
			if base == nil && h.byName[e.name] != nil {
				base = h.modelBytes(e.name, r)
			}
		}
		if base == nil {
			continue
		}
		t0, err := parseTree(base)
		if err != nil {
			continue
		}
		var sites0 []listSite
		listSites(e.sch, t0, &sites0)
		if len(sites0) == 0 {
			continue
		}
		st := &allocStat{}
		stats[e.name] = st
		nSites := len(sites0)
		if nSites > 4 {
			nSites = 4
		}
		for si := 0; si < nSites; si++ {
			for variant := 0; variant < 2; variant++ {
				t := t0.clone()
				var sites []listSite
				listSites(e.sch, t, &sites)
				if si >= len(sites) {
					continue
				}
				site := sites[si*len(sites)/nSites]
				label := "hostile-large-list"
				if variant == 0 {
					site.n.kids = []*node{{form: -1, b: bytes.Repeat([]byte{badElem(site.elem)}, N)}}
				} else {
					label = "honest-large-list"
					if len(site.n.kids) == 0 {
						continue
					}
					k := site.n.kids[0]
					kl := len(k.enc())
					reps := N/kl + 1
					kids := make([]*node, reps)
					for i := range kids {
						kids[i] = k
					}
					site.n.kids = kids
				}
				bs := t.enc()
				var o goOut
				alloc := measure(func() { o = goDecode(e, bs) })
				st.Cases++
				h.res.Dist("alloc-" + label)
				h.res.Count("A|"+e.name+"|"+fmt.Sprint(si, variant), true)
				line := "A " + e.name + " " + fmt.Sprint(si) + " " + fmt.Sprint(variant) + " " + fmt.Sprint(N)
				if o.pan != nil {
					h.fail("oracle", "", "panic "+e.name, fmt.Sprintf("decoding a %s (%d bytes) into %s panics: %v", label, len(bs), e.name, o.pan), []string{line})
					continue
				}
				perIn := float64(alloc) / float64(len(bs))
				if variant == 0 {
					if perIn > st.Garbage {
						st.Garbage = perIn
					}
					if o.err == nil {
						h.res.Dist("alloc-hostile-accepted")
						continue // the "bad" element was acceptable for this shape: not a hostile case
					}
					if alloc > garbageFactor*uint64(len(bs))+allocSlack2 {
						h.fail("oracle", "", "alloc-hostile "+e.name, fmt.Sprintf("exploration: %s rejects a %d-byte input (a list header announcing %d bytes of invalid elements) only after allocating %d bytes = %.1f x the input (bound %d x input + %d)", e.name, len(bs), N, alloc, perIn, garbageFactor, allocSlack2), []string{line})
					}
					continue
				}
				if perIn > st.Honest {
					st.Honest = perIn
				}
				if o.err != nil {
					continue
				}
				size := deepSize(reflect.ValueOf(o.g), 0)
				if size > 0 {
					if f := float64(alloc) / float64(size); f > st.HonestVsSize {
						st.HonestVsSize = f
					}
				}
				ref := size // duplicates collapse in set-like values (ValidatorIndex): never below the input length
				if uint64(len(bs)) > ref {
					ref = uint64(len(bs))
				}
				if alloc > honestFactor*ref+allocSlack2 {
					h.fail("oracle", "", "alloc-honest "+e.name, fmt.Sprintf("exploration: decoding an honest %d-byte list into %s allocated %d bytes for a value of %d bytes (%.1f x the value, %.1f x the input; bound %d x max(value, input) + %d)", len(bs), e.name, alloc, size, float64(alloc)/float64(size+1), perIn, honestFactor, allocSlack2), []string{line})
				}
			}
		}
	}
	out := map[string]interface{}{}
	var worstG, worstH float64
	for k, v := range stats {
		out[k] = map[string]interface{}{"hostile_alloc_per_input_byte": fmt.Sprintf("%.3f", v.Garbage), "honest_alloc_per_input_byte": fmt.Sprintf("%.1f", v.Honest),
			"honest_alloc_per_value_byte": fmt.Sprintf("%.1f", v.HonestVsSize), "cases": v.Cases}
		if v.Garbage > worstG {
			worstG = v.Garbage
		}
		if v.HonestVsSize > worstH {
			worstH = v.HonestVsSize
		}
	}
	h.res.Extra["alloc_factors_by_type"] = out
	h.res.Extra["alloc_worst"] = fmt.Sprintf("hostile large lists (%d-byte payload): max %.3f allocated bytes per input byte (bound %d x + %d); honest large lists: max %.1f allocated bytes per byte of decoded value (bound %d x max(value, input) + %d)", N, worstG, garbageFactor, allocSlack2, worstH, honestFactor, allocSlack2)
}

// ---- concurrent first use of a type ------------------------------------------------------------------------------

var freshCounter int

func freshType(round, fields int) reflect.Type {
	freshCounter++
	fs := make([]reflect.StructField, fields)
	for j := range fs {
		inner := reflect.StructOf([]reflect.StructField{
			{Name: fmt.Sprintf("N%d_%d_%d", freshCounter, round, j), Type: reflect.TypeOf(uint64(0))},
			{Name: "Blob", Type: reflect.TypeOf([]byte(nil))},
			{Name: "H", Type: reflect.TypeOf(common.Hash{})},
		})
		fs[j] = reflect.StructField{Name: fmt.Sprintf("F%d", j), Type: inner}
	}
	return reflect.StructOf(fs)
}

func fillFresh(typ reflect.Type) reflect.Value {
	v := reflect.New(typ)
	for j := 0; j < typ.NumField(); j++ {
		v.Elem().Field(j).Field(0).SetUint(uint64(j + 1))
		v.Elem().Field(j).Field(1).SetBytes([]byte{byte(j), 0xAA})
	}
	return v
}

type conRes struct {
	enc []byte
	err error
	pan interface{}
	ok  bool
}

// raceOnce lets `gor` goroutines run f(g) at (almost) the same time, staggered over `window`.
func raceOnce(gor int, window time.Duration, f func(g int) conRes) []conRes {
	out := make([]conRes, gor)
	start := make(chan struct{})
	var wg sync.WaitGroup
	for g := 0; g < gor; g++ {
		wg.Add(1)
		go func(g int) {
			defer wg.Done()
			defer func() {
				if r := recover(); r != nil {
					out[g].pan = r
				}
			}()
			<-start
			if g > 0 && window > 0 {
				d := window * time.Duration(g) / time.Duration(gor)
				for t0 := time.Now(); time.Since(t0) < d; {
				}
			}
			out[g] = f(g)
		}(g)
	}
	close(start)
	wg.Wait()
	return out
}

// concurrentColdScope must run before anything else in the process has used package rlp on the in-scope types.
func (h *H) concurrentColdScope() {
	const gor = 8
	if runtime.NumCPU() < 2 || runtime.GOMAXPROCS(0) < 2 {
		h.res.Partial = append(h.res.Partial, "concurrent first use of rlp types not exercised: fewer than 2 CPUs")
		return
	}
	r := vh.NewRNG(h.c.Seed ^ 0xc14)
	// bytes from the MODEL (the real package rlp has not seen these types yet)
	type job struct {
		e  *entry
		bs []byte
	}
	var jobs []job
	for _, e := range h.es {
		if e.rules["dsMap"] {
			continue
		}
		if bs := h.modelBytes(e.name, r); bs != nil {
			jobs = append(jobs, job{e, bs})
		}
	}
	// all types at once, several goroutines per type: nested types (Header in Block, Transaction in Body ...) are
	// generated by one goroutine while others look them up
	res := raceOnce(gor*len(jobs), 0, func(g int) conRes {
		j := jobs[g%len(jobs)]
		o := goDecode(j.e, j.bs)
		if o.pan != nil {
			return conRes{pan: o.pan}
		}
		if o.err != nil {
			return conRes{err: o.err}
		}
		re, err, pan := goEncode(o.g)
		return conRes{enc: re, err: err, pan: pan, ok: bytes.Equal(re, j.bs)}
	})
	for g, x := range res {
		j := jobs[g%len(jobs)]
		h.res.Dist("concurrent-first-use-scope")
		if x.pan != nil || x.err != nil || !x.ok {
			h.fail("oracle", "", "concurrent-first-use "+j.e.name, fmt.Sprintf("exploration: %s used for the first time by %d goroutines at once: goroutine %d got panic=%v err=%v round-trip-ok=%v", j.e.name, gor, g, x.pan, x.err, x.ok), []string{"C scope " + j.e.name})
		}
	}
}

func (h *H) concurrentFirstUse() {
	if runtime.NumCPU() < 2 || runtime.GOMAXPROCS(0) < 2 {
		return
	}
	const gor, fields = 16, 300
	rounds := h.c.N(40, 400)
	calib := fillFresh(freshType(999999, fields))
	t0 := time.Now()
	if _, err := rlp.EncodeToBytes(calib.Interface()); err != nil {
		h.fail("oracle", "", "concurrent-first-use", "harness: cannot encode a reflect.StructOf value: "+err.Error(), nil)
		return
	}
	firstUse := time.Since(t0)
	bad := 0
	for round := 0; round < rounds; round++ {
		typ := freshType(round, fields)
		val := fillFresh(typ)
		// reference encoding computed by hand-free means is not available; all goroutines must agree and decode back
		res := raceOnce(gor, firstUse, func(g int) conRes {
			enc, err := rlp.EncodeToBytes(val.Interface())
			if err != nil {
				return conRes{err: err}
			}
			back := reflect.New(typ)
			if err := rlp.DecodeBytes(enc, back.Interface()); err != nil {
				return conRes{enc: enc, err: err}
			}
			return conRes{enc: enc, ok: reflect.DeepEqual(back.Elem().Interface(), val.Elem().Interface())}
		})
		h.res.Dist("concurrent-first-use-fresh-type")
		h.res.Count(fmt.Sprintf("C|fresh|%d|%d", h.c.Seed, round), true)
		// the cache is warm now: the sequential encoding is the reference
		ref, _ := rlp.EncodeToBytes(val.Interface())
		for g, x := range res {
			if x.pan != nil || x.err != nil || !x.ok || !bytes.Equal(x.enc, ref) {
				bad++
				h.fail("oracle", "", "concurrent-first-use", fmt.Sprintf("exploration: a struct type used for the first time by %d goroutines at once (round %d): goroutine %d got panic=%v err=%v round-trip-ok=%v same-encoding=%v", gor, round, g, x.pan, x.err, x.ok, bytes.Equal(x.enc, ref)), []string{fmt.Sprintf("C fresh %d %d", gor, fields)})
				break
			}
		}
		if bad > 0 {
			break
		}
	}
	h.res.Extra["concurrent_first_use"] = fmt.Sprintf("%d CPUs, GOMAXPROCS %d: %d rounds x %d goroutines on fresh reflect.StructOf types (%d nested struct types each, first use takes %v), plus every in-scope type cold at start-up", runtime.NumCPU(), runtime.GOMAXPROCS(0), rounds, gor, fields, firstUse)
}

// replayExplore re-runs an `A …` / `C …` replay line.
func (h *H) replayExplore(f []string) {
	switch f[0] {
	case "C":
		save := h.c.Tier
		h.concurrentFirstUse()
		h.c.Tier = save
	case "A":
		h.allocExplore()
	}
}
