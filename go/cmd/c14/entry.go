package main

// Entry-point canonicality stream. The per-type oracles run on rlp.DecodeBytes; the node's own decode ENTRY POINTS may
// wrap the codec differently (Stream vs DecodeBytes, trailing data, size limits). For every entry point the harness
// can reach, honest encodings and near-honest variants are fed in:
//   (a) the honest encoding, (b) + 1 trailing byte / + many bytes / + another valid item,
//   (c) the outer list header announcing more than it holds, or holding one element more
// and the statement is evaluated on the real code: accepted => what was accepted re-encodes to exactly the INPUT bytes
// (handlers: what is re-gossiped is a canonical message; staking: a padded message must fail).
// Entry points: ucon.Decode, MessageHandler.HandleMsg (relay + Message.DecodePayload), ucon.ExtractConsensusData,
// ucon.ExtractUconValidators, staking.DecodeLogDataFromBytes (envelope and inner data), staking TxConverter.ApplyMessage
// (envelope and inner payload). The call sites the harness cannot reach are covered by the regenerated
// entry_points_exhaustive fact (entryscan.go / Props.lean) and listed in docs/asbuilt/C14.md.

import (
	"bytes"
	"fmt"
	"math/big"
	"time"

	"github.com/youchainhq/go-youchain/common"
	"github.com/youchainhq/go-youchain/consensus/ucon"
	"github.com/youchainhq/go-youchain/core/state"
	"github.com/youchainhq/go-youchain/core/types"
	"github.com/youchainhq/go-youchain/params"
	"github.com/youchainhq/go-youchain/rlp"
	"github.com/youchainhq/go-youchain/staking"

	"verifharness/internal/vh"
)

type variant struct {
	label string
	bs    []byte
}

func variants(r *vh.RNG, b []byte) []variant {
	out := []variant{{"honest", b}}
	out = append(out, variant{"trailing-1", append(append([]byte{}, b...), byte(r.Intn(256)))})
	out = append(out, variant{"trailing-many", append(append([]byte{}, b...), r.Bytes(r.Range(2, 300))...)})
	out = append(out, variant{"trailing-item", append(append([]byte{}, b...), b...)})
	out = append(out, variant{"trailing-empty-string", append(append([]byte{}, b...), 0x80)})
	if t, err := parseTree(b); err == nil && t.list {
		o := t.clone()
		o.delta = int64(r.Range(1, 3))
		out = append(out, variant{"outer-size-too-large", o.enc()})
		e := t.clone()
		e.kids = append(e.kids, &node{})
		out = append(out, variant{"outer-extra-element", e.enc()})
		w := t.clone()
		w.delta = 1
		out = append(out, variant{"outer-size+1-then-byte", append(w.enc(), 0x80)})
	}
	return out
}

func enc(x interface{}) []byte {
	b, err := rlp.EncodeToBytes(x)
	if err != nil {
		panic("entry stream: honest value does not encode: " + err.Error())
	}
	return b
}

func (h *H) entryFail(ep, label, why string, bs []byte) {
	h.fail("oracle", "", "entry "+ep, fmt.Sprintf("entry point %s (%s): %s\ninput %x", ep, label, why, bs), []string{"P " + ep + " " + hx(bs)})
}

// entryOne evaluates one entry point on one input; returns "" or why the statement fails. (Also the replay of `P` lines.)
func entryOne(ep string, bs []byte) (why string) {
	hostInit()
	defer func() {
		if r := recover(); r != nil {
			why = fmt.Sprintf("panic: %v", r)
		}
	}()
	switch ep {
	case "ucon.Decode":
		m, err := ucon.Decode(bs)
		if err != nil {
			return ""
		}
		if re, err := m.Encode(); err != nil || !bytes.Equal(re, bs) {
			return fmt.Sprintf("accepted, but the message re-encodes to %d bytes != the %d input bytes", len(re), len(bs))
		}
	case "HandleMsg":
		sub := hostMux.Subscribe(ucon.TransferMessageEvent{})
		defer sub.Unsubscribe()
		err := hostMH.HandleMsg(bs, time.Unix(1700000000, 0))
		if err != nil {
			return ""
		}
		// accepted: the bytes must be a canonical message with a canonical payload, and so must whatever is relayed
		check := func(p []byte, what string) string {
			var m ucon.Message
			if err := rlp.DecodeBytes(p, &m); err != nil {
				return what + " is not one RLP value: " + err.Error()
			}
			if re, _ := m.Encode(); !bytes.Equal(re, p) {
				return what + " is not the encoding of the message it carries"
			}
			var inner interface{}
			switch uint8(m.Code) {
			case 1:
				inner = new(ucon.ConsensusCommon)
			case 2:
				inner = new(types.Block)
			default:
				inner = new(ucon.BlockHashWithVotes)
			}
			if err := rlp.DecodeBytes(m.Payload, inner); err != nil {
				return what + ": payload is not one RLP value of its type: " + err.Error()
			}
			if re, _ := rlp.EncodeToBytes(inner); !bytes.Equal(re, m.Payload) {
				return what + ": payload is not the encoding of the value it carries"
			}
			return ""
		}
		if w := check(bs, "accepted input"); w != "" {
			return w
		}
		select {
		case ev := <-sub.Chan():
			if te, ok := ev.Data.(ucon.TransferMessageEvent); ok {
				if w := check(te.Payload, "re-gossiped message"); w != "" {
					return w
				}
			}
		case <-time.After(300 * time.Millisecond):
		}
	case "ucon.ExtractConsensusData":
		d, err := ucon.ExtractConsensusData(&types.Header{Consensus: bs})
		if err != nil {
			return ""
		}
		if re := enc(d); !bytes.Equal(re, bs) {
			return "accepted header.Consensus re-encodes differently"
		}
	case "ucon.ExtractUconValidators":
		for _, lb := range []params.LookBackType{params.LookBackPos, params.LookBackCert} {
			d, err := ucon.ExtractUconValidators(&types.Header{Validator: bs, Certificate: bs}, lb)
			if err != nil {
				continue
			}
			if re := enc(d); !bytes.Equal(re, bs) {
				return "accepted header.Validator/Certificate re-encodes differently"
			}
		}
	case "staking.DecodeLogDataFromBytes":
		topic, tags, payload, err := staking.DecodeLogDataFromBytes(bs)
		if err != nil {
			return ""
		}
		if s, ok := payload.(*string); ok {
			payload = *s
		}
		re := enc(&staking.LogData{Topic: topic, Tags: tags, Data: enc(payload)})
		if !bytes.Equal(re, bs) {
			return fmt.Sprintf("accepted log data re-encodes differently (%x)", re)
		}
	case "staking.ApplyMessage":
		if w := hostileOne("staking", bs); w != "" {
			return w
		}
		if hostLast != "failed=false-nil" {
			return ""
		}
		// applied: the data must be a canonical staking message with a canonical payload
		var m staking.Message
		if err := rlp.DecodeBytes(bs, &m); err != nil {
			return "applied although the data is not one RLP value: " + err.Error()
		}
		if !bytes.Equal(enc(&m), bs) {
			return "applied although the data is not the encoding of the message it carries"
		}
		var tx staking.TxValidatorSettle
		if m.Action == staking.ValidatorSettle {
			if err := rlp.DecodeBytes(m.Payload, &tx); err != nil || !bytes.Equal(enc(&tx), m.Payload) {
				return "applied although the payload is not the canonical encoding of a TxValidatorSettle"
			}
		}
	}
	return ""
}

func (h *H) entryPoints() {
	hostInit()
	r := h.c.R
	rounds := h.c.N(12, 150)
	addr := common.BytesToAddress([]byte{7})
	for i := 0; i < rounds && h.err == nil; i++ {
		type in struct {
			ep     string
			honest []byte
			must   bool // the honest input must be accepted (else the stream is not exercising the entry point)
		}
		var ins []in
		// consensus messages, signed by the sender over payload||code
		mk := func(code uint8, payload []byte) []byte {
			sig, _ := ucon.Sign(hostKey, append(append([]byte{}, payload...), code))
			return enc(&ucon.Message{Code: ucon.MsgType(code), Payload: payload, Signature: sig})
		}
		vote := &ucon.BlockHashWithVotes{Priority: common.BytesToHash(r.Bytes(32)), BlockHash: common.BytesToHash(r.Bytes(32)), Round: big.NewInt(int64(1 + r.Intn(9))),
			RoundIndex: uint32(r.Intn(4)), Vote: &ucon.SingleVote{VoterIdx: uint32(r.Intn(100)), Votes: uint32(1 + r.Intn(9)), Signature: r.Bytes(65), Proof: r.Bytes(81)}, Timestamp: uint64(1600000000 + r.Intn(1000))}
		prio := &ucon.ConsensusCommon{Round: big.NewInt(int64(1 + r.Intn(9))), RoundIndex: uint32(r.Intn(4)), Step: 1, Priority: common.BytesToHash(r.Bytes(32)), SortitionProof: r.Bytes(81),
			SubUsers: uint32(1 + r.Intn(5)), BlockHash: common.BytesToHash(r.Bytes(32)), ParentHash: common.BytesToHash(r.Bytes(32)), Timestamp: uint64(1600000000 + r.Intn(1000))}
		voteCode := uint8(3 + r.Intn(4))
		ins = append(ins, in{"ucon.Decode", mk(voteCode, enc(vote)), true}, in{"ucon.Decode", mk(1, enc(prio)), true},
			in{"HandleMsg", mk(voteCode, enc(vote)), false}, in{"HandleMsg", mk(1, enc(prio)), false})
		// a message whose PAYLOAD is padded (the attacker signs what it sends)
		for _, v := range variants(r, enc(vote))[1:] {
			if w := entryOne("HandleMsg", mk(voteCode, v.bs)); w != "" {
				h.entryFail("HandleMsg", "payload-"+v.label, w, mk(voteCode, v.bs))
			}
			h.res.Dist("entry:HandleMsg-payload-variant")
		}
		if b := h.modelBytes("ucon.BlockConsensusData", r); b != nil {
			ins = append(ins, in{"ucon.ExtractConsensusData", b, true})
		}
		if b := h.modelBytes("ucon.UconValidators", r); b != nil {
			ins = append(ins, in{"ucon.ExtractUconValidators", b, true})
		}
		// log data: envelope and inner data
		rec := &state.WithdrawRecord{Operator: addr, Delegator: addr, Validator: addr, Recipient: addr, Nonce: uint64(r.Intn(9)), CreationHeight: 5, CompletionHeight: 9,
			InitialBalance: big.NewInt(int64(r.Intn(1000))), FinalBalance: big.NewInt(int64(r.Intn(1000)))}
		ins = append(ins, in{"staking.DecodeLogDataFromBytes", enc(&staking.LogData{Topic: staking.LogTopicWithdraw, Tags: []string{"t"}, Data: enc(rec)}), true})
		for _, v := range variants(r, enc(rec))[1:] {
			b := enc(&staking.LogData{Topic: staking.LogTopicWithdraw, Tags: []string{"t"}, Data: v.bs})
			if w := entryOne("staking.DecodeLogDataFromBytes", b); w != "" {
				h.entryFail("staking.DecodeLogDataFromBytes", "data-"+v.label, w, b)
			}
			h.res.Dist("entry:logdata-inner-variant")
		}
		// staking transaction: settle of the sender's own validator succeeds when honest
		settle := enc(&staking.TxValidatorSettle{MainAddress: hostValAddr()})
		ins = append(ins, in{"staking.ApplyMessage", enc(&staking.Message{Action: staking.ValidatorSettle, Payload: settle}), true})
		for _, v := range variants(r, settle)[1:] {
			b := enc(&staking.Message{Action: staking.ValidatorSettle, Payload: v.bs})
			if w := entryOne("staking.ApplyMessage", b); w != "" {
				h.entryFail("staking.ApplyMessage", "payload-"+v.label, w, b)
			}
			h.res.Dist("entry:staking-inner-variant")
		}
		for _, x := range ins {
			for _, v := range variants(r, x.honest) {
				w := entryOne(x.ep, v.bs)
				h.res.Dist("entry:" + x.ep)
				h.res.Count("P|"+x.ep+"|"+string(v.bs), true)
				if w != "" {
					h.entryFail(x.ep, v.label, w, v.bs)
				}
				if v.label == "honest" && x.must && !h.entryAccepts(x.ep, v.bs) {
					h.entryFail(x.ep, "honest", "the honest encoding is not accepted (the stream does not exercise this entry point)", v.bs)
				}
			}
		}
	}
}

// entryAccepts: does the entry point accept these bytes at all (used for the honest baseline only)
func (h *H) entryAccepts(ep string, bs []byte) bool {
	defer func() { recover() }()
	switch ep {
	case "ucon.Decode":
		_, err := ucon.Decode(bs)
		return err == nil
	case "ucon.ExtractConsensusData":
		_, err := ucon.ExtractConsensusData(&types.Header{Consensus: bs})
		return err == nil
	case "ucon.ExtractUconValidators":
		_, err := ucon.ExtractUconValidators(&types.Header{Validator: bs}, params.LookBackPos)
		return err == nil
	case "staking.DecodeLogDataFromBytes":
		_, _, _, err := staking.DecodeLogDataFromBytes(bs)
		return err == nil
	case "staking.ApplyMessage":
		hostileOne("staking", bs)
		return hostLast == "failed=false-nil"
	}
	return true
}
