package main

// Untyped RLP trees on the harness side: parsing of byte strings the real decoder accepted, an encoder that
// can be told to emit NON-canonical forms (for the malformed stream), schema-directed "wild" mutations that aim
// at the hand-written codecs, and `diagnose`, the predicate behind the known-finding matchers.

import (
	"bytes"
	"encoding/binary"
	"fmt"
	"sort"

	"github.com/youchainhq/go-youchain/rlp"

	"verifharness/internal/vh"
)

type node struct {
	list bool
	b    []byte
	kids []*node
	// encoding overrides (malformed stream)
	form  int   // 0 canonical, 1 single byte as 0x81 b, 2 long form with 1 length byte, 3 long form with a leading zero length byte
	delta int64 // added to the declared size
	huge  bool  // declared size = 2^64-1 in 8 length bytes
}

func parseTree(bs []byte) (*node, error) {
	k, content, rest, err := rlp.Split(bs)
	if err != nil {
		return nil, err
	}
	if len(rest) != 0 {
		return nil, fmt.Errorf("trailing bytes")
	}
	return parseOne(k, content)
}

func parseOne(k rlp.Kind, content []byte) (*node, error) {
	if k != rlp.List {
		return &node{b: append([]byte{}, content...)}, nil
	}
	n := &node{list: true}
	for len(content) > 0 {
		kk, c, rest, err := rlp.Split(content)
		if err != nil {
			return nil, err
		}
		kid, err := parseOne(kk, c)
		if err != nil {
			return nil, err
		}
		n.kids = append(n.kids, kid)
		content = rest
	}
	return n, nil
}

func (n *node) clone() *node {
	c := *n
	c.b = append([]byte{}, n.b...)
	c.kids = make([]*node, len(n.kids))
	for i, k := range n.kids {
		c.kids[i] = k.clone()
	}
	return &c
}

func (n *node) all(acc *[]*node) {
	*acc = append(*acc, n)
	for _, k := range n.kids {
		k.all(acc)
	}
}

func header(payloadLen int, off byte, n *node) []byte {
	size := uint64(int64(payloadLen) + n.delta)
	if n.huge {
		return append([]byte{off + 55 + 8}, 0xff, 0xff, 0xff, 0xff, 0xff, 0xff, 0xff, 0xff)
	}
	switch {
	case n.form == 2 && size < 256:
		return []byte{off + 55 + 1, byte(size)}
	case n.form == 3:
		var buf [8]byte
		binary.BigEndian.PutUint64(buf[:], size)
		i := 0
		for i < 7 && buf[i] == 0 {
			i++
		}
		if i == 0 {
			i = 1
		}
		return append([]byte{off + 55 + byte(8-i+1)}, buf[i-1:]...)
	case size < 56:
		return []byte{off + byte(size)}
	default:
		var buf [8]byte
		binary.BigEndian.PutUint64(buf[:], size)
		i := 0
		for buf[i] == 0 {
			i++
		}
		return append([]byte{off + 55 + byte(8-i)}, buf[i:]...)
	}
}

func (n *node) enc() []byte {
	if n.form == -1 { // raw bytes without a header (kind-swap string -> list reinterprets the payload)
		return n.b
	}
	if !n.list {
		if len(n.b) == 1 && n.b[0] < 0x80 && n.form == 0 && n.delta == 0 && !n.huge {
			return []byte{n.b[0]}
		}
		return append(header(len(n.b), 0x80, n), n.b...)
	}
	var p []byte
	for _, k := range n.kids {
		p = append(p, k.enc()...)
	}
	return append(header(len(p), 0xC0, n), p...)
}

func (n *node) String() string {
	if !n.list {
		return fmt.Sprintf("s:%x", n.b)
	}
	s := "["
	for i, k := range n.kids {
		if i > 0 {
			s += ","
		}
		s += k.String()
	}
	return s + "]"
}

// fromIface converts what rlp decodes into interface{} ([]byte / []interface{}).
func fromIface(x interface{}) *node {
	switch v := x.(type) {
	case []byte:
		return &node{b: v}
	case []interface{}:
		n := &node{list: true}
		for _, e := range v {
			n.kids = append(n.kids, fromIface(e))
		}
		return n
	}
	return &node{b: []byte(fmt.Sprintf("?%T", x))}
}

func weight(n *node) int {
	w := 1 + len(n.b)
	for _, k := range n.kids {
		w += weight(k)
	}
	return w
}

// ---- generic (schema-unaware) mutations of a well-formed tree ------------------------------------------------

var mutKinds = []string{"nc-single", "nc-long", "nc-lenzero", "int-leadzero", "size+1", "size-1", "size-huge", "kind-swap",
	"empty-swap", "drop-kid", "dup-kid", "add-kid", "swap-kids", "byte-flip", "grow", "shrink", "raw-flip", "raw-trunc", "raw-append"}

func mutate(r *vh.RNG, t *node) (string, []byte) {
	t = t.clone()
	var ns []*node
	t.all(&ns)
	pick := func(pred func(*node) bool) *node {
		var c []*node
		for _, n := range ns {
			if pred(n) {
				c = append(c, n)
			}
		}
		if len(c) == 0 {
			return nil
		}
		return c[r.Intn(len(c))]
	}
	any := func(*node) bool { return true }
	kind := mutKinds[r.Intn(len(mutKinds))]
	switch kind {
	case "nc-single":
		if n := pick(func(n *node) bool { return !n.list && len(n.b) == 1 && n.b[0] < 0x80 }); n != nil {
			n.form = 1
		}
	case "nc-long":
		if n := pick(any); n != nil {
			n.form = 2
		}
	case "nc-lenzero":
		if n := pick(any); n != nil {
			n.form = 3
		}
	case "int-leadzero":
		if n := pick(func(n *node) bool { return !n.list }); n != nil {
			n.b = append([]byte{0}, n.b...)
		}
	case "size+1":
		if n := pick(any); n != nil {
			n.delta = int64(1 + r.Intn(3))
		}
	case "size-1":
		if n := pick(func(n *node) bool { return n.list || len(n.b) > 1 }); n != nil {
			n.delta = -1
		}
	case "size-huge":
		if n := pick(any); n != nil {
			if r.Bool() {
				n.huge = true
			} else {
				n.delta = int64(1) << uint(r.Range(8, 40))
				n.form = 0
			}
		}
	case "kind-swap":
		if n := pick(any); n != nil {
			if n.list {
				var p []byte
				for _, k := range n.kids {
					p = append(p, k.enc()...)
				}
				n.list, n.kids, n.b = false, nil, p
				if len(p) == 1 && p[0] < 0x80 {
					n.form = 1
				}
			} else {
				// reinterpret the payload bytes as list content: emit by hand through a raw kid
				n.list, n.kids, n.b = true, []*node{{b: n.b, form: -1}}, nil
			}
		}
	case "empty-swap":
		if n := pick(func(n *node) bool { return (n.list && len(n.kids) == 0) || (!n.list && len(n.b) == 0) }); n != nil {
			n.list = !n.list
		}
	case "drop-kid":
		if n := pick(func(n *node) bool { return n.list && len(n.kids) > 0 }); n != nil {
			i := r.Intn(len(n.kids))
			n.kids = append(n.kids[:i], n.kids[i+1:]...)
		}
	case "dup-kid":
		if n := pick(func(n *node) bool { return n.list && len(n.kids) > 0 }); n != nil {
			i := r.Intn(len(n.kids))
			n.kids = append(n.kids[:i+1], append([]*node{n.kids[i].clone()}, n.kids[i+1:]...)...)
		}
	case "add-kid":
		if n := pick(func(n *node) bool { return n.list }); n != nil {
			n.kids = append(n.kids, &node{b: r.Bytes(r.Intn(3))})
		}
	case "swap-kids":
		if n := pick(func(n *node) bool { return n.list && len(n.kids) > 1 }); n != nil {
			i, j := r.Intn(len(n.kids)), r.Intn(len(n.kids))
			n.kids[i], n.kids[j] = n.kids[j], n.kids[i]
		}
	case "byte-flip":
		if n := pick(func(n *node) bool { return !n.list && len(n.b) > 0 }); n != nil {
			n.b[r.Intn(len(n.b))] ^= byte(1 << uint(r.Intn(8)))
		}
	case "grow":
		if n := pick(func(n *node) bool { return !n.list }); n != nil {
			n.b = append(n.b, r.Bytes(1+r.Intn(3))...)
		}
	case "shrink":
		if n := pick(func(n *node) bool { return !n.list && len(n.b) > 0 }); n != nil {
			n.b = n.b[:len(n.b)-1]
		}
	}
	out := t.enc()
	switch kind {
	case "raw-flip":
		if len(out) > 0 {
			out[r.Intn(len(out))] ^= byte(1 << uint(r.Intn(8)))
		}
	case "raw-trunc":
		if len(out) > 0 {
			out = out[:r.Intn(len(out))]
		}
	case "raw-append":
		out = append(out, r.Bytes(1+r.Intn(3))...)
	}
	return kind, out
}

// ---- schema-directed walk ------------------------------------------------------------------------------------

func nilIsList(s *Sch) bool {
	switch s.K {
	case "list", "struct":
		return true
	case "custom":
		return nilIsList(s.Elem)
	}
	return false
}

func strictlySorted(kids []*node) bool {
	for i := 1; i < len(kids); i++ {
		if bytes.Compare(kids[i-1].b, kids[i].b) >= 0 {
			return false
		}
	}
	return true
}

// diagnose walks a tree the real decoder ACCEPTED for schema s, returns the non-canonical rules it exercises
// and the tree the model says the re-encoding must be (EvidenceDoubleSign entries sorted).
func diagnose(s *Sch, n *node, hits map[string]bool) *node {
	switch s.K {
	case "list":
		out := &node{list: true}
		if !n.list {
			return n
		}
		for _, k := range n.kids {
			out.kids = append(out.kids, diagnose(s.Elem, k, hits))
		}
		return out
	case "struct":
		if !n.list || len(n.kids) != len(s.Fields) {
			return n
		}
		out := &node{list: true}
		for i, k := range n.kids {
			out.kids = append(out.kids, diagnose(s.Fields[i], k, hits))
		}
		return out
	case "ptr":
		return diagnose(s.Elem, n, hits)
	case "nilptr":
		if (n.list && len(n.kids) == 0) || (!n.list && len(n.b) == 0) {
			want := nilIsList(s.Elem)
			if n.list != want {
				hits["nilptr"] = true
			}
			return &node{list: want}
		}
		return diagnose(s.Elem, n, hits)
	case "custom":
		w := diagnose(s.Elem, n, hits)
		switch s.CK {
		case "expelled":
			if w.list && len(w.kids) == 2 {
				e := w.kids[1]
				if !(len(e.b) == 0 || (len(e.b) == 1 && e.b[0] == 1)) {
					hits["expelled"] = true
					w.kids[1] = &node{}
				}
			}
		case "addrSet":
			if w.list && !strictlySorted(w.kids) {
				hits["addrSet"] = true
				m := map[string]bool{}
				var keys []string
				for _, k := range w.kids {
					if !m[string(k.b)] {
						m[string(k.b)] = true
						keys = append(keys, string(k.b))
					}
				}
				sort.Strings(keys)
				w = &node{list: true}
				for _, k := range keys {
					w.kids = append(w.kids, &node{b: []byte(k)})
				}
			}
		case "dsMap":
			if w.list && len(w.kids) == 3 && w.kids[2].list {
				m := map[string][]byte{}
				canon := true
				var prev []byte
				for i, p := range w.kids[2].kids {
					if !p.list || len(p.kids) != 2 {
						return w
					}
					h := toHash32(p.kids[0].b)
					if len(p.kids[0].b) != 32 {
						canon = false
					}
					if _, dup := m[string(h)]; dup {
						canon = false
					}
					if i > 0 && bytes.Compare(prev, h) >= 0 {
						canon = false // the encoder's order is Go's map order: any fixed order is non-canonical
					}
					prev = h
					m[string(h)] = p.kids[1].b
				}
				if !canon || len(m) >= 2 {
					// >= 2 entries: the encoder walks a Go map, so the value has several encodings
					hits["dsMap"] = true
				}
				var keys []string
				for k := range m {
					keys = append(keys, k)
				}
				sort.Strings(keys)
				signs := &node{list: true}
				for _, k := range keys {
					signs.kids = append(signs.kids, &node{list: true, kids: []*node{{b: []byte(k)}, {b: m[k]}}})
				}
				w = &node{list: true, kids: []*node{w.kids[0], w.kids[1], signs}}
			}
		}
		return w
	}
	return n
}

// sortDs sorts the entries of every EvidenceDoubleSign in a tree (Go re-encodes them in map iteration order).
func sortDs(s *Sch, n *node) *node {
	h := map[string]bool{}
	c := n.clone()
	return diagnoseOnlyDs(s, c, h)
}

func diagnoseOnlyDs(s *Sch, n *node, hits map[string]bool) *node {
	switch s.K {
	case "list":
		if n.list {
			for i, k := range n.kids {
				n.kids[i] = diagnoseOnlyDs(s.Elem, k, hits)
			}
		}
	case "struct":
		if n.list && len(n.kids) == len(s.Fields) {
			for i, k := range n.kids {
				n.kids[i] = diagnoseOnlyDs(s.Fields[i], k, hits)
			}
		}
	case "ptr", "nilptr":
		return diagnoseOnlyDs(s.Elem, n, hits)
	case "custom":
		n = diagnoseOnlyDs(s.Elem, n, hits)
		if s.CK == "dsMap" && n.list && len(n.kids) == 3 && n.kids[2].list {
			ks := n.kids[2].kids
			sort.SliceStable(ks, func(i, j int) bool {
				if !ks[i].list || !ks[j].list || len(ks[i].kids) != 2 || len(ks[j].kids) != 2 {
					return false
				}
				return bytes.Compare(ks[i].kids[0].b, ks[j].kids[0].b) < 0
			})
		}
	}
	return n
}

// wild applies ONE rule-violating (yet accepted) rewrite somewhere in a canonical tree of schema s, if the
// schema has a place for it. Returns the rule name or "".
func wild(r *vh.RNG, s *Sch, n *node) string {
	type site struct {
		rule string
		do   func()
	}
	var sites []site
	var walk func(s *Sch, n *node)
	walk = func(s *Sch, n *node) {
		switch s.K {
		case "list":
			if n.list {
				for _, k := range n.kids {
					walk(s.Elem, k)
				}
			}
		case "struct":
			if n.list && len(n.kids) == len(s.Fields) {
				for i, k := range n.kids {
					walk(s.Fields[i], k)
				}
			}
		case "ptr":
			walk(s.Elem, n)
		case "nilptr":
			if (n.list && len(n.kids) == 0) || (!n.list && len(n.b) == 0) {
				nn := n
				sites = append(sites, site{"nilptr", func() { nn.list = !nn.list }})
			} else {
				walk(s.Elem, n)
			}
		case "custom":
			walk(s.Elem, n)
			nn := n
			switch s.CK {
			case "expelled":
				if n.list && len(n.kids) == 2 {
					sites = append(sites, site{"expelled", func() { nn.kids[1] = &node{b: []byte{byte(r.Range(2, 255))}} }})
				}
			case "addrSet":
				if n.list && len(n.kids) >= 1 {
					sites = append(sites, site{"addrSet", func() {
						if len(nn.kids) >= 2 && r.Bool() {
							nn.kids[0], nn.kids[len(nn.kids)-1] = nn.kids[len(nn.kids)-1], nn.kids[0]
						} else {
							nn.kids = append(nn.kids, nn.kids[r.Intn(len(nn.kids))].clone())
						}
					}})
				}
			case "dsMap":
				if n.list && len(n.kids) == 3 && n.kids[2].list && len(n.kids[2].kids) >= 1 {
					sites = append(sites, site{"dsMap", func() {
						ks := nn.kids[2]
						switch r.Intn(3) {
						case 0: // duplicate hash, different signature
							d := ks.kids[r.Intn(len(ks.kids))].clone()
							d.kids[1].b = append(d.kids[1].b, 0x55)
							ks.kids = append(ks.kids, d)
						case 1: // short hash (BytesToHash left-pads)
							p := ks.kids[r.Intn(len(ks.kids))]
							p.kids[0].b = p.kids[0].b[len(p.kids[0].b)-r.Range(1, 31):]
						default: // long hash (BytesToHash crops from the left)
							p := ks.kids[r.Intn(len(ks.kids))]
							p.kids[0].b = append([]byte{0xee}, p.kids[0].b...)
						}
					}})
				}
			}
		}
	}
	walk(s, n)
	if len(sites) == 0 {
		return ""
	}
	st := sites[r.Intn(len(sites))]
	st.do()
	return st.rule
}
