package main

// The you-protocol payload structs (you/protocol.go). Package `you` cannot be linked into a Go 1.23 binary (its
// quic-go dependency panics at init), so their declarations are read from the SOURCE with go/ast and rebuilt as
// structurally identical types with reflect.StructOf; the real package rlp then decodes into those.

import (
	"fmt"
	"go/ast"
	"go/parser"
	"go/token"
	"math/big"
	"path/filepath"
	"reflect"
	"strconv"

	"github.com/youchainhq/go-youchain/common"
	"github.com/youchainhq/go-youchain/core/types"

	"verifharness/internal/vh"
)

var protocolNames = []string{"statusData", "NewBlockHashesData", "HashOrNumber", "BlocksData", "getBlockHeadersData", "GetNodeDataMsgData"}

var qualified = map[string]reflect.Type{
	"common.Hash":        reflect.TypeOf(common.Hash{}),
	"common.Address":     reflect.TypeOf(common.Address{}),
	"big.Int":            reflect.TypeOf(big.Int{}),
	"types.Block":        reflect.TypeOf(types.Block{}),
	"types.Header":       reflect.TypeOf(types.Header{}),
	"types.Transaction":  reflect.TypeOf(types.Transaction{}),
	"types.Transactions": reflect.TypeOf(types.Transactions{}),
	"types.Receipt":      reflect.TypeOf(types.Receipt{}),
	"types.TrieKind":     reflect.TypeOf(types.TrieKind(0)),
}

var basic = map[string]reflect.Type{
	"uint8": reflect.TypeOf(uint8(0)), "uint16": reflect.TypeOf(uint16(0)), "uint32": reflect.TypeOf(uint32(0)),
	"uint64": reflect.TypeOf(uint64(0)), "uint": reflect.TypeOf(uint(0)), "bool": reflect.TypeOf(false),
	"string": reflect.TypeOf(""), "byte": reflect.TypeOf(byte(0)),
}

func protocolTypes() (map[string]reflect.Type, error) {
	path := filepath.Join(vh.RepoRoot(), "you", "protocol.go")
	fset := token.NewFileSet()
	f, err := parser.ParseFile(fset, path, nil, 0)
	if err != nil {
		return nil, err
	}
	decls := map[string]ast.Expr{}
	for _, d := range f.Decls {
		gd, ok := d.(*ast.GenDecl)
		if !ok || gd.Tok != token.TYPE {
			continue
		}
		for _, s := range gd.Specs {
			ts := s.(*ast.TypeSpec)
			decls[ts.Name.Name] = ts.Type
		}
	}
	var conv func(e ast.Expr, depth int) (reflect.Type, error)
	conv = func(e ast.Expr, depth int) (reflect.Type, error) {
		if depth > 8 {
			return nil, fmt.Errorf("type nesting too deep")
		}
		switch x := e.(type) {
		case *ast.Ident:
			if t, ok := basic[x.Name]; ok {
				return t, nil
			}
			if d, ok := decls[x.Name]; ok {
				return conv(d, depth+1)
			}
			return nil, fmt.Errorf("unknown identifier %s", x.Name)
		case *ast.SelectorExpr:
			q := fmt.Sprint(x.X) + "." + x.Sel.Name
			if t, ok := qualified[q]; ok {
				return t, nil
			}
			return nil, fmt.Errorf("type %s is not known to the C14 translator", q)
		case *ast.StarExpr:
			t, err := conv(x.X, depth+1)
			if err != nil {
				return nil, err
			}
			return reflect.PtrTo(t), nil
		case *ast.ArrayType:
			t, err := conv(x.Elt, depth+1)
			if err != nil {
				return nil, err
			}
			if x.Len == nil {
				return reflect.SliceOf(t), nil
			}
			bl, ok := x.Len.(*ast.BasicLit)
			if !ok {
				return nil, fmt.Errorf("array length is not a literal")
			}
			n, _ := strconv.Atoi(bl.Value)
			return reflect.ArrayOf(n, t), nil
		case *ast.StructType:
			var fs []reflect.StructField
			for _, fl := range x.Fields.List {
				t, err := conv(fl.Type, depth+1)
				if err != nil {
					return nil, err
				}
				tag := ""
				if fl.Tag != nil {
					tag, _ = strconv.Unquote(fl.Tag.Value)
				}
				if len(fl.Names) == 0 {
					return nil, fmt.Errorf("embedded field is outside the supported subset")
				}
				for _, n := range fl.Names {
					if !n.IsExported() {
						continue // package rlp skips unexported fields
					}
					fs = append(fs, reflect.StructField{Name: n.Name, Type: t, Tag: reflect.StructTag(tag)})
				}
			}
			return reflect.StructOf(fs), nil
		}
		return nil, fmt.Errorf("type expression %T is outside the supported subset", e)
	}
	out := map[string]reflect.Type{}
	for _, n := range protocolNames {
		d, ok := decls[n]
		if !ok {
			return nil, fmt.Errorf("you/protocol.go no longer declares %s", n)
		}
		t, err := conv(d, 0)
		if err != nil {
			return nil, fmt.Errorf("you.%s: %v", n, err)
		}
		out[n] = t
	}
	return out, nil
}
