package main

// Go side of the C09 harness: executes protocol op lines on a REAL core/state.StateDB (with recover)
// and renders the same canonical dump text as the Lean driver (lean/Driver/C09.lean).

import (
	"fmt"
	"math/big"
	"sort"
	"strconv"
	"strings"

	"github.com/youchainhq/go-youchain/common"
	"github.com/youchainhq/go-youchain/core/state"
	"github.com/youchainhq/go-youchain/core/types"
	"github.com/youchainhq/go-youchain/crypto"
	"github.com/youchainhq/go-youchain/params"
	"github.com/youchainhq/go-youchain/rlp"
	"github.com/youchainhq/go-youchain/youdb"
)

// ---- universe ------------------------------------------------------------------------------------

const nVals = 6

var (
	accIDs  = []int{256, 257, 258, 259, 260, 3} // 3 = the RIPEMD precompile address journal.dirty() special-cases
	keyIDs  = []int{1, 2, 3}
	hashIDs = []int{1, 2, 3}
	valIDs  = []int{1000, 1001, 1002, 1003, 1004, 1005}

	valPubs  [][]byte
	valAddrs []common.Address
	valOf    = map[common.Address]int{}
)

func init() {
	// validator main addresses derive from public keys; ids 1000.. are assigned in ADDRESS ORDER so that the
	// sorted address lists of the Go code (delegations) are sorted by id in the model as well
	type kv struct {
		pub  []byte
		addr common.Address
	}
	var l []kv
	for j := 0; j < nVals; j++ {
		k, err := crypto.ToECDSA(common.LeftPadBytes([]byte{byte(j + 1)}, 32))
		if err != nil {
			panic(err)
		}
		p := crypto.CompressPubkey(&k.PublicKey)
		l = append(l, kv{p, state.PubToAddress(p)})
	}
	sort.Slice(l, func(i, j int) bool { return l[i].addr.Big().Cmp(l[j].addr.Big()) < 0 })
	for j, e := range l {
		valPubs = append(valPubs, e.pub)
		valAddrs = append(valAddrs, e.addr)
		valOf[e.addr] = 1000 + j
	}
}

func univLine() string {
	j := func(l []int) string {
		var s []string
		for _, x := range l {
			s = append(s, strconv.Itoa(x))
		}
		return strings.Join(s, ",")
	}
	return "univ " + j(accIDs) + " " + j(keyIDs) + " " + j(hashIDs) + " " + j(valIDs)
}

func accAddr(id int) common.Address { return common.BigToAddress(big.NewInt(int64(id))) }
func valAddr(id int) common.Address {
	if id >= 1000 && id < 1000+nVals {
		return valAddrs[id-1000]
	}
	return common.BigToAddress(big.NewInt(int64(id)))
}
func hashOf(id int) common.Hash { return common.BigToHash(big.NewInt(int64(id))) }
func idOfAddr(a common.Address) string {
	if v, ok := valOf[a]; ok {
		return strconv.Itoa(v)
	}
	return a.Big().String()
}

// ---- a real StateDB ------------------------------------------------------------------------------

type goSide struct {
	st *state.StateDB
	db state.Database
}

func newGoSide() *goSide {
	db := state.NewDatabase(youdb.NewMemDatabase())
	st, err := state.New(common.Hash{}, common.Hash{}, common.Hash{}, db)
	if err != nil {
		panic(err)
	}
	return &goSide{st: st, db: db}
}

func big10(s string) *big.Int {
	b, ok := new(big.Int).SetString(s, 10)
	if !ok {
		panic("bad number " + s)
	}
	return b
}
func atoi(s string) int {
	n, err := strconv.Atoi(s)
	if err != nil {
		panic("bad int " + s)
	}
	return n
}
func u64(s string) uint64 {
	n, err := strconv.ParseUint(s, 10, 64)
	if err != nil {
		panic("bad uint64 " + s)
	}
	return n
}

// apply executes one op line. Returns "ok", "ok <id>", "crash: <panic>", or "skip" (precondition of the
// harness-level op not met on the real state: the op is then not sent to the model either).
func (g *goSide) apply(f []string) (resp string) {
	defer func() {
		if r := recover(); r != nil {
			resp = fmt.Sprintf("crash: %v", r)
		}
	}()
	st := g.st
	switch f[0] {
	case "ab":
		st.AddBalance(accAddr(atoi(f[1])), big10(f[2]))
	case "sb":
		// like the EVM's CanTransfer: never drive a balance negative (IntermediateRoot cannot encode it)
		if st.GetBalance(accAddr(atoi(f[1]))).Cmp(big10(f[2])) < 0 {
			return "skip"
		}
		st.SubBalance(accAddr(atoi(f[1])), big10(f[2]))
	case "bal":
		st.SetBalance(accAddr(atoi(f[1])), big10(f[2]))
	case "non":
		st.SetNonce(accAddr(atoi(f[1])), u64(f[2]))
	case "code":
		var code []byte
		if f[2] != "-" {
			code = common.Hex2Bytes(f[2])
		}
		st.SetCode(accAddr(atoi(f[1])), code)
	case "ss":
		st.SetState(accAddr(atoi(f[1])), hashOf(atoi(f[2])), common.BigToHash(big10(f[3])))
	case "sui":
		st.Suicide(accAddr(atoi(f[1])))
	case "ca":
		st.CreateAccount(accAddr(atoi(f[1])))
	case "log":
		st.AddLog(&types.Log{Address: accAddr(256), Data: big10(f[1]).Bytes()})
	case "pre":
		st.AddPreimage(hashOf(atoi(f[1])), common.Hex2Bytes(f[2]))
	case "ar":
		st.AddRefund(u64(f[1]))
	case "sr":
		if u64(f[1]) > st.GetRefund() {
			return "skip"
		}
		st.SubRefund(u64(f[1]))
	case "srx": // malformed stream: no precondition (panics "Refund counter below zero")
		st.SubRefund(u64(f[1]))
	case "vc":
		id := atoi(f[1])
		if id < 1000 || id >= 1000+nVals {
			return "skip"
		}
		a := valAddr(id)
		if raw, del := st.VerifC09RawValidator(a); raw != nil && del {
			// re-creation over a live object flagged deleted is outside the claim (see props/C09.json)
			return "skip"
		}
		st.CreateValidator("v"+f[1], a, a, params.ValidatorRole(atoi(f[2])), valPubs[id-1000], valPubs[id-1000],
			big10(f[4]), big10(f[5]), params.AcceptDelegation, uint16(atoi(f[6])), 1000, uint8(atoi(f[3])))
	case "vu":
		cur := st.GetValidatorByMainAddr(valAddr(atoi(f[1])))
		if cur == nil {
			return "skip"
		}
		nv := cur.PartialCopy()
		nv.Role = params.ValidatorRole(atoi(f[2]))
		nv.Status = uint8(atoi(f[3]))
		nv.Token = big10(f[4])
		nv.Stake = big10(f[5])
		nv.CommissionRate = uint16(atoi(f[6]))
		st.UpdateValidator(nv, cur)
	case "la":
		// UpdateLastActive the two ways the staking module does it, both ending in UpdateValidator(new, old)
		cur := st.GetValidatorByMainAddr(valAddr(atoi(f[1])))
		if cur == nil {
			return "skip"
		}
		if len(f) > 3 && f[3] == "A" {
			// endblock.go: old := val.PartialCopy(); val.UpdateLastActive(n); UpdateValidator(val, old)
			old := cur.PartialCopy()
			cur.UpdateLastActive(u64(f[2]))
			st.UpdateValidator(cur, old)
		} else {
			// take_effect_handler.go: newVal := old.PartialCopy(); newVal.UpdateLastActive(n); UpdateValidator(newVal, old)
			nv := cur.PartialCopy()
			nv.UpdateLastActive(u64(f[2]))
			st.UpdateValidator(nv, cur)
		}
	case "vr":
		if st.GetValidatorByMainAddr(valAddr(atoi(f[1]))) == nil {
			return "skip"
		}
		st.RemoveValidator(valAddr(atoi(f[1])))
	case "aw":
		st.AddWithdrawRecord(&state.WithdrawRecord{Operator: accAddr(atoi(f[1])), Nonce: u64(f[2]), InitialBalance: big10(f[3]), FinalBalance: new(big.Int)})
	case "rw", "rwx": // rwx = malformed stream: indices are not checked against the queue length
		var idx []int
		if f[1] != "-" {
			for _, s := range strings.Split(f[1], ",") {
				idx = append(idx, atoi(s))
			}
		}
		if f[0] == "rw" {
			for _, i := range idx {
				if i >= st.GetWithdrawQueue().Len() {
					return "skip"
				}
			}
		}
		st.RemoveWithdrawRecords(idx)
	case "dg":
		cur := st.GetValidatorByMainAddr(valAddr(atoi(f[2])))
		if cur == nil {
			return "skip"
		}
		d := accAddr(atoi(f[1]))
		amt := big10(f[3])
		if amt.Sign() < 0 {
			df := cur.GetDelegationFrom(d)
			if df == nil || df.Token.CmpAbs(amt) < 0 || cur.Token.CmpAbs(amt) < 0 || st.VerifC09DelegationBalance(d).CmpAbs(amt) < 0 {
				return "skip"
			}
		}
		st.UpdateDelegation(d, cur, amt)
	case "prep":
		st.Prepare(hashOf(atoi(f[1])), common.Hash{}, atoi(f[2]))
	case "snap":
		return "ok " + strconv.Itoa(st.Snapshot())
	case "rev":
		st.RevertToSnapshot(atoi(f[1]))
	case "fin":
		st.Finalise(f[1] == "1")
	case "root":
		st.IntermediateRoot(f[1] == "1")
	case "reopen":
		// Commit the live state and continue on a NEW StateDB opened at the committed roots (same database)
		root, valRoot, stakingRoot, err := st.Commit(true)
		if err != nil {
			panic(err)
		}
		ns, err := state.New(root, valRoot, stakingRoot, g.db)
		if err != nil {
			panic(err)
		}
		g.st = ns
	default:
		return "crash: unknown op " + f[0]
	}
	return "ok"
}

func b01(b bool) string {
	if b {
		return "1"
	}
	return "0"
}

func (g *goSide) store(get func(k common.Hash) common.Hash) string {
	var parts []string
	for _, k := range keyIDs {
		v := get(hashOf(k)).Big()
		if v.Sign() != 0 {
			parts = append(parts, fmt.Sprintf("%d=%s", k, v))
		}
	}
	return strings.Join(parts, ";")
}

func showVal(id int, v *state.Validator, deleted bool) string {
	if v == nil {
		return fmt.Sprintf("%d:-", id)
	}
	var ds []string
	for _, d := range v.Delegations {
		if d == nil {
			ds = append(ds, "nil")
			continue
		}
		ds = append(ds, fmt.Sprintf("%s.%s.%s", idOfAddr(d.Delegator), d.Stake, d.Token))
	}
	// Ext BY VALUE: version, the raw Data bytes, and what LastActive() answers
	data := "-"
	if len(v.Ext.Data) > 0 {
		data = common.Bytes2Hex(v.Ext.Data)
	}
	ext := fmt.Sprintf("x%d.%s.%d", v.Ext.Version, data, v.LastActive())
	return fmt.Sprintf("%d:%d,%d,%s,%s,%s,%s,%d,%s,%s,[%s]", id, v.Role, v.Status, v.Token, v.Stake, v.SelfToken, v.SelfStake,
		v.CommissionRate, ext, b01(deleted), strings.Join(ds, ";"))
}

func showStat(s *state.ValidatorsStat) string {
	var parts []string
	ks := func(k *state.ValKindStat) string {
		if k == nil {
			return "nil"
		}
		return fmt.Sprintf("%s,%s,%d,%s,%s,%d", k.GetOnlineStake(), k.GetOnlineToken(), k.GetCount(), k.GetOfflineStake(), k.GetOfflineToken(), k.GetOfflineCount())
	}
	for _, kind := range []params.ValidatorKind{params.KindValidator, params.KindChamber, params.KindHouse} {
		parts = append(parts, ks(s.GetByKind(kind)))
	}
	for _, role := range []params.ValidatorRole{params.RoleChancellor, params.RoleSenator, params.RoleHouse} {
		parts = append(parts, ks(s.GetByRole(role)))
	}
	return strings.Join(parts, "/")
}

func showQueue(q *state.WithdrawQueue) string {
	var parts []string
	if q != nil {
		for _, r := range q.Records {
			if r == nil {
				parts = append(parts, "nil")
				continue
			}
			parts = append(parts, fmt.Sprintf("%s.%d.%s", idOfAddr(r.Operator), r.Nonce, r.InitialBalance))
		}
	}
	return strings.Join(parts, ";")
}

// dump renders the live state exactly as `dump` of the Lean driver does.
func (g *goSide) dump() (out string) {
	defer func() {
		if r := recover(); r != nil {
			out = fmt.Sprintf("dump-panic: %v", r)
		}
	}()
	st := g.st
	var accs, logs, pre, dirt, vals, idx, vdirt []string
	for _, id := range accIDs {
		a := accAddr(id)
		o := st.VerifC09Obj(a)
		switch {
		case !o.Exists:
			accs = append(accs, fmt.Sprintf("%d:-", id))
		case o.Deleted:
			accs = append(accs, fmt.Sprintf("%d:D,%s,%d,%s", id, b01(o.Suicided), o.Nonce, o.Balance))
		default:
			code := "-"
			if c := st.GetCode(a); len(c) > 0 {
				code = common.Bytes2Hex(c)
			}
			var dl []string
			for _, d := range o.Delegations {
				dl = append(dl, idOfAddr(d))
			}
			accs = append(accs, fmt.Sprintf("%d:E,%s,%d,%s,%s,%s,[%s],S[%s],C[%s]", id, b01(o.Suicided), o.Nonce, o.Balance, code, o.DelegationBal,
				strings.Join(dl, "+"),
				g.store(func(k common.Hash) common.Hash { return st.GetState(a, k) }),
				g.store(func(k common.Hash) common.Hash { return st.GetCommittedState(a, k) })))
		}
	}
	for _, h := range hashIDs {
		var ls []string
		for _, l := range st.GetLogs(hashOf(h)) {
			ls = append(ls, fmt.Sprintf("%s.%d.%d", new(big.Int).SetBytes(l.Data), l.Index, l.TxIndex))
		}
		logs = append(logs, fmt.Sprintf("%d:[%s]", h, strings.Join(ls, ";")))
		p := "-"
		if b, ok := st.Preimages()[hashOf(h)]; ok {
			p = common.Bytes2Hex(b)
		}
		pre = append(pre, fmt.Sprintf("%d=%s", h, p))
	}
	ad, vd := st.VerifC09Dirties()
	for _, id := range accIDs {
		if n := ad[accAddr(id)]; n != 0 {
			dirt = append(dirt, fmt.Sprintf("%d=%d", id, n))
		}
	}
	for _, id := range valIDs {
		a := valAddr(id)
		v, del := st.VerifC09RawValidator(a)
		vals = append(vals, showVal(id, v, del))
		if st.VerifC09InIndex(a) {
			idx = append(idx, strconv.Itoa(id))
		}
		if n := vd[a]; n != 0 {
			vdirt = append(vdirt, fmt.Sprintf("%d=%d", id, n))
		}
	}
	stat, _ := st.GetValidatorsStat()
	r, vr, j, vj := st.VerifC09Lens()
	return fmt.Sprintf("A %s | refund %d | logs %s | logSize %d | pre %s | dirt %s | V %s | idx %s | stat %s | q %s | vdirt %s | lens %d %d %d %d",
		strings.Join(accs, " "), st.GetRefund(), strings.Join(logs, " "), st.VerifC09LogSize(), strings.Join(pre, " "), strings.Join(dirt, " "),
		strings.Join(vals, " "), strings.Join(idx, ","), showStat(stat), showQueue(st.GetWithdrawQueue()), strings.Join(vdirt, " "), r, vr, j, vj)
}

// delegationsView renders GetDelegationsFrom (the public view of a delegator's list, which cross-checks every entry
// against the validator's record) for every account: BY VALUE, validators in list order, or the error text.
func (g *goSide) delegationsView() (out string) {
	defer func() {
		if r := recover(); r != nil {
			out = fmt.Sprintf("delegations-panic: %v", r)
		}
	}()
	var parts []string
	for _, id := range accIDs {
		dtos, err := g.st.GetDelegationsFrom(accAddr(id))
		if err != nil {
			parts = append(parts, fmt.Sprintf("%d:err(%v)", id, err))
			continue
		}
		var l []string
		for _, d := range dtos {
			l = append(l, fmt.Sprintf("%s.%s.%s", idOfAddr(d.Validator), d.Stake, d.Token))
		}
		parts = append(parts, fmt.Sprintf("%d:[%s]", id, strings.Join(l, ";")))
	}
	return strings.Join(parts, " ")
}

// validatorEncView: for every live validator record the digest of its RLP encoding, and LastActive() of the record
// decoded back from those bytes (the two representations of Ext must agree, and must be restored by a revert).
func (g *goSide) validatorEncView() (out string) {
	defer func() {
		if r := recover(); r != nil {
			out = fmt.Sprintf("encoding-panic: %v", r)
		}
	}()
	var parts []string
	for _, id := range valIDs {
		v, _ := g.st.VerifC09RawValidator(valAddr(id))
		if v == nil {
			parts = append(parts, fmt.Sprintf("%d:-", id))
			continue
		}
		enc, err := rlp.EncodeToBytes(v)
		if err != nil {
			parts = append(parts, fmt.Sprintf("%d:err(%v)", id, err))
			continue
		}
		var back state.Validator
		la := "undecodable"
		if err := rlp.DecodeBytes(enc, &back); err == nil {
			la = strconv.FormatUint(back.LastActive(), 10)
		}
		parts = append(parts, fmt.Sprintf("%d:%x.%s", id, crypto.Keccak256(enc)[:8], la))
	}
	return strings.Join(parts, " ")
}

const rootsUnstable = "not-compared:removed-validator-pending"

// roots = IntermediateRoot(true) of a Copy (the live state is not touched).
func (g *goSide) roots() (out string) {
	defer func() {
		if r := recover(); r != nil {
			out = fmt.Sprintf("roots-panic: %v", r)
		}
	}()
	// While a validator flagged deleted by RemoveValidator is still dirty, IntermediateRoot subtracts it from
	// the statistics a second time (deleteValidator); the subtraction is guarded (Cmp >= 0) and the dirty set is
	// a Go map, so the resulting statistics - and the validator root - depend on the map's iteration order.
	// Two root computations of the SAME state can then differ; such states are not compared by root.
	_, vd := g.st.VerifC09Dirties()
	for _, id := range valIDs {
		a := valAddr(id)
		if raw, del := g.st.VerifC09RawValidator(a); raw != nil && del && (vd[a] > 0 || g.st.VerifC09ValDirtyObj(a)) {
			return rootsUnstable
		}
	}
	c := g.st.Copy()
	a, b, d := c.IntermediateRoot(true)
	return fmt.Sprintf("%x/%x/%x", a[:6], b[:6], d[:6])
}

// tdump commits a Copy, reopens a fresh StateDB at the committed roots and renders what the tries hold,
// exactly as `tdump` of the Lean driver renders the model's trie contents.
func (g *goSide) tdump() (out string) {
	defer func() {
		if r := recover(); r != nil {
			out = fmt.Sprintf("tdump-panic: %v", r)
		}
	}()
	c := g.st.Copy()
	root, valRoot, stakingRoot, err := c.Commit(true)
	if err != nil {
		return "tdump-error: " + err.Error()
	}
	ns, err := state.New(root, valRoot, stakingRoot, g.db)
	if err != nil {
		return "tdump-error: " + err.Error()
	}
	var accs, vals, idx []string
	for _, id := range accIDs {
		a := accAddr(id)
		if !ns.Exist(a) {
			accs = append(accs, fmt.Sprintf("%d:-", id))
			continue
		}
		code := "-"
		if cd := ns.GetCode(a); len(cd) > 0 {
			code = common.Bytes2Hex(cd)
		}
		gg := &goSide{st: ns}
		accs = append(accs, fmt.Sprintf("%d:%d,%s,%s,%s,S[%s]", id, ns.GetNonce(a), ns.GetBalance(a), code, dlgBal(ns, a),
			gg.store(func(k common.Hash) common.Hash { return ns.GetState(a, k) })))
	}
	var inIdx []int
	for _, id := range valIDs {
		if ns.VerifC09InIndex(valAddr(id)) { // read before any getValidator call adds to the in-memory index
			inIdx = append(inIdx, id)
		}
	}
	sort.Ints(inIdx)
	for _, id := range inIdx {
		idx = append(idx, strconv.Itoa(id))
	}
	for _, id := range valIDs {
		v := ns.GetValidatorByMainAddr(valAddr(id))
		vals = append(vals, showVal(id, v, false))
	}
	stat, _ := ns.GetValidatorsStat()
	return fmt.Sprintf("A %s | V %s | idx %s | stat %s | q %s", strings.Join(accs, " "), strings.Join(vals, " "), strings.Join(idx, ","),
		showStat(stat), showQueue(ns.GetWithdrawQueue()))
}

func dlgBal(st *state.StateDB, a common.Address) string {
	// Delegations() of a reopened object needs the delegation blob (written only by Commit of the live
	// state); the balance is read without it
	return st.VerifC09DelegationBalance(a).String()
}
