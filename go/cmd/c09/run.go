package main

// C09 — "reverting to a state snapshot restores exactly the snapshotted state".
//
//  (a) correspondence: seeded op sequences (account + validator mutations, nested snapshots, reverts,
//      per-transaction Finalise, IntermediateRoot) run on a REAL core/state.StateDB and on the compiled
//      Lean model (drv_c09); after EVERY op the canonical dumps are diffed (all observables + dirty
//      counters + journal/revision-list lengths), after every IntermediateRoot also the trie contents
//      (Go: Commit of a Copy, reopened at the committed roots).
//  (b) implementation-level oracle, evaluated on the real code only: the dump and the roots of a Copy
//      taken just before `Snapshot()` must be equal to the dump/roots right after `RevertToSnapshot(id)`;
//      reverting an id that is in validRevisions must not panic.
//  (c) corpus witnesses of repaired defects and probes of the open known findings.

import (
	"fmt"
	"os"
	"regexp"
	"strconv"
	"strings"

	"github.com/youchainhq/go-youchain/params"
	"verifharness/internal/quiet"
	"verifharness/internal/vh"
)

type failure struct {
	kind string // correspondence | oracle
	what string
	at   int    // index of the op
	sect string // for dump differences: the first differing section
}

type caseStats struct {
	ops, skipped, snaps, reverts, maxDepth int
	crashBoth                              bool
	touchedVal, touchedAcc                 bool
	finaliseBeforeNested                   bool
	nestedReverts                          int
	reopens                                int // Commit + state.New executed
	rootsSkipped                           int // reverts whose Copy-roots were not compared (see goSide.roots)
	guardFail, modelSteps                  int // model steps outside / inside+outside the theorems' guard (Lean `opOKB`)
}

var (
	reDelVal = regexp.MustCompile(`(\d+):[^ ]*,1,\[[^\]]*\]`)
	reDelAcc = regexp.MustCompile(`(\d+):D,[^ ]*`)
)

// public projection of a dump for the oracle: objects flagged deleted are invisible through the API
func project(d string) string {
	d = reDelVal.ReplaceAllString(d, "$1:-")
	d = reDelAcc.ReplaceAllString(d, "$1:-")
	return d
}

func firstDiffSection(a, b string) string {
	as, bs := strings.Split(a, " | "), strings.Split(b, " | ")
	for i := 0; i < len(as) && i < len(bs); i++ {
		if as[i] != bs[i] {
			return strings.Fields(as[i] + " ?")[0] + " : go/now=" + as[i] + " lean/then=" + bs[i]
		}
	}
	return "length"
}

type snapRec struct{ dump, roots, dlgView, encView string }

// runCase executes one case on both sides. drv may be nil (implementation-only: oracle still runs).
func runCase(ops []string, drv *vh.Driver) (*failure, caseStats, error) {
	var cs caseStats
	g := newGoSide()
	var derr error
	ask := func(l string) string {
		if drv == nil {
			return ""
		}
		if tf := os.Getenv("VERIF_C09_TRACE"); tf != "" { // development aid only
			if fh, err := os.OpenFile(tf, os.O_APPEND|os.O_CREATE|os.O_WRONLY, 0o644); err == nil {
				fh.WriteString(l + "\n")
				fh.Close()
			}
		}
		s, e := drv.Ask(l)
		if e != nil && derr == nil {
			derr = e
		}
		return s
	}
	ask("reset")
	ask(univLine())
	goID, leanID := map[string]int{}, map[string]int{}
	snaps := map[int]snapRec{}
	depthOf := map[int]int{}
	sawFinalise := false
	for i, line := range ops {
		f := strings.Fields(line)
		if len(f) == 0 {
			continue
		}
		gf, lf := append([]string{}, f...), append([]string{}, f...)
		isRev, revLive := false, false
		switch f[0] {
		case "snap":
			snaps[-1] = snapRec{g.dump(), g.roots(), g.delegationsView(), g.validatorEncView()} // recorded before the snapshot is taken
			gf, lf = []string{"snap"}, []string{"snap"}
		case "rev":
			isRev = true
			if strings.HasPrefix(f[1], "L") {
				gi, ok := goID[f[1]]
				if !ok {
					continue // label removed by shrinking
				}
				gf[1] = strconv.Itoa(gi)
				lf[1] = strconv.Itoa(leanID[f[1]])
			} else {
				gf[1] = strings.TrimPrefix(f[1], "#")
				lf[1] = gf[1]
			}
			accIDsLive, _ := g.st.VerifC09RevIDs()
			for _, id := range accIDsLive {
				if strconv.Itoa(id) == gf[1] {
					revLive = true
				}
			}
		}
		if f[0] == "vu" && (f[4] == "=" || f[5] == "=") {
			// "=" keeps the validator's current token / stake (status- or role-only updates)
			cur := g.st.GetValidatorByMainAddr(valAddr(atoi(f[1])))
			if cur == nil {
				cs.skipped++
				continue
			}
			if f[4] == "=" {
				gf[4], lf[4] = cur.Token.String(), cur.Token.String()
			}
			if f[5] == "=" {
				gf[5], lf[5] = cur.Stake.String(), cur.Stake.String()
			}
		}
		if f[0] == "ss" && f[3] == "=c" {
			// write the slot back to its committed value (what GetCommittedState returns: pending over origin)
			v := g.st.GetCommittedState(accAddr(atoi(f[1])), hashOf(atoi(f[2]))).Big().String()
			gf[3], lf[3] = v, v
		}
		if f[0] == "dg" && f[3] == "-all" {
			// withdraw the whole delegation: the amount is read from the real validator record
			cur := g.st.GetValidatorByMainAddr(valAddr(atoi(f[2])))
			var amt string
			if cur != nil {
				if df := cur.GetDelegationFrom(accAddr(atoi(f[1]))); df != nil && df.Token.Sign() > 0 {
					amt = "-" + df.Token.String()
				}
			}
			if amt == "" {
				cs.skipped++
				continue
			}
			gf[3], lf[3] = amt, amt
		}
		if f[0] == "la" {
			lf = lf[:3]
		}
		if f[0] == "rwx" {
			lf[0] = "rw"
		}
		if f[0] == "srx" {
			lf[0] = "sr"
		}
		gr := g.apply(gf)
		if gr == "skip" {
			cs.skipped++
			continue
		}
		cs.ops++
		switch f[0] {
		case "vc", "vu", "vr", "la", "aw", "rw", "rwx", "dg":
			cs.touchedVal = true
		case "ab", "sb", "bal", "non", "code", "ss", "sui", "ca":
			cs.touchedAcc = true
		case "fin", "root", "reopen":
			sawFinalise = true
			if f[0] == "reopen" {
				cs.reopens++
			}
		}
		lr := ask(strings.Join(lf, " "))
		if derr != nil {
			return nil, cs, derr
		}
		gcrash := strings.HasPrefix(gr, "crash")
		// ---- oracle: a live snapshot must be revertible
		if isRev && revLive && gcrash {
			return &failure{"oracle", fmt.Sprintf("RevertToSnapshot(%s) of a snapshot that is in validRevisions panicked: %s", gf[1], gr), i, "crash"}, cs, nil
		}
		if drv != nil {
			lcrash := lr == "crash"
			if gcrash != lcrash || (!gcrash && strings.Fields(gr)[0] != strings.Fields(lr + " ?")[0]) {
				return &failure{"correspondence", fmt.Sprintf("op %d %q: go=%q lean=%q", i, line, gr, lr), i, "outcome"}, cs, nil
			}
		}
		if gcrash {
			cs.crashBoth = true
			return nil, cs, nil // a Go panic may leave the object half-updated: the case ends here
		}
		if f[0] == "snap" {
			gi, _ := strconv.Atoi(strings.Fields(gr)[1])
			goID[f[1]] = gi
			if drv != nil {
				li, _ := strconv.Atoi(strings.Fields(lr + " -1")[1])
				leanID[f[1]] = li
				if li != gi {
					return &failure{"correspondence", fmt.Sprintf("op %d snapshot id: go=%d lean=%d", i, gi, li), i, "outcome"}, cs, nil
				}
			} else {
				leanID[f[1]] = gi
			}
			snaps[gi] = snaps[-1]
			cs.snaps++
			r, _, _, _ := g.st.VerifC09Lens()
			depthOf[gi] = r
			if r > cs.maxDepth {
				cs.maxDepth = r
			}
			if r >= 2 && sawFinalise {
				cs.finaliseBeforeNested = true
			}
		}
		gd := g.dump()
		// ---- oracle: revert restores (public observables + dirty counters + lengths + roots of a Copy)
		if isRev {
			cs.reverts++
			id, _ := strconv.Atoi(gf[1])
			if depthOf[id] >= 2 {
				cs.nestedReverts++
			}
			rec := snaps[id]
			if project(gd) != project(rec.dump) {
				return &failure{"oracle", fmt.Sprintf("state after RevertToSnapshot(%d) differs from the state when the snapshot was taken: %s", id, firstDiffSection(project(gd), project(rec.dump))), i,
					strings.Fields(firstDiffSection(project(gd), project(rec.dump)))[0]}, cs, nil
			}
			if ev := g.validatorEncView(); ev != rec.encView {
				return &failure{"oracle", fmt.Sprintf("RLP encodings of the validator records after RevertToSnapshot(%d) = %s, at snapshot time = %s", id, ev, rec.encView), i, "encoding"}, cs, nil
			}
			if dv := g.delegationsView(); dv != rec.dlgView {
				return &failure{"oracle", fmt.Sprintf("GetDelegationsFrom after RevertToSnapshot(%d) = %s, at snapshot time = %s", id, dv, rec.dlgView), i, "delegations"}, cs, nil
			}
			if rt := g.roots(); rt == rootsUnstable || rec.roots == rootsUnstable {
				cs.rootsSkipped++
			} else if rt != rec.roots {
				return &failure{"oracle", fmt.Sprintf("roots of a Copy after RevertToSnapshot(%d) = %s, at snapshot time = %s", id, rt, rec.roots), i, "roots"}, cs, nil
			}
		}
		// ---- correspondence: full dump after every op
		if drv != nil {
			ld := ask("dump")
			if derr != nil {
				return nil, cs, derr
			}
			if gd != ld {
				return &failure{"correspondence", fmt.Sprintf("after op %d %q: %s", i, line, firstDiffSection(gd, ld)), i, strings.Fields(firstDiffSection(gd, ld))[0]}, cs, nil
			}
			if f[0] == "root" {
				gt, lt := g.tdump(), ask("tdump")
				if gt != lt {
					return &failure{"correspondence", fmt.Sprintf("trie contents after op %d %q: %s", i, line, firstDiffSection(gt, lt)), i, "trie"}, cs, nil
				}
			}
		}
	}
	if drv != nil {
		if gs := strings.Fields(ask("gstat")); len(gs) == 2 {
			cs.guardFail, _ = strconv.Atoi(gs[0])
			cs.modelSteps, _ = strconv.Atoi(gs[1])
		}
	}
	return nil, cs, nil
}

// ---- generator -------------------------------------------------------------------------------------

type gen struct {
	r        *vh.RNG
	ops      []string
	nextL    int
	stack    []frame
	flavour  string
	awCount  int
	removeOK bool // at most one RemoveValidator between two IntermediateRoots, and always reverted
	snapsN   int
}
type frame struct {
	label      string
	mustRevert bool
}

func (g *gen) emit(s string) { g.ops = append(g.ops, s) }
func (g *gen) acc() int {
	if g.r.Chance(8) {
		return 3
	}
	return 256 + g.r.Intn(5)
}
func (g *gen) val() int { return 1000 + g.r.Intn(nVals) }
func (g *gen) amount() string {
	switch g.r.Intn(12) {
	case 0:
		return "0"
	case 1:
		return "1180591620717411303424" // 2^70
	case 2:
		return "18446744073709551616" // 2^64
	default:
		return strconv.Itoa(1 + g.r.Intn(20))
	}
}
func (g *gen) stakeAmt() string {
	switch g.r.Intn(10) {
	case 0:
		return "0"
	case 1:
		return "18446744073709551616"
	default:
		return strconv.Itoa(g.r.Intn(60))
	}
}

func (g *gen) accOp() {
	r := g.r
	a := g.acc()
	if g.flavour == "ripemd" && r.Chance(12) {
		g.emit("ab 3 0") // touches the RIPEMD address (journal.dirty) when it is empty or absent
		return
	}
	switch r.Weighted([]int{14, 8, 6, 8, 6, 16, 5, 5, 8, 4, 8, 3}) {
	case 0:
		amt := g.amount()
		if a == 3 && amt == "0" && g.flavour != "ripemd" {
			amt = "1"
		}
		g.emit(fmt.Sprintf("ab %d %s", a, amt))
	case 1:
		g.emit(fmt.Sprintf("sb %d %s", a, g.amount()))
	case 2:
		g.emit(fmt.Sprintf("bal %d %s", a, g.amount()))
	case 3:
		n := strconv.Itoa(r.Intn(4))
		if r.Chance(10) {
			n = "18446744073709551615"
		}
		g.emit(fmt.Sprintf("non %d %s", a, n))
	case 4:
		g.emit(fmt.Sprintf("code %d %s", a, []string{"-", "60", "6001", "600160"}[r.Intn(4)]))
	case 5:
		v := strconv.Itoa(r.Intn(4))
		if r.Chance(8) {
			v = "1180591620717411303424"
		}
		g.emit(fmt.Sprintf("ss %d %d %s", a, keyIDs[r.Intn(len(keyIDs))], v))
	case 6:
		g.emit(fmt.Sprintf("sui %d", a))
	case 7:
		g.emit(fmt.Sprintf("ca %d", a))
	case 8:
		g.emit(fmt.Sprintf("log %d", r.Intn(100)))
	case 9:
		g.emit(fmt.Sprintf("pre %d %s", hashIDs[r.Intn(len(hashIDs))], []string{"aa", "bbcc", "00"}[r.Intn(3)]))
	case 10:
		amt := strconv.Itoa(r.Intn(30))
		if r.Chance(5) {
			amt = "18446744073709551610"
		}
		g.emit("ar " + amt)
	case 11:
		g.emit(fmt.Sprintf("sr %d", r.Intn(6)))
	}
}

// UpdateLastActive: numbers around one base (same compact width as the stored one: the buffer-reuse case), at the
// 1/2/3/5-byte width boundaries, and zero; both staking call patterns
func (g *gen) lastActiveOp() {
	r := g.r
	pool := []string{"1000", "1001", "1002", "999", "1000", "255", "256", "0", "1", "65535", "65536", "4294967296", "4294967297"}
	n := pool[r.Intn(len(pool))]
	if r.Chance(50) {
		n = pool[r.Intn(5)]
	}
	g.emit(fmt.Sprintf("la %d %s %s", g.val(), n, []string{"A", "B"}[r.Intn(2)]))
}

func (g *gen) valOp() {
	r := g.r
	if r.Chance(22) {
		g.lastActiveOp()
		return
	}
	switch r.Weighted([]int{10, 14, 3, 8, 4}) {
	case 0:
		g.emit(fmt.Sprintf("vc %d %d %d %s %s %d", g.val(), 1+r.Intn(3), r.Intn(2), g.stakeAmt(), g.stakeAmt(), 1000+r.Intn(3)))
	case 1:
		tok, stk := g.stakeAmt(), g.stakeAmt()
		if r.Chance(40) { // status-/role-/commission-only update: token and stake stay as they are
			tok, stk = "=", "="
		} else if r.Chance(15) {
			stk = "="
		}
		g.emit(fmt.Sprintf("vu %d %d %d %s %s %d", g.val(), 1+r.Intn(3), r.Intn(2), tok, stk, 1000+r.Intn(3)))
	case 2:
		// RemoveValidator is followed by a second statistics decrement at IntermediateRoot (deleteValidator),
		// so it is only generated inside a frame that is reverted, once per root interval
		if len(g.stack) > 0 && g.removeOK {
			g.removeOK = false
			g.stack[0].mustRevert = true
			g.emit(fmt.Sprintf("vr %d", g.val()))
		}
	case 3:
		g.awCount++
		g.emit(fmt.Sprintf("aw %d %d %d", 256+r.Intn(3), r.Intn(3), 1+r.Intn(9)))
	case 4:
		if g.awCount > 0 {
			n := 1 + r.Intn(2)
			var idx []string
			seen := map[int]bool{}
			for k := 0; k < n; k++ {
				i := r.Intn(g.awCount)
				if !seen[i] {
					seen[i] = true
					idx = append(idx, strconv.Itoa(i))
				}
			}
			if r.Chance(30) { // descending / unsorted index lists too
				for l, rr := 0, len(idx)-1; l < rr; l, rr = l+1, rr-1 {
					idx[l], idx[rr] = idx[rr], idx[l]
				}
			}
			g.awCount -= len(idx)
			g.emit("rw " + strings.Join(idx, ","))
		} else {
			g.emit("rw -")
		}
	}
}

func (g *gen) delegOp() {
	r := g.r
	amt := []string{"1000000000000000000", "2000000000000000000", "5", "-1000000000000000000", "-5", "1500000000000000000", "-2000000000000000000"}[r.Intn(7)]
	g.emit(fmt.Sprintf("dg %d %d %s", 256+r.Intn(4), g.val(), amt))
}

// revert the frame at stack index k (and thereby drop everything above it)
func (g *gen) revertAt(k int) {
	g.emit("rev " + g.stack[k].label)
	g.stack = g.stack[:k]
}

func genCase(r *vh.RNG, flavour string) []string {
	g := &gen{r: r, flavour: flavour, removeOK: true}
	nTx := r.Range(1, 3)
	if r.Chance(60) {
		nTx = r.Range(2, 4)
	}
	// a few validators and funded accounts up front so that updates have something to act on
	for j := 0; j < nVals; j++ {
		if r.Chance(60) {
			g.emit(fmt.Sprintf("vc %d %d %d %s %s %d", 1000+j, 1+r.Intn(3), r.Intn(2), g.stakeAmt(), g.stakeAmt(), 1000))
		}
	}
	for tx := 0; tx < nTx; tx++ {
		g.emit(fmt.Sprintf("prep %d %d", hashIDs[r.Intn(len(hashIDs))], tx))
		n := r.Range(4, 22)
		for k := 0; k < n; k++ {
			w := []int{40, 22, 0, 14, 9, 5}
			if flavour == "deleg" {
				w[2] = 18
			}
			switch r.Weighted(w) {
			case 0:
				g.accOp()
			case 1:
				g.valOp()
			case 2:
				g.delegOp()
			case 3:
				if len(g.stack) < 6 {
					l := fmt.Sprintf("L%d", g.nextL)
					g.nextL++
					g.stack = append(g.stack, frame{label: l})
					g.emit("snap " + l)
				}
			case 4:
				if len(g.stack) > 0 {
					k := len(g.stack) - 1
					if r.Chance(25) {
						k = r.Intn(len(g.stack))
					}
					g.revertAt(k)
				}
			case 5:
				// the innermost frame returns successfully: its snapshot is simply forgotten
				if k := len(g.stack) - 1; k >= 0 {
					if g.stack[k].mustRevert {
						g.revertAt(k)
					} else {
						g.stack = g.stack[:k]
					}
				}
			}
		}
		// end of transaction: frames still open are forgotten, except those that must be reverted
		for k := range g.stack {
			if g.stack[k].mustRevert {
				g.revertAt(k)
				break
			}
		}
		if r.Chance(30) && len(g.stack) > 0 {
			g.revertAt(r.Intn(len(g.stack)))
		}
		g.stack = nil
		switch r.Weighted([]int{70, 6, 20, 4}) {
		case 0:
			g.emit("fin 1")
		case 1:
			g.emit("fin 0")
		case 2:
			g.emit("root 1")
			g.removeOK = true
		case 3:
			if r.Chance(50) {
				g.emit("reopen")
			} else {
				g.emit("root 0")
			}
			g.removeOK = true
		}
	}
	g.emit("root 1")
	return g.ops
}

// delegation-list stream: one or two delegators build lists of 2-6 validators (appends, inserts of low addresses,
// withdrawals of first/middle/last entries, top-ups), inside nested snapshots that are reverted or kept, in the first
// and in later transactions (after Finalise / IntermediateRoot on the same StateDB).
func genDelegationLists(r *vh.RNG) []string {
	g := &gen{r: r, flavour: "dlist", removeOK: false}
	for j := 0; j < nVals; j++ {
		g.emit(fmt.Sprintf("vc %d %d 1 %d %d 1000", 1000+j, 1+r.Intn(3), 100+r.Intn(50), 100+r.Intn(50)))
	}
	dels := []int{256, 257}
	for _, d := range dels {
		g.emit(fmt.Sprintf("ab %d %d", d, 5+r.Intn(10)))
	}
	unit := "1000000000000000000"
	dlg := func() {
		d := dels[r.Intn(len(dels))]
		if r.Chance(75) {
			d = dels[0]
		}
		v := 1000 + r.Intn(nVals)
		switch r.Weighted([]int{50, 30, 12, 8}) {
		case 0:
			g.emit(fmt.Sprintf("dg %d %d %s", d, v, unit))
		case 1:
			g.emit(fmt.Sprintf("dg %d %d -all", d, v))
		case 2:
			g.emit(fmt.Sprintf("dg %d %d 5", d, v))
		case 3:
			g.emit(fmt.Sprintf("dg %d %d -5", d, v))
		}
	}
	nTx := r.Range(2, 4)
	for tx := 0; tx < nTx; tx++ {
		g.emit(fmt.Sprintf("prep %d %d", hashIDs[r.Intn(len(hashIDs))], tx))
		if tx == 0 {
			// build the initial list: 2-6 validators in random order
			perm := []int{0, 1, 2, 3, 4, 5}
			for i := len(perm) - 1; i > 0; i-- {
				j := r.Intn(i + 1)
				perm[i], perm[j] = perm[j], perm[i]
			}
			for _, j := range perm[:r.Range(2, nVals)] {
				g.emit(fmt.Sprintf("dg %d %d %s", dels[0], 1000+j, unit))
			}
		}
		n := r.Range(6, 20)
		for k := 0; k < n; k++ {
			switch r.Weighted([]int{45, 8, 5, 18, 14, 6}) {
			case 0:
				dlg()
			case 1:
				g.accOp()
			case 2:
				if r.Chance(50) {
					g.lastActiveOp()
				} else {
					g.emit(fmt.Sprintf("vu %d %d %d = = %d", g.val(), 1+r.Intn(3), r.Intn(2), 1000+r.Intn(3)))
				}
			case 3:
				if len(g.stack) < 5 {
					l := fmt.Sprintf("L%d", g.nextL)
					g.nextL++
					g.stack = append(g.stack, frame{label: l})
					g.emit("snap " + l)
				}
			case 4:
				if len(g.stack) > 0 {
					k := len(g.stack) - 1
					if r.Chance(25) {
						k = r.Intn(len(g.stack))
					}
					g.revertAt(k)
				}
			case 5:
				if k := len(g.stack) - 1; k >= 0 {
					g.stack = g.stack[:k]
				}
			}
		}
		if r.Chance(60) && len(g.stack) > 0 {
			g.revertAt(r.Intn(len(g.stack)))
		}
		g.stack = nil
		switch r.Weighted([]int{65, 25, 10}) {
		case 0:
			g.emit("fin 1")
		case 1:
			g.emit("root 1")
		case 2:
			g.emit("reopen")
		}
	}
	g.emit("root 1")
	return g.ops
}

// storage stream: two accounts, two slots, values from a tiny pool (0, 1, 2 and "the committed value"), the same slot
// written in several transactions separated by Finalise (writes parked in pendingStorage) or IntermediateRoot (pending
// moved to originStorage / the trie), restores to the pre-transaction and pre-block values, and snapshot / write / revert
// on exactly those slots at any nesting depth.
func genStorage(r *vh.RNG) []string {
	g := &gen{r: r, flavour: "storage"}
	accs := []int{256, 257}
	keys := []int{1, 2}
	write := func() {
		a, k := accs[r.Intn(2)], keys[r.Intn(2)]
		if r.Chance(70) {
			a, k = 256, 1
		}
		v := strconv.Itoa(r.Intn(3))
		if r.Chance(20) {
			v = "=c"
		}
		g.emit(fmt.Sprintf("ss %d %d %s", a, k, v))
	}
	g.emit("ab 256 5")
	if r.Chance(50) { // non-zero origin: the slot is in the trie before the block's first transaction
		g.emit(fmt.Sprintf("ss 256 1 %d", 1+r.Intn(2)))
		g.emit("root 1")
	}
	nTx := r.Range(2, 5)
	for tx := 0; tx < nTx; tx++ {
		g.emit(fmt.Sprintf("prep %d %d", hashIDs[r.Intn(len(hashIDs))], tx))
		n := r.Range(3, 12)
		for k := 0; k < n; k++ {
			switch r.Weighted([]int{50, 6, 20, 16, 8}) {
			case 0:
				write()
			case 1:
				switch r.Intn(4) {
				case 0:
					g.emit("sui 256")
				case 1:
					g.emit("ca 256")
				case 2:
					g.emit("ab 256 1")
				case 3:
					g.emit("non 257 1")
				}
			case 2:
				if len(g.stack) < 4 {
					l := fmt.Sprintf("L%d", g.nextL)
					g.nextL++
					g.stack = append(g.stack, frame{label: l})
					g.emit("snap " + l)
					write() // a write right after the snapshot, on the hot slot most of the time
				}
			case 3:
				if len(g.stack) > 0 {
					k := len(g.stack) - 1
					if r.Chance(25) {
						k = r.Intn(len(g.stack))
					}
					g.revertAt(k)
				}
			case 4:
				if k := len(g.stack) - 1; k >= 0 {
					g.stack = g.stack[:k]
				}
			}
		}
		if r.Chance(60) && len(g.stack) > 0 {
			g.revertAt(r.Intn(len(g.stack)))
		}
		g.stack = nil
		switch r.Weighted([]int{60, 5, 20, 15}) {
		case 0:
			g.emit("fin 1")
		case 1:
			g.emit("fin 0")
		case 2:
			g.emit("root 1")
		case 3:
			g.emit("reopen") // next block on a reopened StateDB: the slots now come from the trie (non-zero origin)
		}
	}
	g.emit("root 1")
	return g.ops
}

// malformed stream: invalid revert ids, refund underflow, out-of-range withdraw indices
func mutateMalformed(r *vh.RNG, ops []string) []string {
	out := append([]string{}, ops...)
	n := r.Range(1, 3)
	for k := 0; k < n; k++ {
		var inj string
		switch r.Intn(4) {
		case 0:
			inj = fmt.Sprintf("rev #%d", r.Intn(12))
		case 1:
			inj = "srx 18446744073709551615"
		case 2:
			inj = fmt.Sprintf("rwx %d,%d", 5+r.Intn(5), r.Intn(3))
		case 3:
			// revert to a label a second time (it is gone after the first revert)
			var labels []string
			for _, o := range out {
				if strings.HasPrefix(o, "rev L") {
					labels = append(labels, o)
				}
			}
			if len(labels) == 0 {
				inj = "rev #0"
			} else {
				inj = labels[r.Intn(len(labels))]
			}
		}
		at := r.Intn(len(out) + 1)
		out = append(out[:at], append([]string{inj}, out[at:]...)...)
	}
	return out
}

// ---- known-finding matchers over the SHRUNK failing input ---------------------------------------------

func hasOp(ops []string, name string) bool {
	for _, o := range ops {
		if strings.HasPrefix(o, name+" ") {
			return true
		}
	}
	return false
}

// F-C09e: journal.dirty(ripemd) is not undone by a revert (upstream consensus exception)
func matchRipemd(ops []string, f *failure) bool {
	for _, o := range ops {
		if o == "ab 3 0" {
			return f.kind == "oracle" && f.sect == "dirt"
		}
	}
	return false
}

func matcherOf(ops []string, f *failure) string {
	switch {
	case matchRipemd(ops, f):
		return "ripemd-touch-survives-revert"
	}
	return ""
}

// ---- run ----------------------------------------------------------------------------------------------

func nontrivial(cs caseStats) bool {
	return cs.touchedVal && cs.touchedAcc && cs.maxDepth >= 2 && cs.finaliseBeforeNested && cs.reverts >= 1
}

func report(c *vh.Ctx, drv *vh.Driver, name string, ops []string, f *failure, seen map[string]bool) {
	kind := f.kind
	fails := func(cand []string) bool {
		ff, _, err := runCase(cand, drv)
		return err == nil && ff != nil && ff.kind == kind
	}
	shrunk := vh.Shrink(ops, fails)
	ff, _, _ := runCase(shrunk, drv)
	if ff == nil {
		ff, shrunk = f, ops
	}
	m := matcherOf(shrunk, ff)
	if m != "" && seen[m] {
		return // one replay per known finding is enough
	}
	seen[m] = true
	rp := vh.WriteReplay(c.ReplayDir, "C09", name, c.Seed, []string{ff.kind + ": " + ff.what, fmt.Sprintf("shrunk from %d to %d ops", len(ops), len(shrunk))}, shrunk)
	c.Res.Fail(ff.kind, m, ff.what, rp)
}

func run(c *vh.Ctx) error {
	quiet.Silence()
	params.InitNetworkId(params.NetworkIdForTestCase)
	res := c.Res
	res.Rule = "case = op sequence on one StateDB (1-4 transactions separated by Finalise/IntermediateRoot); non-trivial when it touches >= 1 validator and >= 1 account, reaches snapshot depth >= 2 after an earlier Finalise on the same object, and reverts at least once; distinct by op text"
	var drv *vh.Driver
	if c.Driver != "" {
		d, err := vh.StartDriver(c.Driver)
		if err != nil {
			return err
		}
		drv = d
		defer drv.Close()
	}
	seen := map[string]bool{}
	// ---- corpus first: witnesses of repaired defects must pass on both sides
	for _, fn := range vh.CorpusFiles("C09") {
		body, _, err := vh.ReadReplay(fn)
		if err != nil {
			continue
		}
		res.Dist("corpus")
		f, _, err := runCase(body, drv)
		if err != nil {
			return err
		}
		if f != nil {
			res.Fail("corpus", "", "corpus witness fails again: "+fn+": "+f.what, fn)
		}
	}
	n := c.N(6000, 60000)
	if c.Search {
		n *= 2
	}
	if v, err := strconv.Atoi(os.Getenv("VERIF_C09_N")); err == nil && v > 0 {
		n = v // development aid only; ./check never sets it
	}
	totalOps, totalRev, nested, crashes, guardFail, modelSteps, rootsSkipped := 0, 0, 0, 0, 0, 0, 0
	for i := 0; i < n; i++ {
		r := c.R.Fork()
		flavour := []string{"plain", "deleg", "ripemd", "malformed", "dlist", "storage"}[r.Weighted([]int{46, 9, 5, 11, 14, 15})]
		var ops []string
		if flavour == "dlist" {
			ops = genDelegationLists(r)
		} else if flavour == "storage" {
			ops = genStorage(r)
		} else {
			ops = genCase(r, flavour)
		}
		if flavour == "malformed" {
			ops = mutateMalformed(r, ops)
		}
		f, cs, err := runCase(ops, drv)
		if err != nil {
			return err
		}
		res.Count(strings.Join(ops, "\n"), nontrivial(cs))
		res.Dist("flavour-" + flavour)
		res.Dist(fmt.Sprintf("depth-%d", cs.maxDepth))
		if cs.crashBoth {
			res.Dist("ended-by-predicted-panic")
			crashes++
		}
		if cs.finaliseBeforeNested {
			res.Dist("nested-snapshots-after-finalise")
		}
		totalOps += cs.ops
		guardFail += cs.guardFail
		modelSteps += cs.modelSteps
		if cs.guardFail > 0 {
			res.Dist("cases-with-a-step-outside-the-theorem-guard-" + flavour)
		}
		totalRev += cs.reverts
		rootsSkipped += cs.rootsSkipped
		if cs.reopens > 0 {
			res.Dist("cases-continued-on-a-reopened-StateDB")
		}
		nested += cs.nestedReverts
		if drv != nil {
			res.TracesVsImpl++
		}
		if i < 3 {
			res.Sample(map[string]interface{}{"flavour": flavour, "ops": ops})
		}
		if f != nil {
			report(c, drv, fmt.Sprintf("%s-%d", f.kind, i), ops, f, seen)
			if len(res.Failures) >= 8 {
				break
			}
		}
	}
	res.DistN("ops-executed", totalOps)
	res.DistN("model-steps-of-completed-cases", modelSteps)
	res.DistN("model-steps-outside-the-theorem-guard", guardFail)
	res.DistN("reverts-checked-by-oracle", totalRev)
	res.DistN("reverts-at-depth>=2", nested)
	res.DistN("reverts-without-root-comparison(removed-validator-pending)", rootsSkipped)
	// ---- probes of the open known findings
	for _, p := range probes {
		f, _, err := runCase(p.ops, nil)
		if err != nil {
			return err
		}
		rep := f != nil && matcherOf(p.ops, f) == p.matcher
		what := "not reproduced"
		if f != nil {
			what = f.what
		}
		res.Probes = append(res.Probes, vh.Probe{ID: p.id, Reproduced: rep, What: what})
	}
	res.Partial = append(res.Partial,
		"root hashes are compared on the implementation only (Copy+IntermediateRoot before snapshot vs after revert); the model carries trie CONTENTS, compared after every IntermediateRoot through a reopened StateDB",
		"Commit, Reset, staking records / pending relationships (not journalled by design) and Copy independence are outside the model")
	return nil
}

type probe struct {
	id, matcher string
	ops         []string
}

var probes = []probe{
	{"F-C09e", "ripemd-touch-survives-revert", []string{"non 3 0", "root 0", "snap L0", "ab 3 0", "rev L0"}},
}

func replay(c *vh.Ctx, body, comments []string) (bool, string) {
	quiet.Silence()
	params.InitNetworkId(params.NetworkIdForTestCase)
	var drv *vh.Driver
	if c.Driver != "" {
		if d, err := vh.StartDriver(c.Driver); err == nil {
			drv = d
			defer drv.Close()
		}
	}
	f, _, err := runCase(body, drv)
	if err != nil {
		return true, "driver error: " + err.Error()
	}
	if f == nil {
		return false, "no failure: model and implementation agree and every revert restored the snapshotted state"
	}
	return true, f.kind + ": " + f.what
}
