package main

import "verifharness/internal/vh"

func main() {
	vh.Main(vh.Harness{Property: "C09", Run: run, Replay: replay})
}
