package main

import (
	"bufio"
	"fmt"
	"os"
	"path/filepath"
	"sort"
	"strings"
	"time"

	"github.com/youchainhq/go-youchain/common"
	"github.com/youchainhq/go-youchain/params"
	"verifharness/internal/quiet"

	"verifharness/internal/vh"
)

const clashMatcher = "raw-node-hash-clash"

func nonFIFO(p schedParams) bool {
	return p.order != 0 || p.wDup+p.wCorrupt+p.wUnsol > 0 || p.dropPct > 0
}

func genCase(r *vh.RNG, oracle bool, forceClash bool) (*kase, schedParams) {
	kind := "state"
	if r.Chance(35) && !forceClash {
		kind = "trie"
	}
	k := newKase(kind, oracle)
	if kind == "state" {
		genStateSource(r, k, forceClash)
	} else {
		genTrieSource(r, k)
	}
	genInit(r, k)
	p := genParams(r)
	if !oracle {
		p.wAPI = 6
	}
	return k, p
}

func caseCanon(k *kase) string {
	return strings.Join(k.header(), "\n") + "\n" + strings.Join(k.ops, "\n")
}

func run(c *vh.Ctx) error {
	quiet.Silence()
	params.InitNetworkId(params.NetworkIdForTestCase)
	tRun := time.Now()
	res := c.Res
	res.Rule = "case = (source trie or state built with the real trie code, initial destination content, schedule of Missing / deliveries / commits / restarts generated against the running real sync); non-trivial when the source has >= 1 branch node, (state: >= 1 storage sub-trie), and the schedule is not the plain FIFO one (other order, duplicates, corrupted or unsolicited blobs, never-answered requests, or a restart); distinct by canonical text of the whole case"
	var drv *vh.Driver
	if c.Driver != "" {
		d, err := vh.StartDriver(c.Driver)
		if err != nil {
			return err
		}
		drv = d
		defer drv.Close()
	} else {
		res.Partial = append(res.Partial, "no Lean driver given: correspondence not checked in this run")
	}

	// ---- crash journal: if the code under test kills the process (stack overflow, deadlock, os.Exit) the result
	// file written here survives and points at the case that was executing
	inflight := filepath.Join(c.ReplayDir, "C19-inflight.replay")
	if c.Out != "" {
		prov := vh.NewResult("C19", c.Tier, c.Seed)
		prov.Fail("crash", "", "the harness process died while executing the case in the replay file (fatal error in the code under test: unbounded recursion, deadlock or os.Exit)", inflight)
		prov.Write(c.Out)
		os.MkdirAll(c.ReplayDir, 0o755)
		journalPath = inflight
		defer func() { closeJournal(); os.Remove(inflight) }()
	}

	// ---- corpus first ----------------------------------------------------------------------------
	for _, f := range vh.CorpusFiles("C19") {
		body, comments, e := vh.ReadReplay(f)
		if e != nil {
			continue
		}
		res.Dist("corpus")
		still, what := replayWith(drv, body, comments)
		if still {
			res.Fail("corpus", "", "corpus witness fails again: "+f+": "+what, f)
		}
	}

	nOracle := c.N(2500, 30000)
	nCorr := c.N(1000, 12000)
	if c.Search {
		nOracle *= 3
	}
	if os.Getenv("C19_LOOPONLY") != "" { // stress the end-to-end stream alone
		nOracle, nCorr = 0, 0
	}
	knownSeen := false
	runOne := func(i int, oracle bool, forceClash bool) error {
		r := c.R.Fork()
		k, p := genCase(r, oracle, forceClash)
		startJournal(k)
		w := newWorld(k, drv)
		// the source itself (built by trie.Trie.Commit + trie.Database.Commit) must be complete and readable
		if si0 := k.reach(k.roots); si0.dangling {
			w.orc = "source database lacks a node referenced from its own root (trie.Database.Commit did not write it)"
		}
		for _, root := range k.roots {
			if _, err := w.sourceWalk(root); err != nil && w.orc == "" {
				w.orc = fmt.Sprintf("source trie %x built by the real trie code cannot be read back: %v", root, err)
			}
		}
		genSchedule(r, k, w, p)
		if w.drvErr != nil {
			return w.drvErr
		}
		res.TracesVsImpl += w.traces
		// distribution
		si := k.reach(k.roots)
		branch, storage := false, false
		for h, role := range si.roles {
			if role&rolePlain != 0 && k.kind == "state" {
				storage = true
			}
			if v := viewOf(k.src[h]); v.ok && len(v.children) >= 2 {
				branch = true
			}
		}
		nontrivial := branch && (k.kind == "trie" || storage) && nonFIFO(p)
		res.Count(caseCanon(k), nontrivial)
		mode := "corr"
		if oracle {
			mode = "oracle"
		}
		res.Dist("mode-" + mode)
		res.Dist("kind-" + k.kind)
		res.Dist(fmt.Sprintf("source-nodes-%s", bucket(len(k.src))))
		res.Dist(fmt.Sprintf("ops-%s", bucket(len(k.ops))))
		for t := range k.tags {
			res.Dist("src-" + t)
		}
		for s, n := range w.stats {
			res.DistN(s, n)
		}
		res.Dist([]string{"order-fifo", "order-lifo", "order-random"}[p.order])
		if p.dropPct > 0 {
			res.Dist("sched-never-answered")
		}
		if i < 2 {
			hd := k.header()
			if len(hd) > 6 {
				hd = append(hd[:6:6], fmt.Sprintf("... %d more header lines", len(k.header())-6))
			}
			ops := k.ops
			if len(ops) > 12 {
				ops = append(ops[:12:12], fmt.Sprintf("... %d more ops", len(k.ops)-12))
			}
			res.Sample(map[string]interface{}{"mode": mode, "header": hd, "ops": ops, "pending_at_end": w.sched.Pending(), "complete": w.complete})
		}
		if w.corr == "" && w.orc == "" {
			return nil
		}
		// ---- failure: classify, shrink, write replay -------------------------------------------------
		kind, what := "correspondence", w.corr
		if w.corr == "" {
			kind, what = "oracle", w.orc
		}
		matcher := ""
		if kind == "oracle" && k.hasClash() {
			matcher = clashMatcher
			if knownSeen {
				return nil
			}
			knownSeen = true
		}
		fails := func(ops []string) bool {
			k2 := *k
			k2.ops = ops
			o := runKase(&k2, drv)
			if kind == "correspondence" {
				return o.corr != ""
			}
			return o.orc != "" && o.corr == ""
		}
		small := vh.Shrink(k.ops, fails)
		k2 := *k
		k2.ops = small
		o := runKase(&k2, drv)
		if kind == "correspondence" && o.corr != "" {
			what = o.corr
		} else if o.orc != "" {
			what = o.orc
		}
		name := fmt.Sprintf("%s-%s-%d", kind, mode, i)
		if matcher != "" {
			name = "known-" + matcher
		}
		rp := vh.WriteReplay(c.ReplayDir, "C19", name, c.Seed, []string{kind + ": " + what, fmt.Sprintf("shrunk from %d to %d ops", len(k.ops), len(small))}, append(k2.header(), small...))
		res.Fail(kind, matcher, what, rp)
		return nil
	}
	// a broken tree fails thousands of cases; a dozen shrunk replays are enough, the rest only costs time
	enough := func() bool {
		n := 0
		for _, f := range res.Failures {
			if f.Matcher == "" {
				n++
			}
		}
		return n >= 12
	}
	for i := 0; i < nOracle && !enough(); i++ {
		if err := runOne(i, true, i%40 == 7); err != nil {
			return err
		}
	}
	for i := 0; i < nCorr && !enough(); i++ {
		if err := runOne(i, false, false); err != nil {
			return err
		}
	}
	// ---- end-to-end stream over the real downloader trie-sync loop ------------------------------------------
	nLoop := c.N(12, 150) * len(loopScenarios)
	loopFails := 0
	for i := 0; i < nLoop && loopFails < 12; i++ {
		seed := c.R.U64()
		lr := runLoopCase(i, seed)
		res.Count(lr.canon, true)
		res.Dist("loop-" + lr.scenario)
		res.Dist("loop-outcome-" + lr.outcome)
		for s, n := range lr.stats {
			res.DistN(s, n)
		}
		if i < 1 {
			res.Sample(map[string]interface{}{"mode": "end-to-end", "case": lr.canon, "outcome": lr.outcome})
		}
		if lr.fail != "" {
			rp := vh.WriteReplay(c.ReplayDir, "C19", fmt.Sprintf("loop-%s-%d", lr.scenario, i), c.Seed,
				[]string{"oracle (end-to-end, real downloader loop): " + lr.fail}, []string{loopReplayLine(i, seed)})
			res.Fail("oracle", "", lr.fail, rp)
			loopFails++
		}
	}

	if traceOn {
		fmt.Fprintf(os.Stderr, "end-to-end stream done at %v\n", time.Since(tRun))
	}
	// ---- known-finding probe F-C19a -------------------------------------------------------------------
	pr := probeClash(c.R.Fork(), drv)
	res.Probes = append(res.Probes, pr)
	if traceOn {
		fmt.Fprintf(os.Stderr, "probe done at %v\n", time.Since(tRun))
	}

	res.Partial = append(res.Partial,
		"Missing(n): the order among equal priorities is prque's; the model accepts any answer that pops n queued hashes of highest priority (checked per call)",
		"decodeNode and the Account RLP decoder are inputs of the model (views of blobs), not modelled",
		"goroutines, peers, timeouts and retry accounting of the downloader loop are not modelled; deliveries, commits and restarts are explicit operations")
	return nil
}

var (
	journalPath string
	journalFile *os.File
	journalBuf  *bufio.Writer
)

func closeJournal() {
	if journalFile != nil {
		journalBuf.Flush()
		journalFile.Close()
		journalFile = nil
	}
}

func startJournal(k *kase) {
	if journalPath == "" {
		return
	}
	closeJournal()
	f, err := os.Create(journalPath)
	if err != nil {
		return
	}
	journalFile, journalBuf = f, bufio.NewWriterSize(f, 1<<16)
	fmt.Fprintf(journalBuf, "# property C19\n# case in flight when the harness process died\n")
	for _, l := range k.header() {
		journalBuf.WriteString(l + "\n")
	}
	journalBuf.Flush()
}

func journalOp(op string) {
	if journalFile != nil {
		journalBuf.WriteString(op + "\n")
		journalBuf.Flush()
	}
}

func bucket(n int) string {
	switch {
	case n <= 5:
		return "1-5"
	case n <= 20:
		return "6-20"
	case n <= 80:
		return "21-80"
	case n <= 300:
		return "81-300"
	default:
		return "300+"
	}
}

// probeClash replays the F-C19a shape with the schedule that triggers it: the code blob (which is byte-identical
// to a storage trie node) is requested as a raw entry before the storage trie asks for the same hash.
func probeClash(r *vh.RNG, drv *vh.Driver) vh.Probe {
	pr := vh.Probe{ID: "F-C19a"}
	for attempt := 0; attempt < 40 && !pr.Reproduced; attempt++ {
		k := newKase("state", true)
		genStateSource(r.Fork(), k, true)
		p := genParams(r)
		p.wCommit, p.wRestart, p.dropPct, p.wCorrupt, p.wDup, p.wUnsol, p.order = 3, 0, 0, 0, 0, 0, 2
		w := newWorld(k, drv)
		genSchedule(r.Fork(), k, w, p)
		if w.corr != "" {
			pr.What = "model and implementation disagree on the probe: " + w.corr
			return pr
		}
		if w.orc != "" && k.hasClash() {
			pr.Reproduced = true
			pr.What = "state whose contract code equals a storage-trie node: " + w.orc
		}
	}
	if !pr.Reproduced {
		pr.What = "not reproduced in 40 attempts"
	}
	return pr
}

func replayWith(drv *vh.Driver, body, comments []string) (bool, string) {
	if len(body) > 0 && strings.HasPrefix(body[0], "LOOPCASE") {
		return replayLoop(body[0])
	}
	k, err := parseKase(body)
	if err != nil {
		return false, "unreadable replay: " + err.Error()
	}
	o := runKase(k, drv)
	var msgs []string
	if o.err != nil {
		msgs = append(msgs, "harness: "+o.err.Error())
	}
	if o.corr != "" {
		msgs = append(msgs, "correspondence: "+o.corr)
	}
	if o.orc != "" {
		msgs = append(msgs, "oracle: "+o.orc)
	}
	if len(msgs) == 0 {
		return false, "no longer fails"
	}
	return o.corr != "" || o.orc != "", strings.Join(msgs, "; ")
}

func replay(c *vh.Ctx, body, comments []string) (bool, string) {
	quiet.Silence()
	params.InitNetworkId(params.NetworkIdForTestCase)
	var drv *vh.Driver
	if c.Driver != "" {
		if d, err := vh.StartDriver(c.Driver); err == nil {
			drv = d
			defer drv.Close()
		} else {
			fmt.Fprintln(os.Stderr, "driver:", err)
		}
	}
	return replayWith(drv, body, comments)
}

var _ = sort.Strings
var _ = common.Hash{}
