package main

// Seeded generators: source tries / states built with the real trie code, initial destination contents,
// and response schedules (generated interactively against the running real sync).

import (
	"fmt"
	"math/big"
	"sort"

	"github.com/youchainhq/go-youchain/common"
	"github.com/youchainhq/go-youchain/core/state"
	"github.com/youchainhq/go-youchain/crypto"
	"github.com/youchainhq/go-youchain/rlp"
	"github.com/youchainhq/go-youchain/trie"
	"github.com/youchainhq/go-youchain/youdb"

	"verifharness/internal/vh"
)

type kv struct{ k, v []byte }

// buildTrie applies the updates on top of base with the real trie and commits every node to mem.
func buildTrie(mem *youdb.MemDatabase, base common.Hash, kvs []kv) common.Hash {
	tdb := trie.NewDatabase(mem)
	tr, err := trie.New(base, tdb)
	if err != nil {
		panic(err)
	}
	for _, e := range kvs {
		tr.Update(e.k, e.v)
	}
	root, err := tr.Commit(nil)
	if err != nil {
		panic(err)
	}
	if root != emptyRoot {
		if err := tdb.Commit(root, false); err != nil {
			panic(err)
		}
	}
	return root
}

func putBlob(mem *youdb.MemDatabase, b []byte) common.Hash {
	h := crypto.Keccak256Hash(b)
	mem.Put(h[:], b)
	return h
}

// plain key/value sets of different shapes
func genKVs(r *vh.RNG, n int) []kv {
	style := r.Intn(4)
	var out []kv
	for i := 0; i < n; i++ {
		var k, v []byte
		switch style {
		case 0: // hashed 32-byte keys, large values: branchy top, hashed leaves
			k = crypto.Keccak256([]byte{byte(i), byte(i >> 8), byte(r.Intn(256))})
			v = r.Bytes(r.Range(33, 70))
		case 1: // short keys over a tiny alphabet: extensions, value slots of full nodes, embedded nodes
			k = make([]byte, r.Range(1, 4))
			for j := range k {
				k[j] = []byte{0x00, 0x01, 0x10, 0x11, 0xff}[r.Intn(5)]
			}
			if r.Bool() {
				v = r.Bytes(r.Range(1, 4))
			} else {
				v = r.Bytes(r.Range(33, 50))
			}
		case 2: // storage-like: hashed keys, short rlp values (some leaves embedded deep down)
			k = crypto.Keccak256([]byte{byte(i), byte(r.Intn(4))})
			v, _ = rlp.EncodeToBytes(r.Bytes(r.Range(1, 32)))
		default: // common prefixes
			k = append([]byte{0xab, 0xcd}, r.Bytes(r.Range(1, 3))...)
			k[2] &= 0x31
			v = r.Bytes(r.Range(20, 60))
		}
		out = append(out, kv{k, v})
	}
	return out
}

type acct struct {
	key     []byte
	a       state.Account
	storage []kv
}

func encAcct(a state.Account) []byte {
	if a.Balance == nil {
		a.Balance = new(big.Int)
	}
	if a.DelegationBalance == nil {
		a.DelegationBalance = new(big.Int)
	}
	b, err := rlp.EncodeToBytes(a)
	if err != nil {
		panic(err)
	}
	return b
}

// genStateSource builds a state: accounts with storage tries (some shared, some empty), code (some shared,
// some none) and delegation blobs, and optionally a second root (a later state sharing most nodes).
func genStateSource(r *vh.RNG, k *kase, clash bool) {
	mem := youdb.NewMemDatabase()
	n := r.Range(1, 18)
	if clash && n < 3 {
		n = 3
	}
	var accts []acct
	var storageRoots []common.Hash
	var codes [][]byte
	for i := 0; i < n; i++ {
		a := acct{key: crypto.Keccak256([]byte{byte(i), 0x77, byte(r.Intn(256))})}
		a.a.Nonce = uint64(r.Intn(1000))
		a.a.Balance = big.NewInt(int64(r.Intn(1 << 30)))
		a.a.DelegationBalance = big.NewInt(int64(r.Intn(3)))
		// storage
		switch {
		case r.Chance(35):
			a.a.Root = emptyRoot
		case len(storageRoots) > 0 && r.Chance(20):
			a.a.Root = storageRoots[r.Intn(len(storageRoots))]
			k.tags["shared-storage"] = true
		default:
			m := r.Range(1, 9)
			for j := 0; j < m; j++ {
				v, _ := rlp.EncodeToBytes(r.Bytes(r.Range(1, 32)))
				a.storage = append(a.storage, kv{crypto.Keccak256([]byte{byte(i), byte(j)}), v})
			}
			a.a.Root = buildTrie(mem, emptyRoot, a.storage)
			storageRoots = append(storageRoots, a.a.Root)
		}
		// code
		switch {
		case r.Chance(40):
			a.a.CodeHash = emptyState[:]
		case len(codes) > 0 && r.Chance(25):
			c := codes[r.Intn(len(codes))]
			a.a.CodeHash = crypto.Keccak256(c)
			k.tags["shared-code"] = true
		default:
			c := r.Bytes(r.Range(1, 90))
			codes = append(codes, c)
			a.a.CodeHash = putBlob(mem, c).Bytes()
		}
		// delegations
		if r.Chance(30) {
			d := r.Bytes(r.Range(20, 80))
			a.a.DelegationsHash = putBlob(mem, d).Bytes()
			k.tags["delegations"] = true
		}
		accts = append(accts, a)
	}
	if clash {
		// F-C19a shape: account Y's code is byte-for-byte the root node of account X's storage trie
		x, y := 0, 1
		var st []kv
		for j := 0; j < 5; j++ {
			st = append(st, kv{crypto.Keccak256([]byte{0xee, byte(j), byte(r.Intn(256))}), append([]byte{0xa0}, r.Bytes(32)...)})
		}
		accts[x].storage = st
		accts[x].a.Root = buildTrie(mem, emptyRoot, st)
		node, _ := mem.Get(accts[x].a.Root[:])
		accts[y].a.CodeHash = crypto.Keccak256(node)
		k.tags["clash"] = true
	}
	var kvs []kv
	for _, a := range accts {
		kvs = append(kvs, kv{a.key, encAcct(a.a)})
	}
	if k.tags["bad-leaf"] {
		// a leaf of the account trie that is not an account: the leaf callback fails on the genuine blob
		kvs = append(kvs, kv{crypto.Keccak256([]byte("bad-leaf")), append([]byte{0x01}, r.Bytes(40)...)})
	}
	root := buildTrie(mem, emptyRoot, kvs)
	k.roots = append(k.roots, root)
	if r.Chance(30) && !clash && !k.tags["bad-leaf"] {
		// a later state: some accounts changed, one added, one deleted
		var upd []kv
		for i := 0; i < r.Range(1, 3); i++ {
			a := accts[r.Intn(len(accts))]
			a.a.Nonce += 1 + uint64(r.Intn(5))
			if len(a.storage) > 0 && r.Bool() {
				v, _ := rlp.EncodeToBytes(r.Bytes(r.Range(1, 32)))
				a.a.Root = buildTrie(mem, a.a.Root, []kv{{a.storage[0].k, v}})
			}
			upd = append(upd, kv{a.key, encAcct(a.a)})
		}
		na := state.Account{Nonce: 1, Root: emptyRoot, CodeHash: putBlob(mem, r.Bytes(12)).Bytes()}
		upd = append(upd, kv{crypto.Keccak256([]byte("new")), encAcct(na)})
		if len(accts) > 2 && r.Bool() {
			upd = append(upd, kv{accts[len(accts)-1].key, nil})
		}
		k.roots = append(k.roots, buildTrie(mem, root, upd))
		k.tags["two-roots"] = true
	}
	memToSrc(mem, k)
}

func genTrieSource(r *vh.RNG, k *kase) {
	mem := youdb.NewMemDatabase()
	kvs := genKVs(r, r.Range(1, 40))
	root := buildTrie(mem, emptyRoot, kvs)
	k.roots = append(k.roots, root)
	if r.Chance(30) {
		var upd []kv
		for i := 0; i < r.Range(1, 4); i++ {
			e := kvs[r.Intn(len(kvs))]
			if r.Chance(30) {
				upd = append(upd, kv{e.k, nil})
			} else {
				upd = append(upd, kv{e.k, r.Bytes(r.Range(1, 50))})
			}
		}
		k.roots = append(k.roots, buildTrie(mem, root, upd))
		k.tags["two-roots"] = true
	}
	memToSrc(mem, k)
}

func memToSrc(mem *youdb.MemDatabase, k *kase) {
	keys := mem.Keys()
	sort.Slice(keys, func(i, j int) bool { return string(keys[i]) < string(keys[j]) })
	for _, key := range keys {
		v, _ := mem.Get(key)
		if h := k.addSrc(v); h != common.BytesToHash(key) {
			panic(fmt.Sprintf("source entry %x is not keyed by its hash", key))
		}
	}
}

// closureOf returns every (hash) the reader needs below (h, role), within the source.
func (k *kase) closureOf(h common.Hash, role int) []common.Hash {
	seen := map[ref]bool{}
	var out []common.Hash
	stack := []ref{{h, role}}
	for len(stack) > 0 {
		x := stack[len(stack)-1]
		stack = stack[:len(stack)-1]
		if seen[x] {
			continue
		}
		seen[x] = true
		blob, ok := k.src[x.h]
		if !ok {
			continue
		}
		out = append(out, x.h)
		stack = append(stack, expand(blob, x.role)...)
	}
	return out
}

// genInit fills the initial destination with closed pieces of the source (what an earlier, interrupted or
// older sync legitimately leaves behind).
func genInit(r *vh.RNG, k *kase) {
	if r.Chance(60) {
		return
	}
	si := k.reach(k.roots)
	var hs []common.Hash
	for h := range si.roles {
		hs = append(hs, h)
	}
	sort.Slice(hs, func(i, j int) bool { return string(hs[i][:]) < string(hs[j][:]) })
	if len(hs) == 0 {
		return
	}
	have := map[common.Hash]bool{}
	for i := 0; i < r.Range(1, 4); i++ {
		h := hs[r.Intn(len(hs))]
		role := si.roles[h]
		if role&(role-1) != 0 {
			continue // ambiguous role (clash sources): do not pre-seed
		}
		if len(k.roots) > 0 && h == k.roots[len(k.roots)-1] && r.Chance(80) {
			continue // keep the final root missing most of the time
		}
		for _, x := range k.closureOf(h, role) {
			if !have[x] {
				have[x] = true
				k.init = append(k.init, [2][]byte{x.Bytes(), k.src[x]})
			}
		}
	}
	if len(k.init) > 0 {
		k.tags["prefilled-destination"] = true
	}
}

// ---------------------------------------------------------------------------------------------------
// schedules

type schedParams struct {
	missMax            int // 0 = all
	order              int // 0 fifo, 1 lifo, 2 random
	wDeliver, wMiss    int
	wDup, wCorrupt     int
	wUnsol, wCommit    int
	wRestart, wAPI     int
	dropPct            int // requested hashes never answered
	maxSteps           int
	cfailPct, batchPct int
}

func genParams(r *vh.RNG) schedParams {
	p := schedParams{missMax: []int{0, 0, 1, 2, 3, 5, 8}[r.Intn(7)], order: r.Intn(3), wDeliver: 50, wMiss: 12,
		wDup: r.Intn(8), wCorrupt: r.Intn(8), wUnsol: r.Intn(6), wCommit: []int{0, 2, 6, 15}[r.Intn(4)], wRestart: 0,
		maxSteps: 1200, cfailPct: 25, batchPct: 30}
	if r.Chance(25) {
		p.dropPct = r.Range(3, 30)
	}
	if r.Chance(25) {
		p.wRestart = 1
	}
	if r.Chance(20) { // plain, well-behaved responder
		p.order, p.wDup, p.wCorrupt, p.wUnsol = 0, 0, 0, 0
	}
	return p
}

func mutateBlob(r *vh.RNG, b []byte) []byte {
	c := append([]byte{}, b...)
	switch r.Intn(4) {
	case 0:
		if len(c) > 0 {
			c[r.Intn(len(c))] ^= byte(1 << uint(r.Intn(8)))
		}
	case 1:
		if len(c) > 1 {
			c = c[:r.Intn(len(c))]
		}
	case 2:
		c = append(c, byte(r.Intn(256)))
	default:
		// swap two 32-byte windows if possible (keeps it decodable: children permuted)
		if len(c) > 70 {
			i := r.Intn(len(c) - 66)
			for j := 0; j < 32; j++ {
				c[i+j], c[i+33+j] = c[i+33+j], c[i+j]
			}
		} else if len(c) > 0 {
			c[0] ^= 0x80
		}
	}
	return c
}

// genSchedule drives the live world and records the operations into k.ops.
func genSchedule(r *vh.RNG, k *kase, w *world, p schedParams) {
	emit := func(op string) {
		k.ops = append(k.ops, op)
		journalOp(op)
		if err := w.exec(op); err != nil && w.corr == "" {
			w.corr = "harness: " + err.Error()
		}
	}
	root := k.roots[0]
	if len(k.roots) > 1 && r.Bool() {
		root = k.roots[1]
	}
	emit("NEW " + hx(root[:]))
	var outstanding, delivered []common.Hash
	srcKeys := k.srcSeq
	weights := []int{p.wDeliver, p.wMiss, p.wDup, p.wCorrupt, p.wUnsol, p.wCommit, p.wRestart, p.wAPI}
	idle := 0
	for step := 0; step < p.maxSteps && w.sched.Pending() > 0 && w.drvErr == nil; step++ {
		act := r.Weighted(weights)
		if act == 0 && len(outstanding) == 0 {
			act = 1
		}
		switch act {
		case 0: // answer one outstanding request (order decides which)
			i := 0
			switch p.order {
			case 1:
				i = len(outstanding) - 1
			case 2:
				i = r.Intn(len(outstanding))
			}
			h := outstanding[i]
			outstanding = append(outstanding[:i:i], outstanding[i+1:]...)
			if r.Chance(p.batchPct) && len(outstanding) > 0 && !k.oracle {
				// a batch through Sync.Process
				line := "PROC " + hx(h[:]) + ":@" + hx(h[:])
				for j := 0; j < r.Range(1, 3) && len(outstanding) > 0; j++ {
					h2 := outstanding[0]
					outstanding = outstanding[1:]
					line += " " + hx(h2[:]) + ":@" + hx(h2[:])
					delivered = append(delivered, h2)
				}
				emit(line)
			} else {
				emit("DELIVER @" + hx(h[:]))
			}
			delivered = append(delivered, h)
			idle = 0
		case 1:
			emit(fmt.Sprintf("MISS %d", p.missMax))
			got := 0
			for _, h := range w.lastMiss {
				if _, ok := k.src[h]; !ok {
					continue // the source cannot answer
				}
				if p.dropPct > 0 && r.Chance(p.dropPct) {
					continue // never answered
				}
				outstanding = append(outstanding, h)
				got++
			}
			if got == 0 && len(outstanding) == 0 {
				idle++
				if idle > 3 {
					step = p.maxSteps // stuck: everything left is never answered
				}
			}
		case 2:
			if len(delivered) > 0 {
				h := delivered[r.Intn(len(delivered))]
				emit("DELIVER @" + hx(h[:]))
			}
		case 3:
			if len(outstanding) > 0 {
				h := outstanding[r.Intn(len(outstanding))]
				emit("DELIVER " + hx(mutateBlob(r, k.src[h])))
			}
		case 4:
			if r.Bool() && len(srcKeys) > 0 {
				h := srcKeys[r.Intn(len(srcKeys))]
				emit("DELIVER @" + hx(h[:]))
			} else {
				emit("DELIVER " + hx(r.Bytes(r.Range(1, 80))))
			}
		case 5:
			switch {
			case r.Chance(p.cfailPct):
				emit(fmt.Sprintf("CFAIL %d", r.Intn(6)))
			case r.Chance(40):
				emit("BCOMMIT")
			default:
				emit("COMMIT")
			}
			emit("CHECK")
		case 6:
			nr := k.roots[r.Intn(len(k.roots))]
			if r.Bool() {
				emit("COMMIT")
			}
			emit("NEW " + hx(nr[:]))
			outstanding = nil
		case 7:
			genAPIOp(r, k, w, emit, outstanding)
		}
	}
	emit("COMMIT")
	emit("FINAL")
}

// API-level operations (corr mode): explicit AddSubTrie / AddRawEntry with and without parents, Process with
// explicit, possibly mismatching, hashes.
func genAPIOp(r *vh.RNG, k *kase, w *world, emit func(string), outstanding []common.Hash) {
	pick := func() common.Hash {
		if len(k.srcSeq) == 0 || r.Chance(15) {
			return common.BytesToHash(r.Bytes(32))
		}
		return k.srcSeq[r.Intn(len(k.srcSeq))]
	}
	zero := common.Hash{}
	info := k.reach(k.roots)
	parent := zero
	if r.Chance(50) {
		cand := pick() // most likely not a pending request: the real code panics
		if !r.Chance(20) && len(outstanding) > 0 {
			cand = outstanding[r.Intn(len(outstanding))]
		}
		// the model keys parents by hash where Go holds pointers; they agree unless a raw request is given
		// children (Process commits a raw request without looking at deps, leaving a dangling parent pointer),
		// which no caller in the repository does
		if info.roles[cand]&roleRaw == 0 && !w.rawAdded[cand] {
			parent = cand
		}
	}
	switch r.Intn(4) {
	case 0:
		emit(fmt.Sprintf("SUB %s %d %s", hx(pick().Bytes()), r.Intn(70), hx(parent[:])))
	case 1:
		h := pick()
		if info.roles[h]&(roleCB|rolePlain) != 0 {
			return
		}
		w.rawAdded[h] = true
		emit(fmt.Sprintf("RAW %s %d %s", hx(h[:]), r.Intn(70), hx(parent[:])))
	case 2:
		h, d := pick(), pick()
		if _, ok := k.src[d]; ok {
			emit("PROC " + hx(h[:]) + ":@" + hx(d[:]))
		}
	default:
		if len(outstanding) > 0 {
			h := outstanding[r.Intn(len(outstanding))]
			emit("PROC " + hx(h[:]) + ":" + hx(mutateBlob(r, k.src[h])))
		}
	}
}
