package main

// End-to-end stream: the REAL downloader trie-sync machinery (trieFetcher -> runTrieSync -> trieSync.run/loop ->
// assignTasks/fillTasks/process -> processNodeData/commit) is driven by scripted fake peers over responder scripts.
// Oracle (the "reports completion or reports incompleteness" clause): the error returned by the sync (what
// trieSync.Wait() returns to FetchVldTrie / fetchAcTrie / processFastSyncContent) is nil ONLY IF the destination
// database holds the complete trie; scenarios that leave an honest peer available must end with nil, scenarios that
// make completion impossible must end with a non-nil error; and the sync must end (watchdog).

import (
	"fmt"
	"math/big"
	"os"
	"sort"
	"strconv"
	"strings"
	"sync"
	"time"

	"github.com/youchainhq/go-youchain/common"
	"github.com/youchainhq/go-youchain/core/types"
	"github.com/youchainhq/go-youchain/crypto"
	"github.com/youchainhq/go-youchain/trie"
	"github.com/youchainhq/go-youchain/you/downloader"
	"github.com/youchainhq/go-youchain/youdb"

	"verifharness/internal/vh"
)

var loopScenarios = []string{
	"honest", "late-join", "withheld-by-some", "corrupted-once", "timeout-then-other-serves", "peer-dropped-other-serves",
	"withheld-by-all", "solo-peer-dropped-mid-request", "cancelled", "invalid-leaf", "solo-peer-times-out",
	"transient-write-failure", "destination-from-crashed-commit",
}

// flakyDB is a destination database whose batch writes can fail: the failAt-th batch Write (1-based, counted over all
// batches) fails; if dead, every later one fails too (a crashed disk), otherwise only that one (a transient hiccup).
type flakyDB struct {
	*youdb.MemDatabase
	mu     sync.Mutex
	writes int
	failAt int
	dead   bool
	failed int
}

var errFlaky = fmt.Errorf("injected batch write failure")

type flakyBatch struct {
	youdb.Batch
	db *flakyDB
}

func (f *flakyDB) NewBatch() youdb.Batch { return &flakyBatch{Batch: f.MemDatabase.NewBatch(), db: f} }

func (b *flakyBatch) Write() error {
	f := b.db
	f.mu.Lock()
	f.writes++
	fail := f.failAt > 0 && (f.writes == f.failAt || (f.dead && f.writes > f.failAt))
	if fail {
		f.failed++
	}
	f.mu.Unlock()
	if fail {
		return errFlaky
	}
	return b.Batch.Write()
}

// bigKVs: enough data (> 100 KiB = youdb.IdealBatchSize) for periodic flushes / intermediate batch writes
func bigKVs(r *vh.RNG) []kv {
	n := r.Range(1500, 3500)
	out := make([]kv, 0, n)
	for i := 0; i < n; i++ {
		out = append(out, kv{crypto.Keccak256([]byte{byte(i), byte(i >> 8), byte(r.Intn(256))}), r.Bytes(r.Range(60, 140))})
	}
	return out
}

const loopWatchdog = 90 * time.Second

type loopNet struct {
	mu        sync.Mutex
	k         *kase
	d         *downloader.Downloader
	peers     map[string]*loopPeer
	next      int
	replace   func(n *loopNet) *loopPeer // peer that takes the place of a dropped one (nil: nobody)
	stalled   bool
	corrupted int
	timeouts  int
	requests  int
	rtt       time.Duration
}

type loopPeer struct {
	id          string
	n           *loopNet
	withhold    map[common.Hash]bool
	corruptOnce map[common.Hash]bool
	stallAt     int    // this request (1-based) is never answered
	onStall     func() // called (once) when the stalling request arrives
	extras      bool   // also sends a duplicate / an unrequested source blob
	calls       int
	r           *vh.RNG
}

func (p *loopPeer) Head() (common.Hash, *big.Int)                                { return common.Hash{}, new(big.Int) }
func (p *loopPeer) Origin() *big.Int                                             { return new(big.Int) }
func (p *loopPeer) RequestHeadersByHash(common.Hash, int, int, bool, bool) error { return nil }
func (p *loopPeer) RequestHeadersByNumber(uint64, int, int, bool, bool) error    { return nil }
func (p *loopPeer) RequestBodies([]common.Hash) error                            { return nil }
func (p *loopPeer) RequestReceipts([]common.Hash) error                          { return nil }

func (p *loopPeer) RequestNodeData(kind types.TrieKind, hashes []common.Hash) error {
	n := p.n
	n.mu.Lock()
	n.requests++
	p.calls++
	stall := p.stallAt > 0 && p.calls == p.stallAt
	var data [][]byte
	if !stall {
		data = make([][]byte, 0, len(hashes)+2)
		for _, h := range hashes {
			if p.withhold[h] {
				continue
			}
			blob, ok := n.k.src[h]
			if !ok {
				continue
			}
			if p.corruptOnce[h] {
				delete(p.corruptOnce, h)
				n.corrupted++
				data = append(data, mutateBlob(p.r, blob))
				continue
			}
			data = append(data, blob)
		}
		if x := n.k.srcSeq[p.r.Intn(len(n.k.srcSeq))]; p.extras && !p.withhold[x] && p.r.Chance(40) {
			data = append(data, n.k.src[x])
			if len(data) > 1 && p.r.Bool() {
				data = append(data, data[0])
			}
		}
	} else {
		n.stalled = true
	}
	onStall := p.onStall
	n.mu.Unlock()
	if stall {
		if onStall != nil {
			onStall()
		}
		return nil
	}
	return n.d.DeliverNodeData(p.id, data)
}

func (n *loopNet) add(p *loopPeer) *loopPeer {
	n.mu.Lock()
	n.next++
	p.id = fmt.Sprintf("p%d", n.next)
	p.n = n
	n.peers[p.id] = p
	n.mu.Unlock()
	n.d.RegisterPeer(p.id, p)
	return p
}

// dropPeer is what the downloader calls for a stalling peer; as in the node, the peer gets unregistered.
// A replacement (if the scenario has one) is registered first, so that the peer set never runs empty by accident.
func (n *loopNet) dropPeer(id string) {
	n.mu.Lock()
	n.timeouts++
	rep := n.replace
	n.mu.Unlock()
	if rep != nil {
		n.add(rep(n))
	}
	n.d.UnregisterPeer(id)
}

func (n *loopNet) unregister(id string) {
	n.mu.Lock()
	rep := n.replace
	n.mu.Unlock()
	if rep != nil {
		n.add(rep(n))
	}
	n.d.UnregisterPeer(id)
}

type loopResult struct {
	scenario string
	canon    string
	fail     string
	outcome  string
	stats    map[string]int
}

func complete(k *kase, dst youdb.Database, root common.Hash) (bool, string) {
	if root == emptyRoot {
		return true, ""
	}
	if !present(dst, root) {
		return false, "root absent"
	}
	sdb := youdb.NewMemDatabase()
	for h, b := range k.src {
		sdb.Put(h[:], b)
	}
	want, serr := walk(sdb, root, k.kind)
	if serr != nil {
		return false, "source itself unreadable: " + serr.Error()
	}
	got, derr := walk(dst, root, k.kind)
	if derr != nil {
		return false, derr.Error()
	}
	if !sameContent(want, got) {
		return false, "content differs from the source"
	}
	return true, ""
}

// runLoopCase runs one end-to-end case; everything random derives from seed.
func runLoopCase(scen int, seed uint64) loopResult {
	name := loopScenarios[scen%len(loopScenarios)]
	tCase := time.Now()
	if traceOn {
		defer func() { fmt.Fprintf(os.Stderr, "whole case %s took %v\n", name, time.Since(tCase)) }()
	}
	r := vh.NewRNG(seed)
	res := loopResult{scenario: name, stats: map[string]int{}}
	kind := "trie"
	if name == "invalid-leaf" || r.Chance(50) {
		kind = "state"
	}
	k := newKase(kind, true)
	if name == "invalid-leaf" {
		k.tags["bad-leaf"] = true
	}
	big := name == "transient-write-failure" || name == "destination-from-crashed-commit"
	var bigkvs []kv
	if big {
		kind = "trie"
		k.kind = "trie"
		bigkvs = bigKVs(r)
		mem := youdb.NewMemDatabase()
		k.roots = append(k.roots, buildTrie(mem, emptyRoot, bigkvs))
		memToSrc(mem, k)
	}
	for tries := 0; tries < 20 && !big; tries++ {
		k.src, k.srcSeq, k.roots = map[common.Hash][]byte{}, nil, nil
		if kind == "state" {
			genStateSource(r, k, false)
		} else {
			genTrieSource(r, k)
		}
		if len(k.src) >= 6 {
			break
		}
	}
	root := k.roots[len(k.roots)-1]
	dst := youdb.NewMemDatabase()
	var dstDB youdb.Database = dst
	var flaky *flakyDB
	expectOK := true
	switch name {
	case "transient-write-failure":
		// the n-th batch write of the destination fails once (n = 1, 2, 3, then random), then the database works again
		failAt := scen/len(loopScenarios)%4 + 1
		if failAt == 4 {
			failAt = r.Range(1, 8)
		}
		flaky = &flakyDB{MemDatabase: dst, failAt: failAt}
		dstDB = flaky
	case "destination-from-crashed-commit":
		// what trie.Database.Commit of the same trie leaves on a disk that dies after k batch writes
		crash := &flakyDB{MemDatabase: dst, failAt: r.Range(1, 4), dead: true}
		tdb := trie.NewDatabase(crash)
		tr, _ := trie.New(emptyRoot, tdb)
		for _, e := range bigkvs {
			tr.Update(e.k, e.v)
		}
		if croot, err := tr.Commit(nil); err == nil && croot == root {
			tdb.Commit(croot, false) // fails half-way: dst keeps the batches written before the crash
		}
		res.stats["loop-crashed-commit-entries-left"] = dst.Len()
	}
	switch name {
	case "honest", "late-join", "withheld-by-some", "corrupted-once":
		genInit(r, k)
		for _, e := range k.init {
			dst.Put(e[0], e[1])
		}
	}
	if ok, _ := complete(k, dst, root); ok {
		// nothing to sync: still a legal case (the sync must end with nil at once)
		res.stats["loop-already-complete"]++
	}
	n := &loopNet{k: k, peers: map[string]*loopPeer{}, rtt: 3 * time.Second}
	n.d = downloader.VerifNewLoopDownloader(dstDB, n.dropPeer)
	defer func() {
		t1 := time.Now()
		n.d.Terminate()
		if traceOn {
			fmt.Fprintf(os.Stderr, "terminate took %v\n", time.Since(t1))
		}
	}()
	fork := func() *vh.RNG { // peers may be created from downloader goroutines (replacements)
		n.mu.Lock()
		defer n.mu.Unlock()
		return r.Fork()
	}
	honest := func(n *loopNet) *loopPeer { return &loopPeer{r: fork(), extras: true} }
	n.replace = honest

	// a hash the sync will have to ask for (reachable from the root, not present initially)
	reach := k.reach([]common.Hash{root})
	var cands []common.Hash
	for h := range reach.roles {
		if !present(dst, h) {
			cands = append(cands, h)
		}
	}
	sort.Slice(cands, func(i, j int) bool { return string(cands[i][:]) < string(cands[j][:]) })
	pickSet := func(m int) map[common.Hash]bool {
		out := map[common.Hash]bool{}
		for i := 0; i < m && len(cands) > 0; i++ {
			out[cands[r.Intn(len(cands))]] = true
		}
		return out
	}
	var ts *downloader.VerifLoopSync
	started := make(chan struct{}) // closed once ts is assigned (peers are asked from other goroutines before that)
	start := func() {
		n.d.VerifSetRTT(n.rtt)
		ts = n.d.VerifStartSync(kind == "state", root)
		close(started)
	}
	var afterStart func()
	switch name {
	case "honest":
		for i := 0; i < r.Range(1, 3); i++ {
			n.add(honest(n))
		}
	case "late-join":
		afterStart = func() {
			for i := 0; i < r.Range(1, 3); i++ {
				n.add(honest(n))
			}
		}
	case "withheld-by-some":
		w := pickSet(r.Range(1, 3))
		n.add(&loopPeer{r: r.Fork(), withhold: w})
		if r.Bool() {
			n.add(&loopPeer{r: r.Fork(), withhold: w})
		}
		n.add(honest(n))
	case "corrupted-once":
		n.add(&loopPeer{r: r.Fork(), corruptOnce: pickSet(r.Range(1, 4))})
		n.add(&loopPeer{r: r.Fork(), corruptOnce: pickSet(r.Range(0, 2)), extras: true})
	case "timeout-then-other-serves":
		n.rtt = 60 * time.Millisecond
		n.add(&loopPeer{r: r.Fork(), stallAt: r.Range(1, 3)})
		n.add(honest(n))
	case "peer-dropped-other-serves":
		p := &loopPeer{r: r.Fork(), stallAt: r.Range(1, 3)}
		p.onStall = func() { go n.unregister(p.id) }
		n.add(p)
		n.add(honest(n))
	case "withheld-by-all":
		expectOK = false
		w := pickSet(1)
		if len(w) == 0 {
			expectOK = true
		}
		mk := func(n *loopNet) *loopPeer { return &loopPeer{r: fork(), withhold: w, extras: true} }
		n.replace = mk
		for i := 0; i < r.Range(1, 3); i++ {
			n.add(mk(n))
		}
	case "solo-peer-dropped-mid-request":
		expectOK = false
		n.replace = nil
		p := &loopPeer{r: r.Fork(), stallAt: r.Range(1, 2)}
		p.onStall = func() { go n.d.UnregisterPeer(p.id) }
		n.add(p)
	case "cancelled":
		expectOK = false
		n.replace = nil
		p := &loopPeer{r: r.Fork(), stallAt: r.Range(1, 2)}
		cycle := r.Bool()
		p.onStall = func() {
			go func() {
				<-started
				if cycle {
					n.d.VerifCancelCycle()
				} else {
					ts.Cancel()
				}
			}()
		}
		n.add(p)
		if r.Bool() {
			n.add(honest(n))
		}
	case "invalid-leaf":
		expectOK = false
		for i := 0; i < r.Range(1, 3); i++ {
			n.add(honest(n))
		}
	case "transient-write-failure", "destination-from-crashed-commit":
		n.add(honest(n))
		n.add(honest(n))
	case "solo-peer-times-out":
		expectOK = false
		n.replace = nil
		n.rtt = 60 * time.Millisecond
		// the very first request (the root, one item) is never answered: requests of <= 2 items that time out get the
		// peer dropped, and nobody is left (a later, larger request timing out would legitimately be retried)
		n.add(&loopPeer{r: r.Fork(), stallAt: 1})
	}
	res.canon = fmt.Sprintf("loop|%s|%s|%d source blobs|seed %d", name, kind, len(k.src), seed)
	t0 := time.Now()
	if traceOn {
		defer func() {
			fmt.Fprintf(os.Stderr, "loop case %s: %v outcome=%s requests=%d\n", name, time.Since(t0), res.outcome, res.stats["loop-requests"])
		}()
	}
	start()
	if afterStart != nil {
		afterStart()
	}
	var err error
	select {
	case <-ts.Done():
		err = ts.Err()
	case <-time.After(loopWatchdog):
		res.fail = fmt.Sprintf("the trie sync neither completed nor reported an error within %v (scenario %s)", loopWatchdog, name)
		res.outcome = "hang"
		go ts.Cancel()
		return res
	}
	n.mu.Lock()
	stalled, requests := n.stalled, n.requests
	res.stats["loop-requests"] = requests
	res.stats["loop-corrupted-blobs-served"] = n.corrupted
	res.stats["loop-peers-dropped-for-stalling"] = n.timeouts
	n.mu.Unlock()
	switch name {
	case "solo-peer-dropped-mid-request", "cancelled", "solo-peer-times-out":
		if !stalled {
			expectOK = true // the trie was complete before the scripted fault could happen
		}
	}
	if flaky != nil {
		flaky.mu.Lock()
		res.stats["loop-batch-writes"] = flaky.writes
		res.stats["loop-batch-writes-failed"] = flaky.failed
		if flaky.failed > 0 {
			expectOK = false // the unchanged loop turns every failed write into a sync error
		}
		flaky.mu.Unlock()
	}
	ok, why := complete(k, dst, root)
	res.outcome = "error"
	if err == nil {
		res.outcome = "ok"
	}
	switch {
	case err == nil && !ok:
		res.fail = fmt.Sprintf("the trie sync reported completion (nil error) but the destination does not hold the complete trie: %s (scenario %s)", why, name)
	case err != nil && expectOK:
		res.fail = fmt.Sprintf("the trie sync failed (%v) although an honest peer was available throughout (scenario %s)", err, name)
	case err == nil && !expectOK:
		res.fail = fmt.Sprintf("the trie sync reported completion although completion was impossible (scenario %s)", name)
	}
	return res
}

func loopReplayLine(scen int, seed uint64) string { return fmt.Sprintf("LOOPCASE %d %d", scen, seed) }

func replayLoop(line string) (bool, string) {
	f := strings.Fields(line)
	if len(f) != 3 {
		return false, "bad LOOPCASE line"
	}
	scen, _ := strconv.Atoi(f[1])
	seed, _ := strconv.ParseUint(f[2], 10, 64)
	// goroutine scheduling is not replayable exactly: try a few times
	for i := 0; i < 3; i++ {
		if r := runLoopCase(scen, seed); r.fail != "" {
			return true, "end-to-end: " + r.fail
		}
	}
	return false, "no longer fails"
}
