package main

// One C19 case = a source (blobs keyed by their Keccak), an initial destination database, and a list of
// operations.  `world` interprets the operations on the REAL code (trie.Sync built by state.NewStateSync /
// trie.NewSync, deliveries through the real trieSync.processNodeData, commits through Sync.Commit and the real
// trieSync.commit) and, line by line, on the Lean driver; it diffs the two and evaluates the property's
// statement directly on the destination database (oracle).
//
// Case file (also the replay format), one item per line:
//   KIND state|trie          state = state.NewStateSync (leaf callback), trie = trie.NewSync(root, db, nil)
//   MODE oracle|corr         oracle: hash-checked deliveries only, the property is evaluated; corr: API-level ops
//   S <hex>                  source blob (its key is its Keccak-256)
//   I <keyhex> <hex|->       initial destination entry
//   ROOT <hex>               a root of the source the sync may be pointed at
//   NEW <roothex>            (re)start a sync for the root on the current destination database
//   SUB root depth parent    AddSubTrie(root, depth, parent, nil)          (corr mode)
//   RAW hash depth parent    AddRawEntry(hash, depth, parent)             (corr mode)
//   MISS n                   Missing(n)
//   DELIVER @<hash>|<hex>    processNodeData(source blob with that key | literal bytes)
//   PROC h:@<hash>|h:<hex>.. Process([]SyncResult{...}) with explicit (possibly wrong) hashes   (corr mode)
//   COMMIT | CFAIL k | BCOMMIT   Sync.Commit(db) | Sync.Commit(writer failing at Put k) | trieSync.commit(true)
//   CHECK                    interruption point: evaluate the oracle on a copy of the destination
//   FINAL                    end of the schedule: completion / incompleteness oracle

import (
	"bytes"
	"encoding/hex"
	"errors"
	"fmt"
	"os"
	"sort"
	"strconv"
	"strings"

	"github.com/youchainhq/go-youchain/common"
	"github.com/youchainhq/go-youchain/core/state"
	"github.com/youchainhq/go-youchain/crypto"
	"github.com/youchainhq/go-youchain/rlp"
	"github.com/youchainhq/go-youchain/trie"
	"github.com/youchainhq/go-youchain/you/downloader"
	"github.com/youchainhq/go-youchain/youdb"

	"verifharness/internal/vh"
)

var traceOn = os.Getenv("C19_TRACE") != ""

var (
	emptyRoot  = trie.VerifEmptyRoot()
	emptyState = trie.VerifEmptyState()
)

type kase struct {
	kind   string // state | trie
	oracle bool
	src    map[common.Hash][]byte
	srcSeq []common.Hash // header order
	init   [][2][]byte
	roots  []common.Hash
	ops    []string
	tags   map[string]bool // generator annotations (distribution only)
}

func newKase(kind string, oracle bool) *kase {
	return &kase{kind: kind, oracle: oracle, src: map[common.Hash][]byte{}, tags: map[string]bool{}}
}

func (k *kase) addSrc(blob []byte) common.Hash {
	h := crypto.Keccak256Hash(blob)
	if _, ok := k.src[h]; !ok {
		k.src[h] = append([]byte{}, blob...)
		k.srcSeq = append(k.srcSeq, h)
	}
	return h
}

func hx(b []byte) string {
	if len(b) == 0 {
		return "-"
	}
	return hex.EncodeToString(b)
}
func unhx(s string) ([]byte, error) {
	if s == "-" {
		return nil, nil
	}
	return hex.DecodeString(s)
}

func (k *kase) header() []string {
	mode := "corr"
	if k.oracle {
		mode = "oracle"
	}
	out := []string{"KIND " + k.kind, "MODE " + mode}
	for _, h := range k.srcSeq {
		out = append(out, "S "+hx(k.src[h]))
	}
	for _, e := range k.init {
		out = append(out, "I "+hx(e[0])+" "+hx(e[1]))
	}
	for _, r := range k.roots {
		out = append(out, "ROOT "+hx(r[:]))
	}
	return out
}

func parseKase(lines []string) (*kase, error) {
	k := newKase("trie", true)
	for _, l := range lines {
		f := strings.Fields(l)
		if len(f) == 0 {
			continue
		}
		switch f[0] {
		case "KIND":
			k.kind = f[1]
		case "MODE":
			k.oracle = f[1] == "oracle"
		case "S":
			b, err := unhx(f[1])
			if err != nil {
				return nil, err
			}
			k.addSrc(b)
		case "I":
			kb, err := unhx(f[1])
			if err != nil {
				return nil, err
			}
			vb, err := unhx(f[2])
			if err != nil {
				return nil, err
			}
			k.init = append(k.init, [2][]byte{kb, vb})
		case "ROOT":
			b, err := unhx(f[1])
			if err != nil {
				return nil, err
			}
			k.roots = append(k.roots, common.BytesToHash(b))
		default:
			k.ops = append(k.ops, l)
		}
	}
	return k, nil
}

// ---------------------------------------------------------------------------------------------------
// views of blobs (what the model is told about a blob), computed with the real decoder

const (
	roleCB    = 1 // node of a trie synced with the state leaf callback
	rolePlain = 2 // node of a trie synced without callback
	roleRaw   = 4 // raw entry (code, delegations)
)

type leafAdds struct {
	err  bool
	root common.Hash   // AddSubTrie
	raws []common.Hash // AddRawEntry, in call order
}

type view struct {
	ok       bool
	children []trie.VerifRef // hash refs
	hasLeaf  bool
	leaf     leafAdds
}

// mirrors the leaf callback of core/state/sync.go (this is the model's input, compared against the real callback
// by the correspondence check)
func leafOf(val []byte) leafAdds {
	var obj state.Account
	if err := rlp.Decode(bytes.NewReader(val), &obj); err != nil {
		return leafAdds{err: true}
	}
	la := leafAdds{root: obj.Root}
	la.raws = append(la.raws, common.BytesToHash(obj.CodeHash))
	if len(obj.DelegationsHash) == common.HashLength {
		la.raws = append(la.raws, common.BytesToHash(obj.DelegationsHash))
	}
	return la
}

func viewOf(blob []byte) (v view) {
	defer func() {
		if r := recover(); r != nil {
			v = view{}
		}
	}()
	h := crypto.Keccak256Hash(blob)
	ok, refs, _ := trie.VerifNodeView(h, blob)
	if !ok {
		return view{}
	}
	v.ok = true
	for _, r := range refs {
		if r.IsHash {
			v.children = append(v.children, r)
		} else if !v.hasLeaf {
			v.hasLeaf = true
			v.leaf = leafOf(r.Value)
		}
	}
	return v
}

// expansion of (hash, role) inside the source: what a reader following the structure needs next
type ref struct {
	h    common.Hash
	role int
}

func expand(blob []byte, role int) []ref {
	if role == roleRaw {
		return nil
	}
	v := viewOf(blob)
	if !v.ok {
		return nil
	}
	var out []ref
	for _, c := range v.children {
		out = append(out, ref{c.Hash, role})
	}
	if role == roleCB && v.hasLeaf && !v.leaf.err {
		if v.leaf.root != emptyRoot {
			out = append(out, ref{v.leaf.root, rolePlain})
		}
		for _, r := range v.leaf.raws {
			if r != emptyState {
				out = append(out, ref{r, roleRaw})
			}
		}
	}
	return out
}

type srcInfo struct {
	roles    map[common.Hash]int
	dangling bool
	badLeaf  bool
}

func (k *kase) rootRole() int {
	if k.kind == "state" {
		return roleCB
	}
	return rolePlain
}

// reach computes the (hash, role) pairs reachable from the given roots in the source.
func (k *kase) reach(roots []common.Hash) *srcInfo {
	si := &srcInfo{roles: map[common.Hash]int{}}
	var stack []ref
	for _, r := range roots {
		if r != emptyRoot {
			stack = append(stack, ref{r, k.rootRole()})
		}
	}
	for len(stack) > 0 {
		x := stack[len(stack)-1]
		stack = stack[:len(stack)-1]
		if si.roles[x.h]&x.role != 0 {
			continue
		}
		si.roles[x.h] |= x.role
		blob, ok := k.src[x.h]
		if !ok {
			si.dangling = true
			continue
		}
		if x.role == roleCB {
			if v := viewOf(blob); v.ok && v.hasLeaf && v.leaf.err {
				si.badLeaf = true
			}
		}
		stack = append(stack, expand(blob, x.role)...)
	}
	return si
}

// hasClash: some hash is reachable both as a raw entry and as a trie node that has references of its own —
// the matcher of known finding F-C19a.
func (k *kase) hasClash() bool {
	si := k.reach(k.roots)
	for h, r := range si.roles {
		if r&roleRaw != 0 && r&(roleCB|rolePlain) != 0 {
			if blob, ok := k.src[h]; ok {
				if len(expand(blob, rolePlain)) > 0 || len(expand(blob, roleCB)) > 0 {
					return true
				}
			}
		}
	}
	return false
}

// ---------------------------------------------------------------------------------------------------
// reading a database the way a user of the synced data does

var errMissing = errors.New("missing")

func present(db youdb.Database, h common.Hash) bool {
	v, err := db.Get(h[:])
	return err == nil && len(v) > 0
}

// walk reads the whole trie (state: with storage tries, code, delegations) at root through the real trie
// reader and returns its content in canonical form.
func walk(db youdb.Database, root common.Hash, kind string) (content map[string]string, err error) {
	defer func() {
		if r := recover(); r != nil {
			err = fmt.Errorf("reader panicked: %v", r)
		}
	}()
	content = map[string]string{}
	tr, e := trie.New(root, trie.NewDatabase(db))
	if e != nil {
		return nil, e
	}
	it := tr.NodeIterator(nil)
	for it.Next(true) {
		if !it.Leaf() {
			continue
		}
		key, val := hx(it.LeafKey()), it.LeafBlob()
		content["L"+key] = hx(val)
		if kind != "state" {
			continue
		}
		la := leafOf(val)
		if la.err {
			return nil, fmt.Errorf("leaf %s is not an account", key)
		}
		sub, e := walk(db, la.root, "trie")
		if e != nil {
			return nil, fmt.Errorf("storage of %s: %v", key, e)
		}
		for sk, sv := range sub {
			content["S"+key+"/"+sk] = sv
		}
		for i, r := range la.raws {
			if r == emptyState {
				continue
			}
			b, e := db.Get(r[:])
			if e != nil {
				return nil, fmt.Errorf("raw entry %x of %s: %v", r, key, e)
			}
			if crypto.Keccak256Hash(b) != r {
				return nil, fmt.Errorf("raw entry %x of %s has wrong content", r, key)
			}
			content[fmt.Sprintf("R%d%s", i, key)] = hx(b)
		}
	}
	if it.Error() != nil {
		return nil, it.Error()
	}
	return content, nil
}

// realStateRead iterates the state with the repo's own state.NodeIterator (accounts, storage, code, delegations).
func realStateRead(db youdb.Database, root common.Hash) (n int, err error) {
	defer func() {
		if r := recover(); r != nil {
			err = fmt.Errorf("state reader panicked: %v", r)
		}
	}()
	st, e := state.New(root, common.Hash{}, common.Hash{}, state.NewDatabase(db))
	if e != nil {
		return 0, e
	}
	it := state.NewNodeIterator(st)
	for it.Next() {
		n++
	}
	return n, it.Error
}

func copyDB(db *youdb.MemDatabase) *youdb.MemDatabase {
	c := youdb.NewMemDatabase()
	for _, k := range db.Keys() {
		v, _ := db.Get(k)
		c.Put(k, v)
	}
	return c
}

func sameContent(a, b map[string]string) bool {
	if len(a) != len(b) {
		return false
	}
	for k, v := range a {
		if b[k] != v {
			return false
		}
	}
	return true
}

// ---------------------------------------------------------------------------------------------------

type world struct {
	k     *kase
	drv   *vh.Driver
	hid   map[common.Hash]int
	bid   map[string]int
	blobs [][]byte

	dst      *youdb.MemDatabase
	sched    *trie.Sync
	ts       *downloader.VerifTrieSync
	curRoot  common.Hash
	used     []common.Hash // roots a sync was started for
	initKeys map[common.Hash]bool

	corr     string // first correspondence disagreement
	orc      string // first oracle failure
	drvErr   error
	traces   int
	opIndex  int
	lastMiss []common.Hash
	lastOut  string
	srcWalk  map[common.Hash]map[string]string
	srcErr   map[common.Hash]error
	info     *srcInfo
	stats    map[string]int
	complete bool
	rawAdded map[common.Hash]bool
}

func newWorld(k *kase, drv *vh.Driver) *world {
	w := &world{k: k, drv: drv, hid: map[common.Hash]int{}, bid: map[string]int{}, dst: youdb.NewMemDatabase(),
		initKeys: map[common.Hash]bool{}, srcWalk: map[common.Hash]map[string]string{}, srcErr: map[common.Hash]error{}, stats: map[string]int{}, rawAdded: map[common.Hash]bool{}}
	w.hid[common.Hash{}] = 0
	w.hid[emptyRoot] = 1
	w.hid[emptyState] = 2
	w.bid[""] = 0
	w.blobs = [][]byte{nil}
	w.ask("RESET")
	w.ask("BLOB 0 2 X")
	for _, e := range k.init {
		w.dst.Put(e[0], e[1])
		kh := common.BytesToHash(e[0])
		w.initKeys[kh] = true
		b := "-"
		if len(e[1]) > 0 {
			b = strconv.Itoa(w.blobID(e[1]))
		}
		w.ask(fmt.Sprintf("DB %d %s", w.hashID(kh), b))
	}
	return w
}

func (w *world) ask(line string) string {
	if w.drv == nil || w.drvErr != nil {
		return ""
	}
	s, err := w.drv.Ask(line)
	if err != nil {
		w.drvErr = err
	}
	return s
}

func (w *world) hashID(h common.Hash) int {
	if id, ok := w.hid[h]; ok {
		return id
	}
	id := len(w.hid)
	w.hid[h] = id
	return id
}

// blobID registers the blob (and its view) with the driver on first sight.
func (w *world) blobID(b []byte) int {
	if id, ok := w.bid[string(b)]; ok {
		return id
	}
	id := len(w.blobs)
	w.bid[string(b)] = id
	w.blobs = append(w.blobs, append([]byte{}, b...))
	v := viewOf(b)
	h := w.hashID(crypto.Keccak256Hash(b))
	if !v.ok {
		w.ask(fmt.Sprintf("BLOB %d %d X", id, h))
		return id
	}
	ch := "-"
	if len(v.children) > 0 {
		var parts []string
		for _, c := range v.children {
			parts = append(parts, fmt.Sprintf("%d:%d", w.hashID(c.Hash), c.Step))
		}
		ch = strings.Join(parts, ",")
	}
	lf := "-"
	if v.hasLeaf {
		if v.leaf.err {
			lf = "E"
		} else {
			parts := []string{fmt.Sprintf("s%d", w.hashID(v.leaf.root))}
			for _, r := range v.leaf.raws {
				parts = append(parts, fmt.Sprintf("r%d", w.hashID(r)))
			}
			lf = "A:" + strings.Join(parts, ",")
		}
	}
	w.ask(fmt.Sprintf("BLOB %d %d N %s %s", id, h, ch, lf))
	return id
}

func (w *world) expect(line, goOut string) {
	if w.drv == nil {
		return
	}
	got := w.ask(line)
	if traceOn {
		fmt.Fprintf(os.Stderr, "op %d: %s -> go=%q lean=%q\n", w.opIndex, line, goOut, got)
	}
	w.traces++
	if w.drvErr == nil && got != goOut && w.corr == "" {
		w.corr = fmt.Sprintf("op %d: %s: go=%q lean=%q", w.opIndex, line, goOut, got)
	}
}

func (w *world) fail(format string, a ...interface{}) {
	if w.orc == "" {
		w.orc = fmt.Sprintf("op %d: ", w.opIndex) + fmt.Sprintf(format, a...)
	}
}

func errClass(err error) string {
	switch err {
	case nil:
		return "ok"
	case trie.ErrNotRequested:
		return "notreq"
	case trie.ErrAlreadyProcessed:
		return "already"
	default:
		return "err"
	}
}

func b2i(b bool) int {
	if b {
		return 1
	}
	return 0
}

func parseHash(s string) (common.Hash, error) {
	b, err := unhx(s)
	if err != nil {
		return common.Hash{}, err
	}
	return common.BytesToHash(b), nil
}

func (w *world) resolveBlob(s string) ([]byte, error) {
	if strings.HasPrefix(s, "@") {
		h, err := parseHash(s[1:])
		if err != nil {
			return nil, err
		}
		b, ok := w.k.src[h]
		if !ok {
			return nil, fmt.Errorf("no source blob %x", h)
		}
		return b, nil
	}
	return unhx(s)
}

type recPutter struct {
	db     *youdb.MemDatabase
	keys   []common.Hash
	failAt int
}

var errPut = errors.New("injected Put failure")

func (p *recPutter) Put(k, v []byte) error {
	if p.failAt >= 0 && len(p.keys) == p.failAt {
		return errPut
	}
	p.keys = append(p.keys, common.BytesToHash(k))
	return p.db.Put(k, v)
}

func (w *world) dbSet() string {
	type kv struct {
		h int
		b string
	}
	var l []kv
	for _, k := range w.dst.Keys() {
		v, _ := w.dst.Get(k)
		b := "-"
		if len(v) > 0 {
			b = strconv.Itoa(w.blobID(v))
		}
		l = append(l, kv{w.hashID(common.BytesToHash(k)), b})
	}
	sort.Slice(l, func(i, j int) bool { return l[i].h < l[j].h })
	var parts []string
	for _, e := range l {
		parts = append(parts, fmt.Sprintf("%d:%s", e.h, e.b))
	}
	return strings.Join(parts, ",")
}

// exec interprets one operation line; it never panics.
func (w *world) exec(op string) (err error) {
	defer func() {
		if r := recover(); r != nil {
			err = fmt.Errorf("harness panic on %q: %v", op, r)
		}
	}()
	w.opIndex++
	f := strings.Fields(op)
	if len(f) == 0 {
		return nil
	}
	needSync := func() bool { return w.sched != nil }
	switch f[0] {
	case "NEW":
		root, e := parseHash(f[1])
		if e != nil {
			return e
		}
		cb := 0
		if w.k.kind == "state" {
			w.sched = state.NewStateSync(root, w.dst)
			cb = 1
		} else {
			w.sched = trie.NewSync(root, w.dst, nil)
		}
		w.ts = downloader.VerifNewTrieSync(w.dst, w.sched)
		w.curRoot = root
		w.used = append(w.used, root)
		w.complete = false
		w.ask("RESTART")
		w.expect(fmt.Sprintf("SUB %d 0 0 %d", w.hashID(root), cb), "ok")
	case "SUB", "RAW":
		if !needSync() {
			return nil
		}
		h, e := parseHash(f[1])
		if e != nil {
			return e
		}
		depth, _ := strconv.Atoi(f[2])
		parent, e := parseHash(f[3])
		if e != nil {
			return e
		}
		out := "ok"
		func() {
			defer func() {
				if r := recover(); r != nil {
					out = "crash"
				}
			}()
			if f[0] == "SUB" {
				w.sched.AddSubTrie(h, depth, parent, nil)
			} else {
				w.sched.AddRawEntry(h, depth, parent)
			}
		}()
		if f[0] == "SUB" {
			w.expect(fmt.Sprintf("SUB %d %d %d 0", w.hashID(h), depth, w.hashID(parent)), out)
		} else {
			w.expect(fmt.Sprintf("RAW %d %d %d", w.hashID(h), depth, w.hashID(parent)), out)
		}
		w.stats["api-"+out]++
	case "MISS":
		if !needSync() {
			return nil
		}
		n, _ := strconv.Atoi(f[1])
		hs := w.sched.Missing(n)
		w.lastMiss = hs
		line := fmt.Sprintf("MISS %d", n)
		for _, h := range hs {
			line += fmt.Sprintf(" %d", w.hashID(h))
		}
		w.expect(line, "ok")
	case "DELIVER":
		if !needSync() {
			return nil
		}
		blob, e := w.resolveBlob(f[1])
		if e != nil {
			return e
		}
		id := w.blobID(blob)
		before := w.sched.Pending()
		var committed bool
		var perr error
		crashed := false
		func() {
			defer func() {
				if r := recover(); r != nil {
					crashed = true
				}
			}()
			committed, _, perr = w.ts.ProcessNodeData(blob)
		}()
		out := fmt.Sprintf("%d 0 %s", b2i(committed), errClass(perr))
		if crashed {
			out = "crash"
		}
		w.lastOut = out
		w.stats["deliver-"+errClass(perr)]++
		w.expect(fmt.Sprintf("DELIVER %d", id), out)
		// oracle: data that does not hash to anything the source contains is rejected and changes nothing
		if w.k.oracle {
			if _, ok := w.k.src[crypto.Keccak256Hash(blob)]; !ok {
				if perr != trie.ErrNotRequested || w.sched.Pending() != before || committed {
					w.fail("wrong data accepted: blob %x.. (hash not in the source) gave %s, pending %d -> %d", blob[:min(8, len(blob))], out, before, w.sched.Pending())
				}
			}
			if perr == nil {
				w.ts.Account(blob)
			}
		}
	case "PROC":
		if !needSync() {
			return nil
		}
		var items []trie.SyncResult
		line := "PROC"
		for _, it := range f[1:] {
			p := strings.SplitN(it, ":", 2)
			if len(p) != 2 {
				return fmt.Errorf("bad PROC item %q", it)
			}
			h, e := parseHash(p[0])
			if e != nil {
				return e
			}
			blob, e := w.resolveBlob(p[1])
			if e != nil {
				return e
			}
			items = append(items, trie.SyncResult{Hash: h, Data: blob})
			line += fmt.Sprintf(" %d:%d", w.hashID(h), w.blobID(blob))
		}
		var committed bool
		var idx int
		var perr error
		crashed := false
		func() {
			defer func() {
				if r := recover(); r != nil {
					crashed = true
				}
			}()
			committed, idx, perr = w.sched.Process(items)
		}()
		out := fmt.Sprintf("%d %d %s", b2i(committed), idx, errClass(perr))
		if crashed {
			out = "crash"
		}
		w.stats["proc-"+errClass(perr)]++
		w.expect(line, out)
	case "COMMIT", "CFAIL":
		if !needSync() {
			return nil
		}
		p := &recPutter{db: w.dst, failAt: -1}
		line := "COMMIT"
		if f[0] == "CFAIL" {
			p.failAt, _ = strconv.Atoi(f[1])
			line = fmt.Sprintf("CFAIL %d", p.failAt)
		}
		n, cerr := w.sched.Commit(p)
		if n != len(p.keys) {
			w.fail("Commit reported %d written, writer saw %d (err %v)", n, len(p.keys), cerr)
		}
		out := "w"
		for _, h := range p.keys {
			out += fmt.Sprintf(" %d", w.hashID(h))
		}
		w.expect(line, out)
		w.expect("DBSET", w.dbSet())
		w.stats["commit"]++
		if cerr != nil {
			w.stats["commit-failed-midway"]++
		}
	case "BCOMMIT":
		if !needSync() {
			return nil
		}
		if e := w.ts.Commit(true); e != nil {
			w.fail("trieSync.commit: %v", e)
		}
		w.ask("COMMIT")
		w.expect("DBSET", w.dbSet())
		w.stats["commit-batch"]++
	case "CHECK":
		w.check(false)
	case "FINAL":
		w.check(true)
	default:
		return fmt.Errorf("unknown op %q", f[0])
	}
	if w.sched != nil {
		w.expect("PEND", strconv.Itoa(w.sched.Pending()))
	}
	return nil
}

func (w *world) sourceWalk(root common.Hash) (map[string]string, error) {
	if c, ok := w.srcWalk[root]; ok {
		return c, w.srcErr[root]
	}
	sdb := youdb.NewMemDatabase()
	for h, b := range w.k.src {
		sdb.Put(h[:], b)
	}
	c, err := walk(sdb, root, w.k.kind)
	w.srcWalk[root], w.srcErr[root] = c, err
	return c, err
}

// check evaluates the property on the destination as it is now (an interruption point).
func (w *world) check(final bool) {
	if !w.k.oracle {
		return
	}
	w.stats["interruption-checks"]++
	snap := copyDB(w.dst)
	if w.info == nil {
		w.info = w.k.reach(w.k.roots)
	}
	keys := map[common.Hash]bool{}
	for _, k := range snap.Keys() {
		keys[common.BytesToHash(k)] = true
	}
	// (1) nothing but source data (or what was there before) is ever stored, under its own hash
	for h := range keys {
		v, _ := snap.Get(h[:])
		if sb, ok := w.k.src[h]; ok {
			if !bytes.Equal(sb, v) && !w.initKeys[h] {
				w.fail("destination holds different bytes than the source under %x", h)
			}
		} else if !w.initKeys[h] {
			w.fail("destination holds %x which is not part of the source", h)
		}
	}
	// (2) closure: a stored node has everything it references (children before parents); evaluated last so that
	// the first reported failure is the most user-visible one
	defer func() {
		for h := range keys {
			role := w.info.roles[h]
			blob, ok := w.k.src[h]
			if !ok {
				continue
			}
			for _, r := range []int{roleCB, rolePlain} {
				if role&r == 0 {
					continue
				}
				for _, x := range expand(blob, r) {
					if !keys[x.h] {
						w.fail("node %x is stored but its reference %x is not (partial trie presented as present)", h, x.h)
					}
				}
			}
		}
	}()
	// (3) a root that is present reads back completely and identically
	roots := append([]common.Hash{}, w.used...)
	for _, root := range roots {
		if root == emptyRoot || !present(snap, root) {
			continue
		}
		want, serr := w.sourceWalk(root)
		got, derr := walk(snap, root, w.k.kind)
		if serr != nil {
			continue // malformed source: nothing claimed about reading it
		}
		if derr != nil {
			w.fail("root %x is present but the trie cannot be read: %v", root, derr)
		} else if !sameContent(want, got) {
			w.fail("root %x is present but its content differs from the source (%d vs %d entries)", root, len(got), len(want))
		}
	}
	if !final || w.sched == nil {
		return
	}
	// (4) completion: Pending()==0 (and committed) means the root is there, and the database is exactly
	// what was there before plus what is reachable from the roots — independent of the schedule
	if w.sched.Pending() == 0 {
		w.complete = true
		w.stats["completed"]++
		root := w.curRoot
		if root != emptyRoot && !present(snap, root) {
			w.fail("sync reports completion (Pending()==0, committed) but root %x is absent", root)
		}
		if _, serr := w.sourceWalk(root); serr == nil && root != emptyRoot {
			if _, derr := walk(snap, root, w.k.kind); derr != nil {
				w.fail("sync reports completion but the trie cannot be read: %v", derr)
			}
			if w.k.kind == "state" && !w.info.badLeaf {
				sdb := youdb.NewMemDatabase()
				for h, b := range w.k.src {
					sdb.Put(h[:], b)
				}
				ns, es := realStateRead(sdb, root)
				nd, ed := realStateRead(snap, root)
				if es == nil && (ed != nil || ns != nd) {
					w.fail("state.NodeIterator over the synced state: %d entries err=%v; over the source: %d entries", nd, ed, ns)
				}
			}
		}
		allSame := true
		for _, r := range w.used {
			if r != root {
				allSame = false
			}
		}
		if allSame {
			want := map[common.Hash]bool{}
			for h := range w.initKeys {
				want[h] = true
			}
			for h := range w.k.reach([]common.Hash{root}).roles {
				want[h] = true
			}
			for h := range want {
				if !keys[h] {
					w.fail("completed sync lacks %x (reachable from the root or present initially)", h)
				}
			}
			for h := range keys {
				if !want[h] {
					w.fail("completed sync stored %x which is not reachable from the root", h)
				}
			}
		}
	} else {
		w.stats["incomplete"]++
	}
}

type outcome struct {
	corr, orc string
	err       error
	w         *world
}

// runKase executes a whole case from scratch.
func runKase(k *kase, drv *vh.Driver) outcome {
	w := newWorld(k, drv)
	for _, op := range k.ops {
		if err := w.exec(op); err != nil {
			return outcome{w.corr, w.orc, err, w}
		}
		if w.drvErr != nil {
			return outcome{w.corr, w.orc, w.drvErr, w}
		}
	}
	return outcome{w.corr, w.orc, nil, w}
}
