package main

// Executor of C10 operation lines on the REAL core/state.StateDB, with
//   - the tie: every executed line is also sent to the Lean driver; roots (byte for byte, at every
//     IntermediateRoot / Commit / reopen) and the canonical enumeration (OBS) are diffed;
//   - the implementation-level oracle: the property's statement evaluated directly on the real objects
//     (reopen == live, copy == original and independent of it, NewVldReader == live validators).
//
// A line whose guard does not hold in the current state is skipped on both sides (so that shrinking can
// delete lines freely); the guards are the ones documented in props/C10.json (no negative balances, bare
// CreateAccount never without a following journaled write, ...).

import (
	"bytes"
	"encoding/hex"
	"fmt"
	"math/big"
	"sort"
	"strconv"
	"strings"

	"github.com/youchainhq/go-youchain/common"
	"github.com/youchainhq/go-youchain/core/state"
	"github.com/youchainhq/go-youchain/params"
	"github.com/youchainhq/go-youchain/youdb"

	"verifharness/internal/vh"
)

type bi [40]byte

type world struct {
	accts map[common.Address]bool
	slots map[common.Address]map[common.Hash]bool
	vals  map[common.Address]bool
	recs  map[bi]bool
	rels  map[bi]bool
}

func newWorld() *world {
	return &world{accts: map[common.Address]bool{}, slots: map[common.Address]map[common.Hash]bool{}, vals: map[common.Address]bool{},
		recs: map[bi]bool{}, rels: map[bi]bool{}}
}

type frozen struct {
	label    string
	st       *state.StateDB
	obs      string
	expRoots [3]common.Hash // roots of an identical copy flushed at freeze time
	leanExp  string         // roots the model predicts for IntermediateRoot(true) at freeze time ("" without driver)
}

type failure struct {
	kind, what string
}

type env struct {
	disk   youdb.Database
	db     state.Database
	st     *state.StateDB
	w      *world
	frozen []*frozen
	drv    *vh.Driver
	fails  []failure
	// statistics
	executed, skipped    int
	nIR, nCM, nRO, nCP   int
	touchedVal, touchedA bool
	leanLines            int
	lastRoots            [3]common.Hash
	// after a "CB" (copy, then drive BOTH sides): the copy lives in twin, with its own model slot
	slot    int
	curSlot *int // model slot the driver currently points at (shared by both sides)
	twin    *env
	nCB     int
	nShadow int
}

func newEnv(drv *vh.Driver) (*env, error) {
	disk := youdb.NewMemDatabase()
	db := state.NewDatabase(disk)
	st, err := state.New(common.Hash{}, common.Hash{}, common.Hash{}, db)
	if err != nil {
		return nil, err
	}
	e := &env{disk: disk, db: db, st: st, w: newWorld(), drv: drv, curSlot: new(int)}
	if drv != nil {
		if _, err := drv.Ask("RESET"); err != nil {
			return nil, err
		}
	}
	return e, nil
}

func (e *env) fail(kind, format string, a ...interface{}) {
	if len(e.fails) < 20 {
		e.fails = append(e.fails, failure{kind, fmt.Sprintf(format, a...)})
	}
}

// ---- small helpers ---------------------------------------------------------------------------------

func hx(b []byte) string {
	if len(b) == 0 {
		return "-"
	}
	return hex.EncodeToString(b)
}
func unhx(s string) ([]byte, bool) {
	if s == "-" {
		return []byte{}, true
	}
	b, err := hex.DecodeString(s)
	return b, err == nil
}
func addrOf(s string) (common.Address, bool) {
	b, ok := unhx(s)
	if !ok || len(b) != 20 {
		return common.Address{}, false
	}
	return common.BytesToAddress(b), true
}
func bigOf(s string) (*big.Int, bool) {
	return new(big.Int).SetString(s, 10)
}
func u64Of(s string) (uint64, bool) {
	v, err := strconv.ParseUint(s, 10, 64)
	return v, err == nil
}
func biOf(s string) (bi, bool) {
	var k bi
	b, ok := unhx(s)
	if !ok || len(b) != 40 {
		return k, false
	}
	copy(k[:], b)
	return k, true
}
func (k bi) split() (common.Address, common.Address) {
	return common.BytesToAddress(k[:20]), common.BytesToAddress(k[20:])
}
func rootsStr(r [3]common.Hash) string {
	return fmt.Sprintf("roots %s %s %s", hx(r[0][:]), hx(r[1][:]), hx(r[2][:]))
}

func guarded(f func()) (panicked interface{}) {
	defer func() {
		if r := recover(); r != nil {
			panicked = r
		}
	}()
	f()
	return nil
}

// ---- canonical enumeration through the exported getters ------------------------------------------------

func sortedAddrs(m map[common.Address]bool) []common.Address {
	var l []common.Address
	for a := range m {
		l = append(l, a)
	}
	sort.Slice(l, func(i, j int) bool { return bytes.Compare(l[i][:], l[j][:]) < 0 })
	return l
}
func sortedBis(m map[bi]bool) []bi {
	var l []bi
	for a := range m {
		l = append(l, a)
	}
	sort.Slice(l, func(i, j int) bool { return bytes.Compare(l[i][:], l[j][:]) < 0 })
	return l
}

func showValidator(a common.Address, v *state.Validator) string {
	ex := "0"
	if v.Expelled {
		ex = "1"
	}
	var ds []string
	for _, d := range v.Delegations {
		ds = append(ds, fmt.Sprintf("%s/%s/%s", hx(d.Delegator[:]), d.Stake.String(), d.Token.String()))
	}
	f := []string{hx(a[:]), hx([]byte(v.Name)), hx(v.OperatorAddress[:]), hx(v.Coinbase[:]), fmt.Sprint(uint8(v.Role)), fmt.Sprint(v.Status), ex,
		fmt.Sprint(v.ExpelExpired), fmt.Sprint(v.LastInactive), hx(v.MainPubKey), hx(v.BlsPubKey), v.Token.String(), v.Stake.String(),
		v.SelfToken.String(), v.SelfStake.String(), v.RewardsDistributable.String(), v.RewardsTotal.String(), fmt.Sprint(v.RewardsLastSettled),
		fmt.Sprint(v.AcceptDelegation), fmt.Sprint(v.CommissionRate), fmt.Sprint(v.RiskObligation), fmt.Sprint(v.Ext.Version), hx(v.Ext.Data),
		strings.Join(ds, "+")}
	return strings.Join(f, ":")
}

func showKStat(k *state.ValKindStat) string {
	return fmt.Sprintf("%s,%s,%d,%s,%s,%d,%s,%s", k.GetOnlineStake(), k.GetOnlineToken(), k.GetCount(), k.GetOfflineStake(), k.GetOfflineToken(),
		k.GetOfflineCount(), k.GetRewardsResidue(), k.GetRewardsDistributable())
}

func statSlot(s *state.ValidatorsStat, i int) *state.ValKindStat {
	if i < 3 {
		return s.GetByKind(params.ValidatorKind(i))
	}
	return s.GetByRole(params.ValidatorRole(i - 2))
}

func showStat(s *state.ValidatorsStat) string {
	var l []string
	for i := 0; i < 6; i++ {
		l = append(l, showKStat(statSlot(s, i)))
	}
	return strings.Join(l, ";")
}

func showValPart(w *world, vr state.ValidatorReader) string {
	var vs []string
	for _, a := range sortedAddrs(w.vals) {
		if v := vr.GetValidatorByMainAddr(a); v != nil {
			vs = append(vs, showValidator(a, v))
		}
	}
	stat, err := vr.GetValidatorsStat()
	ss := "err"
	if err == nil && stat != nil {
		ss = showStat(stat)
	}
	return "V " + strings.Join(vs, ";") + " | S " + ss
}

// observe prints everything the getters of st show, restricted to the universe w (a superset of every key
// ever written). full=false drops blank accounts (indistinguishable from absent ones except through Exist).
func observe(w *world, st *state.StateDB, full bool) (out string) {
	if p := guarded(func() {
		var as []string
		for _, a := range sortedAddrs(w.accts) {
			if !st.Exist(a) {
				continue
			}
			dl, _ := st.VerifC10Delegations(a)
			var dls []string
			for _, d := range dl {
				dls = append(dls, hx(d[:]))
			}
			var ss []string
			var ks []common.Hash
			for k := range w.slots[a] {
				ks = append(ks, k)
			}
			sort.Slice(ks, func(i, j int) bool { return bytes.Compare(ks[i][:], ks[j][:]) < 0 })
			for _, k := range ks {
				v := st.GetState(a, k)
				if v != (common.Hash{}) {
					ss = append(ss, hx(k[:])+"="+hx(common.TrimLeftZeroes(v[:])))
				}
			}
			code := st.GetCode(a)
			blank := st.GetNonce(a) == 0 && st.GetBalance(a).Sign() == 0 && len(code) == 0 && len(ss) == 0 && len(dl) == 0 &&
				delegationBalance(st, a).Sign() == 0
			if blank && !full {
				continue
			}
			as = append(as, strings.Join([]string{hx(a[:]), fmt.Sprint(st.GetNonce(a)), st.GetBalance(a).String(), hx(code),
				delegationBalance(st, a).String(), strings.Join(dls, ","), strings.Join(ss, ",")}, ":"))
		}
		var qs []string
		for _, r := range st.GetWithdrawQueue().Records {
			ib, fb := "nil", "nil"
			if r.InitialBalance != nil {
				ib = r.InitialBalance.String()
			}
			if r.FinalBalance != nil {
				fb = r.FinalBalance.String()
			}
			qs = append(qs, strings.Join([]string{hx(r.Operator[:]), hx(r.Delegator[:]), hx(r.Validator[:]), hx(r.Recipient[:]), fmt.Sprint(r.Nonce),
				fmt.Sprint(r.CreationHeight), fmt.Sprint(r.CompletionHeight), ib, fb, fmt.Sprint(r.Finished), hx(r.TxHash[:])}, ":"))
		}
		var rs []string
		for _, k := range sortedBis(w.recs) {
			d, v := k.split()
			if r := st.GetStakingRecord(d, v); r != nil {
				var txs []string
				for _, h := range r.TxHashes {
					txs = append(txs, hx(h[:]))
				}
				rs = append(rs, hx(k[:])+":"+r.FinalValue.String()+":"+strings.Join(txs, ","))
			}
		}
		var ps []string
		for _, k := range sortedBis(w.rels) {
			d, v := k.split()
			if st.PendingRelationshipExist(d, v) {
				ps = append(ps, hx(k[:]))
			}
		}
		out = "A " + strings.Join(as, ";") + " | " + showValPart(w, st) + " | Q " + strings.Join(qs, ";") + " | R " + strings.Join(rs, ";") +
			" | P " + strings.Join(ps, ",")
	}); p != nil {
		return fmt.Sprintf("PANIC(%v)", p)
	}
	return out
}

func delegationBalance(st *state.StateDB, a common.Address) *big.Int {
	// no exported getter on StateDB; the account leaf carries it, the C10 hook exposes the live value
	return st.VerifC10DelegationBalance(a)
}

func dumpLeaves(st *state.StateDB) string {
	a, v, s := st.VerifC10Leaves()
	f := func(l []state.VerifC10Leaf) string {
		var out []string
		for _, x := range l {
			k := x.Key
			if k == nil {
				k = append([]byte("#"), x.HashedKey...)
			}
			out = append(out, hx(k)+"="+hx(x.Value))
		}
		sort.Strings(out)
		return strings.Join(out, ",")
	}
	return "acct " + f(a) + " | val " + f(v) + " | stk " + f(s)
}

// ---- the Lean side ------------------------------------------------------------------------------------

func (e *env) lean(line string) string {
	if e.drv == nil {
		return ""
	}
	if *e.curSlot != e.slot {
		if _, err := e.drv.Ask(fmt.Sprintf("SLOT %d", e.slot)); err != nil {
			e.fail("crash", "lean driver: %v", err)
			e.drv = nil
			return ""
		}
		*e.curSlot = e.slot
	}
	e.leanLines++
	r, err := e.drv.Ask(line)
	if err != nil {
		e.fail("crash", "lean driver: %v", err)
		e.drv = nil
		return ""
	}
	if r == "bad-op" {
		e.fail("correspondence", "lean driver rejects line %q", line)
	}
	return r
}

func (e *env) compareRoots(what string, r [3]common.Hash, leanResp string) {
	e.lastRoots = r
	if e.drv == nil {
		return
	}
	if g := rootsStr(r); g != leanResp {
		e.fail("correspondence", "%s: roots differ: go=%s lean=%s\n go-leaves: %s\n lean-dump: %s", what, g, leanResp, dumpLeaves(e.st), e.lean("DUMP"))
	}
}

func (e *env) compareObs(what string) {
	if e.drv == nil {
		return
	}
	g := observe(e.w, e.st, false)
	l := e.lean("OBS")
	if g != l {
		e.fail("correspondence", "%s: enumeration differs:\n go  =%s\n lean=%s", what, g, l)
	}
}

// ---- validator (de)serialisation on lines -------------------------------------------------------------------

func valFields(v *state.Validator) string {
	ex := "0"
	if v.Expelled {
		ex = "1"
	}
	f := []string{hx([]byte(v.Name)), hx(v.OperatorAddress[:]), hx(v.Coinbase[:]), fmt.Sprint(uint8(v.Role)), fmt.Sprint(v.Status), ex,
		fmt.Sprint(v.ExpelExpired), fmt.Sprint(v.LastInactive), hx(v.MainPubKey), hx(v.BlsPubKey), v.Token.String(), v.Stake.String(),
		v.SelfToken.String(), v.SelfStake.String(), v.RewardsDistributable.String(), v.RewardsTotal.String(), fmt.Sprint(v.RewardsLastSettled),
		fmt.Sprint(v.AcceptDelegation), fmt.Sprint(v.CommissionRate), fmt.Sprint(v.RiskObligation), fmt.Sprint(v.Ext.Version), hx(v.Ext.Data),
		fmt.Sprint(len(v.Delegations))}
	for _, d := range v.Delegations {
		f = append(f, hx(d.Delegator[:]), d.Stake.String(), d.Token.String())
	}
	return strings.Join(f, " ")
}

// applyValFields overwrites the fields of nv (a PartialCopy of the current validator) with the ones on the line.
// MainPubKey is not changed (it determines the address).
func applyValFields(nv *state.Validator, f []string) bool {
	if len(f) < 23 {
		return false
	}
	name, ok1 := unhx(f[0])
	op, ok2 := addrOf(f[1])
	cb, ok3 := addrOf(f[2])
	role, ok4 := u64Of(f[3])
	status, ok5 := u64Of(f[4])
	ee, ok6 := u64Of(f[6])
	li, ok7 := u64Of(f[7])
	bpk, ok8 := unhx(f[9])
	tok, ok9 := bigOf(f[10])
	stk, ok10 := bigOf(f[11])
	stok, ok11 := bigOf(f[12])
	sstk, ok12 := bigOf(f[13])
	rd, ok13 := bigOf(f[14])
	rt, ok14 := bigOf(f[15])
	rl, ok15 := u64Of(f[16])
	ac, ok16 := u64Of(f[17])
	cm, ok17 := u64Of(f[18])
	rk, ok18 := u64Of(f[19])
	ev, ok19 := u64Of(f[20])
	ed, ok20 := unhx(f[21])
	n, ok21 := u64Of(f[22])
	if !(ok1 && ok2 && ok3 && ok4 && ok5 && ok6 && ok7 && ok8 && ok9 && ok10 && ok11 && ok12 && ok13 && ok14 && ok15 && ok16 && ok17 && ok18 && ok19 && ok20 && ok21) {
		return false
	}
	if role < 1 || role > 3 || status > 255 || ac > 65535 || cm > 65535 || rk > 65535 || ev > 255 || len(f) != 23+3*int(n) {
		return false
	}
	nv.Name, nv.OperatorAddress, nv.Coinbase, nv.Role, nv.Status = string(name), op, cb, params.ValidatorRole(role), uint8(status)
	nv.Expelled, nv.ExpelExpired, nv.LastInactive, nv.BlsPubKey = f[5] == "1", ee, li, bpk
	nv.Token, nv.Stake, nv.SelfToken, nv.SelfStake, nv.RewardsDistributable, nv.RewardsTotal, nv.RewardsLastSettled = tok, stk, stok, sstk, rd, rt, rl
	nv.AcceptDelegation, nv.CommissionRate, nv.RiskObligation = uint16(ac), uint16(cm), uint16(rk)
	nv.Ext.Version, nv.Ext.Data = uint8(ev), ed
	ds := make(state.DelegationFroms, 0, n)
	for i := 0; i < int(n); i++ {
		d, okd := addrOf(f[23+3*i])
		s, oks := bigOf(f[24+3*i])
		t, okt := bigOf(f[25+3*i])
		if !okd || !oks || !okt {
			return false
		}
		ds = append(ds, &state.DelegationFrom{Delegator: d, Stake: s, Token: t})
	}
	nv.Delegations = ds
	return true
}

// ---- one line ----------------------------------------------------------------------------------------------

// exec runs one operation line. It returns false when the line was skipped (guard or syntax).
func (e *env) exec(line string) bool {
	f := strings.Fields(line)
	if len(f) == 0 {
		return false
	}
	if f[0] == "@1" {
		// a line for the copy made by CB
		if e.twin == nil || len(f) < 2 || f[1] == "CB" || f[1] == "@1" {
			return false
		}
		t := e.twin
		t.drv = e.drv
		ok := t.exec(strings.Join(f[1:], " "))
		e.drv = t.drv
		e.fails = append(e.fails, t.fails...)
		t.fails = nil
		return ok
	}
	var shadow *state.StateDB
	if e.shadowWanted(f, line) {
		guarded(func() { shadow = e.st.Copy() })
	}
	ok := false
	if p := guarded(func() { ok = e.exec1(f, line) }); p != nil {
		e.fail("crash", "panic in the state code at %q: %v", line, p)
		return true
	}
	if ok && shadow != nil && len(e.fails) == 0 {
		e.checkShadow(shadow, f, line)
	}
	if ok {
		e.executed++
	} else {
		e.skipped++
	}
	return ok
}

func (e *env) acct(a common.Address) {
	e.w.accts[a] = true
	e.touchedA = true
}

func (e *env) exec1(f []string, line string) bool {
	st := e.st
	switch f[0] {
	case "SB", "AB", "UB", "SN":
		if len(f) != 3 {
			return false
		}
		a, ok := addrOf(f[1])
		n, ok2 := bigOf(f[2])
		if !ok || !ok2 || n.Sign() < 0 {
			return false
		}
		switch f[0] {
		case "SB":
			st.SetBalance(a, n)
		case "AB":
			st.AddBalance(a, n)
		case "UB":
			// guard: 1 <= n <= balance (a zero SubBalance creates an unjournaled object; a larger one a negative balance)
			if n.Sign() == 0 || st.GetBalance(a).Cmp(n) < 0 {
				return false
			}
			st.SubBalance(a, n)
		case "SN":
			if !n.IsUint64() {
				return false
			}
			st.SetNonce(a, n.Uint64())
		}
		e.acct(a)
	case "SC":
		if len(f) != 3 {
			return false
		}
		a, ok := addrOf(f[1])
		c, ok2 := unhx(f[2])
		if !ok || !ok2 {
			return false
		}
		st.SetCode(a, c)
		e.acct(a)
	case "SS":
		if len(f) != 4 {
			return false
		}
		a, ok := addrOf(f[1])
		k, ok2 := unhx(f[2])
		v, ok3 := unhx(f[3])
		if !ok || !ok2 || !ok3 || len(k) != 32 || len(v) != 32 {
			return false
		}
		key, val := common.BytesToHash(k), common.BytesToHash(v)
		// guard: a write that changes nothing is only a no-op on an existing object
		if !st.Exist(a) && st.GetState(a, key) == val {
			return false
		}
		st.SetState(a, key, val)
		e.acct(a)
		if e.w.slots[a] == nil {
			e.w.slots[a] = map[common.Hash]bool{}
		}
		e.w.slots[a][key] = true
	case "SU":
		if len(f) != 2 {
			return false
		}
		a, ok := addrOf(f[1])
		if !ok {
			return false
		}
		st.Suicide(a)
		e.acct(a)
	case "CA":
		if len(f) != 2 {
			return false
		}
		a, ok := addrOf(f[1])
		if !ok {
			return false
		}
		st.CreateAccount(a) // as evm.create does: CreateAccount is always followed by a journaled write
		st.SetNonce(a, 1)
		e.acct(a)
	case "UD":
		if len(f) != 5 {
			return false
		}
		a, ok := addrOf(f[1])
		v, ok2 := addrOf(f[2])
		d, ok3 := bigOf(f[3])
		if !ok || !ok2 || !ok3 {
			return false
		}
		if d.Sign() < 0 && new(big.Int).Add(delegationBalance(st, a), d).Sign() < 0 {
			return false
		}
		st.UpdateDelegator(a, v, d, f[4] == "1")
		e.acct(a)
	case "DG":
		// the staking module's path: StateDB.UpdateDelegation(d, val, tokenChanged); the model computes the record
		// (sorted insert into the delegation list, stake arithmetic) and the delegator's list itself
		if len(f) != 4 {
			return false
		}
		d, ok := addrOf(f[1])
		va, ok2 := addrOf(f[2])
		amt, ok3 := bigOf(f[3])
		if !ok || !ok2 || !ok3 || amt.Sign() == 0 {
			return false
		}
		val := st.GetValidatorByMainAddr(va)
		if val == nil {
			return false
		}
		if amt.Sign() < 0 {
			df := val.GetDelegationFrom(d)
			if df == nil || new(big.Int).Add(df.Token, amt).Sign() < 0 || new(big.Int).Add(delegationBalance(st, d), amt).Sign() < 0 ||
				new(big.Int).Add(val.Token, amt).Sign() < 0 {
				return false
			}
			// stake delta may exceed the validator's stake after unrelated edits of the record
			newStake := params.YOUToStake(new(big.Int).Add(df.Token, amt))
			if new(big.Int).Add(val.Stake, new(big.Int).Sub(newStake, df.Stake)).Sign() < 0 {
				return false
			}
		}
		st.UpdateDelegation(d, val, amt)
		e.acct(d)
		e.w.vals[va] = true
		e.touchedVal = true
	case "CV":
		if len(f) != 14 {
			return false
		}
		a, ok := addrOf(f[1])
		name, ok1 := unhx(f[2])
		op, ok2 := addrOf(f[3])
		cb, ok3 := addrOf(f[4])
		role, ok4 := u64Of(f[5])
		mpk, ok5 := unhx(f[6])
		bpk, ok6 := unhx(f[7])
		tok, ok7 := bigOf(f[8])
		stk, ok8 := bigOf(f[9])
		ac, ok9 := u64Of(f[10])
		cm, ok10 := u64Of(f[11])
		rk, ok11 := u64Of(f[12])
		status, ok12 := u64Of(f[13])
		if !(ok && ok1 && ok2 && ok3 && ok4 && ok5 && ok6 && ok7 && ok8 && ok9 && ok10 && ok11 && ok12) || role < 1 || role > 3 || status > 255 ||
			ac > 65535 || cm > 65535 || rk > 65535 || tok.Sign() < 0 || stk.Sign() < 0 {
			return false
		}
		if state.PubToAddress(mpk) != a {
			return false
		}
		st.CreateValidator(string(name), op, cb, params.ValidatorRole(role), mpk, bpk, tok, stk, uint16(ac), uint16(cm), uint16(rk), uint8(status))
		e.w.vals[a] = true
		e.touchedVal = true
	case "UV":
		if len(f) < 25 {
			return false
		}
		a, ok := addrOf(f[1])
		if !ok {
			return false
		}
		old := st.GetValidatorByMainAddr(a)
		if old == nil {
			return false
		}
		nv := old.PartialCopy()
		if !applyValFields(nv, f[2:]) {
			return false
		}
		st.UpdateValidator(nv, old)
		e.w.vals[a] = true
		e.touchedVal = true
	case "VD":
		// the in-place pattern the staking module used on PartialCopy()s (which share the Delegations slice with the
		// stored record): edit the delegation list of a partial copy, then UpdateValidator. The model computes the sorted
		// insert itself; if a Copy() shares the list's backing array, the other side sees this edit.
		if len(f) != 4 {
			return false
		}
		a, ok := addrOf(f[1])
		d, ok2 := addrOf(f[2])
		t, ok3 := bigOf(f[3])
		if !ok || !ok2 || !ok3 || t.Sign() < 0 {
			return false
		}
		old := st.GetValidatorByMainAddr(a)
		if old == nil {
			return false
		}
		nv := old.PartialCopy()
		nv.UpdateDelegationFrom(&state.DelegationFrom{Delegator: d, Stake: params.YOUToStake(t), Token: t})
		st.UpdateValidator(nv, old)
		e.touchedVal = true
	case "SR":
		if len(f) != 4 {
			return false
		}
		i, ok := u64Of(f[1])
		k, ok2 := u64Of(f[2])
		n, ok3 := bigOf(f[3])
		if !ok || !ok2 || !ok3 || i > 5 || k > 2 || n.Sign() < 0 {
			return false
		}
		stat, err := st.GetValidatorsStat()
		if err != nil {
			return false
		}
		switch k {
		case 0:
			statSlot(stat, int(i)).AddRewards(n)
		case 1:
			statSlot(stat, int(i)).SetRewardsResidue(n)
		default:
			statSlot(stat, int(i)).ResetRewards(n)
		}
	case "AW":
		if len(f) != 12 {
			return false
		}
		o, ok := addrOf(f[1])
		d, ok1 := addrOf(f[2])
		v, ok2 := addrOf(f[3])
		r, ok3 := addrOf(f[4])
		n, ok4 := u64Of(f[5])
		ch, ok5 := u64Of(f[6])
		coh, ok6 := u64Of(f[7])
		ib, ok7 := bigOf(f[8])
		fb, ok8 := bigOf(f[9])
		fin, ok9 := u64Of(f[10])
		tx, ok10 := unhx(f[11])
		if !(ok && ok1 && ok2 && ok3 && ok4 && ok5 && ok6 && ok7 && ok8 && ok9 && ok10) || fin > 255 || len(tx) != 32 || ib.Sign() < 0 || fb.Sign() < 0 {
			return false
		}
		st.AddWithdrawRecord(&state.WithdrawRecord{Operator: o, Delegator: d, Validator: v, Recipient: r, Nonce: n, CreationHeight: ch,
			CompletionHeight: coh, InitialBalance: ib, FinalBalance: fb, Finished: uint8(fin), TxHash: common.BytesToHash(tx)})
	case "RW":
		if len(f) != 2 {
			return false
		}
		var idx []int
		seen := map[int]bool{}
		qlen := st.GetWithdrawQueue().Len()
		for _, s := range strings.Split(f[1], ",") {
			i, err := strconv.Atoi(s)
			if err != nil || i < 0 || i >= qlen || seen[i] {
				return false
			}
			seen[i] = true
			idx = append(idx, i)
		}
		st.RemoveWithdrawRecords(idx)
	case "AS":
		if len(f) != 4 {
			return false
		}
		k, ok := biOf(f[1])
		if !ok {
			return false
		}
		var tx common.Hash
		if f[2] != "-" {
			b, ok := unhx(f[2])
			if !ok || len(b) != 32 || common.BytesToHash(b) == (common.Hash{}) {
				return false
			}
			tx = common.BytesToHash(b)
		}
		var fv *big.Int
		if f[3] != "nil" {
			v, ok := bigOf(f[3])
			if !ok || v.Sign() < 0 {
				return false
			}
			fv = v
		}
		d, v := k.split()
		st.AddStakingRecord(d, v, tx, fv)
		e.w.recs[k] = true
	case "AP":
		if len(f) != 2 {
			return false
		}
		k, ok := biOf(f[1])
		if !ok {
			return false
		}
		d, v := k.split()
		st.AddPendingRelationship(d, v)
		e.w.rels[k] = true
	case "RS":
		st.ResetStakingTrie()
	case "GV":
		// getters with internal caches / reloads: must not change content
		guarded(func() { st.GetValidators() })
		guarded(func() { st.GetValidatorsForUpdate() })
	case "FIN":
		if len(f) != 2 {
			return false
		}
		st.Finalise(f[1] == "1")
	case "IR":
		if len(f) != 2 {
			return false
		}
		r0, r1, r2 := st.IntermediateRoot(f[1] == "1")
		e.nIR++
		e.compareRoots("IntermediateRoot", [3]common.Hash{r0, r1, r2}, e.lean(line))
		return true
	case "CM":
		if len(f) != 2 {
			return false
		}
		r0, r1, r2, err := st.Commit(f[1] == "1")
		if err != nil {
			e.fail("oracle", "Commit returned an error: %v", err)
		}
		e.nCM++
		e.compareRoots("Commit", [3]common.Hash{r0, r1, r2}, e.lean(line))
		return true
	case "OBS":
		e.compareObs("OBS")
		return true
	case "CP":
		if len(f) != 2 {
			return false
		}
		e.doCopy(f[1] == "c")
		return true
	case "CB":
		// Copy, then BOTH sides are driven (lines "@1 ..." go to the copy); each side has its own model slot
		if e.twin != nil || e.slot != 0 {
			return false
		}
		before := observe(e.w, e.st, true)
		cp := e.st.Copy()
		if o := observe(e.w, cp, true); o != before {
			e.fail("oracle", "copy differs from the original right after Copy():\n orig=%s\n copy=%s", before, o)
		}
		e.lean("FORK 1")
		e.twin = &env{disk: e.disk, db: e.db, st: cp, w: e.w, drv: e.drv, curSlot: e.curSlot, slot: 1}
		e.nCB++
		return true
	case "RO":
		if len(f) != 3 {
			return false
		}
		e.doReopen(f[1] == "disk", f[2] == "1", line)
		return true
	default:
		return false
	}
	e.lean(line)
	return true
}

// ---- "a copy is equal to the original" under the next operation ----------------------------------------------------
//
// Before some write lines (always before CreateAccount, else chosen by a hash of the line, so that replays agree) a
// Copy() of the state is taken; the same line is then applied to the copy and both must show the same afterwards.

func (e *env) shadowWanted(f []string, line string) bool {
	switch f[0] {
	case "CA":
		return true
	case "SB", "AB", "UB", "SN", "SC", "SS", "SU", "UD", "DG", "VD", "CV", "UV", "SR", "AW", "RW", "AS", "AP":
		h := uint32(2166136261)
		for i := 0; i < len(line); i++ {
			h = (h ^ uint32(line[i])) * 16777619
		}
		return h%12 == 0
	}
	return false
}

func (e *env) checkShadow(shadow *state.StateDB, f []string, line string) {
	se := &env{disk: e.disk, db: e.db, st: shadow, w: e.w, curSlot: new(int)}
	ok := false
	if p := guarded(func() { ok = se.exec1(f, line) }); p != nil {
		e.fail("oracle", "a copy taken before %q panics under that operation: %v", line, p)
		return
	}
	if !ok {
		e.fail("oracle", "a copy taken before %q refuses the operation the original accepted", line)
		return
	}
	e.nShadow++
	a, b := observe(e.w, e.st, true), observe(e.w, shadow, true)
	if a != b {
		e.fail("oracle", "copy-then-op differs from op on the original (%s):\n orig=%s\n copy=%s", f[0], a, b)
	}
}

// ---- Copy: equal now, independent afterwards -------------------------------------------------------------------

func (e *env) doCopy(continueOnCopy bool) {
	e.nCP++
	before := observe(e.w, e.st, true)
	cp := e.st.Copy()
	twin := e.st.Copy()
	if after := observe(e.w, e.st, true); after != before {
		e.fail("oracle", "Copy changed the original:\n before=%s\n after =%s", before, after)
	}
	if o := observe(e.w, cp, true); o != before {
		e.fail("oracle", "copy differs from the original right after Copy():\n orig=%s\n copy=%s", before, o)
	}
	var exp [3]common.Hash
	if p := guarded(func() { exp[0], exp[1], exp[2] = twin.IntermediateRoot(true) }); p != nil {
		e.fail("oracle", "IntermediateRoot on a fresh copy panics: %v", p)
	}
	fr := &frozen{obs: before, expRoots: exp}
	if e.drv != nil {
		fr.leanExp = e.lean("PEEK 1")
		if fr.leanExp != rootsStr(exp) {
			e.fail("correspondence", "roots of a fresh copy differ from the model's roots of the original: go(copy)=%s lean=%s\n copy-leaves: %s\n lean-dump: %s",
				rootsStr(exp), fr.leanExp, dumpLeaves(twin), e.lean("DUMP"))
		}
	}
	if continueOnCopy {
		e.lean("CP")
	} else {
		e.lean("GV")
	}
	if continueOnCopy {
		fr.label, fr.st = "original (work continued on the copy)", e.st
		e.st = cp
	} else {
		fr.label, fr.st = "copy (work continued on the original)", cp
	}
	e.frozen = append(e.frozen, fr)
}

// checkFrozen: every state set aside at a Copy still shows what it showed then, flushes to the same roots,
// and survives commit + reopen.
func (e *env) checkFrozen() {
	for _, fr := range e.frozen {
		if o := observe(e.w, fr.st, true); o != fr.obs {
			e.fail("oracle", "the %s changed while the other side was modified:\n then=%s\n now =%s", fr.label, fr.obs, o)
			continue
		}
		var r [3]common.Hash
		var err error
		if p := guarded(func() { r[0], r[1], r[2], err = fr.st.Commit(true) }); p != nil || err != nil {
			e.fail("oracle", "Commit of the %s fails: %v %v", fr.label, p, err)
			continue
		}
		if r != fr.expRoots {
			e.fail("oracle", "the %s commits to roots %s, an identical copy flushed at copy time gave %s", fr.label, rootsStr(r), rootsStr(fr.expRoots))
		}
		live := observe(e.w, fr.st, false)
		re, err := state.New(r[0], r[1], r[2], fr.st.Database())
		if err != nil {
			e.fail("oracle", "cannot reopen the committed %s: %v", fr.label, err)
			continue
		}
		if o := observe(e.w, re, false); o != live {
			e.fail("oracle", "reopened %s differs from it:\n live    =%s\n reopened=%s", fr.label, live, o)
		}
	}
	e.frozen = nil
}

// checkDelegationLists: every validator's delegation list is strictly sorted by delegator and the binary search the
// node uses (GetDelegationFrom) finds every entry of it.
func (e *env) checkDelegationLists(st *state.StateDB, what string) {
	if p := guarded(func() {
		for _, a := range sortedAddrs(e.w.vals) {
			v := st.GetValidatorByMainAddr(a)
			if v == nil {
				continue
			}
			for i, d := range v.Delegations {
				if i > 0 && bytes.Compare(v.Delegations[i-1].Delegator[:], d.Delegator[:]) >= 0 {
					e.fail("oracle", "%s: delegation list of validator %s is not sorted at position %d", what, hx(a[:]), i)
					return
				}
				if f := v.GetDelegationFrom(d.Delegator); f == nil || f.Token.Cmp(d.Token) != 0 {
					e.fail("oracle", "%s: validator %s: delegator %s is in the list but the lookup does not find it", what, hx(a[:]), hx(d.Delegator[:]))
					return
				}
			}
		}
	}); p != nil {
		e.fail("oracle", "%s: delegation lookup panics: %v", what, p)
	}
}

// ---- Commit + New ------------------------------------------------------------------------------------------------

func (e *env) doReopen(disk, del bool, line string) {
	e.nRO++
	r0, r1, r2, err := e.st.Commit(del)
	if err != nil {
		e.fail("oracle", "Commit returned an error: %v", err)
		return
	}
	roots := [3]common.Hash{r0, r1, r2}
	flag := "0"
	if del {
		flag = "1"
	}
	leanResp := e.lean("RO " + flag)
	e.compareRoots("Commit(before reopen)", roots, leanResp)
	live := observe(e.w, e.st, false)
	db := e.db
	if disk {
		// as BlockChain.writeBlockWithState does: flush the three tries (and, through the references taken at
		// Commit, storage tries, code and delegation blobs) to disk; then reopen through a cold cache
		for _, r := range roots {
			if err := e.db.TrieDB().Commit(r, false); err != nil {
				e.fail("oracle", "TrieDB().Commit(%s): %v", r.Hex(), err)
			}
		}
		db = state.NewDatabase(e.disk)
	}
	re, err := state.New(r0, r1, r2, db)
	if err != nil {
		e.fail("oracle", "state.New from the roots just committed fails: %v", err)
		return
	}
	if o := observe(e.w, re, false); o != live {
		e.fail("oracle", "reopened state differs from the live object after Commit (disk=%v):\n live    =%s\n reopened=%s", disk, live, o)
	}
	e.checkDelegationLists(e.st, "live object after Commit")
	e.checkDelegationLists(re, "reopened state")
	// the validator-only reader opened from the validator root shows the same validators and statistics
	vr, err := state.NewVldReader(r1, db, true)
	if err != nil {
		e.fail("oracle", "NewVldReader from the committed validator root fails: %v", err)
	} else {
		var a, b string
		if p := guarded(func() { a, b = showValPart(e.w, e.st), showValPart(e.w, vr) }); p != nil {
			e.fail("oracle", "validator enumeration panics: %v", p)
		} else if a != b {
			e.fail("oracle", "NewVldReader differs from the live object:\n live  =%s\n reader=%s", a, b)
		}
	}
	// the index enumeration of the reopened state is exactly the set of validators the getters show
	guarded(func() {
		var l []string
		for _, v := range re.GetValidatorsForUpdate() {
			a := v.MainAddress()
			l = append(l, hx(a[:]))
		}
		var m []string
		for _, a := range sortedAddrs(e.w.vals) {
			if re.GetValidatorByMainAddr(a) != nil {
				m = append(m, hx(a[:]))
			}
		}
		if strings.Join(l, ",") != strings.Join(m, ",") {
			e.fail("oracle", "validator index of the reopened state [%s] differs from the validators present [%s]", strings.Join(l, ","), strings.Join(m, ","))
		}
	})
	// flushing the reopened state again without writes reproduces the same roots
	var again [3]common.Hash
	if p := guarded(func() { again[0], again[1], again[2] = re.Copy().IntermediateRoot(del) }); p != nil {
		e.fail("oracle", "IntermediateRoot on the reopened state panics: %v", p)
	} else if again != roots {
		e.fail("oracle", "reopened state flushes to different roots without any write: %s vs committed %s", rootsStr(again), rootsStr(roots))
	}
	e.db = db
	e.st = re
	if leanResp == "open-failed" {
		e.fail("correspondence", "the model cannot reopen what it committed")
	}
	e.compareObs("after reopen")
}

// finish: final commit, frozen-state checks, final enumeration. Returns the full enumeration of the state
// reopened from the final roots (the "content") and the roots.
func (e *env) finish() (content string, roots [3]common.Hash) {
	if p := guarded(func() {
		e.exec("OBS")
		if e.twin != nil {
			e.exec("@1 OBS")
		}
		e.exec("RO mem 1")
		e.checkFrozen()
		content = observe(e.w, e.st, true)
		roots = e.lastRoots
		if t := e.twin; t != nil {
			// the copy: same checks against its own model slot; and the original must still show its content
			t.drv = e.drv
			t.exec("RO mem 1")
			t.checkFrozen()
			e.drv = t.drv
			e.fails = append(e.fails, t.fails...)
			t.fails = nil
			e.touchedA, e.touchedVal = e.touchedA || t.touchedA, e.touchedVal || t.touchedVal
			e.nIR, e.nCM, e.nRO, e.nCP = e.nIR+t.nIR, e.nCM+t.nCM, e.nRO+t.nRO, e.nCP+t.nCP
			if again := observe(e.w, e.st, true); again != content {
				e.fail("oracle", "the original changed while its copy was committed:\n before=%s\n after =%s", content, again)
			}
			e.compareObs("original after the copy's commit")
		}
	}); p != nil {
		e.fail("crash", "panic while finishing the case: %v", p)
	}
	return
}
