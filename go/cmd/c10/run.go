package main

// C10 harness: seeded structured generator of StateDB operation sequences (accounts with storage, code and
// delegation lists, validators, statistics, withdraw queue, staking records, pending relationships) with
// random Finalise / IntermediateRoot / Commit / Copy / reopen points, a malformed-value stream, the Lean tie,
// the implementation-level oracle, permuted / regrouped rebuilds of the same content, shrinking, replay.

import (
	"crypto/ecdsa"
	"fmt"
	"math/big"
	"sort"
	"strings"

	"github.com/youchainhq/go-youchain/common"
	"github.com/youchainhq/go-youchain/core/state"
	"github.com/youchainhq/go-youchain/crypto"
	"github.com/youchainhq/go-youchain/params"

	"verifharness/internal/quiet"
	"verifharness/internal/vh"
)

type valKey struct {
	pk   []byte
	addr common.Address
}

type gen struct {
	r                *vh.RNG
	accts            []common.Address
	vals             []valKey
	slots            []common.Hash
	txs              []common.Hash
	dlgrs            []common.Address // delegators: several of them end up on one validator, in any arrival order
	weird            bool             // malformed / boundary value stream
	tiny             bool             // aliasing stream: very few keys, so that both sides of a copy write the SAME records / slots / lists
	lastSU, credited *common.Address  // F-C10d pattern: credit a self-destructed account, later re-create it
}

func newGen(r *vh.RNG, weird, tiny bool) *gen {
	g := &gen{r: r, weird: weird, tiny: tiny}
	defer func() {
		if tiny {
			g.accts, g.vals, g.slots = g.accts[1:3], g.vals[:1+r.Intn(2)], g.slots[1:2]
		}
	}()
	for i := 0; i < 6; i++ {
		var a common.Address
		copy(a[:], r.Bytes(20))
		a[0] = 0xa0 + byte(i) // never the ripemd precompile (journal special case)
		if weird && i == 0 {
			a = common.Address{} // the zero address as an account
		}
		g.accts = append(g.accts, a)
	}
	for i := 0; i < 4; i++ {
		var priv *ecdsa.PrivateKey
		for priv == nil {
			k, err := crypto.ToECDSA(r.Bytes(32))
			if err == nil {
				priv = k
			}
		}
		pk := crypto.CompressPubkey(&priv.PublicKey)
		if i == 3 && r.Bool() {
			pk = crypto.FromECDSAPub(&priv.PublicKey) // 65-byte form
		}
		g.vals = append(g.vals, valKey{pk, crypto.PubkeyToAddress(priv.PublicKey)})
	}
	if weird {
		// a public key PubToAddress cannot parse: main address = zero address, trie key = bare flag
		g.vals = append(g.vals, valKey{r.Bytes(r.Range(0, 40)), common.Address{}})
		if len(g.vals[4].pk) == 33 || len(g.vals[4].pk) == 65 {
			g.vals[4].pk = g.vals[4].pk[:7]
		}
	}
	for i := 0; i < 6; i++ {
		g.dlgrs = append(g.dlgrs, common.BytesToAddress(r.Bytes(20)))
	}
	for i := 0; i < 4; i++ {
		g.slots = append(g.slots, common.BytesToHash(r.Bytes(32)))
		g.txs = append(g.txs, common.BytesToHash(r.Bytes(32)))
	}
	g.slots[0] = common.Hash{}
	return g
}

func (g *gen) acct() common.Address { return g.accts[g.r.Intn(len(g.accts))] }
func (g *gen) dlgr() common.Address {
	if g.r.Chance(25) {
		return g.acct()
	}
	return g.dlgrs[g.r.Intn(len(g.dlgrs))]
}
func (g *gen) val() valKey { return g.vals[g.r.Intn(len(g.vals))] }

var you = new(big.Int).Exp(big.NewInt(10), big.NewInt(18), nil)

func (g *gen) amount() *big.Int {
	r := g.r
	switch {
	case r.Chance(40):
		return big.NewInt(int64(r.Intn(300)))
	case r.Chance(50):
		return new(big.Int).Mul(you, big.NewInt(int64(r.Intn(50))))
	case g.weird && r.Chance(50):
		// boundaries of the 64-bit words Validator.IsInvalid looks at, and of the 32-byte word
		e := []uint{63, 64, 65, 128, 255, 256}[r.Intn(6)]
		v := new(big.Int).Lsh(big.NewInt(1), e)
		if r.Bool() {
			v.Sub(v, big.NewInt(1))
		}
		return v
	default:
		return new(big.Int).SetBytes(r.Bytes(r.Range(1, 12)))
	}
}

func (g *gen) u64() uint64 {
	if g.weird && g.r.Chance(20) {
		return ^uint64(0) - uint64(g.r.Intn(2))
	}
	return uint64(g.r.Intn(1000))
}

func (g *gen) word() common.Hash {
	r := g.r
	switch r.Intn(5) {
	case 0:
		return common.Hash{}
	case 1:
		return common.BigToHash(big.NewInt(int64(r.Intn(200)))) // single byte, below and above 0x80
	case 2:
		return common.BytesToHash(r.Bytes(32))
	default:
		return common.BytesToHash(r.Bytes(r.Range(1, 31)))
	}
}

func (g *gen) bytes(max int) []byte {
	if g.r.Chance(15) {
		return nil
	}
	if g.weird && g.r.Chance(30) {
		return g.r.Bytes(g.r.Range(50, 70)) // across the 55/56-byte RLP header boundary
	}
	return g.r.Bytes(g.r.Range(1, max))
}

func biHex(d, v common.Address) string { return hx(append(append([]byte{}, d[:]...), v[:]...)) }

func (g *gen) flag() string {
	if g.r.Chance(8) {
		return "0"
	}
	return "1"
}

// candidate produces one operation line for the current state of e (it may still be skipped by its guard).
func (g *gen) candidate(e *env) string {
	r := g.r
	st := e.st
	if a := g.lastSU; a != nil {
		g.lastSU = nil
		if r.Chance(30) && st.HasSuicided(*a) {
			g.credited = a
			return fmt.Sprintf("AB %s %d", hx(a[:]), 1+r.Intn(50))
		}
	}
	w := []int{8, 8, 5, 5, 5, 10, 3, 3, 5, 6, 8, 10, 4, 4, 3, 6, 4, 1, 2, 3, 7, 5, 4, 5, 3}
	if g.tiny {
		// mostly records whose copies hold slices: staking records (tx hash lists), validators (delegation lists),
		// delegation lists of accounts, withdraw queue, pending relationships, storage
		w = []int{4, 4, 1, 1, 2, 8, 1, 1, 8, 10, 6, 10, 3, 8, 4, 22, 6, 0, 1, 2, 4, 3, 0, 4, 2}
	}
	switch r.Weighted(w) {
	case 0:
		return fmt.Sprintf("SB %s %s", hx(g.acct().Bytes()), g.amount())
	case 1:
		n := g.amount()
		if r.Chance(15) {
			n = big.NewInt(0) // a touch
		}
		return fmt.Sprintf("AB %s %s", hx(g.acct().Bytes()), n)
	case 2:
		a := g.acct()
		b := st.GetBalance(a)
		if b.Sign() == 0 {
			return fmt.Sprintf("UB %s 1", hx(a[:]))
		}
		n := new(big.Int).Set(b) // empty the account
		if r.Bool() {
			n = new(big.Int).Add(new(big.Int).Mod(g.amount(), b), big.NewInt(1))
			if n.Cmp(b) > 0 {
				n.Set(b)
			}
		}
		return fmt.Sprintf("UB %s %s", hx(a[:]), n)
	case 3:
		n := g.u64()
		if r.Chance(25) {
			n = 0
		}
		return fmt.Sprintf("SN %s %d", hx(g.acct().Bytes()), n)
	case 4:
		return fmt.Sprintf("SC %s %s", hx(g.acct().Bytes()), hx(g.bytes(40)))
	case 5:
		return fmt.Sprintf("SS %s %s %s", hx(g.acct().Bytes()), hx(g.slots[r.Intn(len(g.slots))].Bytes()), hx(g.word().Bytes()))
	case 6:
		a := g.acct()
		g.lastSU = &a
		return "SU " + hx(a[:])
	case 7:
		if a := g.credited; a != nil && r.Chance(50) {
			return "CA " + hx(a[:])
		}
		return "CA " + hx(g.acct().Bytes())
	case 8:
		// direct delegation-list edit
		a := g.acct()
		d := g.amount()
		del := "0"
		if r.Chance(35) {
			del = "1"
			d = new(big.Int).Neg(new(big.Int).Mod(d, new(big.Int).Add(delegationBalance(st, a), big.NewInt(1))))
		}
		v := g.val().addr
		if r.Chance(20) {
			v = g.acct() // not a validator at all
		}
		return fmt.Sprintf("UD %s %s %s %s", hx(a[:]), hx(v[:]), d, del)
	case 9:
		// delegation through StateDB.UpdateDelegation
		a, v := g.dlgr(), g.val()
		amt := g.amount()
		if val := st.GetValidatorByMainAddr(v.addr); val != nil && r.Chance(40) {
			if df := val.GetDelegationFrom(a); df != nil {
				amt = new(big.Int).Neg(df.Token) // withdraw everything: the link is deleted
				if r.Bool() && df.Token.Sign() > 0 {
					amt = new(big.Int).Neg(new(big.Int).Add(new(big.Int).Mod(g.amount(), df.Token), big.NewInt(0)))
				}
			}
		}
		return fmt.Sprintf("DG %s %s %s", hx(a[:]), hx(v.addr[:]), amt)
	case 10:
		v := g.val()
		tok := g.amount()
		stk := params.YOUToStake(tok)
		if r.Chance(10) {
			tok, stk = big.NewInt(0), big.NewInt(0) // invalid from the start: deleted at the next flush
		}
		return fmt.Sprintf("CV %s %s %s %s %d %s %s %s %s %d %d %d %d", hx(v.addr[:]), hx(g.bytes(12)), hx(g.acct().Bytes()), hx(g.acct().Bytes()),
			r.Range(1, 3), hx(v.pk), hx(g.bytes(48)), tok, stk, r.Intn(2), r.Intn(10001), r.Intn(10001), r.Intn(2))
	case 11:
		v := g.val()
		old := st.GetValidatorByMainAddr(v.addr)
		if old == nil {
			return "GV"
		}
		nv := old.DeepCopy()
		sub := r.Intn(10)
		if r.Chance(25) || (g.tiny && r.Chance(30)) {
			sub = 9
		}
		switch sub {
		case 0:
			nv.Status = uint8(1 - int(nv.Status&1))
		case 1:
			nv.Role = params.ValidatorRole(r.Range(1, 3))
		case 2:
			nv.Token = g.amount()
			nv.Stake = params.YOUToStake(nv.Token)
			nv.SelfToken, nv.SelfStake = new(big.Int).Set(nv.Token), new(big.Int).Set(nv.Stake)
		case 3:
			nv.Token, nv.Stake = big.NewInt(0), big.NewInt(0) // becomes invalid
		case 4:
			nv.AddTotalRewards(g.amount())
			nv.RewardsLastSettled = g.u64()
		case 5:
			nv.Expelled, nv.ExpelExpired = !nv.Expelled, g.u64()
		case 6:
			nv.LastInactive = g.u64()
			nv.UpdateLastActive(g.u64())
		case 7:
			nv.Name, nv.Coinbase, nv.OperatorAddress = string(g.bytes(20)), g.acct(), g.acct()
		case 8:
			nv.AcceptDelegation, nv.CommissionRate, nv.RiskObligation = uint16(r.Intn(2)), uint16(r.Intn(10001)), uint16(g.u64())
			nv.BlsPubKey = g.bytes(48)
		case 9:
			t := g.amount()
			if r.Chance(25) {
				t = big.NewInt(0) // removes the link
			}
			return fmt.Sprintf("VD %s %s %s", hx(v.addr[:]), hx(g.dlgr().Bytes()), t)
		}
		return "UV " + hx(v.addr[:]) + " " + valFields(nv)
	case 12:
		return fmt.Sprintf("SR %d %d %s", r.Intn(6), r.Intn(3), g.amount())
	case 13:
		return fmt.Sprintf("AW %s %s %s %s %d %d %d %s %s %d %s", hx(g.acct().Bytes()), hx(g.acct().Bytes()), hx(g.val().addr.Bytes()), hx(g.acct().Bytes()),
			g.u64(), g.u64(), g.u64(), g.amount(), g.amount(), r.Intn(2), hx(g.txs[r.Intn(len(g.txs))].Bytes()))
	case 14:
		n := st.GetWithdrawQueue().Len()
		if n == 0 {
			return "GV"
		}
		var idx []string
		for i := 0; i < n; i++ {
			if r.Chance(40) {
				idx = append(idx, fmt.Sprint(i))
			}
		}
		if len(idx) == 0 {
			idx = []string{fmt.Sprint(r.Intn(n))}
		}
		if r.Bool() { // RemoveRecords does not require an ordered index list
			for i, j := 0, len(idx)-1; i < j; i, j = i+1, j-1 {
				idx[i], idx[j] = idx[j], idx[i]
			}
		}
		return "RW " + strings.Join(idx, ",")
	case 15:
		d, v := g.acct(), g.val().addr
		if r.Chance(25) {
			d = common.Address{} // the "pending validator" record
		}
		tx, fv := "-", "nil"
		if g.tiny {
			d = g.accts[0]
			if r.Chance(85) {
				tx = hx(r.Bytes(32)) // a fresh hash each time: a clobbered list entry cannot go unnoticed
			}
		} else if r.Chance(75) {
			tx = hx(g.txs[r.Intn(len(g.txs))].Bytes())
		}
		if r.Chance(75) {
			fv = g.amount().String()
		}
		return fmt.Sprintf("AS %s %s %s", biHex(d, v), tx, fv)
	case 16:
		return "AP " + biHex(g.acct(), g.val().addr)
	case 17:
		return "RS"
	case 18:
		return "GV"
	case 19:
		return "FIN " + g.flag()
	case 20:
		return "IR " + g.flag()
	case 21:
		return "CM " + g.flag()
	case 22:
		if r.Bool() {
			return "CP c"
		}
		return "CP o"
	case 23:
		if r.Bool() {
			return "RO disk " + g.flag()
		}
		return "RO mem " + g.flag()
	default:
		return "OBS"
	}
}

// ---- one case ---------------------------------------------------------------------------------------------------------

type caseResult struct {
	lines   []string // the lines that were executed (skipped candidates are not recorded)
	fails   []failure
	content string
	roots   [3]common.Hash
	e       *env
}

// runLines executes a fixed list of lines (replay, shrinking, permuted rebuilds).
func runLines(drv *vh.Driver, lines []string) *caseResult {
	e, err := newEnv(drv)
	if err != nil {
		return &caseResult{fails: []failure{{"crash", err.Error()}}}
	}
	var done []string
	for _, l := range lines {
		if e.exec(l) {
			done = append(done, l)
		}
		if len(e.fails) > 0 {
			break
		}
	}
	cr := &caseResult{lines: done, e: e}
	if len(e.fails) == 0 {
		cr.content, cr.roots = e.finish()
	}
	cr.fails = e.fails
	return cr
}

func genCase(drv *vh.Driver, r *vh.RNG, weird, tiny bool, nOps int) *caseResult {
	e, err := newEnv(drv)
	if err != nil {
		return &caseResult{fails: []failure{{"crash", err.Error()}}}
	}
	g := newGen(r, weird, tiny)
	var done []string
	forkAt := -1
	if tiny {
		forkAt = r.Range(2, nOps*2/3+2)
	} else if r.Chance(30) {
		forkAt = r.Range(1, nOps)
	}
	for i := 0; i < nOps && len(e.fails) == 0; i++ {
		if i == forkAt {
			if tiny && r.Chance(45) {
				// records loaded from the trie (decoded slices have spare capacity), then copied
				l := []string{"RO mem 1", "RO disk 1", "CM 1"}[r.Intn(3)]
				if e.exec(l) {
					done = append(done, l)
				}
			}
			if e.exec("CB") {
				done = append(done, "CB")
			}
		}
		l := g.candidate(e)
		if strings.HasPrefix(l, "CP") && e.twin != nil && r.Bool() {
			l = "GV"
		}
		if e.exec(l) {
			done = append(done, l)
		}
		if e.twin != nil && len(e.fails) == 0 {
			// the copy gets its own write, generated against ITS state from the same small key pools
			e.twin.drv = e.drv
			l2 := g.candidate(e.twin)
			if strings.HasPrefix(l2, "CB") {
				l2 = "GV"
			}
			if e.exec("@1 " + l2) {
				done = append(done, "@1 "+l2)
			}
		}
	}
	cr := &caseResult{lines: done, e: e}
	if len(e.fails) == 0 {
		cr.content, cr.roots = e.finish()
	}
	cr.fails = e.fails
	return cr
}

// ---- permuted / regrouped rebuilds ---------------------------------------------------------------------------------------

func side(l string) (string, string) {
	if strings.HasPrefix(l, "@1 ") {
		return "1", l[3:]
	}
	return "0", l
}

func isControl(l string) bool {
	_, l = side(l)
	switch strings.Fields(l)[0] {
	case "FIN", "IR", "CM", "CP", "CB", "RO", "OBS", "GV", "RS":
		return true
	}
	return false
}

// footprint: the objects a write line touches; two writes with disjoint footprints are independent
func footprint(l string) []string {
	f := strings.Fields(l)
	switch f[0] {
	case "SB", "AB", "UB", "SN", "SC", "SS", "SU", "CA":
		return []string{"a" + f[1]}
	case "UD":
		return []string{"a" + f[1]}
	case "DG":
		return []string{"a" + f[1], "v" + f[2], "stat"}
	case "CV", "UV", "VD":
		return []string{"v" + f[1], "stat"}
	case "SR":
		return []string{"stat"}
	case "AW", "RW":
		return []string{"queue"}
	case "AS":
		return []string{"r" + f[1]}
	case "AP":
		return []string{"p" + f[1]}
	}
	return []string{"*"}
}

func independent(a, b string) bool {
	sa, la := side(a)
	sb, lb := side(b)
	if la == "CB" || lb == "CB" {
		return false
	}
	if sa != sb {
		return true // different StateDBs after a copy: every pair of operations commutes
	}
	if isControl(a) || isControl(b) {
		return false
	}
	// inserting / updating DIFFERENT delegators of one validator commutes: the list is sorted, the totals are sums
	if xa, xb := strings.Fields(la), strings.Fields(lb); len(xa) == 4 && len(xb) == 4 {
		if xa[0] == "VD" && xb[0] == "VD" && xa[1] == xb[1] && xa[2] != xb[2] {
			return true
		}
		if xa[0] == "DG" && xb[0] == "DG" && xa[2] == xb[2] && xa[1] != xb[1] {
			return true
		}
	}
	fa, fb := footprint(la), footprint(lb)
	for _, x := range fa {
		for _, y := range fb {
			if x == y || x == "*" || y == "*" {
				return false
			}
		}
	}
	return true
}

// permute swaps adjacent independent writes many times (every result is a permutation reachable by commuting
// independent writes; flush points stay where they are).
func permute(r *vh.RNG, lines []string) []string {
	out := append([]string{}, lines...)
	for k := 0; k < 6*len(out); k++ {
		if len(out) < 2 {
			break
		}
		i := r.Intn(len(out) - 1)
		if independent(out[i], out[i+1]) {
			out[i], out[i+1] = out[i+1], out[i]
		}
	}
	return out
}

// regroup removes the flush / copy / reopen points of a sequence and inserts others at random places.
func regroup(r *vh.RNG, lines []string) []string {
	var out []string
	for _, l := range lines {
		sd, bare := side(l)
		switch strings.Fields(bare)[0] {
		case "FIN", "IR", "CM", "CP", "RO", "OBS", "GV":
			if r.Chance(70) {
				continue
			}
		}
		out = append(out, l)
		if r.Chance(12) {
			x := []string{"FIN 1", "IR 1", "CM 1", "RO mem 1", "RO disk 1", "CP c", "CP o", "GV"}[r.Intn(8)]
			if sd == "1" {
				x = "@1 " + x
			}
			out = append(out, x)
		}
	}
	return out
}

// ---- run ---------------------------------------------------------------------------------------------------------------------

func firstLines(s string, n int) string {
	l := strings.Split(s, "\n")
	if len(l) > n {
		l = l[:n]
	}
	for i := range l {
		if len(l[i]) > 700 {
			l[i] = l[i][:700] + "…"
		}
	}
	return strings.Join(l, "\n")
}

var knownSeen = map[string]bool{}

// report shrinks and records one failure; it returns true when the failure counts as new (not an already
// reported occurrence of a known finding).
func report(c *vh.Ctx, drv *vh.Driver, name string, lines []string, fl failure) bool {
	if m := matcher(lines, fl.what); m != "" && knownSeen[m] {
		c.Res.Dist("known-finding-" + m + "-again")
		return false
	}
	// shrink: same failure kind must persist
	fails := func(ls []string) bool {
		cr := runLines(drv, ls)
		for _, f := range cr.fails {
			if f.kind == fl.kind {
				return true
			}
		}
		return false
	}
	shr := lines
	if len(lines) <= 400 {
		shr = vh.Shrink(lines, fails)
	}
	cr := runLines(drv, shr)
	what := fl.what
	for _, f := range cr.fails {
		if f.kind == fl.kind {
			what = f.what
			break
		}
	}
	rp := vh.WriteReplay(c.ReplayDir, "C10", name, c.Seed, append([]string{fl.kind + ": " + strings.ReplaceAll(firstLines(what, 6), "\n", " // ")}, "kind "+fl.kind), shr)
	m := matcher(shr, what)
	c.Res.Fail(fl.kind, m, firstLines(what, 8), rp)
	if m != "" {
		knownSeen[m] = true
		return false
	}
	return true
}

// matcher names the known finding a shrunk failing input belongs to ("" = none).
//
// F-C10d "resurrected-balance": the shrunk sequence contains Suicide(a), then in the same transaction a balance credit
// to a, then a transaction boundary, then a later CreateAccount(a) -- AND the two enumerations the failure shows differ in
// nothing but a's balance, by exactly the credited amount. Anything else is not suppressed.
func matcher(lines []string, what string) string {
	if resurrectedBalance(lines, what) {
		return "resurrected-balance"
	}
	return ""
}

func resurrectedBalance(lines []string, what string) bool {
	// the two enumerations
	var obs []string
	for _, l := range strings.Split(what, "\n") {
		if i := strings.Index(l, "=A "); i >= 0 {
			obs = append(obs, l[i+1:])
		} else if i := strings.Index(l, "=A"); i >= 0 && strings.Contains(l, " | V ") {
			obs = append(obs, l[i+1:])
		}
	}
	if len(obs) != 2 {
		return false
	}
	sa, sb := strings.Split(obs[0], " | "), strings.Split(obs[1], " | ")
	if len(sa) != len(sb) || len(sa) < 2 {
		return false
	}
	for i := 1; i < len(sa); i++ {
		if sa[i] != sb[i] {
			return false
		}
	}
	accts := func(s string) map[string][]string {
		m := map[string][]string{}
		s = strings.TrimPrefix(s, "A")
		for _, e := range strings.Split(strings.TrimSpace(s), ";") {
			if f := strings.Split(e, ":"); len(f) == 7 {
				m[f[0]] = f
			}
		}
		return m
	}
	ma, mb := accts(sa[0]), accts(sb[0])
	if len(ma) != len(mb) {
		return false
	}
	addr, diff := "", new(big.Int)
	for k, fa := range ma {
		fb, ok := mb[k]
		if !ok {
			return false
		}
		for i := range fa {
			if fa[i] == fb[i] {
				continue
			}
			if i != 2 || addr != "" {
				return false // another field, or a second address
			}
			x, ok1 := new(big.Int).SetString(fa[2], 10)
			y, ok2 := new(big.Int).SetString(fb[2], 10)
			if !ok1 || !ok2 {
				return false
			}
			addr, diff = k, new(big.Int).Abs(new(big.Int).Sub(x, y))
		}
	}
	if addr == "" {
		return false
	}
	// the pattern: SU a; credits to a (same transaction); boundary; ... CA a
	for i, l := range lines {
		_, l = side(l)
		if l != "SU "+addr {
			continue
		}
		res, boundary, j := new(big.Int), false, i+1
		for ; j < len(lines); j++ {
			_, x := side(lines[j])
			f := strings.Fields(x)
			if f[0] == "FIN" || f[0] == "IR" || f[0] == "CM" || f[0] == "RO" {
				boundary = true
				break
			}
			if len(f) == 3 && f[1] == addr {
				n, ok := new(big.Int).SetString(f[2], 10)
				if !ok {
					continue
				}
				switch f[0] {
				case "SB":
					res.Set(n)
				case "AB":
					res.Add(res, n)
				case "UB":
					res.Sub(res, n)
				}
			}
			if f[0] == "SU" && f[1] == addr {
				res.SetInt64(0)
			}
		}
		if !boundary || res.Sign() <= 0 || res.Cmp(diff) != 0 {
			continue
		}
		for k := j + 1; k < len(lines); k++ {
			if _, x := side(lines[k]); x == "CA "+addr {
				return true
			}
		}
	}
	return false
}

// probeResurrected: F-C10d on the real code, outside the model: the deleted object of a self-destructed account keeps
// the balance credited to it in the same transaction; CreateAccount on the live object carries it over, on a copy or a
// reopened state it cannot.
func probeResurrected() vh.Probe {
	pr := vh.Probe{ID: "F-C10d"}
	if p := guarded(func() {
		e, err := newEnv(nil)
		if err != nil {
			pr.What = err.Error()
			return
		}
		a := common.HexToAddress("0xa100000000000000000000000000000000000001")
		st := e.st
		st.SetBalance(a, big.NewInt(5))
		st.Finalise(true)
		st.Suicide(a)
		st.AddBalance(a, big.NewInt(7))
		r0, r1, r2, err := st.Commit(true)
		if err != nil {
			pr.What = err.Error()
			return
		}
		cp := st.Copy()
		re, err := state.New(r0, r1, r2, e.db)
		if err != nil {
			pr.What = err.Error()
			return
		}
		st.CreateAccount(a)
		cp.CreateAccount(a)
		re.CreateAccount(a)
		l, c, r := st.GetBalance(a), cp.GetBalance(a), re.GetBalance(a)
		pr.Reproduced = l.Cmp(big.NewInt(7)) == 0 && c.Sign() == 0 && r.Sign() == 0
		pr.What = fmt.Sprintf("Suicide(a); AddBalance(a,7); Commit; CreateAccount(a): balance live=%s copy=%s reopened=%s", l, c, r)
	}); p != nil {
		pr.What = fmt.Sprint("panic: ", p)
	}
	return pr
}

func run(c *vh.Ctx) error {
	quiet.Silence()
	params.InitNetworkId(params.NetworkIdForTestCase)
	res := c.Res
	res.Rule = "case = operation sequence on a real StateDB with random Finalise/IntermediateRoot/Commit/Copy/reopen points, executed on the Go code and on the Lean model; non-trivial when it touches >= 1 validator and >= 1 account and contains >= 1 reopen or copy besides the final one; distinct by the executed line list"
	var drv *vh.Driver
	if c.Driver != "" {
		d, err := vh.StartDriver(c.Driver)
		if err != nil {
			return err
		}
		drv = d
		defer drv.Close()
	}
	// corpus first
	for _, f := range vh.CorpusFiles("C10") {
		body, _, err := vh.ReadReplay(f)
		if err != nil {
			continue
		}
		cr := runLines(drv, body)
		res.Dist("corpus")
		for _, fl := range cr.fails {
			m := matcher(cr.lines, fl.what)
			res.Fail("corpus", m, "corpus witness fails again: "+f+": "+firstLines(fl.what, 4), f)
			if m != "" {
				knownSeen[m] = true
			}
			break
		}
	}
	res.Probes = append(res.Probes, probeResurrected())
	nCases := c.N(1000, 12000)
	if c.Search {
		nCases *= 3
	}
	reported := 0
	samePairs, pairs, permSame, perms := 0, 0, 0, 0
	for ci := 0; ci < nCases && reported < 6; ci++ {
		r := c.R.Fork()
		weird := ci%5 == 4
		tiny := ci%5 == 2 || ci%5 == 0
		nOps := r.Range(10, 70)
		if tiny {
			nOps = r.Range(8, 40)
		}
		cr := genCase(drv, r, weird, tiny, nOps)
		e := cr.e
		if e == nil {
			return fmt.Errorf("cannot create a state: %v", cr.fails)
		}
		nontrivial := e.touchedVal && e.touchedA && (e.nRO+e.nCP+e.nCB) >= 2
		res.Count(strings.Join(cr.lines, "\n"), nontrivial)
		res.TracesVsImpl += e.nIR + e.nCM + 2*e.nRO + e.nCP + 2*e.nCB
		res.DistN("copy-then-same-op-compared", e.nShadow)
		for _, l := range cr.lines {
			sd, bare := side(l)
			if sd == "1" {
				res.Dist("op-on-copy-" + strings.Fields(bare)[0])
			} else {
				res.Dist("op-" + strings.Fields(bare)[0])
			}
		}
		if tiny {
			res.Dist("case-aliasing-stream")
		}
		res.DistN("skipped-by-guard", e.skipped)
		if weird {
			res.Dist("case-malformed-stream")
		} else {
			res.Dist("case-structured")
		}
		res.Dist(fmt.Sprintf("case-len-%02d0s", len(cr.lines)/10))
		if ci < 2 {
			res.Sample(map[string]interface{}{"lines": cr.lines, "final_roots": rootsStr(cr.roots), "final_content": firstLines(cr.content, 1)})
		}
		if len(cr.fails) > 0 {
			if report(c, drv, fmt.Sprintf("case-%d", ci), cr.lines, cr.fails[0]) {
				reported++
			}
			continue
		}
		// (1) permutation of independent writes, flush points fixed: same content and same roots
		// (2) regrouping (other flush / copy / reopen points): whenever the content is the same, so are the roots
		for vi, variant := range [][]string{permute(r, cr.lines), regroup(r, cr.lines), regroup(r, permute(r, cr.lines))} {
			var vdrv *vh.Driver
			if vi == 0 || ci%4 == 0 {
				vdrv = drv // also tie the rebuild to the model
			}
			vr := runLines(vdrv, variant)
			if len(vr.fails) > 0 {
				if report(c, drv, fmt.Sprintf("case-%d-variant-%d", ci, vi), variant, vr.fails[0]) {
					reported++
				}
				break
			}
			same := vr.content == cr.content
			if vi == 0 {
				perms++
				if same {
					permSame++
				}
			} else {
				pairs++
				if same {
					samePairs++
				}
			}
			if same && vr.roots != cr.roots {
				rp := vh.WriteReplay(c.ReplayDir, "C10", fmt.Sprintf("roots-%d-%d", ci, vi), c.Seed,
					[]string{"oracle: two builds of the same content have different roots", "kind pair", "first build, then ---, then the second build"},
					append(append(append([]string{}, cr.lines...), "---"), variant...))
				res.Fail("oracle", "", fmt.Sprintf("same content, different roots: %s vs %s", rootsStr(cr.roots), rootsStr(vr.roots)), rp)
				reported++
				break
			}
			if vi == 0 && !same {
				// commuting independent writes must not change the content at all
				rp := vh.WriteReplay(c.ReplayDir, "C10", fmt.Sprintf("perm-%d", ci), c.Seed,
					[]string{"oracle: permuting independent writes (flush points fixed) changed the content", "kind pair", "first build, then ---, then the second build"},
					append(append(append([]string{}, cr.lines...), "---"), variant...))
				res.Fail("oracle", "", "permuting independent writes changed the content:\n a="+firstLines(cr.content, 1)+"\n b="+firstLines(vr.content, 1), rp)
				reported++
				break
			}
		}
	}
	res.Extra["rebuild_pairs"] = map[string]int{"permuted": perms, "permuted_same_content": permSame, "regrouped": pairs, "regrouped_same_content": samePairs}
	res.Partial = append(res.Partial,
		"independence of a Copy from its original is an aliasing property: value semantics in the model, observed on the real objects (one side frozen, or BOTH sides written on the same keys and each compared with its own model state)",
		"blank accounts (no nonce, balance, code, storage, delegation data) are compared through the roots only: Exist() of a live object may report an unjournaled blank object that no trie holds",
		"RemoveValidator (no caller in the tree) and bare CreateAccount without a following journaled write (the EVM never does that) are outside the generated API surface")
	return nil
}

// replay: either one build, or two builds separated by "---" (same content => same roots).
func replay(c *vh.Ctx, body, comments []string) (bool, string) {
	quiet.Silence()
	params.InitNetworkId(params.NetworkIdForTestCase)
	var drv *vh.Driver
	if c.Driver != "" {
		if d, err := vh.StartDriver(c.Driver); err == nil {
			drv = d
			defer drv.Close()
		}
	}
	var parts [][]string
	cur := []string{}
	for _, l := range body {
		if l == "---" {
			parts = append(parts, cur)
			cur = []string{}
			continue
		}
		cur = append(cur, l)
	}
	parts = append(parts, cur)
	var msgs []string
	var crs []*caseResult
	for _, p := range parts {
		cr := runLines(drv, p)
		crs = append(crs, cr)
		for _, f := range cr.fails {
			msgs = append(msgs, f.kind+": "+firstLines(f.what, 6))
		}
	}
	if len(crs) == 2 && len(msgs) == 0 {
		if crs[0].content == crs[1].content && crs[0].roots != crs[1].roots {
			msgs = append(msgs, "same content, different roots")
		}
		perm := false
		for _, cm := range comments {
			if strings.Contains(cm, "permuting independent writes") {
				perm = true
			}
		}
		if perm && crs[0].content != crs[1].content {
			msgs = append(msgs, "permuting independent writes changed the content")
		}
	}
	sort.Strings(msgs)
	return len(msgs) > 0, strings.Join(msgs, "\n")
}
