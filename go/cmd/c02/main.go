package main

import (
	"os"

	"verifharness/internal/vh"
)

func main() {
	if len(os.Args) > 1 && os.Args[1] == "faultchild" {
		faultChild(os.Args[2:]) // first life of a write-fault case, see fault.go
		return
	}
	vh.Main(vh.Harness{Property: "C02", Run: run, Replay: replay})
}
