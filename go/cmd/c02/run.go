package main

// C02 — correspondence + implementation-level oracle for "an honest validator never signs two conflicting votes,
// even across restarts".
//
// A case is an event history (one op per line, the same lines go to the Lean driver drv_c02):
//
//	EP exist hash prio                    the best proposal the node has seen (getMaxPriorityFn)
//	EC hash present                       block cache content (blockInCacheFn)
//	EV kind sel w vt T q                  own sortition for a vote kind (isValidatorFn); q is derived from T with the real OverThreshold
//	EE certErr                            CertificateParams fails
//	X round index step cert               ContextChangeEvent (step timer / index change / new round)
//	M kind round index hash prio sender addrOk w status vt T q qOld stakeErr sortErr nilVote     one received vote
//	R                                     crash + restart on the same database
//	K n after                             the next X/M dies at its n-th db.Put (before it, or between the Put and the post)
//
// The real Voter/VoteDB (consensus/ucon, through the verif hook VerifVoter) and the model answer every X/M/R with
//
//	outcome | events posted (sorted) | voter latches ; VoteDB cache ; the five persisted records ; wrapper contexts
//
// and the two answers must be identical. Independently of the model, the oracle evaluates the property's statement
// on the votes that really left the node (SendMessageEvents over the whole history, across restarts): at most one
// prevote / precommit / certificate vote and at most two next-index votes per (round, index), and every vote that
// left the node has its record in the database.

import (
	"crypto/ecdsa"
	"fmt"
	"math/big"
	"sort"
	"strconv"
	"strings"

	"github.com/youchainhq/go-youchain/common"
	"github.com/youchainhq/go-youchain/consensus/ucon"
	"github.com/youchainhq/go-youchain/core/types"
	"github.com/youchainhq/go-youchain/crypto"
	"github.com/youchainhq/go-youchain/params"
	"github.com/youchainhq/go-youchain/youdb"
	"verifharness/internal/quiet"
	"verifharness/internal/vh"
)

// ---- ops -----------------------------------------------------------------------------------------------------

// An op is its tag and its primary numeric arguments (decimal strings: rounds may exceed 64 bits).
// Derived fields (q, qOld) are added when the line is rendered and dropped when a line is parsed.
type op struct {
	tag string
	a   []string
}

var quorumCache = map[string]uint64{}

// quorumOf = the least count for which the real OverThreshold(count, T, isPos) holds.
func quorumOf(T uint64, isPos bool) uint64 {
	key := fmt.Sprint(T, isPos)
	if q, ok := quorumCache[key]; ok {
		return q
	}
	lo, hi := uint64(0), uint64(1<<32-1)
	if !ucon.OverThreshold(uint32(hi), T, isPos) {
		quorumCache[key] = 1 << 32 // unreachable quorum
		return 1 << 32
	}
	for lo < hi {
		mid := (lo + hi) / 2
		if ucon.OverThreshold(uint32(mid), T, isPos) {
			hi = mid
		} else {
			lo = mid + 1
		}
	}
	quorumCache[key] = lo
	return lo
}

func u(s string) uint64 { v, _ := strconv.ParseUint(s, 10, 64); return v }
func bigOf(s string) *big.Int {
	b, ok := new(big.Int).SetString(s, 10)
	if !ok {
		return new(big.Int)
	}
	return b
}

func (o op) line() string {
	switch o.tag {
	case "EV": // k sel w vt T  (+ q)
		q := quorumOf(u(o.a[4]), u(o.a[0]) != 5)
		return "EV " + strings.Join(o.a, " ") + " " + fmt.Sprint(q)
	case "M": // k r i h p sender addrOk w status vt T | stakeErr sortErr nilVote   (+ q qOld after T)
		T := u(o.a[10])
		q := quorumOf(T, u(o.a[0]) != 5)
		qOld := quorumOf(T, false)
		return "M " + strings.Join(o.a[:11], " ") + fmt.Sprintf(" %d %d ", q, qOld) + strings.Join(o.a[11:], " ")
	}
	if len(o.a) == 0 {
		return o.tag
	}
	return o.tag + " " + strings.Join(o.a, " ")
}

func parseLine(l string) (op, bool) {
	f := strings.Fields(l)
	if len(f) == 0 {
		return op{}, false
	}
	want := map[string]int{"EP": 3, "EC": 2, "EV": 6, "EE": 1, "X": 4, "M": 16, "R": 0, "K": 2, "EB": 1, "U": 1, "Q": 4, "F": 5, "XL": 4, "W": 1}
	n, ok := want[f[0]]
	if !ok || len(f)-1 != n {
		return op{}, false
	}
	a := append([]string{}, f[1:]...)
	switch f[0] {
	case "EV":
		a = a[:5]
	case "M":
		a = append(append([]string{}, a[:11]...), a[13:]...)
	}
	for _, x := range a {
		if _, ok := new(big.Int).SetString(x, 10); !ok {
			return op{}, false
		}
	}
	return op{f[0], a}, true
}

func lines(ops []op) []string {
	out := make([]string, len(ops))
	for i, o := range ops {
		out[i] = o.line()
	}
	return out
}

// ---- the real node ---------------------------------------------------------------------------------------------

var keys []*ecdsa.PrivateKey // 0 = this node, 1.. = other validators

func initKeys() {
	if keys != nil {
		return
	}
	for i := 0; i < 8; i++ {
		k, err := crypto.ToECDSA(crypto.Keccak256([]byte(fmt.Sprintf("verif-c02-key-%d", i))))
		if err != nil {
			panic(err)
		}
		keys = append(keys, k)
	}
}

type seat struct {
	w, vt uint32
	T     uint64
}

type node struct {
	d        *ucon.VerifVoter
	propOK   bool
	propHash common.Hash
	propPrio common.Hash
	missing  map[common.Hash]bool
	seats    map[ucon.VoteType]*seat // nil entry = not selected
	// answers for the vote being delivered
	stakeT   uint64
	stakeVt  uint32
	stakeErr bool
	sortErr  bool
}

func hashOf(s string) common.Hash  { return common.BigToHash(bigOf(s)) }
func hashDec(h common.Hash) string { return new(big.Int).SetBytes(h[:]).String() }

func newNode() *node { return newNodeOn(youdb.NewMemDatabase()) }

func newNodeOn(db youdb.Database) *node {
	initKeys()
	n := &node{missing: map[common.Hash]bool{}, seats: map[ucon.VoteType]*seat{}}
	for _, k := range []ucon.VoteType{ucon.Prevote, ucon.Precommit, ucon.NextIndex, ucon.Certificate} {
		n.seats[k] = &seat{w: 1, vt: 1, T: 1} // model default: selected, 1 sub-user, chamber, quorum 0
	}
	env := &ucon.VerifEnv{}
	env.IsValidator = func(round *big.Int, ri uint32, step uint32, lb params.LookBackType) (bool, *ucon.StepView) {
		s := n.seats[ucon.VoteType(step)]
		if s == nil {
			return false, nil
		}
		return true, &ucon.StepView{SortitionProof: []byte{1}, SubUsers: s.w, ValidatorType: params.ValidatorKind(s.vt), Threshold: s.T}
	}
	env.MaxPriority = func(round *big.Int, ri uint32) (common.Hash, common.Hash, bool) {
		return n.propPrio, n.propHash, n.propOK
	}
	env.BlockInCache = func(h, prio common.Hash) *types.Block {
		if n.missing[h] {
			return nil
		}
		return ucon.VerifBlock(h)
	}
	env.Stake = func(round *big.Int, addr common.Address, lb params.LookBackType) (uint64, params.ValidatorKind, error) {
		if n.stakeErr {
			return 0, 0, fmt.Errorf("verif: no stake")
		}
		return n.stakeT, params.ValidatorKind(n.stakeVt), nil
	}
	env.VerifySortition = func(pub *ecdsa.PublicKey, data *ucon.SortitionData, lb params.LookBackType) error {
		if n.sortErr {
			return fmt.Errorf("verif: sortition")
		}
		return nil
	}
	n.d = ucon.NewVerifVoter(db, keys[0], env)
	return n
}

type sendRec struct {
	k    uint64
	r    string
	i    uint32
	h    string
	step int
}

func evToken(e ucon.VerifEvent) string {
	r := "0"
	if e.Round != nil {
		r = e.Round.String()
	}
	switch e.Type {
	case "send":
		return fmt.Sprintf("send:%d:%s:%d:%s:%s:%d", e.Kind, r, e.RoundIndex, hashDec(e.Hash), hashDec(e.Priority), e.Votes)
	case "rice":
		return fmt.Sprintf("rice:%s:%d:%s:%s", r, e.RoundIndex, hashDec(e.Hash), hashDec(e.Priority))
	case "commit":
		return fmt.Sprintf("commit:%s:%d:%s:%d:%d", r, e.RoundIndex, hashDec(e.Hash), e.NPrecommit, e.NCert)
	case "update":
		return fmt.Sprintf("update:%s:%d:%s:%d", r, e.RoundIndex, hashDec(e.Hash), e.NPrecommit)
	}
	return e.Type
}

func (n *node) stateString() string {
	s := n.d.State()
	rs := "-"
	if s.Round != nil {
		rs = s.Round.String()
	}
	b := func(x bool) string {
		if x {
			return "1"
		}
		return "0"
	}
	m := func(h *common.Hash) string {
		if h == nil {
			return "-"
		}
		return hashDec(*h)
	}
	dr := "-"
	if s.DBRound != nil {
		dr = s.DBRound.String()
	}
	recs := n.d.Records()
	rec := func(name string) string {
		r := recs[name]
		if r == nil {
			return "-"
		}
		if !r.SigOK {
			return "-" // a record this node did not write: NewVoteDB ignores it
		}
		return fmt.Sprintf("%s.%d", r.Round, r.RoundIndex)
	}
	var ws []string
	for _, c := range s.Wrappers {
		r, i := ucon.GetInfoFromHash(c)
		ws = append(ws, fmt.Sprintf("%d.%d", r, i))
	}
	hexDec := func(h string) string {
		v, _ := strconv.ParseUint(h, 16, 64)
		return dec(v)
	}
	type voRow struct {
		h uint64
		s string
	}
	var vo []voRow
	for _, l := range s.VoteOver {
		p := strings.SplitN(l, ":", 3)
		hv, _ := strconv.ParseUint(p[0], 16, 64)
		vo = append(vo, voRow{hv, hexDec(p[0]) + ":" + p[1] + ":" + p[2]})
	}
	sort.Slice(vo, func(a, b int) bool { return vo[a].h < vo[b].h })
	var vos []string
	for _, r := range vo {
		vos = append(vos, r.s)
	}
	type ctRow struct {
		tag  string
		k, h uint64
		s    string
	}
	var ct []ctRow
	for _, l := range s.Counts {
		f := strings.Fields(l)
		hv, _ := strconv.ParseUint(f[2], 16, 64)
		ct = append(ct, ctRow{f[0], u(f[1]), hv, fmt.Sprintf("%s %s %d %s %s", f[0], f[1], hv, f[3], f[4])})
	}
	sort.Slice(ct, func(a, b int) bool {
		if ct[a].tag != ct[b].tag {
			return ct[a].tag < ct[b].tag
		}
		if ct[a].k != ct[b].k {
			return ct[a].k < ct[b].k
		}
		return ct[a].h < ct[b].h
	})
	var cts []string
	for _, r := range ct {
		cts = append(cts, r.s)
	}
	return fmt.Sprintf("v=%s/%d/%d/%s%s%s%s%s/%s/%s/%s;db=%s/%d/%d/%d/%d/%d;rec=%s/%s/%s/%s/%s;w=%s;vo=%s;ct=%s",
		rs, s.RoundIndex, s.Step, b(s.Precommitted), b(s.Committed), b(s.SentChangeEvent), b(s.Certificated), b(s.ShouldCert),
		m(s.NextMarked), m(s.CurMarked), m(s.NextVoted),
		dr, s.DBRoundIndex, s.DBMarks[ucon.Prevote], s.DBMarks[ucon.Precommit], s.DBMarks[ucon.NextIndex], s.DBMarks[ucon.Certificate],
		rec("prevote"), rec("precommit"), rec("certificate"), rec("next1"), rec("next2"), strings.Join(ws, ","),
		strings.Join(vos, ","), strings.Join(cts, ","))
}

// exec runs one op on the real code; resp is "" for ops that only change the environment.
// sends = the votes that left the node during the op; persistedOK = each of them has its record in the database.
func (n *node) exec(o op) (resp string, sends []sendRec, notPersisted []string, harnessPanic string) {
	defer func() {
		if r := recover(); r != nil {
			harnessPanic = fmt.Sprint(r)
		}
	}()
	var st ucon.VerifStep
	switch o.tag {
	case "EP":
		n.propOK, n.propHash, n.propPrio = u(o.a[0]) == 1, hashOf(o.a[1]), hashOf(o.a[2])
		return "ok", nil, nil, ""
	case "EC":
		if u(o.a[1]) == 1 {
			delete(n.missing, hashOf(o.a[0]))
		} else {
			n.missing[hashOf(o.a[0])] = true
		}
		return "ok", nil, nil, ""
	case "EV":
		k := ucon.VoteType(u(o.a[0]))
		if u(o.a[1]) == 1 {
			n.seats[k] = &seat{w: uint32(u(o.a[2])), vt: uint32(u(o.a[3])), T: u(o.a[4])}
		} else {
			n.seats[k] = nil
		}
		return "ok", nil, nil, ""
	case "EE":
		n.d.Env.CertParamsErr = u(o.a[0]) == 1
		return "ok", nil, nil, ""
	case "K":
		n.d.CrashAtPut(int(u(o.a[0])), u(o.a[1]) == 1)
		return "ok", nil, nil, ""
	case "EB":
		n.d.Env.EnableBls = u(o.a[0]) == 1
		return "ok", nil, nil, ""
	case "Q":
		if n.d.StartVoteQuery(bigOf(o.a[0]), uint32(u(o.a[1])), uint32(u(o.a[2])), uint32(u(o.a[3]))) {
			return "q=1", nil, nil, ""
		}
		return "q=0", nil, nil, ""
	case "F":
		// only into a slot that holds nothing: the database keeps every record this node wrote (assumption of the property)
		name := map[string]string{"2/1": "prevote", "3/1": "precommit", "5/1": "certificate", "4/1": "next1", "4/2": "next2"}[o.a[0]+"/"+o.a[1]]
		if name != "" && n.d.Records()[name] == nil {
			n.d.WriteForeignRecord(ucon.VoteType(u(o.a[0])), uint8(u(o.a[1])), bigOf(o.a[2]), uint32(u(o.a[3])), int(u(o.a[4])))
		}
		return "ok", nil, nil, ""
	case "U":
		st = n.d.RemoveMarkedBlock(hashOf(o.a[0]))
	case "R":
		n.d.Restart()
		return "nil||" + n.stateString(), nil, nil, ""
	case "XL":
		st = n.d.ContextViaEventLoop(bigOf(o.a[0]), uint32(u(o.a[1])), uint32(u(o.a[2])), u(o.a[3]) == 1)
	case "X":
		st = n.d.Context(bigOf(o.a[0]), uint32(u(o.a[1])), uint32(u(o.a[2])), u(o.a[3]) == 1)
	case "M":
		// k r i h p sender addrOk w status vt T stakeErr sortErr nilVote
		sender := int(u(o.a[5])) % len(keys)
		msg := ucon.VerifVoteMsg{Kind: ucon.VoteType(u(o.a[0])), Round: bigOf(o.a[1]), RoundIndex: uint32(u(o.a[2])), Hash: hashOf(o.a[3]),
			Priority: hashOf(o.a[4]), Signer: keys[sender], Votes: uint32(u(o.a[7])), Status: int(u(o.a[8])), NilVote: u(o.a[13]) == 1}
		if u(o.a[6]) != 1 {
			msg.ClaimedBy = keys[(sender+1)%len(keys)]
		}
		n.stakeVt, n.stakeT, n.stakeErr, n.sortErr = uint32(u(o.a[9])), u(o.a[10]), u(o.a[11]) == 1, u(o.a[12]) == 1
		bls := n.d.Env.EnableBls // the BLS switch applies to delivered contexts only (the driver's validator set is empty)
		n.d.Env.EnableBls = false
		st = n.d.Vote(msg)
		n.d.Env.EnableBls = bls
	default:
		return "bad-op", nil, nil, ""
	}
	outcome := "nil"
	switch {
	case st.Crashed:
		outcome = "crashed"
	case st.Panic != "":
		outcome = "panic"
	case st.Err != "" && st.Invalid:
		outcome = "invalid"
	case st.Err != "":
		outcome = "err"
	}
	var toks []string
	recs := n.d.Records()
	for _, e := range st.Events {
		toks = append(toks, evToken(e))
		if e.Type == "send" || e.Type == "send-undecodable" {
			r := "?"
			if e.Round != nil {
				r = e.Round.String()
			}
			sends = append(sends, sendRec{k: uint64(e.Kind), r: r, i: e.RoundIndex, h: hashDec(e.Hash)})
			found := false
			for _, rec := range recs {
				if rec.Kind == e.Kind && rec.Round != nil && e.Round != nil && rec.Round.Cmp(e.Round) == 0 && rec.RoundIndex == e.RoundIndex && rec.SigOK {
					found = true
				}
			}
			if !found {
				notPersisted = append(notPersisted, evToken(e))
			}
		}
	}
	sort.Strings(toks)
	return outcome + "|" + strings.Join(toks, ",") + "|" + n.stateString(), sends, notPersisted, ""
}

func canonResp(s string) string {
	p := strings.SplitN(s, "|", 3)
	if len(p) != 3 {
		return s
	}
	t := strings.Split(p[1], ",")
	sort.Strings(t)
	return p[0] + "|" + strings.Join(t, ",") + "|" + p[2]
}

// ---- running one history -----------------------------------------------------------------------------------------

type verdict struct {
	mismatch   string // first op where the real code and the model differ ("" = none)
	oracle     string // violation of the property's statement on the real code ("" = none)
	harness    string // the harness itself failed (driver died, panic outside the code under test)
	sends      int
	crashes    int
	goResp     []string
	leanResp   []string
	nontrivial bool
}

func (v verdict) fails() bool { return v.mismatch != "" || v.oracle != "" || v.harness != "" }

// property statement on the observed votes
func checkSends(all []sendRec) string {
	cnt := map[string][]sendRec{}
	for _, s := range all {
		key := fmt.Sprintf("%d/%s/%d", s.k, s.r, s.i)
		cnt[key] = append(cnt[key], s)
	}
	var keys []string
	for k := range cnt {
		keys = append(keys, k)
	}
	sort.Strings(keys)
	for _, k := range keys {
		l := cnt[k]
		capk := 1
		if l[0].k == 4 {
			capk = 2
		}
		if l[0].k < 2 || l[0].k > 5 {
			return fmt.Sprintf("a vote of unknown kind %d left the node", l[0].k)
		}
		if len(l) > capk {
			hs := []string{}
			for _, s := range l {
				hs = append(hs, fmt.Sprintf("hash %s at op %d", s.h, s.step))
			}
			name := map[uint64]string{2: "prevote", 3: "precommit", 4: "next-index", 5: "certificate"}[l[0].k]
			return fmt.Sprintf("%d %s votes signed in (round %s, index %d): %s", len(l), name, l[0].r, l[0].i, strings.Join(hs, "; "))
		}
	}
	return ""
}

func runCase(drv *vh.Driver, ops []op) (v verdict) {
	n := newNode()
	if drv != nil {
		if _, err := drv.Ask("RESET"); err != nil {
			v.harness = err.Error()
			return
		}
	}
	var all []sendRec
	idxChange, conflict := false, false
	lastCtx := ""
	quorumHashes := map[string]map[string]bool{}
	for i, o := range ops {
		resp, sends, notPersisted, hp := n.exec(o)
		if hp != "" {
			v.harness = fmt.Sprintf("op %d (%s): harness panic: %s", i, o.line(), hp)
			return
		}
		for k := range sends {
			sends[k].step = i
		}
		all = append(all, sends...)
		if len(notPersisted) > 0 && v.oracle == "" {
			v.oracle = fmt.Sprintf("op %d (%s): vote left the node without its record in the database: %s", i, o.line(), strings.Join(notPersisted, ","))
		}
		v.goResp = append(v.goResp, resp)
		if strings.HasPrefix(resp, "crashed") || strings.HasPrefix(resp, "panic") || o.tag == "R" {
			v.crashes++
		}
		if o.tag == "X" || o.tag == "XL" {
			c := o.a[0] + "/" + o.a[1]
			if lastCtx != "" && c != lastCtx {
				idxChange = true
			}
			lastCtx = c
		}
		if o.tag == "M" && u(o.a[8]) == 2 {
			key := o.a[0] + "/" + o.a[1] + "/" + o.a[2]
			if quorumHashes[key] == nil {
				quorumHashes[key] = map[string]bool{}
			}
			quorumHashes[key][o.a[3]] = true
			if len(quorumHashes[key]) > 1 {
				conflict = true
			}
		}
		if drv != nil {
			lr, err := drv.Ask(o.line())
			if err != nil {
				v.harness = err.Error()
				return
			}
			lr = canonResp(lr)
			v.leanResp = append(v.leanResp, lr)
			if lr != resp && v.mismatch == "" {
				v.mismatch = fmt.Sprintf("op %d (%s): go=%s lean=%s", i, o.line(), resp, lr)
			}
		}
	}
	v.sends = len(all)
	if w := checkSends(all); w != "" && v.oracle == "" {
		v.oracle = w
	}
	v.nontrivial = len(all) >= 1 && (v.crashes > 0 || idxChange || conflict)
	return
}

// ---- generators --------------------------------------------------------------------------------------------------

func dec(x uint64) string { return strconv.FormatUint(x, 10) }

type gen struct {
	r      *vh.RNG
	ops    []op
	round  *big.Int
	index  uint64
	hashes []uint64
	T      uint64
	cert   bool
	noLoop bool // never deliver a context through the Voter's own event loop (XL)
}

func (g *gen) add(tag string, a ...string) { g.ops = append(g.ops, op{tag, a}) }

func (g *gen) hash() string {
	if g.r.Chance(12) {
		return "0"
	}
	return dec(g.hashes[g.r.Intn(len(g.hashes))])
}

func (g *gen) seatOp(k uint64) {
	sel := uint64(1)
	if g.r.Chance(15) {
		sel = 0
	}
	vt := uint64(1)
	switch g.r.Intn(12) {
	case 0:
		vt = 2
	case 1:
		vt = 0
	}
	w := uint64(g.r.Range(0, 4))
	T := g.T
	if g.r.Chance(25) {
		T = uint64(g.r.Range(0, 3)) // quorum 0..2: own votes cascade on their own
	}
	g.add("EV", dec(k), dec(sel), dec(w), dec(vt), dec(T))
}

func (g *gen) ctx(step uint64) {
	c := uint64(0)
	if g.cert {
		c = 1
	}
	tag := "X"
	if !g.noLoop && g.r.Chance(3) {
		tag = "XL" // through the Voter's own event loop
	}
	g.add(tag, g.round.String(), dec(g.index), dec(step), dec(c))
}

func (g *gen) voteMsg(kind uint64, mal bool) {
	r, i := g.round.String(), g.index
	status := uint64(2)
	if g.r.Chance(8) {
		// a vote for another context with the status the message handler would give it
		switch g.r.Intn(3) {
		case 0:
			if i > 1 {
				i, status = i-uint64(g.r.Range(1, int(min64(i-1, 2)))), 1
			}
		case 1:
			i, status = i+1, 3
		case 2:
			if g.round.Sign() > 0 {
				r, status = new(big.Int).Sub(g.round, big.NewInt(1)).String(), 0
			}
		}
	}
	sender := uint64(g.r.Range(1, 6))
	if g.r.Chance(4) {
		sender = 0
	}
	w := uint64(g.r.Range(1, 4))
	vt := uint64(1)
	if g.r.Chance(8) {
		vt = 2
	}
	addrOk, stakeErr, sortErr, nilVote := uint64(1), uint64(0), uint64(0), uint64(0)
	T := g.T
	if mal {
		switch g.r.Intn(9) {
		case 0:
			kind = uint64([]int{0, 1, 6, 7, 255}[g.r.Intn(5)])
		case 1:
			status = uint64(g.r.Intn(5))
		case 2:
			addrOk = 0
		case 3:
			stakeErr = 1
		case 4:
			sortErr = 1
		case 5:
			nilVote, status = 1, uint64([]int{2, 2, 2, 3, 1}[g.r.Intn(5)])
		case 6:
			w = uint64(1<<32 - 1 - g.r.Intn(3))
		case 7:
			vt = uint64(g.r.Intn(4))
		case 8:
			i = uint64(g.r.Intn(3))
			status = uint64(g.r.Intn(3))
		}
	}
	g.add("M", dec(kind), r, dec(i), g.hash(), dec(uint64(g.r.Range(0, 3))), dec(sender), dec(addrOk), dec(w), dec(status), dec(vt), dec(T),
		dec(stakeErr), dec(sortErr), dec(nilVote))
}

func min64(a, b uint64) uint64 {
	if a < b {
		return a
	}
	return b
}

// genCertDrop: in a certificate round the certificate quorum for a block is latched, one of its voters equivocates
// (its weight is removed), then precommit quorums arrive: the own certificate vote is cast, and commit finds the
// certificate votes below the latched quorum.
func genCertDrop(r *vh.RNG) []op {
	g := &gen{r: r, round: big.NewInt(int64(32768 * r.Range(1, 2))), index: uint64(r.Range(1, 3)), hashes: []uint64{1, 2}, T: 12, cert: true}
	h, h2 := dec(uint64(r.Range(1, 3))), dec(uint64(r.Range(4, 6)))
	rs, is := g.round.String(), dec(g.index)
	vote := func(kind, hash string, sender int, w int) {
		g.add("M", kind, rs, is, hash, "1", dec(uint64(sender)), "1", dec(uint64(w)), "2", "1", "12", "0", "0", "0")
	}
	g.add("EV", "5", "1", "1", "1", "12") // own certificate seat: 1 sub-user, quorum far away
	g.add("EV", "3", dec(uint64(r.Intn(2))), "1", "1", "12")
	g.ctx(4)
	vote("5", h, 1, r.Range(8, 11))
	vote("5", h2, 1, 3) // equivocation: sender 1 loses its weight
	vote("3", h, 2, r.Range(9, 12))
	vote("3", h, 3, r.Range(1, 3))
	if r.Bool() {
		vote("5", h, 4, r.Range(8, 11)) // the quorum comes back: now the commit goes through
	}
	g.ctx(5)
	if r.Bool() {
		g.add("R")
		g.ctx(4)
		vote("3", h2, 5, 12)
	}
	return g.ops
}

// genHistory: a mostly plausible consensus run (step timers in order, votes for a few hashes that reach quorums,
// sometimes for conflicting hashes) perturbed by crashes at and between calls, lowered / repeated / jumped indices
// and rounds, changing proposals and sortition, and a malformed stream.
func genHistory(r *vh.RNG, maxOps int, malformed bool) []op {
	g := &gen{r: r}
	switch r.Intn(10) {
	case 0:
		g.round = new(big.Int).SetUint64(1<<64 - 1 - uint64(r.Intn(2)))
	case 1:
		g.round = new(big.Int).Add(new(big.Int).Lsh(big.NewInt(1), 64), big.NewInt(int64(r.Intn(3)))) // aliases round 0..2 in the wrapper list
	case 2:
		g.round = big.NewInt(int64(r.Intn(2)))
	case 3:
		g.round = big.NewInt(32768 * int64(r.Range(1, 3)))
	default:
		g.round = big.NewInt(int64(r.Range(1, 9)))
	}
	g.index = 1
	if r.Chance(10) {
		g.index = uint64(r.Range(0, 3))
	}
	nh := r.Range(1, 3)
	for k := 0; k < nh; k++ {
		g.hashes = append(g.hashes, uint64(r.Range(1, 5)))
	}
	g.T = uint64(r.Range(2, 12))
	g.cert = r.Chance(30)
	// initial environment
	if r.Chance(80) {
		g.add("EP", "1", dec(g.hashes[0]), dec(uint64(r.Range(1, 3))))
	}
	for _, k := range []uint64{2, 3, 4, 5} {
		if r.Chance(60) {
			g.seatOp(k)
		}
	}
	for len(g.ops) < maxOps {
		// one (round, index) segment
		steps := []uint64{0, 1, 2, 4, 5}
		if r.Chance(15) {
			steps = []uint64{2, 4}
		}
		if r.Chance(8) {
			steps = []uint64{uint64(r.Intn(8)), uint64(r.Intn(8)), uint64(r.Intn(8))}
		}
		for _, st := range steps {
			if len(g.ops) >= maxOps {
				break
			}
			if r.Chance(10) {
				g.add("K", dec(uint64(r.Range(1, 3))), dec(uint64(r.Intn(2))))
			}
			blsCtx := r.Chance(5)
			if blsCtx {
				g.add("EB", "1")
			}
			g.ctx(st)
			if blsCtx && r.Chance(80) {
				g.add("EB", "0")
			}
			if st >= 4 && r.Chance(10) {
				g.add("U", g.hash()) // the insert of a committed block failed
			}
			if r.Chance(6) {
				g.add("Q", g.round.String(), dec(g.index), dec(uint64(r.Range(0, 6))), dec(uint64(r.Range(0, 2))))
			}
			nv := r.Range(0, 5)
			for k := 0; k < nv && len(g.ops) < maxOps; k++ {
				kind := uint64([]int{2, 2, 3, 3, 4, 5}[r.Intn(6)])
				if st >= 4 && r.Chance(50) {
					kind = uint64([]int{3, 4, 5}[r.Intn(3)])
				}
				if r.Chance(8) {
					g.add("K", dec(uint64(r.Range(1, 3))), dec(uint64(r.Intn(2))))
				}
				g.voteMsg(kind, malformed && r.Chance(30))
				if r.Chance(5) {
					g.add("R")
					if r.Chance(85) {
						g.ctx(st)
					}
				}
			}
			switch r.Intn(14) {
			case 0:
				g.add("R")
				// after a restart the node may see another proposal first
				if r.Chance(70) {
					g.add("EP", "1", g.hash(), dec(uint64(r.Range(1, 3))))
				}
				if r.Chance(60) {
					g.ctx(st)
				}
			case 1:
				g.add("EP", dec(uint64(r.Intn(2))), g.hash(), dec(uint64(r.Range(0, 3))))
			case 2:
				g.seatOp(uint64(r.Range(2, 5)))
			case 3:
				g.add("EC", g.hash(), dec(uint64(r.Intn(2))))
			case 4:
				g.add("EE", dec(uint64(r.Intn(2))))
			case 5:
				if r.Chance(40) { // a record of foreign origin in a slot this node has not used yet, then a restart
					k := []string{"2", "3", "5", "4", "4"}[r.Intn(5)]
					idx := "1"
					if k == "4" && r.Bool() {
						idx = "2"
					}
					g.add("F", k, idx, new(big.Int).Add(g.round, big.NewInt(int64(r.Range(0, 2)))).String(), dec(g.index+uint64(r.Intn(3))), dec(uint64(r.Intn(3))))
					g.add("R")
					g.ctx(st)
				}
			}
		}
		// next context
		switch r.Intn(12) {
		case 0, 1: // restart: the server begins the round again at index 1
			g.add("R")
			g.index = 1
			if r.Chance(60) {
				g.add("EP", "1", g.hash(), dec(uint64(r.Range(1, 3))))
			}
		case 2: // stale RoundIndexChangeEvent lowers the index
			if g.index > 1 {
				g.index -= uint64(r.Range(1, int(min64(g.index-1, 2))))
			}
		case 3: // jump
			g.index += uint64(r.Range(2, 3))
		case 4: // new round
			g.round = new(big.Int).Add(g.round, big.NewInt(1))
			g.index = 1
			g.cert = r.Chance(30)
		case 5: // lower round (chain head went back / adversarial schedule)
			if g.round.Sign() > 0 {
				g.round = new(big.Int).Sub(g.round, big.NewInt(1))
				g.index = uint64(r.Range(1, 3))
			}
		case 6: // same context again
		case 7: // a round that aliases the current one in the 64-bit wrapper key
			two64 := new(big.Int).Lsh(big.NewInt(1), 64)
			if g.round.Cmp(two64) >= 0 {
				g.round = new(big.Int).Sub(g.round, two64)
			} else {
				g.round = new(big.Int).Add(g.round, two64)
			}
		default:
			g.index++
		}
	}
	if len(g.ops) > maxOps {
		g.ops = g.ops[:maxOps]
	}
	return g.ops
}

// genServerHistory: the contexts are not invented by the generator but produced by the REAL Server
// (StartNewRound / NextRound / processTimeout / processStepEvent through the hook VerifServer) from a script of
// step ticks, timeouts, RoundIndexChangeEvents (fresh and stale) and restarts; every ContextChangeEvent the Server posts
// becomes an X op. lowered reports whether the Server moved its round index backwards (F-C02c).
func genServerHistory(r *vh.RNG, maxOps int) (ops []op, lowered bool) {
	initKeys()
	g := &gen{r: r}
	scratch := ucon.NewVerifVoter(youdb.NewMemDatabase(), keys[7], &ucon.VerifEnv{})
	head := uint64(r.Range(1, 6))
	if r.Chance(25) {
		head = 32768*uint64(r.Range(1, 2)) - 1 // the new round is a certificate round
	}
	g.round = new(big.Int).SetUint64(head + 1)
	g.hashes = []uint64{uint64(r.Range(1, 5)), uint64(r.Range(1, 5))}
	g.T = uint64(r.Range(2, 9))
	sv := ucon.NewVerifServer(scratch, head)
	var lastIdx uint32
	emit := func(cs []ucon.ContextChangeEvent) {
		for _, c := range cs {
			cert := "0"
			if c.Certificate {
				cert = "1"
			}
			rs := "0"
			if c.Round != nil {
				rs = c.Round.String()
			}
			g.add("X", rs, dec(uint64(c.RoundIndex)), dec(uint64(c.Step)), cert)
			if c.RoundIndex < lastIdx {
				lowered = true
			}
			lastIdx = c.RoundIndex
			g.index = uint64(c.RoundIndex)
		}
	}
	g.add("EP", "1", dec(g.hashes[0]), "1")
	for _, k := range []uint64{2, 3, 4, 5} {
		if r.Chance(50) {
			g.seatOp(k)
		}
	}
	cs, _ := sv.StartNewRound(true)
	emit(cs)
	step := uint32(0)
	for len(g.ops) < maxOps {
		switch r.Intn(12) {
		case 0, 1, 2, 3: // step timer
			step++
			emit(sv.Step(step))
		case 4: // own or foreign RoundIndexChangeEvent for the current index
			_, ri, _ := sv.Indices()
			emit(sv.NextRound(g.round, ri, common.Hash{}, common.Hash{}))
			step = 0
		case 5: // stale RoundIndexChangeEvent of an earlier index
			_, ri, _ := sv.Indices()
			if ri > 1 {
				emit(sv.NextRound(g.round, uint32(r.Range(1, int(ri)-1)), common.Hash{}, common.Hash{}))
				step = 0
			}
		case 6: // timeout, possibly with a larger index seen from the others
			_, ri, _ := sv.Indices()
			emit(sv.Timeout(g.round, ri+uint32(r.Intn(3))))
			step = 0
		case 7: // crash + restart: a new Server begins the round again at index 1
			g.add("R")
			sv = ucon.NewVerifServer(scratch, head)
			lastIdx = 0
			if r.Chance(70) {
				g.add("EP", "1", g.hash(), "1")
			}
			cs, _ := sv.StartNewRound(true)
			emit(cs)
			step = 0
		case 8:
			g.add("EP", "1", g.hash(), dec(uint64(r.Range(1, 3))))
		default: // received votes in the current context
			kind := uint64([]int{2, 2, 3, 3, 4, 5}[r.Intn(6)])
			g.voteMsg(kind, false)
		}
	}
	return g.ops, lowered
}

// ---- run -----------------------------------------------------------------------------------------------------------

func describe(v verdict) (kind, what string) {
	switch {
	case v.harness != "":
		return "crash", v.harness
	case v.oracle != "":
		return "oracle", v.oracle
	default:
		return "correspondence", v.mismatch
	}
}

func reportFailure(c *vh.Ctx, drv *vh.Driver, name string, ops []op) bool {
	ls := lines(ops)
	// shrink towards the strongest symptom present: a violation of the property itself on the real code,
	// else a disagreement between the real code and the model
	wantOracle := runCase(drv, ops).oracle != ""
	shr := vh.Shrink(ls, func(cand []string) bool {
		var os []op
		for _, l := range cand {
			if o, ok := parseLine(l); ok {
				os = append(os, o)
			}
		}
		v := runCase(drv, os)
		if wantOracle {
			return v.oracle != ""
		}
		return v.fails()
	})
	var os []op
	for _, l := range shr {
		if o, ok := parseLine(l); ok {
			os = append(os, o)
		}
	}
	v := runCase(drv, os)
	if !v.fails() {
		// the shrunk history does not fail when run once more: report the unshrunk one, or nothing if that is quiet too
		shr, os = ls, ops
		v = runCase(drv, os)
	}
	kind, what := describe(v)
	if !v.fails() || what == "" {
		return false
	}
	hdr := []string{kind + ": " + what, "ops below are the shrunk history; answers of the real code (go) and of the model (lean) follow as comments"}
	for i := range v.goResp {
		hdr = append(hdr, fmt.Sprintf("  op %d go:   %s", i, v.goResp[i]))
		if i < len(v.leanResp) {
			hdr = append(hdr, fmt.Sprintf("  op %d lean: %s", i, v.leanResp[i]))
		}
	}
	rp := vh.WriteReplay(c.ReplayDir, "C02", name, c.Seed, hdr, shr)
	c.Res.Fail(kind, "", what, rp)
	return true
}

func run(c *vh.Ctx) error {
	quiet.Silence()
	params.InitNetworkId(params.NetworkIdForTestCase)
	res := c.Res
	res.Rule = "case = event history (contexts, received votes, environment changes, crashes between and inside calls); non-trivial when at least one own vote left the node and a crash, a context change or a quorum for conflicting hashes occurs; distinct by canonical text of the history"
	var drv *vh.Driver
	if c.Driver != "" {
		d, err := vh.StartDriver(c.Driver)
		if err != nil {
			return err
		}
		drv = d
		defer func() { drv.Close() }()
	}
	// A failure is reported only if it has a reason and happens again when the same history is run again.
	// A driver I/O error is a harness error: the driver is restarted and the history run once more; if that fails
	// too the run is aborted as a broken harness (not as a violation of the property).
	var transient []string
	confirm := func(name string, ops []op, v verdict) (verdict, bool, error) {
		if v.harness != "" {
			if drv != nil {
				drv.Close()
				d, err := vh.StartDriver(c.Driver)
				if err != nil {
					return v, false, err
				}
				drv = d
			}
			first := v.harness
			v = runCase(drv, ops)
			if v.harness != "" {
				return v, false, fmt.Errorf("harness error in %s, twice: %s / %s", name, first, v.harness)
			}
			res.Dist("harness-error-retried")
			if !v.fails() {
				return v, false, nil
			}
		}
		_, what := describe(v)
		for try := 0; try < 2; try++ {
			if v2 := runCase(drv, ops); v2.fails() && v2.harness == "" {
				return v2, true, nil
			}
		}
		res.Dist("nonreproducible-disagreement")
		if len(transient) < 5 {
			transient = append(transient, name+": "+what)
		}
		return v, false, nil
	}
	// corpus first: witnesses of the repaired defects must stay quiet
	for _, f := range vh.CorpusFiles("C02") {
		body, comments, e := vh.ReadReplay(f)
		if e != nil {
			continue
		}
		still, what := replayWith(drv, body, comments)
		res.Dist("corpus")
		if still {
			// must fail again to count
			if again, what2 := replayWith(drv, body, comments); !again {
				res.Dist("nonreproducible-disagreement")
				transient = append(transient, "corpus "+f+": "+what)
				still = false
			} else {
				what = what2
			}
		}
		if still {
			res.Fail("corpus", "", "corpus witness fails again: "+f+": "+what, f)
		}
	}
	nCases := c.N(6000, 60000)
	if c.Search {
		nCases *= 3
	}
	failures, oracleFailures := 0, 0
	for ci := 0; ci < nCases; ci++ {
		r := c.R.Fork()
		malformed := ci%4 == 3
		maxOps := r.Range(8, 45)
		ops := genHistory(r, maxOps, malformed)
		if ci%50 == 49 {
			ops = genCertDrop(r)
			res.Dist("stream-scripted-cert-quorum-drop")
		}
		v := runCase(drv, ops)
		res.Count(strings.Join(lines(ops), "\n"), v.nontrivial)
		res.TracesVsImpl++
		if malformed {
			res.Dist("stream-malformed")
		} else {
			res.Dist("stream-structured")
		}
		res.Dist(fmt.Sprintf("sends-%s", bucket(v.sends)))
		res.Dist(fmt.Sprintf("crashes-%s", bucket(v.crashes)))
		for _, o := range ops {
			res.Dist("op-" + o.tag)
		}
		for _, g := range v.goResp {
			if p := strings.SplitN(g, "|", 2); len(p) == 2 {
				res.Dist("outcome-" + p[0])
			}
		}
		if ci < 2 {
			res.Sample(map[string]interface{}{"ops": lines(ops), "go": v.goResp})
		}
		if v.fails() {
			v2, again, err := confirm(fmt.Sprintf("case-%d", ci), ops, v)
			if err != nil {
				return err
			}
			// report the first few of each class (a property violation must not be crowded out by model disagreements)
			if again && v2.oracle != "" {
				oracleFailures++
				if oracleFailures <= 3 {
					reportFailure(c, drv, fmt.Sprintf("case-%d", ci), ops)
				}
			} else if again {
				failures++
				if failures <= 3 {
					reportFailure(c, drv, fmt.Sprintf("case-%d", ci), ops)
				}
			}
		}
	}
	// server-driven stream: contexts come from the real Server's index arithmetic
	nServer := c.N(800, 8000)
	loweredCases := 0
	for ci := 0; ci < nServer; ci++ {
		r := c.R.Fork()
		ops, lowered := genServerHistory(r, r.Range(10, 40))
		v := runCase(drv, ops)
		res.Count(strings.Join(lines(ops), "\n"), v.nontrivial)
		res.TracesVsImpl++
		res.Dist("stream-server-driven")
		if lowered {
			loweredCases++
			res.Dist("server-lowered-its-round-index")
		}
		if ci == 0 {
			res.Sample(map[string]interface{}{"server_driven_ops": lines(ops), "go": v.goResp})
		}
		if v.fails() {
			v2, again, err := confirm(fmt.Sprintf("server-case-%d", ci), ops, v)
			if err != nil {
				return err
			}
			if again {
				if v2.oracle != "" {
					oracleFailures++
				} else {
					failures++
				}
				if oracleFailures+failures <= 6 {
					reportFailure(c, drv, fmt.Sprintf("server-case-%d", ci), ops)
				}
			}
		}
	}
	// write-fault stream: first lives in child processes on LevelDB with a failing Put (fault.go)
	if err := runFaultStream(c, drv, &transient); err != nil {
		return err
	}
	if len(transient) > 0 {
		res.Extra["nonreproducible_disagreements_not_reported"] = transient
	}
	res.Extra["server_driven_histories"] = nServer
	res.Extra["server_lowered_round_index_in"] = loweredCases
	res.Partial = append(res.Partial,
		"event-mux asynchrony: the order of the events posted by one call is not observable (AsyncPost); compared as a sorted list",
		"BLS vote signing disabled in the harness (secp256k1 branch); signatures, sortition and look-back stake are scripted collaborators",
		"the Server's index logic (StartNewRound/NextRound/processTimeout) is not modelled; the model allows every sequence of ContextChangeEvents (over-approximation), and a separate stream feeds the Voter the contexts the REAL Server produces, stale RoundIndexChangeEvents included")
	return nil
}

func bucket(n int) string {
	switch {
	case n == 0:
		return "0"
	case n <= 2:
		return "1-2"
	case n <= 5:
		return "3-5"
	case n <= 10:
		return "6-10"
	}
	return "11+"
}

// ---- replay ----------------------------------------------------------------------------------------------------------

func replayWith(drv *vh.Driver, body, comments []string) (bool, string) {
	if len(body) > 0 && strings.HasPrefix(body[0], "W ") {
		// write-fault case: "W K" = the K-th db.Put of the first life fails; the first life runs in a child process
		var ops []op
		for _, l := range body[1:] {
			o, ok := parseLine(l)
			if !ok {
				return true, "unparsable op line: " + l
			}
			ops = append(ops, o)
		}
		fv := runFaultCase(drv, ops, int(u(strings.Fields(body[0])[1])))
		if fv.fails() {
			_, what := fv.describe()
			return true, what
		}
		return false, fv.summary
	}
	var ops []op
	for _, l := range body {
		o, ok := parseLine(l)
		if !ok {
			return true, "unparsable op line: " + l
		}
		ops = append(ops, o)
	}
	v := runCase(drv, ops)
	if v.fails() {
		_, what := describe(v)
		return true, what
	}
	return false, fmt.Sprintf("history of %d ops: real code and model agree, %d votes left the node, property holds", len(ops), v.sends)
}

func replay(c *vh.Ctx, body, comments []string) (bool, string) {
	quiet.Silence()
	params.InitNetworkId(params.NetworkIdForTestCase)
	var drv *vh.Driver
	if c.Driver != "" {
		if d, err := vh.StartDriver(c.Driver); err == nil {
			drv = d
			defer drv.Close()
		}
	}
	return replayWith(drv, body, comments)
}
