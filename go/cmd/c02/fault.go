package main

// Write-fault stream. A database write of a vote record FAILS (disk full, I/O error). The code as it is answers with
// logging.Crit, i.e. the process exits: for the property that is a crash before the write became durable, which the
// model has (`K n 0` = the call dies at its n-th Put, before the write). Because the real process really exits, the
// first life of such a history runs in a CHILD process: this binary re-executed as
//
//	c02 faultchild -dir <leveldb dir> -script <ops file> -failput K -journal <file>
//
// on a LevelDB directory behind a wrapper whose K-th Put returns an error. The child journals (fsync'd) every record
// it stored, every completed op with its answer, and every vote that left the node. The parent then restarts a Voter on
// the same directory, continues the script, compares both lives with the model (first life: the answers of the completed
// ops; second life: op by op after `K n 0`), and evaluates the property on the votes of BOTH lives: at most 1 prevote,
// precommit, certificate vote and 2 next-index votes per (round, index), counted both as votes that left the node and
// as records accepted by the database. If the process survives the failed write (a changed error path), there is no
// second life and the property is evaluated on the one life.

import (
	"bufio"
	"errors"
	"flag"
	"fmt"
	"math/big"
	"os"
	"os/exec"
	"path/filepath"
	"sort"
	"strings"
	"time"

	"github.com/youchainhq/go-youchain/consensus/ucon"
	"github.com/youchainhq/go-youchain/params"
	"github.com/youchainhq/go-youchain/rlp"
	"github.com/youchainhq/go-youchain/youdb"
	"verifharness/internal/quiet"
	"verifharness/internal/vh"
)

// faultDB fails exactly one Put and journals every Put that was stored.
type faultDB struct {
	youdb.Database
	puts    int
	failAt  int
	journal *os.File
}

func jwrite(f *os.File, format string, a ...interface{}) {
	if f == nil {
		return
	}
	fmt.Fprintf(f, format+"\n", a...)
	f.Sync()
}

func (f *faultDB) Put(key, value []byte) error {
	f.puts++
	if f.puts == f.failAt {
		jwrite(f.journal, "fault %d", f.puts)
		return errors.New("verif: injected write failure (no space left on device)")
	}
	err := f.Database.Put(key, value)
	if err == nil {
		item := new(ucon.VoteItem)
		if rlp.DecodeBytes(value, item) == nil && item.Round != nil && len(key) >= 2 {
			jwrite(f.journal, "put %d %d %s %d", item.VoteType, key[len(key)-1], item.Round, item.RoundIndex)
		}
	}
	return err
}

func readScript(path string) ([]op, error) {
	b, err := os.ReadFile(path)
	if err != nil {
		return nil, err
	}
	var ops []op
	for _, l := range strings.Split(string(b), "\n") {
		if strings.TrimSpace(l) == "" {
			continue
		}
		o, ok := parseLine(l)
		if !ok {
			return nil, fmt.Errorf("bad op line %q", l)
		}
		ops = append(ops, o)
	}
	return ops, nil
}

// faultChild is the first life.
func faultChild(args []string) {
	fs := flag.NewFlagSet("faultchild", flag.ExitOnError)
	dir := fs.String("dir", "", "")
	script := fs.String("script", "", "")
	failput := fs.Int("failput", 0, "")
	journal := fs.String("journal", "", "")
	fs.Parse(args)
	quiet.Silence()
	params.InitNetworkId(params.NetworkIdForTestCase)
	ops, err := readScript(*script)
	if err != nil {
		fmt.Fprintln(os.Stderr, err)
		os.Exit(3)
	}
	jf, err := os.OpenFile(*journal, os.O_APPEND|os.O_CREATE|os.O_WRONLY, 0o644)
	if err != nil {
		fmt.Fprintln(os.Stderr, err)
		os.Exit(3)
	}
	ldb, err := youdb.NewLDBDatabase(*dir, 16, 16)
	if err != nil {
		fmt.Fprintln(os.Stderr, err)
		os.Exit(3)
	}
	n := newNodeOn(&faultDB{Database: ldb, failAt: *failput, journal: jf})
	for i, o := range ops {
		resp, sends, _, hp := n.exec(o)
		if hp != "" {
			jwrite(jf, "harness-panic %d %s", i, strings.ReplaceAll(hp, "\n", " "))
			os.Exit(4)
		}
		for _, s := range sends {
			jwrite(jf, "send %d %d %s %d %s", i, s.k, s.r, s.i, s.h)
		}
		jwrite(jf, "op %d %s", i, resp)
	}
	jwrite(jf, "end")
	ldb.Close()
	os.Exit(0)
}

type faultVerdict struct {
	mismatch, oracle, harness string
	summary                   string
	survived                  bool // the process outlived the failed write
	died                      bool
	votes                     int
	nontrivial                bool
}

func (v faultVerdict) fails() bool { return v.mismatch != "" || v.oracle != "" || v.harness != "" }
func (v faultVerdict) describe() (string, string) {
	switch {
	case v.harness != "":
		return "crash", v.harness
	case v.oracle != "":
		return "oracle", v.oracle
	}
	return "correspondence", v.mismatch
}

type putInfo struct {
	op, local int
	kind      uint64
	slot      uint64
	ctx       string
}

// dryRun executes the script in-process without a fault and lists every Put with the op it belongs to.
func dryRun(ops []op) (puts []putInfo, harness string) {
	n := newNode()
	for i, o := range ops {
		_, _, _, hp := n.exec(o)
		if hp != "" {
			return nil, hp
		}
		if o.tag != "X" && o.tag != "M" && o.tag != "U" {
			continue
		}
		for j, key := range n.d.DB.PutLog {
			if len(key) < 2 {
				continue
			}
			puts = append(puts, putInfo{op: i, local: j + 1, kind: uint64(key[len(key)-2]), slot: uint64(key[len(key)-1])})
		}
	}
	return puts, ""
}

func isEnvOp(o op) bool {
	switch o.tag {
	case "EP", "EC", "EV", "EE", "EB":
		return true
	}
	return false
}

var faultSeq int

// runFaultCase: first life in a child with the failAt-th Put failing, second life here, both against the model.
func runFaultCase(drv *vh.Driver, ops []op, failAt int) (v faultVerdict) {
	for _, o := range ops {
		switch o.tag {
		case "K", "R", "XL", "F", "W":
			v.harness = "write-fault scripts must not contain " + o.tag
			return
		}
	}
	puts, hp := dryRun(ops)
	if hp != "" {
		v.harness = "dry run: " + hp
		return
	}
	if failAt < 1 || failAt > len(puts) {
		v.summary = fmt.Sprintf("script stores %d records, no Put number %d to fail", len(puts), failAt)
		return
	}
	target := puts[failAt-1]
	tmp, err := os.MkdirTemp("", "c02-fault-")
	if err != nil {
		v.harness = err.Error()
		return
	}
	defer os.RemoveAll(tmp)
	scriptPath, journalPath, dbDir := filepath.Join(tmp, "script"), filepath.Join(tmp, "journal"), filepath.Join(tmp, "db")
	os.WriteFile(scriptPath, []byte(strings.Join(lines(ops), "\n")+"\n"), 0o644)
	self, err := os.Executable()
	if err != nil {
		v.harness = err.Error()
		return
	}
	cmd := exec.Command(self, "faultchild", "-dir", dbDir, "-script", scriptPath, "-failput", fmt.Sprint(failAt), "-journal", journalPath)
	cmd.Env = append(os.Environ(), "GOCOVERDIR="+os.Getenv("GOCOVERDIR"))
	done := make(chan error, 1)
	if err := cmd.Start(); err != nil {
		v.harness = err.Error()
		return
	}
	go func() { done <- cmd.Wait() }()
	var werr error
	select {
	case werr = <-done:
	case <-time.After(60 * time.Second):
		cmd.Process.Kill()
		<-done
		v.harness = "first life (child process) did not finish within 60 s"
		return
	}
	exitCode := 0
	if werr != nil {
		if ee, ok := werr.(*exec.ExitError); ok {
			exitCode = ee.ExitCode()
		} else {
			v.harness = werr.Error()
			return
		}
	}
	if exitCode >= 3 {
		v.harness = fmt.Sprintf("first life: child failed with status %d", exitCode)
		return
	}
	// ---- journal of the first life
	jf, err := os.Open(journalPath)
	if err != nil {
		v.harness = err.Error()
		return
	}
	var firstResp []string
	var sends1, puts1 []sendRec
	faultSeen, ended := false, false
	sc := bufio.NewScanner(jf)
	sc.Buffer(make([]byte, 1<<20), 1<<20)
	for sc.Scan() {
		f := strings.SplitN(sc.Text(), " ", 3)
		switch f[0] {
		case "fault":
			faultSeen = true
		case "end":
			ended = true
		case "op":
			if len(f) == 3 {
				firstResp = append(firstResp, f[2])
			}
		case "send":
			g := strings.Fields(sc.Text())
			if len(g) == 6 {
				sends1 = append(sends1, sendRec{k: u(g[2]), r: g[3], i: uint32(u(g[4])), h: g[5], step: int(u(g[1]))})
			}
		case "put":
			g := strings.Fields(sc.Text())
			if len(g) == 5 {
				puts1 = append(puts1, sendRec{k: u(g[1]), r: g[3], i: uint32(u(g[4])), h: "record", step: len(firstResp)})
			}
		}
	}
	jf.Close()
	if !faultSeen {
		v.harness = fmt.Sprintf("the child never reached Put %d (the in-process run stores %d records)", failAt, len(puts))
		return
	}
	v.survived = ended && exitCode == 0
	v.died = !v.survived
	completed := len(firstResp)
	// ---- the model, first life
	ask := func(l string) (string, bool) {
		if drv == nil {
			return "", true
		}
		r, e := drv.Ask(l)
		if e != nil {
			v.harness = e.Error()
			return "", false
		}
		return canonResp(r), true
	}
	if _, ok := ask("RESET"); !ok {
		return
	}
	var sends2 []sendRec
	if v.died {
		if completed != target.op {
			v.mismatch = fmt.Sprintf("the first life died during op %d, the in-process run has Put %d in op %d (%s)", completed, failAt, target.op, ops[target.op].line())
			return
		}
		for i := 0; i < completed; i++ {
			lr, ok := ask(ops[i].line())
			if !ok {
				return
			}
			if drv != nil && lr != firstResp[i] && v.mismatch == "" {
				v.mismatch = fmt.Sprintf("first life (LevelDB, child) op %d (%s): go=%s lean=%s", i, ops[i].line(), firstResp[i], lr)
			}
		}
		// the failed write = the call dies before its write
		if _, ok := ask(fmt.Sprintf("K %d 0", target.local)); !ok {
			return
		}
		lr, ok := ask(ops[target.op].line())
		if !ok {
			return
		}
		if drv != nil && !strings.HasPrefix(lr, "crashed") && v.mismatch == "" {
			v.mismatch = fmt.Sprintf("model does not die at Put %d of op %d: %s", target.local, target.op, lr)
		}
		// ---- second life on the same directory
		ldb, err := youdb.NewLDBDatabase(dbDir, 16, 16)
		if err != nil {
			v.harness = "second life: " + err.Error()
			return
		}
		n := newNodeOn(ldb)
		for _, o := range ops[:target.op+1] {
			if isEnvOp(o) {
				n.exec(o)
			}
		}
		if drv != nil {
			if rs := "nil||" + n.stateString(); !strings.HasSuffix(lr, strings.SplitN(rs, "|", 3)[2]) && v.mismatch == "" {
				v.mismatch = fmt.Sprintf("state after the restart on the LevelDB directory: go=%s lean=%s", rs, lr)
			}
		}
		for i := target.op + 1; i < len(ops); i++ {
			resp, sends, notPersisted, hp := n.exec(ops[i])
			if hp != "" {
				v.harness = hp
				break
			}
			for k := range sends {
				sends[k].step = i
			}
			sends2 = append(sends2, sends...)
			if len(notPersisted) > 0 && v.oracle == "" {
				v.oracle = fmt.Sprintf("second life op %d: vote left the node without its record: %s", i, strings.Join(notPersisted, ","))
			}
			lr, ok := ask(ops[i].line())
			if !ok {
				break
			}
			if drv != nil && lr != resp && v.mismatch == "" {
				v.mismatch = fmt.Sprintf("second life op %d (%s): go=%s lean=%s", i, ops[i].line(), resp, lr)
			}
		}
		ldb.Close()
		if v.harness != "" {
			return
		}
	}
	// ---- the property on both lives
	v.votes = len(sends1) + len(sends2)
	if w := checkSends(append(append([]sendRec{}, sends1...), sends2...)); w != "" {
		v.oracle = w + lifeNote(v, target)
	} else if w := checkSends(append(append([]sendRec{}, puts1...), sends2...)); w != "" && v.oracle == "" {
		v.oracle = "counting the vote records the database accepted in the first life: " + w + lifeNote(v, target)
	}
	v.nontrivial = len(puts1) > 0
	v.summary = fmt.Sprintf("write fault at Put %d (op %d, kind %d slot %d): first life %s after %d ops, %d records, %d votes; second life %d votes; property holds",
		failAt, target.op, target.kind, target.slot, map[bool]string{true: "survived", false: "exited"}[v.survived], completed, len(puts1), len(sends1), len(sends2))
	return
}

func lifeNote(v faultVerdict, t putInfo) string {
	if v.survived {
		return fmt.Sprintf(" [the process survived the failed write of a kind-%d record (slot %d) and went on]", t.kind, t.slot)
	}
	return fmt.Sprintf(" [across the exit at the failed write of a kind-%d record (slot %d) and the restart]", t.kind, t.slot)
}

// genFaultHistory: one validator life with many next-index requests per context (step ticks >= precommit, quorums for
// several hashes while the own next-index seat is far from its quorum), prevote/precommit cascades and a few context changes.
func genFaultHistory(r *vh.RNG) []op {
	g := &gen{r: r, round: big.NewInt(int64(r.Range(1, 9))), index: uint64(r.Range(1, 2)), T: 12, noLoop: true}
	g.hashes = []uint64{uint64(r.Range(1, 3)), uint64(r.Range(4, 6)), uint64(r.Range(7, 9))}
	g.cert = r.Chance(20)
	g.add("EP", "1", dec(g.hashes[0]), "1")
	g.add("EV", "4", "1", "1", "1", "12") // own next-index seat: quorum 8, never reached alone: every tick asks again
	for _, k := range []uint64{2, 3, 5} {
		switch r.Intn(3) {
		case 0:
			g.add("EV", dec(k), "0", "1", "1", "1")
		case 1:
			g.add("EV", dec(k), "1", "1", "1", "12")
		}
	}
	quorum := func(kind uint64, h uint64) {
		g.add("M", dec(kind), g.round.String(), dec(g.index), dec(h), "1", dec(uint64(r.Range(1, 6))), "1", "12", "2", "1", "12", "0", "0", "0")
	}
	nctx := r.Range(1, 3)
	for c := 0; c < nctx; c++ {
		if r.Chance(60) {
			g.ctx(2)
		}
		g.ctx(4)
		g.ctx(5)
		n := r.Range(2, 6)
		for k := 0; k < n; k++ {
			switch r.Intn(6) {
			case 0:
				g.ctx(4)
			case 1:
				g.ctx(5)
			case 2, 3:
				quorum(2, g.hashes[r.Intn(3)])
			case 4:
				quorum(3, g.hashes[r.Intn(3)])
			case 5:
				quorum(uint64([]int{4, 5}[r.Intn(2)]), g.hashes[r.Intn(3)])
			}
		}
		if r.Chance(30) {
			g.round = new(big.Int).Add(g.round, big.NewInt(1))
			g.index = 1
		} else {
			g.index++
		}
	}
	return g.ops
}

// pickFault chooses which Put fails: mostly next-index writes (first and second of a context) and precommit writes.
func pickFault(r *vh.RNG, puts []putInfo) int {
	if len(puts) == 0 {
		return 0
	}
	w := make([]int, len(puts))
	for i, p := range puts {
		switch {
		case p.kind == 4 && p.slot == 2:
			w[i] = 8
		case p.kind == 4:
			w[i] = 4
		case p.kind == 3:
			w[i] = 3
		default:
			w[i] = 1
		}
	}
	return r.Weighted(w) + 1
}

func faultReplayBody(ops []op, failAt int) []string {
	return append([]string{fmt.Sprintf("W %d", failAt)}, lines(ops)...)
}

// runFaultStream is called from run().
func runFaultStream(c *vh.Ctx, drv *vh.Driver, transient *[]string) error {
	res := c.Res
	nCases := c.N(40, 400)
	reported := 0
	kinds := map[string]int{}
	for ci := 0; ci < nCases; ci++ {
		r := c.R.Fork()
		ops := genFaultHistory(r)
		puts, hp := dryRun(ops)
		if hp != "" || len(puts) == 0 {
			res.Dist("fault-script-without-writes")
			continue
		}
		failAt := pickFault(r, puts)
		v := runFaultCase(drv, ops, failAt)
		if v.harness != "" {
			// harness trouble (child start, journal, driver I/O): once more, then give up as a broken harness
			first := v.harness
			if v = runFaultCase(drv, ops, failAt); v.harness != "" {
				return fmt.Errorf("write-fault case %d: harness error twice: %s / %s", ci, first, v.harness)
			}
			res.Dist("harness-error-retried")
		}
		if v.fails() {
			// a failure counts only if it happens again
			if v2 := runFaultCase(drv, ops, failAt); v2.fails() && v2.harness == "" {
				v = v2
			} else {
				_, what := v.describe()
				res.Dist("nonreproducible-disagreement")
				if len(*transient) < 5 {
					*transient = append(*transient, fmt.Sprintf("write-fault-%d: %s", ci, what))
				}
				v.mismatch, v.oracle, v.harness = "", "", ""
			}
		}
		res.Count(strings.Join(faultReplayBody(ops, failAt), "\n"), v.nontrivial)
		res.TracesVsImpl++
		res.Dist("stream-write-fault")
		t := puts[failAt-1]
		kinds[fmt.Sprintf("fault-at-kind-%d-slot-%d", t.kind, t.slot)]++
		if v.survived {
			res.Dist("write-fault-process-survived")
		} else if v.died {
			res.Dist("write-fault-process-exited")
		}
		if ci == 0 {
			res.Sample(map[string]interface{}{"write_fault_case": faultReplayBody(ops, failAt), "result": v.summary})
		}
		if v.fails() && reported < 3 {
			reported++
			// not shrunk: the fault position is a global Put number, dropping ops would move it
			body := faultReplayBody(ops, failAt)
			kind, what := v.describe()
			if what == "" {
				continue
			}
			rp := vh.WriteReplay(c.ReplayDir, "C02", fmt.Sprintf("write-fault-%d", ci), c.Seed,
				[]string{kind + ": " + what, "first line W K: the K-th db.Put of the first life fails; the first life runs in a child process on LevelDB"}, body)
			res.Fail(kind, "", what, rp)
		}
	}
	ks := []string{}
	for k := range kinds {
		ks = append(ks, k)
	}
	sort.Strings(ks)
	for _, k := range ks {
		res.DistN(k, kinds[k])
	}
	return nil
}
