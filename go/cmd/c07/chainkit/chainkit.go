// Package chainkit is a reusable in-process chain builder for the staking-related properties
// (C05, C06, C07, C08, C11): a solo-engine core.BlockChain with the staking module registered, on the
// test-case network table (staking period 16, protocol version V5), with its own block builder that
// mirrors miner/worker.go (core.GenerateChain cannot run the staking end-block hook), and a second,
// independent chain database into which every built block is imported (replay path, isSeal=false).
//
//	k, _ := chainkit.New(cfg)
//	b, _ := k.Build(coinbase, txs, nil)     // builder path: ApplyTransaction per tx, EndBlock(isSeal=true), FinalizeAndAssemble
//	_ = k.Import(b.Block)                   // InsertChain into the builder's own chain and into the second chain
//	d := k.B.Dump()                         // state.Dump of the second chain's head (committed tries)
//	p := k.B.Pending()                      // staking records still pending after the head block
//
// Nothing here is random; callers derive keys and inputs from their own seeded PRNG.
package chainkit

import (
	"crypto/ecdsa"
	"fmt"
	"math/big"
	"sort"

	"github.com/youchainhq/go-youchain/common"
	"github.com/youchainhq/go-youchain/consensus/solo"
	"github.com/youchainhq/go-youchain/core"
	"github.com/youchainhq/go-youchain/core/rawdb"
	"github.com/youchainhq/go-youchain/core/state"
	"github.com/youchainhq/go-youchain/core/types"
	"github.com/youchainhq/go-youchain/core/vm"
	"github.com/youchainhq/go-youchain/crypto"
	"github.com/youchainhq/go-youchain/event"
	"github.com/youchainhq/go-youchain/local"
	"github.com/youchainhq/go-youchain/params"
	"github.com/youchainhq/go-youchain/rlp"
	"github.com/youchainhq/go-youchain/staking"
	"github.com/youchainhq/go-youchain/youdb"
)

// Init selects the scaled-down parameter table. Call once per process before anything else.
func Init() { params.InitNetworkId(params.NetworkIdForTestCase) }

// Key returns the i-th deterministic secp256k1 key of a namespace.
func Key(ns string, i int) *ecdsa.PrivateKey {
	h := crypto.Keccak256([]byte(fmt.Sprintf("verif-chainkit-%s-%d", ns, i)))
	k, err := crypto.ToECDSA(h)
	if err != nil {
		panic(err)
	}
	return k
}

func Addr(k *ecdsa.PrivateKey) common.Address { return crypto.PubkeyToAddress(k.PublicKey) }

// ValSpec is a genesis validator.
type ValSpec struct {
	Main     *ecdsa.PrivateKey // consensus key; main address = address of its public key
	Bls      []byte            // compressed BLS public key (any non-empty bytes unless evidence is verified)
	Operator common.Address
	Coinbase common.Address
	Role     params.ValidatorRole
	Token    *big.Int
	Status   uint8
}

func (v ValSpec) MainAddr() common.Address { return Addr(v.Main) }
func (v ValSpec) MainPub() []byte          { return crypto.CompressPubkey(&v.Main.PublicKey) }

type Config struct {
	Alloc    map[common.Address]*big.Int
	Code     map[common.Address][]byte
	Vals     []ValSpec
	GasLimit uint64
	Version  params.YouVersion // default YouV5
}

// Node is one chain database with its own BlockChain and staking module.
type Node struct {
	DB      youdb.Database
	BC      *core.BlockChain
	Staking *staking.Staking
	Mux     *event.TypeMux
}

type Kit struct {
	A, B    *Node // A builds (and imports its own blocks), B only imports
	Genesis *core.Genesis
	Signer  types.Signer
}

func newNode(g *core.Genesis) (*Node, error) {
	db := youdb.NewMemDatabase()
	if _, err := g.Commit(db); err != nil {
		return nil, err
	}
	mux := event.NewMux()
	eng := solo.NewFallbackSolo(true, 0, 1, 0)
	bc, err := core.NewBlockChain(db, eng, mux, params.ArchiveNode, local.NewDetailDB(nil, false))
	if err != nil {
		return nil, err
	}
	eng.SetChain(bc)
	st := staking.NewStaking(nil) // no event mux: evidence is injected deterministically by the caller
	st.Register(bc.Processor())
	if err := st.Start(bc, eng); err != nil {
		return nil, err
	}
	return &Node{DB: db, BC: bc, Staking: st, Mux: mux}, nil
}

func (n *Node) Stop() {
	n.BC.Stop()
	n.Mux.Stop()
}

func New(cfg Config) (*Kit, error) {
	ver := cfg.Version
	if ver == 0 {
		ver = params.YouV5
	}
	gl := cfg.GasLimit
	if gl == 0 {
		gl = 30000000
	}
	g := &core.Genesis{NetworkId: params.NetworkIdForTestCase, GasLimit: gl, CurrVersion: ver,
		Alloc: core.GenesisAlloc{}, Validators: core.GenesisValidators{}}
	for a, b := range cfg.Alloc {
		g.Alloc[a] = core.GenesisAccount{Balance: new(big.Int).Set(b)}
	}
	for a, c := range cfg.Code {
		acc := g.Alloc[a]
		if acc.Balance == nil {
			acc.Balance = new(big.Int)
		}
		acc.Code = c
		g.Alloc[a] = acc
	}
	for _, v := range cfg.Vals {
		g.Validators[v.MainAddr()] = core.GenesisValidator{Name: "", OperatorAddress: v.Operator, Coinbase: v.Coinbase,
			MainPubKey: v.MainPub(), BlsPubKey: v.Bls, Token: new(big.Int).Set(v.Token), Role: v.Role, Status: v.Status}
	}
	a, err := newNode(g)
	if err != nil {
		return nil, err
	}
	b, err := newNode(g)
	if err != nil {
		return nil, err
	}
	return &Kit{A: a, B: b, Genesis: g, Signer: types.MakeSigner(nil)}, nil
}

func (k *Kit) Stop() { k.A.Stop(); k.B.Stop() }

// TxOutcome says what the builder did with one offered transaction.
type TxOutcome struct {
	Tx       *types.Transaction
	Included bool   // false: ApplyTransaction returned an error, the builder reverted and skipped it (as miner/worker.go does)
	Err      string // error text when not included, or "panic: ..." when the real code panicked
	Receipt  *types.Receipt
}

type Built struct {
	Block      *types.Block
	Outcomes   []TxOutcome
	EndReceipt *types.Receipt // the staking module's end-block receipt
	Panic      string         // non-empty when EndBlock panicked (block is nil then)
	StateErr   string         // non-empty when the builder's StateDB recorded an error (e.g. a staking record that cannot be
	// RLP-encoded): IntermediateRoot then wrote only part of the dirty records, in map order, and the roots in the header are
	// not reproducible by any other node
}

// HeadState opens the state of a node's head block (with the head's own staking trie).
func (n *Node) HeadState() (*state.StateDB, error) {
	h := n.BC.CurrentBlock().Header()
	return n.BC.StateAt(h.Root, h.ValRoot, h.StakingRoot)
}

// NextState opens the state a new block on top of the head starts from (staking trie reset at a period start).
func (n *Node) NextState() (*state.StateDB, *params.YouParams, error) {
	parent := n.BC.CurrentBlock()
	yp, err := n.BC.VersionForRound(parent.NumberU64() + 1)
	if err != nil {
		return nil, nil, err
	}
	sroot := core.StakingRootForNewBlock(yp.StakingTrieFrequency, parent.Header())
	st, err := n.BC.StateAt(parent.Root(), parent.ValRoot(), sroot)
	return st, yp, err
}

// Work is a block under construction on top of A's head, exactly as miner/worker.go keeps it: version state, state at the
// parent with the staking root for a new block, ApplyTransaction per tx under a snapshot (skipped on error), EndBlock,
// FinalizeAndAssemble.
type Work struct {
	k        *Kit
	Header   *types.Header
	State    *state.StateDB
	coinbase common.Address
	gp       *core.GasPool
	vmCfg    *vm.Config
	included []*types.Transaction
	receipts []*types.Receipt
	res      *Built
}

func (k *Kit) Begin(coinbase common.Address) (*Work, error) {
	bc := k.A.BC
	parent := bc.CurrentBlock()
	num := new(big.Int).Add(parent.Number(), big.NewInt(1))
	header := &types.Header{ParentHash: parent.Hash(), Number: num, Time: parent.Time() + 1, Coinbase: coinbase,
		GasLimit: core.CalcGasLimit(parent), GasRewards: big.NewInt(0), Subsidy: big.NewInt(0)}
	if err := core.ProcessYouVersionState(parent.Header(), header); err != nil {
		return nil, err
	}
	st, _, err := k.A.NextState()
	if err != nil {
		return nil, err
	}
	st.IntermediateRoot(true)
	vmCfg, err := core.PrepareVMConfig(bc, num.Uint64(), *bc.GetVMConfig())
	if err != nil {
		return nil, err
	}
	return &Work{k: k, Header: header, State: st, coinbase: coinbase, gp: new(core.GasPool).AddGas(header.GasLimit), vmCfg: vmCfg, res: &Built{}}, nil
}

// Apply offers one transaction to the block (worker.commitTransaction).
func (w *Work) Apply(tx *types.Transaction) TxOutcome {
	bc := w.k.A.BC
	o := TxOutcome{Tx: tx}
	w.State.Prepare(tx.Hash(), common.Hash{}, len(w.included))
	snap := w.State.Snapshot()
	func() {
		defer func() {
			if r := recover(); r != nil {
				o.Err = fmt.Sprintf("panic: %v", r)
			}
		}()
		rc, _, e := bc.Processor().ApplyTransaction(tx, w.k.Signer, w.State, bc, w.Header, &w.coinbase, &w.Header.GasUsed, w.Header.GasRewards, w.gp, w.vmCfg, local.FakeRecorder())
		if e != nil {
			o.Err = e.Error()
			w.State.RevertToSnapshot(snap)
			return
		}
		o.Included, o.Receipt = true, rc
	}()
	if o.Included {
		w.included = append(w.included, tx)
		w.receipts = append(w.receipts, o.Receipt)
	}
	w.res.Outcomes = append(w.res.Outcomes, o)
	return o
}

// Finish runs the end-block hook and assembles the block.
// slashData == nil: EndBlock(isSeal=true) (the module's own evidence pool, empty here).
// slashData != nil: the header carries the given SlashData and EndBlock runs with isSeal=false (forged-evidence path).
func (w *Work) Finish(slashData []byte) (*Built, error) {
	bc := w.k.A.BC
	res := w.res
	isSeal := true
	if slashData != nil {
		w.Header.SlashData = slashData
		isSeal = false
	}
	func() {
		defer func() {
			if r := recover(); r != nil {
				res.Panic = fmt.Sprintf("%v", r)
			}
		}()
		recs, _, _ := bc.Processor().EndBlock(bc, w.Header, w.included, w.State, isSeal, local.FakeRecorder())
		for _, r := range recs {
			if r != nil {
				w.receipts = append(w.receipts, r)
				res.EndReceipt = r
			}
		}
	}()
	if res.Panic != "" {
		return res, nil
	}
	blk, err := bc.Engine().FinalizeAndAssemble(bc, w.Header, w.State, w.included, w.receipts)
	if err != nil {
		return nil, err
	}
	res.Block = blk
	if e := w.State.Error(); e != nil {
		res.StateErr = e.Error()
	}
	return res, nil
}

// Build = Begin + Apply each + Finish.
func (k *Kit) Build(coinbase common.Address, txs []*types.Transaction, slashData []byte) (*Built, error) {
	w, err := k.Begin(coinbase)
	if err != nil {
		return nil, err
	}
	for _, tx := range txs {
		w.Apply(tx)
	}
	return w.Finish(slashData)
}

// Import inserts the block into the builder's own chain and into the second, independent chain.
func (k *Kit) Import(b *types.Block) error {
	if err := k.A.BC.InsertChain(types.Blocks{b}); err != nil {
		return fmt.Errorf("builder's own chain rejects its block %d: %v", b.NumberU64(), err)
	}
	if err := k.B.BC.InsertChain(types.Blocks{b}); err != nil {
		return fmt.Errorf("second chain rejects block %d: %v", b.NumberU64(), err)
	}
	if k.B.BC.CurrentBlock().Hash() != b.Hash() || k.A.BC.CurrentBlock().Hash() != b.Hash() {
		return fmt.Errorf("block %d did not become the head", b.NumberU64())
	}
	return nil
}

// Dump is the committed state of the node's head block.
func (n *Node) Dump() (state.Dump, error) {
	st, err := n.HeadState()
	if err != nil {
		return state.Dump{}, err
	}
	return st.RawDump(), nil
}

// PendingTx is one transaction of a pending staking record, decoded.
type PendingTx struct {
	Hash   common.Hash
	From   common.Address
	Action staking.ActionType
	Value  *big.Int // tokens detained at submission (create, deposit, delegation add), else 0
}

type PendingRecord struct {
	Delegator, Validator common.Address
	FinalValue           *big.Int
	Txs                  []PendingTx
}

// DecodeStakingTx extracts action and detained value from a staking transaction.
func DecodeStakingTx(signer types.Signer, tx *types.Transaction) (PendingTx, error) {
	p := PendingTx{Hash: tx.Hash(), Value: new(big.Int)}
	from, err := types.Sender(signer, tx)
	if err != nil {
		return p, err
	}
	p.From = from
	var m staking.Message
	if err := rlp.DecodeBytes(tx.Data(), &m); err != nil {
		return p, err
	}
	p.Action = m.Action
	switch m.Action {
	case staking.ValidatorCreate:
		var t staking.TxCreateValidator
		if err := rlp.DecodeBytes(m.Payload, &t); err != nil {
			return p, err
		}
		p.Value = t.Value
	case staking.ValidatorDeposit:
		var t staking.TxValidatorDeposit
		if err := rlp.DecodeBytes(m.Payload, &t); err != nil {
			return p, err
		}
		p.Value = t.Value
	case staking.DelegationAdd:
		var t staking.TxDelegation
		if err := rlp.DecodeBytes(m.Payload, &t); err != nil {
			return p, err
		}
		p.Value = t.Value
	}
	return p, nil
}

// Pending lists the staking records that are still pending after the node's head block, in the order
// processPendingTxs will visit them (trie order). After a period-end block nothing is pending: its records took effect.
func (n *Node) Pending() ([]PendingRecord, error) {
	h := n.BC.CurrentBlock().Header()
	yp, err := n.BC.VersionForRound(h.Number.Uint64())
	if err != nil {
		return nil, err
	}
	if (h.Number.Uint64()+1)%yp.StakingTrieFrequency == 0 {
		return nil, nil
	}
	return n.RecordsAt(h)
}

// RecordsAt lists the staking records in the staking trie of the given header, in trie order.
func (n *Node) RecordsAt(h *types.Header) ([]PendingRecord, error) {
	st, err := n.BC.StateAt(h.Root, h.ValRoot, h.StakingRoot)
	if err != nil {
		return nil, err
	}
	signer := types.MakeSigner(nil)
	var out []PendingRecord
	err = st.ForEachStakingRecord(func(d, v common.Address, r *state.Record) error {
		pr := PendingRecord{Delegator: d, Validator: v, FinalValue: new(big.Int).Set(r.FinalValue)}
		for _, th := range r.TxHashes {
			tx, _, _, _ := rawdb.ReadTransaction(n.DB, th)
			if tx == nil {
				return fmt.Errorf("pending tx %s not in the chain database", th.String())
			}
			p, e := DecodeStakingTx(signer, tx)
			if e != nil {
				return e
			}
			pr.Txs = append(pr.Txs, p)
		}
		out = append(out, pr)
		return nil
	})
	return out, err
}

// SortedAccounts returns the dump's account keys sorted.
func SortedAccounts(d state.Dump) []string {
	ks := make([]string, 0, len(d.Accounts))
	for k := range d.Accounts {
		ks = append(ks, k)
	}
	sort.Strings(ks)
	return ks
}

// SortedValidators returns the dump's validator keys sorted.
func SortedValidators(d state.Dump) []string {
	ks := make([]string, 0, len(d.Validators))
	for k := range d.Validators {
		ks = append(ks, k)
	}
	sort.Strings(ks)
	return ks
}
