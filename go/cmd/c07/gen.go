package main

// Seeded, state-aware scenario generator: mostly valid operations (it looks at the real state between blocks to know
// who is a validator, who operates it, who delegates) plus a malformed stream (wrong sender, unknown validator, values
// below minimum / above balance, bad nonce, too little gas, garbage payloads).

import (
	"fmt"
	"math/big"
	"sort"
	"strings"

	"github.com/youchainhq/go-youchain/common"
	"github.com/youchainhq/go-youchain/core/state"
	"github.com/youchainhq/go-youchain/params"

	"verifharness/cmd/c07/chainkit"
	"verifharness/internal/vh"
)

type genProfile struct {
	blocks    int
	lazy      map[int]bool // validator keys that never propose (inactivity penalties)
	nextKey   int          // next unused validator key
	txPerBlk  int
	refundOps bool // include SSTORE-clearing contract calls (known finding F-C07c)
	// cap pressure: validator key `capKey` (House, created near its role's MaxStakes) is driven to the cap with delegations;
	// then, within one period, a small own withdrawal (which re-bases the pending-total record on the SELF tokens) or another
	// delegator's sub is combined with deposits / delegations sized to straddle the cap, so that the submit-time check passes and
	// the take-effect-time check fails (V5 refund branches of teDeposit / teDelegationAdd) - or just fits.
	capKey int // -1: no pressure validator in this world
}

func genWorld(r *vh.RNG) ([]string, *genProfile) {
	p := &genProfile{lazy: map[int]bool{}, txPerBlk: r.Range(1, 4), capKey: -1}
	pool := youN(100000)
	switch r.Intn(6) {
	case 0:
		pool = youN(int64(r.Range(20, 400))) // runs dry during the chain
	case 1:
		pool = new(big.Int)
	case 2:
		pool = new(big.Int).Add(youN(int64(r.Range(100, 900))), big.NewInt(int64(r.Intn(1000000))))
	}
	lines := []string{fmt.Sprintf("W users=8 pool=%s ver=5", pool)}
	n := r.Range(3, 6)
	odd := func() *big.Int { return big.NewInt(int64(r.Intn(1000000000)) * int64(r.Intn(1000000000))) }
	for k := 0; k < n; k++ {
		role := 1 + r.Intn(3)
		if k == 0 {
			role = 1 + r.Intn(2) // key 0: an always-online, always-proposing chamber validator keeps the chain alive
		}
		min := map[int]int64{1: 1000, 2: 500, 3: 100}[role]
		tok := youN(min + int64(r.Intn(int(min))))
		if r.Chance(60) {
			tok.Add(tok, odd())
		}
		status := 1
		if k > 0 && r.Chance(15) {
			status = 0
		}
		if k > 0 && role != 3 && r.Chance(35) {
			p.lazy[k] = true
		}
		lines = append(lines, fmt.Sprintf("GV %d %d %s %d", k, role, tok, status))
	}
	if r.Chance(45) {
		// the pressure validator: House (cap 150000 YOU on the test-case table), 95000..120000 YOU of its own
		p.capKey = n
		tok := youN(int64(r.Range(95000, 120000)))
		if r.Bool() {
			tok.Add(tok, odd())
		}
		lines = append(lines, fmt.Sprintf("GV %d 3 %s 1", n, tok))
		n++
	}
	p.nextKey = n
	p.refundOps = r.Chance(25)
	return lines, p
}

type valView struct {
	key      int
	operator int // user index or -1
	v        *state.Validator
}

func (w *world) valViews(st *state.StateDB) []valView {
	var out []valView
	for _, v := range st.GetValidators().List() {
		id := w.idOf(v.MainAddress())
		if id < idMain || id >= idMain+maxValKeys {
			continue
		}
		vv := valView{key: id - idMain, operator: -1, v: v}
		if oid := w.idOf(v.OperatorAddress); oid >= idUser && oid < idUser+w.users {
			vv.operator = oid - idUser
		}
		out = append(out, vv)
	}
	sort.Slice(out, func(i, j int) bool { return out[i].key < out[j].key })
	return out
}

func amountAround(r *vh.RNG, base *big.Int) *big.Int {
	// a value near `base`: exact, a bit less, a bit more, half, with odd LU tails
	v := new(big.Int).Set(base)
	switch r.Intn(6) {
	case 0:
	case 1:
		v.Sub(v, big.NewInt(int64(r.Range(1, 1000))))
	case 2:
		v.Add(v, big.NewInt(int64(r.Range(1, 1000))))
	case 3:
		v.Div(v, big.NewInt(2))
	case 4:
		v.Mul(v, big.NewInt(int64(r.Range(2, 5))))
	case 5:
		v.Add(v, new(big.Int).Mul(big.NewInt(int64(r.Intn(1000000000))), big.NewInt(int64(r.Intn(1000000000)))))
	}
	if v.Sign() < 0 {
		v.SetInt64(0)
	}
	return v
}

func (p *genProfile) genBlock(r *vh.RNG, w *world, st *state.StateDB, res *vh.Result) []string {
	vals := w.valViews(st)
	// proposer: an online, non-lazy validator; key 0 at least every few blocks
	var cands []int
	for _, v := range vals {
		if v.v.IsOnline() && !p.lazy[v.key] {
			cands = append(cands, v.key)
		}
	}
	cb := 0
	if len(cands) > 0 && !r.Chance(30) {
		cb = cands[r.Intn(len(cands))]
	}
	lines := []string{fmt.Sprintf("B %d", cb)}
	ntx := r.Intn(p.txPerBlk + 1)
	if r.Chance(10) {
		ntx += r.Intn(5)
	}
	pickVal := func(pred func(valView) bool) (valView, bool) {
		var c []valView
		for _, v := range vals {
			if pred == nil || pred(v) {
				c = append(c, v)
			}
		}
		if len(c) == 0 {
			return valView{}, false
		}
		return c[r.Intn(len(c))], true
	}
	addrIDs := []string{"u0", "u1", "u2", "u3", "u4", "u5", "u6", "u7", "c0", "c1", "c2", "x0", "x1", "x2", "pool", "pen", "m1", "k1"}
	for i := 0; i < ntx; i++ {
		var l string
		u := r.Intn(w.users)
		kind := r.Weighted([]int{22, 8, 8, 6, 10, 10, 7, 5, 12, 8, 4, 6})
		switch kind {
		case 0: // transfer
			val := new(big.Int).Mul(big.NewInt(int64(r.Intn(2000))), big.NewInt(1e15))
			if r.Chance(5) {
				val = youN(4000000) // more than anyone has
			}
			l = fmt.Sprintf("T %d %s %s", u, addrIDs[r.Intn(len(addrIDs))], val)
		case 1: // contract call
			switch r.Intn(6) {
			case 0:
				l = fmt.Sprintf("K %d 0 %064x 0", u, r.Range(1, 255))
			case 1:
				if p.refundOps {
					l = fmt.Sprintf("K %d 0 %064x 0", u, 0)
				} else {
					l = fmt.Sprintf("K %d 0 %064x 0", u, r.Range(1, 255))
				}
			case 2, 3:
				l = fmt.Sprintf("K %d 1 - %d", u, r.Intn(1000000))
			case 4:
				l = fmt.Sprintf("K %d 3 - %d", u, r.Intn(1000000))
			case 5:
				benef := contractAddr(2)
				if r.Bool() {
					benef = chainkit.Addr(chainkit.Key("fresh", 3))
				}
				l = fmt.Sprintf("K %d 2 %064x %d", u, new(big.Int).SetBytes(benef[:]), r.Intn(1000))
			}
		case 2: // create validator
			role := 1 + r.Intn(3)
			min := map[int]int64{1: 1000, 2: 500, 3: 100}[role]
			val := amountAround(r, youN(min))
			if r.Chance(50) {
				val = youN(min + int64(r.Intn(500)))
			}
			key := p.nextKey
			if key < maxValKeys-1 {
				p.nextKey++
			}
			if r.Chance(10) && len(vals) > 0 {
				key = vals[r.Intn(len(vals))].key // already exists
			}
			comm, risk := r.Intn(10001), r.Intn(10001)
			if r.Chance(30) {
				comm = 0
			}
			if r.Chance(30) {
				risk = 0
			}
			l = fmt.Sprintf("VC %d %d %d %s %d %d %d", u, key, role, val, comm, risk, r.Intn(2))
		case 3: // update
			if v, ok := pickVal(nil); ok {
				ops := []int{65535, 0, r.Intn(10001)}
				acc := []int{65535, 1, 1, 0}[r.Intn(4)]
				l = fmt.Sprintf("VU %d %d %d %d %d", v.operator, v.key, ops[r.Intn(3)], ops[r.Intn(3)], acc)
			}
		case 4: // deposit
			if v, ok := pickVal(nil); ok {
				val := amountAround(r, youN(int64(r.Range(1, 300))))
				if r.Chance(5) {
					val = youN(2000000) // over MaxStakes
				}
				l = fmt.Sprintf("VD %d %d %s", v.operator, v.key, val)
			}
		case 5: // withdraw
			if v, ok := pickVal(func(v valView) bool { return v.key != 0 }); ok {
				var val *big.Int
				switch r.Intn(4) {
				case 0:
					val = new(big.Int).Set(v.v.SelfToken)
				case 1:
					val = amountAround(r, v.v.SelfToken)
				default:
					val = amountAround(r, youN(int64(r.Range(1, 200))))
				}
				if val.Sign() == 0 {
					val = big.NewInt(1)
				}
				l = fmt.Sprintf("VW %d %d %s %s", v.operator, v.key, []string{"u0", "u5", "x4", "c1", fmt.Sprintf("u%d", u)}[r.Intn(5)], val)
			}
		case 6: // change status
			if v, ok := pickVal(func(v valView) bool { return v.key != 0 }); ok {
				s := 1
				if v.v.IsOnline() {
					s = 0
				}
				if r.Chance(10) {
					s = 1 - s
				}
				l = fmt.Sprintf("VS %d %d %d", v.operator, v.key, s)
			}
		case 7: // settle
			if v, ok := pickVal(nil); ok {
				l = fmt.Sprintf("VT %d %d", v.operator, v.key)
			}
		case 8: // delegation add
			v, ok := pickVal(func(v valView) bool { return v.v.AcceptDelegation == params.AcceptDelegation })
			if !ok || r.Chance(10) {
				v, ok = pickVal(nil)
			}
			if ok {
				val := amountAround(r, youN(int64(r.Range(10, 200))))
				if r.Chance(8) {
					val = youN(int64(r.Range(1, 9))) // below MinDelegationTokens
				}
				l = fmt.Sprintf("DA %d %d %s", u, v.key, val)
			}
		case 9: // delegation sub
			if v, ok := pickVal(func(v valView) bool { return len(v.v.Delegations) > 0 && v.key != 0 }); ok {
				d := v.v.Delegations[r.Intn(len(v.v.Delegations))]
				du := w.idOf(d.Delegator) - idUser
				var val *big.Int
				switch r.Intn(3) {
				case 0:
					val = new(big.Int).Set(d.Token)
				case 1:
					val = amountAround(r, d.Token)
				default:
					val = amountAround(r, youN(int64(r.Range(1, 50))))
				}
				if val.Sign() == 0 {
					val = big.NewInt(1)
				}
				if du >= 0 && du < w.users {
					l = fmt.Sprintf("DS %d %d %s", du, v.key, val)
				}
			} else if v, ok := pickVal(nil); ok {
				l = fmt.Sprintf("DS %d %d %s", u, v.key, youN(int64(r.Range(1, 30))))
			}
		case 10: // delegation settle
			if v, ok := pickVal(func(v valView) bool { return len(v.v.Delegations) > 0 }); ok {
				d := v.v.Delegations[r.Intn(len(v.v.Delegations))]
				if du := w.idOf(d.Delegator) - idUser; du >= 0 && du < w.users {
					l = fmt.Sprintf("DT %d %d", du, v.key)
				}
			}
		case 11: // malformed stream
			switch r.Intn(6) {
			case 0:
				l = fmt.Sprintf("VD %d %d %s", u, r.Intn(maxValKeys), youN(5)) // unknown validator / not the operator
			case 1:
				l = fmt.Sprintf("RAW %d %x", u, r.Bytes(r.Range(1, 40)))
			case 2:
				l = fmt.Sprintf("T %d u1 1000 n=%d", u, []int{-1, 1, 5}[r.Intn(3)])
			case 3:
				l = fmt.Sprintf("DA %d %d %s g=%d", u, r.Intn(4), youN(20), []int{50000, 100500, 21000}[r.Intn(3)])
			case 4:
				l = fmt.Sprintf("VC %d %d 3 %s 0 0 1 g=%d", u, p.nextKey, youN(150), []int{150000, 500000, 999999}[r.Intn(3)])
			case 5:
				l = fmt.Sprintf("VW %d %d u1 0", u, 1+r.Intn(4))
			}
		}
		if l == "" {
			continue
		}
		if l[0] != 'R' && r.Chance(40) {
			l += fmt.Sprintf(" p=%d", []int{0, 1, 2, 7, 33, 250}[r.Intn(6)])
		}
		if strings.Contains(l, " -1 ") {
			continue
		}
		lines = append(lines, l)
	}
	lines = append(lines, p.capPressure(r, w, vals)...)
	// rarely: forged (really signed) double-sign evidence against a validator other than the chain-keeping key 0
	if r.Chance(3) {
		if v, ok := pickVal(func(v valView) bool { return v.key != 0 && v.key != p.capKey }); ok {
			lines = append(lines, fmt.Sprintf("EV %d", v.key))
		}
	}
	_ = common.Address{}
	return lines
}

// capPressure emits the cap-pressure operations of this block (see genProfile.capKey).
func (p *genProfile) capPressure(r *vh.RNG, w *world, vals []valView) []string {
	if p.capKey < 0 {
		return nil
	}
	var pv *valView
	for i := range vals {
		if vals[i].key == p.capKey {
			pv = &vals[i]
		}
	}
	if pv == nil || pv.operator < 0 {
		return nil
	}
	v := pv.v
	cap := new(big.Int).Mul(new(big.Int).SetUint64(w.yp.MaxStakes[params.ValidatorRole(v.Role)]), you)
	room := new(big.Int).Sub(cap, v.Token) // what still fits into the REAL total
	var out []string
	switch {
	case v.AcceptDelegation != params.AcceptDelegation:
		if r.Chance(30) {
			out = append(out, fmt.Sprintf("VU %d %d 65535 65535 1", pv.operator, pv.key))
		}
	case room.Cmp(youN(12000)) > 0:
		// build the delegations up towards the cap ("fits" branches)
		if r.Chance(35) {
			amt := youN(int64(r.Range(4000, 11000)))
			if r.Bool() {
				amt.Add(amt, big.NewInt(int64(r.Intn(1000000))))
			}
			out = append(out, fmt.Sprintf("DA %d %d %s", r.Intn(w.users), pv.key, amt))
		}
	default:
		if !r.Chance(30) {
			return nil
		}
		// near the cap: straddle it. delta > 0 overshoots the real total (must fail at take-effect), delta <= 0 just fits.
		delta := youN(int64(r.Range(-900, 2500)))
		amt := new(big.Int).Add(room, delta)
		if amt.Cmp(youN(10)) < 0 {
			amt = youN(int64(r.Range(10, 400)))
		}
		switch r.Intn(4) {
		case 0, 1:
			// own small withdrawal first: the pending-total record becomes SelfToken - w, the delegations drop out of it
			out = append(out, fmt.Sprintf("VW %d %d u%d %s", pv.operator, pv.key, pv.operator, youN(int64(r.Range(1, 40)))))
			if r.Bool() {
				out = append(out, fmt.Sprintf("VD %d %d %s", pv.operator, pv.key, amt))
			} else {
				out = append(out, fmt.Sprintf("DA %d %d %s", r.Intn(w.users), pv.key, amt))
			}
		case 2:
			// another delegator's sub plus an add of about the same size: fits the pending total; fails when it takes effect first
			if len(v.Delegations) > 0 {
				d := v.Delegations[r.Intn(len(v.Delegations))]
				if du := w.idOf(d.Delegator) - idUser; du >= 0 && du < w.users {
					z := new(big.Int).Div(d.Token, big.NewInt(int64(r.Range(1, 3))))
					if z.Cmp(youN(10)) >= 0 {
						out = append(out, fmt.Sprintf("DS %d %d %s", du, pv.key, z))
						y := new(big.Int).Add(room, new(big.Int).Sub(z, youN(int64(r.Range(0, 300)))))
						if y.Cmp(youN(10)) < 0 {
							y = youN(int64(r.Range(10, 400)))
						}
						out = append(out, fmt.Sprintf("DA %d %d %s", (du+1+r.Intn(w.users-1))%w.users, pv.key, y))
					}
				}
			}
		case 3:
			// no cover: rejected at submit time when it overshoots
			if r.Bool() {
				out = append(out, fmt.Sprintf("VD %d %d %s", pv.operator, pv.key, amt))
			} else {
				out = append(out, fmt.Sprintf("DA %d %d %s", r.Intn(w.users), pv.key, amt))
			}
		}
	}
	return out
}
