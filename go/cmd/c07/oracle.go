package main

// Implementation-level oracle for C07: the property's statement evaluated directly on the real state dump
// (second chain's committed tries) after every block.

import (
	"fmt"
	"math/big"
	"sort"
	"strings"

	"github.com/youchainhq/go-youchain/common"
	"github.com/youchainhq/go-youchain/core/state"
	"github.com/youchainhq/go-youchain/staking"

	"verifharness/cmd/c07/chainkit"
)

// ledger is the canonical, id-indexed view of one block boundary that both the oracle and the model comparison use.
type ledger struct {
	bal      map[int]*big.Int // account balances (non-zero only)
	vals     map[int]*lval    // by main-address id
	pools    [4]*big.Int      // rewardsDistributable of role 1..3 (index 0 unused)
	kindPool [3]*big.Int      // rewardsDistributable of the kind stats (never written by the code; expected 0)
	residue  *big.Int         // global rounding residue (kind "validator")
	residues *big.Int         // sum of all other rewardsResidue fields (expected 0)
	queue    []lwr
	pending  *big.Int // tokens detained by pending create/deposit/delegation-add transactions
	npending int
}

type lval struct {
	id, coinbase, operator             int
	role, status                       int
	token, selfToken, stake, selfStake *big.Int
	rewards, rewardsTotal              *big.Int
	lastSettled                        uint64
	commission, risk, accept           int
	expelled                           bool
	expelExpired, lastActive           uint64
	delegs                             []ldeleg
}
type ldeleg struct {
	id           int
	token, stake *big.Int
}
type lwr struct {
	validator, delegator, recipient int
	final, initial                  *big.Int
	finished                        int
	creation, completion            uint64
}

func (w *world) ledgerOf(d state.Dump, pend []chainkit.PendingRecord) *ledger {
	l := &ledger{bal: map[int]*big.Int{}, vals: map[int]*lval{}, residue: new(big.Int), residues: new(big.Int), pending: new(big.Int)}
	for i := range l.pools {
		l.pools[i] = new(big.Int)
	}
	for i := range l.kindPool {
		l.kindPool[i] = new(big.Int)
	}
	for _, k := range chainkit.SortedAccounts(d) {
		b := bigOf(d.Accounts[k].Balance)
		if b.Sign() != 0 {
			l.bal[w.idOf(common.HexToAddress(k))] = b
		}
	}
	for _, k := range chainkit.SortedValidators(d) {
		v := d.Validators[k]
		lv := &lval{id: w.idOf(v.MainAddress), coinbase: w.idOf(v.Coinbase), operator: w.idOf(v.OperatorAddress), role: int(v.Role), status: int(v.Status),
			token: bigOf(v.Token), selfToken: bigOf(v.SelfToken), stake: bigOf(v.Stake), selfStake: bigOf(v.SelfStake),
			rewards: bigOf(v.RewardsDistributable), rewardsTotal: bigOf(v.RewardsTotal), lastSettled: v.RewardsLastSettled,
			commission: int(v.CommissionRate), risk: int(v.RiskObligation), accept: int(v.AcceptDelegation),
			expelled: v.Expelled, expelExpired: v.ExpelExpired}
		if v.Ext.Version == 1 && len(v.Ext.Data) > 0 {
			lv.lastActive = new(big.Int).SetBytes(v.Ext.Data).Uint64()
		}
		for _, dl := range v.Delegations {
			lv.delegs = append(lv.delegs, ldeleg{w.idOf(dl.Delegator), bigOf(dl.Token), bigOf(dl.Stake)})
		}
		sort.Slice(lv.delegs, func(i, j int) bool { return lv.delegs[i].id < lv.delegs[j].id })
		l.vals[lv.id] = lv
	}
	if d.ValidatorsStat != nil {
		for r, it := range d.ValidatorsStat.Roles {
			if int(r) >= 1 && int(r) <= 3 {
				l.pools[int(r)] = bigOf(it.RewardsDistributable)
			}
			l.residues.Add(l.residues, bigOf(it.RewardsResidue))
		}
		for k, it := range d.ValidatorsStat.Kinds {
			if int(k) >= 0 && int(k) <= 2 {
				l.kindPool[int(k)] = bigOf(it.RewardsDistributable)
			}
			if k == 0 {
				l.residue = bigOf(it.RewardsResidue)
			} else {
				l.residues.Add(l.residues, bigOf(it.RewardsResidue))
			}
		}
	}
	for _, r := range d.ValidatorsWithdraw {
		l.queue = append(l.queue, lwr{w.idOf(r.Validator), w.idOfOrZero(r.Delegator), w.idOf(r.Recipient), bigOf(r.FinalBalance), bigOf(r.InitialBalance), int(r.Finished), r.CreationHeight, r.CompletionHeight})
	}
	for _, p := range pend {
		for _, t := range p.Txs {
			switch t.Action {
			case staking.ValidatorCreate, staking.ValidatorDeposit, staking.DelegationAdd:
				l.pending.Add(l.pending, t.Value)
			}
			l.npending++
		}
	}
	return l
}

func (w *world) idOfOrZero(a common.Address) int {
	if a == (common.Address{}) {
		return 0
	}
	return w.idOf(a)
}

type parts struct{ balances, tokens, queue, valRewards, pools, residue, pending *big.Int }

func (l *ledger) parts() parts {
	p := parts{new(big.Int), new(big.Int), new(big.Int), new(big.Int), new(big.Int), new(big.Int), new(big.Int)}
	for _, b := range l.bal {
		p.balances.Add(p.balances, b)
	}
	for _, v := range l.vals {
		p.tokens.Add(p.tokens, v.token)
		p.valRewards.Add(p.valRewards, v.rewards)
	}
	for _, r := range l.queue {
		if r.finished == 0 {
			p.queue.Add(p.queue, r.final)
		}
	}
	for i := 1; i <= 3; i++ {
		p.pools.Add(p.pools, l.pools[i])
	}
	for i := range l.kindPool {
		p.pools.Add(p.pools, l.kindPool[i])
	}
	p.residue.Add(l.residue, l.residues)
	p.pending.Set(l.pending)
	return p
}

// total = sum of balances + staked tokens + unfinished withdrawals + undistributed rewards (validators, role pools) + residues + pending deposits.
func (p parts) total() *big.Int {
	t := new(big.Int)
	for _, x := range []*big.Int{p.balances, p.tokens, p.queue, p.valRewards, p.pools, p.residue, p.pending} {
		t.Add(t, x)
	}
	return t
}

func (p parts) String() string {
	return fmt.Sprintf("balances=%s tokens=%s queue=%s valRewards=%s pools=%s residue=%s pending=%s total=%s", p.balances, p.tokens, p.queue, p.valRewards, p.pools, p.residue, p.pending, p.total())
}

// canon renders the ledger as the canonical line the Lean driver must reproduce.
func (l *ledger) canon() string {
	var sb strings.Builder
	ids := make([]int, 0, len(l.bal))
	for id := range l.bal {
		ids = append(ids, id)
	}
	sort.Ints(ids)
	sb.WriteString("A")
	for _, id := range ids {
		fmt.Fprintf(&sb, " %d:%s", id, l.bal[id])
	}
	vids := make([]int, 0, len(l.vals))
	for id := range l.vals {
		vids = append(vids, id)
	}
	sort.Ints(vids)
	for _, id := range vids {
		v := l.vals[id]
		ex := 0
		if v.expelled {
			ex = 1
		}
		fmt.Fprintf(&sb, " | V %d cb=%d op=%d r=%d s=%d t=%s st=%s k=%s sk=%s rw=%s ls=%d c=%d ro=%d ad=%d ex=%d ee=%d la=%d d=", v.id, v.coinbase, v.operator, v.role, v.status, v.token, v.selfToken,
			v.stake, v.selfStake, v.rewards, v.lastSettled, v.commission, v.risk, v.accept, ex, v.expelExpired, v.lastActive)
		for i, d := range v.delegs {
			if i > 0 {
				sb.WriteString(",")
			}
			fmt.Fprintf(&sb, "%d:%s:%s", d.id, d.token, d.stake)
		}
	}
	fmt.Fprintf(&sb, " | P %s %s %s res=%s", l.pools[1], l.pools[2], l.pools[3], l.residue)
	sb.WriteString(" | Q")
	for _, r := range l.queue {
		fmt.Fprintf(&sb, " %d/%d/%d/%s/%d/%d", r.validator, r.delegator, r.recipient, r.final, r.finished, r.completion)
	}
	fmt.Fprintf(&sb, " | N %s", l.pending)
	return sb.String()
}
