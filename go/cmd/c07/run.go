package main

import (
	"fmt"
	"math/big"
	"os"

	"verifharness/cmd/c07/chainkit"
	"verifharness/internal/quiet"
	"verifharness/internal/vh"
)

func spikeScenario() []string {
	ls := []string{"W users=8 pool=100000000000000000000000", "GV 0 1 2000000000000000000000 1", "GV 1 2 1000000000000000000000 1", "GV 2 3 500000000000000000000 1"}
	for i := 0; i < 150; i++ {
		ls = append(ls, fmt.Sprintf("B %d", i%3), fmt.Sprintf("T %d u%d 1000000000000000000", i%8, (i+1)%8))
	}
	return ls
}

func run(c *vh.Ctx) error {
	quiet.Silence()
	chainkit.Init()
	rr, err := execScenario(spikeScenario())
	if err != nil {
		return err
	}
	prev := rr.genesis.parts().total()
	fmt.Fprintln(os.Stderr, "genesis", rr.genesis.parts())
	for _, b := range rr.blocks {
		t := b.parts.total()
		if t.Cmp(prev) != 0 {
			fmt.Fprintln(os.Stderr, "block", b.num, "delta", new(big.Int).Sub(t, prev), b.parts)
		}
		prev = t
	}
	fmt.Fprintln(os.Stderr, "stop:", rr.stopErr, len(rr.blocks))
	return nil
}

func replay(c *vh.Ctx, body, comments []string) (bool, string) { return false, "" }
