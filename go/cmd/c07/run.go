package main

// C07 harness: seeded chains on the real code (builder chain + independent importing chain), the conservation oracle on
// the real dumps after every block, block-by-block correspondence with the Lean ledger model, known-finding matchers
// and probes, shrinking, replay.

import (
	"fmt"
	"strings"

	"github.com/youchainhq/go-youchain/staking"

	"verifharness/cmd/c07/chainkit"
	"verifharness/internal/quiet"
	"verifharness/internal/vh"
)

func spikeScenario(blocks int) []string {
	ls := []string{"W users=8 pool=100000000000000000000000 ver=5", "GV 0 1 2000000000000000000000 1", "GV 1 2 1000000000000000000000 1", "GV 2 3 500000000000000000000 1"}
	for i := 0; i < blocks; i++ {
		ls = append(ls, fmt.Sprintf("B %d", i%3), fmt.Sprintf("T %d u%d 1000000000000000000", i%8, (i+1)%8))
	}
	return ls
}

// negativeRecordScenario: validator 1 (house) accepts delegations; user 3 delegates 100; in the next period the operator
// withdraws 195 of the 200 self tokens (re-basing the ({}, validator) record on SelfToken: 5), then - in ONE block - user 3
// subtracts the 100 (pending total 5 - 100 = -95: unencodable) and the operator deposits 10 (its tx hash lives only in that record).
func negativeRecordScenario() []string {
	ls := []string{"W users=8 pool=100000000000000000000000 ver=5", "GV 0 1 2000000000000000000000 1", "GV 1 3 200000000000000000000 1", "B 0", "VU 1 1 0 0 1"}
	for i := 0; i < 15; i++ {
		ls = append(ls, "B 0")
	}
	ls = append(ls, "B 0", "DA 3 1 100000000000000000000")
	for i := 0; i < 15; i++ {
		ls = append(ls, "B 0")
	}
	ls = append(ls, "B 0", "VW 1 1 u5 195000000000000000000", "B 0", "DS 3 1 100000000000000000000", "VD 1 1 10000000000000000000")
	for i := 0; i < 14; i++ {
		ls = append(ls, "B 0")
	}
	return ls
}

func refundScenario() []string {
	return []string{"W users=8 pool=100000000000000000000000 ver=5", "GV 0 1 2000000000000000000000 1", "GV 1 3 500000000000000000000 1",
		"B 0", "K 1 0 00000000000000000000000000000000000000000000000000000000000000ff 0",
		"B 1", "K 2 0 0000000000000000000000000000000000000000000000000000000000000000 0 p=7", "B 0"}
}

var initDone bool

func setup() {
	quiet.Silence()
	if !initDone {
		chainkit.Init()
		initDone = true
	}
}

// evalScenario executes the text and evaluates it. drvPath "" = oracle only.
func evalScenario(lines []string, drvPath string) (*runResult, []finding, error) {
	rr, err := execScenario(lines)
	if err != nil {
		return nil, nil, err
	}
	var drv *vh.Driver
	if drvPath != "" {
		drv, err = vh.StartDriver(drvPath)
		if err != nil {
			return nil, nil, err
		}
		defer drv.Close()
	}
	return rr, checkRun(rr, drv), nil
}

func sameClass(fs []finding, f finding) bool {
	for _, g := range fs {
		if g.kind == f.kind && g.class == f.class && g.matcher == f.matcher {
			return true
		}
	}
	return false
}

// shrinkScenario: cut after the failing block, then ddmin over op/block lines (bounded number of executions).
func shrinkScenario(lines []string, f finding, drvPath string) []string {
	nhead := 0
	for nhead < len(lines) && (strings.HasPrefix(lines[nhead], "W ") || strings.HasPrefix(lines[nhead], "GV ")) {
		nhead++
	}
	head, body := lines[:nhead], lines[nhead:]
	// cut after the failing block (everything later cannot matter)
	if f.block > 0 {
		nb := uint64(0)
		for i, l := range body {
			if strings.HasPrefix(l, "B ") {
				nb++
				if nb > f.block {
					body = body[:i]
					break
				}
			}
		}
	}
	budget := 80
	fails := func(cand []string) bool {
		if budget <= 0 {
			return false
		}
		budget--
		_, fs, err := evalScenario(append(append([]string{}, head...), cand...), drvPath)
		return err == nil && sameClass(fs, f)
	}
	// only tx lines are candidates for removal (removing B lines would shift block numbers and period ends)
	var txIdx []string
	for i, l := range body {
		if !strings.HasPrefix(l, "B ") {
			txIdx = append(txIdx, fmt.Sprint(i))
		}
	}
	keep := vh.Shrink(txIdx, func(sel []string) bool {
		in := map[string]bool{}
		for _, s := range sel {
			in[s] = true
		}
		var cand []string
		for i, l := range body {
			if strings.HasPrefix(l, "B ") || in[fmt.Sprint(i)] {
				cand = append(cand, l)
			}
		}
		return fails(cand)
	})
	in := map[string]bool{}
	for _, s := range keep {
		in[s] = true
	}
	var min []string
	for i, l := range body {
		if strings.HasPrefix(l, "B ") || in[fmt.Sprint(i)] {
			min = append(min, l)
		}
	}
	// an empty selection is never tried by vh.Shrink; try it
	if len(keep) == 1 {
		var onlyB []string
		for _, l := range body {
			if strings.HasPrefix(l, "B ") {
				onlyB = append(onlyB, l)
			}
		}
		if fails(onlyB) {
			min = onlyB
		}
	}
	return append(append([]string{}, head...), min...)
}

func report(c *vh.Ctx, name string, lines []string, fs []finding, seenKnown map[string]bool, shrink bool) {
	res := c.Res
	done := map[string]bool{}
	for _, f := range fs {
		key := f.kind + "/" + f.class + "/" + f.matcher
		if done[key] {
			continue
		}
		done[key] = true
		if f.matcher != "" {
			// a known finding: one replay per matcher per run is enough
			if seenKnown[f.matcher+"/"+f.class] {
				continue
			}
			seenKnown[f.matcher+"/"+f.class] = true
		}
		min := lines
		if shrink && len(res.Failures) < 6 {
			min = shrinkScenario(lines, f, c.Driver)
		}
		rp := vh.WriteReplay(c.ReplayDir, "C07", fmt.Sprintf("%s-%s-%s", name, f.class, orNone(f.matcher)), c.Seed,
			[]string{f.kind + ": " + f.class, "matcher: " + orNone(f.matcher), strings.ReplaceAll(f.what, "\n", " ")}, min)
		res.Fail(f.kind, f.matcher, f.what, rp)
	}
}

func orNone(s string) string {
	if s == "" {
		return "none"
	}
	return s
}

func run(c *vh.Ctx) error {
	setup()
	res := c.Res
	res.Rule = "case = one generated chain (world + block/tx operation text) executed on the real code; non-trivial when it crosses >= 1 staking period end, >= 1 staking transaction takes effect and >= 1 offered transaction fails or is refused; distinct by scenario text"
	seenKnown := map[string]bool{}
	// ---- corpus first -------------------------------------------------------------------------
	for _, f := range vh.CorpusFiles("C07") {
		body, _, e := vh.ReadReplay(f)
		if e != nil {
			continue
		}
		res.Dist("corpus")
		_, fs, err := evalScenario(body, c.Driver)
		if err != nil {
			res.Fail("corpus", "", "corpus file "+f+" cannot be executed: "+err.Error(), f)
			continue
		}
		for _, fd := range fs {
			if fd.matcher == "" {
				res.Fail("corpus", "", "corpus witness fails: "+f+": "+fd.what, f)
				break
			}
		}
	}
	// ---- known-finding probes -------------------------------------------------------------------
	probe := func(id, matcher string, lines []string) {
		_, fs, err := evalScenario(lines, c.Driver)
		rep, what := false, "not reproduced"
		if err != nil {
			what = "probe could not run: " + err.Error()
		}
		for _, f := range fs {
			if f.matcher == matcher && f.class == "conservation" {
				rep, what = true, f.what
			}
		}
		for _, f := range fs {
			if f.matcher == "" {
				res.Fail(f.kind, "", "probe "+id+": "+f.what, vh.WriteReplay(c.ReplayDir, "C07", "probe-"+id+"-"+f.class, c.Seed, []string{f.what}, lines))
			}
		}
		if len(what) > 300 {
			what = what[:300]
		}
		res.Probes = append(res.Probes, vh.Probe{ID: id, Reproduced: rep, What: what})
	}
	probe("F-C07a", mForced, spikeScenario(144))
	probe("F-C07c", mRefund, refundScenario())
	{
		// F-C07e needs the chain to go on after the builder's StateDB recorded an error; the model does not describe that
		// situation, so this probe is oracle-only
		rr, err := execScenarioOpt(negativeRecordScenario(), true)
		rep, what := false, "not reproduced"
		if err != nil {
			what = "probe could not run: " + err.Error()
		} else {
			for _, f := range checkRun(rr, nil) {
				if f.matcher == mNegRec {
					rep, what = true, f.what
				} else if f.matcher == "" {
					res.Fail(f.kind, "", "probe F-C07e: "+f.what, vh.WriteReplay(c.ReplayDir, "C07", "probe-F-C07e-"+f.class, c.Seed, []string{f.what, "run with the chain continuing after a builder state error"}, negativeRecordScenario()))
				}
			}
		}
		if len(what) > 300 {
			what = what[:300]
		}
		res.Probes = append(res.Probes, vh.Probe{ID: "F-C07e", Reproduced: rep, What: what})
	}
	// ---- generated chains -----------------------------------------------------------------------
	nChains := c.N(45, 450)
	if c.Search {
		nChains *= 2
	}
	var drv *vh.Driver
	if c.Driver != "" {
		var err error
		drv, err = vh.StartDriver(c.Driver)
		if err != nil {
			return err
		}
		defer drv.Close()
	}
	for ci := 0; ci < nChains; ci++ {
		r := c.R.Fork()
		header, prof := genWorld(r)
		prof.blocks = r.Range(40, c.N(190, 300))
		s, _, err := newSession(header)
		if err != nil {
			return err
		}
		lines := append([]string{}, header...)
		for bi := 0; bi < prof.blocks && s.rr.stopErr == ""; bi++ {
			st, _, err := s.w.kit.A.NextState()
			if err != nil {
				s.close()
				return err
			}
			bl := prof.genBlock(r, s.w, st, res)
			lines = append(lines, bl...)
			if err := s.runBlock(bl); err != nil {
				s.close()
				return fmt.Errorf("chain %d: %v", ci, err)
			}
		}
		rr := s.rr
		s.close()
		fs := checkRun(rr, drv)
		// bookkeeping
		periodEnds, effective, failed, skipped, included := 0, 0, 0, 0, 0
		for _, b := range rr.blocks {
			if b.periodEnd {
				periodEnds++
			}
			for _, r := range b.effective {
				effective += len(r.Txs)
			}
			res.DistN("double-sign-evidence-accepted", len(b.evidence))
			for k, n := range b.teFailed {
				res.DistN(k, n)
			}
			for _, r := range b.effective {
				for _, t := range r.Txs {
					switch t.Action {
					case staking.ValidatorDeposit:
						res.Dist("te-deposit-reached")
					case staking.DelegationAdd:
						res.Dist("te-delegation-add-reached")
					}
				}
			}
			for _, t := range b.txs {
				res.Dist("op-" + t.o.kind)
				switch {
				case !t.included:
					skipped++
					res.Dist("tx-refused")
				case t.failed:
					failed++
					res.Dist("tx-failed-" + t.o.kind)
				default:
					included++
					res.Dist("tx-ok-" + t.o.kind)
				}
			}
			if drv != nil && b.led != nil {
				res.TracesVsImpl++
			}
		}
		res.DistN("blocks", len(rr.blocks))
		res.DistN("period-ends", periodEnds)
		res.DistN("staking-tx-took-effect", effective)
		if rr.stopErr != "" {
			res.Dist("chain-stopped-early")
		}
		if rr.unbuildable {
			res.Dist("chain-stopped-builder-state-error")
			if _, ok := res.Extra["builder_state_error_replay"]; !ok {
				res.Extra["builder_state_error_replay"] = vh.WriteReplay(c.ReplayDir, "C07", "note-builder-state-error", c.Seed,
					[]string{"NOT a C07 failure. " + rr.stopErr, "the builder's block carries a staking root that depends on Go map iteration order (updateStakingTrie aborts on a negative FinalValue); for C06"}, lines)
				res.Extra["builder_state_error"] = rr.stopErr
			}
		}
		res.DistN("out-of-domain-no-online-validator-at-period-end", rr.outOfDomain)
		res.Count(strings.Join(lines, "\n"), periodEnds >= 1 && effective >= 1 && failed+skipped >= 1)
		if ci < 2 {
			n := len(lines)
			if n > 40 {
				n = 40
			}
			res.Sample(map[string]interface{}{"scenario_head": lines[:n], "blocks": len(rr.blocks), "period_ends": periodEnds, "took_effect": effective, "failed": failed, "refused": skipped})
		}
		report(c, fmt.Sprintf("chain%d", ci), lines, fs, seenKnown, true)
	}
	res.Partial = append(res.Partial,
		"EVM contract execution is an opaque, observed step in the model (status, gas, refund, burn are taken from the real run); its internal conservation is C16's",
		"pre-V5 branches (rewardsToPool/teDelegationSub/refund gates) and evidence-based (double-sign) slashing are not in the Lean model; the oracle on real dumps still covers whatever the generator reaches",
		"gas metering itself (intrinsic gas of the payload bytes) is an input of the model, not computed by it")
	return nil
}

func replay(c *vh.Ctx, body, comments []string) (bool, string) {
	setup()
	rr, fs, err := evalScenario(body, c.Driver)
	if err != nil {
		return false, "scenario cannot be executed: " + err.Error()
	}
	if len(fs) == 0 {
		judged := 0
		for _, b := range rr.blocks {
			if b.led != nil {
				judged++
			}
		}
		msg := fmt.Sprintf("no failure: total is constant at all %d block boundaries and the model agrees", judged)
		if rr.stopErr != "" {
			msg += "; chain stopped: " + rr.stopErr
		}
		return false, msg
	}
	var msgs []string
	for _, f := range fs {
		msgs = append(msgs, fmt.Sprintf("[%s/%s matcher=%s] %s", f.kind, f.class, orNone(f.matcher), f.what))
	}
	return true, strings.Join(msgs, "\n")
}
