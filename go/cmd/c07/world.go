package main

// The "world" of a C07 scenario: deterministic keys, genesis allocation, genesis validators, three tiny contracts,
// and the textual operation language that scenarios, replay files and the shrinker work on.
//
// Scenario text (one item per line):
//
//	W users=<n> pool=<LU> [ver=<n>]                       world header (must be first)
//	GV <valKey> <role> <tokenLU> <status>                 genesis validator (operator = user <valKey>, coinbase = c<valKey>)
//	B <valKey>                                            start a block proposed by validator <valKey> (header.Coinbase)
//	T  <u> <addrId> <valueLU>            [mods]           plain transfer
//	K  <u> <contract 0..2> <dataHex|-> <valueLU> [mods]   contract call
//	VC <u> <valKey> <role> <valueLU> <commission> <risk> <accept> [mods]   create validator (operator = sender, coinbase = c<valKey>)
//	VU <u> <valKey> <commission> <risk> <accept> [mods]   update (65535 = keep)
//	VD <u> <valKey> <valueLU> [mods]                      deposit
//	VW <u> <valKey> <addrId> <valueLU> [mods]             withdraw to recipient
//	VS <u> <valKey> <status> [mods]                       change status
//	VT <u> <valKey> [mods]                                settle
//	DA <u> <valKey> <valueLU> [mods]   DS ... / DT <u> <valKey> [mods]      delegation add / sub / settle
//	RAW <u> <dataHex> [mods]                              staking-module tx with arbitrary payload bytes
//	EV <valKey>                                           forged (really signed) double-sign evidence against validator <valKey> in this block
//	mods: p=<gasPrice GLu> g=<gasLimit> n=<nonce offset, may be negative> v=<tx value LU>
//
// Address ids: u<i> user, c<i> coinbase of validator key i, m<i> main address of validator key i, k<i> contract,
// x<i> fresh address, pool, pen (rewards pool / penalty account), sm (staking module address).

import (
	"crypto/ecdsa"
	"encoding/hex"
	"fmt"
	"math/big"
	"strconv"
	"strings"

	"github.com/youchainhq/go-youchain/common"
	"github.com/youchainhq/go-youchain/core/types"
	"github.com/youchainhq/go-youchain/params"
	"github.com/youchainhq/go-youchain/rlp"
	"github.com/youchainhq/go-youchain/staking"

	"verifharness/cmd/c07/chainkit"
)

var (
	you    = new(big.Int).SetUint64(params.YOU)
	glu    = big.NewInt(params.GLu)
	maxU16 = uint16(65535)
)

func bigOf(s string) *big.Int {
	v, ok := new(big.Int).SetString(s, 10)
	if !ok {
		return new(big.Int)
	}
	return v
}

// valOf parses a payload amount; negative amounts cannot be RLP-encoded and are clamped to 0 (PreCheck then refuses them).
func valOf(s string) *big.Int {
	v := bigOf(s)
	if v.Sign() < 0 {
		return new(big.Int)
	}
	return v
}

func youN(n int64) *big.Int { return new(big.Int).Mul(big.NewInt(n), you) }

// contracts (pre-allocated code):
//
//	k0: PUSH1 0 CALLDATALOAD PUSH1 0 SSTORE STOP     stores calldata word 0 at slot 0 (clearing it earns a gas refund)
//	k1: STOP                                          payable sink
//	k2: PUSH1 0 CALLDATALOAD SELFDESTRUCT             self-destructs to the address in calldata word 0 (itself => burn)
//	k3: PUSH1 0 PUSH1 0 REVERT                        always reverts
var contractCode = [][]byte{
	{0x60, 0x00, 0x35, 0x60, 0x00, 0x55, 0x00},
	{0x00},
	{0x60, 0x00, 0x35, 0xff},
	{0x60, 0x00, 0x60, 0x00, 0xfd},
}

func contractAddr(i int) common.Address {
	return common.BytesToAddress([]byte{0xc0, 0xde, 0x00, byte(i + 1)})
}

type genVal struct {
	key    int
	role   int
	token  *big.Int
	status int
}

type world struct {
	users   int
	pool    *big.Int
	ver     int
	gvals   []genVal
	kit     *chainkit.Kit
	ids     map[common.Address]int // address -> model id
	names   map[int]string
	nextID  int
	yp      *params.YouParams
	userKey []*ecdsa.PrivateKey
}

// fixed model ids: 1 pool, 2 penalty, 3 staking module, 10+i users, 100+i coinbases, 200+i validator main addresses,
// 300+i contracts, 400+i fresh, 1000+ anything else seen in a dump.
const (
	idPool, idPen, idSM                       = 1, 2, 3
	idUser, idCb, idMain, idContract, idFresh = 10, 100, 200, 300, 400
	maxValKeys                                = 40
)

func (w *world) addrOf(id string) (common.Address, error) {
	switch id {
	case "pool":
		return w.yp.RewardsPoolAddress, nil
	case "pen":
		return w.yp.PenaltyTo, nil
	case "sm":
		return params.StakingModuleAddress, nil
	}
	if len(id) < 2 {
		return common.Address{}, fmt.Errorf("bad address id %q", id)
	}
	n, err := strconv.Atoi(id[1:])
	if err != nil || n < 0 || n > 99 {
		return common.Address{}, fmt.Errorf("bad address id %q", id)
	}
	switch id[0] {
	case 'u':
		return chainkit.Addr(chainkit.Key("user", n)), nil
	case 'c':
		return chainkit.Addr(chainkit.Key("cb", n)), nil
	case 'm':
		return chainkit.Addr(chainkit.Key("val", n)), nil
	case 'k':
		return contractAddr(n), nil
	case 'x':
		return chainkit.Addr(chainkit.Key("fresh", n)), nil
	}
	return common.Address{}, fmt.Errorf("bad address id %q", id)
}

func (w *world) mainAddr(vk int) common.Address { return chainkit.Addr(chainkit.Key("val", vk)) }

func (w *world) registerIDs() {
	w.ids = map[common.Address]int{}
	w.names = map[int]string{}
	reg := func(a common.Address, id int, name string) { w.ids[a] = id; w.names[id] = name }
	reg(w.yp.RewardsPoolAddress, idPool, "pool")
	reg(w.yp.PenaltyTo, idPen, "pen")
	reg(params.StakingModuleAddress, idSM, "sm")
	for i := 0; i < 40; i++ {
		reg(chainkit.Addr(chainkit.Key("user", i)), idUser+i, fmt.Sprintf("u%d", i))
		reg(chainkit.Addr(chainkit.Key("fresh", i)), idFresh+i, fmt.Sprintf("x%d", i))
	}
	for i := 0; i < maxValKeys; i++ {
		reg(chainkit.Addr(chainkit.Key("cb", i)), idCb+i, fmt.Sprintf("c%d", i))
		reg(chainkit.Addr(chainkit.Key("val", i)), idMain+i, fmt.Sprintf("m%d", i))
	}
	for i := range contractCode {
		reg(contractAddr(i), idContract+i, fmt.Sprintf("k%d", i))
	}
	w.nextID = 1000
}

func (w *world) idOf(a common.Address) int {
	if id, ok := w.ids[a]; ok {
		return id
	}
	id := w.nextID
	w.nextID++
	w.ids[a] = id
	w.names[id] = a.String()
	return id
}

func parseWorld(lines []string) (*world, []string, error) {
	if len(lines) == 0 || !strings.HasPrefix(lines[0], "W ") {
		return nil, nil, fmt.Errorf("scenario must start with a W line")
	}
	w := &world{users: 8, pool: youN(100000), ver: int(params.YouV5)}
	for _, f := range strings.Fields(lines[0])[1:] {
		kv := strings.SplitN(f, "=", 2)
		if len(kv) != 2 {
			continue
		}
		switch kv[0] {
		case "users":
			w.users, _ = strconv.Atoi(kv[1])
		case "pool":
			w.pool = bigOf(kv[1])
		case "ver":
			w.ver, _ = strconv.Atoi(kv[1])
		}
	}
	if w.users < 1 || w.users > 40 {
		return nil, nil, fmt.Errorf("users out of range")
	}
	rest := lines[1:]
	for len(rest) > 0 && strings.HasPrefix(rest[0], "GV ") {
		f := strings.Fields(rest[0])
		if len(f) != 5 {
			return nil, nil, fmt.Errorf("bad GV line %q", rest[0])
		}
		k, _ := strconv.Atoi(f[1])
		r, _ := strconv.Atoi(f[2])
		s, _ := strconv.Atoi(f[4])
		if k < 0 || k >= maxValKeys || r < 1 || r > 3 {
			return nil, nil, fmt.Errorf("bad GV line %q", rest[0])
		}
		w.gvals = append(w.gvals, genVal{k, r, bigOf(f[3]), s})
		rest = rest[1:]
	}
	if len(w.gvals) == 0 {
		return nil, nil, fmt.Errorf("no genesis validator")
	}
	return w, rest, nil
}

func (w *world) start() error {
	v := params.Versions[params.YouVersion(w.ver)]
	w.yp = &v
	w.registerIDs()
	cfg := chainkit.Config{Alloc: map[common.Address]*big.Int{}, Code: map[common.Address][]byte{}, Version: params.YouVersion(w.ver)}
	for i := 0; i < w.users; i++ {
		k := chainkit.Key("user", i)
		w.userKey = append(w.userKey, k)
		cfg.Alloc[chainkit.Addr(k)] = youN(3000000)
	}
	if w.pool.Sign() > 0 {
		cfg.Alloc[w.yp.RewardsPoolAddress] = w.pool
	}
	for i, c := range contractCode {
		cfg.Code[contractAddr(i)] = c
	}
	cfg.Alloc[contractAddr(2)] = big.NewInt(12345) // the self-destruct contract holds a little value
	for _, g := range w.gvals {
		cfg.Vals = append(cfg.Vals, chainkit.ValSpec{Main: chainkit.Key("val", g.key), Bls: blsPub(g.key),
			Operator: chainkit.Addr(chainkit.Key("user", g.key%w.users)), Coinbase: chainkit.Addr(chainkit.Key("cb", g.key)),
			Role: params.ValidatorRole(g.role), Token: g.token, Status: uint8(g.status)})
	}
	k, err := chainkit.New(cfg)
	if err != nil {
		return err
	}
	w.kit = k
	return nil
}

func (w *world) stop() {
	if w.kit != nil {
		w.kit.Stop()
	}
}

// ---- operations ----------------------------------------------------------------------------------

type op struct {
	kind string
	f    []string // positional fields after the kind
	mods map[string]string
	line string
}

func parseOp(line string) (op, error) {
	fs := strings.Fields(line)
	if len(fs) == 0 {
		return op{}, fmt.Errorf("empty op")
	}
	o := op{kind: fs[0], mods: map[string]string{}, line: line}
	for _, x := range fs[1:] {
		if i := strings.IndexByte(x, '='); i > 0 && len(x) > 2 && (x[0] == 'p' || x[0] == 'g' || x[0] == 'n' || x[0] == 'v') && i == 1 {
			o.mods[x[:1]] = x[2:]
		} else {
			o.f = append(o.f, x)
		}
	}
	need := map[string]int{"EV": 1, "B": 1, "T": 3, "K": 4, "VC": 7, "VU": 5, "VD": 3, "VW": 4, "VS": 3, "VT": 2, "DA": 3, "DS": 3, "DT": 2, "RAW": 2}
	n, ok := need[o.kind]
	if !ok || len(o.f) != n {
		return o, fmt.Errorf("bad op %q", line)
	}
	return o, nil
}

func (o op) user() int { n, _ := strconv.Atoi(o.f[0]); return n }
func (o op) valKey() int {
	n, _ := strconv.Atoi(o.f[1])
	if n < 0 || n >= maxValKeys {
		return 0
	}
	return n
}

func encStaking(action staking.ActionType, payload interface{}) []byte {
	bs, err := rlp.EncodeToBytes(payload)
	if err != nil {
		panic(err)
	}
	out, err := rlp.EncodeToBytes(&staking.Message{Action: action, Payload: bs})
	if err != nil {
		panic(err)
	}
	return out
}

type builtTx struct {
	tx       *types.Transaction
	from     common.Address
	gasLimit uint64
	gasPrice *big.Int
}

// makeTx turns an op into a signed transaction, using the sender's current nonce in `nonces` (+ offset).
func (w *world) makeTx(o op, nonces map[common.Address]uint64) (*builtTx, error) {
	u := o.user()
	if u < 0 || u >= w.users {
		return nil, fmt.Errorf("no such user in %q", o.line)
	}
	key := w.userKey[u]
	from := chainkit.Addr(key)
	price := new(big.Int).Set(glu)
	if p, ok := o.mods["p"]; ok {
		price = new(big.Int).Mul(bigOf(p), glu)
	}
	nonce := nonces[from]
	if n, ok := o.mods["n"]; ok {
		d, _ := strconv.Atoi(n)
		nonce = uint64(int64(nonce) + int64(d))
	}
	value := new(big.Int)
	if v, ok := o.mods["v"]; ok {
		value = valOf(v)
	}
	var to common.Address
	var data []byte
	gas := uint64(1200000)
	sm := params.StakingModuleAddress
	mainOf := func() common.Address { return chainkit.Addr(chainkit.Key("val", o.valKey())) }
	u16 := func(s string) uint16 { n, _ := strconv.Atoi(s); return uint16(n) }
	switch o.kind {
	case "T":
		a, err := w.addrOf(o.f[1])
		if err != nil {
			return nil, err
		}
		to, value, gas = a, valOf(o.f[2]), 21000
	case "K":
		c, _ := strconv.Atoi(o.f[1])
		if c < 0 || c >= len(contractCode) {
			return nil, fmt.Errorf("no such contract in %q", o.line)
		}
		to = contractAddr(c)
		if o.f[2] != "-" {
			d, err := hex.DecodeString(o.f[2])
			if err != nil {
				return nil, err
			}
			data = d
		}
		value, gas = valOf(o.f[3]), 100000
	case "VC":
		vk := chainkit.Key("val", o.valKey())
		role, _ := strconv.Atoi(o.f[2])
		t := &staking.TxCreateValidator{Name: "v", OperatorAddress: from, Coinbase: chainkit.Addr(chainkit.Key("cb", o.valKey())),
			MainPubKey: (chainkit.ValSpec{Main: vk}).MainPub(), BlsPubKey: blsPub(o.valKey()), Value: valOf(o.f[3]), Nonce: nonce,
			CommissionRate: u16(o.f[4]), RiskObligation: u16(o.f[5]), AcceptDelegation: u16(o.f[6]), Role: params.ValidatorRole(role)}
		to, data = sm, encStaking(staking.ValidatorCreate, t)
	case "VU":
		t := &staking.TxUpdateValidator{Nonce: nonce, MainAddress: mainOf(), CommissionRate: u16(o.f[2]), RiskObligation: u16(o.f[3]), AcceptDelegation: u16(o.f[4])}
		to, data = sm, encStaking(staking.ValidatorUpdate, t)
	case "VD":
		t := &staking.TxValidatorDeposit{MainAddress: mainOf(), Value: valOf(o.f[2]), Nonce: nonce}
		to, data = sm, encStaking(staking.ValidatorDeposit, t)
	case "VW":
		r, err := w.addrOf(o.f[2])
		if err != nil {
			return nil, err
		}
		t := &staking.TxValidatorWithdraw{MainAddress: mainOf(), Recipient: r, Value: valOf(o.f[3]), Nonce: nonce}
		to, data = sm, encStaking(staking.ValidatorWithDraw, t)
	case "VS":
		s, _ := strconv.Atoi(o.f[2])
		t := &staking.TxValidatorChangeStatus{MainAddress: mainOf(), Status: uint8(s), Nonce: nonce}
		to, data = sm, encStaking(staking.ValidatorChangeStatus, t)
	case "VT":
		to, data = sm, encStaking(staking.ValidatorSettle, &staking.TxValidatorSettle{MainAddress: mainOf()})
	case "DA":
		to, data = sm, encStaking(staking.DelegationAdd, &staking.TxDelegation{Validator: mainOf(), Value: valOf(o.f[2])})
	case "DS":
		to, data = sm, encStaking(staking.DelegationSub, &staking.TxDelegation{Validator: mainOf(), Value: valOf(o.f[2])})
	case "DT":
		to, data = sm, encStaking(staking.DelegationSettle, &staking.TxDelegationSettle{Validator: mainOf()})
	case "RAW":
		d, err := hex.DecodeString(o.f[1])
		if err != nil {
			return nil, err
		}
		to, data = sm, d
	default:
		return nil, fmt.Errorf("not a tx op: %q", o.line)
	}
	if g, ok := o.mods["g"]; ok {
		gas, _ = strconv.ParseUint(g, 10, 64)
	}
	tx, err := types.SignTx(types.NewTransaction(nonce, to, value, gas, price, data), w.kit.Signer, key)
	if err != nil {
		return nil, err
	}
	return &builtTx{tx: tx, from: from, gasLimit: gas, gasPrice: price}, nil
}
