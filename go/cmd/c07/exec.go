package main

// Runs a scenario on the real code (two chains) and records, per block, what is needed by the oracle and by the model.

import (
	"bytes"
	"fmt"
	"math/big"
	"strings"

	"github.com/youchainhq/go-youchain/common"
	"github.com/youchainhq/go-youchain/core/types"
	"github.com/youchainhq/go-youchain/params"
	"github.com/youchainhq/go-youchain/staking"

	"verifharness/cmd/c07/chainkit"
)

type txRec struct {
	o         op
	from      int
	included  bool
	err       string
	failed    bool
	gasUsed   uint64 // receipt gas (what GasRewards is credited with)
	gasLimit  uint64
	gasPrice  *big.Int
	intrinsic uint64
	value     *big.Int
	to        common.Address
	hash      common.Hash
	charged   *big.Int // observed on the real state: sender's balance decrease not explained by value (fee actually paid)
	burnt     *big.Int
}

type blockRec struct {
	num        uint64
	cbKey      int
	txs        []txRec
	led        *ledger
	parts      parts
	burnt      *big.Int
	gasRewards *big.Int
	subsidy    *big.Int
	effective  []chainkit.PendingRecord // records that took effect in this block (period end), in trie order
	periodEnd  bool
	lines      []string // the scenario lines of this block (B line first)
}

type runResult struct {
	w       *world
	genesis *ledger
	blocks  []blockRec
	stopErr string // the scenario could not be continued (real code panicked / rejected its own block)
	crash   bool
}

// splitBlocks groups op lines into blocks; ops before the first B line are dropped.
func splitBlocks(lines []string) [][]string {
	var out [][]string
	for _, l := range lines {
		if strings.HasPrefix(l, "B ") {
			out = append(out, []string{l})
		} else if len(out) > 0 {
			out[len(out)-1] = append(out[len(out)-1], l)
		}
	}
	return out
}

func execScenario(lines []string) (*runResult, error) {
	w, rest, err := parseWorld(lines)
	if err != nil {
		return nil, err
	}
	if err := w.start(); err != nil {
		return nil, err
	}
	defer w.stop()
	rr := &runResult{w: w}
	d0, err := w.kit.B.Dump()
	if err != nil {
		return nil, err
	}
	rr.genesis = w.ledgerOf(d0, nil)
	k2 := contractAddr(2)
	for _, bl := range splitBlocks(rest) {
		bo, err := parseOp(bl[0])
		if err != nil {
			return nil, err
		}
		cbKey := bo.user()
		if cbKey < 0 || cbKey >= maxValKeys {
			return nil, fmt.Errorf("bad proposer in %q", bl[0])
		}
		coinbase := chainkit.Addr(chainkit.Key("val", cbKey))
		pre, _, err := w.kit.A.NextState()
		if err != nil {
			return nil, err
		}
		if pre.GetValidatorByMainAddr(coinbase) == nil {
			// rewardsToPool calls logging.Crit (os.Exit) when the proposer is not a validator: such a header cannot come out of
			// consensus; the scenario is ill-formed here, skip the block.
			continue
		}
		work, err := w.kit.Begin(coinbase)
		if err != nil {
			return nil, err
		}
		br := blockRec{num: work.Header.Number.Uint64(), cbKey: cbKey, burnt: new(big.Int), lines: bl}
		k2alive := len(work.State.GetCode(k2)) > 0
		for _, l := range bl[1:] {
			o, err := parseOp(l)
			if err != nil {
				return nil, err
			}
			nonces := map[common.Address]uint64{}
			if u := o.user(); u >= 0 && u < w.users {
				a := chainkit.Addr(w.userKey[u])
				nonces[a] = work.State.GetNonce(a)
			}
			bt, err := w.makeTx(o, nonces)
			if err != nil {
				return nil, err
			}
			tr := txRec{o: o, from: w.idOf(bt.from), gasLimit: bt.gasLimit, gasPrice: bt.gasPrice, value: bt.tx.Value(), to: *bt.tx.To(), hash: bt.tx.Hash(), burnt: new(big.Int), charged: new(big.Int)}
			if *bt.tx.To() == params.StakingModuleAddress {
				tr.intrinsic, _ = (&staking.TxConverter{}).IntrinsicGas(bt.tx.Data(), bt.tx.To())
			} else {
				tr.intrinsic = 21000
				for _, b := range bt.tx.Data() {
					if b == 0 {
						tr.intrinsic += params.TxDataZeroGas
					} else {
						tr.intrinsic += params.TxDataNonZeroGas
					}
				}
			}
			balBefore := work.State.GetBalance(bt.from)
			k2bal := work.State.GetBalance(k2)
			out := work.Apply(bt.tx)
			tr.included, tr.err = out.Included, out.Err
			if strings.HasPrefix(out.Err, "panic:") {
				rr.stopErr, rr.crash = fmt.Sprintf("block %d: ApplyTransaction panicked on %q: %s", br.num, l, out.Err), true
			}
			if out.Included {
				tr.failed = out.Receipt.Status == types.ReceiptStatusFailed
				tr.gasUsed = out.Receipt.GasUsed
				balAfter := work.State.GetBalance(bt.from)
				tr.charged = new(big.Int).Sub(balBefore, balAfter)
				moved := !tr.failed && tr.to != params.StakingModuleAddress && tr.to != bt.from
				if moved {
					tr.charged.Sub(tr.charged, tr.value)
				}
				// self-destruct contract k2: value sent to it and its own balance are burnt when it names itself as beneficiary
				if tr.to == k2 && !tr.failed && k2alive {
					data := bt.tx.Data()
					word := make([]byte, 32)
					copy(word, data)
					benef := common.BytesToAddress(word[12:])
					if benef == k2 {
						tr.burnt = new(big.Int).Add(k2bal, tr.value)
						br.burnt.Add(br.burnt, tr.burnt)
					} else if benef == bt.from {
						tr.charged.Sub(tr.charged, new(big.Int).Neg(new(big.Int).Add(k2bal, tr.value)))
					}
					k2alive = false
				}
			}
			br.txs = append(br.txs, tr)
			if rr.crash {
				break
			}
		}
		if rr.crash {
			rr.blocks = append(rr.blocks, br)
			return rr, nil
		}
		built, err := work.Finish(nil)
		if err != nil {
			return nil, err
		}
		if built.Panic != "" {
			rr.stopErr, rr.crash = fmt.Sprintf("block %d: EndBlock panicked: %s", br.num, built.Panic), true
			rr.blocks = append(rr.blocks, br)
			return rr, nil
		}
		if err := w.kit.Import(built.Block); err != nil {
			rr.stopErr = err.Error()
			rr.blocks = append(rr.blocks, br)
			return rr, nil
		}
		h := built.Block.Header()
		br.gasRewards, br.subsidy = new(big.Int).Set(h.GasRewards), new(big.Int).Set(h.Subsidy)
		br.periodEnd = (br.num+1)%w.yp.StakingTrieFrequency == 0
		if br.periodEnd {
			br.effective, err = w.kit.B.RecordsAt(h)
			if err != nil {
				return nil, err
			}
		}
		d, err := w.kit.B.Dump()
		if err != nil {
			return nil, err
		}
		if !bytes.Equal(common.FromHex(d.Root), h.Root[:]) {
			return nil, fmt.Errorf("dump root differs from header root at block %d", br.num)
		}
		pend, err := w.kit.B.Pending()
		if err != nil {
			return nil, err
		}
		br.led = w.ledgerOf(d, pend)
		br.parts = br.led.parts()
		rr.blocks = append(rr.blocks, br)
	}
	return rr, nil
}
