package main

// Runs a scenario on the real code (two chains) and records, per block, what is needed by the oracle and by the model.

import (
	"bytes"
	"fmt"
	"math/big"
	"strings"

	"github.com/youchainhq/go-youchain/common"
	"github.com/youchainhq/go-youchain/core/types"
	"github.com/youchainhq/go-youchain/params"
	"github.com/youchainhq/go-youchain/rlp"
	"github.com/youchainhq/go-youchain/staking"

	"verifharness/cmd/c07/chainkit"
)

type txRec struct {
	o         op
	from      int
	included  bool
	err       string
	failed    bool
	gasUsed   uint64 // receipt gas (what GasRewards is credited with)
	gasLimit  uint64
	gasPrice  *big.Int
	intrinsic uint64
	value     *big.Int
	to        common.Address
	hash      common.Hash
	charged   *big.Int // observed on the real state: sender's balance decrease not explained by value (fee actually paid)
	burnt     *big.Int
	hasCode   bool        // the callee had code when the tx ran (EVM call)
	expRefund uint64      // refund counter the EVM is expected to have granted (15000 SSTORE clear, 24000 self-destruct), 0 otherwise
	moves     [][3]string // extra observed moves of an EVM call: from-id, to-id, amount
	decodeOK  bool
	nonceUsed uint64
}

type blockRec struct {
	num        uint64
	cbKey      int
	txs        []txRec
	led        *ledger
	parts      parts
	burnt      *big.Int
	gasRewards *big.Int
	subsidy    *big.Int
	gasLimit   uint64
	evidence   []int                    // main-address ids of validators against whom forged evidence was put into this block's SlashData, in order
	teFailed   map[string]int           // failed activations seen in the end-block receipt (deposit / delegation over the cap, delegation refused, ...)
	stateErr   string                   // error recorded by the builder's StateDB in this block ("" normally)
	dropped    *big.Int                 // value detained by successful create/deposit/delegation-add txs of this block whose hash is in no persisted pending record
	effective  []chainkit.PendingRecord // records that took effect in this block (period end), in trie order
	periodEnd  bool
	lines      []string // the scenario lines of this block (B line first)
}

type runResult struct {
	w           *world
	genesis     *ledger
	blocks      []blockRec
	stopErr     string // the scenario could not be continued (real code panicked / rejected its own block)
	crash       bool
	outOfDomain int
	unbuildable bool // the builder's state recorded an error: its block is irreproducible (C06), chain stopped
}

// splitBlocks groups op lines into blocks; ops before the first B line are dropped.
func splitBlocks(lines []string) [][]string {
	var out [][]string
	for _, l := range lines {
		if strings.HasPrefix(l, "B ") {
			out = append(out, []string{l})
		} else if len(out) > 0 {
			out[len(out)-1] = append(out[len(out)-1], l)
		}
	}
	return out
}

// session runs a scenario block by block (the adaptive generator looks at the real state between blocks).
type session struct {
	w  *world
	rr *runResult
	// continueOnStateErr: keep building after the builder's StateDB recorded an error (probe of F-C07e); generated chains stop there
	continueOnStateErr bool
}

func newSession(header []string) (*session, []string, error) {
	w, rest, err := parseWorld(header)
	if err != nil {
		return nil, nil, err
	}
	if err := w.start(); err != nil {
		return nil, nil, err
	}
	rr := &runResult{w: w}
	d0, err := w.kit.B.Dump()
	if err != nil {
		w.stop()
		return nil, nil, err
	}
	rr.genesis = w.ledgerOf(d0, nil)
	return &session{w: w, rr: rr}, rest, nil
}

func (s *session) close() { s.w.stop() }

// headerLines reproduces the W/GV lines of the world.
func (w *world) headerLines() []string {
	out := []string{fmt.Sprintf("W users=%d pool=%s ver=%d", w.users, w.pool, w.ver)}
	for _, g := range w.gvals {
		out = append(out, fmt.Sprintf("GV %d %d %s %d", g.key, g.role, g.token, g.status))
	}
	return out
}

func txIndex(txs types.Transactions, h common.Hash) int {
	for i, t := range txs {
		if t.Hash() == h {
			return i
		}
	}
	return 0
}

func execScenario(lines []string) (*runResult, error) { return execScenarioOpt(lines, false) }

func execScenarioOpt(lines []string, continueOnStateErr bool) (*runResult, error) {
	s, rest, err := newSession(lines)
	if err != nil {
		return nil, err
	}
	s.continueOnStateErr = continueOnStateErr
	defer s.close()
	for _, bl := range splitBlocks(rest) {
		if err := s.runBlock(bl); err != nil {
			return nil, err
		}
		if s.rr.stopErr != "" {
			break
		}
	}
	return s.rr, nil
}

// runBlock builds, imports and records one block. bl[0] is the B line.
func (s *session) runBlock(bl []string) error {
	w, rr := s.w, s.rr
	k2 := contractAddr(2)
	{
		bo, err := parseOp(bl[0])
		if err != nil {
			return err
		}
		cbKey := bo.user()
		if cbKey < 0 || cbKey >= maxValKeys {
			return fmt.Errorf("bad proposer in %q", bl[0])
		}
		coinbase := chainkit.Addr(chainkit.Key("val", cbKey))
		pre, _, err := w.kit.A.NextState()
		if err != nil {
			return err
		}
		if pre.GetValidatorByMainAddr(coinbase) == nil {
			// rewardsToPool calls logging.Crit (os.Exit) when the proposer is not a validator: such a header cannot come out of
			// consensus; the scenario is ill-formed here, skip the block.
			return nil
		}
		work, err := w.kit.Begin(coinbase)
		if err != nil {
			return err
		}
		br := blockRec{num: work.Header.Number.Uint64(), cbKey: cbKey, burnt: new(big.Int), lines: bl, gasLimit: work.Header.GasLimit}
		k2alive := len(work.State.GetCode(k2)) > 0
		var evs []staking.Evidence
		for _, l := range bl[1:] {
			o, err := parseOp(l)
			if err != nil {
				return err
			}
			if o.kind == "EV" {
				vk := o.user()
				if vk < 0 || vk >= maxValKeys {
					continue
				}
				if ev, ok := w.forgeEvidence(vk, br.num-1); ok {
					evs = append(evs, ev)
					br.evidence = append(br.evidence, idMain+vk)
				}
				continue
			}
			nonces := map[common.Address]uint64{}
			if u := o.user(); u >= 0 && u < w.users {
				a := chainkit.Addr(w.userKey[u])
				nonces[a] = work.State.GetNonce(a)
			}
			bt, err := w.makeTx(o, nonces)
			if err != nil {
				return err
			}
			tr := txRec{o: o, from: w.idOf(bt.from), gasLimit: bt.gasLimit, gasPrice: bt.gasPrice, value: bt.tx.Value(), to: *bt.tx.To(), hash: bt.tx.Hash(), burnt: new(big.Int), charged: new(big.Int), nonceUsed: bt.tx.Nonce()}
			if *bt.tx.To() == params.StakingModuleAddress {
				tr.intrinsic, _ = (&staking.TxConverter{}).IntrinsicGas(bt.tx.Data(), bt.tx.To())
			} else {
				tr.intrinsic = 21000
				for _, b := range bt.tx.Data() {
					if b == 0 {
						tr.intrinsic += params.TxDataZeroGas
					} else {
						tr.intrinsic += params.TxDataNonZeroGas
					}
				}
			}
			balBefore := work.State.GetBalance(bt.from)
			k2bal := work.State.GetBalance(k2)
			tr.hasCode = len(work.State.GetCode(tr.to)) > 0
			if tr.to == params.StakingModuleAddress {
				var m staking.Message
				tr.decodeOK = rlp.DecodeBytes(bt.tx.Data(), &m) == nil
			}
			k0 := contractAddr(0)
			slotSet := work.State.GetState(k0, common.Hash{}) != (common.Hash{})
			out := work.Apply(bt.tx)
			tr.included, tr.err = out.Included, out.Err
			if strings.HasPrefix(out.Err, "panic:") {
				rr.stopErr, rr.crash = fmt.Sprintf("block %d: ApplyTransaction panicked on %q: %s", br.num, l, out.Err), true
			}
			if out.Included {
				tr.failed = out.Receipt.Status == types.ReceiptStatusFailed
				tr.gasUsed = out.Receipt.GasUsed
				balAfter := work.State.GetBalance(bt.from)
				tr.charged = new(big.Int).Sub(balBefore, balAfter)
				moved := !tr.failed && tr.to != params.StakingModuleAddress && tr.to != bt.from
				if moved {
					tr.charged.Sub(tr.charged, tr.value)
				}
				// a successful create / deposit / delegation-add detains its payload value
				if !tr.failed && tr.to == params.StakingModuleAddress {
					if p, e := chainkit.DecodeStakingTx(w.kit.Signer, bt.tx); e == nil {
						tr.charged.Sub(tr.charged, p.Value)
					}
				}
				if tr.to == k0 && !tr.failed && slotSet && work.State.GetState(k0, common.Hash{}) == (common.Hash{}) {
					tr.expRefund = params.SstoreClearRefund
				}
				// self-destruct contract k2: value sent to it and its own balance are burnt when it names itself as beneficiary
				if tr.to == k2 && !tr.failed && k2alive {
					tr.expRefund = params.SuicideRefundGas
					data := bt.tx.Data()
					word := make([]byte, 32)
					copy(word, data)
					benef := common.BytesToAddress(word[12:])
					if benef == k2 {
						tr.burnt = new(big.Int).Add(k2bal, tr.value)
						br.burnt.Add(br.burnt, tr.burnt)
					} else {
						amt := new(big.Int).Add(k2bal, tr.value)
						tr.moves = append(tr.moves, [3]string{fmt.Sprint(w.idOf(k2)), fmt.Sprint(w.idOf(benef)), amt.String()})
						if benef == bt.from {
							tr.charged.Add(tr.charged, amt)
						}
					}
					k2alive = false
				}
			}
			br.txs = append(br.txs, tr)
			if rr.crash {
				break
			}
		}
		if rr.crash {
			rr.blocks = append(rr.blocks, br)
			return nil
		}
		var slashData []byte
		if len(evs) > 0 {
			slashData = encodeSlashData(evs)
		}
		built, err := work.Finish(slashData)
		if err != nil {
			return err
		}
		if built.Panic != "" {
			rr.stopErr, rr.crash = fmt.Sprintf("block %d: EndBlock panicked: %s", br.num, built.Panic), true
			rr.blocks = append(rr.blocks, br)
			return nil
		}
		br.stateErr = built.StateErr
		if built.StateErr != "" && !s.continueOnStateErr {
			// e.g. "rlp: cannot encode negative *big.Int": the pending-total record of a validator went negative; the header's
			// staking root depends on map iteration order and no node (not even the builder) reproduces it. Not a C07 matter
			// (the block never becomes part of a chain); reported for C06 and the chain stops here.
			rr.stopErr, rr.unbuildable = fmt.Sprintf("block %d: builder state error: %s", br.num, built.StateErr), true
			rr.blocks = append(rr.blocks, br)
			return nil
		}
		if err := w.kit.Import(built.Block); err != nil {
			rr.stopErr = err.Error()
			rr.blocks = append(rr.blocks, br)
			return nil
		}
		br.teFailed = map[string]int{}
		if built.EndReceipt != nil {
			for _, lg := range built.EndReceipt.Logs {
				if len(lg.Topics) < 2 {
					continue
				}
				flagged := lg.Topics[1][0] == 0x1
				switch lg.Topics[0] {
				case common.StringToHash(staking.LogTopicDepositFailed):
					br.teFailed["te-deposit-over-cap-refunded"]++
				case common.StringToHash(staking.LogTopicDelegationAddFailed):
					if flagged {
						br.teFailed["te-delegation-over-cap-refunded"]++
					} else {
						br.teFailed["te-delegation-refused-refunded"]++
					}
				case common.StringToHash(staking.LogTopicDelegationSubFailed):
					br.teFailed["te-delegation-sub-noop"]++
				case common.StringToHash(staking.LogTopicChangeStatusFailed):
					br.teFailed["te-change-status-refused"]++
				}
			}
		}
		h := built.Block.Header()
		br.gasRewards, br.subsidy = new(big.Int).Set(h.GasRewards), new(big.Int).Set(h.Subsidy)
		br.periodEnd = (br.num+1)%w.yp.StakingTrieFrequency == 0
		if br.periodEnd {
			br.effective, err = w.kit.B.RecordsAt(h)
			if err != nil {
				return err
			}
		}
		d, err := w.kit.B.Dump()
		if err != nil {
			return err
		}
		if !bytes.Equal(common.FromHex(d.Root), h.Root[:]) {
			return fmt.Errorf("dump root differs from header root at block %d", br.num)
		}
		pend, err := w.kit.B.Pending()
		if err != nil {
			return err
		}
		br.dropped = new(big.Int)
		if !br.periodEnd {
			have := map[common.Hash]bool{}
			for _, p := range pend {
				for _, t := range p.Txs {
					have[t.Hash] = true
				}
			}
			for _, t := range br.txs {
				if t.included && !t.failed && t.to == params.StakingModuleAddress && !have[t.hash] {
					if p, e := chainkit.DecodeStakingTx(w.kit.Signer, built.Block.Transactions()[txIndex(built.Block.Transactions(), t.hash)]); e == nil {
						br.dropped.Add(br.dropped, p.Value)
					}
				}
			}
		}
		br.led = w.ledgerOf(d, pend)
		br.parts = br.led.parts()
		rr.blocks = append(rr.blocks, br)
	}
	return nil
}
