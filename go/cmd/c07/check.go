package main

// Evaluation of one executed scenario: (1) the implementation-level oracle on the real dumps, (2) the correspondence
// with the Lean ledger model (driver replays every block's operation list and must print the same ledger), (3) the
// known-finding matchers.

import (
	"fmt"
	"math/big"
	"sort"
	"strings"

	"github.com/youchainhq/go-youchain/params"

	"verifharness/internal/vh"
)

const (
	mForced = "forced-settle-stale-validator" // F-C07a
	mRefund = "gas-refund-minted"             // F-C07c
	mDelete = "removed-validator-residue"     // F-C07d
	mNegRec = "unencodable-pending-record"    // F-C07e
)

type finding struct {
	kind    string // oracle | correspondence | crash
	class   string // conservation, fees, subsidy, rewards-credit, queue, model-tx, model-end, model-dump, panic, import
	block   uint64
	what    string
	matcher string
}

func min64(a, b uint64) uint64 {
	if a < b {
		return a
	}
	return b
}

// shortfall of one tx: what GasRewards was credited with minus what the sender actually paid.
func (t *txRec) shortfall() *big.Int {
	if !t.included {
		return new(big.Int)
	}
	cred := new(big.Int).Mul(new(big.Int).SetUint64(t.gasUsed), t.gasPrice)
	return cred.Sub(cred, t.charged)
}

// refundExplained: the shortfall is exactly the EVM refund counter (capped at half the gas used) times the gas price,
// on a contract call that contains a refund source (SSTORE clearing a non-zero slot, or a first self-destruct).
func (t *txRec) refundExplained() bool {
	if !t.included || !t.hasCode || t.to == params.StakingModuleAddress || t.expRefund == 0 {
		return false
	}
	r := min64(t.expRefund, t.gasUsed/2)
	return t.shortfall().Cmp(new(big.Int).Mul(new(big.Int).SetUint64(r), t.gasPrice)) == 0
}

// forcedCandidates: validators that distributeRewards will force-settle at period-end block n, judged on the previous
// boundary's ledger (online, RewardsLastSettled < n, RewardsLastSettled + MaxRewardsPeriod*freq <= n).
func forcedCandidates(prev *ledger, n uint64, yp *params.YouParams) []int {
	var out []int
	gap := yp.MaxRewardsPeriod * yp.StakingTrieFrequency
	for id, v := range prev.vals {
		if v.lastSettled < n && v.lastSettled+gap <= n {
			out = append(out, id)
		}
	}
	return out
}

type modelSession struct {
	drv *vh.Driver
	err error
}

func (m *modelSession) ask(l string) string {
	if m.drv == nil || m.err != nil {
		return ""
	}
	s, e := m.drv.Ask(l)
	if e != nil {
		m.err = e
	}
	return s
}

func (m *modelSession) start(g *ledger) {
	m.ask("RESET")
	var ids, vids []int
	for id := range g.bal {
		ids = append(ids, id)
	}
	sort.Ints(ids)
	for _, id := range ids {
		m.ask(fmt.Sprintf("ACC %d %s 0", id, g.bal[id]))
	}
	for id := range g.vals {
		vids = append(vids, id)
	}
	sort.Ints(vids)
	for _, id := range vids {
		v := g.vals[id]
		m.ask(fmt.Sprintf("GVAL %d %d %d %d %d %s", v.id, v.operator, v.coinbase, v.role, v.status, v.token))
	}
}

func u16s(s string) int {
	var n int
	fmt.Sscan(s, &n)
	return int(uint16(n))
}

// txLine renders one offered transaction for the model.
func (w *world) txLine(t *txRec, nonce uint64) string {
	hd := fmt.Sprintf("%d %d %d %s %d", t.from, nonce, t.gasLimit, t.gasPrice, t.intrinsic)
	b2i := func(b bool) int {
		if b {
			return 1
		}
		return 0
	}
	if t.to == params.StakingModuleAddress {
		o := t.o
		kind, val, value, aux, a, b, c, d := 0, 0, "0", 0, 0, 0, 0, 0
		ok := t.decodeOK
		if o.kind != "T" && o.kind != "K" && o.kind != "RAW" {
			val = idMain + o.valKey()
		}
		switch o.kind {
		case "VC":
			kind, value, aux, a, b, c, d = 1, valOf(o.f[3]).String(), idCb+o.valKey(), u16s(o.f[2])&0xff, u16s(o.f[4]), u16s(o.f[5]), u16s(o.f[6])
		case "VU":
			kind, a, b, c = 2, u16s(o.f[2]), u16s(o.f[3]), u16s(o.f[4])
		case "VD":
			kind, value = 3, valOf(o.f[2]).String()
		case "VW":
			kind, value = 4, valOf(o.f[3]).String()
			if ad, err := w.addrOf(o.f[2]); err == nil {
				aux = w.idOf(ad)
			}
		case "VS":
			kind, a = 5, u16s(o.f[2])&0xff
		case "VT":
			kind = 6
		case "DA":
			kind, value = 16, valOf(o.f[2]).String()
		case "DS":
			kind, value = 17, valOf(o.f[2]).String()
		case "DT":
			kind = 18
		default:
			ok = false
		}
		return fmt.Sprintf("TXS %s %d %d %d %s %d %d %d %d %d", hd, b2i(ok), kind, val, value, aux, a, b, c, d)
	}
	if t.hasCode {
		refund := uint64(0)
		if t.included && t.gasPrice.Sign() > 0 {
			sf := t.shortfall()
			refund = new(big.Int).Div(sf, t.gasPrice).Uint64()
		}
		l := fmt.Sprintf("TXK %s %d %s %d %d %d %s", hd, w.idOf(t.to), t.value, b2i(t.failed), t.gasUsed, refund, t.burnt)
		for _, m := range t.moves {
			l += " " + m[0] + " " + m[1] + " " + m[2]
		}
		return l
	}
	return fmt.Sprintf("TXT %s %d %s", hd, w.idOf(t.to), t.value)
}

// checkRun evaluates oracle and correspondence over the whole run. drv may be nil (oracle only).
func checkRun(rr *runResult, drv *vh.Driver) []finding {
	var out []finding
	w := rr.w
	add := func(f finding) { out = append(out, f) }
	ms := &modelSession{drv: drv}
	ms.start(rr.genesis)
	modelAlive := drv != nil
	prev := rr.genesis
	prevParts := prev.parts()
	finishedSeen := map[string]string{}
	for bi := range rr.blocks {
		b := &rr.blocks[bi]
		// ---------------- model: replay the block's operation list ----------------
		modelLost, modelLostDel := new(big.Int), new(big.Int)
		modelKnows := false
		if b.led == nil && rr.unbuildable {
			break // the builder's state recorded an error in this block: not judged (see exec.go)
		}
		if modelAlive {
			ms.ask(fmt.Sprintf("BEGIN %d %d", b.num, b.gasLimit))
			for ti := range b.txs {
				t := &b.txs[ti]
				if strings.HasPrefix(t.err, "panic:") {
					add(finding{"crash", "panic", b.num, rr.stopErr, ""})
					continue
				}
				nonce := t.nonceUsed
				got := ms.ask(w.txLine(t, nonce))
				exp := "skip"
				if t.included {
					f := 0
					if t.failed {
						f = 1
					}
					exp = fmt.Sprintf("inc %d %d", t.gasUsed, f)
				}
				if got != exp && ms.err == nil {
					add(finding{"correspondence", "model-tx", b.num, fmt.Sprintf("block %d tx %q: go=%q (err %q) lean=%q", b.num, t.o.line, exp, t.err, got), ""})
					modelAlive = false
					break
				}
			}
		}
		if b.led == nil {
			// the real code stopped here (panic in EndBlock, or its own block rejected on import)
			if rr.unbuildable {
				break
			}
			if rr.crash {
				got := ""
				if modelAlive {
					got = ms.ask(w.endLine(b))
				}
				if !strings.HasPrefix(got, "crash") {
					add(finding{"crash", "panic", b.num, rr.stopErr + " (model: " + got + ")", ""})
				}
			} else {
				add(finding{"oracle", "import", b.num, rr.stopErr, ""})
			}
			break
		}
		if modelAlive {
			for _, id := range b.evidence {
				if got := ms.ask(fmt.Sprintf("EVID %d", id)); got != "ok" && ms.err == nil {
					add(finding{"correspondence", "model-end", b.num, fmt.Sprintf("block %d: real slashing completed, model says %q for evidence against %d", b.num, got, id), ""})
					modelAlive = false
				}
			}
		}
		if modelAlive {
			got := ms.ask(w.endLine(b))
			if strings.HasPrefix(got, "ok ") {
				if f := strings.Fields(got); len(f) >= 3 {
					modelLost, modelLostDel = bigOf(f[1]), bigOf(f[2])
					modelKnows = true
				}
				d := ms.ask("DUMP")
				if exp := b.led.canon(); d != exp && ms.err == nil {
					add(finding{"correspondence", "model-dump", b.num, fmt.Sprintf("block %d ledger differs: %s", b.num, firstDiff(exp, d)), ""})
					modelAlive = false
				}
			} else if ms.err == nil {
				add(finding{"correspondence", "model-end", b.num, fmt.Sprintf("block %d: real EndBlock completed, model says %q", b.num, got), ""})
				modelAlive = false
			}
		}
		// ---------------- oracle on the real dumps ----------------
		cur := b.parts
		delta := new(big.Int).Sub(new(big.Int).Add(cur.total(), b.burnt), prevParts.total())
		explainedMint, unexplainedShort := new(big.Int), false
		paid := new(big.Int)
		for ti := range b.txs {
			t := &b.txs[ti]
			if !t.included {
				continue
			}
			paid.Add(paid, t.charged)
			if sf := t.shortfall(); sf.Sign() != 0 {
				if t.refundExplained() {
					explainedMint.Add(explainedMint, sf)
				} else {
					unexplainedShort = true
				}
			}
		}
		// fees paid == rewards credited
		if paid.Cmp(b.gasRewards) != 0 {
			m := ""
			if !unexplainedShort && new(big.Int).Add(paid, explainedMint).Cmp(b.gasRewards) == 0 {
				m = mRefund
			}
			add(finding{"oracle", "fees", b.num, fmt.Sprintf("block %d: senders paid %s in fees, GasRewards credited %s (difference %s)", b.num, paid, b.gasRewards, new(big.Int).Sub(b.gasRewards, paid)), m})
		}
		if delta.Sign() != 0 && b.periodEnd && onlineStake(b.led).Sign() == 0 && onlineStake(prev).Sign() >= 0 && noOnline(b.led) {
			// out of the property's domain: no validator is online at this period end ("empty stake": endStakingPeriod gives up and
			// pending transactions never take effect). ucon cannot produce a block without online validators; only the solo
			// engine of the harness can. Counted, not reported.
			rr.outOfDomain++
		} else if delta.Sign() != 0 {
			// known-finding classification: the change must be explained exactly by the sum of
			//   + gas refunds credited to GasRewards but handed back to senders (F-C07c),
			//   - rewards overwritten by the forced settlement with the stale validator object (F-C07a),
			//   - undistributed rewards of validators removed as empty (F-C07d),
			// each with its own necessary condition checked on the real dumps.
			forcedOK := b.periodEnd && len(forcedCandidates(prev, b.num, w.yp)) > 0
			delBound := removedStake(prev, b.led)
			matchers := []string{}
			if !unexplainedShort && strings.Contains(b.stateErr, "cannot encode negative") && b.dropped != nil && b.dropped.Sign() > 0 &&
				new(big.Int).Neg(b.dropped).Cmp(new(big.Int).Sub(delta, explainedMint)) == 0 {
				// F-C07e: the builder's StateDB recorded the RLP error of a negative staking record, and the change is exactly the
				// value detained by this block's successful create/deposit/delegation-add transactions whose hash reached no
				// persisted pending record
				matchers = append(matchers, mNegRec)
				if explainedMint.Sign() > 0 {
					matchers = append(matchers, mRefund)
				}
			} else if !unexplainedShort {
				if modelKnows {
					exp := new(big.Int).Sub(new(big.Int).Sub(explainedMint, modelLost), modelLostDel)
					okF := modelLost.Sign() == 0 || (forcedOK && forcedBound(prev, b, new(big.Int).Neg(modelLost)))
					// removed validator: either the dust left by the settlement preceding its withdrawal (< its stake), or - when
					// distributeRewards had marked it force-settled without paying (the stale object held no rewards) so that
					// processPendingTxs skipped the settlement - at most what was distributable in this block
					okD := modelLostDel.Sign() == 0 || (b.periodEnd && (modelLostDel.Cmp(delBound) < 0 ||
						(removedForced(prev, b.led, forcedCandidates(prev, b.num, w.yp)) && forcedBound(prev, b, new(big.Int).Neg(modelLostDel)))))
					if exp.Cmp(delta) == 0 && okF && okD && modelLost.Sign() >= 0 && modelLostDel.Sign() >= 0 {
						if explainedMint.Sign() > 0 {
							matchers = append(matchers, mRefund)
						}
						if modelLost.Sign() > 0 {
							matchers = append(matchers, mForced)
						}
						if modelLostDel.Sign() > 0 {
							matchers = append(matchers, mDelete)
						}
					}
				} else {
					// no model available: necessary conditions only
					residual := new(big.Int).Sub(delta, explainedMint)
					switch {
					case residual.Sign() == 0 && explainedMint.Sign() > 0:
						matchers = []string{mRefund}
					case residual.Sign() < 0 && b.periodEnd && new(big.Int).Neg(residual).Cmp(delBound) < 0:
						matchers = []string{mDelete}
					case residual.Sign() < 0 && forcedOK && forcedBound(prev, b, residual):
						matchers = []string{mForced}
					}
					if len(matchers) > 0 && residual.Sign() != 0 && explainedMint.Sign() > 0 {
						matchers = append(matchers, mRefund)
					}
				}
			}
			what := fmt.Sprintf("block %d: total changed by %s LU (before: %s; after: %s; burnt %s; refund-minted %s; model diagnostics: stale-settlement loss %s, removed-validator loss %s, forced candidates %v)", b.num, delta, prevParts, cur, b.burnt, explainedMint, modelLost, modelLostDel, forcedCandidates(prev, b.num, w.yp))
			if len(matchers) == 0 {
				add(finding{"oracle", "conservation", b.num, what, ""})
			}
			for _, m := range matchers {
				add(finding{"oracle", "conservation", b.num, what, m})
			}
		}
		// subsidies come out of the rewards pool account
		poolIn := new(big.Int)
		for ti := range b.txs {
			t := &b.txs[ti]
			if t.included && !t.failed && t.to == w.yp.RewardsPoolAddress {
				poolIn.Add(poolIn, t.value)
			}
			for _, m := range t.moves {
				if m[1] == fmt.Sprint(idPool) {
					poolIn.Add(poolIn, bigOf(m[2]))
				}
			}
		}
		pb, pa := balOr0(prev, idPool), balOr0(b.led, idPool)
		if exp := new(big.Int).Add(new(big.Int).Sub(pb, b.subsidy), poolIn); exp.Cmp(pa) != 0 {
			add(finding{"oracle", "subsidy", b.num, fmt.Sprintf("block %d: rewards pool account %s -> %s, header subsidy %s, incoming %s", b.num, pb, pa, b.subsidy, poolIn), ""})
		}
		// outside period ends, this block's rewards (fees + subsidy) all land in validator rewards / role pools / residue
		if !b.periodEnd {
			before := new(big.Int).Add(new(big.Int).Add(prevParts.valRewards, prevParts.pools), prevParts.residue)
			after := new(big.Int).Add(new(big.Int).Add(cur.valRewards, cur.pools), cur.residue)
			if exp := new(big.Int).Add(before, new(big.Int).Add(b.gasRewards, b.subsidy)); exp.Cmp(after) != 0 {
				add(finding{"oracle", "rewards-credit", b.num, fmt.Sprintf("block %d: undistributed rewards %s -> %s but GasRewards %s + subsidy %s", b.num, before, after, b.gasRewards, b.subsidy), ""})
			}
			// and nothing else moves between the stake side and balances
			if len(b.evidence) == 0 && (cur.tokens.Cmp(prevParts.tokens) != 0 || cur.queue.Cmp(prevParts.queue) != 0) {
				add(finding{"oracle", "stake-outside-period-end", b.num, fmt.Sprintf("block %d: staked tokens / withdraw queue changed outside a period end", b.num), ""})
			}
		}
		// a withdrawal is paid exactly once: once finished, a record never changes again
		for _, r := range b.led.queue {
			key := fmt.Sprintf("%d/%d/%d/%d/%d/%s", r.validator, r.delegator, r.recipient, r.creation, r.completion, r.initial)
			if r.finished == 1 {
				if old, ok := finishedSeen[key]; ok && old != r.final.String() {
					add(finding{"oracle", "queue", b.num, fmt.Sprintf("block %d: finished withdraw record %s changed its amount %s -> %s", b.num, key, old, r.final), ""})
				}
				finishedSeen[key] = r.final.String()
			} else if _, ok := finishedSeen[key]; ok {
				add(finding{"oracle", "queue", b.num, fmt.Sprintf("block %d: finished withdraw record %s is unfinished again", b.num, key), ""})
			}
		}
		prev, prevParts = b.led, cur
	}
	if ms.err != nil {
		add(finding{"correspondence", "driver", 0, "Lean driver failed: " + ms.err.Error(), ""})
	}
	return out
}

// forcedBound: the loss cannot exceed what was distributable in this block: role pools + validators' undistributed
// rewards of the previous boundary + this block's fees and subsidy.
func forcedBound(prev *ledger, b *blockRec, residual *big.Int) bool {
	p := prev.parts()
	bound := new(big.Int).Add(p.pools, p.valRewards)
	bound.Add(bound, p.residue)
	bound.Add(bound, b.gasRewards)
	bound.Add(bound, b.subsidy)
	return new(big.Int).Neg(residual).Cmp(bound) <= 0
}

// removedStake: sum of the stakes (as LU counts) of validators present at the previous boundary and gone now; the residue
// left by settleValidatorRewards is strictly below the stake.
func removedStake(prev, cur *ledger) *big.Int {
	t := new(big.Int)
	for id, v := range prev.vals {
		if _, ok := cur.vals[id]; !ok {
			t.Add(t, v.stake)
		}
	}
	return t
}

func onlineStake(l *ledger) *big.Int {
	t := new(big.Int)
	for _, v := range l.vals {
		if v.status == 1 {
			t.Add(t, v.stake)
		}
	}
	return t
}

func noOnline(l *ledger) bool {
	for _, v := range l.vals {
		if v.status == 1 {
			return false
		}
	}
	return true
}

// removedForced: some validator that disappeared in this block was a forced-settlement candidate
func removedForced(prev, cur *ledger, cands []int) bool {
	for _, id := range cands {
		if _, was := prev.vals[id]; was {
			if _, is := cur.vals[id]; !is {
				return true
			}
		}
	}
	return false
}

func balOr0(l *ledger, id int) *big.Int {
	if b, ok := l.bal[id]; ok {
		return b
	}
	return new(big.Int)
}

func (w *world) endLine(b *blockRec) string {
	l := fmt.Sprintf("END %d", idMain+b.cbKey)
	for _, r := range b.effective {
		l += fmt.Sprintf(" %d %d", w.idOfOrZero(r.Delegator), w.idOf(r.Validator))
	}
	return l
}

func firstDiff(a, b string) string {
	as, bs := strings.Split(a, " | "), strings.Split(b, " | ")
	for i := 0; i < len(as) || i < len(bs); i++ {
		x, y := "", ""
		if i < len(as) {
			x = as[i]
		}
		if i < len(bs) {
			y = bs[i]
		}
		if x != y {
			if strings.HasPrefix(x, "A") && strings.HasPrefix(y, "A") {
				xf, yf := strings.Fields(x), strings.Fields(y)
				for j := 0; j < len(xf) || j < len(yf); j++ {
					p, q := "", ""
					if j < len(xf) {
						p = xf[j]
					}
					if j < len(yf) {
						q = yf[j]
					}
					if p != q {
						return fmt.Sprintf("account go=%q lean=%q", p, q)
					}
				}
			}
			return fmt.Sprintf("go=%q lean=%q", x, y)
		}
	}
	return "(no difference?)"
}
