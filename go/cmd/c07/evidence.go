package main

// Forged double-sign evidence (EvidenceDoubleSignV5) for the op `EV <valKey>`: two different block hashes really signed
// with the validator's BLS key for (round = parent height, round index 1), indexed into the look-back validator set as
// processDoubleSignV5 will look it up. Injected through header.SlashData with EndBlock(isSeal=false) (replay path), which
// is also what every importing node executes.

import (
	"encoding/binary"
	"fmt"
	"math/big"

	"github.com/youchainhq/go-youchain/bls"
	"github.com/youchainhq/go-youchain/common"
	"github.com/youchainhq/go-youchain/crypto"
	"github.com/youchainhq/go-youchain/rlp"
	"github.com/youchainhq/go-youchain/staking"
)

var (
	blsMgr = bls.NewBlsManager()
	blsSKs = map[int]bls.SecretKey{}
	blsPKs = map[int][]byte{}
)

func blsKey(i int) (bls.SecretKey, []byte) {
	if sk, ok := blsSKs[i]; ok {
		return sk, blsPKs[i]
	}
	kb := crypto.Keccak256([]byte(fmt.Sprintf("c07-bls-%d", i)))
	kb[0] &= 0x3f
	kb[31] &= 0x3f
	sk, err := blsMgr.DecSecretKey(kb)
	if err != nil {
		panic(err)
	}
	pk, err := sk.PubKey()
	if err != nil {
		panic(err)
	}
	c := pk.Compress()
	blsSKs[i], blsPKs[i] = sk, append([]byte{}, c.Bytes()...)
	return sk, blsPKs[i]
}

func blsPub(i int) []byte { _, p := blsKey(i); return p }

// forgeEvidence returns the evidence for validator key vk at the given round, or ok=false when the validator is not in the
// look-back set of that round (processDoubleSignV5 could not resolve a signer index for it).
func (w *world) forgeEvidence(vk int, round uint64) (staking.Evidence, bool) {
	addr := w.mainAddr(vk)
	rd, err := w.kit.A.BC.LookBackVldReaderForRound(round, false)
	if err != nil {
		return staking.Evidence{}, false
	}
	vs := rd.GetValidators()
	idx := -1
	for i := 0; i < vs.Len(); i++ {
		if v, ok := vs.GetByIndex(i); ok && v.MainAddress() == addr {
			idx = i
		}
	}
	if idx < 0 {
		return staking.Evidence{}, false
	}
	sk, _ := blsKey(vk)
	d := staking.EvidenceDoubleSignV5{Round: round, RoundIndex: 1, SignerIdx: uint32(idx), VoteType: staking.Prevote}
	buf := make([]byte, 4)
	binary.BigEndian.PutUint32(buf, d.RoundIndex)
	roundbuf := append(new(big.Int).SetUint64(round).Bytes(), buf...)
	for k := 0; k < 2; k++ {
		h := common.BytesToHash(crypto.Keccak256([]byte(fmt.Sprintf("c07-ev-%d-%d-%d", vk, round, k))))
		payload := append(h.Bytes(), roundbuf...)
		c := sk.Sign(payload).Compress()
		d.Signs = append(d.Signs, &staking.SignInfo{Hash: h, Sign: append([]byte{}, c.Bytes()...)})
	}
	return staking.NewEvidence(d), true
}

func encodeSlashData(evs []staking.Evidence) []byte {
	b, err := rlp.EncodeToBytes(evs)
	if err != nil {
		panic(err)
	}
	return b
}
