package main

// The node-level verifiers of sortition_verifier.go (Server.verifyPriority, Server.verifySortition) on a scripted chain
// reader: the real functions run (hook VerifC04Server); look-back headers, the validator reader and the statistics are
// stubs supplied here. Oracle = the property's binding clause evaluated on their verdicts:
//   * a proposer priority is accepted only if it is the largest seat hash of a verifying credential,
//   * a vote credential is accepted only for the exact key, seed, round index, step and seat count.

import (
	"crypto/ecdsa"
	"encoding/hex"
	"fmt"
	"math/big"
	"strconv"

	"github.com/youchainhq/go-youchain/common"
	"github.com/youchainhq/go-youchain/consensus/ucon"
	"github.com/youchainhq/go-youchain/core/rawdb"
	"github.com/youchainhq/go-youchain/core/state"
	"github.com/youchainhq/go-youchain/core/types"
	"github.com/youchainhq/go-youchain/crypto"
	secp256k1VRF "github.com/youchainhq/go-youchain/crypto/vrf/secp256k1"
	"github.com/youchainhq/go-youchain/params"
	"verifharness/internal/vh"
)

type stubVld struct {
	vals map[common.Address]*state.Validator
	stat *state.ValidatorsStat
}

func (s *stubVld) GetValidatorsStat() (*state.ValidatorsStat, error) { return s.stat, nil }
func (s *stubVld) GetValidatorByMainAddr(a common.Address) *state.Validator {
	return s.vals[a]
}
func (s *stubVld) GetValidators() *state.Validators {
	var l []*state.Validator
	for _, v := range s.vals {
		l = append(l, v)
	}
	return state.NewValidators(l)
}

type stubChain struct {
	yp  *params.YouParams
	hdr *types.Header
	vld state.ValidatorReader
}

func (c *stubChain) VersionForRound(round uint64) (*params.YouParams, error) { return c.yp, nil }
func (c *stubChain) VersionForRoundWithParents(round uint64, parents []*types.Header) (*params.YouParams, error) {
	return c.yp, nil
}
func (c *stubChain) CurrentHeader() *types.Header                            { return c.hdr }
func (c *stubChain) GetHeader(hash common.Hash, number uint64) *types.Header { return c.hdr }
func (c *stubChain) GetHeaderByNumber(number uint64) *types.Header           { return c.hdr }
func (c *stubChain) GetHeaderByHash(hash common.Hash) *types.Header          { return c.hdr }
func (c *stubChain) GetBlock(hash common.Hash, number uint64) *types.Block   { return nil }
func (c *stubChain) GetBlockByNumber(number uint64) *types.Block             { return nil }
func (c *stubChain) GetVldReader(common.Hash) (state.ValidatorReader, error) { return c.vld, nil }
func (c *stubChain) GetAcReader() rawdb.AcReader                             { return nil }
func (c *stubChain) UpdateExistedHeader(header *types.Header)                {}

type serverWorld struct {
	srv        *ucon.VerifC04Server
	seed       common.Hash
	keys       []*ecdsa.PrivateKey
	stakes     []int64
	total      int64
	propThr    uint64
	valThr     uint64
	round      *big.Int
	roundIndex uint32
}

var paramsInit bool

// altVersion: an extra protocol version installed by the harness into params.Versions, with other committee sizes than the
// shipped ones (which all share 26 / 2000 / 4000), so that "which version's committee" is observable.
const altVersion = params.YouVersion(9001)

// topVersion: the newest shipped version of the test-case table (the harness' own extra versions excluded)
func topVersion() params.YouVersion {
	var top params.YouVersion
	for v := range params.Versions {
		if v > top && v < 9000 {
			top = v
		}
	}
	return top
}

func installAltVersion() {
	if _, ok := params.Versions[altVersion]; ok {
		return
	}
	a := params.Versions[topVersion()].DeepCopy()
	a.Version = altVersion
	a.ProposerThreshold, a.ValidatorThreshold, a.CertValThreshold = 20, 1500, 3000
	params.Versions[altVersion] = a
}

// newServerWorld: a node at (round 50, index 2) whose look-back state holds three online chancellors.
func newServerWorld(seedBytes []byte, keyBytes [][]byte) (*serverWorld, error) {
	if !paramsInit {
		params.InitNetworkId(params.NetworkIdForTestCase)
		paramsInit = true
	}
	top := topVersion()
	ypv := params.Versions[top]
	ypc := ypv.DeepCopy()
	yp := &ypc
	yp.ProposerThreshold = 26
	yp.ValidatorThreshold = 2000
	w := &serverWorld{round: big.NewInt(50), roundIndex: 2, propThr: 26, valThr: 2000}
	copy(w.seed[:], seedBytes)
	vld := &stubVld{vals: map[common.Address]*state.Validator{}, stat: state.NewValidatorsStat()}
	stakes := []int64{20000, 30000, 50000}
	for i, kb := range keyBytes {
		k, err := crypto.ToECDSA(kb)
		if err != nil {
			return nil, err
		}
		w.keys = append(w.keys, k)
		st := stakes[i%len(stakes)]
		w.stakes = append(w.stakes, st)
		w.total += st
		v := state.NewValidator(fmt.Sprintf("v%d", i), common.Address{byte(i + 1)}, common.Address{byte(i + 1)}, params.RoleChancellor,
			crypto.CompressPubkey(&k.PublicKey), nil, big.NewInt(st*1000), big.NewInt(st), 0, 0, 0, params.ValidatorOnline)
		vld.vals[crypto.PubkeyToAddress(k.PublicKey)] = v
		vld.stat.GetByKind(params.KindChamber).AddVal(v)
		vld.stat.GetByKind(params.KindValidator).AddVal(v)
	}
	hdr := &types.Header{Number: big.NewInt(1), ValRoot: common.Hash{1}}
	cons, err := ucon.PrepareConsensusData(hdr, &ucon.BlockConsensusData{Round: big.NewInt(1), RoundIndex: 1, Seed: w.seed,
		SortitionProof: []byte{}, Signature: []byte{}, ProposerThreshold: 26, ValidatorThreshold: 2000, CertValThreshold: 4000})
	if err != nil {
		return nil, err
	}
	hdr.Consensus = cons
	chain := &stubChain{yp: yp, hdr: hdr, vld: vld}
	w.srv = ucon.NewVerifC04Server(chain, yp, w.round, w.roundIndex)
	return w, nil
}

// serverCase kinds:
//
//	prio-honest | prio-forged-max | prio-forged-bit | prio-sub | prio-proof | prio-otherkey
//	vote-honest | vote-sub | vote-proof | vote-step | vote-old-index-sub | vote-old-round-sub | vote-old-index-proof
//
// returns (accepted, mustReject, applicable)
func (h *harness) serverCase(seedBytes []byte, keyBytes [][]byte, who int, kind string, record bool) string {
	w, err := newServerWorld(seedBytes, keyBytes)
	if err != nil {
		return ""
	}
	who = who % len(w.keys)
	key := w.keys[who]
	vsk, err := secp256k1VRF.NewVRFSigner(key)
	if err != nil {
		return ""
	}
	hexKeys := ""
	for _, kb := range keyBytes {
		hexKeys += hex.EncodeToString(kb) + ","
	}
	body := []string{fmt.Sprintf("server %s %s %d %s", hex.EncodeToString(seedBytes), hexKeys, who, kind)}
	stake, total := big.NewInt(w.stakes[who]), big.NewInt(w.total)
	accepted := func(e error) bool { return e == nil }
	var got error
	exported := "" // verdict of the exported VrfVerifyPriority / VrfVerifySortition on the same claim
	leanLine := ""
	mustReject := false
	matcher := ""
	isPrio := len(kind) > 4 && kind[:4] == "prio"
	func() {
		defer func() {
			if r := recover(); r != nil {
				got = fmt.Errorf("panic: %v", r)
			}
		}()
		if isPrio {
			value, proof, j := ucon.VrfSortition(vsk, w.seed, w.roundIndex, uint32(ucon.Propose), w.propThr, stake, total)
			d := &ucon.ConsensusCommon{Round: w.round, RoundIndex: w.roundIndex, Step: uint32(ucon.Propose),
				Priority: ucon.VrfComputePriority(value, j), SortitionProof: proof, SubUsers: j}
			pub := &key.PublicKey
			switch kind {
			case "prio-honest":
			case "prio-forged-max":
				for i := range d.Priority {
					d.Priority[i] = 0xff
				}
				mustReject, matcher = true, "server-verifypriority-nil-on-mismatch"
			case "prio-forged-bit":
				d.Priority[31] ^= 1
				mustReject, matcher = true, "server-verifypriority-nil-on-mismatch"
			case "prio-sub":
				d.SubUsers = j + 1
				mustReject = true
			case "prio-proof":
				d.SortitionProof = append([]byte{}, proof...)
				d.SortitionProof[40] ^= 4
				mustReject = true
			case "prio-otherkey":
				pub = &w.keys[(who+1)%len(w.keys)].PublicKey
				mustReject = len(w.keys) > 1
			}
			if vpk, e := secp256k1VRF.NewVRFVerifier(pub); e == nil {
				idx := 0
				for i, k := range w.keys {
					if &k.PublicKey == pub {
						idx = i
					}
				}
				_, exported = realVerify(claim{pk: vpk, seed: w.seed, index: d.RoundIndex, role: d.Step, proof: d.SortitionProof, sub: d.SubUsers,
					priority: d.Priority, thr: w.propThr, stake: big.NewInt(w.stakes[idx]), total: total})
				leanLine = "SP " + exported
			}
			got = w.srv.VerifyPriority(pub, d)
		} else {
			step := uint32(ucon.Prevote)
			_, proof, j := ucon.VrfSortition(vsk, w.seed, w.roundIndex, step, w.valThr, stake, total)
			d := &ucon.SortitionData{Round: w.round, RoundIndex: w.roundIndex, Step: step, Proof: proof, Votes: j}
			switch kind {
			case "vote-honest":
				mustReject = j == 0
			case "vote-sub":
				d.Votes = j + 1000
				mustReject = true
			case "vote-proof":
				d.Proof = append([]byte{}, proof...)
				d.Proof[40] ^= 4
				mustReject = true
			case "vote-step":
				d.Step = uint32(ucon.Precommit)
				mustReject = true
			case "vote-old-index-sub", "vote-old-index-proof", "vote-old-round-sub":
				// a credential for an earlier (round, index) than the node's own
				if kind == "vote-old-round-sub" {
					d.Round = new(big.Int).Sub(w.round, big.NewInt(1))
				} else {
					d.RoundIndex = w.roundIndex - 1
				}
				_, proof, j = ucon.VrfSortition(vsk, w.seed, d.RoundIndex, step, w.valThr, stake, total)
				d.Proof, d.Votes = proof, j+1000
				if kind == "vote-old-index-proof" {
					d.Proof = []byte{1, 2, 3}
				}
				mustReject, matcher = true, "server-verifysortition-lenient-old"
			}
			if vpk, e := secp256k1VRF.NewVRFVerifier(&key.PublicKey); e == nil {
				exported, _ = realVerify(claim{pk: vpk, seed: w.seed, index: d.RoundIndex, role: d.Step, proof: d.Proof, sub: d.Votes,
					thr: w.valThr, stake: stake, total: total})
				leanLine = fmt.Sprintf("SS %s %d %s %d %s", w.round.String(), w.roundIndex, d.Round.String(), d.RoundIndex, exported)
			}
			got = w.srv.VerifySortition(&key.PublicKey, d, params.LookBackPos)
		}
	}()
	bad := ""
	if h.drv != nil && leanLine != "" {
		goOut := "refuse"
		if accepted(got) {
			goOut = "accept"
		} else if len(got.Error()) > 6 && got.Error()[:6] == "panic:" {
			goOut = "crash"
		}
		m := h.ask(leanLine)
		if record {
			h.res.TracesVsImpl++
		}
		if m != goOut {
			bad = "corr-server: " + kind
			if record {
				h.fail("correspondence", "corr-server", fmt.Sprintf("%s (exported verifier: %s): go=%s lean=%s", kind, exported, goOut, m), body)
			}
		}
	}
	if mustReject && accepted(got) {
		bad = "oracle-server-binding: " + kind
		if record {
			h.nfail["server-"+kind]++
			if h.replaying {
				h.msgs = append(h.msgs, "oracle: node-level verifier accepted "+kind)
			} else if h.nfail["server-"+kind] <= 1 {
				what := "Server." + map[bool]string{true: "verifyPriority", false: "verifySortition"}[isPrio] + " accepted a credential it must refuse: " + kind
				rp := ""
				if !h.replaying {
					rp = writeReplay(h, "server-"+kind, what, body)
				}
				h.res.Fail("oracle", matcher, what, rp)
			}
		}
	}
	if !mustReject && !accepted(got) {
		bad = "oracle-server-honest: " + kind + ": " + got.Error()
		if record {
			h.fail("oracle", "oracle-server-honest", "node-level verifier refused an honest credential ("+kind+"): "+got.Error(), body)
		}
	}
	if record {
		h.res.Dist("server-" + kind + "-" + map[bool]string{true: "accepted", false: "refused"}[accepted(got)])
		h.res.Count(body[0], kind != "prio-honest" && kind != "vote-honest")
	}
	return bad
}

func writeReplay(h *harness, name, what string, body []string) string {
	return vh.WriteReplay(h.c.ReplayDir, "C04", name+"-s"+strconv.FormatUint(h.c.Seed, 10), h.c.Seed, []string{"oracle: " + what}, body)
}

var serverKinds = []string{"prio-honest", "prio-forged-max", "prio-forged-bit", "prio-sub", "prio-proof", "prio-otherkey",
	"vote-honest", "vote-sub", "vote-proof", "vote-step", "vote-old-index-sub", "vote-old-round-sub", "vote-old-index-proof"}

func (h *harness) serverStream(n int) {
	r := h.c.R
	for i := 0; i < n; i++ {
		seed := r.Bytes(32)
		keys := [][]byte{r.Bytes(32), r.Bytes(32), r.Bytes(32)}
		ok := true
		for _, k := range keys {
			if _, e := crypto.ToECDSA(k); e != nil {
				ok = false
			}
		}
		if !ok {
			continue
		}
		who := r.Intn(3)
		for _, k := range serverKinds {
			h.serverCase(seed, keys, who, k, true)
		}
	}
}
