package main

// VRF-U observed on the implementation: "all accepting proofs for one (key, message) yield one hash" is a hypothesis of
// seats_unique / credential_binds; here it is an oracle on the real secp256k1 VRF.
//
// For real keys and real sortition messages:
//   (a) a FORGING PROVER that knows the secret key re-does Evaluate with the embedded VRF point re-encoded — every one of the
//       255 other values of its format byte (offset 64 of the 129-byte proof s‖t‖point), truncated / compressed encodings —
//       and with the challenge s and response t recomputed over the re-encoded blob, so the proof is internally consistent;
//       also t+N when it fits in 32 bytes. With format byte 4 the forger must reproduce an accepted honest proof (sanity).
//   (b) on the honest proof: all 255 alternatives of the format byte, and sampled alternatives at every other offset.
// Requirement for every such proof: ProofToHash rejects it, OR it returns the byte-identical VRF output (hence the same j);
// VrfVerifySortition must never accept another seat count for the same (key, seed, index, step).

import (
	"crypto/ecdsa"
	"crypto/elliptic"
	"crypto/sha256"
	"encoding/hex"
	"fmt"
	"math/big"

	"github.com/youchainhq/go-youchain/common"
	"github.com/youchainhq/go-youchain/consensus/ucon"
	"github.com/youchainhq/go-youchain/crypto"
	secp256k1VRF "github.com/youchainhq/go-youchain/crypto/vrf/secp256k1"
)

func pad32(b []byte) []byte {
	if len(b) >= 32 {
		return b[len(b)-32:]
	}
	return append(make([]byte, 32-len(b)), b...)
}

// forge: Evaluate(m) with nonce r, the VRF point blob replaced by reenc(blob) in both the challenge and the proof.
func forge(k *ecdsa.PrivateKey, m, r []byte, reenc func([]byte) []byte) (proof []byte, honest [32]byte) {
	curve := crypto.S256()
	cp := curve.Params()
	Hx, Hy := secp256k1VRF.H1(m)
	sHx, sHy := curve.ScalarMult(Hx, Hy, k.D.Bytes())
	vrfData := elliptic.Marshal(curve, sHx, sHy)
	honest = sha256.Sum256(vrfData)
	vd := reenc(append([]byte{}, vrfData...))
	rGx, rGy := curve.ScalarBaseMult(r)
	rHx, rHy := curve.ScalarMult(Hx, Hy, r)
	var b []byte
	b = append(b, elliptic.Marshal(curve, cp.Gx, cp.Gy)...)
	b = append(b, elliptic.Marshal(curve, Hx, Hy)...)
	b = append(b, elliptic.Marshal(curve, k.PublicKey.X, k.PublicKey.Y)...)
	b = append(b, vd...)
	b = append(b, elliptic.Marshal(curve, rGx, rGy)...)
	b = append(b, elliptic.Marshal(curve, rHx, rHy)...)
	s := secp256k1VRF.H2(b)
	t := new(big.Int).Sub(new(big.Int).SetBytes(r), new(big.Int).Mul(s, k.D))
	t.Mod(t, cp.N)
	proof = append(proof, pad32(s.Bytes())...)
	proof = append(proof, pad32(t.Bytes())...)
	proof = append(proof, vd...)
	return
}

func (h *harness) vrfuCase(skBytes, seedBytes, rBytes []byte, index, role uint32, record bool) string {
	k, err := crypto.ToECDSA(skBytes)
	if err != nil {
		return ""
	}
	kp, ok := keyFrom(skBytes)
	if !ok {
		return ""
	}
	var seed common.Hash
	copy(seed[:], seedBytes)
	m := ucon.MakeM(seed, role, index)
	N := crypto.S256().Params().N
	r := new(big.Int).Mod(new(big.Int).SetBytes(rBytes), new(big.Int).Sub(N, big.NewInt(1)))
	r.Add(r, big.NewInt(1))
	rb := pad32(r.Bytes())
	body := []string{fmt.Sprintf("vrfu %s %s %s %d %d", hex.EncodeToString(skBytes), hex.EncodeToString(seed[:]), hex.EncodeToString(rb), index, role)}
	bad := ""
	report := func(class, what string) {
		if bad == "" {
			bad = class + ": " + what
		}
		if record {
			h.fail("oracle", class, body[0]+": "+what, body)
		}
	}
	honestValue, honestProof := kp.sk.Evaluate(m)
	thr, stake, total := uint64(2000), big.NewInt(8880000), big.NewInt(60000000)
	jHonest, _ := realChoose(new(big.Int).SetBytes(honestValue[:]), stake.Int64(), goP(thr, total))
	tried, accepted := 0, 0
	check := func(what string, proof []byte) {
		tried++
		var res [32]byte
		var perr error
		func() {
			defer func() {
				if rec := recover(); rec != nil {
					perr = fmt.Errorf("panic")
				}
			}()
			res, perr = kp.pk.ProofToHash(m, proof)
		}()
		if perr != nil {
			return
		}
		accepted++
		if res != honestValue {
			j2, _ := realChoose(new(big.Int).SetBytes(res[:]), stake.Int64(), goP(thr, total))
			vs := "?"
			func() {
				defer func() { recover() }()
				okv, e := ucon.VrfVerifySortition(kp.pk, seed, index, role, proof, uint32(j2), thr, stake, total)
				vs = classifyErr(okv, e)
			}()
			report("oracle-vrf-unique", fmt.Sprintf("%s: a second proof for the same key and message verifies to ANOTHER VRF output (%x.. instead of %x..): seat count %d instead of %d, VrfVerifySortition(seats=%d) = %s", what, res[:6], honestValue[:6], j2, jHonest, j2, vs))
		}
	}
	// sanity: the forger is a correct prover
	if p4, hv := forge(k, m, rb, func(b []byte) []byte { return b }); true {
		res, perr := kp.pk.ProofToHash(m, p4)
		if perr != nil || res != hv || hv != honestValue {
			report("oracle-vrf-forger-sanity", "the harness' own prover (Evaluate re-done with a chosen nonce) is not accepted with the honest output")
		}
	}
	// (a) forging prover
	for fb := 0; fb < 256; fb++ {
		if fb == 4 {
			continue
		}
		p, _ := forge(k, m, rb, func(b []byte) []byte { b[0] = byte(fb); return b })
		check(fmt.Sprintf("forged, point format byte 0x%02x", fb), p)
	}
	for _, enc := range []struct {
		name string
		f    func([]byte) []byte
	}{
		{"forged, point without format byte", func(b []byte) []byte { return b[1:] }},
		{"forged, compressed point", func(b []byte) []byte { return append([]byte{2 + b[64]&1}, b[1:33]...) }},
		{"forged, compressed point padded to 65 bytes", func(b []byte) []byte {
			return append(append([]byte{2 + b[64]&1}, b[1:33]...), make([]byte, 32)...)
		}},
		{"forged, point with a trailing byte", func(b []byte) []byte { return append(b, 0) }},
	} {
		p, _ := forge(k, m, rb, enc.f)
		check(enc.name, p)
	}
	if p, _ := forge(k, m, rb, func(b []byte) []byte { return b }); len(p) == 129 {
		t := new(big.Int).SetBytes(p[32:64])
		t.Add(t, N)
		if t.BitLen() <= 256 {
			q := append([]byte{}, p...)
			copy(q[32:64], pad32(t.Bytes()))
			check("forged, t+N", q)
		}
	}
	// (b) the honest proof, byte alternatives
	if len(honestProof) == 129 {
		for v := 0; v < 256; v++ {
			if byte(v) == honestProof[64] {
				continue
			}
			q := append([]byte{}, honestProof...)
			q[64] = byte(v)
			check(fmt.Sprintf("honest proof, format byte 0x%02x", v), q)
		}
		hs := sha256.Sum256(append(append([]byte{}, skBytes...), seedBytes...))
		for off := 0; off < 129; off++ {
			if off == 64 {
				continue
			}
			for n := 0; n < 2; n++ {
				d := hs[(off+n*7)%32]
				if d == 0 {
					d = byte(1 + off%255)
				}
				q := append([]byte{}, honestProof...)
				q[off] ^= d
				check(fmt.Sprintf("honest proof, offset %d ^ 0x%02x", off, d), q)
			}
		}
	}
	if record {
		h.res.DistN("vrfu-proofs-tried", tried)
		h.res.DistN("vrfu-proofs-accepted(same output)", accepted)
		h.res.Dist("vrfu-credentials")
		h.res.Count(body[0], true)
	}
	return bad
}

func (h *harness) vrfuStream(n int) {
	r := h.c.R
	for i := 0; i < n && h.err == nil; i++ {
		sk := r.Bytes(32)
		if _, e := crypto.ToECDSA(sk); e != nil {
			continue
		}
		h.vrfuCase(sk, r.Bytes(32), r.Bytes(32), uint32(r.Intn(4)), uint32(r.Range(1, 5)), true)
	}
}
