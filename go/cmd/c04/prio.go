package main

// The live entry point of proposer priorities: a real Proposal handler wired, as Server.StartMining wires it, to the
// Server's real verifyPriority (hook VerifC04Proposal), on the scripted chain with one seed per block number. Priority
// messages (and block-proposal messages, whose header carries the same credential) are delivered with every
// ConsensusCommon field perturbed in turn on top of a real credential — including credentials HONESTLY ISSUED by the same
// key for other steps, other round indices and other rounds, presented as proposer credentials.
// Oracle: the message is recorded as a priority of (Round, RoundIndex) — Best() returns it — if and only if the exported
// VrfVerifyPriority accepts its credential as a PROPOSE-step credential for exactly (seed of Round, RoundIndex) under the
// sender's key, the proposer threshold and the look-back stake (priority = largest seat hash included). The payload's
// own Step field must not matter: the caller pins it. The Lean model (proposalOutcome) must give the same verdict.

import (
	"encoding/hex"
	"fmt"
	"math/big"
	"strings"

	"github.com/youchainhq/go-youchain/common"
	"github.com/youchainhq/go-youchain/consensus/ucon"
	"github.com/youchainhq/go-youchain/core/types"
	"github.com/youchainhq/go-youchain/crypto"
	secp256k1VRF "github.com/youchainhq/go-youchain/crypto/vrf/secp256k1"
	"github.com/youchainhq/go-youchain/params"
)

var prioKinds = []string{"honest", "step-field-only", "cred-for-step-2", "cred-for-step-3", "cred-for-step-ground", "cred-for-other-index",
	"cred-for-other-index-presented-there", "cred-for-other-round", "cred-for-other-round-presented-there", "seats+1", "seats-1",
	"priority-max", "priority-bit", "proof-bit", "other-sender-key", "validator-threshold-credential"}

// prioCase: one message of one kind, via "priority" (msgPriorityProposal) or "block" (msgBlockProposal).
func (h *harness) prioCase(base []byte, keyBytes [][]byte, who int, path, kind string, record bool) string {
	w, err := newMgrWorld(base, keyBytes, who%2) // senders are the two chamber validators
	if err != nil {
		return ""
	}
	hexKeys := ""
	for _, kb := range keyBytes {
		hexKeys += hex.EncodeToString(kb) + ","
	}
	body := []string{fmt.Sprintf("prio-msg %s %s %d %s %s", hex.EncodeToString(base), hexKeys, who, path, kind)}
	key := w.keys[w.who]
	round, ri := big.NewInt(40), uint32(1)
	propose := uint32(ucon.Propose)
	// the credential the message carries: issued for (cRound, cIndex, cStep, cThr)
	cRound, cIndex, cStep := new(big.Int).Set(round), ri, propose
	msgRound, msgIndex, msgStep := new(big.Int).Set(round), ri, propose
	useValThr := false
	switch kind {
	case "step-field-only":
		msgStep = 2
	case "cred-for-step-2":
		cStep, msgStep = 2, 2
	case "cred-for-step-3":
		cStep, msgStep = 3, 3
	case "cred-for-step-ground":
		cStep = 0 // chosen below: the step (2..40) whose credential gives the largest priority
	case "cred-for-other-index":
		cIndex = ri + 1
	case "cred-for-other-index-presented-there":
		cIndex, msgIndex = ri+1, ri+1
	case "cred-for-other-round":
		cRound = big.NewInt(41)
	case "cred-for-other-round-presented-there":
		cRound, msgRound = big.NewInt(41), big.NewInt(41)
	case "validator-threshold-credential":
		useValThr = true
	}
	stake, total, thr, _, _, err := w.srv.StakeInfo(cRound, w.addr, true, params.LookBackStake)
	if err != nil {
		return ""
	}
	if useValThr {
		thr = 2000
	}
	seed, err := w.srv.Seed(cRound, params.LookBackPos)
	if err != nil {
		return ""
	}
	if cStep == 0 {
		best := common.Hash{}
		for st := uint32(2); st <= 40; st++ {
			v, _, j := ucon.VrfSortition(w.vsk, seed, cIndex, st, thr, stake, total)
			if p := ucon.VrfComputePriority(v, j); cStep == 0 || ucon.CompareCommonHash(p, best) > 0 {
				best, cStep = p, st
			}
		}
		msgStep = cStep
	}
	value, proof, j := ucon.VrfSortition(w.vsk, seed, cIndex, cStep, thr, stake, total)
	cc := &ucon.ConsensusCommon{Round: msgRound, RoundIndex: msgIndex, Step: msgStep, Priority: ucon.VrfComputePriority(value, j),
		SortitionProof: proof, SubUsers: j, BlockHash: crypto.Keccak256Hash(base, []byte(kind))}
	sender := &key.PublicKey
	switch kind {
	case "seats+1":
		cc.SubUsers = j + 1
	case "seats-1":
		cc.SubUsers = j - 1
	case "priority-max":
		for i := range cc.Priority {
			cc.Priority[i] = 0xff
		}
	case "priority-bit":
		cc.Priority[17] ^= 0x20
	case "proof-bit":
		cc.SortitionProof = append([]byte{}, proof...)
		cc.SortitionProof[70] ^= 1
	case "other-sender-key":
		sender = &w.keys[1-w.who].PublicKey
	}
	// expectation: the exported verifier, step fixed to Propose by the harness, inputs the chain resolves for the MESSAGE's position
	senderAddr := crypto.PubkeyToAddress(*sender)
	mStake, mTotal, mThr, _, _, e1 := w.srv.StakeInfo(msgRound, senderAddr, true, params.LookBackStake)
	mSeed, e2 := w.srv.Seed(msgRound, params.LookBackPos)
	vpk, e3 := secp256k1VRF.NewVRFVerifier(sender)
	if e1 != nil || e2 != nil || e3 != nil {
		return ""
	}
	mk := func(step uint32) claim {
		return claim{pk: vpk, seed: mSeed, index: msgIndex, role: step, proof: cc.SortitionProof, sub: cc.SubUsers, priority: cc.Priority, thr: mThr, stake: mStake, total: mTotal}
	}
	_, vAtPropose := realVerify(mk(propose))
	_, vAtMsgStep := realVerify(mk(msgStep))
	// deliver to the real handler
	prop := w.srv.NewProposal()
	prop.SetContext(round, ri, propose)
	var perr error
	panicked := false
	blockHash := cc.BlockHash
	func() {
		defer func() {
			if r := recover(); r != nil {
				panicked = true
			}
		}()
		if path == "priority" {
			perr, _ = prop.PriorityMessage(sender, cc)
		} else {
			hdr := &types.Header{Number: new(big.Int).Set(msgRound), ParentHash: crypto.Keccak256Hash(base)}
			cons, _ := ucon.PrepareConsensusData(hdr, &ucon.BlockConsensusData{Round: msgRound, RoundIndex: msgIndex, Seed: common.Hash{9},
				SortitionProof: cc.SortitionProof, Priority: cc.Priority, SubUsers: cc.SubUsers, Signature: []byte{},
				ProposerThreshold: mThr, ValidatorThreshold: 2000, CertValThreshold: 4000})
			hdr.Consensus = cons
			blk := types.NewBlock(hdr, nil, nil)
			blockHash = blk.Hash()
			perr, _ = prop.BlockMessage(sender, blk, msgRound, msgIndex)
		}
	}()
	bp, bh, ok := prop.Best(msgRound, msgIndex)
	recorded := ok && bp == cc.Priority && bh == blockHash
	bad := ""
	report := func(kindF, class, what string) {
		if bad == "" {
			bad = class + ": " + what
		}
		if record {
			h.fail(kindF, class, body[0]+": "+what, body)
		}
	}
	want := vAtPropose == "accept"
	if recorded && !want {
		report("oracle", "oracle-priority-entry", fmt.Sprintf("the %s message (Step field %d, credential issued for round %s index %d step %d) was recorded as a priority of (round %s, index %d) although its credential does not verify as a Propose-step credential there (VrfVerifyPriority at Propose: %s, at the message's Step: %s)",
			path, msgStep, cRound, cIndex, cStep, msgRound, msgIndex, vAtPropose, vAtMsgStep))
	}
	if !recorded && want {
		report("oracle", "oracle-priority-entry", fmt.Sprintf("the %s message carries a verifying Propose credential with its largest seat hash but was not recorded (%v)", path, perr))
	}
	if h.drv != nil {
		m := h.ask(fmt.Sprintf("PP %d %s %s", msgStep, vAtPropose, vAtMsgStep))
		if record {
			h.res.TracesVsImpl++
		}
		goOut := map[bool]string{true: "accept", false: "refuse"}[recorded]
		if panicked {
			goOut = "crash"
		}
		if m != goOut {
			report("correspondence", "corr-priority-entry", fmt.Sprintf("%s message, Step %d, verdict at Propose %s / at Step %s: go=%s lean=%s", path, msgStep, vAtPropose, vAtMsgStep, goOut, m))
		}
	}
	if record {
		h.res.Dist("prio-msg-" + path + "-" + kind + "-" + map[bool]string{true: "recorded", false: "refused"}[recorded])
		h.res.Count(body[0], kind != "honest")
	}
	return bad
}

func (h *harness) prioStream(n int) {
	r := h.c.R
	for i := 0; i < n && h.err == nil; i++ {
		base := r.Bytes(16)
		keys := [][]byte{r.Bytes(32), r.Bytes(32), r.Bytes(32)}
		ok := true
		for _, k := range keys {
			if _, e := crypto.ToECDSA(k); e != nil {
				ok = false
			}
		}
		if !ok {
			continue
		}
		who := r.Intn(2)
		for _, kind := range prioKinds {
			h.prioCase(base, keys, who, "priority", kind, true)
			if !strings.HasPrefix(kind, "step-field") {
				h.prioCase(base, keys, who, "block", kind, true) // a block message has no Step field
			}
		}
	}
}
