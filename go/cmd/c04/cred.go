package main

// (d) binding oracle: real credentials produced by the exported VrfSortition with real secp256k1 VRF keys; every
// single-field perturbation must be rejected by the exported VrfVerifySortition / VrfVerifyPriority. Perturbations of the
// verifier's own stake parameters (threshold, stake, total) must be accepted exactly when the recomputed seat count is
// unchanged. Every verdict is also compared with the Lean model (the VRF result is handed to the model: the VRF is abstract
// there).

import (
	"crypto/ecdsa"
	"encoding/hex"
	"fmt"
	"math/big"
	"strconv"
	"strings"

	"github.com/youchainhq/go-youchain/common"
	"github.com/youchainhq/go-youchain/consensus/ucon"
	"github.com/youchainhq/go-youchain/crypto"
	"github.com/youchainhq/go-youchain/crypto/vrf"
	secp256k1VRF "github.com/youchainhq/go-youchain/crypto/vrf/secp256k1"
)

type keyPair struct {
	sk vrf.PrivateKey
	pk vrf.PublicKey
}

func keyFrom(b []byte) (keyPair, bool) {
	k, err := crypto.ToECDSA(b)
	if err != nil {
		return keyPair{}, false
	}
	sk, err := secp256k1VRF.NewVRFSigner(k)
	if err != nil {
		return keyPair{}, false
	}
	var pub *ecdsa.PublicKey = &k.PublicKey
	pk, err := secp256k1VRF.NewVRFVerifier(pub)
	if err != nil {
		return keyPair{}, false
	}
	return keyPair{sk, pk}, true
}

type credBase struct {
	skBytes     []byte
	seed        common.Hash
	index, role uint32
	thr         uint64
	stake       int64
	total       *big.Int
}

func (b credBase) text() string {
	return fmt.Sprintf("cred %s %s %d %d %d %d %s", hex.EncodeToString(b.skBytes), hex.EncodeToString(b.seed[:]), b.index, b.role, b.thr, b.stake, b.total.String())
}

// what the verifier is given
type claim struct {
	pk          vrf.PublicKey
	seed        common.Hash
	index, role uint32
	proof       []byte
	sub         uint32
	priority    common.Hash
	thr         uint64
	stake       *big.Int
	total       *big.Int
}

func realVerify(c claim) (vs, vp string) {
	func() {
		defer func() {
			if r := recover(); r != nil {
				vs = "crash"
			}
		}()
		ok, err := ucon.VrfVerifySortition(c.pk, c.seed, c.index, c.role, c.proof, c.sub, c.thr, c.stake, c.total)
		vs = classifyErr(ok, err)
	}()
	func() {
		defer func() {
			if r := recover(); r != nil {
				vp = "crash"
			}
		}()
		ok, err := ucon.VrfVerifyPriority(c.pk, c.seed, c.index, c.role, c.proof, c.priority, c.sub, c.thr, c.stake, c.total)
		vp = classifyErr(ok, err)
	}()
	return
}

func (h *harness) leanVerify(c claim) (vs, vp string) {
	if h.drv == nil {
		return "", ""
	}
	vrfRes := "err"
	func() {
		defer func() { recover() }()
		if hash, err := c.pk.ProofToHash(ucon.MakeM(c.seed, c.role, c.index), c.proof); err == nil {
			vrfRes = "ok:" + hex.EncodeToString(hash[:])
		}
	}()
	n := int64(0)
	if c.stake.IsInt64() {
		n = c.stake.Int64()
	}
	vs = h.askChoose(fmt.Sprintf("VS %s %d %s %d %s", c.total.String(), c.thr, c.stake.String(), c.sub, vrfRes), n)
	vp = h.askChoose(fmt.Sprintf("VP %s %d %s %d %s %s", c.total.String(), c.thr, c.stake.String(), c.sub, vrfRes, hex.EncodeToString(c.priority[:])), n)
	return
}

type pert struct {
	kind string
	arg  int
}

func (p pert) String() string { return p.kind + ":" + strconv.Itoa(p.arg) }

// expectation classes
const (
	expReject    = "must-reject"     // bound field changed
	expRecompute = "recompute"       // verifier-side parameter changed: accepted iff the recomputed seat count is unchanged
	expPrioOnly  = "priority-reject" // only the priority changed: VrfVerifyPriority must say false, VrfVerifySortition unaffected
	expSame      = "same"            // baseline
)

// apply builds the perturbed claim. other = a second key pair; value = the VRF output of the base credential.
func applyPert(base claim, p pert, b credBase, kp, other keyPair, value common.Hash) (claim, string, bool) {
	c := base
	c.proof = append([]byte{}, base.proof...)
	switch p.kind {
	case "none":
		return c, expSame, true
	case "key":
		c.pk = other.pk
		return c, expReject, true
	case "seed-bit":
		c.seed[p.arg/8%32] ^= 1 << uint(p.arg%8)
		return c, expReject, true
	case "index":
		c.index = base.index + uint32(p.arg)
		return c, expReject, c.index != base.index
	case "role":
		c.role = base.role + uint32(p.arg)
		return c, expReject, c.role != base.role
	case "swap-role-index":
		c.role, c.index = base.index, base.role
		return c, expReject, base.role != base.index
	case "sub":
		c.sub = base.sub + uint32(p.arg)
		return c, expReject, c.sub != base.sub
	case "sub-zero":
		c.sub = 0
		return c, expReject, base.sub != 0
	case "proof-bit":
		if len(c.proof) == 0 {
			return c, expReject, false
		}
		i := p.arg % (len(c.proof) * 8)
		c.proof[i/8] ^= 1 << uint(i%8)
		return c, expReject, true
	case "proof-trunc":
		if len(c.proof) == 0 {
			return c, expReject, false
		}
		c.proof = c.proof[:len(c.proof)-1]
		return c, expReject, true
	case "proof-extend":
		c.proof = append(c.proof, byte(p.arg))
		return c, expReject, true
	case "proof-empty":
		c.proof = nil
		return c, expReject, true
	case "proof-zero":
		c.proof = make([]byte, 129)
		return c, expReject, true
	case "vrf-other-key": // a valid proof of another key for the same message
		_, pr := other.sk.Evaluate(ucon.MakeM(base.seed, base.role, base.index))
		c.proof = pr
		return c, expReject, pr != nil
	case "vrf-other-message": // a valid proof of the same key for another message
		_, pr := kp.sk.Evaluate(ucon.MakeM(base.seed, base.role, base.index+1))
		c.proof = pr
		return c, expReject, pr != nil
	case "vrf-value-swap": // keep (s,t), replace the VRF point by another valid point
		_, pr := other.sk.Evaluate(ucon.MakeM(base.seed, base.role, base.index))
		if pr == nil || len(pr) != 129 || len(c.proof) != 129 {
			return c, expReject, false
		}
		copy(c.proof[64:], pr[64:])
		return c, expReject, true
	case "priority-bit":
		c.priority[p.arg/8%32] ^= 1 << uint(p.arg%8)
		return c, expPrioOnly, true
	case "priority-zero":
		c.priority = common.Hash{}
		return c, expPrioOnly, base.priority != common.Hash{}
	case "priority-fewer-seats":
		if base.sub == 0 {
			return c, expPrioOnly, false
		}
		c.priority = ucon.VrfComputePriority(value, base.sub-1)
		return c, expPrioOnly, c.priority != base.priority
	case "priority-one-hash": // the hash of one seat that is not the maximum
		for i := uint32(0); i <= base.sub && i < 64; i++ {
			hh := crypto.Keccak256Hash(append(append([]byte{}, value[:]...), new(big.Int).SetUint64(uint64(i)).Bytes()...))
			if hh != base.priority {
				c.priority = hh
				return c, expPrioOnly, true
			}
		}
		return c, expPrioOnly, false
	case "threshold":
		t := int64(base.thr) + int64(p.arg)
		if t < 0 {
			return c, expRecompute, false
		}
		c.thr = uint64(t)
		return c, expRecompute, c.thr != base.thr
	case "threshold-double":
		c.thr = base.thr * 2
		return c, expRecompute, true
	case "stake":
		s := new(big.Int).Add(base.stake, big.NewInt(int64(p.arg)))
		if s.Sign() < 0 {
			return c, expRecompute, false
		}
		c.stake = s
		return c, expRecompute, true
	case "stake-double":
		c.stake = new(big.Int).Mul(base.stake, big.NewInt(2))
		return c, expRecompute, true
	case "total":
		s := new(big.Int).Add(base.total, big.NewInt(int64(p.arg)))
		if s.Sign() <= 0 {
			return c, expRecompute, false
		}
		c.total = s
		return c, expRecompute, true
	case "total-double":
		c.total = new(big.Int).Mul(base.total, big.NewInt(2))
		return c, expRecompute, true
	case "total-zero":
		c.total = big.NewInt(0)
		return c, expReject, true
	}
	return c, "", false
}

func pertList(r interface{ Intn(int) int }) []pert {
	return []pert{
		{"none", 0}, {"key", 0}, {"seed-bit", r.Intn(256)}, {"seed-bit", r.Intn(256)},
		{"index", 1}, {"index", -1}, {"index", 1 + r.Intn(1<<20)}, {"role", 1}, {"role", -1}, {"role", 1 + r.Intn(1<<20)}, {"swap-role-index", 0},
		{"sub", 1}, {"sub", -1}, {"sub", 1 << 31}, {"sub-zero", 0},
		{"proof-bit", r.Intn(256)}, {"proof-bit", 256 + r.Intn(256)}, {"proof-bit", 512 + r.Intn(520)}, {"proof-trunc", 0}, {"proof-extend", r.Intn(256)}, {"proof-empty", 0}, {"proof-zero", 0},
		{"vrf-other-key", 0}, {"vrf-other-message", 0}, {"vrf-value-swap", 0},
		{"priority-bit", r.Intn(256)}, {"priority-zero", 0}, {"priority-fewer-seats", 0}, {"priority-one-hash", 0},
		{"threshold", 1}, {"threshold", -1}, {"threshold-double", 0}, {"stake", 1}, {"stake", -1}, {"stake-double", 0}, {"total", 1}, {"total", -1}, {"total-double", 0}, {"total-zero", 0},
	}
}

// credCase runs one perturbation of the credential derived from b; returns what failed ("" = fine).
func (h *harness) credCase(b credBase, p pert, record bool) string {
	kp, ok := keyFrom(b.skBytes)
	if !ok {
		return ""
	}
	ob := crypto.Keccak256(b.skBytes)
	other, ok := keyFrom(ob)
	if !ok {
		return ""
	}
	body := []string{b.text() + " " + p.String()}
	bad := ""
	report := func(kind, class, what string) {
		if bad == "" {
			bad = class + ": " + what
		}
		if record {
			h.fail(kind, class, body[0]+": "+what, body)
		}
	}
	stake := big.NewInt(b.stake)
	value, proof, j := ucon.VrfSortition(kp.sk, b.seed, b.index, b.role, b.thr, stake, b.total)
	if proof == nil {
		return ""
	}
	// prover side: the value is the VRF hash of MakeM(seed, role, index) and j = choose(value, stake, p)
	if p.kind == "none" {
		if hv, err := kp.pk.ProofToHash(ucon.MakeM(b.seed, b.role, b.index), proof); err != nil || hv != [32]byte(value) {
			report("oracle", "oracle-cred-prover", "VrfSortition's proof does not verify to its value under MakeM(seed, role, index)")
		}
		if jj, pan := realChoose(new(big.Int).SetBytes(value[:]), b.stake, goP(b.thr, b.total)); pan || uint32(jj) != j {
			report("oracle", "oracle-cred-prover", fmt.Sprintf("VrfSortition's j=%d differs from choose(value)=%d", j, jj))
		}
	}
	base := claim{pk: kp.pk, seed: b.seed, index: b.index, role: b.role, proof: proof, sub: j,
		priority: ucon.VrfComputePriority(value, j), thr: b.thr, stake: stake, total: b.total}
	c, exp, applicable := applyPert(base, p, b, kp, other, value)
	if !applicable {
		return ""
	}
	vs, vp := realVerify(c)
	if h.drv != nil {
		ls, lp := h.leanVerify(c)
		if record {
			h.res.TracesVsImpl += 2
		}
		if ls != vs {
			report("correspondence", "corr-verify-sortition", fmt.Sprintf("VrfVerifySortition: go=%s lean=%s", vs, ls))
		}
		if lp != vp {
			report("correspondence", "corr-verify-priority", fmt.Sprintf("VrfVerifyPriority: go=%s lean=%s", vp, lp))
		}
	}
	baseVS := "accept"
	if j == 0 {
		baseVS = "notValidator"
	}
	switch exp {
	case expSame:
		if vs != baseVS || vp != "accept" {
			report("oracle", "oracle-cred-honest", fmt.Sprintf("honest credential (j=%d): VrfVerifySortition=%s VrfVerifyPriority=%s", j, vs, vp))
		}
	case expReject:
		if vs == "accept" {
			report("oracle", "oracle-binding-sortition", "VrfVerifySortition accepted a credential with a perturbed "+p.kind)
		}
		if vp == "accept" {
			report("oracle", "oracle-binding-priority", "VrfVerifyPriority accepted a credential with a perturbed "+p.kind)
		}
	case expPrioOnly:
		if vs != baseVS {
			report("oracle", "oracle-cred-honest", "VrfVerifySortition changed its verdict although only the priority changed: "+vs)
		}
		if vp != "priorityMismatch" {
			report("oracle", "oracle-binding-priority", "VrfVerifyPriority did not refuse a priority that is not the largest seat hash: "+vp)
		}
	case expRecompute:
		p2 := goP(c.thr, c.total)
		if c.stake.IsInt64() {
			j2, pan := realChoose(new(big.Int).SetBytes(value[:]), c.stake.Int64(), p2)
			if !pan {
				wantVS, wantVP := "subUsersMismatch", "subUsersMismatch"
				if uint32(j2) == j {
					wantVS, wantVP = "accept", "accept"
				}
				if j2 <= 0 {
					wantVS = "notValidator"
				}
				if vs != wantVS {
					report("oracle", "oracle-binding-sortition", fmt.Sprintf("perturbed %s: recomputed seats %d vs claimed %d but VrfVerifySortition=%s", p.kind, j2, j, vs))
				}
				if vp != wantVP {
					report("oracle", "oracle-binding-priority", fmt.Sprintf("perturbed %s: recomputed seats %d vs claimed %d but VrfVerifyPriority=%s", p.kind, j2, j, vp))
				}
				if record {
					if uint32(j2) == j {
						h.res.Dist("cred-recompute-same-seats")
					} else {
						h.res.Dist("cred-recompute-different-seats")
					}
				}
			}
		}
	}
	if record {
		h.res.Dist("cred-" + p.kind)
		h.res.Dist("cred-verdict-sortition-" + vs)
		h.res.Dist("cred-verdict-priority-" + vp)
		h.res.Count(body[0], p.kind != "none" || j > 0)
	}
	return bad
}

func (h *harness) credentials(n int) {
	r := h.c.R
	winners := 0
	for i := 0; i < n && h.err == nil; i++ {
		var b credBase
		b.skBytes = r.Bytes(32)
		if _, ok := keyFrom(b.skBytes); !ok {
			continue
		}
		copy(b.seed[:], r.Bytes(32))
		b.index = uint32(r.Intn(4))
		b.role = uint32(r.Range(1, 5))
		if r.Chance(10) {
			b.index, b.role = uint32(r.U64()), uint32(r.U64())
		}
		b.thr = []uint64{26, 2000, 4000}[r.Intn(3)]
		b.stake = []int64{8880000, 1580000, 10000000, 1800000, int64(r.Range(1580000, 10000000))}[r.Intn(5)]
		if r.Chance(15) {
			b.stake = int64(r.Range(1, 3000))
		}
		// expected seats between 0.3 and 80
		mean := float64(r.Range(3, 800)) / 10
		t := int64(float64(b.stake) * float64(b.thr) / mean)
		if t < int64(b.thr) {
			t = int64(b.thr)
		}
		if t < b.stake {
			t = b.stake
		}
		b.total = big.NewInt(t)
		for _, p := range pertList(r) {
			h.credCase(b, p, true)
		}
		kp, _ := keyFrom(b.skBytes)
		if _, _, j := ucon.VrfSortition(kp.sk, b.seed, b.index, b.role, b.thr, big.NewInt(b.stake), b.total); j > 0 {
			winners++
		}
	}
	h.res.DistN("cred-credentials", n)
	h.res.DistN("cred-winners(j>0)", winners)
}

// parse "cred sk seed index role thr stake total kind:arg"
func parseCred(f []string) (credBase, pert, bool) {
	var b credBase
	if len(f) != 9 {
		return b, pert{}, false
	}
	var err error
	if b.skBytes, err = hex.DecodeString(f[1]); err != nil {
		return b, pert{}, false
	}
	sb, err := hex.DecodeString(f[2])
	if err != nil || len(sb) != 32 {
		return b, pert{}, false
	}
	copy(b.seed[:], sb)
	i, _ := strconv.ParseUint(f[3], 10, 32)
	ro, _ := strconv.ParseUint(f[4], 10, 32)
	b.index, b.role = uint32(i), uint32(ro)
	b.thr, _ = strconv.ParseUint(f[5], 10, 64)
	b.stake, _ = strconv.ParseInt(f[6], 10, 64)
	var ok bool
	if b.total, ok = new(big.Int).SetString(f[7], 10); !ok {
		return b, pert{}, false
	}
	ka := strings.SplitN(f[8], ":", 2)
	if len(ka) != 2 {
		return b, pert{}, false
	}
	a, _ := strconv.Atoi(ka[1])
	return b, pert{ka[0], a}, true
}
