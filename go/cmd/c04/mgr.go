package main

// The live prover path: a real SortitionManager (consensus/ucon/sortition_mgr.go), built as Server.StartMining builds it — on
// the Server's real getLookbackStakeInfo / getLookBackSeed over a scripted chain in which every block number has its own
// seed and one of three validator-stake tables — is driven with sequences of isProposer / isValidator / GetStepView queries
// and ClearStepView calls in adversarial orders (queries for round r+1 before its clear, stale queries for r after it,
// repeats, several indices and steps, three validators incl. a non-chamber one).
// Oracle (cache transparency + binding): every credential the manager hands out for (round, index, step) must equal a
// freshly computed VrfSortition for exactly these inputs (same VRF value behind the proof, same seat count, same priority,
// same threshold) and must verify under the exported VrfVerifySortition / VrfVerifyPriority for the seed of THAT round.
// Correspondence: the Lean model of the cache (Mgr.query / Mgr.clear, theorem cache_transparent) predicts for which inputs
// the handed-out credential was computed; the harness identifies the real one by its proof.

import (
	"crypto/ecdsa"
	"encoding/hex"
	"fmt"
	"math/big"
	"strconv"
	"strings"

	"github.com/youchainhq/go-youchain/common"
	"github.com/youchainhq/go-youchain/consensus/ucon"
	"github.com/youchainhq/go-youchain/core/state"
	"github.com/youchainhq/go-youchain/core/types"
	"github.com/youchainhq/go-youchain/crypto"
	"github.com/youchainhq/go-youchain/crypto/vrf"
	secp256k1VRF "github.com/youchainhq/go-youchain/crypto/vrf/secp256k1"
	"github.com/youchainhq/go-youchain/params"
	"verifharness/internal/vh"
)

// numChain: every block number has its own header (seed) and one of three validator readers.
type fork struct {
	at uint64
	id int
}

type numChain struct {
	stubChain
	forks   []fork // re-orgs so far: blocks with number >= at belong to branch id
	nextID  int
	base    []byte
	version params.YouVersion
	readers [3]state.ValidatorReader
	hdrs    map[uint64]*types.Header
}

func (c *numChain) header(n uint64) *types.Header {
	if h, ok := c.hdrs[n]; ok {
		return h
	}
	br := c.branchOf(n)
	ver := c.version
	if (uint64(c.base[1])+n+uint64(br))%2 == 1 {
		ver = altVersion // blocks alternate between two protocol versions with different committees
	}
	vp := params.Versions[ver]
	h := &types.Header{Number: new(big.Int).SetUint64(n), ValRoot: common.Hash{byte((n+uint64(br))%3 + 1)}, CurrVersion: ver}
	seed := crypto.Keccak256Hash(c.base, []byte{byte(br)}, new(big.Int).SetUint64(n+1).Bytes())
	cons, _ := ucon.PrepareConsensusData(h, &ucon.BlockConsensusData{Round: new(big.Int).SetUint64(n), RoundIndex: 1, Seed: seed,
		SortitionProof: []byte{}, Signature: []byte{}, ProposerThreshold: vp.ProposerThreshold, ValidatorThreshold: vp.ValidatorThreshold, CertValThreshold: vp.CertValThreshold})
	h.Consensus = cons
	c.hdrs[n] = h
	return h
}

// branchOf: the branch the block with this number belongs to now
func (c *numChain) branchOf(n uint64) int {
	id := 0
	for _, f := range c.forks {
		if f.at <= n {
			id = f.id
		}
	}
	return id
}

// rebranch: a re-org replaces every block with number >= at by a block of a new branch (other seeds, other stake tables)
func (c *numChain) rebranch(at uint64) {
	var keep []fork
	for _, f := range c.forks {
		if f.at < at {
			keep = append(keep, f)
		}
	}
	c.nextID++
	c.forks = append(keep, fork{at, c.nextID})
	c.hdrs = map[uint64]*types.Header{}
}

func (c *numChain) CurrentHeader() *types.Header                            { return c.header(0) }
func (c *numChain) GetHeader(hash common.Hash, number uint64) *types.Header { return c.header(number) }
func (c *numChain) GetHeaderByNumber(number uint64) *types.Header           { return c.header(number) }
func (c *numChain) GetVldReader(root common.Hash) (state.ValidatorReader, error) {
	if root[0] >= 1 && root[0] <= 3 {
		return c.readers[root[0]-1], nil
	}
	return nil, fmt.Errorf("no reader")
}

type mgrWorld struct {
	ch   *numChain
	yp   *params.YouParams
	ver  *ucon.VerifC04Server // the live verifier: a node at (round 1, index 1), never lenient for the positions asked
	srv  *ucon.VerifC04Server
	keys []*ecdsa.PrivateKey
	who  int
	sm   *ucon.SortitionManager
	vsk  vrf.PrivateKey
	vpk  vrf.PublicKey
	addr common.Address
}

func newMgrWorld(base []byte, keyBytes [][]byte, who int) (*mgrWorld, error) {
	if !paramsInit {
		params.InitNetworkId(params.NetworkIdForTestCase)
		paramsInit = true
	}
	installAltVersion()
	top := topVersion()
	ypv := params.Versions[top]
	ypc := ypv.DeepCopy()
	yp := &ypc
	// in force: committees that differ from those of BOTH versions the look-back headers carry (top: 26/2000/4000, alt: 20/1500/3000)
	yp.ProposerThreshold, yp.ValidatorThreshold, yp.CertValThreshold = 26, 2000, 1000
	yp.SeedLookBack, yp.StakeLookBack = 2, 3
	w := &mgrWorld{who: who % len(keyBytes)}
	ch := &numChain{base: base, version: top, hdrs: map[uint64]*types.Header{}}
	ch.yp = yp
	for _, kb := range keyBytes {
		k, err := crypto.ToECDSA(kb)
		if err != nil {
			return nil, err
		}
		w.keys = append(w.keys, k)
	}
	for t := 0; t < 3; t++ {
		vld := &stubVld{vals: map[common.Address]*state.Validator{}, stat: state.NewValidatorsStat()}
		for i, k := range w.keys {
			role := params.RoleChancellor
			if i == 2 {
				role = params.RoleHouse // a validator outside the chamber: never selected
			}
			st := int64(20000*(i+1)) * int64(t+1)
			v := state.NewValidator(fmt.Sprintf("v%d", i), common.Address{byte(i + 1)}, common.Address{byte(i + 1)}, role,
				crypto.CompressPubkey(&k.PublicKey), nil, big.NewInt(st*1000), big.NewInt(st), 0, 0, 0, params.ValidatorOnline)
			vld.vals[crypto.PubkeyToAddress(k.PublicKey)] = v
			vld.stat.GetByKind(v.Kind()).AddVal(v)
			vld.stat.GetByKind(params.KindValidator).AddVal(v)
		}
		// an OFFLINE chamber member: counts in the kind's offline stake only; the committee fraction is over ONLINE stake
		if ok, err := crypto.ToECDSA(crypto.Keccak256(keyBytes[0])); err == nil {
			st := int64(40000) * int64(t+1)
			v := state.NewValidator("offline", common.Address{9}, common.Address{9}, params.RoleChancellor,
				crypto.CompressPubkey(&ok.PublicKey), nil, big.NewInt(st*1000), big.NewInt(st), 0, 0, 0, params.ValidatorOffline)
			vld.vals[crypto.PubkeyToAddress(ok.PublicKey)] = v
			vld.stat.GetByKind(v.Kind()).AddVal(v)
			vld.stat.GetByKind(params.KindValidator).AddVal(v)
		}
		ch.readers[t] = vld
	}
	w.ch, w.yp = ch, yp
	w.ver = ucon.NewVerifC04Server(ch, yp, big.NewInt(1), 1)
	w.srv = ucon.NewVerifC04Server(ch, yp, big.NewInt(40), 1)
	key := w.keys[w.who]
	var err error
	if w.sm, err = w.srv.NewSortitionManager(key); err != nil {
		return nil, err
	}
	if w.vsk, err = secp256k1VRF.NewVRFSigner(key); err != nil {
		return nil, err
	}
	if w.vpk, err = secp256k1VRF.NewVRFVerifier(&key.PublicKey); err != nil {
		return nil, err
	}
	w.addr = crypto.PubkeyToAddress(key.PublicKey)
	return w, nil
}

type mkey struct {
	round       int64
	index, step uint32
}

func lbOf(step uint32) params.LookBackType {
	if step == uint32(ucon.Certificate) {
		return params.LookBackCert
	}
	return params.LookBackPos
}

type fresh struct {
	eligible bool
	seed     common.Hash
	value    common.Hash
	j        uint32
	thr      uint64 // committee derived independently (expectedCommittee)
	thrCode  uint64 // committee Server.getLookbackStakeInfo returns
	infoOK   bool
	proof    []byte
	stake    *big.Int
	total    *big.Int
}

// expectedCommittee: the committee of a credential kind, derived from the chain data and the parameters independently of
// Server.getLookbackStakeInfo — proposer / vote: parameters in force; Certificate: the committee recorded for the protocol
// version of the certificate look-back header (round - 2*ACoCHTFrequency, or genesis), which is also what header verification
// reads (the CertValThreshold field of that header's consensus data).
func (w *mgrWorld) expectedCommittee(k mkey) (thr uint64, kindName string, lbVersion params.YouVersion) {
	switch {
	case k.step == ucon.UConStepProposal:
		return w.yp.ProposerThreshold, "propose", 0
	case k.step == uint32(ucon.Certificate):
		n := uint64(0)
		if uint64(k.round) > 2*params.ACoCHTFrequency {
			n = uint64(k.round) - 2*params.ACoCHTFrequency
		}
		hdr := w.ch.header(n)
		cd, err := ucon.GetConsensusDataFromHeader(hdr)
		if err != nil {
			return 0, "certificate", hdr.CurrVersion
		}
		return cd.CertValThreshold, "certificate", hdr.CurrVersion
	default:
		return w.yp.ValidatorThreshold, "vote", 0
	}
}

// freshFor computes, independently of the manager, the credential for exactly (round, index, step).
func (w *mgrWorld) freshFor(k mkey) fresh {
	isProp := k.step == ucon.UConStepProposal
	lb := lbOf(k.step)
	stakeLB := lb
	if isProp {
		stakeLB = params.LookBackStake
	}
	stake, total, thrCode, kind, status, err := w.srv.StakeInfo(big.NewInt(k.round), w.addr, isProp, stakeLB)
	thr, _, _ := w.expectedCommittee(k)
	f := fresh{thr: thr, thrCode: thrCode, infoOK: err == nil, stake: stake, total: total}
	if err != nil || kind != params.KindChamber || (!isProp && status == params.ValidatorOffline) || total == nil || total.Sign() <= 0 {
		return f
	}
	seed, err := w.srv.Seed(big.NewInt(k.round), lb)
	if err != nil {
		return f
	}
	f.eligible, f.seed = true, seed
	f.value, f.proof, f.j = ucon.VrfSortition(w.vsk, seed, k.index, k.step, thr, stake, total)
	return f
}

// checkView: does the handed-out view carry the credential issued for exactly k? ("" = yes)
func (w *mgrWorld) checkView(k mkey, f fresh, v *ucon.StepView) string {
	if !f.eligible {
		if v != nil && (v.SubUsers != 0 || len(v.SortitionProof) != 0) {
			return "a credential was handed out although the validator is not eligible"
		}
		return ""
	}
	hv, err := w.vpk.ProofToHash(ucon.MakeM(f.seed, k.step, k.index), v.SortitionProof)
	if err != nil {
		return "its proof does not verify for MakeM(seed of this round, step, index)"
	}
	if common.Hash(hv) != f.value {
		return "its proof verifies to another VRF value"
	}
	if v.SubUsers != f.j {
		return fmt.Sprintf("seat count %d, a fresh VrfSortition for these inputs gives %d", v.SubUsers, f.j)
	}
	if v.Priority != ucon.VrfComputePriority(f.value, f.j) {
		return "priority differs from VrfComputePriority(value, seats)"
	}
	if v.Threshold != f.thr {
		return fmt.Sprintf("threshold %d, look-back gives %d", v.Threshold, f.thr)
	}
	vs, vp := realVerify(claim{pk: w.vpk, seed: f.seed, index: k.index, role: k.step, proof: v.SortitionProof, sub: v.SubUsers,
		priority: v.Priority, thr: f.thr, stake: f.stake, total: f.total})
	want := "accept"
	if f.j == 0 {
		want = "notValidator"
	}
	if vs != want || vp != "accept" {
		return fmt.Sprintf("exported verifiers say %s/%s for this round's seed (want %s/accept)", vs, vp, want)
	}
	return ""
}

// headerVotes: the third code path. The Precommit / Certificate credentials the live prover issues (fresh, for the protocol
// committee and the live path's stake inputs) of BOTH chamber validators are put, signed, into a header's vote list and
// given to the real Server.verifyVotes (what VerifyHeader runs): it must count exactly the seat counts the provers were
// issued — quorum reached iff OverThreshold(j1 + j2) — and must not count an inflated seat count.
func (w *mgrWorld) headerVotes(base []byte, k mkey, fr fresh) string {
	if w.who > 1 || !fr.eligible {
		return ""
	}
	isCert := k.step == uint32(ucon.Certificate)
	lb := lbOf(k.step)
	stakeType := params.LookBackStake
	if isCert {
		stakeType = params.LookBackCertStake
	}
	round := big.NewInt(k.round)
	other := w.keys[1-w.who]
	stakeO, totalO, _, _, _, err := w.srv.StakeInfo(round, crypto.PubkeyToAddress(other.PublicKey), false, lb)
	if err != nil {
		return ""
	}
	vskO, err := secp256k1VRF.NewVRFSigner(other)
	if err != nil {
		return ""
	}
	_, proofO, jO := ucon.VrfSortition(vskO, fr.seed, k.index, k.step, fr.thr, stakeO, totalO)
	hh := crypto.Keccak256(base, round.Bytes(), []byte{byte(k.index), byte(k.step)})
	payload := append(append([]byte{}, hh...), append(round.Bytes(), byte(k.index>>24), byte(k.index>>16), byte(k.index>>8), byte(k.index))...)
	sigMe, e1 := ucon.Sign(w.keys[w.who], payload)
	sigO, e2 := ucon.Sign(other, payload)
	reader, e3 := w.srv.S.GetLookBackVldReader(&w.yp.CaravelParams, round, stakeType)
	if e1 != nil || e2 != nil || e3 != nil {
		return ""
	}
	run := func(votes []ucon.SingleVote) (err error) {
		defer func() {
			if rec := recover(); rec != nil {
				err = fmt.Errorf("panic: %v", rec)
			}
		}()
		return w.ver.VerifyVotes(reader, hh, fr.seed, round, k.index, fr.thr, votes, k.step, params.KindChamber, !isCert)
	}
	votes := []ucon.SingleVote{{Votes: fr.j, Proof: fr.proof, Signature: sigMe}, {Votes: jO, Proof: proofO, Signature: sigO}}
	want := ucon.OverThreshold(fr.j+jO, fr.thr, !isCert)
	if got := run(votes); (got == nil) != want {
		return fmt.Sprintf("header-side verifyVotes says %v for the two honestly issued credentials (%d + %d seats of committee %d, quorum reached: %v): prover, live verifier and header verification must agree on j", got, fr.j, jO, fr.thr, want)
	}
	votes[0].Votes = fr.j + 1000
	want = ucon.OverThreshold(jO, fr.thr, !isCert)
	if got := run(votes); (got == nil) != want {
		return fmt.Sprintf("header-side verifyVotes says %v when one vote claims %d seats instead of %d (only %d seats verify)", got, fr.j+1000, fr.j, jO)
	}
	return ""
}

// originOf identifies for which of the inputs asked so far the view's proof was issued.
func (w *mgrWorld) originOf(v *ucon.StepView, asked mkey, universe []mkey) string {
	try := func(k mkey) bool {
		f := w.freshFor(k)
		if !f.eligible {
			return false
		}
		hv, err := w.vpk.ProofToHash(ucon.MakeM(f.seed, k.step, k.index), v.SortitionProof)
		return err == nil && common.Hash(hv) == f.value
	}
	if try(asked) {
		return fmt.Sprintf("%d %d %d", asked.round, asked.index, asked.step)
	}
	for _, k := range universe {
		if k != asked && try(k) {
			return fmt.Sprintf("%d %d %d", k.round, k.index, k.step)
		}
	}
	return "unknown"
}

// mgrScript runs one op script ("C r" | "P r i" | "V r i step" | "G r i step", ';'-separated); returns what failed.
func (h *harness) mgrScript(base []byte, keyBytes [][]byte, who int, script string, record bool) string {
	w, err := newMgrWorld(base, keyBytes, who)
	if err != nil {
		return ""
	}
	hexKeys := ""
	for _, kb := range keyBytes {
		hexKeys += hex.EncodeToString(kb) + ","
	}
	body := []string{fmt.Sprintf("mgr %s %s %d %s", hex.EncodeToString(base), hexKeys, who, strings.ReplaceAll(script, " ", "_"))}
	bad := ""
	report := func(kind, class, what string) {
		if bad == "" {
			bad = class + ": " + what
		}
		if record {
			h.fail(kind, class, what, body)
		}
	}
	// the Server's other look-back readers agree with the scripted state (two chamber validators, this validator known)
	if n := w.srv.ValidatorsCount(big.NewInt(40), params.KindChamber, params.LookBackPos); n != 2 {
		report("oracle", "oracle-lookback", fmt.Sprintf("getLookbackValidatorsCount = %d, the look-back state has 2 chamber validators", n))
	}
	if v, _ := w.srv.S.GetLookBackValidator(big.NewInt(12), w.addr, params.LookBackPos); v == nil || v.MainAddress() != w.addr {
		report("oracle", "oracle-lookback", "GetLookBackValidator does not return this validator")
	}
	// seed look-back 2: round 12 looks back to block 10
	if hh, err := w.srv.S.GetLookBackBlockHash(nil, big.NewInt(12), params.LookBackPos); err != nil || hh != w.ch.header(10).Hash() {
		report("oracle", "oracle-lookback", "GetLookBackBlockHash(12) is not the hash of block 10")
	}
	h.ask("MR")
	var universe []mkey
	seen := map[mkey]bool{}
	handed := 0
	for _, op := range strings.Split(script, ";") {
		f := strings.Fields(op)
		if len(f) < 2 {
			continue
		}
		r, _ := strconv.ParseInt(f[1], 10, 64)
		if f[0] == "C" {
			w.sm.ClearStepView(big.NewInt(r))
			h.ask(fmt.Sprintf("MC %d", r))
			continue
		}
		if f[0] == "W" {
			// head rewind / re-org: the Server is back in round r (head r-1); blocks from `at` on belong to a new branch;
			// StartNewRound -> clearData notifies ClearStepView(head round + 1)
			at := uint64(r)
			if len(f) >= 3 {
				at, _ = strconv.ParseUint(f[2], 10, 64)
			}
			w.ch.rebranch(at)
			w.sm.ClearStepView(big.NewInt(r))
			h.ask(fmt.Sprintf("MW %d", r))
			if record {
				h.res.Dist("mgr-op-W")
			}
			continue
		}
		if len(f) < 3 {
			continue
		}
		i64, _ := strconv.ParseUint(f[2], 10, 32)
		k := mkey{round: r, index: uint32(i64), step: ucon.UConStepProposal}
		if f[0] != "P" {
			if len(f) < 4 {
				continue
			}
			s64, _ := strconv.ParseUint(f[3], 10, 32)
			k.step = uint32(s64)
		}
		if !seen[k] {
			seen[k] = true
			universe = append(universe, k)
		}
		fr := w.freshFor(k)
		// the committee: Server.getLookbackStakeInfo vs the independent derivation vs the Lean model
		if fr.infoOK {
			thrE, kindName, lbv := w.expectedCommittee(k)
			if fr.thrCode != thrE {
				report("oracle", "oracle-committee-source", fmt.Sprintf("%s: getLookbackStakeInfo gives committee %d for a %s credential; the protocol committee (%s) is %d", op, fr.thrCode, kindName,
					map[bool]string{true: fmt.Sprintf("CertValThreshold recorded for version %d of the certificate look-back header", lbv), false: "parameters in force"}[kindName == "certificate"], thrE))
			}
			if h.drv != nil {
				lp, known := params.Versions[lbv]
				kn := "0"
				if known {
					kn = "1"
				}
				m := h.ask(fmt.Sprintf("CM %s %d %d %d %s %d %d %d", kindName, w.yp.ProposerThreshold, w.yp.ValidatorThreshold, w.yp.CertValThreshold, kn, lp.ProposerThreshold, lp.ValidatorThreshold, lp.CertValThreshold))
				if record {
					h.res.TracesVsImpl++
				}
				if m != strconv.FormatUint(fr.thrCode, 10) {
					report("correspondence", "corr-committee", fmt.Sprintf("%s: committee of a %s credential: go=%d lean=%s", op, kindName, fr.thrCode, m))
				}
			}
			if record {
				h.res.Dist("mgr-committee-" + kindName)
			}
		}
		// the LIVE VERIFIER (a node that is not lenient for this position) accepts the credential issued for the protocol committee
		if fr.eligible && f[0] != "G" {
			var lerr error
			func() {
				defer func() {
					if rec := recover(); rec != nil {
						lerr = fmt.Errorf("panic: %v", rec)
					}
				}()
				if f[0] == "P" {
					lerr = w.ver.VerifyPriority(&w.keys[w.who].PublicKey, &ucon.ConsensusCommon{Round: big.NewInt(r), RoundIndex: k.index, Step: k.step,
						Priority: ucon.VrfComputePriority(fr.value, fr.j), SortitionProof: fr.proof, SubUsers: fr.j})
				} else {
					lerr = w.ver.VerifySortition(&w.keys[w.who].PublicKey, &ucon.SortitionData{Round: big.NewInt(r), RoundIndex: k.index, Step: k.step, Proof: fr.proof, Votes: fr.j}, lbOf(k.step))
				}
			}()
			wantOK := f[0] == "P" || fr.j > 0
			if (lerr == nil) != wantOK {
				report("oracle", "oracle-live-verifier", fmt.Sprintf("%s: the node-level verifier says %v for the credential issued for the protocol committee %d (%d seats): prover, verifier and header verification must agree on j", op, lerr, fr.thr, fr.j))
			}
		}
		if f[0] == "V" && (k.step == uint32(ucon.Precommit) || k.step == uint32(ucon.Certificate)) {
			if why := w.headerVotes(base, k, fr); why != "" {
				report("oracle", "oracle-header-votes", op+": "+why)
			}
			if record {
				h.res.Dist("mgr-header-votes")
			}
		}
		var ok bool
		var v *ucon.StepView
		store := "1"
		switch f[0] {
		case "P":
			ok, v = w.sm.VerifIsProposer(big.NewInt(r), k.index)
			if !fr.eligible || fr.j == 0 {
				store = "0"
			}
		case "V":
			ok, v = w.sm.VerifIsValidator(big.NewInt(r), k.index, k.step, lbOf(k.step))
		case "G":
			v = w.sm.GetStepView(big.NewInt(r), k.index, k.step)
			if v == nil {
				continue
			}
			ok = v.SubUsers > 0
			store = ""
		}
		if record {
			h.res.Dist("mgr-op-" + f[0])
		}
		// what must come back
		if fr.eligible && fr.j > 0 && f[0] != "G" && (!ok || v == nil) {
			report("oracle", "oracle-mgr-selected", fmt.Sprintf("%s: the manager says not selected, a fresh VrfSortition wins %d seats", op, fr.j))
		}
		if (!fr.eligible || fr.j == 0) && ok {
			report("oracle", "oracle-mgr-selected", fmt.Sprintf("%s: the manager says selected, a fresh VrfSortition wins no seat", op))
		}
		goOrigin := fmt.Sprintf("%d %d %d", k.round, k.index, k.step)
		if v != nil {
			if why := w.checkView(k, fr, v); why != "" {
				if fr.eligible && len(v.SortitionProof) > 0 {
					goOrigin = w.originOf(v, k, universe)
				}
				report("oracle", "oracle-mgr-transparent", fmt.Sprintf("%s: the credential handed out for (round %d, index %d, step %d) is not the one issued for these inputs: %s (it was issued for: %s)", op, k.round, k.index, k.step, why, goOrigin))
			}
			if len(v.SortitionProof) > 0 {
				handed++
			}
		}
		if h.drv != nil && store != "" {
			m := h.ask(fmt.Sprintf("MQ %d %d %d %s", k.round, k.index, k.step, store))
			if record {
				h.res.TracesVsImpl++
			}
			if m != goOrigin {
				report("correspondence", "corr-mgr", fmt.Sprintf("%s: credential handed out was issued for go=%s lean=%s", op, goOrigin, m))
			}
		}
	}
	if record {
		h.res.DistN("mgr-credentials-handed-out", handed)
		h.res.Count(body[0], handed > 0 && strings.Contains(script, "C"))
	}
	return bad
}

func genMgrScript(r interface {
	Intn(int) int
	Chance(int) bool
}) string {
	R := int64(30 + r.Intn(40))
	var ops []string
	add := func(s string, a ...interface{}) { ops = append(ops, fmt.Sprintf(s, a...)) }
	steps := []uint32{2, 3, 4, 5}
	cur := R
	add("C %d", cur)
	n := 8 + r.Intn(14)
	for i := 0; i < n; i++ {
		// rounds around the manager's own: current, the next (miner ahead), the previous (voter behind)
		rr := cur + int64(r.Intn(3)) - 1
		if r.Chance(50) {
			rr = cur
		}
		idx := uint32(1 + r.Intn(3))
		if r.Chance(60) {
			idx = 1
		}
		switch r.Intn(10) {
		case 0, 1, 2:
			add("P %d %d", rr, idx)
		case 3, 4, 5, 6:
			add("V %d %d %d", rr, idx, steps[r.Intn(len(steps))])
		case 7:
			add("G %d %d %d", rr, idx, []uint32{1, 2, 3}[r.Intn(3)])
		case 8:
			if r.Chance(70) {
				cur++
			}
			add("C %d", cur) // the consensus loop moves on (or repeats the clear of its round)
		default:
			if r.Chance(45) && cur > R {
				// re-org: back to a lower round on another branch, then forward again over the same rounds and keys
				back := int64(1 + r.Intn(2))
				top := cur
				cur -= back
				add("W %d %d", cur, cur-int64(r.Intn(2)))
				st := steps[r.Intn(len(steps))]
				for cur < top+1 {
					if r.Chance(50) {
						add("V %d 1 %d", cur, st)
					}
					cur++
					add("C %d", cur)
					add("V %d 1 %d", cur, st)
					if r.Chance(50) {
						add("P %d 1", cur)
					}
				}
			} else {
				cur++
				add("C %d", cur)
			}
		}
	}
	return strings.Join(ops, ";")
}

func (h *harness) mgrStream(n int) {
	r := h.c.R
	for i := 0; i < n && h.err == nil; i++ {
		base := r.Bytes(16)
		keys := [][]byte{r.Bytes(32), r.Bytes(32), r.Bytes(32)}
		ok := true
		for _, k := range keys {
			if _, e := crypto.ToECDSA(k); e != nil {
				ok = false
			}
		}
		if !ok {
			continue
		}
		who := r.Intn(10) % 3 // the house validator now and then
		if r.Chance(80) {
			who = r.Intn(2)
		}
		script := genMgrScript(r)
		if i == 0 {
			script = "C 40;P 40 1;V 40 1 2;P 41 1;C 41;P 41 1;V 40 1 2;V 41 1 2;V 41 1 3;C 42;V 41 1 3;V 42 1 3;P 42 1"
		}
		if i == 1 { // rounds 40..42, head rewound to round 40 on another branch, rounds 41, 42 again
			script = "C 40;V 40 1 2;C 41;V 41 1 2;P 41 1;C 42;V 42 1 2;P 42 1;W 40 39;V 40 1 2;C 41;V 41 1 2;P 41 1;C 42;V 42 1 2;P 42 1"
		}
		if bad := h.mgrScript(base, keys, who, script, false); bad != "" {
			// shrink the script (ddmin over ops) while it keeps failing
			ops := vh.Shrink(strings.Split(script, ";"), func(o []string) bool {
				return h.mgrScript(base, keys, who, strings.Join(o, ";"), false) != ""
			})
			script = strings.Join(ops, ";")
		}
		h.mgrScript(base, keys, who, script, true)
	}
}
