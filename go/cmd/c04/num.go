package main

// Numeric helpers of the C04 harness:
//   * the float64 expressions of sortition.go copied verbatim (goTarget, goP): used (1) to validate the Lean model's exact
//     rounding functions against math/big on every case, (2) to solve for hashes that sit exactly on a CDF step. The real
//     choose never goes through these copies; its behaviour is observed only through j.
//   * the real gonum CDF as the one oracle the Lean model is parameterised over (cdfBits)
//   * a high-precision reference binomial CDF (big.Float, 768 bits) for the sampled numerics check

import (
	"math"
	"math/big"

	"github.com/youchainhq/go-youchain/consensus/ucon"
	"gonum.org/v1/gonum/stat/distuv"
)

var maxV = ucon.VerifMaxVrfHashValue() // the package's own divisor (2^256-1)

func goTarget(hb *big.Int) (target, inv float64) {
	bigValue := new(big.Float).Quo(new(big.Float).SetInt(hb), new(big.Float).SetInt(maxV))
	target, _ = bigValue.Float64()
	inv, _ = new(big.Float).Sub(big.NewFloat(1.0), bigValue).Float64()
	return
}

func goP(threshold uint64, total *big.Int) float64 {
	p, _ := new(big.Float).Quo(new(big.Float).SetUint64(threshold), new(big.Float).SetInt(total)).Float64()
	return p
}

func fb(x float64) uint64 { return math.Float64bits(x) }
func ff(b uint64) float64 { return math.Float64frombits(b) }
func finiteNonNeg(x float64) bool {
	return !math.IsNaN(x) && !math.IsInf(x, 0) && x >= 0 && !math.Signbit(x)
}

var cdfNotFinite int // gonum returned NaN/Inf/negative on an in-domain input (model assumption broken)
var cdfPanics int
var cdfNotFiniteInDomain int // … with stake ≤ 10^7 (the property's range)

// cdfBits evaluates the real gonum CDF the code evaluates: distuv.Binomial{N: float64(n), P: P}.CDF(float64(k)).
func cdfBits(n int64, P uint64, k int64) (bits uint64) {
	defer func() {
		if r := recover(); r != nil {
			cdfPanics++
			bits = 0
		}
	}()
	v := distuv.Binomial{N: float64(n), P: ff(P)}.CDF(float64(k))
	if !finiteNonNeg(v) {
		cdfNotFinite++
		if n <= 10000000 {
			cdfNotFiniteInDomain++
		}
		if math.IsNaN(v) || v < 0 {
			return 0
		}
	}
	if v == 0 {
		return 0 // +0 and -0
	}
	return fb(v)
}

// ---- reference (sampled numerics) ----------------------------------------------------------------

const refPrec = 768

type refResult struct {
	done    bool    // false: skipped (too many terms)
	ok      bool    // j is the exact quantile for some target' within tail-relative eps of target
	exact   bool    // j is the exact quantile of the exact target
	needEps float64 // tail-relative perturbation of target needed to make j exact
	jq      int64   // exact quantile (when reached within the cap)
}

// refQuantile checks j against the exact binomial(n, p) quantile of hb/(2^256-1), p taken as the exact dyadic value.
func refQuantile(n int64, p float64, hb *big.Int, j int64, cap int64, eps float64) refResult {
	var r refResult
	if n < 0 || j < 0 || j > n {
		return refResult{done: true, ok: false, needEps: math.Inf(1), jq: -1}
	}
	target := new(big.Float).SetPrec(refPrec).Quo(new(big.Float).SetPrec(refPrec).SetInt(hb), new(big.Float).SetPrec(refPrec).SetInt(maxV))
	one := new(big.Float).SetPrec(refPrec).SetInt64(1)
	tail := new(big.Float).SetPrec(refPrec).Sub(one, target)
	scale := target
	if tail.Cmp(target) < 0 {
		scale = tail
	}
	// lo = CDF(j-1), hi = CDF(j)
	lo := new(big.Float).SetPrec(refPrec)
	hi := new(big.Float).SetPrec(refPrec)
	switch {
	case p <= 0:
		hi.SetInt64(1)
		if j > 0 {
			lo.SetInt64(1)
		}
		r.jq = 0
	case p >= 1:
		if j == n {
			hi.SetInt64(1)
		}
		r.jq = n
		if hb.Sign() == 0 {
			r.jq = 0
		}
	default:
		if j > cap {
			return refResult{}
		}
		P := new(big.Float).SetPrec(refPrec).SetFloat64(p)
		Q := new(big.Float).SetPrec(refPrec).Sub(one, P)
		ratio := new(big.Float).SetPrec(refPrec).Quo(P, Q)
		// term = Q^n
		term := new(big.Float).SetPrec(refPrec).SetInt64(1)
		base := new(big.Float).SetPrec(refPrec).Set(Q)
		for e := n; e > 0; e >>= 1 {
			if e&1 == 1 {
				term.Mul(term, base)
			}
			base.Mul(base, base)
		}
		cdf := new(big.Float).SetPrec(refPrec)
		r.jq = -1
		tmp := new(big.Float).SetPrec(refPrec)
		for i := int64(0); i <= n; i++ {
			cdf.Add(cdf, term)
			if i == j-1 {
				lo.Set(cdf)
			}
			if i == j {
				hi.Set(cdf)
			}
			if r.jq < 0 && target.Cmp(cdf) <= 0 {
				r.jq = i
			}
			if i >= j && (r.jq >= 0 || i > j+cap) {
				break
			}
			// term *= (n-i)/(i+1) * ratio
			term.Mul(term, tmp.SetInt64(n-i))
			term.Quo(term, tmp.SetInt64(i+1))
			term.Mul(term, ratio)
		}
		if j == n {
			hi.SetInt64(1) // CDF(n) = 1 exactly
		}
	}
	r.done = true
	// exact: lo < target <= hi
	below := target.Cmp(lo) <= 0 // target <= CDF(j-1): j too large
	above := target.Cmp(hi) > 0  // target > CDF(j): j too small
	if j == 0 {
		below = false
	}
	if !below && !above {
		r.ok, r.exact = true, true
		return r
	}
	d := new(big.Float).SetPrec(refPrec)
	if below {
		d.Sub(lo, target)
	} else {
		d.Sub(target, hi)
	}
	if scale.Sign() <= 0 {
		r.needEps = math.Inf(1)
	} else {
		q, _ := new(big.Float).SetPrec(refPrec).Quo(d, scale).Float64()
		r.needEps = q
	}
	r.ok = r.needEps <= eps
	return r
}

// floatBoundary: the statement "isMatch(j) ∧ ¬isMatch(j−1)" under the real float CDF, in the direct form
// (target ≤ F_p(j), F_p(j−1) < target) or the mirrored form the code uses above 0.99; either suffices.
func floatBoundary(n int64, p float64, hb *big.Int, j int64) bool {
	if j < 0 || j > n {
		return false
	}
	target, inv := goTarget(hb)
	F := func(k int64) float64 { return ff(cdfBits(n, fb(p), k)) }
	direct := target <= F(j) && (j == 0 || !(target <= F(j-1)))
	if direct {
		return true
	}
	invp := 1.0 - p
	if invp < 0 {
		return false
	}
	G := func(k int64) float64 { return ff(cdfBits(n, fb(invp), k)) }
	k := n - j
	return (k == n || inv < G(k)) && (k == 0 || !(inv < G(k-1)))
}
