package main

// C04 — correspondence + implementation-level oracles for sortition (consensus/ucon/sortition.go).
//
// Tie (DESIGN.md C04, parts a–d):
//  (a) search: real search (hook VerifSearch) vs Lean `search` on arbitrary boolean tables, monotone and not, and on
//      threshold predicates with n up to 2^61; oracle: result boundary / least index.
//  (b) choose: real choose (hook VerifChoose) and, through a fake vrf.PublicKey that returns a chosen hash, the exported
//      VrfVerifySortition/VrfVerifyPriority, vs the Lean `choose`. The Lean model computes target, 1-target, p, 1-p and
//      n*p itself (exact IEEE arithmetic over Nat) and asks the harness only for the values of the real gonum CDF it
//      needs (`need P k`); it must return exactly the Go j. Hashes: ends, uniform, upper tail, the 0.99 cut-over ±1 ulp,
//      powers of two, double-rounding midpoints, and hashes solved to sit exactly on (and one ulp beside) CDF steps.
//  (c) numerics, sampled: j is compared with the exact binomial quantile (768-bit reference) up to a tail-relative
//      tolerance; full float tables for stake ≤ 2048 are checked for monotonicity / mirror consistency (statistics).
//  (d) binding: every single-field perturbation of a real credential (VrfSortition with real keys) must be rejected by
//      the real exported verifiers (cred.go).

import (
	gocrypto "crypto"
	"encoding/hex"
	"fmt"
	"math"
	"math/big"
	"strconv"
	"strings"

	"github.com/youchainhq/go-youchain/common"
	"github.com/youchainhq/go-youchain/consensus/ucon"
	"github.com/youchainhq/go-youchain/crypto"
	"verifharness/internal/quiet"
	"verifharness/internal/vh"
)

const numericsEps = 1.0 / (1 << 16) // tail-relative tolerance of the sampled numerics check (gonum CDF accuracy)

type harness struct {
	c         *vh.Ctx
	res       *vh.Result
	drv       *vh.Driver
	err       error
	nfail     map[string]int
	replaying bool // replay mode: collect messages, write nothing
	msgs      []string
	maxEps    float64
	stats     map[string]int
}

func (h *harness) ask(line string) string {
	if h.drv == nil || h.err != nil {
		return ""
	}
	s, e := h.drv.Ask(line)
	if e != nil {
		h.err = e
	}
	return s
}

// fail records one failure (bounded per class) with a replay file.
func (h *harness) fail(kind, class, what string, body []string) {
	if h.replaying {
		h.msgs = append(h.msgs, kind+": "+what)
		return
	}
	h.nfail[class]++
	if h.nfail[class] > 3 {
		return
	}
	name := fmt.Sprintf("%s-%d-s%d", class, h.nfail[class], h.c.Seed)
	rp := vh.WriteReplay(h.c.ReplayDir, "C04", name, h.c.Seed, []string{kind + ": " + what}, body)
	h.res.Fail(kind, "", what, rp)
}

// ---- the need-loop: feed the Lean model the real CDF values it asks for ----------------------------------------

type entries struct {
	list []string
	seen map[string]bool
}

func (e *entries) add(P uint64, k int64, v uint64) {
	key := fmt.Sprintf("%d:%d", P, k)
	if e.seen == nil {
		e.seen = map[string]bool{}
	}
	if e.seen[key] {
		return
	}
	e.seen[key] = true
	e.list = append(e.list, fmt.Sprintf("%d:%d:%d", P, k, v))
}

// askChoose sends `prefix` (a C/CS/VS/VP line without entries) and answers `need` requests with real gonum values.
func (h *harness) askChoose(prefix string, n int64) string {
	var e entries
	for it := 0; it < 400; it++ {
		line := prefix
		if len(e.list) > 0 {
			line += " " + strings.Join(e.list, " ")
		}
		resp := h.ask(line)
		f := strings.Fields(resp)
		if len(f) != 5 || f[0] != "need" {
			return resp
		}
		P, _ := strconv.ParseUint(f[1], 10, 64)
		k, _ := strconv.ParseInt(f[2], 10, 64)
		cmp, _ := strconv.ParseUint(f[4], 10, 64)
		e.add(P, k, cdfBits(n, P, k))
		// prefetch what the model will most likely ask next (an optimisation only: the model re-checks what it has)
		switch f[3] {
		case "scan":
			for x := k + 1; x <= n && x < k+48; x++ {
				e.add(P, x, cdfBits(n, P, x))
			}
		case "search", "mirror":
			if it == 0 && n > 0 {
				mirror := f[3] == "mirror"
				ucon.VerifSearch(n, func(x int64) bool {
					v := cdfBits(n, P, x)
					e.add(P, x, v)
					if mirror {
						return cmp < v
					}
					return cmp <= v
				})
			}
		}
	}
	return "need-loop-did-not-terminate"
}

// ---- real code wrappers ------------------------------------------------------------------------------------

func hashOf(hb *big.Int) common.Hash { return common.BigToHash(hb) }

func realChoose(hb *big.Int, stake int64, p float64) (j int64, panicked bool) {
	defer func() {
		if r := recover(); r != nil {
			panicked = true
		}
	}()
	return ucon.VerifChoose(hashOf(hb), big.NewInt(stake), p), false
}

type fakePK struct {
	h    [32]byte
	err  error
	gotM []byte
}

func (f *fakePK) ProofToHash(m, proof []byte) ([32]byte, error) {
	f.gotM = append([]byte{}, m...)
	return f.h, f.err
}

// fakeSK is a vrf.PrivateKey whose Evaluate returns a chosen hash: drives the exported prover VrfSortition.
type fakeSK struct {
	h    [32]byte
	gotM []byte
}

func (f *fakeSK) Evaluate(m []byte) ([32]byte, []byte) {
	f.gotM = append([]byte{}, m...)
	return f.h, []byte{1}
}
func (f *fakeSK) Public() gocrypto.PublicKey { return nil }

func classifyErr(ok bool, err error) string {
	if err == nil {
		if ok {
			return "accept"
		}
		return "priorityMismatch"
	}
	s := err.Error()
	switch {
	case strings.HasPrefix(s, "totalStake is 0"):
		return "totalStakeZero"
	case strings.HasPrefix(s, "verify seed failed"):
		return "vrfFailed"
	case strings.HasPrefix(s, "not a validator"):
		return "notValidator"
	case strings.HasPrefix(s, "sub-users' number is not correct"):
		return "subUsersMismatch"
	}
	return "other:" + s
}

// ---- (a) search ------------------------------------------------------------------------------------------------

func (h *harness) searchCase(n int64, bits string) {
	outOfRange := false
	f := func(x int64) bool {
		if x < 0 || x >= n {
			outOfRange = true
			return false
		}
		if int(x) < len(bits) {
			return bits[x] == '1'
		}
		return false
	}
	r := ucon.VerifSearch(n, f)
	line := fmt.Sprintf("S %d %s", n, bits)
	if bits == "" {
		line = fmt.Sprintf("S %d", n)
	}
	body := []string{fmt.Sprintf("search %d %s", n, bits)}
	if h.drv != nil {
		m := h.ask(line)
		h.res.TracesVsImpl++
		if m != strconv.FormatInt(r, 10) {
			h.fail("correspondence", "corr-search", fmt.Sprintf("search(%d,%s): go=%d lean=%s", n, bits, r, m), body)
		}
	}
	// oracle: boundary for any predicate; least index for a monotone one
	bad := ""
	switch {
	case outOfRange:
		bad = "probed an index outside [0,n)"
	case r < 0 || r > n:
		bad = "result outside [0,n]"
	case r < n && !f(r):
		bad = "f(result) is false"
	case r > 0 && f(r-1):
		bad = "f(result-1) is true"
	}
	mono := true
	for i := int64(1); i < n; i++ {
		if f(i-1) && !f(i) {
			mono = false
		}
	}
	if bad == "" && mono {
		for i := int64(0); i < r; i++ {
			if f(i) {
				bad = "not the least true index of a monotone predicate"
			}
		}
	}
	if bad != "" {
		h.fail("oracle", "oracle-search", fmt.Sprintf("search(%d,%s)=%d: %s", n, bits, r, bad), body)
	}
	if mono {
		h.res.Dist("search-monotone")
	} else {
		h.res.Dist("search-nonmonotone")
	}
	h.res.Count(body[0], n > 0)
}

func (h *harness) searchThreshold(n, t int64) {
	probes := 0
	r := ucon.VerifSearch(n, func(x int64) bool { probes++; return x >= t })
	body := []string{fmt.Sprintf("searchT %d %d", n, t)}
	want := t
	if t > n {
		want = n
	}
	if t < 0 {
		want = 0
	}
	if r != want || probes > 64 {
		h.fail("oracle", "oracle-searchT", fmt.Sprintf("search(%d, x>=%d)=%d want %d (%d probes)", n, t, r, want, probes), body)
	}
	if h.drv != nil {
		m := h.ask(fmt.Sprintf("ST %d %d", n, t))
		h.res.TracesVsImpl++
		if m != strconv.FormatInt(r, 10) {
			h.fail("correspondence", "corr-searchT", fmt.Sprintf("search(%d, x>=%d): go=%d lean=%s", n, t, r, m), body)
		}
	}
	h.res.Dist("search-threshold")
	h.res.Count(body[0], true)
}

// ---- numerics of the model vs Go's math/big and float64 -----------------------------------------------------------

func (h *harness) numCase(hb *big.Int) {
	t, inv := goTarget(hb)
	hx := hex.EncodeToString(hashOf(hb).Bytes())
	if h.drv != nil {
		m := h.ask("N " + hx)
		h.res.TracesVsImpl++
		want := fmt.Sprintf("%d %d", fb(t), fb(inv))
		if m != want {
			h.fail("correspondence", "corr-num-target", fmt.Sprintf("target/inv of %s: go=%s lean=%s", hx, want, m), []string{"num " + hx})
		}
	}
	h.res.Dist("num-target")
}

func (h *harness) numP(thr uint64, total *big.Int, stake int64) {
	p := goP(thr, total)
	if h.drv == nil {
		return
	}
	body := []string{fmt.Sprintf("nump %d %s %d", thr, total.String(), stake)}
	m := h.ask(fmt.Sprintf("Q %d %s", thr, total.String()))
	h.res.TracesVsImpl++
	if m != strconv.FormatUint(fb(p), 10) {
		h.fail("correspondence", "corr-num-p", fmt.Sprintf("p(%d/%s): go=%d lean=%s", thr, total, fb(p), m), body)
	}
	if p <= 1 {
		m = h.ask(fmt.Sprintf("U %d", fb(p)))
		if m != strconv.FormatUint(fb(1.0-p), 10) {
			h.fail("correspondence", "corr-num-invp", fmt.Sprintf("1-p for p=%d: go=%d lean=%s", fb(p), fb(1.0-p), m), body)
		}
	}
	mean := float64(stake) * p
	m = h.ask(fmt.Sprintf("X %d %d", stake, fb(p)))
	if m != strconv.FormatUint(fb(mean), 10) {
		h.fail("correspondence", "corr-num-mean", fmt.Sprintf("mean %d*%d: go=%d lean=%s", stake, fb(p), fb(mean), m), body)
	}
	h.res.Dist("num-p")
}

// ---- (b),(c) choose ---------------------------------------------------------------------------------------------------

type chooseCase struct {
	hb     *big.Int
	stake  int64
	viaS   bool // p given as (threshold, total): also drives the exported verifiers through a fake public key
	thr    uint64
	total  *big.Int
	p      float64
	hclass string
}

func (cc chooseCase) text() string {
	hx := hex.EncodeToString(hashOf(cc.hb).Bytes())
	if cc.viaS {
		return fmt.Sprintf("chooseS %s %d %d %s", hx, cc.stake, cc.thr, cc.total.String())
	}
	return fmt.Sprintf("choose %s %d %d", hx, cc.stake, fb(cc.p))
}

// returns a description of what failed ("" = fine); records into h when record is true
func (h *harness) chooseCase(cc chooseCase, record bool) string {
	body := []string{cc.text()}
	p := cc.p
	if cc.viaS {
		p = goP(cc.thr, cc.total)
	}
	hx := hex.EncodeToString(hashOf(cc.hb).Bytes())
	j, panicked := realChoose(cc.hb, cc.stake, p)
	goOut := "crash"
	if !panicked {
		goOut = strconv.FormatInt(j, 10)
	}
	firstBad := ""
	report := func(kind, class, what string) {
		if firstBad == "" {
			firstBad = class + ": " + what
		}
		if record {
			h.fail(kind, class, what, body)
		}
	}
	branch := "?"
	// ---- Lean
	if h.drv != nil {
		var resp string
		if cc.viaS {
			resp = h.askChoose(fmt.Sprintf("CS %s %d %d %s", hx, cc.stake, cc.thr, cc.total.String()), cc.stake)
		} else {
			resp = h.askChoose(fmt.Sprintf("C %s %d %d", hx, cc.stake, fb(p)), cc.stake)
		}
		if record {
			h.res.TracesVsImpl++
		}
		f := strings.Fields(resp)
		leanOut := resp
		if len(f) >= 8 && f[0] == "ok" {
			leanOut = f[1]
			branch = f[2]
			t, inv := goTarget(cc.hb)
			if cc.hb.Sign() > 0 && cc.hb.Cmp(maxV) < 0 {
				if f[3] != strconv.FormatUint(fb(t), 10) || f[4] != strconv.FormatUint(fb(inv), 10) {
					report("correspondence", "corr-num-target", fmt.Sprintf("%s: target/inv go=%d %d lean=%s %s", body[0], fb(t), fb(inv), f[3], f[4]))
				}
			}
			if f[5] != strconv.FormatUint(fb(p), 10) {
				report("correspondence", "corr-num-p", fmt.Sprintf("%s: p go=%d lean=%s", body[0], fb(p), f[5]))
			}
		} else if resp == "crash" {
			branch = "crash"
		}
		if leanOut != goOut {
			report("correspondence", "corr-choose", fmt.Sprintf("%s: go=%s lean=%s (branch %s)", body[0], goOut, resp, branch))
		}
	}
	if record {
		h.res.Dist("choose-branch-" + branch)
		h.res.Dist("choose-hash-" + cc.hclass)
	}
	// ---- oracles on the real result
	if panicked {
		if !(p > 1 && cc.stake > 0) {
			report("oracle", "oracle-choose-panic", fmt.Sprintf("%s: choose panicked inside the domain (p=%g)", body[0], p))
		} else if record {
			h.res.Dist("choose-panic-p>1(out of domain)")
		}
		if record {
			h.res.Count(body[0], false)
		}
		return firstBad
	}
	if j < 0 || j > cc.stake {
		report("oracle", "oracle-choose-range", fmt.Sprintf("%s: j=%d outside [0,%d]", body[0], j, cc.stake))
	}
	atEnd := cc.hb.Sign() == 0 || cc.hb.Cmp(maxV) == 0
	if cc.hb.Sign() == 0 && j != 0 {
		report("oracle", "oracle-choose-ends", fmt.Sprintf("%s: hash 0 gives j=%d", body[0], j))
	}
	if cc.hb.Cmp(maxV) == 0 && j != cc.stake {
		report("oracle", "oracle-choose-ends", fmt.Sprintf("%s: hash 2^256-1 gives j=%d", body[0], j))
	}
	if !atEnd && p <= 1 {
		if !floatBoundary(cc.stake, p, cc.hb, j) {
			report("oracle", "oracle-choose-boundary", fmt.Sprintf("%s: j=%d is not a step of the float CDF (isMatch(j) && !isMatch(j-1) fails in both forms)", body[0], j))
		}
		rr := refResult{}
		tgt, _ := goTarget(cc.hb)
		if p < math.Pow(2, -52) && tgt > 0.99 {
			// float64(1-p) == 1.0: the mirrored form cannot see p at all and returns 0 (total stake > 2^52 * threshold only)
			if record {
				h.stats["ref-skipped(p<2^-52: mirrored form blind)"]++
			}
		} else if cc.stake <= 10000000 { // the property's stake range; gonum loses accuracy far beyond it
			// the mirrored form works with float64(1-p): p is perturbed by up to 2^-53 absolute, and the upper tail
			// Pr(X >= j) has elasticity about j with respect to p
			eps := numericsEps
			if p > 0 {
				eps += float64(j+1) * math.Pow(2, -52) / p
			}
			rr = refQuantile(cc.stake, p, cc.hb, j, 4000, eps)
		}
		if rr.done {
			if record {
				if rr.exact {
					h.stats["ref-exact"]++
				} else if rr.ok {
					h.stats["ref-within-tolerance"]++
				}
				if rr.ok && rr.needEps > h.maxEps && p >= 1e-9 {
					h.maxEps = rr.needEps
				}
			}
			if !rr.ok {
				report("oracle", "oracle-choose-quantile", fmt.Sprintf("%s: j=%d is not the binomial quantile: exact quantile %d, target would have to move by %.3g (tail-relative), tolerance %.3g + (j+1)*2^-52/p", body[0], j, rr.jq, rr.needEps, numericsEps))
			}
		} else if record && !(p < math.Pow(2, -52) && tgt > 0.99) {
			h.stats["ref-skipped(j>4000 or stake>1e7)"]++
		}
	}
	// ---- the exported verifiers on the same hash (fake public key returns it)
	if cc.viaS && cc.total.Sign() > 0 {
		seed := crypto.Keccak256Hash(cc.hb.Bytes())
		idx, role := uint32(cc.stake%7), uint32(2)
		pk := &fakePK{h: hashOf(cc.hb)}
		verdict := func(sub uint32) string {
			defer func() { recover() }()
			ok, err := ucon.VrfVerifySortition(pk, seed, idx, role, []byte{1}, sub, cc.thr, big.NewInt(cc.stake), cc.total)
			return classifyErr(ok, err)
		}
		want := "accept"
		if j == 0 {
			want = "notValidator"
		}
		if got := verdict(uint32(j)); got != want && j < 1<<32 {
			report("oracle", "oracle-verify-recompute", fmt.Sprintf("%s: VrfVerifySortition(sub=%d) = %s, want %s (the verifier must recompute the prover's j)", body[0], j, got, want))
		}
		if j > 0 && j < 1<<32-1 {
			if got := verdict(uint32(j + 1)); got != "subUsersMismatch" {
				report("oracle", "oracle-verify-seats", fmt.Sprintf("%s: VrfVerifySortition(sub=j+1) = %s", body[0], got))
			}
			if got := verdict(uint32(j - 1)); got == "accept" {
				report("oracle", "oracle-verify-seats", fmt.Sprintf("%s: VrfVerifySortition(sub=j-1) accepted", body[0]))
			}
		}
		// the exported prover on the same hash (fake private key returns it): same message, same j
		func() {
			defer func() { recover() }()
			fsk := &fakeSK{h: hashOf(cc.hb)}
			v, _, jp := ucon.VrfSortition(fsk, seed, idx, role, cc.thr, big.NewInt(cc.stake), cc.total)
			if v != hashOf(cc.hb) || (j < 1<<32 && int64(jp) != j) {
				report("oracle", "oracle-prover-recompute", fmt.Sprintf("%s: VrfSortition returns j=%d, choose gives %d", body[0], jp, j))
			}
			if string(fsk.gotM) != string(ucon.MakeM(seed, role, idx)) {
				report("oracle", "oracle-verify-message", fmt.Sprintf("%s: prover's VRF message differs from MakeM(seed, role, index)", body[0]))
			}
		}()
		if string(pk.gotM) != string(ucon.MakeM(seed, role, idx)) {
			report("oracle", "oracle-verify-message", fmt.Sprintf("%s: verifier's VRF message differs from MakeM(seed, role, index)", body[0]))
		}
		if record {
			h.res.Dist("exported-verify-" + want)
		}
	}
	if record {
		nontrivial := (j > 0 && j < cc.stake) || cc.hclass != "uniform"
		h.res.Count(body[0], nontrivial)
		if len(h.res.Samples) < 3 && j > 0 {
			h.res.Sample(map[string]interface{}{"case": body[0], "go_j": j, "branch": branch})
		}
	}
	return firstBad
}

// ---- malformed stream --------------------------------------------------------------------------------------------------

func (h *harness) malformedCase(r *vh.RNG) {
	hb, _ := genHash(r, 0, 0)
	stake := int64(r.Range(1, 3000))
	thr := uint64(r.Range(1, 50))
	total := big.NewInt(int64(r.Range(3000, 100000)))
	pkErr := false
	kind := ""
	switch r.Intn(8) {
	case 0:
		kind, total = "total-zero", big.NewInt(0)
	case 1:
		kind, total = "total-multiple-of-2^64", new(big.Int).Lsh(big.NewInt(int64(r.Range(1, 5))), 64)
	case 2:
		kind, thr = "threshold-zero", 0
	case 3:
		kind, stake = "stake-zero", 0
	case 4:
		kind, thr = "threshold-above-total(p>1)", uint64(total.Int64())+uint64(r.Range(1, 1000))
	case 5:
		kind, pkErr = "vrf-error", true
	case 6:
		kind, thr = "threshold-equals-total(p=1)", uint64(total.Int64())
	default:
		kind = "plain"
	}
	j := int64(0)
	if total.Sign() > 0 {
		if jj, pan := realChoose(hb, stake, goP(thr, total)); !pan {
			j = jj
		}
	}
	sub := uint32(j)
	if r.Chance(25) {
		sub += uint32(r.Range(1, 3))
	}
	prio := ucon.VrfComputePriority(hashOf(hb), sub)
	if j > 300 {
		prio = common.Hash{} // keep the Lean Keccak loop short: a priority mismatch is the expected verdict then
	}
	if r.Chance(15) {
		prio[3] ^= 0x10
	}
	pk := &fakePK{h: hashOf(hb)}
	vrfRes := "ok:" + hex.EncodeToString(pk.h[:])
	if pkErr {
		pk.err = fmt.Errorf("invalid VRF proof")
		vrfRes = "err"
	}
	c := claim{pk: pk, seed: crypto.Keccak256Hash(hb.Bytes()), index: 1, role: 2, proof: []byte{7}, sub: sub, priority: prio, thr: thr, stake: big.NewInt(stake), total: total}
	vs, vp := realVerify(c)
	body := []string{fmt.Sprintf("malformed %s %d %d %s %d %s %s", hex.EncodeToString(pk.h[:]), stake, thr, total.String(), sub, vrfRes, hex.EncodeToString(prio[:]))}
	if h.drv != nil && j <= 300 {
		ls := h.askChoose(fmt.Sprintf("VS %s %d %d %d %s", total.String(), thr, stake, sub, vrfRes), stake)
		lp := h.askChoose(fmt.Sprintf("VP %s %d %d %d %s %s", total.String(), thr, stake, sub, vrfRes, hex.EncodeToString(prio[:])), stake)
		h.res.TracesVsImpl += 2
		if ls != vs {
			h.fail("correspondence", "corr-verify-sortition", fmt.Sprintf("%s (%s): VrfVerifySortition go=%s lean=%s", body[0], kind, vs, ls), body)
		}
		if lp != vp {
			h.fail("correspondence", "corr-verify-priority", fmt.Sprintf("%s (%s): VrfVerifyPriority go=%s lean=%s", body[0], kind, vp, lp), body)
		}
	}
	// oracle: nothing malformed is ever accepted as a winner's credential
	if vs == "accept" && (total.Sign() == 0 || pkErr || j <= 0 || uint32(j) != sub) {
		h.fail("oracle", "oracle-malformed-accepted", fmt.Sprintf("%s (%s): VrfVerifySortition accepted", body[0], kind), body)
	}
	if vp == "accept" && (total.Sign() == 0 || pkErr || uint32(j) != sub || prio != ucon.VrfComputePriority(hashOf(hb), uint32(j))) {
		h.fail("oracle", "oracle-malformed-accepted", fmt.Sprintf("%s (%s): VrfVerifyPriority accepted", body[0], kind), body)
	}
	h.res.Dist("malformed-" + kind)
	h.res.Dist("malformed-verdict-" + vs + "/" + vp)
	h.res.Count(body[0], kind != "plain")
}

// ---- generators ----------------------------------------------------------------------------------------------------------

func randBig(r *vh.RNG, bits int) *big.Int {
	b := r.Bytes((bits + 7) / 8)
	x := new(big.Int).SetBytes(b)
	return x.Rsh(x, uint(len(b)*8-bits))
}

func genStake(r *vh.RNG) int64 {
	switch r.Weighted([]int{6, 18, 22, 38, 10, 6}) {
	case 0:
		return int64(r.Intn(4))
	case 1:
		return int64(r.Range(1, 64))
	case 2:
		return int64(r.Range(65, 2048))
	case 3:
		return int64(r.Range(49283, 10000000))
	case 4:
		return []int64{10000000, 8880000, 1580000, 1800000, 49283, 1500000}[r.Intn(6)]
	default:
		return int64(r.Range(2049, 49282))
	}
}

// (threshold, total) like the shipped parameter tables, plus odd ones
func genThrTotal(r *vh.RNG, stake int64) (uint64, *big.Int) {
	thr := []uint64{26, 2000, 4000}[r.Intn(3)]
	if r.Chance(30) {
		thr = uint64(r.Range(1, 6000))
	}
	var total *big.Int
	switch r.Weighted([]int{50, 20, 15, 10, 5}) {
	case 0: // realistic: total a multiple of typical stakes
		total = big.NewInt(stake + int64(r.Intn(300000000)))
	case 1: // mean around the scan/search switch: stake*thr/total ≈ 20
		t := stake * int64(thr) / 20
		if t < 1 {
			t = 1
		}
		total = big.NewInt(t + int64(r.Intn(5)) - 2)
	case 2:
		total = big.NewInt(int64(r.Range(1, 100000)))
	case 3:
		total = new(big.Int).Add(randBig(r, r.Range(33, 90)), big.NewInt(1))
	default:
		total = big.NewInt(int64(thr) + int64(r.Intn(3))) // p ≈ 1
	}
	if total.Sign() <= 0 {
		total = big.NewInt(1)
	}
	if r.Chance(97) && total.Cmp(new(big.Int).SetUint64(thr)) < 0 { // keep p ≤ 1 mostly
		total = new(big.Int).SetUint64(thr + uint64(r.Intn(1000)))
	}
	return thr, total
}

func genP(r *vh.RNG, stake int64) float64 {
	switch r.Weighted([]int{4, 4, 6, 30, 20, 16, 12, 8}) {
	case 0:
		return 0
	case 1:
		return 1
	case 2:
		return 0.5
	case 3: // mean between 0 and 100
		if stake == 0 {
			return 0.25
		}
		return math.Min(1, float64(r.Intn(100000))/1000/float64(stake))
	case 4: // around the mean<20 switch
		if stake == 0 {
			return 0.75
		}
		p := 20.0 / float64(stake)
		b := fb(p) + uint64(r.Intn(7)) - 3
		return math.Min(1, ff(b))
	case 5:
		return float64(r.U64()>>11) / (1 << 53)
	case 6: // close to 1
		return 1 - float64(r.U64()>>11)/(1<<53)/float64(int64(1)<<uint(r.Intn(40)))
	default: // tiny
		return float64(r.U64()>>11) / (1 << 53) / float64(int64(1)<<uint(r.Intn(60)))
	}
}

// bisect returns the least hb in [0, 2^256-1] with pred(hb) true (pred monotone false→true), or nil.
func bisect(pred func(*big.Int) bool) *big.Int {
	lo, hi := big.NewInt(0), new(big.Int).Set(maxV)
	if !pred(hi) {
		return nil
	}
	for lo.Cmp(hi) < 0 {
		mid := new(big.Int).Add(lo, hi)
		mid.Rsh(mid, 1)
		if pred(mid) {
			hi = mid
		} else {
			lo = mid.Add(mid, big.NewInt(1))
		}
	}
	return lo
}

var cut099 *big.Int // least hash whose target is > 0.99

func genHash(r *vh.RNG, stake int64, p float64) (*big.Int, string) {
	one := big.NewInt(1)
	clamp := func(x *big.Int) *big.Int {
		if x.Sign() < 0 {
			return big.NewInt(0)
		}
		if x.Cmp(maxV) > 0 {
			return new(big.Int).Set(maxV)
		}
		return x
	}
	switch r.Weighted([]int{5, 25, 14, 8, 8, 5, 25, 10}) {
	case 0:
		e := []*big.Int{big.NewInt(0), big.NewInt(1), big.NewInt(2), new(big.Int).Set(maxV), new(big.Int).Sub(maxV, one), new(big.Int).Sub(maxV, big.NewInt(2))}
		return e[r.Intn(len(e))], "end"
	case 1:
		return randBig(r, 256), "uniform"
	case 2: // upper tail: 1 - 2^-k * u
		k := uint(r.Range(7, 255))
		d := randBig(r, 256)
		d.Rsh(d, k)
		return clamp(new(big.Int).Sub(maxV, d)), "upper-tail"
	case 3: // around the 0.99 cut-over: the first hash above, the last below, and neighbours
		if cut099 == nil {
			cut099 = bisect(func(x *big.Int) bool { t, _ := goTarget(x); return t > 0.99 })
		}
		d := big.NewInt(int64(r.Intn(5)) - 2)
		if r.Chance(40) {
			d = randBig(r, r.Range(1, 210))
			if r.Bool() {
				d.Neg(d)
			}
		}
		return clamp(new(big.Int).Add(cut099, d)), "cut-0.99"
	case 4: // tiny / powers of two
		x := new(big.Int).Lsh(one, uint(r.Intn(256)))
		if r.Bool() {
			x.Add(x, big.NewInt(int64(r.Intn(3))-1))
		}
		return clamp(x), "pow2"
	case 5: // double-rounding midpoints of the 256-bit → 53-bit conversion
		m := new(big.Int).SetUint64(r.U64()>>11 | 1<<52)
		x := new(big.Int).Lsh(m, 1)
		x.Add(x, one) // odd 54-bit number: a float64 midpoint
		x.Lsh(x, 202)
		x.Rsh(x, uint(r.Intn(3)))
		x.Add(x, big.NewInt(int64(r.Intn(5))-2))
		return clamp(x), "midpoint"
	case 6: // solved to sit on a CDF step of the direct form: target == F_p(k) and one ulp beside
		if stake <= 0 || p <= 0 || p >= 1 {
			return randBig(r, 256), "uniform"
		}
		mean := float64(stake) * p
		sd := math.Sqrt(mean * (1 - p))
		k := int64(mean + (float64(r.Intn(1000))/100-4)*sd + float64(r.Intn(3)) - 1)
		if k < 0 {
			k = int64(r.Intn(3))
		}
		if k >= stake {
			k = stake - 1
		}
		c := ff(cdfBits(stake, fb(p), k))
		if c <= 0 || c >= 1 {
			return randBig(r, 256), "uniform"
		}
		var x *big.Int
		if r.Bool() {
			x = bisect(func(y *big.Int) bool { t, _ := goTarget(y); return t >= c })
		} else {
			x = bisect(func(y *big.Int) bool { t, _ := goTarget(y); return t > c })
		}
		if x == nil {
			return randBig(r, 256), "uniform"
		}
		x.Add(x, big.NewInt(int64(r.Intn(2))-1)) // the boundary hash or the one just below
		return clamp(x), "on-step"
	default: // solved on a step of the mirrored form: 1-target == F_{1-p}(k)
		if stake <= 0 || p <= 0 || p >= 1 {
			return randBig(r, 256), "uniform"
		}
		invp := 1.0 - p
		mean := float64(stake) * p
		sd := math.Sqrt(mean*(1-p)) + 1
		j := int64(mean + (2+float64(r.Intn(800))/100)*sd) // upper tail of the seat count
		if j > stake {
			j = stake
		}
		k := stake - j
		if k >= stake {
			k = stake - 1
		}
		c := ff(cdfBits(stake, fb(invp), k))
		if c <= 0 || c >= 0.01 {
			return randBig(r, 256), "uniform"
		}
		var x *big.Int
		if r.Bool() {
			x = bisect(func(y *big.Int) bool { _, iv := goTarget(y); return iv <= c })
		} else {
			x = bisect(func(y *big.Int) bool { _, iv := goTarget(y); return iv < c })
		}
		if x == nil {
			return randBig(r, 256), "uniform"
		}
		x.Add(x, big.NewInt(int64(r.Intn(2))-1))
		return clamp(x), "on-mirror-step"
	}
}

// genDoubleRounding: a (threshold, total) pair whose quotient is sensitive to the way p is rounded (the 64-bit big.Float
// quotient lies on a float64 midpoint, so rounding once to 53 bits gives the neighbouring double), a stake with mean
// around 30-90, and a hash sitting exactly on a lower-tail CDF step, where F(k) moves by several ulps when p moves by one:
// pins the derivation of p inside the exported VrfVerifySortition / VrfVerifyPriority.
func genDoubleRounding(r *vh.RNG) (chooseCase, bool) {
	for try := 0; try < 60000; try++ {
		// p in (0.25, 1): below that, gonum's own 1-P swallows the last bits of p and they cannot influence j at all
		thr := r.U64()>>uint(r.Range(14, 43)) + 1
		total := int64(thr) + int64(r.U64()%(3*thr))
		p := goP(thr, big.NewInt(total))
		if p == float64(thr)/float64(total) || p <= 0.25 || p >= 0.97 {
			continue
		}
		stake := int64(float64(r.Range(30, 90)) / p)
		if stake < 1 || stake > 10000000 {
			continue
		}
		mean := float64(stake) * p
		sd := math.Sqrt(mean * (1 - p))
		k := int64(mean - (2+float64(r.Intn(20))/10)*sd)
		if k < 0 {
			k = 0
		}
		c := ff(cdfBits(stake, fb(p), k))
		if c <= 0 || c >= 0.99 {
			continue
		}
		var x *big.Int
		if r.Bool() {
			x = bisect(func(y *big.Int) bool { t, _ := goTarget(y); return t >= c })
		} else {
			x = bisect(func(y *big.Int) bool { t, _ := goTarget(y); return t > c })
			if x != nil {
				x.Sub(x, big.NewInt(1))
			}
		}
		if x == nil || x.Sign() <= 0 {
			continue
		}
		return chooseCase{hb: x, stake: stake, viaS: true, thr: thr, total: big.NewInt(total), p: p, hclass: "on-step-p-double-rounding"}, true
	}
	return chooseCase{}, false
}

func genChoose(r *vh.RNG) chooseCase {
	if r.Chance(3) {
		if cc, ok := genDoubleRounding(r); ok {
			return cc
		}
	}
	var cc chooseCase
	cc.stake = genStake(r)
	if r.Chance(3) {
		cc.stake = int64(r.U64() >> uint(r.Range(24, 40))) // up to 2^40: far beyond any real stake (hook only)
	}
	if r.Chance(55) && cc.stake <= 10000000 {
		cc.viaS = true
		cc.thr, cc.total = genThrTotal(r, cc.stake)
		cc.p = goP(cc.thr, cc.total)
	} else {
		cc.p = genP(r, cc.stake)
	}
	cc.hb, cc.hclass = genHash(r, cc.stake, cc.p)
	return cc
}

// ---- full float tables (stake ≤ 2048): monotonicity, mirror consistency, least index (statistics + oracle) ------

func (h *harness) fullTable(cc chooseCase) {
	n, p := cc.stake, cc.p
	if p > 1 || n > 2048 || n < 1 {
		return
	}
	F := make([]float64, n+1)
	G := make([]float64, n+1)
	for k := int64(0); k <= n; k++ {
		F[k] = ff(cdfBits(n, fb(p), k))
		G[k] = ff(cdfBits(n, fb(1.0-p), k))
	}
	mono := true
	for k := int64(1); k <= n; k++ {
		if F[k] < F[k-1] || G[k] < G[k-1] {
			mono = false
		}
	}
	if !mono {
		h.stats["fulltable-float-cdf-not-monotone"]++
	}
	if F[n] != 1 || G[n] != 1 {
		h.fail("oracle", "oracle-cdf-top", fmt.Sprintf("%s: gonum CDF(n) != 1", cc.text()), []string{cc.text()})
	}
	target, inv := goTarget(cc.hb)
	if cc.hb.Sign() == 0 || cc.hb.Cmp(maxV) == 0 {
		return
	}
	jd := int64(0)
	for jd < n && !(target <= F[jd]) {
		jd++
	}
	mirrorOK := true
	for k := int64(0); k < n; k++ {
		if (inv < G[k]) != (F[n-1-k] < target) {
			mirrorOK = false
		}
	}
	if !mirrorOK {
		h.stats["fulltable-mirror-form-differs-from-direct-form-in-floats"]++
	}
	j, panicked := realChoose(cc.hb, n, p)
	if panicked {
		return
	}
	h.stats["fulltable-cases"]++
	if j != jd {
		if mono && mirrorOK {
			h.fail("oracle", "oracle-choose-least", fmt.Sprintf("%s: j=%d but the least index whose float CDF reaches the target is %d (table monotone, mirror-consistent)", cc.text(), j, jd), []string{cc.text()})
		} else {
			h.stats["fulltable-j-differs-from-float-least-index(rounding)"]++
		}
	}
}

// ---- MakeM / priority -------------------------------------------------------------------------------------------------------

func (h *harness) makeMCase(seed []byte, role, index uint32) {
	var s common.Hash
	copy(s[:], seed)
	m := ucon.MakeM(s, role, index)
	body := []string{fmt.Sprintf("makem %s %d %d", hex.EncodeToString(s[:]), role, index)}
	if h.drv != nil {
		l := h.ask(fmt.Sprintf("M %s %d %d", hex.EncodeToString(s[:]), role, index))
		h.res.TracesVsImpl++
		if l != hex.EncodeToString(m) {
			h.fail("correspondence", "corr-makem", fmt.Sprintf("%s: go=%x lean=%s", body[0], m, l), body)
		}
	}
	// oracle: the message determines (seed, role, index): decode it back
	if len(m) != 40 || string(m[:32]) != string(s[:]) ||
		uint32(m[32])<<24|uint32(m[33])<<16|uint32(m[34])<<8|uint32(m[35]) != role ||
		uint32(m[36])<<24|uint32(m[37])<<16|uint32(m[38])<<8|uint32(m[39]) != index {
		h.fail("oracle", "oracle-makem", fmt.Sprintf("%s: message %x does not decode back to its inputs", body[0], m), body)
	}
	h.res.Dist("makem")
	h.res.Count(body[0], role != 0 || index != 0)
}

func (h *harness) priorityCase(hash common.Hash, j uint32) {
	p := ucon.VrfComputePriority(hash, j)
	body := []string{fmt.Sprintf("prio %s %d", hex.EncodeToString(hash[:]), j)}
	if h.drv != nil {
		l := h.ask(fmt.Sprintf("P %s %d", hex.EncodeToString(hash[:]), j))
		h.res.TracesVsImpl++
		if l != hex.EncodeToString(p[:]) {
			h.fail("correspondence", "corr-priority", fmt.Sprintf("%s: go=%x lean=%s", body[0], p, l), body)
		}
	}
	// oracle: the largest keccak(hash || i.Bytes()) over i in 0..j
	var best common.Hash
	for i := uint64(0); i <= uint64(j); i++ {
		hh := crypto.Keccak256Hash(append(append([]byte{}, hash[:]...), new(big.Int).SetUint64(i).Bytes()...))
		if new(big.Int).SetBytes(hh[:]).Cmp(new(big.Int).SetBytes(best[:])) > 0 {
			best = hh
		}
	}
	if best != p {
		h.fail("oracle", "oracle-priority", fmt.Sprintf("%s: priority %x is not the largest hash %x", body[0], p, best), body)
	}
	h.res.Dist("priority")
	h.res.Count(body[0], j > 0)
}

// ---- run -------------------------------------------------------------------------------------------------------------------------

func newHarness(c *vh.Ctx) (*harness, error) {
	quiet.Silence()
	h := &harness{c: c, res: c.Res, nfail: map[string]int{}, stats: map[string]int{}}
	if c.Driver != "" {
		d, err := vh.StartDriver(c.Driver)
		if err != nil {
			return nil, err
		}
		h.drv = d
	}
	return h, nil
}

func run(c *vh.Ctx) error {
	h, err := newHarness(c)
	if err != nil {
		return err
	}
	if h.drv != nil {
		defer h.drv.Close()
	}
	// vh.NewRNG(seed) and vh.NewRNG(seed+1) produce the same stream shifted by one output; decorrelate the seeds here
	c.R = vh.NewRNG(mixSeed(c.Seed))
	res, r := c.Res, c.R
	res.Rule = "case = one (hash, stake, p | threshold,total) triple, search table, MakeM/priority input, or one perturbation of a real credential; non-trivial when 0 < j < stake or the hash is a boundary hash (ends, 0.99 cut-over, CDF step, upper tail, midpoint), a search table with n > 0, a credential perturbation touching a bound field; distinct by canonical text"
	mult := 1
	if c.Search {
		mult = 3
	}
	// constants of the model = the Go float64 constants
	if h.drv != nil {
		want := fmt.Sprintf("k %d %d %d", fb(1.0), fb(0.99), fb(20.0))
		if got := h.ask("K"); got != want {
			h.fail("correspondence", "corr-constants", "model constants: go="+want+" lean="+got, []string{"const"})
		}
	}
	// corpus first
	for _, f := range vh.CorpusFiles("C04") {
		body, comments, e := vh.ReadReplay(f)
		if e != nil {
			continue
		}
		still, what := replayWith(h, body, comments)
		res.Dist("corpus")
		if still {
			res.Fail("corpus", "", "corpus witness fails again: "+f+": "+what, f)
		}
	}
	// (a) search
	for i := 0; i < c.N(3000, 60000)*mult && h.err == nil; i++ {
		n := int64(r.Intn(40))
		if r.Chance(15) {
			n = int64(r.Intn(200))
		}
		var sb strings.Builder
		switch r.Weighted([]int{45, 40, 5, 5, 5}) {
		case 0: // monotone
			t := r.Intn(int(n) + 2)
			for k := 0; k < int(n); k++ {
				if k >= t {
					sb.WriteByte('1')
				} else {
					sb.WriteByte('0')
				}
			}
		case 1:
			for k := 0; k < int(n); k++ {
				sb.WriteByte("01"[r.Intn(2)])
			}
		case 2:
			sb.WriteString(strings.Repeat("0", int(n)))
		case 3:
			sb.WriteString(strings.Repeat("1", int(n)))
		default: // table shorter than n: tail is false
			for k := 0; k < int(n)/2; k++ {
				sb.WriteByte("01"[r.Intn(2)])
			}
		}
		h.searchCase(n, sb.String())
	}
	for i := 0; i < c.N(1000, 20000)*mult && h.err == nil; i++ {
		n := int64(r.U64() >> uint(r.Range(3, 63)))
		t := int64(r.U64() >> uint(r.Range(3, 63)))
		if r.Chance(30) && n > 0 {
			t = int64(r.U64() % uint64(n+1))
		}
		if r.Chance(10) {
			t = n + int64(r.Intn(3)) - 1
		}
		h.searchThreshold(n, t)
	}
	// numerics of the model
	for i := 0; i < c.N(4000, 80000)*mult && h.err == nil; i++ {
		hb, _ := genHash(r, 0, 0)
		h.numCase(hb)
		stake := genStake(r)
		thr, total := genThrTotal(r, stake)
		if r.Chance(20) {
			thr = r.U64() >> uint(r.Intn(64))
			total = new(big.Int).Add(randBig(r, r.Range(1, 200)), big.NewInt(1))
		}
		h.numP(thr, total, stake)
	}
	// (b),(c) choose
	nChoose := c.N(14000, 400000) * mult
	for i := 0; i < nChoose && h.err == nil; i++ {
		cc := genChoose(r)
		if bad := h.chooseCase(cc, false); bad != "" {
			cc = h.shrinkChoose(cc)
		}
		h.chooseCase(cc, true)
		if cc.stake <= 2048 && i%12 == 0 {
			h.fullTable(cc)
		}
	}
	// malformed / degenerate verifier inputs through the exported API (fake public key returns the chosen hash)
	for i := 0; i < c.N(1200, 20000)*mult && h.err == nil; i++ {
		h.malformedCase(r)
	}
	// MakeM, priority
	for i := 0; i < c.N(1500, 20000)*mult && h.err == nil; i++ {
		seed := r.Bytes(32)
		role, index := uint32(r.U64()), uint32(r.U64())
		switch r.Intn(5) {
		case 0:
			role, index = uint32(r.Intn(8)), uint32(r.Intn(4))
		case 1:
			role, index = []uint32{0, 1, 255, 256, 65535, 65536, 1<<24 - 1, 1 << 24, 1<<32 - 1}[r.Intn(9)], []uint32{0, 1, 255, 256, 65535, 65536, 1<<24 - 1, 1 << 24, 1<<32 - 1}[r.Intn(9)]
		}
		h.makeMCase(seed, role, index)
	}
	for i := 0; i < c.N(500, 6000)*mult && h.err == nil; i++ {
		var hash common.Hash
		copy(hash[:], r.Bytes(32))
		j := uint32(r.Intn(24))
		if r.Chance(10) {
			j = uint32(r.Range(250, 300)) // crosses the 1-byte / 2-byte boundary of i.Bytes()
		}
		if r.Chance(5) {
			hash = common.Hash{}
		}
		h.priorityCase(hash, j)
	}
	// (d) credentials
	if h.err == nil {
		h.credentials(c.N(90, 1500) * mult)
	}
	// node-level verifiers on a scripted chain reader (+ probes of the recorded findings)
	if h.err == nil {
		h.serverStream(c.N(12, 120) * mult)
		lenient := h.nfail["server-vote-old-index-sub"] + h.nfail["server-vote-old-round-sub"] + h.nfail["server-vote-old-index-proof"]
		res.Probes = append(res.Probes, vh.Probe{ID: "F-C04b", Reproduced: lenient > 0,
			What: fmt.Sprintf("Server.verifySortition accepted %d non-verifying credentials addressed to a position older than the node's own", lenient)})
		forged := h.nfail["server-prio-forged-max"] + h.nfail["server-prio-forged-bit"]
		res.Probes = append(res.Probes, vh.Probe{ID: "F-C04a", Reproduced: forged > 0,
			What: fmt.Sprintf("Server.verifyPriority accepted %d forged priorities (fixed finding)", forged)})
	}
	// VRF-U observed on the real VRF: forging prover + byte alternatives
	if h.err == nil {
		h.vrfuStream(c.N(14, 250) * mult)
	}
	// the live entry point of proposer priorities (Proposal.process*Message on the Server's real verifyPriority)
	if h.err == nil {
		h.prioStream(c.N(6, 60) * mult)
	}
	// the live prover path: SortitionManager cache under adversarial query / clear orders
	if h.err == nil {
		h.mgrStream(c.N(60, 700) * mult)
	}
	if h.err != nil {
		return h.err
	}
	if cdfNotFiniteInDomain > 0 || cdfPanics > 0 {
		h.fail("oracle", "oracle-cdf-finite", fmt.Sprintf("gonum CDF returned a non-finite/negative value %d times (stake <= 1e7), panicked %d times on in-domain inputs", cdfNotFiniteInDomain, cdfPanics), []string{"cdf"})
	}
	res.DistN("stat-cdf-not-finite-beyond-stake-1e7", cdfNotFinite-cdfNotFiniteInDomain)
	for k, v := range h.stats {
		res.DistN("stat-"+k, v)
	}
	res.Extra["numerics_max_tail_relative_shift_needed"] = h.maxEps
	res.Extra["numerics_tolerance"] = numericsEps
	res.Partial = append(res.Partial,
		"gonum distuv.Binomial.CDF accuracy is only sampled: j is compared with the exact binomial quantile (768-bit reference) up to a tail-relative tolerance of 2^-16 on the target, for cases with j <= 4000",
		"monotonicity of the float CDF and agreement of the mirrored (target > 0.99) form with the direct form are hypotheses of choose_is_quantile; they are checked on full float tables for sampled stakes <= 2048 and reported as statistics",
		"VRF soundness (uniqueness, proof binding) is an explicit hypothesis; the real secp256k1 VRF is exercised only through the perturbation oracle")
	return nil
}

func mixSeed(s uint64) uint64 {
	z := s + 0x632BE59BD9B4E019
	z = (z ^ (z >> 30)) * 0xBF58476D1CE4E5B9
	z = (z ^ (z >> 27)) * 0x94D049BB133111EB
	z ^= z >> 31
	return z | 1<<20
}

// shrinkChoose simplifies a failing choose case while it keeps failing (same failure class).
func (h *harness) shrinkChoose(cc chooseCase) chooseCase {
	class := func(c chooseCase) string {
		s := h.chooseCase(c, false)
		if i := strings.Index(s, ":"); i > 0 {
			return s[:i]
		}
		return s
	}
	want := class(cc)
	if want == "" {
		return cc
	}
	try := func(c chooseCase) bool {
		if class(c) == want {
			cc = c
			return true
		}
		return false
	}
	for _, keep := range []uint{32, 64, 128, 192} { // zero the low bits of the hash
		c := cc
		c.hb = new(big.Int).Lsh(new(big.Int).Rsh(cc.hb, 256-keep), 256-keep)
		if try(c) {
			break
		}
	}
	for i := 0; i < 40; i++ {
		c := cc
		c.stake = cc.stake / 2
		if c.stake == cc.stake || !try(c) {
			break
		}
	}
	for i := 0; i < 40; i++ {
		c := cc
		c.stake = cc.stake - 1
		if c.stake < 0 || !try(c) {
			break
		}
	}
	return cc
}
