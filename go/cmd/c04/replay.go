package main

// Replay files: one case per body line, in the harness' own vocabulary (the same text res.Count hashes):
//   search n bits | searchT n t | num hash | nump thr total stake | choose hash stake pbits | chooseS hash stake thr total
//   makem seed role index | prio hash j | cred sk seed index role thr stake total kind:arg | const | cdf

import (
	"encoding/hex"
	"fmt"
	"math/big"
	"strconv"
	"strings"

	"github.com/youchainhq/go-youchain/common"
	"verifharness/internal/vh"
)

func replay(c *vh.Ctx, body, comments []string) (bool, string) {
	h, err := newHarness(c)
	if err != nil {
		return true, "cannot start driver: " + err.Error()
	}
	if h.drv != nil {
		defer h.drv.Close()
	}
	return replayWith(h, body, comments)
}

func replayWith(h *harness, body, comments []string) (bool, string) {
	saved := h.replaying
	h.replaying, h.msgs = true, nil
	defer func() { h.replaying = saved }()
	resSaved := *h.res // replaying must not disturb the counters of the run
	distSaved := map[string]int{}
	for k, v := range h.res.Distribution {
		distSaved[k] = v
	}
	for _, l := range body {
		f := strings.Fields(l)
		if len(f) == 0 {
			continue
		}
		switch f[0] {
		case "search":
			if len(f) >= 2 {
				n, _ := strconv.ParseInt(f[1], 10, 64)
				bits := ""
				if len(f) >= 3 {
					bits = f[2]
				}
				h.searchCase(n, bits)
			}
		case "searchT":
			if len(f) == 3 {
				n, _ := strconv.ParseInt(f[1], 10, 64)
				t, _ := strconv.ParseInt(f[2], 10, 64)
				h.searchThreshold(n, t)
			}
		case "num":
			if len(f) == 2 {
				if b, err := hex.DecodeString(f[1]); err == nil {
					h.numCase(new(big.Int).SetBytes(b))
				}
			}
		case "nump":
			if len(f) == 4 {
				thr, _ := strconv.ParseUint(f[1], 10, 64)
				total, ok := new(big.Int).SetString(f[2], 10)
				stake, _ := strconv.ParseInt(f[3], 10, 64)
				if ok && total.Sign() > 0 {
					h.numP(thr, total, stake)
				}
			}
		case "choose", "chooseS":
			var cc chooseCase
			if len(f) < 4 {
				continue
			}
			b, err := hex.DecodeString(f[1])
			if err != nil {
				continue
			}
			cc.hb = new(big.Int).SetBytes(b)
			cc.stake, _ = strconv.ParseInt(f[2], 10, 64)
			cc.hclass = "replay"
			if f[0] == "choose" {
				pb, _ := strconv.ParseUint(f[3], 10, 64)
				cc.p = ff(pb)
			} else {
				if len(f) < 5 {
					continue
				}
				cc.viaS = true
				cc.thr, _ = strconv.ParseUint(f[3], 10, 64)
				var ok bool
				if cc.total, ok = new(big.Int).SetString(f[4], 10); !ok || cc.total.Sign() <= 0 {
					continue
				}
				cc.p = goP(cc.thr, cc.total)
			}
			h.chooseCase(cc, true)
			h.fullTable(cc)
		case "makem":
			if len(f) == 4 {
				s, _ := hex.DecodeString(f[1])
				ro, _ := strconv.ParseUint(f[2], 10, 32)
				ix, _ := strconv.ParseUint(f[3], 10, 32)
				h.makeMCase(s, uint32(ro), uint32(ix))
			}
		case "prio":
			if len(f) == 3 {
				s, _ := hex.DecodeString(f[1])
				j, _ := strconv.ParseUint(f[2], 10, 32)
				h.priorityCase(common.BytesToHash(s), uint32(j))
			}
		case "malformed":
			// malformed hash stake thr total sub vrf priority
			if len(f) == 8 {
				hbs, e1 := hex.DecodeString(f[1])
				stake, _ := strconv.ParseInt(f[2], 10, 64)
				thr, _ := strconv.ParseUint(f[3], 10, 64)
				total, ok := new(big.Int).SetString(f[4], 10)
				sub, _ := strconv.ParseUint(f[5], 10, 32)
				pr, e2 := hex.DecodeString(f[7])
				if e1 == nil && e2 == nil && ok {
					pk := &fakePK{h: common.BytesToHash(hbs)}
					if f[6] == "err" {
						pk.err = fmt.Errorf("invalid VRF proof")
					}
					c := claim{pk: pk, seed: common.Hash{}, index: 1, role: 2, proof: []byte{7}, sub: uint32(sub), priority: common.BytesToHash(pr), thr: thr, stake: big.NewInt(stake), total: total}
					vs, vp := realVerify(c)
					if h.drv != nil {
						ls := h.askChoose(fmt.Sprintf("VS %s %d %d %d %s", total.String(), thr, stake, sub, f[6]), stake)
						lp := h.askChoose(fmt.Sprintf("VP %s %d %d %d %s %s", total.String(), thr, stake, sub, f[6], f[7]), stake)
						if ls != vs || lp != vp {
							h.msgs = append(h.msgs, fmt.Sprintf("correspondence: verifiers go=%s/%s lean=%s/%s", vs, vp, ls, lp))
						}
					}
				}
			}
		case "prio-msg":
			// prio-msg base key,key,key, who path kind
			if len(f) == 6 {
				base, e1 := hex.DecodeString(f[1])
				var keys [][]byte
				for _, ks := range strings.Split(strings.TrimRight(f[2], ","), ",") {
					kb, e := hex.DecodeString(ks)
					if e == nil && len(kb) == 32 {
						keys = append(keys, kb)
					}
				}
				who, _ := strconv.Atoi(f[3])
				if e1 == nil && len(keys) == 3 {
					h.prioCase(base, keys, who, f[4], f[5], true)
				}
			}
		case "vrfu":
			// vrfu sk seed r index role
			if len(f) == 6 {
				sk, e1 := hex.DecodeString(f[1])
				sd, e2 := hex.DecodeString(f[2])
				rb, e3 := hex.DecodeString(f[3])
				ix, _ := strconv.ParseUint(f[4], 10, 32)
				ro, _ := strconv.ParseUint(f[5], 10, 32)
				if e1 == nil && e2 == nil && e3 == nil {
					h.vrfuCase(sk, sd, rb, uint32(ix), uint32(ro), true)
				}
			}
		case "mgr":
			// mgr basehex key,key,key, who script(with _ for spaces)
			if len(f) == 5 {
				base, e1 := hex.DecodeString(f[1])
				var keys [][]byte
				for _, ks := range strings.Split(strings.TrimRight(f[2], ","), ",") {
					kb, e := hex.DecodeString(ks)
					if e == nil && len(kb) == 32 {
						keys = append(keys, kb)
					}
				}
				who, _ := strconv.Atoi(f[3])
				if e1 == nil && len(keys) == 3 {
					h.mgrScript(base, keys, who, strings.ReplaceAll(f[4], "_", " "), true)
				}
			}
		case "server":
			// server seedhex key,key,key, who kind
			if len(f) == 5 {
				seed, e1 := hex.DecodeString(f[1])
				var keys [][]byte
				for _, ks := range strings.Split(strings.TrimRight(f[2], ","), ",") {
					kb, e := hex.DecodeString(ks)
					if e == nil && len(kb) == 32 {
						keys = append(keys, kb)
					}
				}
				who, _ := strconv.Atoi(f[3])
				if e1 == nil && len(keys) > 0 {
					h.serverCase(seed, keys, who, f[4], true)
				}
			}
		case "cred":
			if b, p, ok := parseCred(f); ok {
				h.credCase(b, p, true)
			}
		}
	}
	msgs := h.msgs
	h.msgs = nil
	// restore counters
	seen := h.res
	*h.res = resSaved
	_ = seen
	h.res.Distribution = distSaved
	return len(msgs) > 0, strings.Join(msgs, "; ")
}
