package main

// Replay files: one case per body line, in the harness' own vocabulary (the same text res.Count hashes):
//   search n bits | searchT n t | num hash | nump thr total stake | choose hash stake pbits | chooseS hash stake thr total
//   makem seed role index | prio hash j | cred sk seed index role thr stake total kind:arg | const | cdf

import (
	"encoding/hex"
	"math/big"
	"strconv"
	"strings"

	"github.com/youchainhq/go-youchain/common"
	"verifharness/internal/vh"
)

func replay(c *vh.Ctx, body, comments []string) (bool, string) {
	h, err := newHarness(c)
	if err != nil {
		return true, "cannot start driver: " + err.Error()
	}
	if h.drv != nil {
		defer h.drv.Close()
	}
	return replayWith(h, body, comments)
}

func replayWith(h *harness, body, comments []string) (bool, string) {
	saved := h.replaying
	h.replaying, h.msgs = true, nil
	defer func() { h.replaying = saved }()
	resSaved := *h.res // replaying must not disturb the counters of the run
	distSaved := map[string]int{}
	for k, v := range h.res.Distribution {
		distSaved[k] = v
	}
	for _, l := range body {
		f := strings.Fields(l)
		if len(f) == 0 {
			continue
		}
		switch f[0] {
		case "search":
			if len(f) >= 2 {
				n, _ := strconv.ParseInt(f[1], 10, 64)
				bits := ""
				if len(f) >= 3 {
					bits = f[2]
				}
				h.searchCase(n, bits)
			}
		case "searchT":
			if len(f) == 3 {
				n, _ := strconv.ParseInt(f[1], 10, 64)
				t, _ := strconv.ParseInt(f[2], 10, 64)
				h.searchThreshold(n, t)
			}
		case "num":
			if len(f) == 2 {
				if b, err := hex.DecodeString(f[1]); err == nil {
					h.numCase(new(big.Int).SetBytes(b))
				}
			}
		case "nump":
			if len(f) == 4 {
				thr, _ := strconv.ParseUint(f[1], 10, 64)
				total, ok := new(big.Int).SetString(f[2], 10)
				stake, _ := strconv.ParseInt(f[3], 10, 64)
				if ok && total.Sign() > 0 {
					h.numP(thr, total, stake)
				}
			}
		case "choose", "chooseS":
			var cc chooseCase
			if len(f) < 4 {
				continue
			}
			b, err := hex.DecodeString(f[1])
			if err != nil {
				continue
			}
			cc.hb = new(big.Int).SetBytes(b)
			cc.stake, _ = strconv.ParseInt(f[2], 10, 64)
			cc.hclass = "replay"
			if f[0] == "choose" {
				pb, _ := strconv.ParseUint(f[3], 10, 64)
				cc.p = ff(pb)
			} else {
				if len(f) < 5 {
					continue
				}
				cc.viaS = true
				cc.thr, _ = strconv.ParseUint(f[3], 10, 64)
				var ok bool
				if cc.total, ok = new(big.Int).SetString(f[4], 10); !ok || cc.total.Sign() <= 0 {
					continue
				}
				cc.p = goP(cc.thr, cc.total)
			}
			h.chooseCase(cc, true)
			h.fullTable(cc)
		case "makem":
			if len(f) == 4 {
				s, _ := hex.DecodeString(f[1])
				ro, _ := strconv.ParseUint(f[2], 10, 32)
				ix, _ := strconv.ParseUint(f[3], 10, 32)
				h.makeMCase(s, uint32(ro), uint32(ix))
			}
		case "prio":
			if len(f) == 3 {
				s, _ := hex.DecodeString(f[1])
				j, _ := strconv.ParseUint(f[2], 10, 32)
				h.priorityCase(common.BytesToHash(s), uint32(j))
			}
		case "server":
			// server seedhex key,key,key, who kind
			if len(f) == 5 {
				seed, e1 := hex.DecodeString(f[1])
				var keys [][]byte
				for _, ks := range strings.Split(strings.TrimRight(f[2], ","), ",") {
					kb, e := hex.DecodeString(ks)
					if e == nil && len(kb) == 32 {
						keys = append(keys, kb)
					}
				}
				who, _ := strconv.Atoi(f[3])
				if e1 == nil && len(keys) > 0 {
					h.serverCase(seed, keys, who, f[4], true)
				}
			}
		case "cred":
			if b, p, ok := parseCred(f); ok {
				h.credCase(b, p, true)
			}
		}
	}
	msgs := h.msgs
	h.msgs = nil
	// restore counters
	seen := h.res
	*h.res = resSaved
	_ = seen
	h.res.Distribution = distSaved
	return len(msgs) > 0, strings.Join(msgs, "; ")
}
