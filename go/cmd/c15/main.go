package main

import "verifharness/internal/vh"

func main() {
	vh.Main(vh.Harness{Property: "C15", Run: run, Replay: replay, Gen: genC15})
}
