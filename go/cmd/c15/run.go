package main

// C15 correspondence + implementation-level oracle.
//
//  three evaluators are run on every generated program (code, gas limit, committed storage):
//   real : the real EVM, vm/runtime.Call on a fresh StateDB (panics recovered)
//   lean : the compiled Lean interpreter model (driver drv_c15; opcode bodies regenerated from /repo)
//   ref  : an independent reference evaluator written here directly from the EVM specification
//          (value semantics on fresh math/big integers, fee schedule constants of the Yellow Paper / EIPs)
//  real vs lean = correspondence (tie of the model);  real vs ref = implementation-level oracle (the property's
//  statement on observable behaviour: return data = final stack + memory, gas used, refund, storage).
//
//  case kinds: one computational opcode on boundary/random operand tuples; DUP/SWAP-heavy random straight-line
//  programs that reuse results (pool aliasing); gas-boundary reruns (exact gas, one less); a malformed stream
//  (random opcodes, underflow, stack limit, truncated PUSH, huge memory offsets); math/big primitives of
//  ModelBig against math/big itself.

import (
	"encoding/hex"
	"fmt"
	"math/big"
	"sort"
	"strconv"
	"strings"

	"github.com/youchainhq/go-youchain/common"
	"github.com/youchainhq/go-youchain/core/state"
	"github.com/youchainhq/go-youchain/core/vm"
	"github.com/youchainhq/go-youchain/core/vm/runtime"
	"github.com/youchainhq/go-youchain/params"
	"github.com/youchainhq/go-youchain/youdb"

	"verifharness/internal/quiet"
	"verifharness/internal/vh"
)

var (
	two256  = new(big.Int).Lsh(big.NewInt(1), 256)
	two255  = new(big.Int).Lsh(big.NewInt(1), 255)
	max256  = new(big.Int).Sub(two256, big.NewInt(1))
	contract = common.BytesToAddress([]byte("contract"))
)

// ---- programs ------------------------------------------------------------------------------------

type ins struct {
	op  byte
	imm []byte
}

type kv struct{ k, v *big.Int }

type tcase struct {
	kind  string
	body  []ins
	raw   []byte // malformed stream: raw code, no epilogue
	gas   uint64
	store []kv
}

// pops, pushes of the opcodes the generator uses (specification values; generator-side only)
func arity(op byte) (int, int, bool) {
	switch {
	case op == 0x00:
		return 0, 0, true
	case op >= 0x01 && op <= 0x07, op == 0x0a, op == 0x0b, op >= 0x10 && op <= 0x14, op >= 0x16 && op <= 0x18, op >= 0x1a && op <= 0x1d:
		return 2, 1, true
	case op == 0x08 || op == 0x09:
		return 3, 1, true
	case op == 0x15 || op == 0x19:
		return 1, 1, true
	case op == 0x50:
		return 1, 0, true
	case op == 0x51 || op == 0x54:
		return 1, 1, true
	case op == 0x52 || op == 0x53 || op == 0x55:
		return 2, 0, true
	case op == 0x58 || op == 0x59 || op == 0x5a:
		return 0, 1, true
	case op == 0x5b:
		return 0, 0, true
	case op >= 0x60 && op <= 0x7f:
		return 0, 1, true
	case op >= 0x80 && op <= 0x8f:
		return int(op-0x80) + 1, int(op-0x80) + 2, true
	case op >= 0x90 && op <= 0x9f:
		return int(op-0x90) + 2, int(op-0x90) + 2, true
	}
	return 0, 0, false
}

var compOps = []byte{0x01, 0x02, 0x03, 0x04, 0x05, 0x06, 0x07, 0x08, 0x09, 0x0a, 0x0b, 0x10, 0x11, 0x12, 0x13, 0x14, 0x15, 0x16, 0x17, 0x18, 0x19, 0x1a, 0x1b, 0x1c, 0x1d}

func height(body []ins) (int, bool) {
	h := 0
	for _, i := range body {
		p, q, ok := arity(i.op)
		if !ok || h < p {
			return 0, false
		}
		h += q - p
		if h > 1024 {
			return 0, false
		}
	}
	return h, true
}

func assemble(body []ins) []byte {
	var c []byte
	for _, i := range body {
		c = append(c, i.op)
		c = append(c, i.imm...)
	}
	return c
}

// code = body ++ epilogue; the epilogue appends every stack item to memory (MSIZE MSTORE) and returns all memory
func (t *tcase) code() []byte {
	if t.raw != nil {
		return t.raw
	}
	c := assemble(t.body)
	h, ok := height(t.body)
	if !ok {
		return c
	}
	if h > 1020 {
		h = 1020
	}
	for i := 0; i < h; i++ {
		c = append(c, 0x59, 0x52)
	}
	return append(c, 0x59, 0x60, 0x00, 0xf3)
}

func push(v *big.Int) ins {
	b := v.Bytes()
	if len(b) == 0 {
		b = []byte{0}
	}
	if len(b) > 32 {
		b = b[len(b)-32:]
	}
	return ins{op: byte(0x5f + len(b)), imm: b}
}

func pushPadded(v *big.Int, n int) ins {
	b := v.Bytes()
	if len(b) > n {
		b = b[len(b)-n:]
	}
	p := make([]byte, n-len(b))
	return ins{op: byte(0x5f + n), imm: append(p, b...)}
}

// ---- operand classes -----------------------------------------------------------------------------

func rnd256(r *vh.RNG) *big.Int { return new(big.Int).SetBytes(r.Bytes(32)) }

func operand(r *vh.RNG) *big.Int {
	switch r.Intn(24) {
	case 0:
		return big.NewInt(0)
	case 1:
		return big.NewInt(1)
	case 2:
		return big.NewInt(2)
	case 3:
		return new(big.Int).Set(two255)
	case 4:
		return new(big.Int).Set(max256)
	case 5:
		return new(big.Int).Sub(two255, big.NewInt(1))
	case 6:
		return new(big.Int).Add(two255, big.NewInt(int64(1+r.Intn(3))))
	case 7:
		return new(big.Int).Sub(max256, big.NewInt(int64(r.Intn(4))))
	case 8:
		return big.NewInt(int64(r.Intn(40))) // small: byte indexes, sign-extend widths
	case 9:
		return big.NewInt(int64(248 + r.Intn(16))) // shifts around 256
	case 10:
		return new(big.Int).Lsh(big.NewInt(1), uint(r.Intn(256))) // power of two
	case 11:
		return new(big.Int).Sub(new(big.Int).Lsh(big.NewInt(1), uint(1+r.Intn(256))), big.NewInt(1)) // 2^k - 1
	case 12:
		return new(big.Int).SetBytes(r.Bytes(1 + r.Intn(8))) // up to one machine word
	case 13:
		return new(big.Int).Add(new(big.Int).Lsh(big.NewInt(1), 64), big.NewInt(int64(r.Intn(3))-1)) // 2^64 +- 1
	case 14:
		return new(big.Int).SetBytes(r.Bytes(1 + r.Intn(32)))
	case 15:
		// small negative number in two's complement
		return new(big.Int).Sub(two256, big.NewInt(int64(1+r.Intn(300))))
	case 16:
		// 0x80 or 0x7f patterns at a random byte (sign-extension boundaries)
		k := uint(r.Intn(32))
		v := new(big.Int).Lsh(big.NewInt(int64(0x7f+r.Intn(2))), 8*k)
		return v.Or(v, new(big.Int).SetBytes(r.Bytes(int(k))))
	case 17:
		// 2^64 multiples: high words only
		return new(big.Int).Lsh(new(big.Int).SetBytes(r.Bytes(1+r.Intn(8))), uint(64*(1+r.Intn(3))))
	default:
		return rnd256(r)
	}
}

// ---- generators ----------------------------------------------------------------------------------

func genStore(r *vh.RNG) []kv {
	var s []kv
	n := r.Intn(4)
	seen := map[string]bool{}
	for i := 0; i < n; i++ {
		k := big.NewInt(int64(r.Intn(6)))
		if r.Chance(15) {
			k = rnd256(r)
		}
		if seen[k.String()] {
			continue
		}
		seen[k.String()] = true
		v := operand(r)
		if v.Sign() == 0 {
			v = big.NewInt(9)
		}
		s = append(s, kv{k, v})
	}
	sort.Slice(s, func(i, j int) bool { return s[i].k.Cmp(s[j].k) < 0 })
	return s
}

func genSingle(r *vh.RNG, op byte) *tcase {
	p, _, _ := arity(op)
	args := make([]*big.Int, p)
	for i := range args {
		args[i] = operand(r)
	}
	// make the interesting first operand small more often for index-like operands
	if (op == 0x0b || op == 0x1a) && r.Chance(60) {
		args[0] = big.NewInt(int64(r.Intn(35))) // byte indexes around the 31/32 boundary
	}
	if op >= 0x1b && r.Chance(60) {
		args[0] = big.NewInt(int64([]int{r.Intn(300), 255, 256, 257, r.Intn(9), 64 * r.Intn(5)}[r.Intn(6)]))
	}
	if (op == 0x08 || op == 0x09) && r.Chance(10) {
		args[2] = big.NewInt(0)
	}
	if op == 0x0a && r.Chance(60) {
		args[1] = new(big.Int).SetBytes(r.Bytes(1 + r.Intn(3)))
	}
	t := &tcase{kind: "single", gas: 1000000}
	// some neighbours below, to check they are not disturbed
	nb := r.Intn(3)
	for i := 0; i < nb; i++ {
		t.body = append(t.body, push(operand(r)))
	}
	for i := p - 1; i >= 0; i-- {
		if r.Chance(10) {
			t.body = append(t.body, pushPadded(args[i], 32))
		} else {
			t.body = append(t.body, push(args[i]))
		}
	}
	t.body = append(t.body, ins{op: op})
	return t
}

func genProgram(r *vh.RNG) *tcase {
	t := &tcase{kind: "program", gas: 3000000, store: genStore(r)}
	n := r.Range(6, 70)
	h := 0
	emit := func(i ins) {
		p, q, _ := arity(i.op)
		h += q - p
		t.body = append(t.body, i)
	}
	for len(t.body) < n {
		if h > 900 {
			emit(ins{op: 0x50})
			continue
		}
		w := []int{18, 16, 14, 34, 6, 5, 3, 4}
		if h < 2 {
			w = []int{60, 10, 0, 10, 5, 5, 5, 5}
		}
		switch r.Weighted(w) {
		case 0: // PUSH
			emit(push(operand(r)))
		case 1: // DUP
			if h >= 1 {
				k := 1 + r.Intn(minInt(h, 16))
				emit(ins{op: byte(0x80 + k - 1)})
			}
		case 2: // SWAP
			if h >= 2 {
				k := 1 + r.Intn(minInt(h-1, 16))
				emit(ins{op: byte(0x90 + k - 1)})
			}
		case 3: // computational
			op := compOps[r.Intn(len(compOps))]
			p, _, _ := arity(op)
			if (op == 0x0b || op == 0x1a || op >= 0x1b) && r.Chance(60) && h >= p-1 && p == 2 {
				emit(push(big.NewInt(int64(r.Intn(270)))))
			}
			if op == 0x0a && r.Chance(70) && h >= 1 {
				// keep exponents short most of the time (gas), base = existing item
				emit(push(new(big.Int).SetBytes(r.Bytes(1 + r.Intn(2)))))
				emit(ins{op: 0x90})
			}
			if h >= p {
				emit(ins{op: op})
			}
		case 4: // memory
			off := big.NewInt(int64(r.Intn(400)))
			if r.Chance(5) {
				off = big.NewInt(int64(r.Intn(20000)))
			}
			switch r.Intn(3) {
			case 0:
				emit(push(off))
				emit(ins{op: 0x51})
			case 1:
				if h >= 1 {
					emit(push(off))
					emit(ins{op: 0x52})
				}
			case 2:
				if h >= 1 {
					emit(push(off))
					emit(ins{op: 0x53})
				}
			}
		case 5: // storage
			k := big.NewInt(int64(r.Intn(6)))
			if len(t.store) > 0 && r.Chance(40) {
				k = t.store[r.Intn(len(t.store))].k
			}
			if r.Bool() || h < 1 {
				emit(push(k))
				emit(ins{op: 0x54})
			} else {
				if r.Chance(25) {
					emit(push(big.NewInt(0)))
					emit(ins{op: 0x90})
					emit(ins{op: 0x50})
				}
				emit(push(k))
				emit(ins{op: 0x55})
			}
		case 6: // PC MSIZE GAS JUMPDEST
			emit(ins{op: []byte{0x58, 0x59, 0x5a, 0x5b}[r.Intn(4)]})
		case 7:
			if h >= 1 {
				emit(ins{op: 0x50})
			}
		}
	}
	return t
}

func minInt(a, b int) int {
	if a < b {
		return a
	}
	return b
}

func genMalformed(r *vh.RNG) *tcase {
	t := &tcase{kind: "malformed", gas: uint64(r.Range(0, 200000)), store: genStore(r)}
	switch r.Intn(6) {
	case 0: // stack limit: 1023..1026 pushes then something
		n := 1022 + r.Intn(5)
		for i := 0; i < n; i++ {
			t.raw = append(t.raw, 0x60, byte(i))
		}
		t.raw = append(t.raw, []byte{0x80, 0x58, 0x01, 0x00}[r.Intn(4)], 0x00)
		t.gas = 100000
	case 1: // huge memory offsets / sizes
		v := operand(r)
		c := assemble([]ins{push(big.NewInt(int64(r.Intn(5)))), push(v), {op: []byte{0x51, 0x52, 0x53, 0xf3}[r.Intn(4)]}})
		t.raw = append(c, 0x59, 0x60, 0x00, 0xf3)
		t.gas = []uint64{100000, 3000000, 10000000}[r.Intn(3)]
	case 2: // truncated PUSH at the end of the code
		c := assemble([]ins{push(operand(r))})
		n := r.Intn(33)
		c = append(c, byte(0x60+r.Intn(32)))
		c = append(c, r.Bytes(n)...)
		t.raw = c
	default: // random opcodes from the modelled set plus a few invalid/unmodelled ones
		n := r.Range(1, 40)
		pool := []byte{0x00, 0x01, 0x02, 0x03, 0x04, 0x0a, 0x0b, 0x10, 0x15, 0x16, 0x19, 0x1a, 0x1b, 0x1d, 0x50, 0x51, 0x52, 0x53, 0x54, 0x55, 0x58, 0x59, 0x5a, 0x5b, 0x60, 0x61, 0x7f, 0x80, 0x81, 0x8f, 0x90, 0x91, 0x9f, 0xf3, 0x0c, 0x1e, 0x21, 0x4f, 0xfe, 0xb0}
		for i := 0; i < n; i++ {
			op := pool[r.Intn(len(pool))]
			if r.Chance(40) {
				op = 0x60
			}
			t.raw = append(t.raw, op)
			if op >= 0x60 && op <= 0x7f {
				t.raw = append(t.raw, r.Bytes(int(op-0x5f))...)
			}
		}
	}
	return t
}

// ---- canonical outcome ----------------------------------------------------------------------------

func storeKeys(t *tcase, written []*big.Int) []*big.Int {
	m := map[string]*big.Int{}
	for _, e := range t.store {
		m[e.k.String()] = e.k
	}
	for _, k := range written {
		m[k.String()] = k
	}
	var ks []*big.Int
	for _, k := range m {
		ks = append(ks, k)
	}
	sort.Slice(ks, func(i, j int) bool { return ks[i].Cmp(ks[j]) < 0 })
	return ks
}

func canonOK(ret []byte, gasLeft, refund uint64, st []string) string {
	r := "-"
	if len(ret) > 0 {
		r = hex.EncodeToString(ret)
	}
	s := "-"
	if len(st) > 0 {
		s = strings.Join(st, ",")
	}
	return fmt.Sprintf("ok %s %d %d %s", r, gasLeft, refund, s)
}

// keys written by SSTORE cannot be known without running; the reference evaluator reports them and the
// real state is then read at exactly those keys
func runReal(t *tcase, keys []*big.Int) (out string) {
	defer func() {
		if r := recover(); r != nil {
			out = fmt.Sprintf("crash %v", r)
		}
	}()
	st, err := state.New(common.Hash{}, common.Hash{}, common.Hash{}, state.NewDatabase(youdb.NewMemDatabase()))
	if err != nil {
		return "crash state.New: " + err.Error()
	}
	st.CreateAccount(contract)
	st.SetCode(contract, t.code())
	for _, e := range t.store {
		st.SetState(contract, common.BigToHash(e.k), common.BigToHash(e.v))
	}
	st.Finalise(true)
	cfg := &runtime.Config{State: st, GasLimit: t.gas, Time: big.NewInt(1), BlockNumber: big.NewInt(1), GasPrice: big.NewInt(1)}
	ret, left, err := runtime.Call(contract, nil, cfg)
	if err != nil {
		switch {
		case err == vm.ErrOutOfGas:
			return "fail oog"
		case strings.HasPrefix(err.Error(), "stack underflow"):
			return "fail underflow"
		case strings.HasPrefix(err.Error(), "stack limit reached"):
			return "fail overflow"
		case strings.HasPrefix(err.Error(), "invalid opcode"):
			return "fail invalid"
		case err.Error() == "gas uint64 overflow":
			return "fail gasoverflow"
		}
		return "fail other:" + err.Error()
	}
	var ss []string
	for _, k := range keys {
		ss = append(ss, k.String()+"="+st.GetState(contract, common.BigToHash(k)).Big().String())
	}
	return canonOK(ret, left, st.GetRefund(), ss)
}

func leanLine(t *tcase) string {
	s := "-"
	if len(t.store) > 0 {
		var p []string
		for _, e := range t.store {
			p = append(p, e.k.String()+"="+e.v.String())
		}
		s = strings.Join(p, ",")
	}
	c := hex.EncodeToString(t.code())
	if c == "" {
		c = "-"
	}
	return fmt.Sprintf("R %d %s %s", t.gas, c, s)
}

// ---- replay format ---------------------------------------------------------------------------------

func (t *tcase) replayBody() []string {
	return []string{leanLine(t)}
}

func parseCaseLine(l string) (*tcase, error) {
	f := strings.Fields(l)
	if len(f) != 4 || f[0] != "R" {
		return nil, fmt.Errorf("bad case line %q", l)
	}
	g, err := strconv.ParseUint(f[1], 10, 64)
	if err != nil {
		return nil, err
	}
	t := &tcase{kind: "replay", gas: g}
	if f[2] != "-" {
		if t.raw, err = hex.DecodeString(f[2]); err != nil {
			return nil, err
		}
	} else {
		t.raw = []byte{}
	}
	if f[3] != "-" {
		for _, p := range strings.Split(f[3], ",") {
			e := strings.Split(p, "=")
			if len(e) != 2 {
				return nil, fmt.Errorf("bad storage %q", p)
			}
			k, ok1 := new(big.Int).SetString(e[0], 10)
			v, ok2 := new(big.Int).SetString(e[1], 10)
			if !ok1 || !ok2 {
				return nil, fmt.Errorf("bad storage %q", p)
			}
			t.store = append(t.store, kv{k, v})
		}
	}
	return t, nil
}

// ---- evaluation of a batch -------------------------------------------------------------------------

type verdict struct {
	real, lean, ref string
}

func (v verdict) corrOK() bool   { return strings.HasPrefix(v.lean, "unsupported") || v.real == v.lean }
func (v verdict) oracleOK() bool { return strings.HasPrefix(v.ref, "unsupported") || v.real == v.ref }

func evalBatch(driver string, cases []*tcase) ([]verdict, error) {
	out := make([]verdict, len(cases))
	var lines []string
	for i, t := range cases {
		ref, keys := runRef(t)
		out[i].ref = ref
		out[i].real = runReal(t, storeKeys(t, keys))
		lines = append(lines, leanLine(t))
	}
	if driver != "" {
		resp, err := vh.RunBatch(driver, lines)
		if err != nil {
			return nil, err
		}
		if len(resp) != len(lines) {
			return nil, fmt.Errorf("driver answered %d lines for %d requests", len(resp), len(lines))
		}
		for i := range out {
			out[i].lean = resp[i]
		}
	} else {
		for i := range out {
			out[i].lean = out[i].real
		}
	}
	return out, nil
}

func evalOne(driver string, t *tcase) verdict {
	v, err := evalBatch(driver, []*tcase{t})
	if err != nil {
		return verdict{real: "?", lean: "driver error: " + err.Error(), ref: "?"}
	}
	return v[0]
}

// shrink a structured case by deleting instructions (the epilogue is rebuilt from the static stack height)
func shrinkCase(driver string, t *tcase, bad func(verdict) bool) *tcase {
	if t.raw != nil || len(t.body) > 400 {
		return t
	}
	idx := make([]string, len(t.body))
	for i := range idx {
		idx[i] = strconv.Itoa(i)
	}
	build := func(keep []string) *tcase {
		c := &tcase{kind: t.kind, gas: t.gas, store: t.store}
		for _, s := range keep {
			i, _ := strconv.Atoi(s)
			c.body = append(c.body, t.body[i])
		}
		return c
	}
	budget := 300
	keep := vh.Shrink(idx, func(k []string) bool {
		if budget <= 0 {
			return false
		}
		budget--
		c := build(k)
		if _, ok := height(c.body); !ok {
			return false
		}
		return bad(evalOne(driver, c))
	})
	return build(keep)
}

func describe(t *tcase) string {
	if t.raw != nil {
		return "raw " + hex.EncodeToString(t.raw)
	}
	var p []string
	for _, i := range t.body {
		s := vm.OpCode(i.op).String()
		if len(i.imm) > 0 {
			s += " 0x" + hex.EncodeToString(i.imm)
		}
		p = append(p, s)
	}
	return strings.Join(p, "; ")
}

func nontrivial(t *tcase) bool {
	switch t.kind {
	case "single":
		for _, i := range t.body {
			if len(i.imm) > 0 && new(big.Int).SetBytes(i.imm).Sign() != 0 {
				return true
			}
		}
		return false
	case "program":
		ds, comp := 0, 0
		for _, i := range t.body {
			if i.op >= 0x80 && i.op <= 0x9f {
				ds++
			}
			if (i.op >= 0x01 && i.op <= 0x0b) || (i.op >= 0x10 && i.op <= 0x1d) {
				comp++
			}
		}
		return ds >= 1 && comp >= 2
	}
	return len(t.code()) > 0
}

// ---- math/big primitives of ModelBig vs math/big ---------------------------------------------------

func bigOperand(r *vh.RNG) *big.Int {
	var v *big.Int
	switch r.Intn(8) {
	case 0:
		v = big.NewInt(int64(r.Intn(5)))
	case 1:
		v = new(big.Int).Lsh(big.NewInt(1), uint(r.Intn(520)))
	case 2:
		v = new(big.Int).Sub(new(big.Int).Lsh(big.NewInt(1), uint(64*r.Intn(9))), big.NewInt(int64(r.Intn(3))))
	case 3:
		v = new(big.Int).SetBytes(r.Bytes(1 + r.Intn(70)))
	default:
		v = operand(r)
	}
	if r.Chance(40) {
		v.Neg(v)
	}
	return v
}

func bigPrimCase(r *vh.RNG) (line string, want string) {
	x, y := bigOperand(r), bigOperand(r)
	z := new(big.Int)
	prims := []string{"and", "or", "xor", "not", "add", "sub", "mul", "neg", "abs", "div", "mod", "quo", "rem", "lsh", "rsh", "cmp", "sign", "bit", "uint64", "int64", "bitlen", "bits", "u256", "s256", "exp256", "byte", "exp"}
	p := prims[r.Intn(len(prims))]
	n := int64(r.Intn(600))
	two := func() string { return fmt.Sprintf("B %s %s %s", p, x, y) }
	one := func() string { return fmt.Sprintf("B %s %s", p, x) }
	sh := func() string { return fmt.Sprintf("B %s %s %d", p, x, n) }
	switch p {
	case "and":
		return two(), z.And(x, y).String()
	case "or":
		return two(), z.Or(x, y).String()
	case "xor":
		return two(), z.Xor(x, y).String()
	case "not":
		return one(), z.Not(x).String()
	case "add":
		return two(), z.Add(x, y).String()
	case "sub":
		return two(), z.Sub(x, y).String()
	case "mul":
		return two(), z.Mul(x, y).String()
	case "neg":
		return one(), z.Neg(x).String()
	case "abs":
		return one(), z.Abs(x).String()
	case "div", "mod", "quo", "rem":
		if y.Sign() == 0 {
			return two(), "-1" // Go panics; the model's poison value
		}
		switch p {
		case "div":
			z.Div(x, y)
		case "mod":
			z.Mod(x, y)
		case "quo":
			z.Quo(x, y)
		case "rem":
			z.Rem(x, y)
		}
		return two(), z.String()
	case "lsh":
		return sh(), z.Lsh(x, uint(n)).String()
	case "rsh":
		return sh(), z.Rsh(x, uint(n)).String()
	case "cmp":
		return two(), strconv.Itoa(x.Cmp(y))
	case "sign":
		return one(), strconv.Itoa(x.Sign())
	case "bit":
		return sh(), strconv.Itoa(int(x.Bit(int(n))))
	case "uint64":
		return one(), strconv.FormatUint(x.Uint64(), 10)
	case "int64":
		return one(), strconv.FormatInt(x.Int64(), 10)
	case "bitlen":
		return one(), strconv.Itoa(x.BitLen())
	case "bits":
		w := []string{"w"}
		for _, d := range x.Bits() {
			w = append(w, strconv.FormatUint(uint64(d), 10))
		}
		return one(), strings.Join(w, " ")
	case "u256":
		return one(), new(big.Int).And(x, max256).String()
	case "s256":
		x.Abs(x).And(x, max256)
		if x.Cmp(two255) < 0 {
			return one(), x.String()
		}
		return one(), z.Sub(x, two256).String()
	case "exp256":
		x.Abs(x).And(x, max256)
		y.Abs(y).And(y, max256)
		if r.Chance(70) {
			y.SetBytes(r.Bytes(1 + r.Intn(3)))
		}
		return two(), z.Exp(x, y, two256).String()
	case "byte":
		x.Abs(x)
		return fmt.Sprintf("B byte %s 32 %d", x, n%40), strconv.Itoa(int(refByte(x, int(n%40))))
	case "exp":
		e := big.NewInt(int64(r.Intn(40)) - 5)
		x.SetInt64(int64(r.Intn(2000)) - 1000)
		return fmt.Sprintf("B exp %s %s", x, e), z.Exp(x, e, nil).String()
	}
	return "", ""
}

// byte n (0 = most significant) of the 32-byte big-endian representation, from the definition
func refByte(x *big.Int, n int) byte {
	if n >= 32 {
		return 0
	}
	v := new(big.Int).Rsh(x, uint(8*(31-n)))
	return byte(v.And(v, big.NewInt(255)).Uint64())
}

// ---- run ---------------------------------------------------------------------------------------------

func fail(c *vh.Ctx, name string, t *tcase, v verdict) {
	kind := "correspondence"
	bad := func(v verdict) bool { return !v.corrOK() }
	if v.corrOK() {
		kind = "oracle"
		bad = func(v verdict) bool { return !v.oracleOK() }
	}
	if strings.HasPrefix(v.real, "crash") {
		kind = "crash"
		bad = func(v verdict) bool { return strings.HasPrefix(v.real, "crash") }
	}
	s := shrinkCase(c.Driver, t, bad)
	sv := evalOne(c.Driver, s)
	if !bad(sv) {
		s, sv = t, v
	}
	rp := vh.WriteReplay(c.ReplayDir, "C15", name, c.Seed, []string{
		kind + ": " + t.kind + " case; the real EVM (vm/runtime.Call), the Lean model and the specification-level reference evaluator disagree",
		"program: " + describe(s),
		"real: " + sv.real, "lean: " + sv.lean, "ref:  " + sv.ref,
	}, s.replayBody())
	c.Res.Fail(kind, "", fmt.Sprintf("%s: real=%s lean=%s ref=%s", describe(s), trunc(sv.real), trunc(sv.lean), trunc(sv.ref)), rp)
}

func trunc(s string) string {
	if len(s) > 160 {
		return s[:160] + "..."
	}
	return s
}

func run(c *vh.Ctx) error {
	quiet.Silence()
	params.InitNetworkId(params.NetworkIdForTestCase)
	res := c.Res
	res.Rule = "case = (bytecode, gas limit, committed storage); single-opcode cases are non-trivial when not all operands are zero, programs when they contain >= 1 DUP/SWAP and >= 2 computational opcodes, malformed cases when the code is non-empty; distinct by canonical text"
	if c.Driver == "" {
		res.Partial = append(res.Partial, "no Lean driver available: correspondence skipped, only the implementation-level oracle ran")
	}
	mult := 1
	if c.Search {
		mult = 4
	}
	nfail := 0
	process := func(cases []*tcase, tag string) error {
		vs, err := evalBatch(c.Driver, cases)
		if err != nil {
			return err
		}
		for i, v := range vs {
			t := cases[i]
			res.Count(leanLine(t), nontrivial(t))
			res.Dist("kind-" + t.kind)
			res.Dist("outcome-" + strings.Fields(v.real + " ?")[0] + func() string {
				if strings.HasPrefix(v.real, "fail") {
					return "-" + strings.Fields(v.real)[1]
				}
				return ""
			}())
			if strings.HasPrefix(v.lean, "unsupported") {
				res.Dist("outside-model-scope")
			} else if c.Driver != "" {
				res.TracesVsImpl++
			}
			if len(res.Samples) < 4 && i%97 == 3 {
				res.Sample(map[string]interface{}{"kind": t.kind, "program": trunc(describe(t)), "gas": t.gas, "real": trunc(v.real), "lean": trunc(v.lean), "ref": trunc(v.ref)})
			}
			if !(v.corrOK() && v.oracleOK()) || strings.HasPrefix(v.real, "crash") {
				nfail++
				if nfail <= 6 {
					fail(c, fmt.Sprintf("%s-%d", tag, i), t, v)
				}
			}
		}
		return nil
	}

	// ---- corpus first
	for _, f := range vh.CorpusFiles("C15") {
		body, _, err := vh.ReadReplay(f)
		if err != nil {
			return err
		}
		for _, l := range body {
			t, err := parseCaseLine(l)
			if err != nil {
				return fmt.Errorf("%s: %v", f, err)
			}
			v := evalOne(c.Driver, t)
			res.Dist("corpus")
			if !(v.corrOK() && v.oracleOK()) {
				res.Fail("corpus", "", fmt.Sprintf("corpus case %s fails again: real=%s lean=%s ref=%s", f, trunc(v.real), trunc(v.lean), trunc(v.ref)), f)
			}
		}
	}

	// ---- the table the model was generated from is the table the interpreter uses now
	if c.Driver != "" {
		resp, err := vh.RunBatch(c.Driver, []string{"T"})
		if err != nil {
			return err
		}
		valid := 0
		for _, o := range liveTable() {
			if o.Valid {
				valid++
			}
		}
		want := fmt.Sprintf("table %d %d %s", valid, len(compOps), params.Versions[params.YouCurrentVersion].EVMVersion)
		if len(resp) != 1 || resp[0] != want {
			rp := vh.WriteReplay(c.ReplayDir, "C15", "table-digest", c.Seed, []string{"correspondence: generated table digest differs from the live table", "live: " + want, "lean: " + strings.Join(resp, "|")}, []string{"T"})
			res.Fail("correspondence", "", "generated jump table digest differs from the live one", rp)
		}
	}

	// ---- (a) single computational opcodes
	perOp := c.N(1500, 40000) * mult
	for _, op := range compOps {
		var cases []*tcase
		for i := 0; i < perOp; i++ {
			cases = append(cases, genSingle(c.R, op))
		}
		if err := process(cases, fmt.Sprintf("single-%02x", op)); err != nil {
			return err
		}
		res.DistN("op-"+vm.OpCode(op).String(), perOp)
	}

	// ---- (b) programs, each also at its exact gas and one unit less
	nProg := c.N(3000, 60000) * mult
	for done := 0; done < nProg; {
		var cases []*tcase
		for i := 0; i < 1000 && done < nProg; i++ {
			t := genProgram(c.R)
			cases = append(cases, t)
			done++
			if c.R.Chance(30) {
				if ref, _ := runRef(t); strings.HasPrefix(ref, "ok ") {
					left, _ := strconv.ParseUint(strings.Fields(ref)[2], 10, 64)
					used := t.gas - left
					for _, g := range []uint64{used, used - 1} {
						if used > 0 {
							cases = append(cases, &tcase{kind: "gas-boundary", body: t.body, gas: g, store: t.store})
						}
					}
				}
			}
		}
		if err := process(cases, fmt.Sprintf("prog-%d", done)); err != nil {
			return err
		}
	}

	// ---- (c) malformed stream
	nMal := c.N(1500, 30000) * mult
	{
		var cases []*tcase
		for i := 0; i < nMal; i++ {
			cases = append(cases, genMalformed(c.R))
		}
		if err := process(cases, "malformed"); err != nil {
			return err
		}
	}

	// ---- (d) math/big primitives of ModelBig
	if c.Driver != "" {
		nPrim := c.N(20000, 400000)
		var lines, want []string
		for i := 0; i < nPrim; i++ {
			l, w := bigPrimCase(c.R)
			lines, want = append(lines, l), append(want, w)
		}
		got, err := vh.RunBatch(c.Driver, lines)
		if err != nil {
			return err
		}
		if len(got) != len(lines) {
			return fmt.Errorf("driver answered %d lines for %d primitive requests", len(got), len(lines))
		}
		bad := 0
		for i := range lines {
			res.Dist("bigprim")
			res.TracesVsImpl++
			if got[i] != want[i] {
				bad++
				if bad <= 3 {
					rp := vh.WriteReplay(c.ReplayDir, "C15", fmt.Sprintf("bigprim-%d", i), c.Seed, []string{"correspondence: ModelBig primitive differs from math/big", "go: " + want[i], "lean: " + got[i]}, []string{lines[i], "# want " + want[i]})
					res.Fail("correspondence", "", "math/big primitive: "+trunc(lines[i])+" go="+trunc(want[i])+" lean="+trunc(got[i]), rp)
				}
			}
		}
		res.Evaluations += nPrim
	}
	res.Extra["failing_cases_total"] = nfail
	res.Extra["pool_verification_build_tag"] = vm.VerifPoolVerificationC15()
	return nil
}

func replay(c *vh.Ctx, body, comments []string) (bool, string) {
	quiet.Silence()
	params.InitNetworkId(params.NetworkIdForTestCase)
	still := false
	var msgs []string
	for _, l := range body {
		if strings.HasPrefix(l, "B ") {
			msgs = append(msgs, "math/big primitive case (re-run by the check's generator): "+l)
			if c.Driver != "" {
				got, err := vh.RunBatch(c.Driver, []string{l})
				want := ""
				for _, cm := range comments {
					if strings.HasPrefix(cm, "go: ") {
						want = strings.TrimPrefix(cm, "go: ")
					}
				}
				if err != nil || len(got) != 1 || got[0] != want {
					still = true
				}
			}
			continue
		}
		if l == "T" {
			continue
		}
		t, err := parseCaseLine(l)
		if err != nil {
			return true, "unreadable replay: " + err.Error()
		}
		v := evalOne(c.Driver, t)
		msgs = append(msgs, fmt.Sprintf("real=%s\nlean=%s\nref=%s", v.real, v.lean, v.ref))
		if !(v.corrOK() && v.oracleOK()) || strings.HasPrefix(v.real, "crash") {
			still = true
		}
	}
	return still, strings.Join(msgs, "\n")
}
