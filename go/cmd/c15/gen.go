package main

// Translator:  <repo>/core/vm/instructions.go, common/math/big.go, common/big.go  +  the live jump table
//              ==>  lean/YouVerif/C15/Gen.lean
//
// For every opcode of the computational groups (0x01-0x0b, 0x10-0x1d) the *live* jump table (dumped through
// the hook core/vm/verif_hooks_c15.go) names the Go function that executes it; the body of that function and of
// every helper it calls (math.U256, math.S256, math.Exp, math.Byte, bigEndianByteAt, BigPow, common.BigN,
// package-level big integers) is read with go/parser from the current working tree and translated to a Lean
// function over `Int` with math/big receiver semantics (`y.Add(x, y)`  ==>  `let y := Big.add x y`).
//
// While translating, an ownership discipline for the shared integer pool is CHECKED on every path:
//   * every cell popped from the stack ends up in at most one place (pushed back | pool) - never both, never twice;
//   * peeked cells stay on the stack (never pushed again, never pooled);
//   * a pooled cell is never read, written or pushed afterwards (deferred puts run at return);
//   * package-level big integers are never written, pushed or pooled; unspecified pool values are never read;
//   * a helper that may return its argument (S256) is only applied to a freshly popped, otherwise unreferenced cell.
// A body outside the syntax subset or the discipline aborts the translation (check reports the broken tie).
//
// Normalisation: comments and variable names of temporaries only.  Operand order is kept.

import (
	"fmt"
	"go/ast"
	"go/parser"
	"go/token"
	"math/bits"
	"os"
	"path/filepath"
	"sort"
	"strings"

	"github.com/youchainhq/go-youchain/core/vm"
	"github.com/youchainhq/go-youchain/params"

	"verifharness/internal/vh"
)

// ---------------------------------------------------------------------------------------------

type abort struct{ msg string }

type vkind int

const (
	kCell vkind = iota
	kScalar
	kSlice
	kNil
	kOpaque // check-only mode: a value the translator does not model (memory, state, hashes ...)
)

type val struct {
	k    vkind
	cell int
	lean string
	gt   string // Go type of a scalar: uint64 uint int int64 byte Word untyped
}

const (
	locOwned = iota
	locStack
	locPooled
	locConsumed
	locGlobal
)

type cellSt struct {
	name    string
	origin  string // pop peek fresh param global
	input   int    // stack index for pop/peek cells, param index for params, else -1
	loc     int
	garbage bool
	ver     int
}

type env struct {
	scopes   []map[string]val
	cells    []cellSt
	nPop     int
	peeked   map[int]bool
	inputs   map[int]int // stack index -> cell id
	pushed   []int
	pooled   []int
	deferred []int
	sver     map[string]int // scalar lean name -> version (assignment count)
	loop     int
}

func (e *env) clone() *env {
	c := &env{nPop: e.nPop, loop: e.loop}
	for _, s := range e.scopes {
		m := map[string]val{}
		for k, v := range s {
			m[k] = v
		}
		c.scopes = append(c.scopes, m)
	}
	c.cells = append([]cellSt{}, e.cells...)
	c.peeked = map[int]bool{}
	for k, v := range e.peeked {
		c.peeked[k] = v
	}
	c.inputs = map[int]int{}
	for k, v := range e.inputs {
		c.inputs[k] = v
	}
	c.pushed = append([]int{}, e.pushed...)
	c.pooled = append([]int{}, e.pooled...)
	c.deferred = append([]int{}, e.deferred...)
	c.sver = map[string]int{}
	for k, v := range e.sver {
		c.sver[k] = v
	}
	return c
}

type retRec struct {
	v      val
	origin string
	input  int
}

type summary struct {
	leanName string
	params   []string // "cell" or go scalar type
	retKind  string   // alias maybealias fresh scalar
	retParam int
	retType  string
	mutated  []int // param indexes whose value is returned in the result tuple after the return value
	mutAny   map[int]bool
}

type fnCtx struct {
	pkg      string
	name     string
	kind     string // op helper global
	used     map[string]bool
	tmp      int
	rets     []retRec
	finalEnv []*env
	sum      *summary // known result shape (second pass of a helper)
	arity    int      // op: number of stack inputs
	notes    map[string]bool
	paramIDs []int
	loopDefs []string // named loop bodies, emitted before the function itself
	checkOnly bool    // only the ownership discipline is checked; unmodelled calls are opaque, no Lean text is kept
	expectSeg int     // number of items the function must leave in place of its inputs
	loopN    int
}

type gen struct {
	fset    *token.FileSet
	src     map[string][]byte
	funcs   map[string]*ast.FuncDecl // "pkg.Name"
	globals map[string]ast.Expr      // "pkg.name" -> initialiser
	consts  map[string]ast.Expr
	sums    map[string]*summary
	gdone   map[string]string // global -> lean name
	defs    []string
	busy    map[string]bool
	fn      *fnCtx
}

var leanKeywords = map[string]bool{}

func init() {
	for _, k := range strings.Fields("at from end then do fun have show open in with match let if else def theorem by where instance class structure namespace section variable universe private protected mutual deriving extends return for unless try catch finally import export macro syntax notation prefix infix postfix attribute example axiom inductive abbrev opaque using calc suffices obtain exact true false Type Prop Sort Big wordBits wordBytes table Exec not and or xor") {
		leanKeywords[k] = true
	}
}

func (g *gen) fail(n ast.Node, f string, a ...interface{}) {
	pos := ""
	if n != nil {
		pos = g.fset.Position(n.Pos()).String() + ": "
	}
	where := ""
	if g.fn != nil {
		where = "in " + g.fn.pkg + "." + g.fn.name + ": "
	}
	panic(abort{pos + where + fmt.Sprintf(f, a...)})
}

func (g *gen) text(n ast.Node) string {
	s, e := g.fset.Position(n.Pos()), g.fset.Position(n.End())
	b := g.src[s.Filename]
	if b == nil || e.Offset > len(b) {
		return "?"
	}
	return strings.Join(strings.Fields(string(b[s.Offset:e.Offset])), " ")
}

func (g *gen) unique(name string) string {
	if leanKeywords[name] {
		name += "_"
	}
	base, n := name, 1
	for g.fn.used[name] {
		n++
		name = fmt.Sprintf("%s_%d", base, n)
	}
	g.fn.used[name] = true
	return name
}

func (g *gen) tmpName() string {
	for {
		g.fn.tmp++
		n := fmt.Sprintf("t%d", g.fn.tmp)
		if !g.fn.used[n] {
			g.fn.used[n] = true
			return n
		}
	}
}

func isTmp(n string) bool {
	if len(n) < 2 || (n[0] != 't' && n[0] != 'a') {
		return false
	}
	for _, c := range n[1:] {
		if c < '0' || c > '9' {
			return false
		}
	}
	return true
}

// ---- environment helpers -----------------------------------------------------------------------

func (e *env) lookup(name string) (val, bool) {
	for i := len(e.scopes) - 1; i >= 0; i-- {
		if v, ok := e.scopes[i][name]; ok {
			return v, true
		}
	}
	return val{}, false
}
func (e *env) bind(name string, v val) { e.scopes[len(e.scopes)-1][name] = v }
func (e *env) rebind(name string, v val) {
	for i := len(e.scopes) - 1; i >= 0; i-- {
		if _, ok := e.scopes[i][name]; ok {
			e.scopes[i][name] = v
			return
		}
	}
}
func (e *env) newCell(name, origin string, input int, loc int) int {
	e.cells = append(e.cells, cellSt{name: name, origin: origin, input: input, loc: loc})
	return len(e.cells) - 1
}
func (e *env) referenced(cell int) bool {
	for _, s := range e.scopes {
		for _, v := range s {
			if v.k == kCell && v.cell == cell {
				return true
			}
		}
	}
	return false
}

// out collects the `let` lines of the path being translated
type out struct{ lines []string }

func (o *out) emit(f string, a ...interface{}) { o.lines = append(o.lines, fmt.Sprintf(f, a...)) }

func indent(s string, n int) string {
	pad := strings.Repeat("  ", n)
	ls := strings.Split(s, "\n")
	for i, l := range ls {
		if l != "" {
			ls[i] = pad + l
		}
	}
	return strings.Join(ls, "\n")
}

// ---- reading / writing cells -------------------------------------------------------------------

func (g *gen) readCell(n ast.Node, e *env, c int) string {
	cs := e.cells[c]
	switch cs.loc {
	case locPooled:
		g.fail(n, "discipline: cell %s is read after it was put to the pool", cs.name)
	case locConsumed:
		g.fail(n, "discipline: cell %s is used after it was handed to a helper that may return it", cs.name)
	}
	if cs.garbage {
		g.fail(n, "discipline: cell %s comes from intPool.get() and is read before it is set", cs.name)
	}
	return cs.name
}

func (g *gen) writeCell(n ast.Node, e *env, c int, o *out, expr string) {
	cs := &e.cells[c]
	switch cs.loc {
	case locPooled:
		g.fail(n, "discipline: cell %s is written after it was put to the pool", cs.name)
	case locConsumed:
		g.fail(n, "discipline: cell %s is written after it was handed to a helper that may return it", cs.name)
	case locGlobal:
		g.fail(n, "discipline: package-level big integer %s is written", cs.name)
	}
	cs.garbage = false
	cs.ver++
	o.emit("let %s := %s", cs.name, expr)
}

func wrapOf(gt string) string {
	switch gt {
	case "uint64", "uint", "Word", "uintptr":
		return "Big.wrapU64"
	case "int", "int64":
		return "Big.wrapI64"
	case "byte", "uint8":
		return "Big.wrapU8"
	}
	return ""
}

func wrap(gt, s string) string {
	if w := wrapOf(gt); w != "" {
		return "(" + w + " " + s + ")"
	}
	return s
}

func unify(a, b string) string {
	if a == "untyped" {
		return b
	}
	return a
}

// ---- expressions -------------------------------------------------------------------------------

var mut2 = map[string]string{"Add": "Big.add", "Sub": "Big.sub", "Mul": "Big.mul", "Div": "Big.div", "Mod": "Big.mod", "Quo": "Big.quo", "Rem": "Big.rem", "And": "Big.and", "Or": "Big.or", "Xor": "Big.xor"}
var mut1 = map[string]string{"Not": "Big.not", "Neg": "Big.neg", "Abs": "Big.abs", "Set": ""}
var mutShift = map[string]string{"Lsh": "Big.lsh", "Rsh": "Big.rsh"}
var pure0 = map[string][2]string{"Sign": {"Big.sign", "int"}, "Uint64": {"Big.uint64", "uint64"}, "Int64": {"Big.int64", "int64"}, "BitLen": {"Big.bitLen", "int"}}

func selName(e ast.Expr) (string, string, bool) {
	if s, ok := e.(*ast.SelectorExpr); ok {
		if id, ok := s.X.(*ast.Ident); ok {
			return id.Name, s.Sel.Name, true
		}
	}
	return "", "", false
}

// interpreter.intPool.<m>
func poolCall(c *ast.CallExpr) (string, bool) {
	s, ok := c.Fun.(*ast.SelectorExpr)
	if !ok {
		return "", false
	}
	if a, b, ok := selName(s.X); ok && a == "interpreter" && b == "intPool" {
		return s.Sel.Name, true
	}
	return "", false
}

func (g *gen) expr(x ast.Expr, e *env, o *out) (v val) {
	if g.fn == nil || !g.fn.checkOnly {
		return g.expr0(x, e, o)
	}
	// check-only mode: whatever is outside the supported subset becomes an opaque value; its *big.Int
	// operands are still checked as reads (or as a write for Set* methods); discipline failures propagate
	snap := e.clone()
	defer func() {
		if r := recover(); r != nil {
			a, ok := r.(abort)
			if !ok || strings.Contains(a.msg, "discipline:") {
				panic(r)
			}
			*e = *snap
			v = g.opaque(x, e, o)
		}
	}()
	return g.expr0(x, e, o)
}

func (g *gen) opaque(x ast.Expr, e *env, o *out) val {
	touch := func(y ast.Expr) val {
		v := g.expr(y, e, o)
		if v.k == kCell {
			g.readCell(y, e, v.cell)
		}
		return v
	}
	switch t := x.(type) {
	case *ast.CallExpr:
		var recv val
		method := ""
		if sel, ok := t.Fun.(*ast.SelectorExpr); ok {
			method = sel.Sel.Name
			recv = g.expr(sel.X, e, o)
		}
		for _, a := range t.Args {
			touch(a)
		}
		if recv.k == kCell {
			if strings.HasPrefix(method, "Set") {
				g.writeCell(x, e, recv.cell, o, "0")
				return recv
			}
			g.readCell(x, e, recv.cell)
		}
	case *ast.SelectorExpr:
		touch(t.X)
	case *ast.IndexExpr:
		touch(t.X)
		touch(t.Index)
	case *ast.BinaryExpr:
		touch(t.X)
		touch(t.Y)
	case *ast.ParenExpr:
		touch(t.X)
	case *ast.UnaryExpr:
		touch(t.X)
	case *ast.StarExpr:
		touch(t.X)
	}
	return val{k: kOpaque}
}

func (g *gen) expr0(x ast.Expr, e *env, o *out) val {
	switch t := x.(type) {
	case *ast.ParenExpr:
		v := g.expr(t.X, e, o)
		if v.k == kScalar {
			v.lean = "(" + v.lean + ")"
		}
		return v
	case *ast.BasicLit:
		if t.Kind != token.INT {
			g.fail(x, "unsupported literal %s", t.Value)
		}
		return val{k: kScalar, lean: t.Value, gt: "untyped"}
	case *ast.Ident:
		if t.Name == "nil" {
			return val{k: kNil}
		}
		if v, ok := e.lookup(t.Name); ok {
			return v
		}
		if _, ok := g.consts[g.fn.pkg+"."+t.Name]; ok {
			return g.constRef(x, g.fn.pkg, t.Name)
		}
		if _, ok := g.globals[g.fn.pkg+"."+t.Name]; ok {
			return g.globalRef(x, e, g.fn.pkg, t.Name)
		}
		g.fail(x, "unknown identifier %s", t.Name)
	case *ast.SelectorExpr:
		if p, n, ok := selName(t); ok {
			if _, ok := g.globals[p+"."+n]; ok {
				return g.globalRef(x, e, p, n)
			}
		}
		g.fail(x, "unsupported selector %s", g.text(x))
	case *ast.IndexExpr:
		s := g.expr(t.X, e, o)
		i := g.expr(t.Index, e, o)
		if s.k != kSlice || i.k != kScalar {
			g.fail(x, "unsupported index expression %s", g.text(x))
		}
		return val{k: kScalar, lean: "(Big.idx " + s.lean + " " + i.lean + ")", gt: "Word"}
	case *ast.UnaryExpr:
		if t.Op == token.SUB {
			v := g.expr(t.X, e, o)
			if v.k != kScalar {
				g.fail(x, "unary minus on non-scalar")
			}
			return val{k: kScalar, lean: wrap(v.gt, "(-"+v.lean+")"), gt: v.gt}
		}
		g.fail(x, "unsupported unary operator %s", t.Op)
	case *ast.BinaryExpr:
		return g.binary(t, e, o)
	case *ast.CallExpr:
		return g.call(t, e, o)
	}
	g.fail(x, "unsupported expression %s", g.text(x))
	return val{}
}

func (g *gen) binary(t *ast.BinaryExpr, e *env, o *out) val {
	l := g.expr(t.X, e, o)
	r := g.expr(t.Y, e, o)
	if l.k != kScalar || r.k != kScalar {
		g.fail(t, "arithmetic on non-scalars: %s", g.text(t))
	}
	gt := unify(l.gt, r.gt)
	if l.gt != "untyped" && r.gt != "untyped" && l.gt != r.gt && t.Op != token.SHL && t.Op != token.SHR {
		g.fail(t, "mixed integer types %s and %s in %s", l.gt, r.gt, g.text(t))
	}
	switch t.Op {
	case token.ADD:
		return val{k: kScalar, lean: wrap(gt, "("+l.lean+" + "+r.lean+")"), gt: gt}
	case token.SUB:
		return val{k: kScalar, lean: wrap(gt, "("+l.lean+" - "+r.lean+")"), gt: gt}
	case token.MUL:
		return val{k: kScalar, lean: wrap(gt, "("+l.lean+" * "+r.lean+")"), gt: gt}
	case token.QUO, token.REM:
		if !g.nonZeroConst(t.Y) {
			g.fail(t, "integer division by a non-constant divisor is not supported: %s", g.text(t))
		}
		f := "Int.tdiv"
		if t.Op == token.REM {
			f = "Int.tmod"
		}
		return val{k: kScalar, lean: "(" + f + " " + l.lean + " " + r.lean + ")", gt: gt}
	case token.SHL:
		return val{k: kScalar, lean: wrap(l.gt, "(Big.lsh "+l.lean+" "+r.lean+")"), gt: l.gt}
	case token.SHR:
		return val{k: kScalar, lean: "(Big.rsh " + l.lean + " " + r.lean + ")", gt: l.gt}
	case token.AND:
		return val{k: kScalar, lean: "(Big.and " + l.lean + " " + r.lean + ")", gt: gt}
	case token.OR:
		return val{k: kScalar, lean: "(Big.or " + l.lean + " " + r.lean + ")", gt: gt}
	}
	g.fail(t, "unsupported operator %s", t.Op)
	return val{}
}

func (g *gen) nonZeroConst(x ast.Expr) bool {
	switch t := x.(type) {
	case *ast.BasicLit:
		return t.Kind == token.INT && t.Value != "0"
	case *ast.Ident:
		return t.Name == "wordBytes" || t.Name == "wordBits"
	case *ast.ParenExpr:
		return g.nonZeroConst(t.X)
	}
	return false
}

// the two platform constants of common/math: checked textually, valued from the platform the harness
// (and therefore the real code under test) runs on
func (g *gen) constRef(n ast.Node, pkg, name string) val {
	init := g.text(g.consts[pkg+"."+name])
	switch {
	case pkg == "math" && name == "wordBits" && init == "32 << (uint64(^big.Word(0)) >> 63)":
	case pkg == "math" && name == "wordBytes" && init == "wordBits / 8":
	default:
		g.fail(n, "constant %s.%s = %s is not one of the two platform constants the translator knows", pkg, name, init)
	}
	return val{k: kScalar, lean: name, gt: "untyped"}
}

func (g *gen) globalRef(n ast.Node, e *env, pkg, name string) val {
	key := pkg + "." + name
	ln, ok := g.gdone[key]
	if !ok {
		ln = g.translateGlobal(n, pkg, name)
	}
	// one cell per global per function
	for i, c := range e.cells {
		if c.loc == locGlobal && c.name == ln {
			return val{k: kCell, cell: i}
		}
	}
	return val{k: kCell, cell: e.newCell(ln, "global", -1, locGlobal)}
}

func (g *gen) cellArg(x ast.Expr, e *env, o *out) int {
	v := g.expr(x, e, o)
	if v.k != kCell {
		g.fail(x, "expected a *big.Int, got %s", g.text(x))
	}
	return v.cell
}

func (g *gen) scalarArg(x ast.Expr, e *env, o *out) val {
	v := g.expr(x, e, o)
	if v.k != kScalar {
		g.fail(x, "expected an integer, got %s", g.text(x))
	}
	return v
}

func (g *gen) fresh(e *env, o *out, value string, garbage bool) val {
	n := g.tmpName()
	c := e.newCell(n, "fresh", -1, locOwned)
	e.cells[c].garbage = garbage
	if !garbage {
		o.emit("let %s := %s", n, value)
	}
	return val{k: kCell, cell: c}
}

func (g *gen) call(c *ast.CallExpr, e *env, o *out) val {
	// conversions and builtins
	if id, ok := c.Fun.(*ast.Ident); ok {
		switch id.Name {
		case "uint", "uint64", "int", "int64", "byte", "uint8":
			if len(c.Args) != 1 {
				g.fail(c, "bad conversion")
			}
			v := g.scalarArg(c.Args[0], e, o)
			return val{k: kScalar, lean: wrap(id.Name, v.lean), gt: id.Name}
		case "len":
			v := g.expr(c.Args[0], e, o)
			if v.k != kSlice {
				g.fail(c, "len of non-slice")
			}
			return val{k: kScalar, lean: "(Big.len " + v.lean + ")", gt: "int"}
		case "new":
			if g.text(c.Args[0]) != "big.Int" {
				g.fail(c, "unsupported new(%s)", g.text(c.Args[0]))
			}
			return g.fresh(e, o, "0", false)
		}
		if _, ok := g.funcs[g.fn.pkg+"."+id.Name]; ok {
			return g.callHelper(c, g.fn.pkg, id.Name, e, o)
		}
		g.fail(c, "call of unknown function %s", id.Name)
	}
	// pool
	if m, ok := poolCall(c); ok {
		if e.loop > 0 {
			g.fail(c, "pool operation inside a loop")
		}
		switch m {
		case "getZero":
			return g.fresh(e, o, "0", false)
		case "get":
			return g.fresh(e, o, "", true)
		case "put":
			for _, a := range c.Args {
				g.poolPut(a, e, g.cellArg(a, e, o))
			}
			return val{k: kNil}
		}
		g.fail(c, "unsupported pool operation %s", m)
	}
	sel, ok := c.Fun.(*ast.SelectorExpr)
	if !ok {
		g.fail(c, "unsupported call %s", g.text(c))
	}
	if p, n, ok := selName(sel); ok {
		switch {
		case p == "stack":
			return g.stackOp(c, n, e, o)
		case p == "big" && n == "NewInt":
			v := g.scalarArg(c.Args[0], e, o)
			return g.fresh(e, o, wrap("int64", v.lean), false)
		case p == "math" || p == "common":
			if _, isVar := e.lookup(p); !isVar {
				if _, ok := g.funcs[p+"."+n]; ok {
					return g.callHelper(c, p, n, e, o)
				}
				g.fail(c, "call of unknown function %s.%s", p, n)
			}
		}
	}
	// method call on a big.Int / slice-producing call
	m := sel.Sel.Name
	recv := g.expr(sel.X, e, o)
	if recv.k != kCell {
		g.fail(c, "unsupported method call %s", g.text(c))
	}
	rc := recv.cell
	if f, ok := mut2[m]; ok && len(c.Args) == 2 {
		a, b := g.cellArg(c.Args[0], e, o), g.cellArg(c.Args[1], e, o)
		g.writeCell(c, e, rc, o, fmt.Sprintf("%s %s %s", f, g.readCell(c, e, a), g.readCell(c, e, b)))
		return recv
	}
	if f, ok := mut1[m]; ok && len(c.Args) == 1 {
		a := g.cellArg(c.Args[0], e, o)
		ex := g.readCell(c, e, a)
		if f != "" {
			ex = f + " " + ex
		}
		g.writeCell(c, e, rc, o, ex)
		return recv
	}
	if f, ok := mutShift[m]; ok && len(c.Args) == 2 {
		a := g.cellArg(c.Args[0], e, o)
		n := g.scalarArg(c.Args[1], e, o)
		if n.gt != "uint" && n.gt != "untyped" {
			g.fail(c, "shift count of type %s", n.gt)
		}
		g.writeCell(c, e, rc, o, fmt.Sprintf("%s %s %s", f, g.readCell(c, e, a), n.lean))
		return recv
	}
	switch m {
	case "SetUint64", "SetInt64":
		n := g.scalarArg(c.Args[0], e, o)
		want := "uint64"
		if m == "SetInt64" {
			want = "int64"
		}
		if n.gt != want && n.gt != "untyped" {
			g.fail(c, "%s of a %s", m, n.gt)
		}
		g.writeCell(c, e, rc, o, wrap(want, n.lean))
		return recv
	case "Exp":
		if len(c.Args) == 3 {
			if id, ok := c.Args[2].(*ast.Ident); ok && id.Name == "nil" {
				a, b := g.cellArg(c.Args[0], e, o), g.cellArg(c.Args[1], e, o)
				g.writeCell(c, e, rc, o, fmt.Sprintf("Big.exp %s %s", g.readCell(c, e, a), g.readCell(c, e, b)))
				return recv
			}
		}
	case "Cmp":
		a := g.cellArg(c.Args[0], e, o)
		return val{k: kScalar, lean: fmt.Sprintf("(Big.cmp %s %s)", g.readCell(c, e, rc), g.readCell(c, e, a)), gt: "int"}
	case "Bit":
		n := g.scalarArg(c.Args[0], e, o)
		if n.gt != "int" && n.gt != "untyped" {
			g.fail(c, "Bit index of type %s", n.gt)
		}
		return val{k: kScalar, lean: fmt.Sprintf("(Big.bit %s %s)", g.readCell(c, e, rc), n.lean), gt: "uint"}
	case "Bits":
		return val{k: kSlice, lean: "(Big.bits " + g.readCell(c, e, rc) + ")"}
	}
	if p, ok := pure0[m]; ok && len(c.Args) == 0 {
		return val{k: kScalar, lean: "(" + p[0] + " " + g.readCell(c, e, rc) + ")", gt: p[1]}
	}
	g.fail(c, "unsupported big.Int method %s in %s", m, g.text(c))
	return val{}
}

func (g *gen) poolPut(n ast.Node, e *env, c int) {
	cs := &e.cells[c]
	switch cs.loc {
	case locStack:
		g.fail(n, "discipline: cell %s is put to the pool while it is on the stack", cs.name)
	case locPooled:
		g.fail(n, "discipline: cell %s is put to the pool twice", cs.name)
	case locConsumed:
		g.fail(n, "discipline: cell %s is put to the pool after it was handed to a helper that may return it", cs.name)
	case locGlobal:
		g.fail(n, "discipline: package-level big integer %s is put to the pool", cs.name)
	}
	cs.loc = locPooled
	e.pooled = append(e.pooled, c)
}

func (g *gen) stackOp(c *ast.CallExpr, m string, e *env, o *out) val {
	if g.fn.kind != "op" {
		g.fail(c, "stack operation outside an opcode function")
	}
	if e.loop > 0 {
		g.fail(c, "stack operation inside a loop")
	}
	input := func(i int, origin string, loc int) int {
		if id, ok := e.inputs[i]; ok {
			return id
		}
		if i >= g.fn.arity {
			g.fail(c, "touches stack item %d but the jump table declares minStack %d", i, g.fn.arity)
		}
		id := e.newCell(fmt.Sprintf("a%d", i), origin, i, loc)
		e.inputs[i] = id
		return id
	}
	switch m {
	case "pop":
		if len(e.pushed) > 0 {
			g.fail(c, "pop after push is outside the supported subset")
		}
		if e.peeked[e.nPop] {
			g.fail(c, "pop of an item that was peeked before")
		}
		id := input(e.nPop, "pop", locOwned)
		e.nPop++
		return val{k: kCell, cell: id}
	case "peek":
		if len(e.pushed) > 0 {
			g.fail(c, "peek after push is outside the supported subset")
		}
		id := input(e.nPop, "peek", locStack)
		e.peeked[e.nPop] = true
		return val{k: kCell, cell: id}
	case "push":
		id := g.cellArg(c.Args[0], e, o)
		cs := &e.cells[id]
		switch cs.loc {
		case locStack:
			g.fail(c, "discipline: cell %s is pushed while it is already on the stack", cs.name)
		case locPooled:
			g.fail(c, "discipline: cell %s is pushed after it was put to the pool", cs.name)
		case locConsumed:
			g.fail(c, "discipline: cell %s is pushed after it was handed to a helper that may return it", cs.name)
		case locGlobal:
			g.fail(c, "discipline: package-level big integer %s is pushed", cs.name)
		}
		if cs.garbage {
			g.fail(c, "discipline: cell %s from intPool.get() is pushed before it is set", cs.name)
		}
		cs.loc = locStack
		e.pushed = append(e.pushed, id)
		return val{k: kNil}
	}
	g.fail(c, "unsupported stack operation %s", m)
	return val{}
}

// ---- helper calls ------------------------------------------------------------------------------

func (g *gen) callHelper(c *ast.CallExpr, pkg, name string, e *env, o *out) val {
	sum := g.helper(c, pkg, name)
	if len(c.Args) != len(sum.params) {
		g.fail(c, "wrong number of arguments for %s.%s", pkg, name)
	}
	var args []val
	for _, a := range c.Args {
		args = append(args, g.expr(a, e, o))
	}
	var leanArgs []string
	seen := map[int]int{}
	for i, a := range args {
		if sum.params[i] == "cell" {
			if a.k != kCell {
				g.fail(c, "argument %d of %s must be a *big.Int", i, name)
			}
			seen[a.cell]++
			leanArgs = append(leanArgs, g.readCell(c, e, a.cell))
		} else {
			if a.k != kScalar {
				g.fail(c, "argument %d of %s must be an integer", i, name)
			}
			if a.gt != "untyped" && a.gt != sum.params[i] {
				g.fail(c, "argument %d of %s has type %s, want %s", i, name, a.gt, sum.params[i])
			}
			leanArgs = append(leanArgs, wrap(sum.params[i], a.lean))
		}
	}
	effect := len(sum.mutAny) > 0 || sum.retKind == "alias" || sum.retKind == "maybealias"
	if effect {
		for cid, n := range seen {
			if n > 1 {
				g.fail(c, "discipline: cell %s is passed twice to %s, which writes or returns its arguments", e.cells[cid].name, name)
			}
		}
	}
	app := sum.leanName
	if len(leanArgs) > 0 {
		app += " " + strings.Join(leanArgs, " ")
	}
	switch sum.retKind {
	case "scalar":
		if len(sum.mutated) > 0 {
			g.fail(c, "helper %s returns a scalar and writes its arguments: unsupported", name)
		}
		return val{k: kScalar, lean: "(" + app + ")", gt: sum.retType}
	case "alias":
		// returns its (written) parameter: the new value of that cell
		if len(sum.mutated) > 0 {
			g.fail(c, "helper %s: unsupported shape", name)
		}
		rc := args[sum.retParam].cell
		if sum.mutAny[sum.retParam] {
			g.writeCell(c, e, rc, o, app)
		}
		return val{k: kCell, cell: rc}
	}
	// fresh or maybe-alias result: a new owned cell
	var pat []string
	rn := g.tmpName()
	pat = append(pat, rn)
	for _, pi := range sum.mutated {
		cs := &e.cells[args[pi].cell]
		if cs.loc == locGlobal || cs.loc == locPooled || cs.loc == locConsumed {
			g.fail(c, "discipline: %s writes its argument %s, which is not a live owned cell", name, cs.name)
		}
		cs.ver++
		cs.garbage = false
		pat = append(pat, cs.name)
	}
	if len(pat) == 1 {
		o.emit("let %s := %s", rn, app)
	} else {
		o.emit("let (%s) := %s", strings.Join(pat, ", "), app)
	}
	nc := e.newCell(rn, "fresh", -1, locOwned)
	if sum.retKind == "maybealias" {
		ac := args[sum.retParam].cell
		cs := &e.cells[ac]
		if cs.origin != "pop" || cs.loc != locOwned || e.referenced(ac) {
			g.fail(c, "discipline: %s may return its argument; it is only supported on a freshly popped, otherwise unreferenced cell (got %s)", name, cs.name)
		}
		cs.loc = locConsumed
		g.fn.notes[fmt.Sprintf("input %s is either returned by %s (and then treated as the result cell) or dropped", cs.name, name)] = true
	}
	return val{k: kCell, cell: nc}
}

func goTypeOf(g *gen, x ast.Expr) string {
	switch t := x.(type) {
	case *ast.StarExpr:
		if g.text(t) == "*big.Int" {
			return "cell"
		}
	case *ast.Ident:
		switch t.Name {
		case "int", "int64", "uint", "uint64", "byte":
			return t.Name
		}
	}
	return ""
}

// helper translates (memoised) a helper function and returns its summary
func (g *gen) helper(n ast.Node, pkg, name string) *summary {
	key := pkg + "." + name
	if s, ok := g.sums[key]; ok {
		return s
	}
	if g.busy[key] {
		g.fail(n, "recursive helper %s", key)
	}
	g.busy[key] = true
	fd := g.funcs[key]
	saved := g.fn
	defer func() { g.fn = saved; g.busy[key] = false }()

	var pnames, ptypes []string
	for _, p := range fd.Type.Params.List {
		ty := goTypeOf(g, p.Type)
		if ty == "" {
			g.fail(p, "helper %s: unsupported parameter type %s", key, g.text(p.Type))
		}
		for _, nm := range p.Names {
			pnames = append(pnames, nm.Name)
			ptypes = append(ptypes, ty)
		}
	}
	if fd.Type.Results == nil || len(fd.Type.Results.List) != 1 || len(fd.Type.Results.List[0].Names) > 0 {
		g.fail(fd, "helper %s: exactly one unnamed result supported", key)
	}
	rty := goTypeOf(g, fd.Type.Results.List[0].Type)
	if rty == "" {
		g.fail(fd, "helper %s: unsupported result type", key)
	}

	run := func(sum *summary) (string, *fnCtx, []string) {
		g.fn = &fnCtx{pkg: pkg, name: name, kind: "helper", used: map[string]bool{}, sum: sum, notes: map[string]bool{}}
		e := &env{peeked: map[int]bool{}, inputs: map[int]int{}, sver: map[string]int{}}
		e.scopes = []map[string]val{{}}
		var lparams []string
		for i, pn := range pnames {
			ln := g.unique(pn)
			lparams = append(lparams, ln)
			if ptypes[i] == "cell" {
				id := e.newCell(ln, "param", i, locOwned)
				g.fn.paramIDs = append(g.fn.paramIDs, id)
				e.bind(pn, val{k: kCell, cell: id})
			} else {
				g.fn.paramIDs = append(g.fn.paramIDs, -1)
				e.bind(pn, val{k: kScalar, lean: ln, gt: ptypes[i]})
			}
		}
		body := g.block(fd.Body.List, e, func(e *env, o *out) string {
			g.fail(fd, "helper %s: control reaches the end without return", key)
			return ""
		})
		return body, g.fn, lparams
	}
	// pass 1: discover the shape
	_, ctx, _ := run(nil)
	sum := &summary{leanName: name, params: ptypes, mutAny: map[int]bool{}, retParam: -1}
	if rty != "cell" {
		sum.retKind, sum.retType = "scalar", rty
	} else {
		alias, fresh := -1, false
		for _, r := range ctx.rets {
			switch r.origin {
			case "param":
				if alias >= 0 && alias != r.input {
					g.fail(fd, "helper %s returns different parameters on different paths", key)
				}
				alias = r.input
			case "fresh":
				fresh = true
			default:
				g.fail(fd, "helper %s returns a %s cell", key, r.origin)
			}
		}
		switch {
		case alias >= 0 && fresh:
			sum.retKind, sum.retParam = "maybealias", alias
		case alias >= 0:
			sum.retKind, sum.retParam = "alias", alias
		default:
			sum.retKind = "fresh"
		}
	}
	for _, fe := range ctx.finalEnv {
		for i, id := range ctx.paramIDs {
			if id >= 0 && fe.cells[id].ver > 0 {
				sum.mutAny[i] = true
			}
		}
	}
	for i := range ptypes {
		if sum.mutAny[i] && !(sum.retKind == "alias" && sum.retParam == i) {
			if sum.retKind == "maybealias" && sum.retParam == i {
				g.fail(fd, "helper %s may return a parameter it writes: unsupported", key)
			}
			sum.mutated = append(sum.mutated, i)
		}
	}
	// pass 2: emit with the known shape
	body, ctx2, lparams := run(sum)
	var sig []string
	for _, p := range lparams {
		sig = append(sig, "("+p+" : Int)")
	}
	rt := "Int"
	for range sum.mutated {
		rt += " × Int"
	}
	doc := fmt.Sprintf("`%s.%s`", pkg, name)
	switch sum.retKind {
	case "alias":
		doc += fmt.Sprintf(": returns its parameter `%s`", pnames[sum.retParam])
		if sum.mutAny[sum.retParam] {
			doc += " after overwriting it (the value below is the new content of that cell)"
		}
	case "maybealias":
		doc += fmt.Sprintf(": returns either its parameter `%s` itself (unchanged) or a new integer", pnames[sum.retParam])
	case "fresh":
		doc += ": returns a new integer"
	case "scalar":
		doc += ": returns a " + rty
	}
	for _, m := range sum.mutated {
		doc += fmt.Sprintf("; OVERWRITES its parameter `%s` (new content returned as an extra component)", pnames[m])
	}
	g.defs = append(g.defs, ctx2.loopDefs...)
	g.defs = append(g.defs, fmt.Sprintf("/-- %s. -/\ndef %s %s : %s :=\n%s\n", doc, name, strings.Join(sig, " "), rt, indent(body, 1)))
	g.sums[key] = sum
	return sum
}

func (g *gen) translateGlobal(n ast.Node, pkg, name string) string {
	key := pkg + "." + name
	if g.busy[key] {
		g.fail(n, "recursive global %s", key)
	}
	g.busy[key] = true
	saved := g.fn
	defer func() { g.fn = saved; g.busy[key] = false }()
	g.fn = &fnCtx{pkg: pkg, name: name, kind: "global", used: map[string]bool{}, notes: map[string]bool{}}
	e := &env{peeked: map[int]bool{}, inputs: map[int]int{}, sver: map[string]int{}}
	e.scopes = []map[string]val{{}}
	o := &out{}
	v := g.expr(g.globals[key], e, o)
	if v.k != kCell {
		g.fail(n, "global %s is not a *big.Int", key)
	}
	if e.cells[v.cell].loc == locGlobal {
		g.fail(n, "global %s aliases another global", key)
	}
	o.lines = append(o.lines, g.readCell(n, e, v.cell))
	ln := pkg + "_" + name
	g.defs = append(g.defs, fmt.Sprintf("/-- package-level `%s.%s = %s` -/\ndef %s : Int :=\n%s\n", pkg, name, g.text(g.globals[key]), ln, indent(strings.Join(o.lines, "\n"), 1)))
	g.gdone[key] = ln
	return ln
}

// ---- statements --------------------------------------------------------------------------------

type popScope struct{ ast.EmptyStmt }
type pushScope struct{ ast.EmptyStmt }

func scoped(body []ast.Stmt, rest []ast.Stmt) []ast.Stmt {
	s := []ast.Stmt{&pushScope{}}
	s = append(s, body...)
	s = append(s, &popScope{})
	return append(s, rest...)
}

func (g *gen) cond(x ast.Expr, e *env, o *out) string {
	switch t := x.(type) {
	case *ast.ParenExpr:
		return g.cond(t.X, e, o)
	case *ast.UnaryExpr:
		if t.Op == token.NOT {
			return "(¬ " + g.cond(t.X, e, o) + ")"
		}
	case *ast.BinaryExpr:
		switch t.Op {
		case token.LAND:
			return "(" + g.cond(t.X, e, o) + " ∧ " + g.cond(t.Y, e, o) + ")"
		case token.LOR:
			return "(" + g.cond(t.X, e, o) + " ∨ " + g.cond(t.Y, e, o) + ")"
		case token.EQL, token.NEQ, token.LSS, token.LEQ, token.GTR, token.GEQ:
			l, r := g.scalarArg(t.X, e, o), g.scalarArg(t.Y, e, o)
			if l.gt != "untyped" && r.gt != "untyped" && l.gt != r.gt {
				g.fail(x, "comparison of %s with %s", l.gt, r.gt)
			}
			op := map[token.Token]string{token.EQL: "=", token.NEQ: "≠", token.LSS: "<", token.LEQ: "≤", token.GTR: ">", token.GEQ: "≥"}[t.Op]
			return "(" + l.lean + " " + op + " " + r.lean + ")"
		}
	}
	g.fail(x, "unsupported condition %s", g.text(x))
	return ""
}

type cont func(e *env, o *out) string

func join(o *out, tail string) string {
	if len(o.lines) == 0 {
		return tail
	}
	return strings.Join(o.lines, "\n") + "\n" + tail
}

func (g *gen) ite(c string, a, b string) string {
	return "if " + c + " then\n" + indent(a, 1) + "\nelse\n" + indent(b, 1)
}

// block translates stmts followed by the continuation k, as one Lean term
func (g *gen) block(stmts []ast.Stmt, e *env, k cont) string {
	o := &out{}
	for i, s := range stmts {
		rest := stmts[i+1:]
		switch t := s.(type) {
		case *pushScope:
			e.scopes = append(e.scopes, map[string]val{})
		case *popScope:
			e.scopes = e.scopes[:len(e.scopes)-1]
		case *ast.EmptyStmt:
		case *ast.BlockStmt:
			return join(o, g.block(scoped(t.List, rest), e, k))
		case *ast.ExprStmt:
			c, ok := t.X.(*ast.CallExpr)
			if !ok {
				g.fail(s, "unsupported expression statement")
			}
			g.expr(c, e, o)
		case *ast.AssignStmt:
			g.assign(t, e, o)
		case *ast.DeferStmt:
			m, ok := poolCall(t.Call)
			if !ok || m != "put" || e.loop > 0 {
				g.fail(s, "only `defer interpreter.intPool.put(...)` is supported")
			}
			for _, a := range t.Call.Args {
				c := g.cellArg(a, e, o)
				for _, d := range e.deferred {
					if d == c {
						g.fail(s, "discipline: cell %s deferred to the pool twice", e.cells[c].name)
					}
				}
				e.deferred = append(e.deferred, c)
			}
		case *ast.ReturnStmt:
			return join(o, g.ret(t, e, o))
		case *ast.IfStmt:
			if t.Init != nil {
				g.fail(s, "if with init statement unsupported")
			}
			c := g.cond(t.Cond, e, o)
			e2 := e.clone()
			a := g.block(scoped(t.Body.List, rest), e, k)
			var els []ast.Stmt
			switch x := t.Else.(type) {
			case nil:
			case *ast.BlockStmt:
				els = x.List
			case *ast.IfStmt:
				els = []ast.Stmt{x}
			}
			b := g.block(scoped(els, rest), e2, k)
			return join(o, g.ite(c, a, b))
		case *ast.SwitchStmt:
			if t.Tag != nil || t.Init != nil {
				g.fail(s, "only tag-less switch supported")
			}
			// rewrite as an if-chain (cases in order, first true wins, no fallthrough)
			var chain ast.Stmt
			var def []ast.Stmt
			hasDef := false
			type cs struct {
				c    ast.Expr
				body []ast.Stmt
			}
			var cases []cs
			for _, cc := range t.Body.List {
				cl := cc.(*ast.CaseClause)
				for _, st := range cl.Body {
					if _, ok := st.(*ast.BranchStmt); ok {
						g.fail(st, "branch statement in switch unsupported")
					}
				}
				if cl.List == nil {
					def, hasDef = cl.Body, true
					continue
				}
				if hasDef {
					g.fail(cl, "default clause must be last")
				}
				var c ast.Expr = cl.List[0]
				for _, x := range cl.List[1:] {
					c = &ast.BinaryExpr{X: c, Op: token.LOR, Y: x}
				}
				cases = append(cases, cs{c, cl.Body})
			}
			var tail ast.Stmt
			if hasDef {
				tail = &ast.BlockStmt{List: def}
			}
			for i := len(cases) - 1; i >= 0; i-- {
				ifs := &ast.IfStmt{Cond: cases[i].c, Body: &ast.BlockStmt{List: cases[i].body}}
				if tail != nil {
					ifs.Else = tail
				}
				tail = ifs
			}
			chain = tail
			if chain == nil {
				continue
			}
			return join(o, g.block(append([]ast.Stmt{chain}, rest...), e, k))
		case *ast.RangeStmt, *ast.ForStmt:
			g.loop(s, e, o)
		default:
			g.fail(s, "unsupported statement %T", s)
		}
	}
	return join(o, k(e, o2()))
}

func o2() *out { return &out{} }

func (g *gen) ret(r *ast.ReturnStmt, e *env, o *out) string {
	if e.loop > 0 {
		g.fail(r, "return inside a loop")
	}
	switch g.fn.kind {
	case "op":
		if len(r.Results) != 2 || g.text(r.Results[0]) != "nil" || g.text(r.Results[1]) != "nil" {
			g.fail(r, "opcode function returns something else than nil, nil (return data / errors are outside the computational subset)")
		}
		return g.finishOp(r, e)
	case "helper":
		if len(r.Results) != 1 {
			g.fail(r, "helper must return one value")
		}
		ro := &out{}
		v := g.expr(r.Results[0], e, ro)
		rec := retRec{v: v, input: -1}
		var first string
		if v.k == kCell {
			cs := e.cells[v.cell]
			rec.origin, rec.input = cs.origin, cs.input
			first = g.readCell(r, e, v.cell)
		} else if v.k == kScalar {
			rt := goTypeOf(g, g.funcs[g.fn.pkg+"."+g.fn.name].Type.Results.List[0].Type)
			if v.gt != "untyped" && v.gt != rt {
				g.fail(r, "returns %s, declared %s", v.gt, rt)
			}
			first = wrap(rt, v.lean)
		} else {
			g.fail(r, "unsupported return value")
		}
		g.fn.rets = append(g.fn.rets, rec)
		g.fn.finalEnv = append(g.fn.finalEnv, e)
		parts := []string{first}
		if g.fn.sum != nil {
			for _, pi := range g.fn.sum.mutated {
				parts = append(parts, e.cells[g.fn.paramIDs[pi]].name)
			}
		}
		tail := parts[0]
		if len(parts) > 1 {
			tail = "(" + strings.Join(parts, ", ") + ")"
		}
		return join(ro, tail)
	}
	g.fail(r, "return outside a function")
	return ""
}

// finishOp: end of one path of an opcode function: run deferred puts, check the discipline, yield the result
func (g *gen) finishOp(n ast.Node, e *env) string {
	for _, c := range e.deferred {
		g.poolPut(n, e, c)
	}
	// final top segment of the stack, top first
	var seg []int
	for i := len(e.pushed) - 1; i >= 0; i-- {
		seg = append(seg, e.pushed[i])
	}
	for i := e.nPop; i < g.fn.arity; i++ {
		id, ok := e.inputs[i]
		if !ok {
			id = e.newCell(fmt.Sprintf("a%d", i), "untouched", i, locStack)
			e.inputs[i] = id
		}
		seg = append(seg, id)
	}
	if len(seg) != g.fn.expectSeg {
		g.fail(n, "discipline: path leaves %d items in place of the %d inputs; the jump table implies %d", len(seg), g.fn.arity, g.fn.expectSeg)
	}
	count := map[int]int{}
	for _, c := range seg {
		count[c]++
	}
	for _, c := range e.pooled {
		count[c]++
	}
	for c, k := range count {
		if k > 1 {
			g.fail(n, "discipline: cell %s ends up in %d places (stack/pool)", e.cells[c].name, k)
		}
	}
	for i := 0; i < e.nPop; i++ {
		cs := e.cells[e.inputs[i]]
		if cs.loc == locOwned {
			g.fn.notes[fmt.Sprintf("popped input %s is dropped on some path (neither pushed back nor pooled)", cs.name)] = true
		}
	}
	if len(seg) == 0 {
		var pooled []string
		for _, c := range e.pooled {
			pooled = append(pooled, e.cells[c].origin+":"+e.cells[c].name)
		}
		g.fn.notes[fmt.Sprintf("path: pops %d, pushes 0, pooled [%s]", e.nPop, strings.Join(pooled, " "))] = true
		return ""
	}
	for _, c := range seg {
		if e.cells[c].garbage {
			g.fail(n, "discipline: cell %s left on the stack was never set", e.cells[c].name)
		}
	}
	res := e.cells[seg[0]]
	if res.garbage {
		g.fail(n, "discipline: result cell %s was never set", res.name)
	}
	if res.loc != locStack {
		g.fail(n, "internal: result cell %s not on stack", res.name)
	}
	var pooled []string
	for _, c := range e.pooled {
		pooled = append(pooled, e.cells[c].origin+":"+e.cells[c].name)
	}
	g.fn.notes[fmt.Sprintf("path: pops %d, pushes %d, result cell %s (%s), pooled [%s]", e.nPop, len(e.pushed), res.name, res.origin, strings.Join(pooled, " "))] = true
	return res.name
}

func (g *gen) bindVar(s ast.Node, e *env, o *out, name string, v val, define bool) {
	if name == "_" {
		return
	}
	switch v.k {
	case kCell:
		cs := &e.cells[v.cell]
		if define && isTmp(cs.name) && cs.loc != locGlobal && !e.referenced(v.cell) {
			// give the cell the name of the first Go variable bound to it
			nn := g.unique(name)
			if !cs.garbage {
				o.emit("let %s := %s", nn, cs.name)
			}
			cs.name = nn
		}
		if define {
			e.bind(name, v)
		} else {
			old, ok := e.lookup(name)
			if !ok || old.k != kCell {
				g.fail(s, "assignment to unknown or non-pointer variable %s", name)
			}
			e.rebind(name, v)
		}
	case kScalar:
		if define {
			if v.gt == "untyped" {
				v.gt = "int"
				v.lean = wrap("int", v.lean)
			}
			ln := g.unique(name)
			o.emit("let %s := %s", ln, v.lean)
			e.bind(name, val{k: kScalar, lean: ln, gt: v.gt})
		} else {
			old, ok := e.lookup(name)
			if !ok || old.k != kScalar {
				g.fail(s, "assignment to unknown or non-integer variable %s", name)
			}
			if v.gt != "untyped" && v.gt != old.gt {
				g.fail(s, "assignment of %s to %s variable %s", v.gt, old.gt, name)
			}
			o.emit("let %s := %s", old.lean, wrap(old.gt, v.lean))
			e.sver[old.lean]++
		}
	case kSlice:
		if !define {
			g.fail(s, "re-assignment of a slice variable")
		}
		ln := g.unique(name)
		o.emit("let %s := %s", ln, v.lean)
		e.bind(name, val{k: kSlice, lean: ln})
	case kOpaque:
		if define {
			e.bind(name, val{k: kOpaque})
		} else {
			e.rebind(name, val{k: kOpaque})
		}
	default:
		g.fail(s, "unsupported value bound to %s", name)
	}
}

func (g *gen) assign(a *ast.AssignStmt, e *env, o *out) {
	switch a.Tok {
	case token.DEFINE, token.ASSIGN:
		if len(a.Lhs) != len(a.Rhs) {
			g.fail(a, "unsupported assignment shape")
		}
		var vals []val
		for _, r := range a.Rhs {
			vals = append(vals, g.expr(r, e, o))
		}
		for i, l := range a.Lhs {
			id, ok := l.(*ast.Ident)
			if !ok {
				if g.fn.checkOnly {
					g.opaque(l, e, o)
					if vals[i].k == kCell {
						g.readCell(a, e, vals[i].cell)
					}
					continue
				}
				g.fail(a, "unsupported assignment target %s", g.text(l))
			}
			define := a.Tok == token.DEFINE
			if define {
				if _, here := e.scopes[len(e.scopes)-1][id.Name]; here {
					define = false
				}
			}
			g.bindVar(a, e, o, id.Name, vals[i], define)
		}
	case token.SHR_ASSIGN, token.SHL_ASSIGN, token.ADD_ASSIGN, token.SUB_ASSIGN, token.MUL_ASSIGN:
		op := map[token.Token]token.Token{token.SHR_ASSIGN: token.SHR, token.SHL_ASSIGN: token.SHL, token.ADD_ASSIGN: token.ADD, token.SUB_ASSIGN: token.SUB, token.MUL_ASSIGN: token.MUL}[a.Tok]
		id, ok := a.Lhs[0].(*ast.Ident)
		if !ok || len(a.Lhs) != 1 {
			g.fail(a, "unsupported assignment target")
		}
		v := g.binary(&ast.BinaryExpr{X: a.Lhs[0], Op: op, Y: a.Rhs[0], OpPos: a.Pos()}, e, o)
		g.bindVar(a, e, o, id.Name, v, false)
	default:
		g.fail(a, "unsupported assignment operator %s", a.Tok)
	}
}

// loop: `for _, w := range x.Bits() { .. }` and `for i := 0; i < N; i++ { .. }`
func (g *gen) loop(s ast.Stmt, e *env, o *out) {
	var body []ast.Stmt
	var header func(carried string, fn string) string
	var bindIter func(e *env)
	var iterName, loopDoc string
	switch t := s.(type) {
	case *ast.RangeStmt:
		if t.Tok != token.DEFINE || t.Value == nil || g.text(t.Key) != "_" {
			g.fail(s, "only `for _, w := range x.Bits()` is supported")
		}
		sl := g.expr(t.X, e, o)
		if sl.k != kSlice {
			g.fail(s, "range over a non-slice")
		}
		wn := g.unique(t.Value.(*ast.Ident).Name)
		goName := t.Value.(*ast.Ident).Name
		bindIter = func(e *env) { e.bind(goName, val{k: kScalar, lean: wn, gt: "Word"}) }
		iterName, loopDoc = wn, "for _, "+goName+" := range "+g.text(t.X)
		header = func(carried, fn string) string {
			return fmt.Sprintf("Big.forEach %s %s (%s)", sl.lean, carried, fn)
		}
		body = t.Body.List
	case *ast.ForStmt:
		as, ok := t.Init.(*ast.AssignStmt)
		if !ok || as.Tok != token.DEFINE || len(as.Lhs) != 1 || g.text(as.Rhs[0]) != "0" {
			g.fail(s, "only `for i := 0; i < N; i++` is supported")
		}
		iv := as.Lhs[0].(*ast.Ident).Name
		cnd, ok := t.Cond.(*ast.BinaryExpr)
		if !ok || cnd.Op != token.LSS || g.text(cnd.X) != iv {
			g.fail(s, "only `for i := 0; i < N; i++` is supported")
		}
		inc, ok := t.Post.(*ast.IncDecStmt)
		if !ok || inc.Tok != token.INC || g.text(inc.X) != iv {
			g.fail(s, "only `for i := 0; i < N; i++` is supported")
		}
		bound := g.scalarArg(cnd.Y, e, o)
		ast.Inspect(t.Body, func(n ast.Node) bool {
			switch x := n.(type) {
			case *ast.AssignStmt:
				for _, l := range x.Lhs {
					if g.text(l) == iv {
						g.fail(x, "loop counter assigned in the body")
					}
				}
			case *ast.IncDecStmt:
				if g.text(x.X) == iv {
					g.fail(x, "loop counter assigned in the body")
				}
			}
			return true
		})
		// the bound must not be written by the body: only constants and literals accepted
		if !g.nonZeroConst(cnd.Y) {
			g.fail(s, "loop bound must be a constant")
		}
		in := g.unique(iv)
		bindIter = func(e *env) { e.bind(iv, val{k: kScalar, lean: in, gt: "int"}) }
		iterName, loopDoc = in, "for "+iv+" := 0; "+g.text(t.Cond)+"; "+iv+"++"
		header = func(carried, fn string) string {
			return fmt.Sprintf("Big.forN %s %s (%s)", bound.lean, carried, fn)
		}
		body = t.Body.List
	}
	ast.Inspect(&ast.BlockStmt{List: body}, func(n ast.Node) bool {
		switch n.(type) {
		case *ast.BranchStmt, *ast.ReturnStmt, *ast.DeferStmt:
			g.fail(n, "break/continue/return/defer inside a loop is unsupported")
		}
		return true
	})
	// dry run: which cells and scalars of the enclosing scopes does the body write?
	changedCells := map[int]bool{}
	changedScalars := map[string]bool{}
	{
		d := e.clone()
		d.loop++
		d.scopes = append(d.scopes, map[string]val{})
		bindIter(d)
		savedUsed := map[string]bool{}
		for k, v := range g.fn.used {
			savedUsed[k] = v
		}
		savedTmp := g.fn.tmp
		savedLoops, savedLoopN := len(g.fn.loopDefs), g.fn.loopN
		g.block(body, d, func(fe *env, _ *out) string {
			for i := range e.cells {
				if fe.cells[i].ver != e.cells[i].ver {
					changedCells[i] = true
				}
				if fe.cells[i].loc != e.cells[i].loc {
					g.fail(s, "loop body moves cell %s between stack/pool", e.cells[i].name)
				}
			}
			for k, v := range fe.sver {
				if e.sver[k] != v {
					if _, outer := scalarByLean(e, k); outer {
						changedScalars[k] = true
					}
				}
			}
			return ""
		})
		g.fn.used, g.fn.tmp = savedUsed, savedTmp
		g.fn.loopDefs, g.fn.loopN = g.fn.loopDefs[:savedLoops], savedLoopN
	}
	var carried []string
	var ids []int
	for i := range e.cells {
		if changedCells[i] {
			ids = append(ids, i)
		}
	}
	sort.Ints(ids)
	for _, i := range ids {
		carried = append(carried, g.readCell(s, e, i))
	}
	var sc []string
	for k := range changedScalars {
		sc = append(sc, k)
	}
	sort.Strings(sc)
	carried = append(carried, sc...)
	if len(carried) == 0 {
		g.fail(s, "loop without effect")
	}
	pat := carried[0]
	if len(carried) > 1 {
		pat = "(" + strings.Join(carried, ", ") + ")"
	}
	// free variables of the body: every Lean name of the enclosing scopes that is not carried
	type fv struct{ name, ty string }
	var outer []fv
	seenFv := map[string]bool{}
	for _, c := range carried {
		seenFv[c] = true
	}
	for _, sc := range e.scopes {
		for _, v := range sc {
			var n, ty string
			switch v.k {
			case kCell:
				n, ty = e.cells[v.cell].name, "Int"
			case kScalar:
				n, ty = v.lean, "Int"
			case kSlice:
				n, ty = v.lean, "List Int"
			}
			if n != "" && !seenFv[n] {
				seenFv[n] = true
				outer = append(outer, fv{n, ty})
			}
		}
	}
	sort.Slice(outer, func(i, j int) bool { return outer[i].name < outer[j].name })
	g.fn.loopN++
	loopName := fmt.Sprintf("%s_loop%d", g.fn.name, g.fn.loopN)
	e.loop++
	e.scopes = append(e.scopes, map[string]val{})
	bindIter(e)
	inner := g.block(body, e, func(fe *env, _ *out) string { return pat })
	e.scopes = e.scopes[:len(e.scopes)-1]
	e.loop--
	var params, args []string
	for _, f := range outer {
		if wordIn(inner, f.name) {
			params = append(params, fmt.Sprintf("(%s : %s)", f.name, f.ty))
			args = append(args, f.name)
		}
	}
	ty := "Int"
	for i := 1; i < len(carried); i++ {
		ty += " × Int"
	}
	g.fn.loopDefs = append(g.fn.loopDefs, fmt.Sprintf("/-- body of the loop `%s` of `%s.%s`: (iteration variable) → carried variables → carried variables -/\ndef %s %s (%s : Int) : %s → %s\n  | %s =>\n%s\n",
		loopDoc, g.fn.pkg, g.fn.name, loopName, strings.Join(params, " "), iterName, ty, ty, pat, indent(inner, 2)))
	for _, i := range ids {
		e.cells[i].ver++
	}
	for _, k := range sc {
		e.sver[k]++
	}
	call := loopName
	if len(args) > 0 {
		call += " " + strings.Join(args, " ")
	}
	o.emit("let %s := %s", pat, header(pat, call))
}

func wordIn(text, name string) bool {
	for i := 0; i+len(name) <= len(text); i++ {
		if text[i:i+len(name)] != name {
			continue
		}
		isId := func(c byte) bool {
			return c == '_' || c == '.' || (c >= '0' && c <= '9') || (c >= 'a' && c <= 'z') || (c >= 'A' && c <= 'Z')
		}
		if i > 0 && isId(text[i-1]) {
			continue
		}
		if i+len(name) < len(text) && isId(text[i+len(name)]) {
			continue
		}
		return true
	}
	return false
}

func scalarByLean(e *env, lean string) (val, bool) {
	for _, s := range e.scopes {
		for _, v := range s {
			if v.k == kScalar && v.lean == lean {
				return v, true
			}
		}
	}
	return val{}, false
}

// ---- opcode functions ----------------------------------------------------------------------------

func (g *gen) opFunc(name string, arity int, expectSeg int, checkOnly bool) string {
	key := "vm." + name
	fd, ok := g.funcs[key]
	if !ok {
		panic(abort{fmt.Sprintf("the jump table executes %s, which is not a top-level function of core/vm/instructions.go", name)})
	}
	g.fn = &fnCtx{pkg: "vm", name: name, kind: "op", used: map[string]bool{}, arity: arity, notes: map[string]bool{}, checkOnly: checkOnly, expectSeg: expectSeg}
	defer func() { g.fn = nil }()
	want := []string{"pc", "interpreter", "contract", "memory", "stack"}
	var have []string
	for _, p := range fd.Type.Params.List {
		for _, n := range p.Names {
			have = append(have, n.Name)
		}
	}
	if strings.Join(have, ",") != strings.Join(want, ",") {
		g.fail(fd, "unexpected parameters %v", have)
	}
	for i := 0; i < arity; i++ {
		g.fn.used[fmt.Sprintf("a%d", i)] = true
	}
	e := &env{peeked: map[int]bool{}, inputs: map[int]int{}, sver: map[string]int{}}
	e.scopes = []map[string]val{{}}
	body := g.block(fd.Body.List, e, func(e *env, o *out) string {
		g.fail(fd, "control reaches the end without return")
		return ""
	})
	var sig []string
	for i := 0; i < arity; i++ {
		sig = append(sig, fmt.Sprintf("a%d", i))
	}
	var notes []string
	for n := range g.fn.notes {
		notes = append(notes, n)
	}
	sort.Strings(notes)
	if checkOnly {
		return fmt.Sprintf("  `vm.%s`:\n    %s", name, strings.Join(notes, "\n    "))
	}
	doc := fmt.Sprintf("`vm.%s` (a0 = top of stack). Ownership discipline checked; per path:\n  %s", name, strings.Join(notes, "\n  "))
	return strings.Join(g.fn.loopDefs, "\n") + fmt.Sprintf("/-- %s -/\ndef %s (%s : Int) : Int :=\n%s\n", doc, name, strings.Join(sig, " "), indent(body, 1))
}

// ---- driver ------------------------------------------------------------------------------------

func (g *gen) parse(pkg, path string) error {
	b, err := os.ReadFile(path)
	if err != nil {
		return err
	}
	f, err := parser.ParseFile(g.fset, path, b, 0)
	if err != nil {
		return err
	}
	g.src[path] = b
	for _, d := range f.Decls {
		switch x := d.(type) {
		case *ast.FuncDecl:
			if x.Recv == nil && x.Body != nil {
				g.funcs[pkg+"."+x.Name.Name] = x
			}
		case *ast.GenDecl:
			if x.Tok != token.VAR && x.Tok != token.CONST {
				continue
			}
			for _, sp := range x.Specs {
				vs := sp.(*ast.ValueSpec)
				for i, n := range vs.Names {
					if i < len(vs.Values) {
						if x.Tok == token.VAR {
							g.globals[pkg+"."+n.Name] = vs.Values[i]
						} else {
							g.consts[pkg+"."+n.Name] = vs.Values[i]
						}
					}
				}
			}
		}
	}
	return nil
}

func shortFn(s string) string {
	if s == "" {
		return "none"
	}
	if i := strings.LastIndex(s, "/"); i >= 0 {
		s = s[i+1:]
	}
	// drop the package, closure counters and the functions closures were inlined into:
	//   vm.newFrontierInstructionSet.makePush.func1 -> makePush ; vm.init.memoryCopierGas.func2 -> memoryCopierGas
	parts := strings.Split(s, ".")[1:]
	name := ""
	for _, p := range parts {
		if strings.HasPrefix(p, "func") && len(p) > 4 && p[4] >= '0' && p[4] <= '9' {
			continue
		}
		name = p
	}
	var sb strings.Builder
	for _, c := range name {
		if (c >= 'a' && c <= 'z') || (c >= 'A' && c <= 'Z') || (c >= '0' && c <= '9') || c == '_' {
			sb.WriteRune(c)
		}
	}
	if sb.Len() == 0 {
		return "unnamed"
	}
	return sb.String()
}

func isComputational(op int) bool { return (op >= 0x01 && op <= 0x0b) || (op >= 0x10 && op <= 0x1d) }

func liveTable() []vm.VerifOpInfoC15 {
	params.InitNetworkId(params.NetworkIdForTestCase)
	p := params.Versions[params.YouCurrentVersion]
	return vm.VerifDumpJumpTableC15(p.EVMVersion)
}

func genC15(outDir string) (err error) {
	defer func() {
		if r := recover(); r != nil {
			if a, ok := r.(abort); ok {
				err = fmt.Errorf("translation aborted: %s", a.msg)
				return
			}
			panic(r)
		}
	}()
	root := vh.RepoRoot()
	g := &gen{fset: token.NewFileSet(), src: map[string][]byte{}, funcs: map[string]*ast.FuncDecl{}, globals: map[string]ast.Expr{},
		consts: map[string]ast.Expr{}, sums: map[string]*summary{}, gdone: map[string]string{}, busy: map[string]bool{}}
	for _, pf := range [][2]string{{"vm", "core/vm/instructions.go"}, {"math", "common/math/big.go"}, {"common", "common/big.go"}} {
		if e := g.parse(pf[0], filepath.Join(root, pf[1])); e != nil {
			return e
		}
	}
	if bits.UintSize != 64 {
		return fmt.Errorf("the model assumes a 64-bit platform (big.Word = 64 bits)")
	}
	table := liveTable()
	evmVersion := params.Versions[params.YouCurrentVersion].EVMVersion

	var opDefs []string
	done := map[string]int{}
	var translated []string
	for _, o := range table {
		if !isComputational(o.Op) {
			continue
		}
		if !o.Valid {
			return fmt.Errorf("opcode 0x%02x of the computational groups is not valid in the live %s table", o.Op, evmVersion)
		}
		fn := shortFn(o.Execute)
		pushes := 1024 + o.MinStack - o.MaxStack
		if pushes != 1 {
			return fmt.Errorf("opcode %s: jump table implies %d pushes, the computational subset expects 1", o.Name, pushes)
		}
		if ar, ok := done[fn]; ok {
			if ar != o.MinStack {
				return fmt.Errorf("function %s is used with different stack arities", fn)
			}
			continue
		}
		done[fn] = o.MinStack
		opDefs = append(opDefs, g.opFunc(fn, o.MinStack, 1, false))
		translated = append(translated, fn)
	}

	// the hand-modelled stack/memory/storage opcodes: ownership discipline only (bodies are modelled by hand in Model.lean)
	var checked []string
	for _, o := range table {
		switch o.Name {
		case "POP", "MLOAD", "MSTORE", "MSTORE8", "SLOAD", "SSTORE":
			fn := shortFn(o.Execute)
			if _, ok := g.funcs["vm."+fn]; !ok {
				return fmt.Errorf("opcode %s is executed by %s, which is not a top-level function of instructions.go", o.Name, fn)
			}
			checked = append(checked, g.opFunc(fn, o.MinStack, 1024+o.MinStack-o.MaxStack, true))
		}
	}

	var sb strings.Builder
	sb.WriteString("-- GENERATED by /verif/go/cmd/c15 (gen.go) from /repo/core/vm/instructions.go, common/math/big.go, common/big.go\n")
	sb.WriteString("-- and the live " + evmVersion + " jump table (hook core/vm/verif_hooks_c15.go).\n")
	sb.WriteString("-- Do not edit: deleted and regenerated from /repo's working tree on every check run; the committed copy is a snapshot.\n")
	sb.WriteString("import YouVerif.C15.ModelBig\nset_option linter.unusedVariables false\n\nnamespace YouVerif.C15.Gen\nopen YouVerif.C15\n\n")
	sb.WriteString("/-! ## platform constants of common/math (`wordBits = 32 << (uint64(^big.Word(0)) >> 63)`, `wordBytes = wordBits / 8`) -/\n")
	fmt.Fprintf(&sb, "def wordBits : Int := %d\ndef wordBytes : Int := %d\n\n", bits.UintSize, bits.UintSize/8)
	sb.WriteString("/-! ## package-level integers and helpers (common/math/big.go, common/big.go, core/vm/instructions.go) -/\n\n")
	for _, d := range g.defs {
		sb.WriteString(d + "\n")
	}
	sb.WriteString("/-! ## opcode bodies (core/vm/instructions.go) -/\n\n")
	for _, d := range opDefs {
		sb.WriteString(d + "\n")
	}
	sb.WriteString("/-! ## ownership discipline also checked (no Lean text: these opcodes are modelled by hand in Model.lean;\nunmodelled calls are opaque, their *big.Int operands count as reads, Set* methods as writes)\n" + strings.Join(checked, "\n") + "\n-/\n\n")
	// ---- live table
	sb.WriteString("/-! ## the live jump table -/\n\n")
	enum := func(name string, get func(vm.VerifOpInfoC15) string) {
		set := map[string]bool{"none": true}
		for _, o := range table {
			set[shortFn(get(o))] = true
		}
		var names []string
		for n := range set {
			names = append(names, n)
		}
		sort.Strings(names)
		fmt.Fprintf(&sb, "inductive %s where\n", name)
		for _, n := range names {
			fmt.Fprintf(&sb, "  | %s\n", n)
		}
		sb.WriteString("  deriving DecidableEq, Repr, Inhabited\n\n")
	}
	enum("Exec", func(o vm.VerifOpInfoC15) string { return o.Execute })
	enum("DynGas", func(o vm.VerifOpInfoC15) string { return o.DynamicGas })
	enum("MemSize", func(o vm.VerifOpInfoC15) string { return o.MemorySize })
	sb.WriteString("structure OpInfo where\n  op : Nat\n  name : String\n  valid : Bool\n  constGas : Nat\n  minStack : Nat\n  maxStack : Nat\n  halts : Bool\n  jumps : Bool\n  writes : Bool\n  reverts : Bool\n  returns : Bool\n  exec : Exec\n  dyn : DynGas\n  mem : MemSize\n  deriving Repr, Inhabited\n\n")
	fmt.Fprintf(&sb, "def evmVersion : String := %q\n\n", evmVersion)
	sb.WriteString("/-- all 256 entries, index = opcode -/\ndef table : List OpInfo := [\n")
	for i, o := range table {
		if o.MinStack < 0 || o.MaxStack < 0 {
			return fmt.Errorf("negative stack bound in table entry %d", i)
		}
		fmt.Fprintf(&sb, "  { op := %d, name := %q, valid := %v, constGas := %d, minStack := %d, maxStack := %d, halts := %v, jumps := %v, writes := %v, reverts := %v, returns := %v, exec := .%s, dyn := .%s, mem := .%s }",
			o.Op, o.Name, o.Valid, o.ConstantGas, o.MinStack, o.MaxStack, o.Halts, o.Jumps, o.Writes, o.Reverts, o.Returns, shortFn(o.Execute), shortFn(o.DynamicGas), shortFn(o.MemorySize))
		if i+1 < len(table) {
			sb.WriteString(",")
		}
		sb.WriteString("\n")
	}
	sb.WriteString("]\n\n")
	sb.WriteString("/-- the translated opcode functions applied to the top of a stack (top first) -/\ndef applyExec : Exec → List Int → Option (List Int)\n")
	for _, fn := range translated {
		ar := done[fn]
		var pat, args []string
		for i := 0; i < ar; i++ {
			pat = append(pat, fmt.Sprintf("a%d", i))
			args = append(args, fmt.Sprintf("a%d", i))
		}
		fmt.Fprintf(&sb, "  | .%s, %s :: rest => some (%s %s :: rest)\n", fn, strings.Join(pat, " :: "), fn, strings.Join(args, " "))
	}
	sb.WriteString("  | _, _ => none\n\n")
	sb.WriteString("def translated : List Exec := [" + func() string {
		var s []string
		for _, fn := range translated {
			s = append(s, "."+fn)
		}
		return strings.Join(s, ", ")
	}() + "]\n\n")
	sb.WriteString("end YouVerif.C15.Gen\n")
	if outDir == "" {
		outDir = "/verif/lean/YouVerif/C15"
	}
	return os.WriteFile(filepath.Join(outDir, "Gen.lean"), []byte(sb.String()), 0o644)
}
