package main

// Reference evaluator: the EVM specification (Yellow Paper + EIP-145 shifts, EIP-160 EXP, EIP-1884 SLOAD,
// EIP-2200 SSTORE) for the opcode set of C15, written independently of core/vm: every value is a fresh
// math/big integer (no pool, no in-place updates), results are computed from the mathematical definitions
// (signed interpretation, truncated division, floor shifts, modular exponentiation), fees are the published
// schedule constants.  It is the implementation-level oracle the real EVM is compared with.

import (
	"math/big"
)

const (
	gZero, gBase, gVeryLow, gLow, gMid = 0, 2, 3, 5, 8
	gJumpdest                           = 1
	gExp, gExpByte                      = 10, 50
	gSload                              = 800
	gMemory                             = 3
	sstoreSentry                        = 2300
	sstoreNoop, sstoreDirty             = 800, 800
	sstoreInit, sstoreClean             = 20000, 5000
	sstoreInitRefund, sstoreCleanRefund = 19200, 4200
	sstoreClearRefund                   = 15000
	stackLimit                          = 1024
)

func toSigned(x *big.Int) *big.Int {
	if x.Cmp(two255) >= 0 {
		return new(big.Int).Sub(x, two256)
	}
	return new(big.Int).Set(x)
}

func toWord(x *big.Int) *big.Int { // x mod 2^256, in [0, 2^256)
	return new(big.Int).Mod(x, two256)
}

func b2i(b bool) *big.Int {
	if b {
		return big.NewInt(1)
	}
	return big.NewInt(0)
}

// specOp: the function of a computational opcode on its operands a[0] (top), a[1], a[2]
func specOp(op byte, a []*big.Int) *big.Int {
	switch op {
	case 0x01:
		return toWord(new(big.Int).Add(a[0], a[1]))
	case 0x02:
		return toWord(new(big.Int).Mul(a[0], a[1]))
	case 0x03:
		return toWord(new(big.Int).Sub(a[0], a[1]))
	case 0x04:
		if a[1].Sign() == 0 {
			return big.NewInt(0)
		}
		return new(big.Int).Quo(a[0], a[1])
	case 0x05:
		if a[1].Sign() == 0 {
			return big.NewInt(0)
		}
		return toWord(new(big.Int).Quo(toSigned(a[0]), toSigned(a[1]))) // truncated; -2^255 / -1 wraps to -2^255
	case 0x06:
		if a[1].Sign() == 0 {
			return big.NewInt(0)
		}
		return new(big.Int).Rem(a[0], a[1])
	case 0x07:
		if a[1].Sign() == 0 {
			return big.NewInt(0)
		}
		return toWord(new(big.Int).Rem(toSigned(a[0]), toSigned(a[1]))) // sign of the dividend
	case 0x08:
		if a[2].Sign() == 0 {
			return big.NewInt(0)
		}
		return new(big.Int).Mod(new(big.Int).Add(a[0], a[1]), a[2])
	case 0x09:
		if a[2].Sign() == 0 {
			return big.NewInt(0)
		}
		return new(big.Int).Mod(new(big.Int).Mul(a[0], a[1]), a[2])
	case 0x0a:
		return new(big.Int).Exp(a[0], a[1], two256)
	case 0x0b:
		if a[0].Cmp(big.NewInt(31)) >= 0 {
			return new(big.Int).Set(a[1])
		}
		bits := uint(8 * (a[0].Uint64() + 1))
		m := new(big.Int).Lsh(big.NewInt(1), bits)
		low := new(big.Int).Mod(a[1], m)
		if low.Bit(int(bits-1)) == 1 {
			low.Sub(low, m) // signed value of the low bytes
		}
		return toWord(low)
	case 0x10:
		return b2i(a[0].Cmp(a[1]) < 0)
	case 0x11:
		return b2i(a[0].Cmp(a[1]) > 0)
	case 0x12:
		return b2i(toSigned(a[0]).Cmp(toSigned(a[1])) < 0)
	case 0x13:
		return b2i(toSigned(a[0]).Cmp(toSigned(a[1])) > 0)
	case 0x14:
		return b2i(a[0].Cmp(a[1]) == 0)
	case 0x15:
		return b2i(a[0].Sign() == 0)
	case 0x16, 0x17, 0x18:
		r := new(big.Int)
		for i := 0; i < 256; i++ {
			x, y := a[0].Bit(i), a[1].Bit(i)
			var b uint
			switch op {
			case 0x16:
				b = x & y
			case 0x17:
				b = x | y
			default:
				b = x ^ y
			}
			r.SetBit(r, i, b)
		}
		return r
	case 0x19:
		return new(big.Int).Sub(max256, a[0])
	case 0x1a:
		if a[0].Cmp(big.NewInt(32)) >= 0 {
			return big.NewInt(0)
		}
		sh := uint(8 * (31 - a[0].Uint64()))
		v := new(big.Int).Rsh(a[1], sh)
		return v.Mod(v, big.NewInt(256))
	case 0x1b:
		if a[0].Cmp(big.NewInt(256)) >= 0 {
			return big.NewInt(0)
		}
		return toWord(new(big.Int).Mul(a[1], new(big.Int).Lsh(big.NewInt(1), uint(a[0].Uint64()))))
	case 0x1c:
		if a[0].Cmp(big.NewInt(256)) >= 0 {
			return big.NewInt(0)
		}
		return new(big.Int).Quo(a[1], new(big.Int).Lsh(big.NewInt(1), uint(a[0].Uint64())))
	case 0x1d:
		s := toSigned(a[1])
		if a[0].Cmp(big.NewInt(256)) >= 0 {
			if s.Sign() < 0 {
				return new(big.Int).Set(max256)
			}
			return big.NewInt(0)
		}
		// floor(s / 2^shift)
		d := new(big.Int).Lsh(big.NewInt(1), uint(a[0].Uint64()))
		q, m := new(big.Int).DivMod(s, d, new(big.Int)) // Euclidean with positive divisor = floor
		_ = m
		return toWord(q)
	}
	return nil
}

func specConstGas(op byte) (uint64, bool) {
	switch {
	case op == 0x00, op == 0xf3:
		return gZero, true
	case op == 0x01, op == 0x03, op >= 0x10 && op <= 0x1d:
		return gVeryLow, true
	case op == 0x02, op == 0x04, op == 0x05, op == 0x06, op == 0x07, op == 0x0b:
		return gLow, true
	case op == 0x08, op == 0x09:
		return gMid, true
	case op == 0x0a:
		return gExp, true
	case op == 0x50, op == 0x58, op == 0x59, op == 0x5a:
		return gBase, true
	case op == 0x51, op == 0x52, op == 0x53:
		return gVeryLow, true
	case op == 0x54:
		return gSload, true
	case op == 0x55:
		return 0, true
	case op == 0x5b:
		return gJumpdest, true
	case op >= 0x60 && op <= 0x9f:
		return gVeryLow, true
	}
	return 0, false
}

type refVM struct {
	stack    []*big.Int
	mem      []byte
	gas      uint64
	refund   uint64
	cur      map[string]*big.Int
	orig     map[string]*big.Int
	written  []*big.Int
	memWords uint64
}

func memFee(words uint64) uint64 { return gMemory*words + words*words/512 }

// charge for memory growth up to byte `end` (exclusive); returns false when out of gas
func (m *refVM) expand(off, size *big.Int) (fail string) {
	if size.Sign() == 0 {
		return ""
	}
	end := new(big.Int).Add(off, size)
	if end.BitLen() > 64 || end.Uint64() > ^uint64(0)-31 {
		return "fail gasoverflow"
	}
	words := (end.Uint64() + 31) / 32
	if words*32 > 0xffffffffe0 {
		return "fail oog"
	}
	if words > m.memWords {
		fee := memFee(words) - memFee(m.memWords)
		if m.gas < fee {
			return "fail oog"
		}
		m.gas -= fee
		m.memWords = words
		m.mem = append(m.mem, make([]byte, int(words*32)-len(m.mem))...)
	}
	return ""
}

func word32(v *big.Int) []byte {
	b := toWord(v).Bytes()
	return append(make([]byte, 32-len(b)), b...)
}

func (m *refVM) load(k *big.Int) *big.Int {
	if v, ok := m.cur[k.String()]; ok {
		return v
	}
	if v, ok := m.orig[k.String()]; ok {
		return v
	}
	return big.NewInt(0)
}

func (m *refVM) committed(k *big.Int) *big.Int {
	if v, ok := m.orig[k.String()]; ok {
		return v
	}
	return big.NewInt(0)
}

func runRef(t *tcase) (string, []*big.Int) {
	code := t.code()
	m := &refVM{gas: t.gas, cur: map[string]*big.Int{}, orig: map[string]*big.Int{}}
	for _, e := range t.store {
		m.orig[e.k.String()] = e.v
	}
	pop := func() *big.Int {
		v := m.stack[len(m.stack)-1]
		m.stack = m.stack[:len(m.stack)-1]
		return v
	}
	pushv := func(v *big.Int) { m.stack = append(m.stack, v) }
	finish := func(ret []byte) (string, []*big.Int) {
		var ss []string
		for _, k := range storeKeys(t, m.written) {
			ss = append(ss, k.String()+"="+m.load(k).String())
		}
		return canonOK(ret, m.gas, m.refund, ss), m.written
	}
	for pc := 0; ; pc++ {
		op := byte(0)
		if pc < len(code) {
			op = code[pc]
		}
		pops, pushes, known := arity(op)
		if op == 0xf3 {
			pops, pushes, known = 2, 0, true
		}
		cg, ok := specConstGas(op)
		if !known || !ok {
			// opcodes outside the modelled set: is it defined at all?
			if validOutside(op) {
				return "unsupported " + itoa(int(op)), nil
			}
			return "fail invalid", nil
		}
		if len(m.stack) < pops {
			return "fail underflow", nil
		}
		if len(m.stack)-pops+pushes > stackLimit {
			return "fail overflow", nil
		}
		if m.gas < cg {
			return "fail oog", nil
		}
		m.gas -= cg
		switch {
		case op == 0x00:
			return finish(nil)
		case (op >= 0x01 && op <= 0x0b) || (op >= 0x10 && op <= 0x1d):
			if op == 0x0a {
				e := m.stack[len(m.stack)-2]
				fee := uint64(gExpByte) * uint64((e.BitLen()+7)/8)
				if m.gas < fee {
					return "fail oog", nil
				}
				m.gas -= fee
			}
			a := make([]*big.Int, pops)
			for i := range a {
				a[i] = pop()
			}
			pushv(specOp(op, a))
		case op == 0x50:
			pop()
		case op == 0x51:
			off := m.stack[len(m.stack)-1]
			if f := m.expand(off, big.NewInt(32)); f != "" {
				return f, nil
			}
			pop()
			o := off.Uint64()
			pushv(new(big.Int).SetBytes(m.mem[o : o+32]))
		case op == 0x52:
			off := m.stack[len(m.stack)-1]
			if f := m.expand(off, big.NewInt(32)); f != "" {
				return f, nil
			}
			pop()
			v := pop()
			copy(m.mem[off.Uint64():], word32(v))
		case op == 0x53:
			off := m.stack[len(m.stack)-1]
			if f := m.expand(off, big.NewInt(1)); f != "" {
				return f, nil
			}
			pop()
			v := pop()
			m.mem[off.Uint64()] = byte(new(big.Int).Mod(v, big.NewInt(256)).Uint64())
		case op == 0x54:
			k := pop()
			pushv(new(big.Int).Set(m.load(k)))
		case op == 0x55:
			if m.gas <= sstoreSentry {
				return "fail oog", nil
			}
			k, v := m.stack[len(m.stack)-1], m.stack[len(m.stack)-2]
			cur, org := m.load(k), m.committed(k)
			var fee uint64
			switch {
			case cur.Cmp(v) == 0:
				fee = sstoreNoop
			case org.Cmp(cur) == 0:
				if org.Sign() == 0 {
					fee = sstoreInit
				} else {
					fee = sstoreClean
					if v.Sign() == 0 {
						m.refund += sstoreClearRefund
					}
				}
			default:
				fee = sstoreDirty
				if org.Sign() != 0 {
					if cur.Sign() == 0 {
						m.refund -= sstoreClearRefund
					} else if v.Sign() == 0 {
						m.refund += sstoreClearRefund
					}
				}
				if org.Cmp(v) == 0 {
					if org.Sign() == 0 {
						m.refund += sstoreInitRefund
					} else {
						m.refund += sstoreCleanRefund
					}
				}
			}
			if m.gas < fee {
				return "fail oog", nil
			}
			m.gas -= fee
			pop()
			pop()
			m.cur[k.String()] = new(big.Int).Set(v)
			m.written = append(m.written, k)
		case op == 0x58:
			pushv(big.NewInt(int64(pc)))
		case op == 0x59:
			pushv(big.NewInt(int64(len(m.mem))))
		case op == 0x5a:
			pushv(new(big.Int).SetUint64(m.gas))
		case op == 0x5b:
		case op >= 0x60 && op <= 0x7f:
			n := int(op - 0x5f)
			b := make([]byte, n)
			for i := 0; i < n; i++ {
				if pc+1+i < len(code) {
					b[i] = code[pc+1+i]
				}
			}
			pushv(new(big.Int).SetBytes(b))
			pc += n
		case op >= 0x80 && op <= 0x8f:
			n := int(op-0x80) + 1
			pushv(new(big.Int).Set(m.stack[len(m.stack)-n]))
		case op >= 0x90 && op <= 0x9f:
			n := int(op-0x90) + 1
			top := len(m.stack) - 1
			m.stack[top], m.stack[top-n] = m.stack[top-n], m.stack[top]
		case op == 0xf3:
			off, size := m.stack[len(m.stack)-1], m.stack[len(m.stack)-2]
			if f := m.expand(off, size); f != "" {
				return f, nil
			}
			if size.Sign() == 0 {
				return finish(nil)
			}
			o, s := off.Uint64(), size.Uint64()
			return finish(append([]byte{}, m.mem[o:o+s]...))
		}
	}
}

func itoa(i int) string { return big.NewInt(int64(i)).String() }

// opcodes that are defined in the Istanbul instruction set (+ youchain's NETWORKID 0x46? taken from the spec
// list below) but are outside C15's modelled set
func validOutside(op byte) bool {
	switch {
	case op == 0x20, op >= 0x30 && op <= 0x47, op >= 0x56 && op <= 0x57, op >= 0xa0 && op <= 0xa4,
		op >= 0xf0 && op <= 0xf2, op == 0xf4, op == 0xf5, op == 0xfa, op == 0xfd, op == 0xff:
		return true
	}
	return false
}
