package main

// World = everything the real verifier reads besides the header under verification:
// protocol parameters, the look-back validator set (real secp256k1/VRF/BLS keys), the look-back seed header,
// and (for certificate rounds) the certificate look-back header and validator set.
//
// Every object carries, next to its concrete bytes, the harness's ground truth about how the bytes were made
// (who signed what, which key/message a VRF proof really belongs to). The ground truth is what the Lean
// driver receives (crypto resolved symbolically) and what the implementation-level oracle judges with.

import (
	"crypto/ecdsa"
	"fmt"
	"math/big"
	"sort"

	"github.com/youchainhq/go-youchain/bls"
	"github.com/youchainhq/go-youchain/common"
	"github.com/youchainhq/go-youchain/consensus/ucon"
	"github.com/youchainhq/go-youchain/core/rawdb"
	"github.com/youchainhq/go-youchain/core/state"
	"github.com/youchainhq/go-youchain/core/types"
	"github.com/youchainhq/go-youchain/crypto"
	"github.com/youchainhq/go-youchain/crypto/vrf"
	secp256k1VRF "github.com/youchainhq/go-youchain/crypto/vrf/secp256k1"
	"github.com/youchainhq/go-youchain/params"
	"github.com/youchainhq/go-youchain/rlp"

	"verifharness/internal/vh"
)

var blsMgr = bls.NewBlsManager()

// seededReader replaces crypto/rand.Reader so that VRF proofs (random nonce) are reproducible per seed.
type seededReader struct{ r *vh.RNG }

func (s *seededReader) Read(p []byte) (int, error) {
	for i := range p {
		p[i] = byte(s.r.U64())
	}
	return len(p), nil
}

// ---- keys ---------------------------------------------------------------------------------------

type keyPair struct {
	id     int // symbolic key id (> 0); the same id names the main (secp256k1/VRF) key and the BLS key of one holder
	sk     *ecdsa.PrivateKey
	vrfSk  vrf.PrivateKey
	blsSk  bls.SecretKey
	mainPK []byte // compressed secp256k1 public key (33 bytes)
	blsPK  []byte // compressed BLS public key (96 bytes)
	addr   common.Address
}

func newKey(r *vh.RNG, id int) *keyPair {
	for {
		b := r.Bytes(32)
		b[0] &= 0x3f // below both group orders
		sk, err := crypto.ToECDSA(b)
		if err != nil {
			continue
		}
		vs, err := secp256k1VRF.NewVRFSigner(sk)
		if err != nil {
			continue
		}
		bb := r.Bytes(32)
		bb[0] &= 0x3f
		bsk, err := blsMgr.DecSecretKey(bb)
		if err != nil {
			continue
		}
		bpk, err := bsk.PubKey()
		if err != nil {
			continue
		}
		cp := bpk.Compress()
		return &keyPair{id: id, sk: sk, vrfSk: vs, blsSk: bsk, mainPK: crypto.CompressPubkey(&sk.PublicKey),
			blsPK: append([]byte{}, cp[:]...), addr: crypto.PubkeyToAddress(sk.PublicKey)}
	}
}

// ---- validators and the look-back reader ---------------------------------------------------------

type valSpec struct {
	key      *keyPair
	role     params.ValidatorRole // 1 chancellor, 2 senator (chamber) / 3 house / other
	online   bool
	stake    uint64
	token    uint64
	badMain  bool // MainPubKey bytes do not decode
	badBls   bool // BlsPubKey bytes do not decode
	blsKey   *keyPair // re-registration: the BLS key registered with this main address (nil = key's own BLS key)
	mainByts []byte
	blsByts  []byte
}

// bls returns the key pair whose BLS key is registered for this validator
func (v *valSpec) bls() *keyPair {
	if v.blsKey != nil {
		return v.blsKey
	}
	return v.key
}

func (v *valSpec) kind() int {
	k, _ := params.KindOfRole(v.role)
	return int(k)
}

type lookBack struct {
	specs  []*valSpec
	vals   []*state.Validator // same order as specs
	sorted *state.Validators  // as the real code sorts them
	stat   *state.ValidatorsStat
	byAddr map[common.Address]*state.Validator
}

func buildLookBack(specs []*valSpec) *lookBack {
	lb := &lookBack{specs: specs, stat: state.NewValidatorsStat(), byAddr: map[common.Address]*state.Validator{}}
	for i, s := range specs {
		s.mainByts, s.blsByts = s.key.mainPK, s.bls().blsPK
		if s.badMain {
			s.mainByts = append([]byte{0x05}, s.key.mainPK[1:]...) // invalid prefix: does not decompress
		}
		if s.badBls {
			s.blsByts = append([]byte{}, s.bls().blsPK[:95]...) // wrong length
		}
		status := params.ValidatorOffline
		if s.online {
			status = params.ValidatorOnline
		}
		v := state.NewValidator(fmt.Sprintf("v%d", i), common.Address{}, common.Address{}, s.role, s.mainByts, s.blsByts,
			new(big.Int).SetUint64(s.token), new(big.Int).SetUint64(s.stake), 0, 0, 0, status)
		lb.vals = append(lb.vals, v)
		lb.byAddr[v.MainAddress()] = v
		if k, ok := params.KindOfRole(s.role); ok {
			lb.stat.GetByKind(k).AddVal(v)
		}
		lb.stat.GetByKind(params.KindValidator).AddVal(v)
	}
	lb.sorted = state.NewValidators(append([]*state.Validator{}, lb.vals...))
	return lb
}

func (lb *lookBack) GetValidatorsStat() (*state.ValidatorsStat, error) { return lb.stat, nil }
func (lb *lookBack) GetValidatorByMainAddr(a common.Address) *state.Validator {
	return lb.byAddr[a]
}
func (lb *lookBack) GetValidators() *state.Validators { return lb.sorted }

// position of spec i in the sorted list (the voter index the engine uses)
func (lb *lookBack) indexOf(i int) int {
	idx, ok := lb.sorted.GetIndex(lb.vals[i].MainAddress())
	if !ok {
		return -1
	}
	return idx
}
func (lb *lookBack) chamberTotal() *big.Int { return lb.stat.GetStakeByKind(params.KindChamber) }

// ---- symbolic ground truth ------------------------------------------------------------------------

// what a VRF proof really is: produced by key for message MakeM(seed, role, index), with output hash
type proofTerm struct {
	garbage bool
	key     int
	seed    common.Hash
	role    uint32
	index   uint32
	hash    common.Hash
}

func (p proofTerm) String() string {
	if p.garbage {
		return "-"
	}
	return fmt.Sprintf("%d:%x:%d:%d:%x", p.key, p.seed[:], p.role, p.index, p.hash[:])
}

// one genuine signature: key signed (blockHash, round, roundIndex)
type sigAtom struct {
	key   int
	hash  common.Hash
	round string // decimal
	index uint32
}

func (a sigAtom) String() string { return fmt.Sprintf("%d:%x:%s:%d", a.key, a.hash[:], a.round, a.index) }

// an aggregate signature: undecodable bytes, or the multiset of genuine signatures it is the sum of
type aggTerm struct {
	undecodable bool
	atoms       []sigAtom
}

func (a aggTerm) String() string {
	if a.undecodable {
		return "x"
	}
	if len(a.atoms) == 0 {
		return "e"
	}
	s := ""
	for i, x := range a.atoms {
		if i > 0 {
			s += ","
		}
		s += x.String()
	}
	return s
}

// ---- vote construction ------------------------------------------------------------------------------

type voteT struct {
	idx    uint32
	votes  uint32
	proof  []byte
	pterm  proofTerm
	sig    []byte  // secp branch only
	sterm  *sigAtom // secp branch: genuine signature term (nil = garbage / absent)
	signer int     // spec index of the claimed signer (-1 unknown) — bookkeeping for mutations
}

func votePayload(hash common.Hash, round *big.Int, index uint32) []byte {
	// exactly voter.go signVote: blockHash ‖ round.Bytes() ‖ be32(roundIndex)
	out := append([]byte{}, hash.Bytes()...)
	out = append(out, round.Bytes()...)
	return append(out, byte(index>>24), byte(index>>16), byte(index>>8), byte(index))
}

func pFloat(threshold uint64, total *big.Int) float64 {
	// exactly sortition.go
	f, _ := new(big.Float).Quo(new(big.Float).SetUint64(threshold), new(big.Float).SetInt(total)).Float64()
	return f
}

// chooseTable memoises the real choose() for the (hash, stake, threshold, total) tuples a case can need.
type chooseKey struct {
	hash  common.Hash
	stake uint64
	thr   uint64
	total string
}
type chooseTable struct {
	m    map[chooseKey]int64
	keys []chooseKey
}

func newChooseTable() *chooseTable { return &chooseTable{m: map[chooseKey]int64{}} }
func (t *chooseTable) get(hash common.Hash, stake uint64, thr uint64, total *big.Int) int64 {
	k := chooseKey{hash, stake, thr, total.String()}
	if j, ok := t.m[k]; ok {
		return j
	}
	var j int64
	if total.Sign() == 0 {
		j = 0
	} else {
		j = safeChoose(hash, new(big.Int).SetUint64(stake), thr, total)
	}
	t.m[k] = j
	t.keys = append(t.keys, k)
	return j
}
// choosePanics marks a (hash, stake, threshold, total) for which the real choose() panics
// (gonum's incomplete beta function rejects p > 1, i.e. a committee size above the total stake).
const choosePanics = int64(-1) << 62

func safeChoose(hash common.Hash, stake *big.Int, thr uint64, total *big.Int) (j int64) {
	defer func() {
		if r := recover(); r != nil {
			j = choosePanics
		}
	}()
	return ucon.VerifChoose(hash, stake, pFloat(thr, total))
}

func (t *chooseTable) lines() []string {
	ks := append([]chooseKey{}, t.keys...)
	sort.Slice(ks, func(a, b int) bool {
		if ks[a].hash != ks[b].hash {
			return ks[a].hash.String() < ks[b].hash.String()
		}
		if ks[a].stake != ks[b].stake {
			return ks[a].stake < ks[b].stake
		}
		if ks[a].thr != ks[b].thr {
			return ks[a].thr < ks[b].thr
		}
		return ks[a].total < ks[b].total
	})
	var out []string
	for _, k := range ks {
		if t.m[k] == choosePanics {
			out = append(out, fmt.Sprintf("CH %x %d %d %s p", k.hash[:], k.stake, k.thr, k.total))
			continue
		}
		out = append(out, fmt.Sprintf("CH %x %d %d %s %d", k.hash[:], k.stake, k.thr, k.total, t.m[k]))
	}
	return out
}

// ---- chain stub for the VerifySeal entry -------------------------------------------------------------

type stubChain struct {
	yp      *params.YouParams
	headers map[uint64]*types.Header
	readers map[common.Hash]state.ValidatorReader
}

func (c *stubChain) VersionForRound(r uint64) (*params.YouParams, error) { return c.yp, nil }
func (c *stubChain) VersionForRoundWithParents(r uint64, p []*types.Header) (*params.YouParams, error) {
	return c.yp, nil
}
func (c *stubChain) CurrentHeader() *types.Header                     { return nil }
func (c *stubChain) GetHeader(h common.Hash, n uint64) *types.Header   { return c.headers[n] }
func (c *stubChain) GetHeaderByNumber(n uint64) *types.Header          { return c.headers[n] }
func (c *stubChain) GetHeaderByHash(h common.Hash) *types.Header       { return nil }
func (c *stubChain) GetBlock(h common.Hash, n uint64) *types.Block     { return nil }
func (c *stubChain) GetBlockByNumber(n uint64) *types.Block            { return nil }
func (c *stubChain) GetAcReader() rawdb.AcReader                       { return nil }
func (c *stubChain) UpdateExistedHeader(header *types.Header)          {}
func (c *stubChain) GetVldReader(root common.Hash) (state.ValidatorReader, error) {
	if r, ok := c.readers[root]; ok {
		return r, nil
	}
	return nil, fmt.Errorf("no reader for %x", root)
}

func rlpBytes(v interface{}) []byte {
	b, err := rlp.EncodeToBytes(v)
	if err != nil {
		panic(err)
	}
	return b
}
