package main

// Shape-fact translator: reads the CURRENT source of the verifier (go/ast, nothing executed) and regenerates
// lean/YouVerif/C01/GenFacts.lean with the syntactic facts the hand-written model relies on. Four of them are
// the `Checks` flags of the model itself (Model.lean defines `Checks.current` from them), the others are consumed
// by the theorem `source_shape_ok`. Matching is deliberately tiny and syntactic: a fact is "function F contains
// an if-statement with exactly this condition whose body ends with continue/return", "F contains exactly this
// statement", "the call of G in F has exactly these argument texts", or an order of such statements inside the
// vote loop. Operand order is not normalised. An unrecognised shape (function missing, file unparsable) aborts.

import (
	"bytes"
	"fmt"
	"go/ast"
	"go/format"
	"go/parser"
	"go/token"
	"path/filepath"
	"strings"

	"verifharness/internal/vh"
)

type srcFile struct {
	fset *token.FileSet
	file *ast.File
	rel  string
}

func parseSrc(rel string) (*srcFile, error) {
	fset := token.NewFileSet()
	f, err := parser.ParseFile(fset, filepath.Join(vh.RepoRoot(), rel), nil, 0)
	if err != nil {
		return nil, fmt.Errorf("%s: %v", rel, err)
	}
	return &srcFile{fset, f, rel}, nil
}

func (s *srcFile) text(n ast.Node) string {
	var b bytes.Buffer
	if err := format.Node(&b, s.fset, n); err != nil {
		return "?"
	}
	return strings.Join(strings.Fields(b.String()), " ")
}

func (s *srcFile) fn(name string) (*ast.FuncDecl, error) {
	for _, d := range s.file.Decls {
		if fd, ok := d.(*ast.FuncDecl); ok && fd.Name.Name == name && fd.Body != nil {
			return fd, nil
		}
	}
	return nil, fmt.Errorf("%s: function %s not found (unrecognised shape)", s.rel, name)
}

// how a block ends: "continue", "return", or ""
func blockEnd(b *ast.BlockStmt) string {
	if b == nil || len(b.List) == 0 {
		return ""
	}
	switch l := b.List[len(b.List)-1].(type) {
	case *ast.BranchStmt:
		return strings.ToLower(l.Tok.String())
	case *ast.ReturnStmt:
		return "return"
	}
	return ""
}

// ifs counts the if-statements anywhere in fn with exactly this condition whose body ends as given.
func (s *srcFile) ifs(fn *ast.FuncDecl, cond, ends string) int {
	n := 0
	ast.Inspect(fn.Body, func(x ast.Node) bool {
		if i, ok := x.(*ast.IfStmt); ok && s.text(i.Cond) == cond && blockEnd(i.Body) == ends {
			n++
		}
		return true
	})
	return n
}

// stmts counts simple statements (assign / expr / inc-dec / return) anywhere in fn with exactly this text.
func (s *srcFile) stmts(fn *ast.FuncDecl, text string) int {
	n := 0
	ast.Inspect(fn.Body, func(x ast.Node) bool {
		switch x.(type) {
		case *ast.AssignStmt, *ast.ExprStmt, *ast.IncDecStmt, *ast.ReturnStmt:
			if s.text(x) == text {
				n++
			}
		}
		return true
	})
	return n
}

// calls returns the argument texts of every call of the function whose callee text is name.
func (s *srcFile) calls(fn *ast.FuncDecl, name string) [][]string {
	var out [][]string
	ast.Inspect(fn.Body, func(x ast.Node) bool {
		if c, ok := x.(*ast.CallExpr); ok && s.text(c.Fun) == name {
			var a []string
			for _, e := range c.Args {
				a = append(a, s.text(e))
			}
			out = append(out, a)
		}
		return true
	})
	return out
}

func sameArgs(got [][]string, want ...[]string) bool {
	if len(got) != len(want) {
		return false
	}
	for i := range want {
		if strings.Join(got[i], " | ") != strings.Join(want[i], " | ") {
			return false
		}
	}
	return true
}

// loopOrder: the body of the (unique) `for … := range <over>` of fn contains, as top-level statements and in this
// order, statements with these heads (an if-statement's head is "if <cond>", an else-less simple statement its text).
func (s *srcFile) loopOrder(fn *ast.FuncDecl, over string, heads []string) bool {
	var loops []*ast.RangeStmt
	ast.Inspect(fn.Body, func(x ast.Node) bool {
		if r, ok := x.(*ast.RangeStmt); ok && s.text(r.X) == over {
			loops = append(loops, r)
		}
		return true
	})
	if len(loops) != 1 {
		return false
	}
	k := 0
	for _, st := range loops[0].Body.List {
		h := ""
		if i, ok := st.(*ast.IfStmt); ok {
			h = "if " + s.text(i.Cond)
		} else {
			h = s.text(st)
		}
		if k < len(heads) && h == heads[k] {
			k++
		}
	}
	return k == len(heads)
}

// keyed composite literal of the given type inside fn: field -> value text
func (s *srcFile) literal(fn *ast.FuncDecl, typ string) map[string]string {
	var out map[string]string
	ast.Inspect(fn.Body, func(x ast.Node) bool {
		if c, ok := x.(*ast.CompositeLit); ok && c.Type != nil && s.text(c.Type) == typ && out == nil {
			out = map[string]string{}
			for _, e := range c.Elts {
				if kv, ok := e.(*ast.KeyValueExpr); ok {
					out[s.text(kv.Key)] = s.text(kv.Value)
				}
			}
		}
		return true
	})
	return out
}

// caseHead: text of the first statement of the switch clause of fn whose (single) label is exactly label
func (s *srcFile) caseHead(fn *ast.FuncDecl, label string) string {
	out := "?"
	ast.Inspect(fn.Body, func(x ast.Node) bool {
		if c, ok := x.(*ast.CaseClause); ok && len(c.List) == 1 && s.text(c.List[0]) == label && len(c.Body) > 0 && out == "?" {
			out = s.text(c.Body[0])
		}
		return true
	})
	return out
}

type fact struct {
	lean string // Lean identifier
	what string // human description (goes into the doc comment)
	ok   bool
}

func genFacts() ([]fact, error) {
	cons, err := parseSrc("consensus/ucon/consensus.go")
	if err != nil {
		return nil, err
	}
	sort, err := parseSrc("consensus/ucon/sortition.go")
	if err != nil {
		return nil, err
	}
	voter, err := parseSrc("consensus/ucon/voter.go")
	if err != nil {
		return nil, err
	}
	sver, err := parseSrc("consensus/ucon/sortition_verifier.go")
	if err != nil {
		return nil, err
	}
	blsf, err := parseSrc("bls/bls.go")
	if err != nil {
		return nil, err
	}
	blsk, err := parseSrc("bls/keys_bls12_381.go")
	if err != nil {
		return nil, err
	}
	var e1, e2, e3, e4, e5, e6, e7, e8, e9 error
	main, e1 := cons.fn("verifyConsensusFieldMain")
	vv, e2 := cons.fn("verifyVotes")
	ent, e3 := cons.fn("entitledToVote")
	side, e4 := cons.fn("VerifySideChainHeader")
	vsort, e5 := sort.fn("VrfVerifySortition")
	vprio, e6 := sort.fn("VrfVerifyPriority")
	over, e7 := voter.fn("OverThreshold")
	agg1, e8 := blsf.fn("VerifyAggregatedOne")
	_, e9 = blsk.fn("Verify")
	for _, e := range []error{e1, e2, e4, e5, e6, e7, e8, e9} {
		if e != nil {
			return nil, e
		}
	}
	vcf, e10 := cons.fn("verifyConsensusField")
	glv, e11 := cons.fn("getLookBackValReader")
	glh, e12 := cons.fn("getLookBackHeader")
	glb, e13 := sver.fn("GetLookBackBlockNumber")
	for _, e := range []error{e10, e11, e12, e13} {
		if e != nil {
			return nil, e
		}
	}
	var fs []fact
	add := func(lean, what string, ok bool) { fs = append(fs, fact{lean, what, ok}) }

	// ---- the four model flags ---------------------------------------------------------------------------------
	add("srcThresholdsFromParams",
		"verifyConsensusFieldMain: `if consensusData.ProposerThreshold != cp.ProposerThreshold || consensusData.ValidatorThreshold != cp.ValidatorThreshold || consensusData.CertValThreshold != cp.CertValThreshold { … return }`",
		cons.ifs(main, "consensusData.ProposerThreshold != cp.ProposerThreshold || consensusData.ValidatorThreshold != cp.ValidatorThreshold || consensusData.CertValThreshold != cp.CertValThreshold", "return") == 1)
	entOK := e3 == nil && cons.stmts(ent, "return validator != nil && validator.Status == params.ValidatorOnline && validator.Kind() == kind") == 1
	add("srcVoterEntitled",
		"verifyVotes: `if !entitledToVote(validator, kind) { continue }` in both branches, and entitledToVote = `validator != nil && validator.Status == params.ValidatorOnline && validator.Kind() == kind`",
		entOK && cons.ifs(vv, "!entitledToVote(validator, kind)", "continue") == 2)
	add("srcProposerEntitled",
		"verifyConsensusFieldMain: `if validator.Status != params.ValidatorOnline || validator.Kind() != params.KindChamber || consensusData.SubUsers == 0 { … return }`",
		cons.ifs(main, "validator.Status != params.ValidatorOnline || validator.Kind() != params.KindChamber || consensusData.SubUsers == 0", "return") == 1)
	add("srcBlsIdentity",
		"bls.VerifyAggregatedOne: `if isIdentitySig(osig.sig) || isIdentityPub(g2pubs.AggregatePublicKeys(originPubs)) { return ErrSigMismatch }` before the pairing check",
		blsf.ifs(agg1, "isIdentitySig(osig.sig) || isIdentityPub(g2pubs.AggregatePublicKeys(originPubs))", "return") == 1)

	// ---- verifyVotes ---------------------------------------------------------------------------------------------
	add("srcDupCheck", "verifyVotes: `if staData[addr] == true { continue }` (BLS branch before the key is listed, and before counting)",
		cons.ifs(vv, "staData[addr] == true", "continue") == 2)
	add("srcLoopOrder", "verifyVotes vote loop, in this order: duplicate check; sortition check; `if err != nil || !isValid { … continue }`; `staData[addr] = true`; `count += v.Votes`",
		cons.loopOrder(vv, "votes", []string{"if staData[addr] == true",
			"isValid, err := VrfVerifySortition(vrfpk, cd.seed, cd.roundIndex, step, v.Proof, v.Votes, threshold, validator.Stake, totalStake)",
			"if err != nil || !isValid", "staData[addr] = true", "count += v.Votes"}))
	add("srcSortitionArgs", "verifyVotes: VrfVerifySortition(vrfpk, cd.seed, cd.roundIndex, step, v.Proof, v.Votes, threshold, validator.Stake, totalStake) with threshold := cd.validatorThreshold, totalStake := vstate.GetStakeByKind(kind), count := uint32(0)",
		sameArgs(cons.calls(vv, "VrfVerifySortition"), []string{"vrfpk", "cd.seed", "cd.roundIndex", "step", "v.Proof", "v.Votes", "threshold", "validator.Stake", "totalStake"}) &&
			cons.stmts(vv, "threshold := cd.validatorThreshold") == 1 && cons.stmts(vv, "totalStake := vstate.GetStakeByKind(kind)") == 1 && cons.stmts(vv, "count := uint32(0)") == 1)
	add("srcQuorumGate", "verifyVotes: `if !OverThreshold(count, threshold, isPos) { … return errInvalidConsensusData }` after the loop",
		cons.ifs(vv, "!OverThreshold(count, threshold, isPos)", "return") == 1)
	add("srcAggregateCheck", "verifyVotes: payload := headerHash ‖ round.Bytes() ‖ be32(roundIndex); `err = s.blsMgr.VerifyAggregatedOne(blspubs, payload, sig)` and its error is returned",
		cons.stmts(vv, "payload := append(cd.headerHash, append(cd.round.Bytes(), uint32ToBytes(cd.roundIndex)...)...)") == 1 &&
			cons.stmts(vv, "err = s.blsMgr.VerifyAggregatedOne(blspubs, payload, sig)") == 1 && cons.stmts(vv, "return err") >= 1 &&
			cons.ifs(vv, "cd.cp.EnableBls", "return") == 1)
	add("srcSignerByIndex", "verifyVotes: `validator, pk, pubKey, err = s.blsVerifier.RecoverSignerInfo(vs, &v)` with vs := cd.lbVld.GetValidators(); failure returns",
		cons.stmts(vv, "validator, pk, pubKey, err = s.blsVerifier.RecoverSignerInfo(vs, &v)") == 1 && cons.stmts(vv, "vs := cd.lbVld.GetValidators()") == 1)

	// ---- verifyConsensusFieldMain --------------------------------------------------------------------------------
	add("srcVoteCalls", "verifyConsensusFieldMain: verifyVotes(cd, ChamberCommitters, SCAggrSig, uint32(Precommit), params.KindChamber, true), then in certificate rounds verifyVotes(cd, ChamberCerts, CCAggrSig, uint32(Certificate), params.KindChamber, false)",
		sameArgs(cons.calls(main, "s.verifyVotes"),
			[]string{"cd", "ucValidators.ChamberCommitters", "ucValidators.SCAggrSig", "uint32(Precommit)", "params.KindChamber", "true"},
			[]string{"cd", "ucCertificates.ChamberCerts", "ucCertificates.CCAggrSig", "uint32(Certificate)", "params.KindChamber", "false"}))
	lit := cons.literal(main, "commonData")
	add("srcCommonData", "verifyConsensusFieldMain: commonData{cp: cp, lbVld: vldReader, headerHash: header.Hash().Bytes(), seed: seedCon.Seed, round: consensusData.Round, roundIndex: ucValidators.RoundIndex, validatorThreshold: consensusData.ValidatorThreshold}",
		lit != nil && lit["cp"] == "cp" && lit["lbVld"] == "vldReader" && lit["headerHash"] == "header.Hash().Bytes()" && lit["seed"] == "seedCon.Seed" &&
			lit["round"] == "consensusData.Round" && lit["roundIndex"] == "ucValidators.RoundIndex" && lit["validatorThreshold"] == "consensusData.ValidatorThreshold" && len(lit) == 7)
	add("srcPriorityArgs", "verifyConsensusFieldMain: VrfVerifyPriority(vrfPK, seedCon.Seed, consensusData.RoundIndex, UConStepProposal, proof, priority, subUsers, consensusData.ProposerThreshold, validator.Stake, chamber stake); failure returns",
		sameArgs(cons.calls(main, "VrfVerifyPriority"), []string{"vrfPK", "seedCon.Seed", "consensusData.RoundIndex", "UConStepProposal", "consensusData.SortitionProof",
			"consensusData.Priority", "consensusData.SubUsers", "consensusData.ProposerThreshold", "validator.Stake", "vs.GetStakeByKind(params.KindChamber)"}) &&
			cons.ifs(main, "err != nil || !isValid", "return") == 1 && cons.ifs(main, "validator == nil", "return") == 1)
	add("srcCertSwitch", "verifyConsensusFieldMain, certificate rounds: cd.lbVld = certVldReader; cd.seed = certCon.Seed; cd.validatorThreshold = certCon.CertValThreshold; cd.cp = &yp.CaravelParams (round index untouched)",
		cons.stmts(main, "cd.lbVld = certVldReader") == 1 && cons.stmts(main, "cd.seed = certCon.Seed") == 1 &&
			cons.stmts(main, "cd.validatorThreshold = certCon.CertValThreshold") == 1 && cons.stmts(main, "cd.cp = &yp.CaravelParams") == 1 &&
			cons.ifs(main, "header.Number.Uint64() > 0 && header.Number.Uint64()%params.ACoCHTFrequency == 0", "") == 1)
	add("srcSideEntry", "VerifySideChainHeader ends with `return s.verifyConsensusFieldMain(cp, seedHeader, vldReader, certHeader, certVldReader, block.Header())`",
		cons.stmts(side, "return s.verifyConsensusFieldMain(cp, seedHeader, vldReader, certHeader, certVldReader, block.Header())") == 1)

	// ---- look-back resolution ---------------------------------------------------------------------------------
	add("srcLookBackCalls", "verifyConsensusField: seed header = getLookBackHeader(cp, …, params.LookBackSeed, parents), validators = getLookBackValReader(cp, …, params.LookBackStake, parents); certificate rounds: (nil, …, params.LookBackCertSeed) and (nil, …, params.LookBackCertStake); handed to verifyConsensusFieldMain(cp, seedHeader, vldReader, certSeedHeader, certVldReader, header); getLookBackValReader reads chain.GetVldReader(lbHeader.ValRoot) of getLookBackHeader(cp, chain, currNum, lbtype, parents)",
		sameArgs(cons.calls(vcf, "s.getLookBackHeader"), []string{"cp", "chain", "header.Number", "params.LookBackSeed", "parents"}, []string{"nil", "chain", "header.Number", "params.LookBackCertSeed", "parents"}) &&
			sameArgs(cons.calls(vcf, "s.getLookBackValReader"), []string{"cp", "chain", "header.Number", "params.LookBackStake", "parents"}, []string{"nil", "chain", "header.Number", "params.LookBackCertStake", "parents"}) &&
			cons.stmts(vcf, "seedHeader, err := s.getLookBackHeader(cp, chain, header.Number, params.LookBackSeed, parents)") == 1 &&
			cons.stmts(vcf, "vldReader, err := s.getLookBackValReader(cp, chain, header.Number, params.LookBackStake, parents)") == 1 &&
			cons.stmts(vcf, "certSeedHeader, err = s.getLookBackHeader(nil, chain, header.Number, params.LookBackCertSeed, parents)") == 1 &&
			cons.stmts(vcf, "certVldReader, err = s.getLookBackValReader(nil, chain, header.Number, params.LookBackCertStake, parents)") == 1 &&
			cons.stmts(vcf, "return s.verifyConsensusFieldMain(cp, seedHeader, vldReader, certSeedHeader, certVldReader, header)") == 1 &&
			cons.stmts(glv, "lbHeader, err := s.getLookBackHeader(cp, chain, currNum, lbtype, parents)") == 1 &&
			cons.stmts(glv, "reader, err = chain.GetVldReader(lbHeader.ValRoot)") == 1 &&
			cons.stmts(glh, "lookBack := s.GetLookBackBlockNumber(cp, currNum, lbtype)") == 1 &&
			cons.stmts(glh, "lookBackHeader = chain.GetHeaderByNumber(lookBack.Uint64())") == 1)
	add("srcLookBackNumbers", "GetLookBackBlockNumber: LookBackPos/LookBackSeed -> cp.SeedLookBack, LookBackStake -> cp.StakeLookBack, LookBackCert/LookBackCertSeed -> ACoCHTFrequency, LookBackCertStake -> 2*ACoCHTFrequency; `if num.Cmp(cfg) > 0 { lookBack.Sub(lookBack, cfg) } else { 0 }`",
		sver.caseHead(glb, "params.LookBackPos") == "fallthrough" &&
			sver.caseHead(glb, "params.LookBackSeed") == "cfg = big.NewInt(int64(cp.SeedLookBack))" &&
			sver.caseHead(glb, "params.LookBackStake") == "cfg = big.NewInt(int64(cp.StakeLookBack))" &&
			sver.caseHead(glb, "params.LookBackCert") == "fallthrough" &&
			sver.caseHead(glb, "params.LookBackCertSeed") == "cfg = big.NewInt(int64(params.ACoCHTFrequency))" &&
			sver.caseHead(glb, "params.LookBackCertStake") == "cfg = big.NewInt(int64(params.ACoCHTFrequency) * 2)" &&
			sver.ifs(glb, "num.Cmp(cfg) > 0", "") == 1 && sver.stmts(glb, "lookBack = lookBack.Sub(lookBack, cfg)") == 1 && sver.stmts(glb, "lookBack.SetInt64(0)") == 1)

	// ---- sortition.go, voter.go -------------------------------------------------------------------------------
	add("srcSeatCheck", "VrfVerifySortition: `if j <= 0 { return false, … }` and `if uint32(j) != subUsers { return false, … }`, j := choose(hash, stake, pFloat), hash from pk.ProofToHash(MakeM(seed, role, index), proof)",
		sort.ifs(vsort, "j <= 0", "return") == 1 && sort.ifs(vsort, "uint32(j) != subUsers", "return") == 1 &&
			sort.stmts(vsort, "j := choose(hash, stake, pFloat)") == 1 && sort.stmts(vsort, "hash, err := pk.ProofToHash(m, proof)") == 1 &&
			sameArgs(sort.calls(vsort, "MakeM"), []string{"seed", "role", "index"}) && sort.ifs(vsort, "totalStake.Sign() == 0", "return") == 1)
	add("srcPriorityCheck", "VrfVerifyPriority: `if uint32(j) != subUsers { return false, … }`, p := computePriority(hash, big.NewInt(j)), result reflect.DeepEqual(p, priority)",
		sort.ifs(vprio, "uint32(j) != subUsers", "return") == 1 && sort.stmts(vprio, "p := computePriority(hash, big.NewInt(j))") == 1 &&
			sort.stmts(vprio, "return reflect.DeepEqual(p, priority), nil") == 1 && sameArgs(sort.calls(vprio, "MakeM"), []string{"seed", "role", "index"}))
	add("srcOverThreshold", "OverThreshold: th := ValidatorProportionThreshold; `if !isPos { th = CertValProportionThreshold }`; `if count >= uint32(float64(threshold)*th) { return true }`",
		voter.stmts(over, "th := ValidatorProportionThreshold") == 1 && voter.stmts(over, "th = CertValProportionThreshold") == 1 &&
			voter.ifs(over, "!isPos", "") == 1 && voter.ifs(over, "count >= uint32(float64(threshold)*th)", "return") == 1)
	return fs, nil
}

func leanFacts(fs []fact) string {
	var sb strings.Builder
	sb.WriteString("/- GENERATED by `c01 gen` (go/cmd/c01/gen.go) from the CURRENT Go source on every ./check run. Do not edit.\n")
	sb.WriteString("   Each fact says that a specific statement of the verifier the model relies on is present, syntactically. -/\n")
	sb.WriteString("namespace YouVerif.C01.Gen\n\n")
	for _, f := range fs {
		fmt.Fprintf(&sb, "/-- %s -/\ndef %s : Bool := %v\n\n", strings.ReplaceAll(f.what, "-/", "- /"), f.lean, f.ok)
	}
	sb.WriteString("def sourceFacts : List (String × Bool) := [\n")
	for i, f := range fs {
		c := ","
		if i == len(fs)-1 {
			c = ""
		}
		fmt.Fprintf(&sb, "  (%q, %s)%s\n", f.lean, f.lean, c)
	}
	sb.WriteString("]\n\nend YouVerif.C01.Gen\n")
	return sb.String()
}
