package main

// Symbolic form of a case: the line protocol sent to the Lean driver, its parser, and the implementation-level
// oracle (the property's statement evaluated with the harness' ground truth, independent of the Lean model).

import (
	"bytes"
	"encoding/hex"
	"fmt"
	"math/big"
	"sort"
	"strconv"
	"strings"

	"github.com/youchainhq/go-youchain/common"
	"github.com/youchainhq/go-youchain/consensus/ucon"
	"github.com/youchainhq/go-youchain/params"
)

func b2i(b bool) int {
	if b {
		return 1
	}
	return 0
}

func lbLines(which int, lb *lookBack) []string {
	if lb == nil {
		return nil
	}
	out := []string{fmt.Sprintf("LB %d %s", which, lb.chamberTotal().String())}
	for i, s := range lb.specs {
		mk, bk := s.key.id, s.bls().id
		if s.badMain {
			mk = 0
		}
		if s.badBls {
			bk = 0
		}
		a := lb.vals[i].MainAddress()
		out = append(out, fmt.Sprintf("VAL %d %x %d %d %d %d %d %d", which, a[:], s.stake, s.token, s.kind(), b2i(s.online), mk, bk))
	}
	return out
}

func ucLines(which int, p *ucPlan, vts []voteTruth, agg aggTerm) []string {
	out := []string{fmt.Sprintf("UC %d %d %d %s", which, b2i(!p.undecodable), p.roundIndex, agg.String())}
	for _, v := range vts {
		st := "-"
		if v.sigState == 1 {
			st = v.sig.String()
		}
		out = append(out, fmt.Sprintf("VOTE %d %d %d %s %s", which, v.idx, v.votes, v.proof.String(), st))
	}
	return out
}

// caseLines renders a realised case for the Lean driver (without the CH table, which is appended by the caller
// once every needed choose() value is known).
func caseLines(c *caseT, t *truth) []string {
	out := []string{"RESET", fmt.Sprintf("CP %d %d %d %d", b2i(c.cp.EnableBls), c.cp.ProposerThreshold, c.cp.ValidatorThreshold, c.cp.CertValThreshold)}
	out = append(out, lbLines(0, c.lb)...)
	if c.isCertRound() {
		out = append(out, lbLines(1, c.certLb)...)
	}
	if c.history {
		// the chain as the resolving entry points see it: which header (seed, declared cert size, version) stands at
		// which height and which validator set (LB slot) its ValRoot commits to
		hs := protocolHeights(c.cp, c.number)
		out = append(out, fmt.Sprintf("LBCFG %d %d", c.cp.SeedLookBack, c.cp.StakeLookBack))
		out = append(out, lbLines(2, c.lbDecoy)...)
		seedSlot := 2
		if c.stakeHeader == nil {
			seedSlot = 0 // both look-backs are the same block
		} else {
			out = append(out, fmt.Sprintf("AT %d 1 %x %d 1 0", hs.stake, c.decoySeed[:], c.cp.CertValThreshold))
		}
		out = append(out, fmt.Sprintf("AT %d %d %x %d 1 %d", hs.seed, b2i(!c.seedHdr.noCons), c.seedHdr.seed[:], c.seedHdr.certT, seedSlot))
		if c.isCertRound() {
			out = append(out, lbLines(3, c.certLbDecoy)...)
			cs := 3
			if c.certStakeHeader == nil {
				cs = 1
			} else {
				out = append(out, fmt.Sprintf("AT %d 1 %x %d %d 1", hs.certStake, c.decoySeed[:], c.cp.CertValThreshold, c.certHdr.version))
			}
			out = append(out, fmt.Sprintf("AT %d %d %x %d %d %d", hs.certSeed, b2i(!c.certHdr.noCons), c.certHdr.seed[:], c.certHdr.certT, c.certHdr.version, cs))
		}
	}
	out = append(out, fmt.Sprintf("SEEDHDR %d %x", b2i(!c.seedHdr.noCons), c.seedHdr.seed[:]))
	if c.isCertRound() {
		out = append(out, fmt.Sprintf("CERTHDR 1 %d %d %x %d", c.certHdr.version, b2i(!c.certHdr.noCons), c.certHdr.seed[:], c.certHdr.certT))
	}
	out = append(out, fmt.Sprintf("HDR %d %x %d %d", c.number, c.hash[:], t.sealSigner, b2i(!c.badParent)))
	out = append(out, fmt.Sprintf("CONS %d %s %d %x %s %x %d %d %d %d %d", b2i(!c.cons.undecoded), c.cons.round.String(), c.cons.roundIndex,
		c.cons.seed[:], t.consProof.String(), c.cons.priority[:], c.cons.subUsers, c.cons.pT, c.cons.vT, c.cons.cT, t.consSigner))
	out = append(out, ucLines(0, &c.uc, t.ucVotes, t.ucAgg)...)
	out = append(out, ucLines(1, &c.cert, t.certVotes, t.certAgg)...)
	return out
}

// ---- parsed symbolic case ----------------------------------------------------------------------------

type symVal struct {
	addr           []byte
	stake, token   *big.Int
	kind           int
	online         bool
	mainKey, blsKey int
}
type symLB struct {
	total *big.Int
	vals  []symVal
}
type symVote struct {
	idx, votes uint32
	proof      proofTerm
	sig        *sigAtom
}
type symUC struct {
	decodable  bool
	roundIndex uint32
	agg        aggTerm
	votes      []symVote
}
type sym struct {
	bls                   bool
	pT, vT, cT            uint64
	lb                    [4]*symLB
	seedHas               bool
	seed                  common.Hash
	certPresent, certHas  bool
	certVersion           uint64
	certSeed              common.Hash
	certT                 uint64
	number                uint64
	hash                  common.Hash
	sealSigner            int
	parentOK              bool
	consOK                bool
	round                 string
	roundIndex            uint32
	consSeed              common.Hash
	consProof             proofTerm
	priority              common.Hash
	subUsers              uint32
	dpT, dvT, dcT         uint64
	consSigner            int
	uc                    [2]symUC
	entry                 string
}

func hx(s string) []byte { b, _ := hex.DecodeString(s); return b }
func hh(s string) common.Hash { return common.BytesToHash(hx(s)) }
func u64(s string) uint64 { v, _ := strconv.ParseUint(s, 10, 64); return v }
func i64(s string) int { v, _ := strconv.ParseInt(s, 10, 64); return int(v) }
func bigOf(s string) *big.Int { v, _ := new(big.Int).SetString(s, 10); return v }

func parseProof(s string) proofTerm {
	if s == "-" {
		return proofTerm{garbage: true}
	}
	f := strings.Split(s, ":")
	return proofTerm{key: i64(f[0]), seed: hh(f[1]), role: uint32(u64(f[2])), index: uint32(u64(f[3])), hash: hh(f[4])}
}
func parseAtom(s string) sigAtom {
	f := strings.Split(s, ":")
	return sigAtom{key: i64(f[0]), hash: hh(f[1]), round: f[2], index: uint32(u64(f[3]))}
}
func parseAgg(s string) aggTerm {
	switch s {
	case "x":
		return aggTerm{undecodable: true}
	case "e":
		return aggTerm{}
	}
	var a aggTerm
	for _, x := range strings.Split(s, ",") {
		a.atoms = append(a.atoms, parseAtom(x))
	}
	return a
}

func parseSym(lines []string) *sym {
	s := &sym{}
	for _, l := range lines {
		f := strings.Fields(l)
		switch f[0] {
		case "CP":
			s.bls, s.pT, s.vT, s.cT = f[1] == "1", u64(f[2]), u64(f[3]), u64(f[4])
		case "LB":
			s.lb[i64(f[1])] = &symLB{total: bigOf(f[2])}
		case "VAL":
			lb := s.lb[i64(f[1])]
			lb.vals = append(lb.vals, symVal{addr: hx(f[2]), stake: bigOf(f[3]), token: bigOf(f[4]), kind: i64(f[5]), online: f[6] == "1", mainKey: i64(f[7]), blsKey: i64(f[8])})
		case "SEEDHDR":
			s.seedHas, s.seed = f[1] == "1", hh(f[2])
		case "CERTHDR":
			s.certPresent, s.certVersion, s.certHas, s.certSeed, s.certT = f[1] == "1", u64(f[2]), f[3] == "1", hh(f[4]), u64(f[5])
		case "HDR":
			s.number, s.hash, s.sealSigner, s.parentOK = u64(f[1]), hh(f[2]), i64(f[3]), f[4] == "1"
		case "CONS":
			s.consOK, s.round, s.roundIndex, s.consSeed, s.consProof, s.priority = f[1] == "1", f[2], uint32(u64(f[3])), hh(f[4]), parseProof(f[5]), hh(f[6])
			s.subUsers, s.dpT, s.dvT, s.dcT, s.consSigner = uint32(u64(f[7])), u64(f[8]), u64(f[9]), u64(f[10]), i64(f[11])
		case "UC":
			s.uc[i64(f[1])] = symUC{decodable: f[2] == "1", roundIndex: uint32(u64(f[3])), agg: parseAgg(f[4])}
		case "VOTE":
			u := &s.uc[i64(f[1])]
			v := symVote{idx: uint32(u64(f[2])), votes: uint32(u64(f[3])), proof: parseProof(f[4])}
			if f[5] != "-" {
				a := parseAtom(f[5])
				v.sig = &a
			}
			u.votes = append(u.votes, v)
		case "RUN":
			s.entry = f[1]
		}
	}
	return s
}

// sorted order as state.Validators.sort: descending by (stake as uint64, token, address)
func (lb *symLB) sorted() []symVal {
	out := append([]symVal{}, lb.vals...)
	less := func(a, b symVal) bool {
		as, bs := new(big.Int).And(a.stake, maxU64).Uint64(), new(big.Int).And(b.stake, maxU64).Uint64()
		if as != bs {
			return as < bs
		}
		if c := a.token.Cmp(b.token); c != 0 {
			return c < 0
		}
		return bytes.Compare(a.addr, b.addr) < 0
	}
	sort.SliceStable(out, func(i, j int) bool { return less(out[j], out[i]) })
	return out
}

var maxU64 = new(big.Int).SetUint64(^uint64(0))

func realChoose(hash common.Hash, stake *big.Int, thr uint64, total *big.Int) int64 {
	if total.Sign() == 0 {
		return 0
	}
	if j := safeChoose(hash, stake, thr, total); j != choosePanics {
		return j
	}
	return 0
}

// oracleVotes: the weight of distinct, entitled, credentialed members who really signed this block, judged with
// the PROTOCOL's committee size thr (never a declared one).
func oracleVotes(s *sym, u0 *symUC, lb *symLB, seed common.Hash, step uint32, thr uint64, blsOn bool, index uint32) *big.Int {
	uu := *u0
	uu.roundIndex = index
	u := &uu
	sorted := lb.sorted()
	seen := map[int]bool{}
	weight := new(big.Int)
	for _, v := range u.votes {
		var m *symVal
		if blsOn {
			if int(v.idx) >= len(sorted) {
				continue
			}
			m = &sorted[v.idx]
		} else {
			if v.sig == nil || v.sig.hash != s.hash || v.sig.round != s.round || v.sig.index != u.roundIndex {
				continue
			}
			for i := range sorted {
				if sorted[i].mainKey != 0 && sorted[i].mainKey == v.sig.key {
					m = &sorted[i]
				}
			}
			if m == nil {
				continue
			}
		}
		if m.mainKey == 0 || seen[m.mainKey] {
			continue // duplicates and replays of the same member contribute nothing
		}
		if m.kind != int(params.KindChamber) || !m.online {
			continue // not entitled
		}
		p := v.proof
		if p.garbage || p.key != m.mainKey || p.seed != seed || p.role != step || p.index != u.roundIndex {
			continue // no valid sortition proof for this round/index/step
		}
		j := realChoose(p.hash, m.stake, thr, lb.total)
		if j <= 0 || uint32(j) != v.votes {
			continue // not selected, or claims seats it does not have
		}
		if blsOn {
			signed := false
			for _, a := range u.agg.atoms {
				if a.key == m.blsKey && m.blsKey != 0 && a.hash == s.hash && a.round == s.round && a.index == u.roundIndex {
					signed = true
				}
			}
			if !signed || u.agg.undecodable {
				continue // never signed this block's hash
			}
		}
		seen[m.mainKey] = true
		weight.Add(weight, big.NewInt(j))
	}
	return weight
}

func quorumOf(thr uint64, isPos bool) uint64 {
	c := ucon.ValidatorProportionThreshold
	if !isPos {
		c = ucon.CertValProportionThreshold
	}
	return uint64(float64(thr) * c)
}

// specQuorum is the quorum the PROTOCOL prescribes, written down independently of the code under test:
// 68.5 % of the committee size for precommits, 58.5 % for certificates, rounded down (for certificates one seat
// of slack: the float64 nearest to 0.585 lies below it).
func specQuorum(thr uint64, isPos bool) uint64 {
	t := new(big.Int).SetUint64(thr)
	if isPos {
		return t.Mul(t, big.NewInt(137)).Div(t, big.NewInt(200)).Uint64()
	}
	q := t.Mul(t, big.NewInt(117)).Div(t, big.NewInt(200)).Uint64()
	if q > 0 {
		q--
	}
	return q
}

// oracle returns "" when the real verifier's verdict is consistent with the property, else what is violated.
// cls is the class of the real verifier's answer ("ok", "err …", "crash").
func oracle(s *sym, cls string) (what string, tag string) {
	if cls == "crash" {
		return "the verifier panics on this header", "crash"
	}
	if cls != "ok" || s.number == 0 {
		return "", ""
	}
	lb := s.lb[0]
	// proposer credential under the protocol's proposer threshold
	var prop *symVal
	for i := range lb.vals {
		if lb.vals[i].mainKey != 0 && lb.vals[i].mainKey == s.consSigner {
			prop = &lb.vals[i]
		}
	}
	if !s.consOK || prop == nil {
		return "accepted, but the consensus data is not signed by a member of the look-back set", "proposer-nonmember"
	}
	p := s.consProof
	if p.garbage || p.key != prop.mainKey || p.seed != s.seed || p.role != stepProposal || p.index != s.roundIndex {
		return "accepted, but the proposer has no valid sortition proof for this seed/index/step", "proposer-proof"
	}
	j := realChoose(p.hash, prop.stake, s.pT, lb.total)
	if uint32(j) != s.subUsers || ucon.VerifComputePriority(p.hash, big.NewInt(j)) != s.priority {
		return fmt.Sprintf("accepted, but the proposer credential does not verify under the protocol's proposer threshold %d (declared %d): seats %d, claimed %d", s.pT, s.dpT, j, s.subUsers), "proposer-threshold"
	}
	if j <= 0 {
		return "accepted, but the proposer was not selected by sortition (0 seats)", "proposer-zero-seats"
	}
	if prop.kind != int(params.KindChamber) || !prop.online {
		return "accepted, but the proposer is not an online chamber member of the look-back set", "proposer-not-entitled"
	}
	// quorum of precommits, protocol-sized
	if !s.uc[0].decodable {
		return "accepted without decodable votes", "votes"
	}
	w := oracleVotes(s, &s.uc[0], lb, s.seed, stepPrecommit, s.vT, s.bls, s.uc[0].roundIndex)
	q := specQuorum(s.vT, true)
	if w.Cmp(new(big.Int).SetUint64(q)) < 0 {
		tag := "quorum"
		if s.dvT != s.vT {
			tag = "quorum-declared-threshold"
		} else {
			// would the weight suffice if non-entitled members were counted?
			tag = "quorum-weight"
		}
		return fmt.Sprintf("accepted with valid precommit weight %s < quorum %d of the protocol's committee size %d (declared size %d)", w, q, s.vT, s.dvT), tag
	}
	if s.number%params.ACoCHTFrequency == 0 {
		// certificate (supporting claim, outside the property's sentence): same judgement with the 0.585 fraction
		// and the committee size of the version recorded on the certificate look-back header
		yp, ok := params.Versions[params.YouVersion(s.certVersion)]
		if !ok || !s.certPresent || !s.certHas || !s.uc[1].decodable {
			return "certificate round accepted without certificate look-back data", "cert"
		}
		// the certificate votes are verified under header.Validator's round index and the committee size declared on
		// the (trusted, already accepted) certificate look-back header
		cw := oracleVotes(s, &s.uc[1], s.lb[1], s.certSeed, stepCertificate, s.certT, yp.EnableBls, s.uc[0].roundIndex)
		cq := specQuorum(s.certT, false)
		if cw.Cmp(new(big.Int).SetUint64(cq)) < 0 {
			return fmt.Sprintf("certificate round accepted with certificate weight %s < %d (size declared on the look-back header %d)", cw, cq, s.certT), "cert-quorum"
		}
	}
	return "", ""
}
