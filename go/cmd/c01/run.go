package main

import (
	crand "crypto/rand"
	"encoding/hex"
	"fmt"
	"math/big"
	"os"
	"runtime/debug"
	"runtime/pprof"
	"sort"
	"strconv"
	"strings"

	"github.com/youchainhq/go-youchain/common"
	"github.com/youchainhq/go-youchain/consensus/ucon"
	"github.com/youchainhq/go-youchain/core/state"
	"github.com/youchainhq/go-youchain/core/types"
	"github.com/youchainhq/go-youchain/params"
	"github.com/youchainhq/go-youchain/rlp"

	"verifharness/internal/quiet"
	"verifharness/internal/vh"
)

func setup(seed uint64) {
	quiet.Silence()
	params.InitNetworkId(params.NetworkIdForTestCase)
	crand.Reader = &seededReader{vh.NewRNG(seed ^ 0xC01)}
}

// classify maps the real verifier's error to a small enum.
func classify(err error) string {
	if err == nil {
		return "ok"
	}
	m := err.Error()
	switch {
	case m == "can not get look back consensus":
		return "err lbcons"
	case m == "invalid consensus data":
		return "err invalid"
	case m == "invalid consensus data format":
		return "err format"
	case m == "illegal proposer":
		return "err proposer"
	case strings.HasPrefix(m, "invalid aggregated signatue"):
		return "err aggdec"
	case strings.HasPrefix(m, "verifyBlsVotes can't recover signer info"):
		return "err signer"
	case m == "signature mismatch" || strings.Contains(m, "mismatch"):
		return "err sigmismatch"
	case strings.HasPrefix(m, "YOUChain version of"):
		return "err version"
	case m == "unknown ancestor":
		return "err ancestor"
	case m == "invalid sealer":
		return "err sealer"
	}
	return "err other:" + strings.ReplaceAll(m, " ", "_")
}

type concrete struct {
	cp                                  params.CaravelParams
	lb, certLb                          *lookBack
	seedHeader, certHeader, parent, hdr *types.Header
	entry                               string
	stakeHeader, certStakeHeader        *types.Header // validator-set history: headers at the stake look-back heights
	lbDecoy, certLbDecoy                *lookBack     // … and the sets committed at the seed look-back heights
	hdr0                                *types.Header // replay of a stateful sequence: the honest twin H
	seq                                 []seqStep
}

func newServer() *ucon.Server {
	s, _ := ucon.NewVRFServer(nil)
	return s
}

// goVerify judges one header on a FRESH engine (no state from earlier verifications).
func goVerify(x *concrete) string { return goVerifyOn(newServer(), x, usableEntry(x, x.entry)) }

// which model function a Go entry point corresponds to: side = look-back handed in; the others resolve the look-back
// themselves (chain = resolution modelled explicitly, used when the case carries a validator-set history)
func modelEntry(history bool, entry string) string {
	switch {
	case entry == "side":
		return "side"
	case history:
		return "chain"
	}
	return "seal"
}

// chainFor builds the stub chain a header needs for the VerifySeal / VerifyHeader(s) entries. withParent also
// installs the parent at number-1 (needed by verifyCascadingFields); ok = false when that slot is a look-back header.
func chainFor(x *concrete, withParent bool) (ch *stubChain, ok bool) {
	var certRd state.ValidatorReader
	if x.certLb != nil {
		certRd = x.certLb
	}
	n := x.hdr.Number.Uint64()
	ch = &stubChain{yp: &params.YouParams{Version: 1, CaravelParams: x.cp}, headers: map[uint64]*types.Header{}, readers: map[common.Hash]state.ValidatorReader{}}
	back := func(k uint64) uint64 {
		if n > k {
			return n - k
		}
		return 0
	}
	put := func(num uint64, h *types.Header) {
		if _, ok := ch.headers[num]; !ok && h != nil {
			ch.headers[num] = h
		}
	}
	hs := protocolHeights(x.cp, n)
	_ = back
	// the chain holds ONE header per height; the reader of a header's ValRoot is the validator set committed there
	put(hs.seed, x.seedHeader)
	if x.stakeHeader != nil && hs.stake != hs.seed {
		put(hs.stake, x.stakeHeader)
		ch.readers[x.stakeHeader.ValRoot] = x.lb
		ch.readers[x.seedHeader.ValRoot] = x.lbDecoy
	} else {
		put(hs.stake, x.seedHeader)
		ch.readers[x.seedHeader.ValRoot] = x.lb
	}
	if x.certHeader != nil && certRd != nil {
		put(hs.certSeed, x.certHeader)
		if x.certStakeHeader != nil && hs.certStake != hs.certSeed {
			put(hs.certStake, x.certStakeHeader)
			ch.readers[x.certStakeHeader.ValRoot] = certRd
			ch.readers[x.certHeader.ValRoot] = x.certLbDecoy
		} else {
			put(hs.certStake, x.certHeader)
			ch.readers[x.certHeader.ValRoot] = certRd
		}
	}
	if withParent {
		if _, taken := ch.headers[n-1]; taken || n == 0 {
			return ch, false
		}
		ch.headers[n-1] = x.parent
	}
	return ch, true
}

// goVerifyOn judges a header on the given engine instance through one of the entry points:
// side = VerifySideChainHeader, seal = VerifySeal, header = VerifyHeader(seal=true), headers = VerifyHeaders([h]).
func goVerifyOn(srv *ucon.Server, x *concrete, entry string) (cls string) {
	defer func() {
		if r := recover(); r != nil {
			cls = "crash"
			if os.Getenv("C01_TRACE") != "" {
				fmt.Fprintf(os.Stderr, "panic: %v\n%s\n", r, debug.Stack())
			}
		}
	}()
	switch entry {
	case "seal":
		ch, _ := chainFor(x, false)
		return classify(srv.VerifySeal(ch, x.hdr))
	case "header":
		ch, _ := chainFor(x, true)
		return classify(srv.VerifyHeader(ch, x.hdr, true))
	case "headers":
		ch, _ := chainFor(x, true)
		abort, results := srv.VerifyHeaders(ch, []*types.Header{x.hdr}, []bool{true})
		err := <-results
		close(abort)
		return classify(err)
	}
	var certRd state.ValidatorReader
	if x.certLb != nil {
		certRd = x.certLb
	}
	blk := types.NewBlockWithHeader(x.hdr)
	par := types.NewBlockWithHeader(x.parent)
	return classify(srv.VerifySideChainHeader(&x.cp, x.seedHeader, x.lb, x.certHeader, certRd, blk, []*types.Block{par}))
}

func (c *caseT) concrete() *concrete {
	return &concrete{cp: c.cp, lb: c.lb, certLb: c.certLb, seedHeader: c.seedHeader, certHeader: c.certHeader, parent: c.parent, hdr: c.header, entry: c.entry,
		stakeHeader: c.stakeHeader, certStakeHeader: c.certStakeHeader, lbDecoy: c.lbDecoy, certLbDecoy: c.certLbDecoy}
}

// fillChoose makes sure the table holds every choose() value the model can ask for.
func (c *caseT) fillChoose(t *truth) {
	add := func(u []voteTruth, lb *lookBack, thrs []uint64, blsOn bool) {
		if lb == nil {
			return
		}
		list := lb.sorted.List()
		for _, v := range u {
			if v.proof.garbage {
				continue
			}
			var stakes []uint64
			if blsOn {
				if int(v.idx) < len(list) {
					stakes = append(stakes, list[v.idx].Stake.Uint64())
				}
			} else {
				for _, s := range lb.specs {
					stakes = append(stakes, s.stake)
				}
			}
			for _, st := range stakes {
				for _, th := range thrs {
					c.ct.get(v.proof.hash, st, th, lb.chamberTotal())
				}
			}
		}
	}
	add(t.ucVotes, c.lb, []uint64{c.cons.vT, c.cp.ValidatorThreshold}, c.cp.EnableBls)
	if c.isCertRound() {
		thrs := []uint64{c.certHdr.certT}
		if yp, ok := params.Versions[params.YouVersion(c.certHdr.version)]; ok {
			thrs = append(thrs, yp.CertValThreshold)
		}
		add(t.certVotes, c.certLb, thrs, true)
	}
	if !t.consProof.garbage {
		for _, s := range c.lb.specs {
			for _, th := range []uint64{c.cons.pT, c.cp.ProposerThreshold} {
				c.ct.get(t.consProof.hash, s.stake, th, c.lb.chamberTotal())
			}
		}
	}
}

func hexRLP(v interface{}) string {
	if h, ok := v.(*types.Header); ok && h == nil {
		return "-"
	}
	b, err := rlp.EncodeToBytes(v)
	if err != nil {
		return "-"
	}
	return hex.EncodeToString(b)
}

// replayBody renders the self-contained replay: concrete inputs (G lines) + the symbolic form (L lines).
func replayBody(c *caseT, lines []string) []string {
	out := []string{fmt.Sprintf("G cp %d %d %d %d %d %d", b2i(c.cp.EnableBls), c.cp.ProposerThreshold, c.cp.ValidatorThreshold, c.cp.CertValThreshold, c.cp.SeedLookBack, c.cp.StakeLookBack),
		"G entry " + c.entry}
	dump := func(which int, lb *lookBack) {
		if lb == nil {
			return
		}
		for _, s := range lb.specs {
			out = append(out, fmt.Sprintf("G val %d %d %d %d %d %x %x", which, s.role, b2i(s.online), s.stake, s.token, s.mainByts, s.blsByts))
		}
	}
	dump(0, c.lb)
	if c.isCertRound() {
		dump(1, c.certLb)
	}
	if c.stakeHeader != nil {
		dump(2, c.lbDecoy)
		out = append(out, "G stakehdr "+hexRLP(c.stakeHeader))
	}
	if c.certStakeHeader != nil {
		dump(3, c.certLbDecoy)
		out = append(out, "G certstakehdr "+hexRLP(c.certStakeHeader))
	}
	out = append(out, "G seedhdr "+hexRLP(c.seedHeader), "G certhdr "+hexRLP(c.certHeader), "G parent "+hexRLP(c.parent), "G header "+hexRLP(c.header))
	for _, l := range lines {
		out = append(out, "L "+l)
	}
	return out
}

func concreteFromReplay(body []string) (*concrete, []string, error) {
	x := &concrete{}
	var lines []string
	var specs [4][]*valSpec
	decHdr := func(s string) (*types.Header, error) {
		if s == "-" {
			return nil, nil
		}
		b, err := hex.DecodeString(s)
		if err != nil {
			return nil, err
		}
		h := new(types.Header)
		if err := rlp.DecodeBytes(b, h); err != nil {
			return nil, err
		}
		return h, nil
	}
	for _, l := range body {
		if strings.HasPrefix(l, "L ") {
			lines = append(lines, l[2:])
			continue
		}
		f := strings.Fields(l)
		if len(f) == 3 && f[0] == "S" {
			x.seq = append(x.seq, seqStep{i64(f[1]), f[2]})
			continue
		}
		if len(f) < 2 || f[0] != "G" {
			continue
		}
		var err error
		switch f[1] {
		case "cp":
			x.cp = params.CaravelParams{EnableBls: f[2] == "1", ProposerThreshold: u64(f[3]), ValidatorThreshold: u64(f[4]), CertValThreshold: u64(f[5]), SeedLookBack: u64(f[6]), StakeLookBack: u64(f[7])}
		case "entry":
			x.entry = f[2]
		case "val":
			w := i64(f[2])
			mb, _ := hex.DecodeString(f[7])
			bb, _ := hex.DecodeString(f[8])
			specs[w] = append(specs[w], &valSpec{role: params.ValidatorRole(u64(f[3])), online: f[4] == "1", stake: u64(f[5]), token: u64(f[6]),
				key: &keyPair{mainPK: mb, blsPK: bb}})
		case "seedhdr":
			x.seedHeader, err = decHdr(f[2])
		case "certhdr":
			x.certHeader, err = decHdr(f[2])
		case "parent":
			x.parent, err = decHdr(f[2])
		case "header":
			x.hdr, err = decHdr(f[2])
		case "header0":
			x.hdr0, err = decHdr(f[2])
		case "stakehdr":
			x.stakeHeader, err = decHdr(f[2])
		case "certstakehdr":
			x.certStakeHeader, err = decHdr(f[2])
		}
		if err != nil {
			return nil, nil, err
		}
	}
	if x.hdr == nil || x.parent == nil || x.seedHeader == nil {
		return nil, nil, fmt.Errorf("replay file lacks header/parent/seed header")
	}
	x.lb = buildLookBack(specs[0])
	if len(specs[1]) > 0 {
		x.certLb = buildLookBack(specs[1])
	}
	if len(specs[2]) > 0 {
		x.lbDecoy = buildLookBack(specs[2])
	}
	if len(specs[3]) > 0 {
		x.certLbDecoy = buildLookBack(specs[3])
	}
	return x, lines, nil
}

// known-finding matchers over a (shrunk) failing symbolic input
func matcherOf(s *sym, tag string) string {
	switch tag {
	case "quorum-declared-threshold", "proposer-threshold":
		if s.dvT != s.vT || s.dpT != s.pT {
			return "declared-threshold"
		}
	}
	return ""
}

type runner struct {
	c    *vh.Ctx
	drv  *vh.Driver
	derr error
	nrep int
}

func (rn *runner) ask(lines []string) string {
	if rn.drv == nil {
		return ""
	}
	last := ""
	for _, l := range lines {
		s, e := rn.drv.Ask(l)
		if e != nil {
			rn.derr = e
			return ""
		}
		last = s
	}
	return last
}

func coarse(s string) string {
	f := strings.Fields(s)
	if len(f) >= 2 && f[0] == "err" {
		return f[0] + " " + f[1]
	}
	if len(f) >= 1 {
		return f[0]
	}
	return "?"
}

// evaluate runs one realised case through Go, Lean and the oracle. expectOK: the case is an honest one.
func (rn *runner) evaluate(c *caseT, t *truth, honest bool) ([]string, string) {
	res := rn.c.Res
	c.fillChoose(t)
	lines := append(caseLines(c, t), c.ct.lines()...)
	lines = append(lines, "RUN "+modelEntry(c.history, c.entry))
	gcls := goVerify(c.concrete())
	s := parseSym(lines)
	name := strings.Join(c.muts, "+")
	if name == "" {
		name = "honest"
	}
	res.Dist("go:" + gcls)
	fail := func(kind, matcher, what string) {
		rn.nrep++
		rp := vh.WriteReplay(rn.c.ReplayDir, "C01", fmt.Sprintf("%s-%d", kind, rn.nrep), rn.c.Seed,
			[]string{kind + ": " + what, "case: " + name, "go: " + gcls}, replayBody(c, lines))
		res.Fail(kind, matcher, what+" [case "+name+"]", rp)
	}
	if rn.drv != nil {
		m := rn.ask(lines)
		res.TracesVsImpl++
		if coarse(m) != gcls {
			fail("correspondence", "", "real verifier says "+gcls+", model says "+m)
		}
		if f := strings.Fields(m); len(f) >= 3 {
			res.Dist("model-reason:" + f[2])
		}
	}
	if what, tag := oracle(s, gcls); what != "" {
		fail("oracle", matcherOf(s, tag), what)
		res.Dist("oracle:" + tag)
	}
	if honest && gcls != "ok" {
		fail("oracle", "", "an honestly built header is rejected: "+gcls)
	}
	// non-triviality: >= 2 distinct signers and a mutation applied, or honest
	signers := map[uint32]bool{}
	for _, v := range t.ucVotes {
		signers[v.idx] = true
	}
	nontrivial := (len(c.muts) > 0 && (len(signers) >= 2 || len(c.lb.specs) >= 2)) || honest
	canon := strings.Join(lines, "\n")
	res.Count(canon, nontrivial)
	if len(res.Samples) < 4 && (honest || len(res.Samples) > 0) {
		res.Sample(map[string]interface{}{"case": name, "validators": len(c.lb.specs), "votes": len(t.ucVotes), "go": gcls, "lines": lines[:min(len(lines), 14)]})
	}
	return lines, gcls
}

// ---- stateful verifier stream ------------------------------------------------------------------------------
// The ucon header hash omits Validator / Certificate / Signature, so every vote, aggregate, certificate and seal
// mutation of an honest header H is a TWIN H' with the same hash. One engine instance verifies H and its twins in
// both orders through all entry points; the verdict on any header must not depend on what the engine verified
// before: it is compared with the verdict of a fresh engine (and through that with the model), and an accepted
// twin is judged by the property oracle. H itself is verified repeatedly (idempotence).

type twinT struct {
	c     *caseT
	x     *concrete
	lines []string
	name  string
}

var allEntries = []string{"side", "seal", "header", "headers"}

func usableEntry(x *concrete, e string) string {
	if e == "header" || e == "headers" {
		if _, ok := chainFor(x, true); !ok {
			return "seal"
		}
	}
	return e
}

type seqStep struct {
	which int // 0 = H, 1 = the twin
	entry string
}

// runSeq verifies the steps on ONE engine and returns, per step, the verdict there and on a fresh engine.
func runSeq(h, t *concrete, steps []seqStep) (got, fresh []string) {
	srv := newServer()
	memo := map[string]string{}
	for _, st := range steps {
		x := h
		if st.which == 1 {
			x = t
		}
		got = append(got, goVerifyOn(srv, x, st.entry))
		k := fmt.Sprintf("%d %s", st.which, st.entry)
		if _, ok := memo[k]; !ok {
			memo[k] = goVerifyOn(newServer(), x, st.entry)
		}
		fresh = append(fresh, memo[k])
	}
	return
}

func seqText(steps []seqStep, got, fresh []string) string {
	var parts []string
	for i, st := range steps {
		n := "H"
		if st.which == 1 {
			n = "twin"
		}
		parts = append(parts, fmt.Sprintf("%s via %s -> %s (fresh engine: %s)", n, st.entry, got[i], fresh[i]))
	}
	return strings.Join(parts, "; ")
}

func (rn *runner) stateful(h *twinT, tw *twinT, idem bool) {
	res := rn.c.Res
	r := rn.c.R
	pick := func(x *concrete) string { return usableEntry(x, allEntries[r.Intn(len(allEntries))]) }
	var seqs [][]seqStep
	if tw != nil {
		seqs = append(seqs,
			[]seqStep{{0, pick(h.x)}, {1, pick(tw.x)}},                   // H, then the twin
			[]seqStep{{1, pick(tw.x)}, {0, pick(h.x)}, {1, pick(tw.x)}}) // twin, H, twin again
	}
	if idem {
		seqs = append(seqs, []seqStep{{0, pick(h.x)}, {0, pick(h.x)}, {0, pick(h.x)}})
	}
	for _, steps := range seqs {
		t := h
		if tw != nil {
			t = tw
		}
		got, fresh := runSeq(h.x, t.x, steps)
		res.Dist("stateful-sequence")
		res.TracesVsImpl++
		res.Count(fmt.Sprintf("seq %v %s", steps, strings.Join(t.lines, "\n")), true)
		bad := -1
		for i := range steps {
			if got[i] != fresh[i] {
				bad = i
				break
			}
		}
		// the model's verdict for the last step (entries header/headers = seal + cascading checks that these inputs pass)
		last := steps[len(steps)-1]
		if rn.drv != nil && bad < 0 {
			x := h
			if last.which == 1 {
				x = t
			}
			hist := false
			for _, l := range x.lines {
				if strings.HasPrefix(l, "LBCFG ") {
					hist = true
				}
			}
			me := modelEntry(hist, last.entry)
			ls := append(append([]string{}, x.lines[:len(x.lines)-1]...), "RUN "+me)
			if m := rn.ask(ls); coarse(m) != got[len(got)-1] {
				bad = len(steps) - 1
				fresh[bad] = "model: " + m
			}
		}
		if bad < 0 {
			continue
		}
		what := "the verdict on a header depends on what the engine verified before: " + seqText(steps, got, fresh)
		x := h
		if steps[bad].which == 1 {
			x = t
		}
		if w, _ := oracle(parseSym(x.lines), got[bad]); w != "" {
			what += "; " + w
		}
		rn.nrep++
		body := replayBody(t.c, t.lines)
		body = append(body, "G header0 "+hexRLP(h.x.hdr))
		for _, st := range steps {
			body = append(body, fmt.Sprintf("S %d %s", st.which, st.entry))
		}
		rp := vh.WriteReplay(rn.c.ReplayDir, "C01", fmt.Sprintf("stateful-%d", rn.nrep), rn.c.Seed,
			[]string{"oracle: " + what, "case: honest header H, then twin " + t.name + " (same header hash)"}, body)
		res.Fail("oracle", "", what+" [twin "+t.name+"]", rp)
		res.Dist("oracle:engine-history")
	}
}

// ---- long-lived engine over evolving validator sets ----------------------------------------------------------------
// Verification is a pure function of (header, look-back data): what ONE long-lived engine verified under an earlier
// validator set must not matter for a later header. Here a main address is RE-REGISTERED with another BLS key
// (withdrawn completely and created again — the only way to replace a BLS key): on one engine, in an order drawn from
// the seed, a header under the old registration, an honest header under the new registration (signed with the new
// keys: must be accepted) and a forged header under the new registration whose re-registered voters' signatures are
// made with their OLD keys (must be rejected). Every verdict is compared with the fresh engine's (which evaluate()
// has compared with the model and judged with the oracle).

func reRegister(r *vh.RNG, w *world) (*world, int) {
	d := &world{keys: w.keys, outsider: w.outsider}
	for _, s := range w.specs {
		c := *s
		d.specs = append(d.specs, &c)
	}
	// re-register the heaviest online chamber members (their votes decide the quorum), sometimes one more
	var cand []*valSpec
	for _, s := range d.specs {
		if s.online && s.kind() == int(params.KindChamber) && !s.badBls && !s.badMain {
			cand = append(cand, s)
		}
	}
	sort.SliceStable(cand, func(a, b int) bool { return cand[a].stake > cand[b].stake })
	n := 0
	for i, s := range cand {
		if i < 2 || r.Chance(20) {
			s.blsKey = newKey(r, s.key.id+1000)
			n++
		}
	}
	return d, n
}

type llCase struct {
	c     *caseT
	x     *concrete
	lines []string
	fresh string
	name  string
}

func (rn *runner) longLived(w *world, cp params.CaravelParams) {
	res := rn.c.Res
	r := rn.c.R
	wR, n := reRegister(r, w)
	if n == 0 {
		return
	}
	n1 := uint64(r.Range(1, 3000))
	h1 := honestCase(r, w, cp, n1)
	h2 := honestCase(r, wR, cp, n1+uint64(r.Range(1, 1500)))
	if h1 == nil || h2 == nil {
		return
	}
	f := h2.clone()
	forged := 0
	for k := range f.uc.atoms {
		for _, s := range wR.specs {
			if s.blsKey != nil && f.uc.atoms[k].key == s.blsKey {
				f.uc.atoms[k].key = s.key // the OLD BLS key signs
				forged++
			}
		}
	}
	if forged == 0 {
		return
	}
	h1.muts = []string{"old-registration"}
	h2.muts = []string{"re-registered-bls-key"}
	f.muts = []string{"re-registered-voter-signs-with-old-bls-key"}
	var cs []*llCase
	for _, c := range []*caseT{h1, h2, f} {
		c.entry = "side"
		t := c.realise(r)
		lines, fresh := rn.evaluate(c, t, false)
		cs = append(cs, &llCase{c: c, x: c.concrete(), lines: lines, fresh: fresh, name: c.muts[0]})
	}
	res.Dist("class:re-registration")
	orders := [][]int{{0, 2, 1}}
	perm := []int{0, 1, 2}
	for i := 2; i > 0; i-- {
		j := r.Intn(i + 1)
		perm[i], perm[j] = perm[j], perm[i]
	}
	orders = append(orders, perm, []int{0, 1, 2, 0, 2})
	for _, ord := range orders {
		srv := newServer()
		var steps []string
		var got, want []string
		bad := -1
		for i, k := range ord {
			e := usableEntry(cs[k].x, allEntries[r.Intn(len(allEntries))])
			g := goVerifyOn(srv, cs[k].x, e)
			fr := cs[k].fresh
			if e != "side" {
				fr = goVerifyOn(newServer(), cs[k].x, e)
			}
			steps = append(steps, fmt.Sprintf("%d %s", k, e))
			got, want = append(got, g), append(want, fr)
			if g != fr && bad < 0 {
				bad = i
			}
		}
		res.Dist("long-lived-sequence")
		res.TracesVsImpl++
		res.Count(fmt.Sprintf("ll %v %s", steps, strings.Join(cs[2].lines, "\n")), true)
		if bad < 0 {
			continue
		}
		var parts []string
		for i, k := range ord {
			parts = append(parts, fmt.Sprintf("%s -> %s (fresh engine: %s)", cs[k].name, got[i], want[i]))
		}
		what := "one long-lived engine, validator set re-registered in between: the verdict depends on what the engine verified before: " + strings.Join(parts, "; ")
		if w, _ := oracle(parseSym(cs[ord[bad]].lines), got[bad]); w != "" {
			what += "; " + w
		}
		var body []string
		for k, c := range cs {
			for _, l := range replayBody(c.c, c.lines) {
				body = append(body, fmt.Sprintf("C%d %s", k, l))
			}
		}
		for _, st := range steps {
			body = append(body, "Q "+st)
		}
		rn.nrep++
		rp := vh.WriteReplay(rn.c.ReplayDir, "C01", fmt.Sprintf("longlived-%d", rn.nrep), rn.c.Seed, []string{"oracle: " + what}, body)
		res.Fail("oracle", "", what, rp)
		res.Dist("oracle:engine-history")
	}
}

// replayLongLived re-runs a multi-header sequence (C<k> sections + Q steps) on one engine.
func replayLongLived(body []string) (bool, string, bool) {
	secs := map[int][]string{}
	var steps [][2]string
	for _, l := range body {
		f := strings.SplitN(l, " ", 2)
		if len(f) == 2 && len(f[0]) >= 2 && f[0][0] == 'C' {
			if k, err := strconv.Atoi(f[0][1:]); err == nil {
				secs[k] = append(secs[k], f[1])
				continue
			}
		}
		if g := strings.Fields(l); len(g) == 3 && g[0] == "Q" {
			steps = append(steps, [2]string{g[1], g[2]})
		}
	}
	if len(secs) == 0 || len(steps) == 0 {
		return false, "", false
	}
	xs := map[int]*concrete{}
	for k, b := range secs {
		x, _, err := concreteFromReplay(b)
		if err != nil {
			return false, "unreadable section: " + err.Error(), true
		}
		xs[k] = x
	}
	srv := newServer()
	fails := false
	var parts []string
	for _, st := range steps {
		k, _ := strconv.Atoi(st[0])
		x := xs[k]
		if x == nil {
			continue
		}
		g := goVerifyOn(srv, x, st[1])
		fr := goVerifyOn(newServer(), x, st[1])
		if g != fr {
			fails = true
		}
		parts = append(parts, fmt.Sprintf("header %d via %s -> %s (fresh engine: %s)", k, st[1], g, fr))
	}
	if fails {
		return true, "the verdict depends on what the long-lived engine verified before: " + strings.Join(parts, "; "), true
	}
	return false, "engine history does not matter: " + strings.Join(parts, "; "), true
}

func min(a, b int) int {
	if a < b {
		return a
	}
	return b
}

func protoCP(r *vh.RNG) params.CaravelParams {
	cp := params.Versions[params.YouV1].CaravelParams
	switch r.Intn(6) {
	case 0:
		cp.ValidatorThreshold = uint64(r.Range(50, 1500))
	case 1:
		cp.ValidatorThreshold = uint64(r.Range(2001, 6000))
	}
	if r.Chance(20) {
		cp.ProposerThreshold = uint64(r.Range(5, 120))
	}
	if r.Chance(12) {
		cp.EnableBls = false
	}
	return cp
}

func run(c *vh.Ctx) error {
	setup(c.Seed)
	if pf := os.Getenv("C01_PROF"); pf != "" {
		if f, err := os.Create(pf); err == nil {
			pprof.StartCPUProfile(f)
			defer pprof.StopCPUProfile()
		}
	}
	res := c.Res
	res.Rule = "case = look-back validator set (real secp256k1/VRF/BLS keys) + crafted header + packed vote multiset + aggregate signature; non-trivial when the set has >= 2 members and at least one typed mutation is applied, or the header is an honest one (including weight-near-quorum variants); distinct by the canonical symbolic text"
	rn := &runner{c: c}
	if c.Driver != "" {
		d, err := vh.StartDriver(c.Driver)
		if err != nil {
			return err
		}
		rn.drv = d
		defer d.Close()
	}
	// protocol table for the model (certificate look-back version lookups)
	var vers []int
	for k := range params.Versions {
		vers = append(vers, int(k))
	}
	sort.Ints(vers)
	var vl []string
	for _, k := range vers {
		p := params.Versions[params.YouVersion(k)]
		vl = append(vl, fmt.Sprintf("VER %d %d %d %d %d", k, b2i(p.EnableBls), p.ProposerThreshold, p.ValidatorThreshold, p.CertValThreshold))
	}
	rn.ask(vl)

	// ---- corpus first ----------------------------------------------------------------------------------
	for _, f := range vh.CorpusFiles("C01") {
		body, comments, e := vh.ReadReplay(f)
		if e != nil {
			continue
		}
		still, what := replayWith(rn, body, comments)
		res.Dist("corpus")
		if still {
			res.Fail("corpus", "", "corpus witness fails again: "+f+": "+what, f)
		}
	}

	// ---- OverThreshold correspondence (exact float model) -----------------------------------------------
	nOT := c.N(4000, 60000)
	for i := 0; i < nOT && rn.derr == nil; i++ {
		var T uint64
		switch c.R.Intn(6) {
		case 0:
			T = uint64(c.R.Intn(5000))
		case 1:
			T = uint64(c.R.Intn(1 << 20))
		case 2:
			T = c.R.U64() >> uint(c.R.Intn(40)+12)
		case 3:
			T = (uint64(1) << uint(c.R.Intn(52))) + uint64(c.R.Intn(3)) - 1
		case 4:
			T = uint64(6270030943) + uint64(c.R.Intn(9)) - 4
		default:
			T = uint64(c.R.Intn(200000))
		}
		pos := c.R.Bool()
		q := quorumOf(T, pos)
		var cnt uint32
		switch c.R.Intn(4) {
		case 0:
			cnt = uint32(q)
		case 1:
			cnt = uint32(q) - 1
		case 2:
			cnt = uint32(q) + 1
		default:
			cnt = uint32(c.R.U64())
		}
		g := ucon.OverThreshold(cnt, T, pos)
		if rn.drv != nil {
			m := rn.ask([]string{fmt.Sprintf("OT %d %d %d", cnt, T, b2i(pos))})
			res.TracesVsImpl++
			if m != fmt.Sprint(b2i(g)) {
				rp := vh.WriteReplay(c.ReplayDir, "C01", fmt.Sprintf("overthreshold-%d", i), c.Seed, []string{"correspondence: OverThreshold differs from the exact float model", fmt.Sprintf("go: %v lean: %s", g, m)},
					[]string{fmt.Sprintf("L OT %d %d %d", cnt, T, b2i(pos))})
				res.Fail("correspondence", "", fmt.Sprintf("OverThreshold(%d,%d,%v): go=%v model=%s", cnt, T, pos, g, m), rp)
			}
		}
		res.Count(fmt.Sprintf("OT %d %d %v", cnt, T, pos), cnt+1 >= uint32(q) && cnt <= uint32(q)+1)
		res.Dist("overthreshold")
	}

	// deterministic sweep: multiples of 200 (where 0.685*T and 0.585*T are integers and float rounding decides)
	for T := uint64(0); T <= uint64(c.N(40000, 400000)) && rn.derr == nil; T += 200 {
		for _, pos := range []bool{true, false} {
			q := uint32(quorumOf(T, pos))
			for _, cnt := range []uint32{q, q - 1} {
				g := ucon.OverThreshold(cnt, T, pos)
				if rn.drv != nil {
					m := rn.ask([]string{fmt.Sprintf("OT %d %d %d", cnt, T, b2i(pos))})
					res.TracesVsImpl++
					if m != fmt.Sprint(b2i(g)) {
						rp := vh.WriteReplay(c.ReplayDir, "C01", fmt.Sprintf("overthreshold-sweep-%d", T), c.Seed, []string{"correspondence: OverThreshold differs from the exact float model", fmt.Sprintf("go: %v lean: %s", g, m)},
							[]string{fmt.Sprintf("L OT %d %d %d", cnt, T, b2i(pos))})
						res.Fail("correspondence", "", fmt.Sprintf("OverThreshold(%d,%d,%v): go=%v model=%s", cnt, T, pos, g, m), rp)
					}
				}
				res.Count(fmt.Sprintf("OT %d %d %v", cnt, T, pos), true)
				res.Dist("overthreshold-sweep")
			}
		}
	}

	// ---- headers ----------------------------------------------------------------------------------------
	nWorlds := c.N(34, 220)
	if c.Search {
		nWorlds *= 2
	}
	perWorld := 3
	mutsPer := c.N(26, 40)
	packChecked := 0
	for wi := 0; wi < nWorlds && rn.derr == nil; wi++ {
		n := c.R.Range(1, 12)
		if c.Thorough() && c.R.Chance(10) {
			n = c.R.Range(13, 40)
		}
		clean := c.R.Chance(25)
		w := genWorld(c.R, n, clean)
		if !clean && c.R.Chance(20) {
			w.specs[c.R.Intn(n)].badBls = true
		}
		if !clean && c.R.Chance(20) {
			w.specs[c.R.Intn(n)].badMain = true
		}
		res.Dist(fmt.Sprintf("set-size-%02d", n))
		if c.R.Chance(70) {
			rn.longLived(w, protoCP(c.R))
		}
		for hi := 0; hi < perWorld && rn.derr == nil; hi++ {
			cp := protoCP(c.R)
			number := uint64(c.R.Range(1, 5000))
			if c.R.Chance(18) {
				number = params.ACoCHTFrequency * uint64(c.R.Range(1, 4))
			}
			h := honestCase(c.R, w, cp, number)
			if h == nil {
				res.Dist("no-proposer-selected")
				continue
			}
			if c.R.Chance(30) {
				h.entry = "seal"
			}
			// validator-set history: the chain holds another validator set (and another seed) at the other look-back height
			var wD *world
			if c.R.Chance(45) {
				wD = decoyWorld(c.R, w)
				h.history, h.lbDecoy, h.decoySeed = true, buildLookBack(wD.specs), randHash(c.R)
				if h.isCertRound() {
					h.certLbDecoy = buildLookBack(decoyWorld(c.R, w).specs)
				}
				h.entry = []string{"seal", "header", "headers", "seal", "header", "side"}[c.R.Intn(6)]
				res.Dist("validator-set-history")
			}
			hc := h.clone()
			t := hc.realise(c.R)
			// is the honest vote weight a quorum at all? (small sets: sortition may select too few)
			sum := uint64(0)
			for _, v := range hc.uc.votes {
				sum += uint64(v.votes)
			}
			enough := sum >= quorumOf(cp.ValidatorThreshold, true)
			if hc.isCertRound() {
				cs := uint64(0)
				for _, v := range hc.cert.votes {
					cs += uint64(v.votes)
				}
				enough = enough && cs >= quorumOf(hc.certHdr.certT, false)
			}
			res.Dist(fmt.Sprintf("honest-quorum-%v", enough))
			if cp.EnableBls && packChecked < 6 {
				packChecked++
				if msg := packCheck(hc, t); msg != "" {
					res.Fail("crash", "", "harness packing differs from the engine's PackVotes: "+msg, "")
				}
			}
			hLines, hCls := rn.evaluate(hc, t, enough)
			var hTwin *twinT
			var twins []*twinT
			if hCls == "ok" {
				hTwin = &twinT{c: hc, x: hc.concrete(), lines: hLines, name: "honest"}
			}
			addTwin := func(m *caseT, lines []string) {
				if hTwin != nil && m.hash == hc.hash && !m.badParent && len(m.muts) > 0 {
					twins = append(twins, &twinT{c: m, x: m.concrete(), lines: lines, name: strings.Join(m.muts, "+")})
				}
			}
			if hc.isCertRound() {
				res.Dist("cert-round")
			}
			if wD != nil {
				// the attack the history is about: a header built honestly against the set at the SEED look-back height
				// (its proposer, its voters, their seats and indices); the protocol judges it against the stake-height set
				if a := honestCase(c.R, wD, cp, number); a != nil {
					a.history, a.lbDecoy, a.lb, a.decoySeed = true, a.lb, h.lb, randHash(c.R)
					if a.isCertRound() {
						a.certLbDecoy, a.certLb = a.certLb, h.certLb
					}
					a.entry = []string{"seal", "header", "headers"}[c.R.Intn(3)]
					a.muts = []string{"built-against-seed-height-set"}
					rn.evaluate(a, a.realise(c.R), false)
					res.Dist("class:look-back-height")
				}
			}
			if !cp.EnableBls {
				res.Dist("secp-branch")
			}
			// near-quorum honest variants: drop voters until the weight is just above / just below the quorum
			if enough && len(h.uc.votes) > 1 {
				nq := h.clone()
				nq.muts = []string{"near-quorum"}
				q := quorumOf(cp.ValidatorThreshold, true)
				for len(nq.uc.votes) > 0 {
					last := len(nq.uc.votes) - 1
					if sum-uint64(nq.uc.votes[last].votes) < q {
						break
					}
					sum -= uint64(nq.uc.votes[last].votes)
					dropVote(nq, &nq.uc, last)
				}
				nl, _ := rn.evaluate(nq, nq.realise(c.R), true)
				addTwin(nq, nl)
				if len(nq.uc.votes) > 0 {
					bq := nq.clone()
					bq.muts = []string{"below-quorum"}
					dropVote(bq, &bq.uc, len(bq.uc.votes)-1)
					bl, _ := rn.evaluate(bq, bq.realise(c.R), false)
					addTwin(bq, bl)
				}
				res.Dist("class:near-quorum")
			}
			// typed mutations
			for k := 0; k < mutsPer && rn.derr == nil; k++ {
				m := h.clone()
				nm := 1
				if c.R.Chance(15) {
					nm = 2
				}
				ok := true
				for a := 0; a < nm; a++ {
					mu := mutations[c.R.Intn(len(mutations))]
					if !mu.apply(m, w, c.R) {
						ok = false
						break
					}
					m.muts = append(m.muts, mu.name)
					res.Dist("class:" + mu.class)
				}
				if !ok {
					continue
				}
				ml, _ := rn.evaluate(m, m.realise(c.R), false)
				addTwin(m, ml)
			}
			// stateful stream: H and up to nTw same-hash twins on one engine, both orders, all entries; H repeatedly
			if hTwin != nil {
				res.DistN("same-hash-twins", len(twins))
				nTw := c.N(2, 4)
				for k := 0; k < nTw && len(twins) > 0; k++ {
					i := c.R.Intn(len(twins))
					rn.stateful(hTwin, twins[i], k == 0)
					twins = append(twins[:i], twins[i+1:]...)
				}
				if len(twins) == 0 {
					rn.stateful(hTwin, nil, true)
				}
			}
		}
	}
	if rn.derr != nil {
		return rn.derr
	}
	res.Partial = append(res.Partial,
		"cryptography is symbolic in the model (a VRF proof / signature is the term the harness really produced); soundness of secp256k1-VRF, ECDSA and BLS aggregation is assumed",
		"choose() (binomial quantile over gonum's CDF) is an uninterpreted function in the theorems; the driver reads its values from a table filled by the real function")
	return nil
}

func replayWith(rn *runner, body, comments []string) (bool, string) {
	if still, what, ok := replayLongLived(body); ok {
		return still, what
	}
	x, lines, err := concreteFromReplay(body)
	if err != nil {
		// OverThreshold-only replay
		for _, l := range body {
			f := strings.Fields(l)
			if len(f) == 5 && f[0] == "L" && f[1] == "OT" {
				g := ucon.OverThreshold(uint32(u64(f[2])), u64(f[3]), f[4] == "1")
				m := rn.ask([]string{strings.Join(f[1:], " ")})
				if rn.drv != nil && m != fmt.Sprint(b2i(g)) {
					return true, fmt.Sprintf("OverThreshold: go=%v model=%s", g, m)
				}
				return false, "OverThreshold agrees"
			}
		}
		return false, "unreadable replay: " + err.Error()
	}
	if len(x.seq) > 0 && x.hdr0 != nil {
		h := *x
		h.hdr = x.hdr0
		got, fresh := runSeq(&h, x, x.seq)
		for i := range got {
			if got[i] != fresh[i] {
				return true, "the verdict on a header depends on what the engine verified before: " + seqText(x.seq, got, fresh)
			}
		}
		return false, "engine history does not matter: " + seqText(x.seq, got, fresh)
	}
	gcls := goVerify(x)
	var msgs []string
	fails := false
	if rn.drv != nil && len(lines) > 0 {
		m := rn.ask(lines)
		if coarse(m) != gcls {
			fails = true
			msgs = append(msgs, "real verifier says "+gcls+", model says "+m)
		}
	}
	s := parseSym(lines)
	s.entry = x.entry
	if what, _ := oracle(s, gcls); what != "" {
		fails = true
		msgs = append(msgs, what)
	}
	for _, cm := range comments {
		if strings.HasPrefix(cm, "expect-go ") && strings.TrimPrefix(cm, "expect-go ") != gcls {
			fails = true
			msgs = append(msgs, "real verifier now says "+gcls+", the corpus file expects "+strings.TrimPrefix(cm, "expect-go "))
		}
	}
	if !fails {
		msgs = append(msgs, "real verifier: "+gcls+"; consistent with model and property")
	}
	return fails, strings.Join(msgs, "; ")
}

func replay(c *vh.Ctx, body, comments []string) (bool, string) {
	setup(c.Seed)
	rn := &runner{c: c}
	if c.Driver != "" {
		if d, err := vh.StartDriver(c.Driver); err == nil {
			rn.drv = d
			defer d.Close()
		}
	}
	_ = big.NewInt
	return replayWith(rn, body, comments)
}
