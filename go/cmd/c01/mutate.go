package main

// Typed mutations of an honest plan. Each returns false when it does not apply to the given case.

import (
	"math/big"

	"github.com/youchainhq/go-youchain/consensus/ucon"
	"github.com/youchainhq/go-youchain/params"

	"verifharness/internal/vh"
)

func (c *caseT) clone() *caseT {
	d := *c
	d.muts = append([]string{}, c.muts...)
	d.uc.votes = append([]votePlan{}, c.uc.votes...)
	d.uc.atoms = append([]atomPlan{}, c.uc.atoms...)
	d.cert.votes = append([]votePlan{}, c.cert.votes...)
	d.cert.atoms = append([]atomPlan{}, c.cert.atoms...)
	d.cons.round = new(big.Int).Set(c.cons.round)
	d.proofs = map[string]proofOut{}
	for k, v := range c.proofs {
		d.proofs[k] = v
	}
	d.header, d.parent, d.seedHeader, d.certHeader = nil, nil, nil, nil
	return &d
}

type mutation struct {
	name  string
	class string // for the distribution
	apply func(c *caseT, w *world, r *vh.RNG) bool
}

// which vote list a vote mutation targets: precommits, or (certificate rounds) sometimes the certificate votes
func target(c *caseT, r *vh.RNG) (*ucPlan, uint32, *lookBack) {
	if c.isCertRound() && r.Chance(40) {
		return &c.cert, stepCertificate, c.certLb
	}
	return &c.uc, stepPrecommit, c.lb
}

func (c *caseT) blsOn(p *ucPlan) bool { return p == &c.cert || c.cp.EnableBls }

// remove vote i together with its signature
func dropVote(c *caseT, p *ucPlan, i int) {
	if c.blsOn(p) {
		key := voteKey(c, p, i)
		for k, a := range p.atoms {
			if a.key == key && !a.other {
				p.atoms = append(p.atoms[:k:k], p.atoms[k+1:]...)
				break
			}
		}
	}
	p.votes = append(p.votes[:i:i], p.votes[i+1:]...)
}

func voteKey(c *caseT, p *ucPlan, i int) *keyPair { return p.votes[i].proof.key }

// build a genuine vote of spec s (whatever its kind/status), with the seats the real choose() gives it
func (c *caseT) voteOf(r *vh.RNG, lb *lookBack, si int, seed [32]byte, step uint32, ri uint32, thr uint64) (votePlan, atomPlan, int64) {
	s := lb.specs[si]
	pp := proofPlan{key: s.key, seed: seed, role: step, index: ri}
	_, pt := c.evalProof(pp, r)
	j := c.ct.get(pt.hash, s.stake, thr, lb.chamberTotal())
	return votePlan{idx: uint32(lb.indexOf(si)), votes: uint32(j), proof: pp}, atomPlan{key: s.key, round: c.cons.round, index: ri}, j
}

func (c *caseT) addVote(p *ucPlan, v votePlan, a atomPlan) {
	if c.blsOn(p) {
		p.atoms = append(p.atoms, a)
	} else {
		v.hasSig, v.sig = true, a
	}
	p.votes = append(p.votes, v)
}

func seedOf(c *caseT, p *ucPlan) [32]byte {
	if p == &c.cert {
		return c.certHdr.seed
	}
	return c.seedHdr.seed
}
func thrOf(c *caseT, p *ucPlan) uint64 {
	if p == &c.cert {
		return c.certHdr.certT
	}
	return c.cons.vT
}

// re-derive the proposer credential for the declared proposer threshold (an adversarial proposer signs whatever he likes)
func (c *caseT) reproposer(r *vh.RNG, s *valSpec, thr uint64) {
	pp := proofPlan{key: s.key, seed: c.seedHdr.seed, role: stepProposal, index: c.cons.roundIndex}
	_, pt := c.evalProof(pp, r)
	j := c.ct.get(pt.hash, s.stake, thr, c.lb.chamberTotal())
	c.cons.signer, c.cons.proof, c.cons.subUsers = s.key, pp, uint32(j)
	c.cons.priority = ucon.VerifComputePriority(pt.hash, big.NewInt(j))
}

var mutations = []mutation{
	{"drop-one", "drop", func(c *caseT, w *world, r *vh.RNG) bool {
		p, _, _ := target(c, r)
		if len(p.votes) == 0 {
			return false
		}
		dropVote(c, p, r.Intn(len(p.votes)))
		return true
	}},
	{"drop-many", "drop", func(c *caseT, w *world, r *vh.RNG) bool {
		p, _, _ := target(c, r)
		if len(p.votes) < 2 {
			return false
		}
		k := r.Range(1, len(p.votes))
		for i := 0; i < k; i++ {
			dropVote(c, p, r.Intn(len(p.votes)))
		}
		return true
	}},
	{"drop-all", "drop", func(c *caseT, w *world, r *vh.RNG) bool {
		p, _, _ := target(c, r)
		p.votes, p.atoms = nil, nil
		return true
	}},
	{"drop-vote-keep-sig", "drop", func(c *caseT, w *world, r *vh.RNG) bool {
		p, _, _ := target(c, r)
		if len(p.votes) == 0 || !c.blsOn(p) {
			return false
		}
		i := r.Intn(len(p.votes))
		p.votes = append(p.votes[:i:i], p.votes[i+1:]...)
		return true
	}},
	{"dup-vote", "duplicate", func(c *caseT, w *world, r *vh.RNG) bool {
		p, _, _ := target(c, r)
		if len(p.votes) == 0 {
			return false
		}
		i := r.Intn(len(p.votes))
		n := r.Range(1, 3)
		for k := 0; k < n; k++ {
			p.votes = append(p.votes, p.votes[i])
		}
		return true
	}},
	{"dup-vote-and-sig", "duplicate", func(c *caseT, w *world, r *vh.RNG) bool {
		p, _, _ := target(c, r)
		if len(p.votes) == 0 || !c.blsOn(p) {
			return false
		}
		i := r.Intn(len(p.votes))
		p.votes = append(p.votes, p.votes[i])
		p.atoms = append(p.atoms, atomPlan{key: voteKey(c, p, i), round: c.cons.round, index: p.roundIndex})
		return true
	}},
	{"dup-to-reach-quorum", "duplicate", func(c *caseT, w *world, r *vh.RNG) bool {
		// keep one voter only, repeated many times: weight must not add up
		p, _, _ := target(c, r)
		if len(p.votes) < 2 {
			return false
		}
		keep := r.Intn(len(p.votes))
		for len(p.votes) > 1 {
			i := 0
			if i == keep {
				i = 1
			}
			dropVote(c, p, i)
			if i < keep {
				keep--
			}
		}
		for k := 0; k < 12; k++ {
			p.votes = append(p.votes, p.votes[0])
		}
		return true
	}},
	{"dup-with-sigs-to-reach-quorum", "duplicate", func(c *caseT, w *world, r *vh.RNG) bool {
		// one voter only, vote AND signature repeated until the repeated weight would exceed the quorum
		p, _, _ := target(c, r)
		if len(p.votes) < 2 || !c.blsOn(p) {
			return false
		}
		for len(p.votes) > 1 {
			dropVote(c, p, 1)
		}
		if len(p.atoms) != 1 || p.votes[0].votes == 0 {
			return false
		}
		need := int(quorumOf(thrOf(c, p), p != &c.cert)/uint64(p.votes[0].votes)) + 1
		if need > 60 {
			need = 60
		}
		for k := 0; k < need; k++ {
			p.votes = append(p.votes, p.votes[0])
			p.atoms = append(p.atoms, p.atoms[0])
		}
		return true
	}},
	{"replay-other-block", "replay", func(c *caseT, w *world, r *vh.RNG) bool {
		// signatures were really made by the voters, but for another block hash (same round, index)
		p, _, _ := target(c, r)
		if len(p.votes) == 0 {
			return false
		}
		oh := randHash(r)
		all := r.Bool()
		pick := r.Intn(len(p.votes))
		if c.blsOn(p) {
			for k := range p.atoms {
				if all || p.atoms[k].key == voteKey(c, p, pick) {
					p.atoms[k].other, p.atoms[k].hash = true, oh
				}
			}
		} else {
			for k := range p.votes {
				if all || k == pick {
					p.votes[k].sig.other, p.votes[k].sig.hash = true, oh
				}
			}
		}
		return true
	}},
	{"replay-other-round", "replay", func(c *caseT, w *world, r *vh.RNG) bool {
		p, _, _ := target(c, r)
		if len(p.votes) == 0 {
			return false
		}
		or := new(big.Int).Add(c.cons.round, big.NewInt(int64(r.Range(1, 3))))
		if c.blsOn(p) {
			for k := range p.atoms {
				p.atoms[k].round = or
			}
		} else {
			for k := range p.votes {
				p.votes[k].sig.round = or
			}
		}
		return true
	}},
	{"sig-other-index", "wrong-index", func(c *caseT, w *world, r *vh.RNG) bool {
		p, _, _ := target(c, r)
		if len(p.votes) == 0 {
			return false
		}
		if c.blsOn(p) {
			if len(p.atoms) == 0 {
				return false
			}
			k := r.Intn(len(p.atoms))
			p.atoms[k].index++
		} else {
			k := r.Intn(len(p.votes))
			p.votes[k].sig.index++
		}
		return true
	}},
	{"proof-other-index", "wrong-index", func(c *caseT, w *world, r *vh.RNG) bool {
		p, _, _ := target(c, r)
		if len(p.votes) == 0 {
			return false
		}
		all := r.Bool()
		pick := r.Intn(len(p.votes))
		for k := range p.votes {
			if all || k == pick {
				p.votes[k].proof.index += uint32(r.Range(1, 2))
			}
		}
		return true
	}},
	{"declared-index-shift", "wrong-index", func(c *caseT, w *world, r *vh.RNG) bool {
		// the packer declares another round index than the one the votes were cast in
		p, _, _ := target(c, r)
		p.roundIndex += uint32(r.Range(1, 2))
		return true
	}},
	{"votes-of-later-index", "honest-variant", func(c *caseT, w *world, r *vh.RNG) bool {
		// a block proposed at index i and committed by precommits of a later index: consistent, acceptable
		p := &c.uc
		ri := c.cons.roundIndex + uint32(r.Range(1, 2))
		*p = c.honestVotes(r, w, c.lb, c.seedHdr.seed, stepPrecommit, ri, c.cons.vT, c.cons.round, c.cp.EnableBls)
		return true
	}},
	{"proof-other-step", "wrong-step", func(c *caseT, w *world, r *vh.RNG) bool {
		p, step, _ := target(c, r)
		if len(p.votes) == 0 {
			return false
		}
		other := []uint32{stepPrevote, stepProposal, stepCertificate, stepPrecommit, uint32(ucon.NextIndex)}
		ns := other[r.Intn(len(other))]
		if ns == step {
			ns = stepPrevote
		}
		all := r.Chance(70)
		pick := r.Intn(len(p.votes))
		for k := range p.votes {
			if all || k == pick {
				p.votes[k].proof.role = ns
			}
		}
		return true
	}},
	{"proof-other-seed", "wrong-seed", func(c *caseT, w *world, r *vh.RNG) bool {
		p, _, _ := target(c, r)
		if len(p.votes) == 0 {
			return false
		}
		s := randHash(r)
		for k := range p.votes {
			p.votes[k].proof.seed = s
		}
		return true
	}},
	{"proof-of-other-key", "wrong-key", func(c *caseT, w *world, r *vh.RNG) bool {
		p, _, _ := target(c, r)
		if len(p.votes) == 0 {
			return false
		}
		k := r.Intn(len(p.votes))
		if r.Bool() || len(w.keys) < 2 {
			p.votes[k].proof.key = w.outsider
		} else {
			p.votes[k].proof.key = w.keys[r.Intn(len(w.keys))]
		}
		return true
	}},
	{"proof-garbage", "wrong-key", func(c *caseT, w *world, r *vh.RNG) bool {
		p, _, _ := target(c, r)
		if len(p.votes) == 0 {
			return false
		}
		p.votes[r.Intn(len(p.votes))].proof.garbage = true
		return true
	}},
	{"inflate-one", "inflate", func(c *caseT, w *world, r *vh.RNG) bool {
		p, _, _ := target(c, r)
		if len(p.votes) == 0 {
			return false
		}
		k := r.Intn(len(p.votes))
		switch r.Intn(4) {
		case 0:
			p.votes[k].votes++
		case 1:
			p.votes[k].votes += uint32(r.Range(2, 5000))
		case 2:
			p.votes[k].votes = ^uint32(0) - uint32(r.Intn(3))
		default:
			if p.votes[k].votes > 0 {
				p.votes[k].votes--
			}
		}
		return true
	}},
	{"inflate-all-drop-rest", "inflate", func(c *caseT, w *world, r *vh.RNG) bool {
		// a minority claims the seats of everybody
		p, _, _ := target(c, r)
		if len(p.votes) < 2 {
			return false
		}
		sum := uint32(0)
		for _, v := range p.votes {
			sum += v.votes
		}
		for len(p.votes) > 1 {
			dropVote(c, p, 1)
		}
		p.votes[0].votes = sum
		return true
	}},
	{"index-out-of-range", "non-member", func(c *caseT, w *world, r *vh.RNG) bool {
		p, _, lb := target(c, r)
		if len(p.votes) == 0 {
			return false
		}
		k := r.Intn(len(p.votes))
		switch r.Intn(3) {
		case 0:
			p.votes[k].idx = uint32(len(lb.specs))
		case 1:
			p.votes[k].idx = uint32(len(lb.specs) + r.Range(1, 1000))
		default:
			p.votes[k].idx = ^uint32(0)
		}
		return true
	}},
	{"index-of-other-member", "non-member", func(c *caseT, w *world, r *vh.RNG) bool {
		p, _, lb := target(c, r)
		if len(p.votes) == 0 || len(lb.specs) < 2 {
			return false
		}
		k := r.Intn(len(p.votes))
		p.votes[k].idx = (p.votes[k].idx + uint32(r.Range(1, len(lb.specs)-1))) % uint32(len(lb.specs))
		return true
	}},
	{"outsider-vote", "non-member", func(c *caseT, w *world, r *vh.RNG) bool {
		// a key outside the set votes under some member's index; its signature joins the aggregate
		p, step, lb := target(c, r)
		pp := proofPlan{key: w.outsider, seed: seedOf(c, p), role: step, index: p.roundIndex}
		v := votePlan{idx: uint32(r.Intn(len(lb.specs))), votes: uint32(r.Range(1, 3000)), proof: pp}
		c.addVote(p, v, atomPlan{key: w.outsider, round: c.cons.round, index: p.roundIndex})
		return true
	}},
	{"non-entitled-vote", "not-entitled", func(c *caseT, w *world, r *vh.RNG) bool {
		// an offline or non-chamber member of the look-back set votes with a genuine proof and genuine signature,
		// claiming exactly the seats the verifier's own computation gives it
		p, step, lb := target(c, r)
		var cand []int
		for i, s := range lb.specs {
			if (!s.online || s.kind() != int(params.KindChamber)) && !s.badMain && !s.badBls {
				cand = append(cand, i)
			}
		}
		if len(cand) == 0 {
			return false
		}
		si := cand[r.Intn(len(cand))]
		v, a, _ := c.voteOf(r, lb, si, seedOf(c, p), step, p.roundIndex, thrOf(c, p))
		c.addVote(p, v, a)
		return true
	}},
	{"only-non-entitled", "not-entitled", func(c *caseT, w *world, r *vh.RNG) bool {
		// every entitled vote dropped; the non-entitled members alone try to carry the block
		p, step, lb := target(c, r)
		var cand []int
		for i, s := range lb.specs {
			if (!s.online || s.kind() != int(params.KindChamber)) && !s.badMain && !s.badBls {
				cand = append(cand, i)
			}
		}
		if len(cand) == 0 {
			return false
		}
		p.votes, p.atoms = nil, nil
		for _, si := range cand {
			v, a, j := c.voteOf(r, lb, si, seedOf(c, p), step, p.roundIndex, thrOf(c, p))
			if j > 0 {
				c.addVote(p, v, a)
			}
		}
		return true
	}},
	{"agg-garbage", "aggregate", func(c *caseT, w *world, r *vh.RNG) bool {
		p, _, _ := target(c, r)
		if !c.blsOn(p) {
			return false
		}
		p.aggGarbage = true
		return true
	}},
	{"agg-missing-signer", "aggregate", func(c *caseT, w *world, r *vh.RNG) bool {
		p, _, _ := target(c, r)
		if !c.blsOn(p) || len(p.atoms) == 0 {
			return false
		}
		k := r.Intn(len(p.atoms))
		p.atoms = append(p.atoms[:k:k], p.atoms[k+1:]...)
		return true
	}},
	{"agg-extra-signer", "aggregate", func(c *caseT, w *world, r *vh.RNG) bool {
		p, _, _ := target(c, r)
		if !c.blsOn(p) {
			return false
		}
		k := w.outsider
		if r.Bool() {
			k = w.keys[r.Intn(len(w.keys))]
		}
		p.atoms = append(p.atoms, atomPlan{key: k, round: c.cons.round, index: p.roundIndex})
		return true
	}},
	{"agg-empty", "aggregate", func(c *caseT, w *world, r *vh.RNG) bool {
		p, _, _ := target(c, r)
		if !c.blsOn(p) {
			return false
		}
		p.atoms = nil
		return true
	}},
	{"agg-swapped-signer", "aggregate", func(c *caseT, w *world, r *vh.RNG) bool {
		// one voter's signature replaced by another key's signature over the same payload
		p, _, _ := target(c, r)
		if !c.blsOn(p) || len(p.atoms) == 0 {
			return false
		}
		p.atoms[r.Intn(len(p.atoms))].key = w.outsider
		return true
	}},
	{"uc-undecodable", "format", func(c *caseT, w *world, r *vh.RNG) bool {
		p, _, _ := target(c, r)
		p.undecodable = true
		return true
	}},
	{"cons-undecodable", "format", func(c *caseT, w *world, r *vh.RNG) bool {
		c.cons.undecoded = true
		return true
	}},
	{"seed-header-no-cons", "format", func(c *caseT, w *world, r *vh.RNG) bool {
		c.seedHdr.noCons = true
		return true
	}},
	{"cons-sig-garbage", "consensus-field", func(c *caseT, w *world, r *vh.RNG) bool {
		c.cons.sigMode = 2
		return true
	}},
	{"cons-tampered-after-signing", "consensus-field", func(c *caseT, w *world, r *vh.RNG) bool {
		c.cons.sigMode = 1
		return true
	}},
	{"cons-field-resigned", "consensus-field", func(c *caseT, w *world, r *vh.RNG) bool {
		// the proposer himself signs different consensus fields; voters vote for the resulting block
		switch r.Intn(7) {
		case 0:
			c.cons.round = new(big.Int).Add(c.cons.round, big.NewInt(int64(r.Range(1, 5))))
			for k := range c.uc.atoms { // voters sign the declared round
				c.uc.atoms[k].round = c.cons.round
			}
			for k := range c.uc.votes {
				c.uc.votes[k].sig.round = c.cons.round
			}
			for k := range c.cert.atoms {
				c.cert.atoms[k].round = c.cons.round
			}
		case 1:
			c.cons.roundIndex += uint32(r.Range(1, 3)) // proposer credential no longer matches
		case 2:
			c.cons.seed = randHash(r) // next seed: unconstrained by this verifier
		case 3:
			c.cons.priority = randHash(r)
		case 4:
			c.cons.subUsers += uint32(r.Range(1, 4))
		case 5:
			c.cons.proof.garbage = true
		default:
			c.cons.proof.role = stepPrecommit
		}
		return true
	}},
	{"proposer-proof-other-seed", "consensus-field", func(c *caseT, w *world, r *vh.RNG) bool {
		c.cons.proof.seed = randHash(r)
		return true
	}},
	{"proposer-outsider", "proposer", func(c *caseT, w *world, r *vh.RNG) bool {
		c.cons.signer = w.outsider
		c.cons.proof.key = w.outsider
		return true
	}},
	{"proposer-signer-differs-from-proof", "proposer", func(c *caseT, w *world, r *vh.RNG) bool {
		// another member signs the consensus data around the selected proposer's proof
		if len(w.keys) < 2 {
			return false
		}
		for k := 0; k < 8; k++ {
			o := w.keys[r.Intn(len(w.keys))]
			if o != c.cons.signer {
				c.cons.signer = o
				return true
			}
		}
		return false
	}},
	{"proposer-not-entitled", "proposer", func(c *caseT, w *world, r *vh.RNG) bool {
		// an offline or non-chamber member proposes with a genuine credential computed the way the verifier computes it
		var cand []*valSpec
		for _, s := range c.lb.specs {
			if (!s.online || s.kind() != int(params.KindChamber)) && !s.badMain {
				cand = append(cand, s)
			}
		}
		if len(cand) == 0 {
			return false
		}
		c.reproposer(r, cand[r.Intn(len(cand))], c.cons.pT)
		return true
	}},
	{"proposer-zero-seats", "proposer", func(c *caseT, w *world, r *vh.RNG) bool {
		// a member NOT selected by sortition proposes, declaring 0 sub-users and the matching priority
		for ri := c.cons.roundIndex; ri < c.cons.roundIndex+6; ri++ {
			for _, s := range c.lb.specs {
				if s.badMain {
					continue
				}
				pp := proofPlan{key: s.key, seed: c.seedHdr.seed, role: stepProposal, index: ri}
				_, pt := c.evalProof(pp, r)
				if c.ct.get(pt.hash, s.stake, c.cons.pT, c.lb.chamberTotal()) == 0 {
					old := c.cons.roundIndex
					c.cons.roundIndex = ri
					c.reproposer(r, s, c.cons.pT)
					if ri != old {
						c.uc = c.honestVotes(r, w, c.lb, c.seedHdr.seed, stepPrecommit, ri, c.cons.vT, c.cons.round, c.cp.EnableBls)
					}
					return true
				}
			}
		}
		return false
	}},
	{"declared-validator-threshold", "threshold", func(c *caseT, w *world, r *vh.RNG) bool {
		// the proposer declares his own committee size; the voters run sortition against the declared size
		switch r.Intn(7) {
		case 0:
			c.cons.vT = 1
		case 5:
			c.cons.vT = c.lb.chamberTotal().Uint64() + uint64(r.Range(1, 50)) // above the total stake
		case 6:
			c.cons.vT = uint64(1)<<uint(r.Range(33, 63)) + uint64(r.Intn(1000))
		case 1:
			c.cons.vT = uint64(r.Range(2, 40))
		case 2:
			c.cons.vT = c.cp.ValidatorThreshold / 2
		case 3:
			c.cons.vT = c.cp.ValidatorThreshold + uint64(r.Range(1, 3000))
		default:
			c.cons.vT = c.cp.ValidatorThreshold - 1
		}
		c.uc = c.honestVotes(r, w, c.lb, c.seedHdr.seed, stepPrecommit, c.cons.roundIndex, c.cons.vT, c.cons.round, c.cp.EnableBls)
		if r.Chance(60) && len(c.uc.votes) > 1 {
			// keep only as many voters as the declared size needs
			need := uint64(float64(c.cons.vT) * 0.685)
			sum := uint64(0)
			var kv []votePlan
			var ka []atomPlan
			for i, v := range c.uc.votes {
				if sum >= need {
					break
				}
				kv = append(kv, v)
				if c.cp.EnableBls {
					ka = append(ka, c.uc.atoms[i])
				}
				sum += uint64(v.votes)
			}
			c.uc.votes, c.uc.atoms = kv, ka
		}
		return true
	}},
	{"declared-threshold-one-no-votes", "threshold", func(c *caseT, w *world, r *vh.RNG) bool {
		// committee size 1 declared: quorum uint32(0.685) = 0, no vote at all, identity aggregate
		c.cons.vT = 1
		c.uc.votes, c.uc.atoms = nil, nil
		return true
	}},
	{"declared-proposer-threshold", "threshold", func(c *caseT, w *world, r *vh.RNG) bool {
		// a huge declared proposer committee turns every member into a proposer
		c.cons.pT = c.cp.ProposerThreshold * uint64(r.Range(2, 400))
		var cand []*valSpec
		for _, s := range c.lb.specs {
			if s.online && s.kind() == int(params.KindChamber) && !s.badMain {
				cand = append(cand, s)
			}
		}
		if len(cand) == 0 {
			return false
		}
		c.reproposer(r, cand[r.Intn(len(cand))], c.cons.pT)
		return true
	}},
	{"declared-cert-threshold", "threshold", func(c *caseT, w *world, r *vh.RNG) bool {
		c.cons.cT = uint64(r.Range(0, 10000))
		return true
	}},
	{"cert-header-declared-threshold", "threshold", func(c *caseT, w *world, r *vh.RNG) bool {
		if !c.isCertRound() {
			return false
		}
		if r.Bool() {
			c.certHdr.certT = 1
			c.cert.votes, c.cert.atoms = nil, nil
		} else {
			c.certHdr.certT = uint64(r.Range(2, 3000))
			c.cert = c.honestVotes(r, w, c.certLb, c.certHdr.seed, stepCertificate, c.cert.roundIndex, c.certHdr.certT, c.cons.round, true)
		}
		return true
	}},
	{"cert-header-version-unknown", "cert", func(c *caseT, w *world, r *vh.RNG) bool {
		if !c.isCertRound() {
			return false
		}
		c.certHdr.version = 77
		return true
	}},
	{"cert-header-no-cons", "cert", func(c *caseT, w *world, r *vh.RNG) bool {
		if !c.isCertRound() {
			return false
		}
		c.certHdr.noCons = true
		return true
	}},
	{"bad-parent", "ancestor", func(c *caseT, w *world, r *vh.RNG) bool {
		if c.entry != "side" {
			return false
		}
		c.badParent = true
		return true
	}},
	{"seal-by-other", "seal", func(c *caseT, w *world, r *vh.RNG) bool {
		c.entry = "seal"
		c.sealMode, c.sealKey = 1, w.outsider
		return true
	}},
	{"seal-garbage", "seal", func(c *caseT, w *world, r *vh.RNG) bool {
		c.entry = "seal"
		c.sealMode = 2
		return true
	}},
	{"secp-stranger-vote", "non-member", func(c *caseT, w *world, r *vh.RNG) bool {
		// (secp branch) a vote signed by a key that is not in the look-back set
		if c.cp.EnableBls {
			return false
		}
		pp := proofPlan{key: w.outsider, seed: c.seedHdr.seed, role: stepPrecommit, index: c.uc.roundIndex}
		v := votePlan{idx: 0, votes: 5, proof: pp, hasSig: true, sig: atomPlan{key: w.outsider, round: c.cons.round, index: c.uc.roundIndex}}
		c.uc.votes = append(c.uc.votes, v)
		return true
	}},
	{"secp-sig-garbage", "aggregate", func(c *caseT, w *world, r *vh.RNG) bool {
		if c.cp.EnableBls || len(c.uc.votes) == 0 {
			return false
		}
		c.uc.votes[r.Intn(len(c.uc.votes))].sigBad = true
		return true
	}},
}
