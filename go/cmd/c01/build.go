package main

// Plans: a declarative description of a header (consensus data, packed votes, aggregate signature, seal) from
// which the concrete bytes are produced with real keys. The plan is at the same time the ground truth:
// it says who really signed what and which (key, message) every VRF proof really belongs to.

import (
	"fmt"
	"math/big"
	"sort"

	"github.com/youchainhq/go-youchain/bls"
	"github.com/youchainhq/go-youchain/common"
	"github.com/youchainhq/go-youchain/consensus/ucon"
	"github.com/youchainhq/go-youchain/core/types"
	"github.com/youchainhq/go-youchain/crypto"
	"github.com/youchainhq/go-youchain/params"

	"verifharness/internal/vh"
)

const (
	stepProposal    = uint32(ucon.UConStepProposal)
	stepPrevote     = uint32(ucon.Prevote)
	stepPrecommit   = uint32(ucon.Precommit)
	stepCertificate = uint32(ucon.Certificate)
)

type proofPlan struct {
	garbage bool
	key     *keyPair
	seed    common.Hash
	role    uint32
	index   uint32
}

type atomPlan struct {
	key   *keyPair
	other bool // signed over otherHash instead of this block's hash
	hash  common.Hash
	round *big.Int
	index uint32
}

type votePlan struct {
	idx    uint32
	votes  uint32
	proof  proofPlan
	hasSig bool     // secp branch: the vote carries an ECDSA signature
	sig    atomPlan // secp branch
	sigBad bool     // secp branch: malformed signature bytes
}

type ucPlan struct {
	roundIndex  uint32
	votes       []votePlan
	atoms       []atomPlan // BLS: the aggregate is the sum of these genuine signatures
	aggGarbage  bool       // BLS: aggregate bytes do not decode
	undecodable bool       // the whole RLP blob is garbage
}

type consPlan struct {
	round      *big.Int
	roundIndex uint32
	seed       common.Hash
	signer     *keyPair // signs the consensus data
	proof      proofPlan
	subUsers   uint32
	priority   common.Hash
	pT, vT, cT uint64
	sigMode    int  // 0 genuine over the final fields, 1 a field changed after signing, 2 malformed signature
	undecoded  bool // Consensus bytes are garbage
}

type lbHeaderPlan struct {
	noCons  bool
	seed    common.Hash
	certT   uint64 // CertValThreshold declared on that header (used for certificates)
	version uint64
}

type caseT struct {
	name     string
	muts     []string
	cp       params.CaravelParams
	lb       *lookBack
	seedHdr  lbHeaderPlan
	certLb   *lookBack
	certHdr  lbHeaderPlan
	number   uint64
	cons     consPlan
	uc       ucPlan // header.Validator
	cert     ucPlan // header.Certificate
	entry    string // side | seal
	sealMode int    // 0 by the consensus signer, 1 by someone else, 2 malformed
	sealKey  *keyPair
	badParent bool

	// validator-set history: what the chain holds at the OTHER look-back height. The protocol reads the validator
	// set at N-StakeLookBack (certificates: N-2*ACoCHTFrequency) and the seed at N-SeedLookBack (N-ACoCHTFrequency);
	// lb / certLb above are the sets at the stake heights (the ground truth), the decoys are the sets committed by
	// the headers at the seed heights, and the headers at the stake heights carry decoy seeds.
	history     bool
	lbDecoy     *lookBack
	certLbDecoy *lookBack
	decoySeed   common.Hash
	stakeHeader     *types.Header
	certStakeHeader *types.Header

	// realised
	header     *types.Header
	parent     *types.Header
	seedHeader *types.Header
	certHeader *types.Header
	hash       common.Hash
	proofs     map[string]proofOut
	ct         *chooseTable
}

type proofOut struct {
	bytes []byte
	hash  common.Hash
}

func (c *caseT) isCertRound() bool { return c.number > 0 && c.number%params.ACoCHTFrequency == 0 }

func (c *caseT) evalProof(p proofPlan, r *vh.RNG) ([]byte, proofTerm) {
	if p.garbage {
		return r.Bytes(129), proofTerm{garbage: true}
	}
	k := fmt.Sprintf("%d|%x|%d|%d", p.key.id, p.seed, p.role, p.index)
	if o, ok := c.proofs[k]; ok {
		return o.bytes, proofTerm{key: p.key.id, seed: p.seed, role: p.role, index: p.index, hash: o.hash}
	}
	h, pr := p.key.vrfSk.Evaluate(ucon.MakeM(p.seed, p.role, p.index))
	c.proofs[k] = proofOut{pr, common.Hash(h)}
	return pr, proofTerm{key: p.key.id, seed: p.seed, role: p.role, index: p.index, hash: common.Hash(h)}
}

func lbHeader(p lbHeaderPlan, number uint64, lbRoot common.Hash) *types.Header {
	h := &types.Header{Number: new(big.Int).SetUint64(number), MixDigest: types.UConMixHash, ValRoot: lbRoot,
		CurrVersion: params.YouVersion(p.version), Time: 1}
	if !p.noCons {
		h.Consensus = rlpBytes(&ucon.BlockConsensusData{Round: new(big.Int).SetUint64(number), RoundIndex: 1, Seed: p.seed,
			CertValThreshold: p.certT, SortitionProof: []byte{}, Signature: []byte{}})
	}
	return h
}

// ground truth attached to a realised case (what goes to the Lean driver and to the oracle)
type truth struct {
	consProof  proofTerm
	consSigner int // key id; 0 = recovers to a stranger; -1 = recovery fails
	sealSigner int
	ucVotes    []voteTruth
	ucAgg      aggTerm
	certVotes  []voteTruth
	certAgg    aggTerm
}
type voteTruth struct {
	idx, votes uint32
	proof      proofTerm
	sigState   int // secp: 0 none/garbage, 1 genuine
	sig        sigAtom
}

func (c *caseT) atom(a atomPlan) (sigAtom, []byte) {
	h := c.hash
	if a.other {
		h = a.hash
	}
	return sigAtom{key: a.key.id, hash: h, round: a.round.String(), index: a.index}, votePayload(h, a.round, a.index)
}

// blsSign memoises genuine BLS signatures (deterministic): twins of one header sign the same payloads again and again
var blsSigMemo = map[string]bls.Signature{}

func blsSign(k *keyPair, payload []byte) bls.Signature {
	id := fmt.Sprintf("%d|%x|%x", k.id, k.blsPK[:8], payload)
	if s, ok := blsSigMemo[id]; ok {
		return s
	}
	if len(blsSigMemo) > 20000 {
		blsSigMemo = map[string]bls.Signature{}
	}
	s := k.blsSk.Sign(payload)
	blsSigMemo[id] = s
	return s
}

func (c *caseT) realiseUC(p *ucPlan, cert bool, r *vh.RNG) ([]byte, []voteTruth, aggTerm) {
	var vts []voteTruth
	var votes []ucon.SingleVote
	for _, v := range p.votes {
		pb, pt := c.evalProof(v.proof, r)
		sv := ucon.SingleVote{VoterIdx: v.idx, Votes: v.votes, Proof: pb}
		vt := voteTruth{idx: v.idx, votes: v.votes, proof: pt}
		if v.hasSig {
			if v.sigBad {
				sv.Signature = r.Bytes(64) // wrong length: recovery fails
			} else {
				at, payload := c.atom(v.sig)
				s, err := ucon.Sign(v.sig.key.sk, payload)
				if err != nil {
					panic(err)
				}
				sv.Signature = s
				vt.sigState, vt.sig = 1, at
			}
		}
		votes = append(votes, sv)
		vts = append(vts, vt)
	}
	var agg aggTerm
	var aggBytes []byte
	switch {
	case p.aggGarbage:
		agg.undecodable = true
		aggBytes = r.Bytes(47)
	case len(p.atoms) == 0:
		// the identity element: a decodable aggregate that is the sum of no signatures
		aggBytes = make([]byte, bls.SignatureBytes)
		aggBytes[0] = 0xc0
	default:
		var sigs []bls.Signature
		for _, a := range p.atoms {
			at, payload := c.atom(a)
			agg.atoms = append(agg.atoms, at)
			sigs = append(sigs, blsSign(a.key, payload))
		}
		as, err := blsMgr.Aggregate(sigs)
		if err != nil {
			panic(err)
		}
		cb := as.Compress()
		aggBytes = append([]byte{}, cb[:]...)
	}
	if p.undecodable {
		return []byte{0xc3, 0x01}, vts, agg
	}
	uv := &ucon.UconValidators{RoundIndex: p.roundIndex}
	if cert {
		uv.ChamberCerts, uv.CCAggrSig = votes, aggBytes
	} else {
		uv.ChamberCommitters, uv.SCAggrSig = votes, aggBytes
	}
	b, err := uv.ValidatorsToByte()
	if err != nil {
		panic(err)
	}
	return b, vts, agg
}

// realise produces all concrete objects from the plans.
func (c *caseT) realise(r *vh.RNG) *truth {
	if c.proofs == nil {
		c.proofs = map[string]proofOut{}
	}
	t := &truth{}
	lbRoot := common.BytesToHash([]byte("main-lookback"))
	certRoot := common.BytesToHash([]byte("cert-lookback"))
	seedNum := uint64(0)
	if c.number > c.cp.SeedLookBack {
		seedNum = c.number - c.cp.SeedLookBack
	}
	c.seedHeader = lbHeader(c.seedHdr, seedNum, lbRoot)
	c.stakeHeader, c.certStakeHeader = nil, nil
	if c.history {
		hs := protocolHeights(c.cp, c.number)
		if hs.stake != hs.seed {
			c.stakeHeader = lbHeader(lbHeaderPlan{seed: c.decoySeed, certT: c.cp.CertValThreshold, version: 1}, hs.stake, common.BytesToHash([]byte("stake-height")))
		}
		if c.isCertRound() && hs.certStake != hs.certSeed {
			c.certStakeHeader = lbHeader(lbHeaderPlan{seed: c.decoySeed, certT: c.cp.CertValThreshold, version: c.certHdr.version}, hs.certStake, common.BytesToHash([]byte("cert-stake-height")))
		}
	}
	if c.isCertRound() {
		c.certHeader = lbHeader(c.certHdr, c.number-params.ACoCHTFrequency, certRoot)
	} else {
		c.certHeader = nil
	}
	c.parent = &types.Header{Number: new(big.Int).SetUint64(c.number - 1), MixDigest: types.UConMixHash, Time: 10, ValRoot: lbRoot,
		Consensus: rlpBytes(&ucon.BlockConsensusData{Round: new(big.Int).SetUint64(c.number - 1), RoundIndex: 1, SortitionProof: []byte{}, Signature: []byte{}})}
	// consensus data
	pb, pt := c.evalProof(c.cons.proof, r)
	t.consProof = pt
	cd := &ucon.BlockConsensusData{Round: new(big.Int).Set(c.cons.round), RoundIndex: c.cons.roundIndex, Seed: c.cons.seed,
		SortitionProof: pb, Priority: c.cons.priority, SubUsers: c.cons.subUsers,
		ProposerThreshold: c.cons.pT, ValidatorThreshold: c.cons.vT, CertValThreshold: c.cons.cT}
	switch c.cons.sigMode {
	case 0:
		if err := cd.SetSignature(c.cons.signer.sk); err != nil {
			panic(err)
		}
		t.consSigner = c.cons.signer.id
	case 1:
		if err := cd.SetSignature(c.cons.signer.sk); err != nil {
			panic(err)
		}
		cd.Seed[31] ^= 0x5a // field changed after signing: recovery yields a stranger's key
		t.consSigner = 0
	default:
		cd.Signature = r.Bytes(31)
		t.consSigner = -1
	}
	consBytes := rlpBytes(cd)
	if c.cons.undecoded {
		consBytes = []byte{0xc2, 0x80}
	}
	c.header = &types.Header{Number: new(big.Int).SetUint64(c.number), ParentHash: c.parent.Hash(), MixDigest: types.UConMixHash,
		Time: 20, Consensus: consBytes, ValRoot: lbRoot, CurrVersion: 1}
	if c.badParent {
		c.header.ParentHash[0] ^= 1
	}
	c.hash = c.header.Hash()
	var vb, cb []byte
	vb, t.ucVotes, t.ucAgg = c.realiseUC(&c.uc, false, r)
	cb, t.certVotes, t.certAgg = c.realiseUC(&c.cert, true, r)
	c.header.Validator, c.header.Certificate = vb, cb
	switch c.sealMode {
	case 0, 1:
		k := c.cons.signer
		if c.sealMode == 1 {
			k = c.sealKey
		}
		s, err := crypto.Sign(c.hash.Bytes(), k.sk)
		if err != nil {
			panic(err)
		}
		c.header.Signature = s
		t.sealSigner = k.id
	default:
		c.header.Signature = r.Bytes(30)
		t.sealSigner = -1
	}
	if c.header.Hash() != c.hash {
		panic("header hash depends on omitted fields")
	}
	return t
}

// protocolHeights: the look-back heights as the PROTOCOL defines them (read from the parameters, not from the code
// under test): validator set at N-StakeLookBack, seed at N-SeedLookBack, certificate seed at N-ACoCHTFrequency,
// certificate validator set at N-2*ACoCHTFrequency; 0 when the chain is shorter.
type heights struct{ stake, seed, certSeed, certStake uint64 }

func protocolHeights(cp params.CaravelParams, n uint64) heights {
	back := func(k uint64) uint64 {
		if n > k {
			return n - k
		}
		return 0
	}
	return heights{back(cp.StakeLookBack), back(cp.SeedLookBack), back(params.ACoCHTFrequency), back(2 * params.ACoCHTFrequency)}
}

// decoyWorld derives the validator set the chain holds at the other look-back height: same keys, but members
// switched offline/online, moved between chamber and house, stakes changed, a member absent.
func decoyWorld(r *vh.RNG, w *world) *world {
	d := &world{keys: w.keys, outsider: w.outsider}
	for _, s := range w.specs {
		c := *s
		d.specs = append(d.specs, &c)
	}
	n := len(d.specs)
	changes := r.Range(1, 4)
	for k := 0; k < changes; k++ {
		s := d.specs[r.Intn(n)]
		switch r.Intn(5) {
		case 0, 1:
			s.online = !s.online
		case 2:
			if s.kind() == int(params.KindChamber) {
				s.role = params.RoleHouse
			} else {
				s.role = params.RoleSenator
			}
		case 3:
			s.stake = s.stake/2 + uint64(r.Intn(5000))
			s.token = s.stake*1000 + 3
		default:
			if n > 1 {
				i := r.Intn(n)
				d.specs = append(d.specs[:i:i], d.specs[i+1:]...)
				n--
			}
		}
	}
	// keep the decoy usable: enough online chamber stake for the protocol's committee sizes
	tot := uint64(0)
	var any *valSpec
	for _, s := range d.specs {
		if s.online && s.kind() == int(params.KindChamber) {
			tot += s.stake
			any = s
		}
	}
	if any == nil {
		any = d.specs[0]
		any.online, any.role = true, params.RoleSenator
	}
	if tot < 12000 {
		any.stake += 12000
		any.token = any.stake*1000 + 9
	}
	return d
}

// ---- honest plan -----------------------------------------------------------------------------------------

type world struct {
	keys     []*keyPair // validators' keys
	outsider *keyPair
	specs    []*valSpec
}

func genWorld(r *vh.RNG, n int, clean bool) *world {
	w := &world{}
	for i := 0; i < n; i++ {
		w.keys = append(w.keys, newKey(r, i+1))
	}
	w.outsider = newKey(r, 100)
	for i := 0; i < n; i++ {
		s := &valSpec{key: w.keys[i], online: true}
		switch {
		case clean || r.Chance(70):
			s.role = params.ValidatorRole(1 + r.Intn(2))
		case r.Chance(90):
			s.role = params.RoleHouse
		default:
			s.role = params.ValidatorRole(7) // unknown role: kind 0
		}
		if !clean && r.Chance(15) {
			s.online = false
		}
		switch r.Intn(4) {
		case 0:
			s.stake = uint64(r.Range(1, 50))
		case 1:
			s.stake = uint64(r.Range(50, 3000))
		default:
			s.stake = uint64(r.Range(3000, 200000))
		}
		if !clean && r.Chance(3) {
			s.stake = 0
		}
		s.token = s.stake*1000 + uint64(r.Intn(1000))
		w.specs = append(w.specs, s)
	}
	// equal stakes now and then, so that the token / address tie-breaks of the sort are exercised
	if n >= 2 && r.Chance(25) {
		a, b := r.Intn(n), r.Intn(n)
		w.specs[b].stake = w.specs[a].stake
		if r.Bool() {
			w.specs[b].token = w.specs[a].token
		}
	}
	// make sure there is an online chamber member with stake
	s0 := w.specs[r.Intn(n)]
	s0.role, s0.online = params.RoleSenator, true
	if s0.stake == 0 {
		s0.stake, s0.token = 5000, 5000000
	}
	// the protocol's committee sizes must not exceed the online chamber stake (choose() panics on p > 1, for honest
	// voters and verifiers alike); declared sizes above the stake are produced by a mutation instead
	tot := uint64(0)
	for _, s := range w.specs {
		if s.online && s.kind() == int(params.KindChamber) {
			tot += s.stake
		}
	}
	if tot < 12000 {
		s0.stake += 12000
		s0.token = s0.stake*1000 + 7
	}
	return w
}

func randHash(r *vh.RNG) common.Hash { return common.BytesToHash(r.Bytes(32)) }

// honestCase builds what honest nodes would produce: the proposer is an online chamber member selected by sortition
// under cp.ProposerThreshold, every online chamber member selected under cp.ValidatorThreshold precommits, the votes
// are packed as the engine packs them. Returns nil when no member is selected as proposer for any small round index.
func honestCase(r *vh.RNG, w *world, cp params.CaravelParams, number uint64) *caseT {
	c := &caseT{cp: cp, number: number, entry: "side", ct: newChooseTable(), proofs: map[string]proofOut{}}
	c.lb = buildLookBack(w.specs)
	c.seedHdr = lbHeaderPlan{seed: randHash(r), certT: cp.CertValThreshold, version: 1}
	total := c.lb.chamberTotal()
	round := new(big.Int).SetUint64(number)
	if total.Sign() == 0 {
		return nil
	}
	// proposer
	found := false
	for ri := uint32(1); ri <= 6 && !found; ri++ {
		for i, s := range w.specs {
			if !s.online || s.kind() != int(params.KindChamber) || s.badMain {
				continue
			}
			pp := proofPlan{key: s.key, seed: c.seedHdr.seed, role: stepProposal, index: ri}
			_, pt := c.evalProof(pp, r)
			j := c.ct.get(pt.hash, s.stake, cp.ProposerThreshold, total)
			if j > 0 {
				c.cons = consPlan{round: round, roundIndex: ri, seed: randHash(r), signer: s.key, proof: pp, subUsers: uint32(j),
					priority: ucon.VerifComputePriority(pt.hash, big.NewInt(j)), pT: cp.ProposerThreshold, vT: cp.ValidatorThreshold, cT: cp.CertValThreshold}
				found = true
				_ = i
				break
			}
		}
	}
	if !found {
		return nil
	}
	c.uc = c.honestVotes(r, w, c.lb, c.seedHdr.seed, stepPrecommit, c.cons.roundIndex, cp.ValidatorThreshold, round, cp.EnableBls)
	c.cert = ucPlan{roundIndex: c.cons.roundIndex}
	if c.isCertRound() {
		c.certLb = buildLookBack(w.specs)
		c.certHdr = lbHeaderPlan{seed: randHash(r), certT: cp.CertValThreshold, version: uint64(r.Range(1, 5))}
		c.cert = c.honestVotes(r, w, c.certLb, c.certHdr.seed, stepCertificate, c.cons.roundIndex, c.certHdr.certT, round, true)
	}
	return c
}

func (c *caseT) honestVotes(r *vh.RNG, w *world, lb *lookBack, seed common.Hash, step uint32, ri uint32, thr uint64, round *big.Int, blsOn bool) ucPlan {
	p := ucPlan{roundIndex: ri}
	total := lb.chamberTotal()
	for i, s := range w.specs {
		if !s.online || s.kind() != int(params.KindChamber) || s.badMain || s.badBls {
			continue
		}
		pp := proofPlan{key: s.key, seed: seed, role: step, index: ri}
		_, pt := c.evalProof(pp, r)
		j := c.ct.get(pt.hash, s.stake, thr, total)
		if j <= 0 {
			continue
		}
		at := atomPlan{key: s.bls(), round: round, index: ri}
		v := votePlan{idx: uint32(lb.indexOf(i)), votes: uint32(j), proof: pp}
		if blsOn {
			p.atoms = append(p.atoms, at)
		} else {
			v.hasSig, v.sig = true, at
		}
		p.votes = append(p.votes, v)
	}
	sort.SliceStable(p.votes, func(a, b int) bool { return p.votes[a].idx < p.votes[b].idx })
	return p
}

// packCheck compares the harness' own packing of an honest vote set with the engine's PackVotes
// (BlsVerifier.PackVotes + ValidatorsToByte): same votes (as a set), same aggregate signature bytes.
func packCheck(c *caseT, t *truth) string {
	var uv *ucon.UconValidators
	var err error
	if uv, err = ucon.ExtractUconValidators(c.header, params.LookBackPos); err != nil {
		return "own packing does not decode: " + err.Error()
	}
	ev := ucon.CommitEvent{Round: c.cons.round, RoundIndex: c.uc.roundIndex, ChamberPrecommits: ucon.NewVotesInfoForBlockHash(),
		HousePrecommits: ucon.NewVotesInfoForBlockHash(), ChamberCerts: ucon.NewVotesInfoForBlockHash()}
	for i, v := range c.uc.votes {
		_, payload := c.atom(c.uc.atoms[i])
		sg := c.uc.atoms[i].key.blsSk.Sign(payload).Compress()
		pb, _ := c.evalProof(v.proof, nil)
		ev.ChamberPrecommits[c.uc.atoms[i].key.addr] = &ucon.SingleVote{VoterIdx: v.idx, Votes: v.votes, Proof: pb, Signature: sg.Bytes()}
	}
	packed, err := ucon.NewBlsVerifier(blsMgr).PackVotes(ev, params.LookBackPos)
	if err != nil {
		if len(c.uc.votes) == 0 {
			return ""
		}
		return "PackVotes: " + err.Error()
	}
	if packed.RoundIndex != uv.RoundIndex || len(packed.ChamberCommitters) != len(uv.ChamberCommitters) {
		return "PackVotes differs in shape"
	}
	if len(uv.ChamberCommitters) > 0 && string(packed.SCAggrSig) != string(uv.SCAggrSig) {
		return "PackVotes aggregate differs"
	}
	key := func(v ucon.SingleVote) string { return fmt.Sprintf("%d|%d|%x|%x", v.VoterIdx, v.Votes, v.Proof, v.Signature) }
	set := map[string]bool{}
	for _, v := range uv.ChamberCommitters {
		set[key(v)] = true
	}
	for _, v := range packed.ChamberCommitters {
		if !set[key(v)] {
			return "PackVotes vote set differs"
		}
	}
	return ""
}
