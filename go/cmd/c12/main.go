package main

import (
	"fmt"
	"os"
	"sort"
	"strconv"

	"github.com/youchainhq/go-youchain/params"

	"verifharness/internal/vh"
)

func main() {
	if len(os.Args) == 3 && os.Args[1] == "dumpparams" {
		id, _ := strconv.ParseUint(os.Args[2], 10, 64)
		params.InitNetworkId(id)
		var ks []int
		for k := range params.Versions {
			ks = append(ks, int(k))
		}
		sort.Ints(ks)
		for _, k := range ks {
			v := params.Versions[params.YouVersion(k)]
			fmt.Printf("  (%d, { approvedUpgradeVersion := %d, upgradeWaitRounds := %d, upgradeVoteRounds := %d, upgradeThreshold := %d, minUpgradeWaitRounds := %d, maxUpgradeWaitRounds := %d }),\n",
				k, v.ApprovedUpgradeVersion, v.UpgradeWaitRounds, v.UpgradeVoteRounds, v.UpgradeThreshold, v.MinUpgradeWaitRounds, v.MaxUpgradeWaitRounds)
		}
		return
	}
	vh.Main(vh.Harness{Property: "C12", Run: run, Replay: replay, Gen: genC12})
}
