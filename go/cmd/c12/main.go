package main

import "verifharness/internal/vh"

func main() {
	vh.Main(vh.Harness{Property: "C12", Run: run, Replay: replay, Gen: genC12})
}
