package main

// Chain-level entry points: (*BlockChain).VerifyYouVersionState(blocks) and VerifyYouVersionState2(headers)
// are what block/header import calls; they must be exactly "the pure pairwise verifier, folded along the batch,
// starting from the canonical parent in the database", and their verdict must not depend on what the same
// BlockChain verified before (no caches, no carried parameters). The harness stores a verifier-accepted chain
// as canonical headers, then issues a sequence of calls on ONE BlockChain (true continuations, siblings that
// differ in version fields, batches crossing a version switch, batches with an unknown parent) and compares
// every (index, verdict) with the stateless fold of the pure function.

import (
	"fmt"
	"strings"

	"github.com/youchainhq/go-youchain/core"
	"github.com/youchainhq/go-youchain/core/rawdb"
	"github.com/youchainhq/go-youchain/core/types"
	"github.com/youchainhq/go-youchain/youdb"

	"verifharness/internal/vh"
)

type clCall struct {
	start  int   // index of the first header of the batch in its own chain numbering (= header number)
	batch  []hdr // headers offered
	blocks bool  // through VerifyYouVersionState (blocks) instead of VerifyYouVersionState2 (headers)
}

// expected verdict by folding the pure verifier from the canonical parent
func clExpected(t []vp, canon []hdr, call clCall) string {
	if call.start-1 >= len(canon) || call.start < 1 {
		return "unknown-ancestor"
	}
	parent := canon[call.start-1]
	for i, h := range call.batch {
		switch goVerify(t, parent, h) {
		case "ok":
		case "skip":
			return "skip"
		default:
			return fmt.Sprintf("err@%d", i)
		}
		parent = h
	}
	return "ok"
}

func clReal(bc *core.BlockChain, call clCall) (res string) {
	defer func() {
		if r := recover(); r != nil {
			res = fmt.Sprintf("panic: %v", r)
		}
	}()
	var idx int
	var err error
	if call.blocks {
		var bs types.Blocks
		for _, h := range call.batch {
			bs = append(bs, types.NewBlockWithHeader(h.toGo()))
		}
		idx, err = bc.VerifyYouVersionState(bs)
	} else {
		var hs []*types.Header
		for _, h := range call.batch {
			hs = append(hs, h.toGo())
		}
		idx, err = bc.VerifyYouVersionState2(hs)
	}
	if err == nil {
		return "ok"
	}
	if err.Error() == "unknown ancestor" {
		return "unknown-ancestor"
	}
	return fmt.Sprintf("err@%d", idx)
}

func clLines(t []vp, canon []hdr, calls []clCall) []string {
	out := tableLines(t)
	for _, h := range canon {
		out = append(out, "K "+h.String())
	}
	for _, c := range calls {
		kind := "CH"
		if c.blocks {
			kind = "CB"
		}
		l := kind
		for _, h := range c.batch {
			l += " | " + h.String()
		}
		out = append(out, l)
	}
	return out
}

func runChainCase(t []vp, canon []hdr, calls []clCall) (string, int) {
	setTable(t)
	db := youdb.NewMemDatabase()
	for _, h := range canon {
		g := h.toGo()
		rawdb.WriteHeader(db, g)
		rawdb.WriteCanonicalHash(db, g.Hash(), h.n)
	}
	bc, err := core.VerifC12Chain(db)
	if err != nil {
		return "cannot build header chain: " + err.Error(), -1
	}
	for i, c := range calls {
		exp := clExpected(t, canon, c)
		if exp == "skip" {
			continue // would reach logging.Crit (unknown version): not handed to the real code
		}
		got := clReal(bc, c)
		if got != exp {
			return fmt.Sprintf("call %d: chain-level verifier says %q, the pure pairwise verifier folded from the canonical parent says %q", i, got, exp), i
		}
	}
	return "", -1
}

// ---- VersionForRoundWithParents: which version's parameters the other subsystems use for round r -----------------
// Compared with the Lean model `versionForRound` (ModelVfr.lean, look-back constant regenerated from the source) on
// the same BlockChain the batch calls ran on: canonical index = the K lines, parents = a slice of headers the caller
// has not stored yet. A Go panic (slice index out of range) is the model's `crash`.

type vfrQ struct {
	r       uint64
	parents []hdr
}

func (q vfrQ) line() string {
	l := fmt.Sprintf("F %d", q.r)
	for _, h := range q.parents {
		l += " | " + h.String()
	}
	return l
}

func vfrReal(bc *core.BlockChain, q vfrQ) (res string) {
	defer func() {
		if r := recover(); r != nil {
			res = "crash"
		}
	}()
	var ps []*types.Header
	for _, h := range q.parents {
		ps = append(ps, h.toGo())
	}
	yp, err := bc.VersionForRoundWithParents(q.r, ps)
	if err != nil {
		switch {
		case strings.HasPrefix(err.Error(), "can't find header"):
			return "noheader"
		case strings.Contains(err.Error(), "not exist"):
			return "unknownversion"
		}
		return "err? " + err.Error()
	}
	if yp == nil {
		return "nil-params"
	}
	return fmt.Sprintf("ok %d", uint64(yp.Version))
}

func vfrDriverLines(t []vp, canon []hdr) []string {
	out := append(tableLines(t), "KCLEAR")
	for _, h := range canon {
		out = append(out, "K "+h.String())
	}
	return out
}

// runs the queries on a fresh BlockChain over the canonical headers; "" = model and code agree everywhere
func runVfrCase(drv *vh.Driver, t []vp, canon []hdr, qs []vfrQ) string {
	if drv == nil {
		return ""
	}
	setTable(t)
	db := youdb.NewMemDatabase()
	for _, h := range canon {
		g := h.toGo()
		rawdb.WriteHeader(db, g)
		rawdb.WriteCanonicalHash(db, g.Hash(), h.n)
	}
	bc, err := core.VerifC12Chain(db)
	if err != nil {
		return "cannot build header chain: " + err.Error()
	}
	for _, l := range vfrDriverLines(t, canon) {
		if a, e := drv.Ask(l); e != nil || a != "ok" {
			return fmt.Sprintf("driver refused %q: %q %v", l, a, e)
		}
	}
	for i, q := range qs {
		got := vfrReal(bc, q)
		exp, e := drv.Ask(q.line())
		if e != nil {
			return "driver: " + e.Error()
		}
		if got != exp {
			return fmt.Sprintf("query %d (%s): VersionForRoundWithParents says %q, the model says %q", i, q.line(), got, exp)
		}
	}
	return ""
}

func genVfrQueries(c *vh.Ctx, t []vp, full []hdr, k int) []vfrQ {
	var qs []vfrQ
	n := c.R.Range(3, 9)
	for j := 0; j < n; j++ {
		var q vfrQ
		switch c.R.Intn(4) {
		case 0: // around the look-back boundary
			q.r = uint64(c.R.Range(0, 12))
		case 1: // around the end of the canonical index
			q.r = uint64(k + c.R.Range(0, 14))
		default:
			q.r = uint64(c.R.Range(0, len(full)+12))
		}
		switch c.R.Intn(10) {
		case 0, 1, 2, 3: // no parents
		case 4, 5, 6: // the batch being verified: true continuation of the canonical index
			if k+1 < len(full) {
				e := k + 1 + c.R.Range(1, 12)
				if e > len(full) {
					e = len(full)
				}
				q.parents = append([]hdr{}, full[k+1:e]...)
				if c.R.Chance(60) { // the way header verification asks: about the header following its parents
					q.r = q.parents[len(q.parents)-1].n + 1
				}
			}
		case 7: // any slice of the chain (may overlap the canonical part, may leave a gap)
			s := c.R.Range(0, len(full)-1)
			e := s + c.R.Range(1, 8)
			if e > len(full) {
				e = len(full)
			}
			q.parents = append([]hdr{}, full[s:e]...)
		case 8: // a sibling branch
			s := c.R.Range(1, k+1)
			sib := growChain(c.R, t, full[s-1], c.R.Range(1, 10))
			q.parents = append([]hdr{}, sib[1:]...)
		case 9: // continuation with a header of a locally unknown version
			if k+1 < len(full) {
				q.parents = append([]hdr{}, full[k+1:]...)
				q.parents[c.R.Intn(len(q.parents))].cv = uint64(len(t) + c.R.Range(1, 4))
			}
		}
		qs = append(qs, q)
	}
	return qs
}

func chainLevelStream(c *vh.Ctx) {
	res := c.Res
	n := c.N(400, 12000)
	if c.Search {
		n *= 3
	}
	var drv *vh.Driver
	if c.Driver != "" {
		if d, e := vh.StartDriver(c.Driver); e == nil {
			drv = d
			defer drv.Close()
		}
	}
	if drv == nil {
		res.Partial = append(res.Partial, "VersionForRound stream skipped in this run: no model driver (translator or driver build broken)")
	}
	for ci := 0; ci < n; ci++ {
		t := genTable(c.R)
		for i := range t {
			if t[i].threshold > t[i].voteRounds {
				t[i].threshold = t[i].voteRounds
			}
			if t[i].min == 0 {
				t[i].min = 1
			}
		}
		setTable(t)
		start := hdr{n: 0, cv: uint64(c.R.Range(1, len(t)))}
		full := growChain(c.R, t, start, c.R.Range(8, 45))
		if len(full) < 4 {
			continue
		}
		k := c.R.Range(1, len(full)-2) // canonical prefix stored in the database: full[0..k]
		canon := full[:k+1]
		var calls []clCall
		ncalls := c.R.Range(2, 6)
		for j := 0; j < ncalls; j++ {
			s := c.R.Range(1, k+1)
			var call clCall
			call.start = s
			call.blocks = c.R.Chance(30)
			switch c.R.Intn(5) {
			case 0, 1: // true continuation from a canonical parent (may run past the stored prefix, may cross a switch)
				e := s + c.R.Range(1, 12)
				if e > len(full) {
					e = len(full)
				}
				call.batch = append([]hdr{}, full[s:e]...)
			case 2: // sibling: regrow from the same parent (other adversarial choices)
				sib := growChain(c.R, t, full[s-1], c.R.Range(1, 10))
				call.batch = sib[1:]
			case 3: // continuation with one mutated header
				e := s + c.R.Range(1, 8)
				if e > len(full) {
					e = len(full)
				}
				call.batch = append([]hdr{}, full[s:e]...)
				if len(call.batch) > 0 {
					m := c.R.Intn(len(call.batch))
					switch c.R.Intn(4) {
					case 0:
						call.batch[m].na++
					case 1:
						call.batch[m].nvb += uint64(c.R.Range(1, 3))
					case 2:
						call.batch[m].nso += uint64(c.R.Range(1, 3))
					case 3:
						call.batch[m].nv = uint64(c.R.Range(0, len(t)))
					}
				}
			case 4: // parent not in the database
				call.start = k + 2
				if call.start < len(full) {
					call.batch = append([]hdr{}, full[call.start:]...)
				}
			}
			if len(call.batch) == 0 {
				continue
			}
			calls = append(calls, call)
		}
		if len(calls) == 0 {
			continue
		}
		what, _ := runChainCase(t, canon, calls)
		crossesSwitch := false
		for i := 1; i < len(full); i++ {
			if full[i].cv != full[i-1].cv {
				crossesSwitch = true
			}
		}
		res.Count(fmt.Sprint("CL", t, canon, calls), true)
		res.Dist("chainlevel-cases")
		if crossesSwitch {
			res.Dist("chainlevel-with-version-switch")
		}
		res.TracesVsImpl += len(calls)
		if ci == 0 {
			res.Sample(map[string]interface{}{"chain_level_case": clLines(t, canon, calls)})
		}
		if what != "" {
			// shrink: drop calls while it still fails
			for len(calls) > 1 {
				shr := false
				for d := 0; d < len(calls); d++ {
					cand := append(append([]clCall{}, calls[:d]...), calls[d+1:]...)
					if w, _ := runChainCase(t, canon, cand); w != "" {
						calls, what, shr = cand, w, true
						break
					}
				}
				if !shr {
					break
				}
			}
			rp := vh.WriteReplay(c.ReplayDir, "C12", fmt.Sprintf("chainlevel-%d", ci), c.Seed,
				[]string{"oracle: a chain-level version-state entry point of BlockChain disagrees with the pure verifier folded along the batch from the canonical parent (K lines = canonical headers in the database, CH/CB = calls on one BlockChain, in order)", what},
				clLines(t, canon, calls))
			res.Fail("oracle", "", what, rp)
			if len(res.Failures) > 20 {
				return
			}
		}
		// VersionForRound on the same canonical index
		if drv != nil {
			qs := genVfrQueries(c, t, full, k)
			w := runVfrCase(drv, t, canon, qs)
			res.Dist("versionforround-cases")
			res.TracesVsImpl += len(qs)
			for _, q := range qs {
				if len(q.parents) > 0 {
					res.Dist("versionforround-with-parents")
				}
			}
			res.Count(fmt.Sprint("VFR", t, canon, qs), crossesSwitch)
			if ci == 1 {
				res.Sample(map[string]interface{}{"version_for_round_case": append(vfrDriverLines(t, canon), qs[0].line())})
			}
			if w != "" {
				for len(qs) > 1 { // shrink: drop queries while it still fails
					shr := false
					for d := 0; d < len(qs); d++ {
						cand := append(append([]vfrQ{}, qs[:d]...), qs[d+1:]...)
						if w2 := runVfrCase(drv, t, canon, cand); w2 != "" {
							qs, w, shr = cand, w2, true
							break
						}
					}
					if !shr {
						break
					}
				}
				lines := vfrDriverLines(t, canon)
				for _, q := range qs {
					lines = append(lines, q.line())
				}
				rp := vh.WriteReplay(c.ReplayDir, "C12", fmt.Sprintf("versionforround-%d", ci), c.Seed,
					[]string{"correspondence: (*BlockChain).VersionForRoundWithParents disagrees with the model versionForRound (K lines = canonical headers, F r | parents… = query)", w}, lines)
				res.Fail("correspondence", "", w, rp)
				if len(res.Failures) > 20 {
					return
				}
			}
		}
	}
}
