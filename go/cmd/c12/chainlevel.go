package main

// Chain-level entry points: (*BlockChain).VerifyYouVersionState(blocks) and VerifyYouVersionState2(headers)
// are what block/header import calls; they must be exactly "the pure pairwise verifier, folded along the batch,
// starting from the canonical parent in the database", and their verdict must not depend on what the same
// BlockChain verified before (no caches, no carried parameters). The harness stores a verifier-accepted chain
// as canonical headers, then issues a sequence of calls on ONE BlockChain (true continuations, siblings that
// differ in version fields, batches crossing a version switch, batches with an unknown parent) and compares
// every (index, verdict) with the stateless fold of the pure function.

import (
	"fmt"

	"github.com/youchainhq/go-youchain/core"
	"github.com/youchainhq/go-youchain/core/rawdb"
	"github.com/youchainhq/go-youchain/core/types"
	"github.com/youchainhq/go-youchain/youdb"

	"verifharness/internal/vh"
)

type clCall struct {
	start  int   // index of the first header of the batch in its own chain numbering (= header number)
	batch  []hdr // headers offered
	blocks bool  // through VerifyYouVersionState (blocks) instead of VerifyYouVersionState2 (headers)
}

// expected verdict by folding the pure verifier from the canonical parent
func clExpected(t []vp, canon []hdr, call clCall) string {
	if call.start-1 >= len(canon) || call.start < 1 {
		return "unknown-ancestor"
	}
	parent := canon[call.start-1]
	for i, h := range call.batch {
		switch goVerify(t, parent, h) {
		case "ok":
		case "skip":
			return "skip"
		default:
			return fmt.Sprintf("err@%d", i)
		}
		parent = h
	}
	return "ok"
}

func clReal(bc *core.BlockChain, call clCall) (res string) {
	defer func() {
		if r := recover(); r != nil {
			res = fmt.Sprintf("panic: %v", r)
		}
	}()
	var idx int
	var err error
	if call.blocks {
		var bs types.Blocks
		for _, h := range call.batch {
			bs = append(bs, types.NewBlockWithHeader(h.toGo()))
		}
		idx, err = bc.VerifyYouVersionState(bs)
	} else {
		var hs []*types.Header
		for _, h := range call.batch {
			hs = append(hs, h.toGo())
		}
		idx, err = bc.VerifyYouVersionState2(hs)
	}
	if err == nil {
		return "ok"
	}
	if err.Error() == "unknown ancestor" {
		return "unknown-ancestor"
	}
	return fmt.Sprintf("err@%d", idx)
}

func clLines(t []vp, canon []hdr, calls []clCall) []string {
	out := tableLines(t)
	for _, h := range canon {
		out = append(out, "K "+h.String())
	}
	for _, c := range calls {
		kind := "CH"
		if c.blocks {
			kind = "CB"
		}
		l := kind
		for _, h := range c.batch {
			l += " | " + h.String()
		}
		out = append(out, l)
	}
	return out
}

func runChainCase(t []vp, canon []hdr, calls []clCall) (string, int) {
	setTable(t)
	db := youdb.NewMemDatabase()
	for _, h := range canon {
		g := h.toGo()
		rawdb.WriteHeader(db, g)
		rawdb.WriteCanonicalHash(db, g.Hash(), h.n)
	}
	bc, err := core.VerifC12Chain(db)
	if err != nil {
		return "cannot build header chain: " + err.Error(), -1
	}
	for i, c := range calls {
		exp := clExpected(t, canon, c)
		if exp == "skip" {
			continue // would reach logging.Crit (unknown version): not handed to the real code
		}
		got := clReal(bc, c)
		if got != exp {
			return fmt.Sprintf("call %d: chain-level verifier says %q, the pure pairwise verifier folded from the canonical parent says %q", i, got, exp), i
		}
	}
	return "", -1
}

func chainLevelStream(c *vh.Ctx) {
	res := c.Res
	n := c.N(400, 12000)
	if c.Search {
		n *= 3
	}
	for ci := 0; ci < n; ci++ {
		t := genTable(c.R)
		for i := range t {
			if t[i].threshold > t[i].voteRounds {
				t[i].threshold = t[i].voteRounds
			}
			if t[i].min == 0 {
				t[i].min = 1
			}
		}
		setTable(t)
		start := hdr{n: 0, cv: uint64(c.R.Range(1, len(t)))}
		full := growChain(c.R, t, start, c.R.Range(8, 45))
		if len(full) < 4 {
			continue
		}
		k := c.R.Range(1, len(full)-2) // canonical prefix stored in the database: full[0..k]
		canon := full[:k+1]
		var calls []clCall
		ncalls := c.R.Range(2, 6)
		for j := 0; j < ncalls; j++ {
			s := c.R.Range(1, k+1)
			var call clCall
			call.start = s
			call.blocks = c.R.Chance(30)
			switch c.R.Intn(5) {
			case 0, 1: // true continuation from a canonical parent (may run past the stored prefix, may cross a switch)
				e := s + c.R.Range(1, 12)
				if e > len(full) {
					e = len(full)
				}
				call.batch = append([]hdr{}, full[s:e]...)
			case 2: // sibling: regrow from the same parent (other adversarial choices)
				sib := growChain(c.R, t, full[s-1], c.R.Range(1, 10))
				call.batch = sib[1:]
			case 3: // continuation with one mutated header
				e := s + c.R.Range(1, 8)
				if e > len(full) {
					e = len(full)
				}
				call.batch = append([]hdr{}, full[s:e]...)
				if len(call.batch) > 0 {
					m := c.R.Intn(len(call.batch))
					switch c.R.Intn(4) {
					case 0:
						call.batch[m].na++
					case 1:
						call.batch[m].nvb += uint64(c.R.Range(1, 3))
					case 2:
						call.batch[m].nso += uint64(c.R.Range(1, 3))
					case 3:
						call.batch[m].nv = uint64(c.R.Range(0, len(t)))
					}
				}
			case 4: // parent not in the database
				call.start = k + 2
				if call.start < len(full) {
					call.batch = append([]hdr{}, full[call.start:]...)
				}
			}
			if len(call.batch) == 0 {
				continue
			}
			calls = append(calls, call)
		}
		if len(calls) == 0 {
			continue
		}
		what, _ := runChainCase(t, canon, calls)
		crossesSwitch := false
		for i := 1; i < len(full); i++ {
			if full[i].cv != full[i-1].cv {
				crossesSwitch = true
			}
		}
		res.Count(fmt.Sprint("CL", t, canon, calls), true)
		res.Dist("chainlevel-cases")
		if crossesSwitch {
			res.Dist("chainlevel-with-version-switch")
		}
		res.TracesVsImpl += len(calls)
		if ci == 0 {
			res.Sample(map[string]interface{}{"chain_level_case": clLines(t, canon, calls)})
		}
		if what != "" {
			// shrink: drop calls while it still fails
			for len(calls) > 1 {
				shr := false
				for d := 0; d < len(calls); d++ {
					cand := append(append([]clCall{}, calls[:d]...), calls[d+1:]...)
					if w, _ := runChainCase(t, canon, cand); w != "" {
						calls, what, shr = cand, w, true
						break
					}
				}
				if !shr {
					break
				}
			}
			rp := vh.WriteReplay(c.ReplayDir, "C12", fmt.Sprintf("chainlevel-%d", ci), c.Seed,
				[]string{"oracle: a chain-level version-state entry point of BlockChain disagrees with the pure verifier folded along the batch from the canonical parent (K lines = canonical headers in the database, CH/CB = calls on one BlockChain, in order)", what},
				clLines(t, canon, calls))
			res.Fail("oracle", "", what, rp)
			if len(res.Failures) > 20 {
				return
			}
		}
	}
}
