package main

// C12 correspondence + implementation-level oracle.
//
//  (a) correspondence: the generated Lean functions (driver drv_c12) and the real Go functions are run
//      on the same (table, prev[, curr]) inputs: random, boundary, and "one step off an accepted pair".
//  (b) oracle on the implementation: adversarial header chains are grown by repeatedly choosing, among
//      candidate successors, one that the real VerifyYouVersionState accepts; the chain-level statement of
//      the property is then evaluated on the chain (version changes only at the announced switch round, after
//      >= threshold approvals collected strictly inside the voting window, one per block, switch not earlier
//      than MinUpgradeWaitRounds after the window).
//  (c) builder => verifier on the implementation.

import (
	"fmt"
	"math/big"
	"os"
	"strconv"
	"strings"

	"github.com/youchainhq/go-youchain/core"
	"github.com/youchainhq/go-youchain/core/types"
	"github.com/youchainhq/go-youchain/params"
	"verifharness/internal/quiet"

	"verifharness/internal/vh"
)

type hdr struct{ n, cv, nv, na, nvb, nso uint64 }

func (h hdr) String() string {
	return fmt.Sprintf("%d %d %d %d %d %d", h.n, h.cv, h.nv, h.na, h.nvb, h.nso)
}
func (h hdr) toGo() *types.Header {
	return &types.Header{Number: new(big.Int).SetUint64(h.n), CurrVersion: params.YouVersion(h.cv), NextVersion: params.YouVersion(h.nv),
		NextApprovals: h.na, NextVoteBefore: h.nvb, NextSwitchOn: h.nso}
}
func fromGo(g *types.Header) hdr {
	return hdr{g.Number.Uint64(), uint64(g.CurrVersion), uint64(g.NextVersion), g.NextApprovals, g.NextVoteBefore, g.NextSwitchOn}
}

type vp struct{ k, approved, wait, voteRounds, threshold, min, max uint64 }

func (v vp) line() string {
	return fmt.Sprintf("V %d %d %d %d %d %d %d", v.k, v.approved, v.wait, v.voteRounds, v.threshold, v.min, v.max)
}

func setTable(t []vp) {
	m := make(params.VersionsMap)
	for _, v := range t {
		m[params.YouVersion(v.k)] = params.YouParams{Version: params.YouVersion(v.k), ApprovedUpgradeVersion: params.YouVersion(v.approved),
			UpgradeWaitRounds: v.wait, UpgradeVoteRounds: v.voteRounds, UpgradeThreshold: v.threshold,
			MinUpgradeWaitRounds: v.min, MaxUpgradeWaitRounds: v.max}
	}
	params.Versions = m
}

func tableLines(t []vp) []string {
	out := []string{"VCLEAR"}
	for _, v := range t {
		out = append(out, v.line())
	}
	return out
}

// random small parameter table; version ids 1..n; some approve an upgrade to a known or unknown version
func genTable(r *vh.RNG) []vp {
	n := r.Range(1, 4)
	var t []vp
	for k := 1; k <= n; k++ {
		v := vp{k: uint64(k)}
		v.voteRounds = uint64(r.Range(1, 12))
		v.threshold = uint64(r.Range(0, int(v.voteRounds)+1))
		v.min = uint64(r.Range(1, 5))
		if r.Chance(8) {
			v.min = 0 // configurations outside every shipped table: known finding F-C12b
		}
		v.max = v.min + uint64(r.Range(0, 8))
		v.wait = uint64(r.Range(0, 14))
		switch r.Intn(4) {
		case 0:
			v.approved = 0
		case 1:
			v.approved = uint64(n + 1) // unknown locally
		default:
			v.approved = uint64(r.Range(1, n))
		}
		t = append(t, v)
	}
	return t
}

func smallOrBig(r *vh.RNG, around uint64) uint64 {
	switch r.Intn(10) {
	case 0:
		return 0
	case 1:
		return ^uint64(0)
	case 2:
		return ^uint64(0) - uint64(r.Intn(3))
	case 3, 4, 5:
		return around + uint64(r.Intn(5)) - 2
	default:
		return uint64(r.Intn(40))
	}
}

func genHdr(r *vh.RNG, n uint64, nver int) hdr {
	return hdr{n: n, cv: uint64(r.Range(1, nver)), nv: uint64(r.Intn(nver + 2)), na: smallOrBig(r, 3), nvb: smallOrBig(r, n), nso: smallOrBig(r, n+3)}
}

// Go verifier. logging.Crit exits the process and cannot be intercepted, so an input is only handed to the real
// function when no locally unknown version is involved (the only way the unchanged code reaches Crit); otherwise
// "skip" is returned and the crash outcome rests on the regenerated model alone (counted in the distribution).
// Before every call the input is recorded, so that a process exit inside the Go code leaves its replay behind.
var lastInput *os.File

func goVerify(t []vp, prev, curr hdr) string {
	known := func(k uint64) bool {
		_, ok := params.Versions[params.YouVersion(k)]
		return ok
	}
	if !known(prev.cv) || !known(curr.cv) {
		return "skip"
	}
	if lastInput != nil {
		b := []byte("# property C12\n# the harness process exited inside VerifyYouVersionState on this input (logging.Crit)\n" +
			strings.Join(tableLines(t), "\n") + "\nX " + prev.String() + " " + curr.String() + "\n")
		for len(b) < 600 {
			b = append(b, '\n') // fixed-size record: one pwrite, no truncate
		}
		lastInput.WriteAt(b, 0)
	}
	if err := core.VerifyYouVersionState(prev.toGo(), curr.toGo()); err != nil {
		return "err"
	}
	return "ok"
}

func goProcess(prev hdr) (string, hdr) {
	c := &types.Header{Number: new(big.Int).SetUint64(prev.n + 1)}
	if err := core.ProcessYouVersionState(prev.toGo(), c); err != nil {
		return "err", hdr{}
	}
	return "ok", fromGo(c)
}

func class(s string) string {
	f := strings.Fields(s)
	if len(f) == 0 {
		return "?"
	}
	return f[0]
}

// ---- chain-level oracle --------------------------------------------------------------------------

type chainViolation struct {
	what  string
	chain []hdr
}

// checkChain evaluates the property on a chain accepted link by link by the real verifier.
// The chain must start with no open proposal. Returns the description and the index of the offending header.
func checkChain(t []vp, ch []hdr) (string, int) {
	par := map[uint64]vp{}
	for _, v := range t {
		par[v.k] = v
	}
	type prop struct {
		voteBefore, switchOn, version uint64
		inWindow                      uint64
		threshold, minWait            uint64
	}
	var p *prop
	if ch[0].nv != 0 {
		return "", 0 // not a clean start: nothing claimed
	}
	for i := 1; i < len(ch); i++ {
		prev, cur := ch[i-1], ch[i]
		pp := par[prev.cv]
		if cur.cv != prev.cv {
			if prev.nso != cur.n {
				return fmt.Sprintf("version changed at %d but announced switch round was %d", cur.n, prev.nso), i
			}
			if cur.cv != prev.nv {
				return fmt.Sprintf("version changed to %d, announced %d", cur.cv, prev.nv), i
			}
			if p == nil {
				return "version changed without an open proposal", i
			}
			if p.inWindow < p.threshold {
				return fmt.Sprintf("version switched at %d with %d in-window approvals < threshold %d", cur.n, p.inWindow, p.threshold), i
			}
			if cur.n < p.voteBefore+p.minWait {
				return fmt.Sprintf("switch at %d earlier than window end %d + min wait %d", cur.n, p.voteBefore, p.minWait), i
			}
			p = nil
			continue
		}
		if prev.nv == 0 && cur.nv != 0 {
			p = &prop{voteBefore: cur.nvb, switchOn: cur.nso, version: cur.nv, inWindow: cur.na, threshold: pp.threshold, minWait: pp.min}
			if cur.na > 1 {
				return "new proposal opened with more than one approval", i
			}
			continue
		}
		if prev.nv != 0 && cur.nv == 0 {
			p = nil
			continue
		}
		if prev.nv != 0 && cur.nv != 0 && p != nil {
			if cur.na > prev.na+1 {
				return "more than one approval added by one block", i
			}
			if cur.na > prev.na && cur.n < p.voteBefore {
				p.inWindow += cur.na - prev.na
			}
			if cur.nso != p.switchOn {
				return "announced switch round changed during a proposal", i
			}
		}
	}
	return "", 0
}

// builderRejected is set when the honest builder's header for a verifier-reachable parent is rejected.
var builderRejected []hdr

func growChain(r *vh.RNG, t []vp, start hdr, steps int) []hdr {
	ch := []hdr{start}
	for s := 0; s < steps; s++ {
		prev := ch[len(ch)-1]
		var cands []hdr
		if st, h := goProcess(prev); st == "ok" {
			if goVerify(t, prev, h) == "err" && builderRejected == nil {
				builderRejected = append(append([]hdr{}, ch...), h)
			}
			cands = append(cands, h)
			// mutations of the honest header
			for k := 0; k < 6; k++ {
				m := h
				switch r.Intn(6) {
				case 0:
					m.na = prev.na + 1
				case 1:
					m.na = prev.na
				case 2:
					m.nvb = smallOrBig(r, prev.n+1)
				case 3:
					m.nso = smallOrBig(r, prev.n+3)
				case 4:
					m.nv = uint64(r.Intn(len(t) + 2))
				case 5:
					m.nv, m.na, m.nvb, m.nso = prev.nv, prev.na+1, prev.nvb+uint64(r.Intn(3)), prev.nso
				}
				cands = append(cands, m)
			}
		}
		// "do nothing" candidates: carry the parent's version state over unchanged / with one more approval
		cands = append(cands, hdr{n: prev.n + 1, cv: prev.cv, nv: prev.nv, na: prev.na, nvb: prev.nvb, nso: prev.nso})
		if prev.nv != 0 {
			cands = append(cands, hdr{n: prev.n + 1, cv: prev.cv, nv: prev.nv, na: prev.na + 1, nvb: prev.nvb, nso: prev.nso})
			// upgrade candidate
			cands = append(cands, hdr{n: prev.n + 1, cv: prev.nv})
		}
		// new-proposal candidates
		for k := 0; k < 3; k++ {
			pp := vp{}
			for _, v := range t {
				if v.k == prev.cv {
					pp = v
				}
			}
			nvb := prev.n + 1 + pp.voteRounds
			cands = append(cands, hdr{n: prev.n + 1, cv: prev.cv, nv: uint64(r.Range(1, len(t)+1)), na: 1, nvb: nvb, nso: nvb + pp.min + uint64(r.Intn(int(pp.max-pp.min)+1))})
		}
		// the adversary tries the candidates in a uniformly random order (Fisher-Yates)
		perm := make([]int, len(cands))
		for i := range perm {
			perm[i] = i
		}
		for i := len(perm) - 1; i > 0; i-- {
			j := r.Intn(i + 1)
			perm[i], perm[j] = perm[j], perm[i]
		}
		picked := false
		for _, i := range perm {
			c := cands[i]
			c.n = prev.n + 1
			if goVerify(t, prev, c) == "ok" {
				ch = append(ch, c)
				picked = true
				break
			}
		}
		if !picked {
			break
		}
	}
	return ch
}

func chainLines(t []vp, ch []hdr) []string {
	out := tableLines(t)
	for _, h := range ch {
		out = append(out, "H "+h.String())
	}
	return out
}

// matcher for the known finding F-C12b: some version of the table has MinUpgradeWaitRounds = 0
// (no shipped table has; the Lean side decides that over the generated constants).
func hasMinZero(t []vp) bool {
	for _, v := range t {
		if v.min == 0 {
			return true
		}
	}
	return false
}

func run(c *vh.Ctx) error {
	quiet.Silence()
	os.MkdirAll(c.ReplayDir, 0o755)
	lastInput, _ = os.Create(c.ReplayDir + "/C12-last-input.replay")
	defer os.Remove(c.ReplayDir + "/C12-last-input.replay")
	res := c.Res
	res.Rule = "case = (parameter table, prev, curr) pair or an adversarially grown header chain; non-trivial when the pair is in a voting/approved phase or at a phase boundary (prev.NextVersion != 0, or a proposal opens, or round == NextVoteBefore/NextSwitchOn), chains when they contain a proposal; distinct by canonical text"
	var drv *vh.Driver
	var err error
	if c.Driver != "" {
		drv, err = vh.StartDriver(c.Driver)
		if err != nil {
			return err
		}
		defer drv.Close()
	}
	ask := func(l string) string {
		if drv == nil {
			return ""
		}
		s, e := drv.Ask(l)
		if e != nil {
			err = e
		}
		return s
	}
	nontrivial := func(prev, cur hdr) bool {
		return prev.nv != 0 || cur.nv != 0 || prev.nvb == cur.n || prev.nso == cur.n
	}
	corrFails := 0
	nTables := c.N(150, 3000)
	pairsPer := 60
	if c.Search {
		nTables *= 2
	}
	// ---- (a) correspondence -------------------------------------------------------------------
	for ti := 0; ti < nTables && err == nil; ti++ {
		t := genTable(c.R)
		setTable(t)
		for _, l := range tableLines(t) {
			ask(l)
		}
		for k := 0; k < pairsPer && err == nil; k++ {
			n := uint64(c.R.Intn(60))
			if c.R.Chance(5) {
				n = ^uint64(0) - uint64(c.R.Intn(4))
			}
			prev := genHdr(c.R, n, len(t))
			if c.R.Chance(10) {
				prev.cv = uint64(len(t) + 1) // unknown version
			}
			// builder
			gst, gh := goProcess(prev)
			if drv != nil {
				m := ask("P " + prev.String())
				exp := gst
				if gst == "ok" {
					exp = fmt.Sprintf("ok %d %d %d %d %d", gh.cv, gh.nv, gh.na, gh.nvb, gh.nso)
				}
				got := m
				if class(m) == "err" {
					got = "err"
				}
				if got != exp {
					rp := vh.WriteReplay(c.ReplayDir, "C12", fmt.Sprintf("corr-process-%d-%d", ti, k), c.Seed,
						[]string{"correspondence: ProcessYouVersionState differs from generated model", "go: " + exp, "lean: " + m},
						append(tableLines(t), "P "+prev.String()))
					if corrFails < 8 {
						res.Fail("correspondence", "", "process: go="+exp+" lean="+m, rp)
					}
					corrFails++
				}
				res.TracesVsImpl++
			}
			res.Dist("process-" + gst)
			// verifier on: honest successor, mutated successor, random
			var cur hdr
			switch c.R.Intn(4) {
			case 0:
				cur = genHdr(c.R, prev.n+1, len(t))
			case 1:
				if gst == "ok" {
					cur = gh
				} else {
					cur = genHdr(c.R, prev.n+1, len(t))
				}
			default:
				if gst == "ok" {
					cur = gh
				} else {
					cur = genHdr(c.R, prev.n+1, len(t))
				}
				switch c.R.Intn(7) {
				case 0:
					cur.na = prev.na + 1
				case 1:
					cur.nvb = smallOrBig(c.R, cur.n)
				case 2:
					cur.nso = smallOrBig(c.R, cur.n)
				case 3:
					cur.nv = uint64(c.R.Intn(len(t) + 2))
				case 4:
					cur.cv = uint64(c.R.Intn(len(t) + 2))
				case 5:
					cur.na = smallOrBig(c.R, prev.na)
				case 6:
					cur = hdr{n: cur.n, cv: prev.nv}
				}
			}
			if c.R.Chance(85) {
				cur.n = prev.n + 1
			}
			gv := goVerify(t, prev, cur)
			res.Dist("verify-" + gv)
			if drv != nil {
				m := class(ask("X " + prev.String() + " " + cur.String()))
				if gv == "skip" {
					res.Dist("verify-model-only-" + m)
				} else if m != gv {
					rp := vh.WriteReplay(c.ReplayDir, "C12", fmt.Sprintf("corr-verify-%d-%d", ti, k), c.Seed,
						[]string{"correspondence: VerifyYouVersionState differs from generated model", "go: " + gv, "lean: " + m},
						append(tableLines(t), "X "+prev.String()+" "+cur.String()))
					if corrFails < 8 {
						res.Fail("correspondence", "", "verify: go="+gv+" lean="+m, rp)
					}
					corrFails++
				}
				res.TracesVsImpl++
			}
			res.Count(fmt.Sprintf("%v|%v|%v", t, prev, cur), nontrivial(prev, cur))
			if ti == 0 && k < 3 {
				res.Sample(map[string]interface{}{"table": tableLines(t), "prev": prev.String(), "curr": cur.String(), "go_process": gst, "go_verify": gv})
			}
		}
	}
	if err != nil {
		return err
	}
	// ---- (b) chain oracle on the implementation -------------------------------------------------
	nChains := c.N(1500, 40000)
	if c.Search {
		nChains *= 4
	}
	knownSeen, knownSeenB := false, false
	for ci := 0; ci < nChains; ci++ {
		t := genTable(c.R)
		// make upgrades reachable: thresholds within the window
		for i := range t {
			if t[i].threshold > t[i].voteRounds {
				t[i].threshold = t[i].voteRounds
			}
		}
		setTable(t)
		start := hdr{n: uint64(c.R.Intn(5)), cv: uint64(c.R.Range(1, len(t)))}
		ch := growChain(c.R, t, start, c.R.Range(5, 45))
		hasProp := false
		for _, h := range ch {
			if h.nv != 0 {
				hasProp = true
			}
		}
		res.Count(fmt.Sprint(t, ch), hasProp)
		res.Dist(fmt.Sprintf("chain-len-%d0s", len(ch)/10))
		if ci < 2 {
			res.Sample(map[string]interface{}{"chain": chainLines(t, ch)})
		}
		if builderRejected != nil && hasMinZero(t) {
			if !knownSeenB {
				knownSeenB = true
				rp := vh.WriteReplay(c.ReplayDir, "C12", "builder-rejected-minzero", c.Seed,
					[]string{"oracle: builder header rejected by the verifier; table has MinUpgradeWaitRounds = 0 (known finding F-C12b)"},
					append(chainLines(t, builderRejected[:len(builderRejected)-1]), "B "+builderRejected[len(builderRejected)-1].String()))
				res.Fail("oracle", "min-wait-zero", "builder header rejected by verifier (MinUpgradeWaitRounds = 0)", rp)
			}
			builderRejected = nil
		}
		if builderRejected != nil {
			rp := vh.WriteReplay(c.ReplayDir, "C12", fmt.Sprintf("builder-rejected-%d", ci), c.Seed,
				[]string{"oracle: the header the honest builder derives from a verifier-reachable parent is rejected by the verifier (last H line is the builder's header)"},
				append(chainLines(t, builderRejected[:len(builderRejected)-1]), "B "+builderRejected[len(builderRejected)-1].String()))
			res.Fail("oracle", "", "builder header rejected by verifier after a reachable chain", rp)
			builderRejected = nil
		}
		if what, at := checkChain(t, ch); what != "" {
			// shrink: cut after the offending header, drop leading headers while the start stays clean and it still fails
			ch = ch[:at+1]
			for len(ch) > 2 && ch[1].nv == 0 {
				if w, _ := checkChain(t, ch[1:]); w != "" {
					ch = ch[1:]
				} else {
					break
				}
			}
			what, _ = checkChain(t, ch)
			matcher := ""
			if hasMinZero(t) {
				matcher = "min-wait-zero"
				if knownSeen {
					continue
				}
				knownSeen = true
			}
			rp := vh.WriteReplay(c.ReplayDir, "C12", fmt.Sprintf("chain-%d", ci), c.Seed, []string{"oracle: chain accepted link by link by VerifyYouVersionState violates the property", what}, chainLines(t, ch))
			res.Fail("oracle", matcher, what, rp)
		}
	}
	// ---- (d) chain-level entry points of BlockChain ------------------------------------------------
	chainLevelStream(c)
	// ---- corpus (minimised past failures) --------------------------------------------------------
	for _, f := range vh.CorpusFiles("C12") {
		body, comments, e := vh.ReadReplay(f)
		if e != nil {
			continue
		}
		still, what := replay(c, body, comments)
		res.Dist("corpus")
		if still {
			res.Fail("corpus", "", "corpus witness fails again: "+f+": "+what, f)
		}
	}
	res.Partial = append(res.Partial, "block numbers are assumed consecutive along a chain (checked by header verification, outside this property's functions)")
	return nil
}

// replay file: table lines, then either H lines (a chain), or P / X lines.
func replay(c *vh.Ctx, body, comments []string) (bool, string) {
	quiet.Silence()
	var t []vp
	var ch []hdr
	var canon []hdr
	var clcalls []clCall
	var vfrqs []vfrQ
	var drv *vh.Driver
	if c.Driver != "" {
		drv, _ = vh.StartDriver(c.Driver)
		if drv != nil {
			defer drv.Close()
		}
	}
	nums := func(f []string) []uint64 {
		var o []uint64
		for _, s := range f {
			v, _ := strconv.ParseUint(s, 10, 64)
			o = append(o, v)
		}
		return o
	}
	fails := false
	var msgs []string
	for _, l := range body {
		f := strings.Fields(l)
		switch f[0] {
		case "VCLEAR":
			t = nil
		case "V":
			n := nums(f[1:])
			t = append(t, vp{n[0], n[1], n[2], n[3], n[4], n[5], n[6]})
		case "H":
			n := nums(f[1:])
			ch = append(ch, hdr{n[0], n[1], n[2], n[3], n[4], n[5]})
			continue
		case "K":
			n := nums(f[1:])
			canon = append(canon, hdr{n[0], n[1], n[2], n[3], n[4], n[5]})
			continue
		case "KCLEAR":
			canon = nil
			continue
		case "F":
			parts := strings.Split(l, "|")
			rn := nums(strings.Fields(parts[0])[1:])
			if len(rn) == 1 {
				q := vfrQ{r: rn[0]}
				for _, part := range parts[1:] {
					n := nums(strings.Fields(part))
					if len(n) == 6 {
						q.parents = append(q.parents, hdr{n[0], n[1], n[2], n[3], n[4], n[5]})
					}
				}
				vfrqs = append(vfrqs, q)
			}
			continue
		case "CH", "CB":
			var call clCall
			call.blocks = f[0] == "CB"
			for _, part := range strings.Split(l, "|")[1:] {
				n := nums(strings.Fields(part))
				call.batch = append(call.batch, hdr{n[0], n[1], n[2], n[3], n[4], n[5]})
			}
			if len(call.batch) > 0 {
				call.start = int(call.batch[0].n)
				clcalls = append(clcalls, call)
			}
			continue
		case "B":
			setTable(t)
			if len(ch) > 0 {
				prev := ch[len(ch)-1]
				if st, h := goProcess(prev); st == "ok" && goVerify(t, prev, h) == "err" {
					fails = true
					msgs = append(msgs, "builder header rejected by verifier")
				}
			}
			continue
		case "P", "X":
			setTable(t)
			n := nums(f[1:])
			var goOut string
			if f[0] == "P" {
				prev := hdr{n[0], n[1], n[2], n[3], n[4], n[5]}
				st, h := goProcess(prev)
				goOut = st
				if st == "ok" {
					goOut = fmt.Sprintf("ok %d %d %d %d %d", h.cv, h.nv, h.na, h.nvb, h.nso)
				}
			} else {
				goOut = goVerify(t, hdr{n[0], n[1], n[2], n[3], n[4], n[5]}, hdr{n[6], n[7], n[8], n[9], n[10], n[11]})
			}
			if drv != nil {
				for _, tl := range tableLines(t) {
					drv.Ask(tl)
				}
				m, _ := drv.Ask(l)
				if class(m) == "err" {
					m = "err"
				}
				if m != goOut {
					fails = true
					msgs = append(msgs, "go="+goOut+" lean="+m)
				}
			}
		}
	}
	if len(vfrqs) > 0 {
		if w := runVfrCase(drv, t, canon, vfrqs); w != "" {
			fails = true
			msgs = append(msgs, w)
		}
	}
	if len(clcalls) > 0 {
		if w, _ := runChainCase(t, canon, clcalls); w != "" {
			fails = true
			msgs = append(msgs, w)
		}
	}
	if len(ch) > 0 {
		setTable(t)
		accepted := true
		for i := 1; i < len(ch); i++ {
			if goVerify(t, ch[i-1], ch[i]) != "ok" {
				accepted = false
			}
		}
		if accepted {
			if w, _ := checkChain(t, ch); w != "" {
				fails = true
				msgs = append(msgs, "chain accepted by the verifier violates the property: "+w)
			}
		} else {
			msgs = append(msgs, "chain is no longer accepted by the verifier")
		}
	}
	return fails, strings.Join(msgs, "; ")
}
