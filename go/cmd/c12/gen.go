package main

// Translator: /repo/core/protocol_version_processor.go  ==>  lean/YouVerif/C12/Gen.lean
//
// Reads the *current* source with go/parser and emits the bodies of ProcessYouVersionState,
// clearUpgradeState (inlined at its call sites) and VerifyYouVersionState as Lean terms over the
// combinators of YouVerif/C12/Prelude.lean.  The supported subset is deliberately tiny; anything
// outside it aborts the translation (the check then reports the broken tie and searches).
//
// Normalisation: comments, log calls other than logging.Crit, and error *messages* are dropped
// (each error expression becomes a numbered site); nothing else is normalised.

import (
	"fmt"
	"go/ast"
	"go/parser"
	"go/token"
	"os"
	"os/exec"
	"path/filepath"
	"sort"
	"strconv"
	"strings"

	"verifharness/internal/vh"
)

var srcFile = vh.RepoRoot() + "/core/protocol_version_processor.go"
var hdrFile = vh.RepoRoot() + "/core/types/block.go"
var paramsFile = vh.RepoRoot() + "/params/config.go"

// Go field name -> Lean field name, for the two record types of the prelude.
var hdrFields = map[string]string{
	"CurrVersion": "currVersion", "NextVersion": "nextVersion", "NextApprovals": "nextApprovals",
	"NextVoteBefore": "nextVoteBefore", "NextSwitchOn": "nextSwitchOn",
}
var paramFields = map[string]string{
	"ApprovedUpgradeVersion": "approvedUpgradeVersion", "UpgradeWaitRounds": "upgradeWaitRounds",
	"UpgradeVoteRounds": "upgradeVoteRounds", "UpgradeThreshold": "upgradeThreshold",
	"MinUpgradeWaitRounds": "minUpgradeWaitRounds", "MaxUpgradeWaitRounds": "maxUpgradeWaitRounds",
}

type kind int

const (
	kHdr    kind = iota // pointer to a header: path is "prev" or "curr"
	kNat                // uint64-like local
	kBool               // bool local
	kParams             // params.YouParams local
	kStruct             // flattened struct local (types.UpgradeVote)
	kErr                // error local / named result: Nat, 0 = nil
	kBlank
)

type binding struct {
	k      kind
	field  string              // state field (for locals) or header path
	fields map[string]*binding // for kStruct
}

type tr struct {
	fset      *token.FileSet
	funcs     map[string]*ast.FuncDecl
	structs   map[string][][2]string // struct name -> [(field, gotype)]
	scopes    []map[string]*binding
	state     [][2]string // (field, leanType) in declaration order
	used      map[string]bool
	errSites  []string
	pkgErrs   map[string]int
	named     string // name of the named error result, if any
	writesHdr map[string]bool
}

type abort struct{ msg string }

func (t *tr) fail(n ast.Node, f string, a ...interface{}) {
	pos := ""
	if n != nil {
		pos = t.fset.Position(n.Pos()).String() + ": "
	}
	panic(abort{pos + fmt.Sprintf(f, a...)})
}

func (t *tr) push() { t.scopes = append(t.scopes, map[string]*binding{}) }
func (t *tr) pop()  { t.scopes = t.scopes[:len(t.scopes)-1] }
func (t *tr) lookup(name string) *binding {
	for i := len(t.scopes) - 1; i >= 0; i-- {
		if b, ok := t.scopes[i][name]; ok {
			return b
		}
	}
	return nil
}
func (t *tr) fresh(name string) string {
	base := name
	n := 1
	for t.used[name] {
		n++
		name = fmt.Sprintf("%s_%d", base, n)
	}
	t.used[name] = true
	return name
}
func (t *tr) declare(goName string, k kind) *binding {
	if goName == "_" {
		return &binding{k: kBlank}
	}
	var lt string
	switch k {
	case kNat, kErr:
		lt = "Nat"
	case kBool:
		lt = "Bool"
	case kParams:
		lt = "VParams"
	}
	f := t.fresh(goName)
	t.state = append(t.state, [2]string{f, lt})
	b := &binding{k: k, field: f}
	t.scopes[len(t.scopes)-1][goName] = b
	return b
}
func (t *tr) declaredHere(goName string) bool {
	_, ok := t.scopes[len(t.scopes)-1][goName]
	return ok
}

func (t *tr) errSite(desc string) int {
	t.errSites = append(t.errSites, desc)
	return len(t.errSites)
}

// ---- expressions ---------------------------------------------------------------------------

// returns Lean text and kind
func (t *tr) expr(e ast.Expr) (string, kind) {
	switch x := e.(type) {
	case *ast.ParenExpr:
		s, k := t.expr(x.X)
		return "(" + s + ")", k
	case *ast.BasicLit:
		if x.Kind != token.INT {
			t.fail(e, "unsupported literal %s", x.Value)
		}
		return x.Value, kNat
	case *ast.Ident:
		switch x.Name {
		case "true", "false":
			return x.Name, kBool
		case "nil":
			return "0", kErr
		}
		b := t.lookup(x.Name)
		if b == nil {
			if c, ok := t.pkgErrs[x.Name]; ok {
				return fmt.Sprint(c), kErr
			}
			t.fail(e, "unknown identifier %s", x.Name)
		}
		switch b.k {
		case kNat, kBool, kErr:
			return "s." + b.field, b.k
		}
		t.fail(e, "identifier %s of unsupported kind used as value", x.Name)
	case *ast.SelectorExpr:
		if id, ok := x.X.(*ast.Ident); ok {
			b := t.lookup(id.Name)
			if b == nil {
				t.fail(e, "unknown selector base %s", id.Name)
			}
			switch b.k {
			case kHdr:
				lf, ok := hdrFields[x.Sel.Name]
				if !ok {
					t.fail(e, "header field %s not modelled", x.Sel.Name)
				}
				return "s." + b.field + "." + lf, kNat
			case kParams:
				lf, ok := paramFields[x.Sel.Name]
				if !ok {
					t.fail(e, "params field %s not modelled", x.Sel.Name)
				}
				return "s." + b.field + "." + lf, kNat
			case kStruct:
				fb, ok := b.fields[x.Sel.Name]
				if !ok {
					t.fail(e, "struct field %s unknown", x.Sel.Name)
				}
				return "s." + fb.field, fb.k
			}
		}
		t.fail(e, "unsupported selector")
	case *ast.CallExpr:
		// hdr.Number.Uint64()
		if sel, ok := x.Fun.(*ast.SelectorExpr); ok && sel.Sel.Name == "Uint64" && len(x.Args) == 0 {
			if in, ok := sel.X.(*ast.SelectorExpr); ok && in.Sel.Name == "Number" {
				if id, ok := in.X.(*ast.Ident); ok {
					if b := t.lookup(id.Name); b != nil && b.k == kHdr {
						return "(s." + b.field + ".number % U64)", kNat
					}
				}
			}
		}
		if t.isErrCtor(x) {
			return fmt.Sprint(t.errSite(t.render(x))), kErr
		}
		// pure helper over headers: func f(a, b *types.Header) T { return expr } — inlined
		if id, ok := x.Fun.(*ast.Ident); ok {
			if fd, ok := t.funcs[id.Name]; ok && fd.Recv == nil && len(fd.Body.List) == 1 {
				if rs, ok := fd.Body.List[0].(*ast.ReturnStmt); ok && len(rs.Results) == 1 {
					t.push()
					defer t.pop()
					i := 0
					for _, p := range fd.Type.Params.List {
						for _, n := range p.Names {
							if i >= len(x.Args) {
								t.fail(e, "helper call arity")
							}
							arg, ok := x.Args[i].(*ast.Ident)
							if !ok {
								t.fail(e, "helper call argument must be an identifier")
							}
							ab := t.lookup(arg.Name)
							if ab == nil || ab.k != kHdr {
								t.fail(e, "helper call argument must be a header")
							}
							t.scopes[len(t.scopes)-1][n.Name] = ab
							i++
						}
					}
					return t.expr(rs.Results[0])
				}
			}
		}
		t.fail(e, "unsupported call %s", t.render(x))
	case *ast.UnaryExpr:
		if x.Op == token.NOT {
			s, k := t.expr(x.X)
			if k != kBool {
				t.fail(e, "! on non-bool")
			}
			return "(!" + s + ")", kBool
		}
		t.fail(e, "unsupported unary %s", x.Op)
	case *ast.BinaryExpr:
		l, lk := t.expr(x.X)
		r, rk := t.expr(x.Y)
		switch x.Op {
		case token.ADD:
			if lk != kNat || rk != kNat {
				t.fail(e, "+ on non-uint64")
			}
			return "((" + l + " + " + r + ") % U64)", kNat
		case token.SUB:
			if lk != kNat || rk != kNat {
				t.fail(e, "- on non-uint64")
			}
			// uint64 subtraction wraps around
			return "((" + l + " + (U64 - " + r + " % U64)) % U64)", kNat
		case token.LAND, token.LOR:
			if lk != kBool || rk != kBool {
				t.fail(e, "logical op on non-bool")
			}
			op := "&&"
			if x.Op == token.LOR {
				op = "||"
			}
			return "(" + l + " " + op + " " + r + ")", kBool
		case token.EQL, token.NEQ:
			if lk != rk {
				t.fail(e, "comparison of different kinds")
			}
			op := "=="
			if x.Op == token.NEQ {
				op = "!="
			}
			return "(" + l + " " + op + " " + r + ")", kBool
		case token.LSS, token.LEQ, token.GTR, token.GEQ:
			if lk != kNat || rk != kNat {
				t.fail(e, "ordering on non-uint64")
			}
			return "(decide (" + l + " " + x.Op.String() + " " + r + "))", kBool
		}
		t.fail(e, "unsupported operator %s", x.Op)
	}
	t.fail(e, "unsupported expression %T", e)
	return "", kNat
}

func (t *tr) render(n ast.Node) string {
	var sb strings.Builder
	ast.Fprint(&sb, nil, nil, nil) // no-op, keep import used
	start, end := t.fset.Position(n.Pos()), t.fset.Position(n.End())
	b, _ := os.ReadFile(start.Filename)
	if b == nil || end.Offset > len(b) {
		return "?"
	}
	return strings.Join(strings.Fields(string(b[start.Offset:end.Offset])), " ")
}

func (t *tr) isErrCtor(c *ast.CallExpr) bool {
	if sel, ok := c.Fun.(*ast.SelectorExpr); ok {
		if id, ok := sel.X.(*ast.Ident); ok {
			return (id.Name == "errors" && sel.Sel.Name == "New") || (id.Name == "fmt" && sel.Sel.Name == "Errorf")
		}
	}
	return false
}

func isSel(e ast.Expr, pkg, name string) bool {
	if sel, ok := e.(*ast.SelectorExpr); ok {
		if id, ok := sel.X.(*ast.Ident); ok {
			return id.Name == pkg && sel.Sel.Name == name
		}
	}
	return false
}

// params.Versions[k]
func (t *tr) versionsIndex(e ast.Expr) (string, bool) {
	ix, ok := e.(*ast.IndexExpr)
	if !ok || !isSel(ix.X, "params", "Versions") {
		return "", false
	}
	k, kk := t.expr(ix.Index)
	if kk != kNat {
		t.fail(e, "params.Versions key is not a version number")
	}
	return k, true
}

// ---- statements ----------------------------------------------------------------------------

func ind(n int) string { return strings.Repeat("  ", n) }

func (t *tr) block(stmts []ast.Stmt, d int) string {
	var parts []string
	for _, s := range stmts {
		if p := t.stmt(s, d); p != "" {
			parts = append(parts, p)
		}
	}
	if len(parts) == 0 {
		return ind(d) + "skip"
	}
	return strings.Join(parts, " ;;\n")
}

func (t *tr) setField(b *binding, val string) string {
	return fmt.Sprintf("assign (fun s => { s with %s := %s })", b.field, val)
}

func (t *tr) hdrAssign(path, leanField, val string) string {
	t.writesHdr[path] = true
	return fmt.Sprintf("assign (fun s => { s with %s := { s.%s with %s := %s } })", path, path, leanField, val)
}

func (t *tr) isNilGuard(s *ast.IfStmt) bool {
	// if a == nil || b == nil { return errors.New(..) }  with a, b header pointers: not modelled (headers are values)
	ok := true
	var walk func(e ast.Expr)
	walk = func(e ast.Expr) {
		switch x := e.(type) {
		case *ast.BinaryExpr:
			if x.Op == token.LOR {
				walk(x.X)
				walk(x.Y)
				return
			}
			if x.Op == token.EQL {
				if id, isId := x.X.(*ast.Ident); isId {
					if b := t.lookup(id.Name); b != nil && b.k == kHdr {
						if n, isN := x.Y.(*ast.Ident); isN && n.Name == "nil" {
							return
						}
					}
				}
			}
		}
		ok = false
	}
	walk(s.Cond)
	if !ok || s.Else != nil || len(s.Body.List) != 1 {
		return false
	}
	_, isRet := s.Body.List[0].(*ast.ReturnStmt)
	return isRet
}

func (t *tr) stmt(s ast.Stmt, d int) string {
	switch x := s.(type) {
	case *ast.BlockStmt:
		t.push()
		defer t.pop()
		return t.block(x.List, d)
	case *ast.IfStmt:
		if x.Init != nil {
			// `if init; cond {…}`: the init statement runs first, its variables are scoped to the if
			t.push()
			defer t.pop()
			initS := t.stmt(x.Init, d)
			y := *x
			y.Init = nil
			rest := t.stmt(&y, d)
			if initS == "" {
				return rest
			}
			return initS + " ;;\n" + rest
		}
		if t.isNilGuard(x) {
			return ""
		}
		c, ck := t.expr(x.Cond)
		if ck != kBool {
			t.fail(s, "if condition is not bool")
		}
		t.push()
		a := t.block(x.Body.List, d+2)
		t.pop()
		b := ind(d+2) + "skip"
		if x.Else != nil {
			switch e := x.Else.(type) {
			case *ast.BlockStmt:
				t.push()
				b = t.block(e.List, d+2)
				t.pop()
			case *ast.IfStmt:
				b = t.stmt(e, d+2)
			}
		}
		return fmt.Sprintf("%site' (fun s => %s)\n%s(\n%s)\n%s(\n%s)", ind(d), c, ind(d+1), a, ind(d+1), b)
	case *ast.SwitchStmt:
		if x.Tag != nil || x.Init != nil {
			t.fail(s, "only tag-less switch supported")
		}
		// cases in order; first true wins; no fallthrough
		out := ind(d+2) + "skip"
		type cs struct{ cond, body string }
		var cases []cs
		var def string
		for _, c := range x.Body.List {
			cc := c.(*ast.CaseClause)
			for _, st := range cc.Body {
				if br, ok := st.(*ast.BranchStmt); ok {
					t.fail(br, "branch statement in switch unsupported")
				}
			}
			t.push()
			body := t.block(cc.Body, d+2)
			t.pop()
			if cc.List == nil {
				def = body
				continue
			}
			var conds []string
			for _, e := range cc.List {
				cs_, k := t.expr(e)
				if k != kBool {
					t.fail(e, "case is not bool")
				}
				conds = append(conds, cs_)
			}
			cases = append(cases, cs{"(" + strings.Join(conds, " || ") + ")", body})
		}
		if def != "" {
			out = def
		}
		for i := len(cases) - 1; i >= 0; i-- {
			out = fmt.Sprintf("%site' (fun s => %s)\n%s(\n%s)\n%s(\n%s)", ind(d), cases[i].cond, ind(d+1), cases[i].body, ind(d+1), out)
		}
		return out
	case *ast.ReturnStmt:
		switch len(x.Results) {
		case 0:
			if t.named == "" {
				t.fail(s, "bare return without named result")
			}
			b := t.lookup(t.named)
			return ind(d) + "ret (fun s => Res.ofErr s." + b.field + ")"
		case 1:
			v, k := t.expr(x.Results[0])
			if k != kErr {
				t.fail(s, "return of non-error")
			}
			return ind(d) + "ret (fun s => Res.ofErr (" + v + "))"
		}
		t.fail(s, "multi-value return unsupported")
	case *ast.ExprStmt:
		c, ok := x.X.(*ast.CallExpr)
		if !ok {
			t.fail(s, "unsupported expression statement")
		}
		if isSel(c.Fun, "logging", "Crit") {
			return ind(d) + "ret (fun _ => Res.crash)"
		}
		if sel, ok := c.Fun.(*ast.SelectorExpr); ok {
			if id, ok := sel.X.(*ast.Ident); ok && id.Name == "logging" {
				return "" // non-fatal log call: dropped
			}
		}
		if id, ok := c.Fun.(*ast.Ident); ok {
			fd, ok := t.funcs[id.Name]
			if !ok {
				t.fail(s, "call of unknown function %s", id.Name)
			}
			// inline: only pointer-to-header parameters supported
			if fd.Type.Results != nil && len(fd.Type.Results.List) > 0 {
				t.fail(s, "inlined callee with results unsupported")
			}
			t.push()
			defer t.pop()
			i := 0
			for _, p := range fd.Type.Params.List {
				for _, n := range p.Names {
					arg, ok := c.Args[i].(*ast.Ident)
					if !ok {
						t.fail(s, "inlined call argument must be an identifier")
					}
					ab := t.lookup(arg.Name)
					if ab == nil || ab.k != kHdr {
						t.fail(s, "inlined call argument must be a header")
					}
					t.scopes[len(t.scopes)-1][n.Name] = ab
					i++
				}
			}
			for _, st := range fd.Body.List {
				if _, isRet := st.(*ast.ReturnStmt); isRet {
					t.fail(st, "return inside inlined callee unsupported")
				}
			}
			return t.block(fd.Body.List, d)
		}
		t.fail(s, "unsupported call statement %s", t.render(c))
	case *ast.AssignStmt:
		return t.assignStmt(x, d)
	case *ast.DeclStmt:
		t.fail(s, "declaration statements unsupported")
	}
	t.fail(s, "unsupported statement %T", s)
	return ""
}

func (t *tr) assignStmt(x *ast.AssignStmt, d int) string {
	// comma-ok map lookup
	if len(x.Lhs) == 2 && len(x.Rhs) == 1 {
		key, ok := t.versionsIndex(x.Rhs[0])
		if !ok {
			t.fail(x, "unsupported two-value assignment")
		}
		v := x.Lhs[0].(*ast.Ident).Name
		o := x.Lhs[1].(*ast.Ident).Name
		var vb, ob *binding
		if x.Tok == token.DEFINE {
			if v == "_" {
				vb = &binding{k: kBlank}
			} else if t.declaredHere(v) {
				vb = t.lookup(v)
			} else {
				vb = t.declare(v, kParams)
			}
			if o == "_" {
				ob = &binding{k: kBlank}
			} else if t.declaredHere(o) {
				ob = t.lookup(o)
			} else {
				ob = t.declare(o, kBool)
			}
		} else {
			vb, ob = t.lookup(v), t.lookup(o)
			if v == "_" {
				vb = &binding{k: kBlank}
			}
			if o == "_" {
				ob = &binding{k: kBlank}
			}
		}
		var sets []string
		if vb.k == kParams {
			sets = append(sets, fmt.Sprintf("%s := (lookup V (%s)).1", vb.field, key))
		} else if vb.k != kBlank {
			t.fail(x, "map value assigned to unsupported variable")
		}
		if ob.k == kBool {
			sets = append(sets, fmt.Sprintf("%s := (lookup V (%s)).2", ob.field, key))
		} else if ob.k != kBlank {
			t.fail(x, "ok assigned to unsupported variable")
		}
		if len(sets) == 0 {
			return ""
		}
		return ind(d) + "assign (fun s => { s with " + strings.Join(sets, ", ") + " })"
	}
	if len(x.Lhs) != 1 || len(x.Rhs) != 1 {
		t.fail(x, "unsupported assignment shape")
	}
	// composite literal: flattened struct local
	if cl, ok := x.Rhs[0].(*ast.CompositeLit); ok {
		if x.Tok != token.DEFINE || len(cl.Elts) != 0 {
			t.fail(x, "only `v := T{}` composite literals supported")
		}
		sel, ok := cl.Type.(*ast.SelectorExpr)
		if !ok {
			t.fail(x, "unsupported composite literal type")
		}
		fs, ok := t.structs[sel.Sel.Name]
		if !ok {
			t.fail(x, "unknown struct %s", sel.Sel.Name)
		}
		name := x.Lhs[0].(*ast.Ident).Name
		b := &binding{k: kStruct, fields: map[string]*binding{}}
		for _, f := range fs {
			k := kNat
			if f[1] == "bool" {
				k = kBool
			}
			fb := t.declare(name+"_"+f[0], k)
			delete(t.scopes[len(t.scopes)-1], name+"_"+f[0])
			b.fields[f[0]] = fb
		}
		t.scopes[len(t.scopes)-1][name] = b
		return "" // zero values are the state's defaults
	}
	val, vk := t.expr(x.Rhs[0])
	switch l := x.Lhs[0].(type) {
	case *ast.Ident:
		var b *binding
		if x.Tok == token.DEFINE {
			b = t.declare(l.Name, vk)
		} else {
			b = t.lookup(l.Name)
			if b == nil {
				t.fail(x, "assignment to unknown %s", l.Name)
			}
		}
		if b.k != vk {
			t.fail(x, "kind mismatch in assignment to %s", l.Name)
		}
		if x.Tok == token.ADD_ASSIGN {
			val = "((s." + b.field + " + " + val + ") % U64)"
		} else if x.Tok != token.ASSIGN && x.Tok != token.DEFINE {
			t.fail(x, "unsupported assignment operator %s", x.Tok)
		}
		return ind(d) + t.setField(b, val)
	case *ast.SelectorExpr:
		id, ok := l.X.(*ast.Ident)
		if !ok {
			t.fail(x, "unsupported assignment target")
		}
		b := t.lookup(id.Name)
		if b == nil {
			t.fail(x, "unknown assignment base %s", id.Name)
		}
		switch b.k {
		case kHdr:
			lf, ok := hdrFields[l.Sel.Name]
			if !ok {
				t.fail(x, "header field %s not modelled", l.Sel.Name)
			}
			if vk != kNat {
				t.fail(x, "non-uint64 assigned to header field")
			}
			if x.Tok == token.ADD_ASSIGN {
				val = "((s." + b.field + "." + lf + " + " + val + ") % U64)"
			} else if x.Tok != token.ASSIGN {
				t.fail(x, "unsupported assignment operator %s", x.Tok)
			}
			return ind(d) + t.hdrAssign(b.field, lf, val)
		case kStruct:
			fb, ok := b.fields[l.Sel.Name]
			if !ok {
				t.fail(x, "unknown struct field %s", l.Sel.Name)
			}
			if fb.k != vk {
				t.fail(x, "kind mismatch in struct field assignment")
			}
			if x.Tok != token.ASSIGN {
				t.fail(x, "unsupported assignment operator %s", x.Tok)
			}
			return ind(d) + t.setField(fb, val)
		}
	}
	t.fail(x, "unsupported assignment target")
	return ""
}

// ---- driver ---------------------------------------------------------------------------------

func (t *tr) function(name, leanName string) (string, error) {
	fd, ok := t.funcs[name]
	if !ok {
		return "", fmt.Errorf("function %s not found in %s", name, srcFile)
	}
	t.scopes = nil
	t.state = nil
	t.used = map[string]bool{"prev": true, "curr": true}
	t.named = ""
	t.writesHdr = map[string]bool{}
	t.push()
	// parameters: exactly (prev, curr *types.Header)
	var pnames []string
	for _, p := range fd.Type.Params.List {
		st, ok := p.Type.(*ast.StarExpr)
		if !ok || !isSel(st.X, "types", "Header") {
			return "", fmt.Errorf("%s: parameter is not *types.Header", name)
		}
		for _, n := range p.Names {
			pnames = append(pnames, n.Name)
		}
	}
	if len(pnames) != 2 || pnames[0] != "prev" || pnames[1] != "curr" {
		return "", fmt.Errorf("%s: expected parameters (prev, curr), got %v", name, pnames)
	}
	t.scopes[0]["prev"] = &binding{k: kHdr, field: "prev"}
	t.scopes[0]["curr"] = &binding{k: kHdr, field: "curr"}
	if fd.Type.Results == nil || len(fd.Type.Results.List) != 1 {
		return "", fmt.Errorf("%s: expected a single error result", name)
	}
	if r := fd.Type.Results.List[0]; len(r.Names) == 1 {
		t.named = r.Names[0].Name
		t.declare(t.named, kErr)
	}
	body := t.block(fd.Body.List, 2)
	if t.writesHdr["prev"] {
		return "", fmt.Errorf("%s writes to prev", name)
	}
	var sb strings.Builder
	st := leanName + "St"
	fmt.Fprintf(&sb, "/-- Local state of `%s` (parameters, named result and locals, in declaration order). -/\n", name)
	fmt.Fprintf(&sb, "structure %s where\n  prev : Hdr\n  curr : Hdr\n", st)
	for _, f := range t.state {
		def := "0"
		switch f[1] {
		case "Bool":
			def = "false"
		case "VParams":
			def = "{}"
		}
		fmt.Fprintf(&sb, "  %s : %s := %s\n", f[0], f[1], def)
	}
	fmt.Fprintf(&sb, "\n/-- Body of `%s`, statement for statement. -/\n", name)
	fmt.Fprintf(&sb, "def %sBody (V : Versions) : Stmt %s :=\n%s\n\n", leanName, st, body)
	fmt.Fprintf(&sb, "/-- `%s(prev, curr)`: the returned error class and `curr` as left by the call. -/\n", name)
	fmt.Fprintf(&sb, "def %s (V : Versions) (prev curr : Hdr) : Res × Hdr :=\n  match %sBody V { prev := prev, curr := curr } with\n  | .cont s => (Res.ofErr %s, s.curr)\n  | .ret r s => (r, s.curr)\n\n", leanName, leanName,
		func() string {
			if t.named != "" {
				return "s." + t.lookup(t.named).field
			}
			return "0"
		}())
	fmt.Fprintf(&sb, "def %sWritesCurr : Bool := %v\n\n", leanName, t.writesHdr["curr"])
	t.pop()
	return sb.String(), nil
}

func parseStructs(path string, names ...string) (map[string][][2]string, error) {
	fset := token.NewFileSet()
	f, err := parser.ParseFile(fset, path, nil, 0)
	if err != nil {
		return nil, err
	}
	want := map[string]bool{}
	for _, n := range names {
		want[n] = true
	}
	out := map[string][][2]string{}
	ast.Inspect(f, func(n ast.Node) bool {
		ts, ok := n.(*ast.TypeSpec)
		if !ok || !want[ts.Name.Name] {
			return true
		}
		st, ok := ts.Type.(*ast.StructType)
		if !ok {
			return true
		}
		for _, fl := range st.Fields.List {
			ty := ""
			switch tt := fl.Type.(type) {
			case *ast.Ident:
				ty = tt.Name
			case *ast.SelectorExpr:
				ty = tt.X.(*ast.Ident).Name + "." + tt.Sel.Name
			case *ast.StarExpr:
				ty = "*"
			default:
				ty = "?"
			}
			for _, nm := range fl.Names {
				out[ts.Name.Name] = append(out[ts.Name.Name], [2]string{nm.Name, ty})
			}
		}
		return true
	})
	return out, nil
}

func genC12(outDir string) (err error) {
	defer func() {
		if r := recover(); r != nil {
			if a, ok := r.(abort); ok {
				err = fmt.Errorf("translation aborted: %s", a.msg)
				return
			}
			panic(r)
		}
	}()
	fset := token.NewFileSet()
	f, perr := parser.ParseFile(fset, srcFile, nil, 0)
	if perr != nil {
		return perr
	}
	t := &tr{fset: fset, funcs: map[string]*ast.FuncDecl{}, pkgErrs: map[string]int{}}
	roundBack := "" // the look-back constant of VersionForRound (decimal integer literal in the source)
	for _, d := range f.Decls {
		switch x := d.(type) {
		case *ast.FuncDecl:
			if x.Recv == nil {
				t.funcs[x.Name.Name] = x
			}
		case *ast.GenDecl:
			if x.Tok == token.CONST {
				for _, sp := range x.Specs {
					vs := sp.(*ast.ValueSpec)
					for i, n := range vs.Names {
						if n.Name == "protocolRoundBack" && i < len(vs.Values) {
							if bl, ok := vs.Values[i].(*ast.BasicLit); ok && bl.Kind == token.INT {
								roundBack = bl.Value
							}
						}
					}
				}
			}
			if x.Tok == token.VAR {
				for _, sp := range x.Specs {
					vs := sp.(*ast.ValueSpec)
					for i, n := range vs.Names {
						if i < len(vs.Values) {
							if c, ok := vs.Values[i].(*ast.CallExpr); ok && t.isErrCtor(c) {
								t.pkgErrs[n.Name] = 100 + len(t.pkgErrs)
							}
						}
					}
				}
			}
		}
	}
	// struct shapes the translation relies on, checked against the current source
	hs, e1 := parseStructs(hdrFile, "Header", "UpgradeVote")
	if e1 != nil {
		return e1
	}
	ps, e2 := parseStructs(paramsFile, "YouParams")
	if e2 != nil {
		return e2
	}
	okTy := map[string]bool{"uint64": true, "params.YouVersion": true, "YouVersion": true}
	check := func(fields [][2]string, want map[string]string, what string) error {
		have := map[string]string{}
		for _, f := range fields {
			have[f[0]] = f[1]
		}
		for g := range want {
			ty, ok := have[g]
			if !ok {
				return fmt.Errorf("%s has no field %s any more", what, g)
			}
			if !okTy[ty] {
				return fmt.Errorf("%s.%s has type %s, the model assumes a 64-bit unsigned integer", what, g, ty)
			}
		}
		return nil
	}
	if err := check(hs["Header"], hdrFields, "types.Header"); err != nil {
		return err
	}
	if err := check(ps["YouParams"], paramFields, "params.YouParams"); err != nil {
		// embedded struct? try the whole file for any struct carrying the fields
		return err
	}
	t.structs = map[string][][2]string{"UpgradeVote": hs["UpgradeVote"]}
	for _, fl := range hs["UpgradeVote"] {
		if !okTy[fl[1]] && fl[1] != "bool" {
			return fmt.Errorf("types.UpgradeVote.%s has unsupported type %s", fl[0], fl[1])
		}
	}

	var sb strings.Builder
	sb.WriteString("-- GENERATED by /verif/go/cmd/c12 (gen.go) from /repo/core/protocol_version_processor.go.\n")
	sb.WriteString("-- Do not edit: this file is deleted and regenerated from /repo's working tree on every check run;\n")
	sb.WriteString("-- the committed copy is a snapshot for readers.\n")
	sb.WriteString("import YouVerif.C12.Prelude\nset_option linter.unusedVariables false\n\nnamespace YouVerif.C12.Gen\nopen YouVerif.C12\n\n")
	p, err := t.function("ProcessYouVersionState", "process")
	if err != nil {
		return err
	}
	sb.WriteString(p)
	nProc := len(t.errSites)
	v, err := t.function("VerifyYouVersionState", "verify")
	if err != nil {
		return err
	}
	sb.WriteString(v)
	if _, perr := strconv.ParseUint(roundBack, 10, 32); perr != nil {
		return fmt.Errorf("constant protocolRoundBack is no longer a plain decimal integer literal in %s (found %q)", srcFile, roundBack)
	}
	fmt.Fprintf(&sb, "/-- `const protocolRoundBack` of core/protocol_version_processor.go: `VersionForRound(r)` reads the header this many rounds back. -/\ndef protocolRoundBack : Nat := %s\n\n", roundBack)
	sb.WriteString("/-! Error sites (numbered in order of appearance; messages dropped):\n")
	for i, s := range t.errSites {
		fn := "process"
		if i >= nProc {
			fn = "verify"
		}
		fmt.Fprintf(&sb, "  %d (%s): %s\n", i+1, fn, strings.ReplaceAll(s, "-/", "- /"))
	}
	var pk []string
	for n, c := range t.pkgErrs {
		pk = append(pk, fmt.Sprintf("  %d: package variable %s", c, n))
	}
	sort.Strings(pk)
	sb.WriteString(strings.Join(pk, "\n"))
	sb.WriteString("\n-/\n\nend YouVerif.C12.Gen\n")
	if outDir == "" {
		outDir = "/verif/lean/YouVerif/C12"
	}
	if err := os.WriteFile(filepath.Join(outDir, "Gen.lean"), []byte(sb.String()), 0o644); err != nil {
		return err
	}
	return genConsts(outDir)
}

// genConsts dumps the upgrade parameters of every shipped network table. params.InitNetworkId can be
// called once per process, so the harness binary re-executes itself once per network id.
func genConsts(outDir string) error {
	var sb strings.Builder
	sb.WriteString("-- GENERATED by /verif/go/cmd/c12 (gen.go) from params.Versions of the linked go-youchain (one process per network id).\n")
	sb.WriteString("-- Do not edit; regenerated on every check run.\n")
	sb.WriteString("import YouVerif.C12.Prelude\n\nnamespace YouVerif.C12.Gen\nopen YouVerif.C12\n\n")
	nets := [][2]string{{"mainnet", "1"}, {"testnet", "2"}, {"testcase", "99"}}
	for _, n := range nets {
		out, err := exec.Command(os.Args[0], "dumpparams", n[1]).Output()
		if err != nil {
			return fmt.Errorf("dumpparams %s: %v", n[0], err)
		}
		fmt.Fprintf(&sb, "/-- `params.Versions` after `InitNetworkId(%s)`: (version, upgrade parameters). -/\ndef %sTable : List (Nat × VParams) := [\n%s]\n\n", n[1], n[0], strings.TrimRight(string(out), ",\n")+"\n")
	}
	sb.WriteString("def shippedTables : List (List (Nat × VParams)) := [mainnetTable, testnetTable, testcaseTable]\n\nend YouVerif.C12.Gen\n")
	return os.WriteFile(filepath.Join(outDir, "GenConsts.lean"), []byte(sb.String()), 0o644)
}
