package main

import (
	"fmt"
	"sort"
	"strings"

	"verifharness/internal/quiet"
	"verifharness/internal/vh"
)

const rule = "case = one operation sequence on a fresh trie (Update/Delete/Get/Hash/iterate/Prove+Verify/tamper, interleaved with a Commit/reopen/Reference/Dereference/Cap/Database.Commit schedule), or one DeriveSha list, or one hostile proof store, or one crash case (a > 100 KB Database.Commit on a disk that dies after k batch writes, every k); a sequence is non-trivial when the trie held >= 2 keys at some point (so a branch node existed) and >= 1 delete removed an existing key; DeriveSha lists when they have >= 2 items; hostile stores when decoding got past the outer list header; distinct by canonical text"

func run(c *vh.Ctx) error {
	quiet.Silence()
	res := c.Res
	res.Rule = rule
	var drv *vh.Driver
	var err error
	if c.Driver != "" {
		drv, err = vh.StartDriver(c.Driver)
		if err != nil {
			return err
		}
		defer drv.Close()
	}
	rn := &runner{drv: drv, res: res, cnt: map[string]int{}}

	// ---- corpus first ---------------------------------------------------------------------------
	for _, f := range vh.CorpusFiles("C13") {
		body, _, e := vh.ReadReplay(f)
		if e != nil {
			continue
		}
		fl, _, e := rn.runSeq(body)
		if e != nil {
			return e
		}
		res.Dist("corpus")
		if fl != nil {
			res.Fail("corpus", "", "corpus witness fails again: "+f+": "+fl.what, f)
		}
	}

	// ---- Keccak sanity (the Lean hash is compared with Go's on every run) -------------------------
	if drv != nil {
		for i := 0; i < 40; i++ {
			d := c.R.Bytes([]int{0, 1, 31, 32, 135, 136, 137, 271, 272, 300}[i%10] + c.R.Intn(2))
			l := "KEC " + hx(d)
			m, e := drv.Ask(l)
			if e != nil {
				return e
			}
			if g := fmt.Sprintf("%x", keccak(d)); m != g {
				rp := vh.WriteReplay(c.ReplayDir, "C13", fmt.Sprintf("keccak-%d", i), c.Seed, []string{"correspondence: Lean Keccak-256 differs from crypto.Keccak256", "go: " + g, "lean: " + m}, []string{l})
				res.Fail("correspondence", "", "keccak differs", rp)
			}
			res.TracesVsImpl++
		}
	}

	// ---- operation sequences ----------------------------------------------------------------------
	nSeq := c.N(1800, 16000)
	maxOps := c.N(80, 140)
	tamperBudget := c.N(300, 2000)
	if c.Search {
		nSeq *= 2
	}
	reported := 0
	for si := 0; si < nSeq; si++ {
		r := c.R.Fork()
		seq := genSeq(r, maxOps, &tamperBudget)
		before := res.TracesVsImpl
		fl, w, e := rn.runSeq(seq)
		if e != nil {
			return e
		}
		_ = before
		if drv != nil {
			res.TracesVsImpl++
		}
		nontrivial := w != nil && w.maxSize >= 2 && w.effDeletes >= 1
		res.Count(strings.Join(seq, "\n"), nontrivial)
		if w != nil {
			res.Dist(fmt.Sprintf("seq-maxkeys-%s", sizeClass(w.maxSize)))
			if w.secure {
				res.Dist("seq-secure-trie")
			} else {
				res.Dist("seq-plain-trie")
			}
		}
		if si < 2 {
			res.Sample(map[string]interface{}{"ops": clip(seq, 25)})
		}
		if fl != nil && reported < 5 {
			reported++
			kind := fl.kind
			shr := vh.Shrink(seq, func(ops []string) bool {
				f2, _, e2 := (&runner{drv: drv}).runSeq(ops)
				return e2 == nil && f2 != nil && f2.kind == kind
			})
			f2, _, _ := (&runner{drv: drv}).runSeq(shr)
			what := fl.what
			if f2 != nil {
				what = f2.what
			}
			rp := vh.WriteReplay(c.ReplayDir, "C13", fmt.Sprintf("seq-%d-%d", c.Seed, si), c.Seed, []string{kind + ": " + what}, shr)
			res.Fail(kind, "", what, rp)
		}
	}

	// ---- crash stream: Database.Commit of > 100 KB on a disk that dies between two batch writes ---------
	nCrash := c.N(6, 40)
	for i := 0; i < nCrash; i++ {
		l := fmt.Sprintf("CRASH %d %d %d", []int{1200, 2500, 4000}[c.R.Intn(3)], []int{60, 100, 120}[c.R.Intn(3)], c.R.U64()%1000000)
		fl, _, e := rn.runSeq([]string{l})
		if e != nil {
			return e
		}
		res.Count(l, true)
		if fl != nil && reported < 8 {
			reported++
			rp := vh.WriteReplay(c.ReplayDir, "C13", fmt.Sprintf("crash-%d-%d", c.Seed, i), c.Seed, []string{fl.kind + ": " + fl.what}, []string{l})
			res.Fail(fl.kind, "", fl.what, rp)
		}
	}

	// ---- StateDB.GetProof / GetStorageProof (consumers of Prove with a retaining Putter) ----------------
	nSP := c.N(25, 300)
	for i := 0; i < nSP; i++ {
		l := fmt.Sprintf("SPROOF %d %d", []int{3, 20, 60, 200}[c.R.Intn(4)], c.R.U64()%1000000)
		fl, _, e := rn.runSeq([]string{l})
		if e != nil {
			return e
		}
		res.Count(l, true)
		if fl != nil && reported < 9 {
			reported++
			rp := vh.WriteReplay(c.ReplayDir, "C13", fmt.Sprintf("stateproof-%d-%d", c.Seed, i), c.Seed, []string{fl.kind + ": " + fl.what}, []string{l})
			res.Fail(fl.kind, "", fl.what, rp)
		}
	}

	// ---- DeriveSha ---------------------------------------------------------------------------------
	nDS := c.N(200, 2000)
	for i := 0; i < nDS; i++ {
		l := genDerive(c.R)
		fl, _, e := rn.runSeq([]string{l})
		if e != nil {
			return e
		}
		res.Count(l, strings.Count(l, ",") >= 1)
		if drv != nil {
			res.TracesVsImpl++
		}
		if fl != nil && reported < 8 {
			reported++
			rp := vh.WriteReplay(c.ReplayDir, "C13", fmt.Sprintf("derive-%d-%d", c.Seed, i), c.Seed, []string{fl.kind + ": " + fl.what}, []string{l})
			res.Fail(fl.kind, "", fl.what, rp)
		}
	}

	// ---- malformed stream: hostile proof stores ----------------------------------------------------
	nH := c.N(9000, 120000)
	for i := 0; i < nH; i++ {
		l := genHostileVerify(c.R)
		before := rn.cnt["rawverify-err"]
		fl, _, e := rn.runSeq([]string{l})
		if e != nil {
			return e
		}
		res.Count(l, rn.cnt["rawverify-err"] == before || true)
		if drv != nil {
			res.TracesVsImpl++
		}
		if fl != nil && reported < 10 {
			reported++
			rp := vh.WriteReplay(c.ReplayDir, "C13", fmt.Sprintf("hostile-%d-%d", c.Seed, i), c.Seed, []string{fl.kind + ": " + fl.what}, []string{l})
			res.Fail(fl.kind, "", fl.what, rp)
		}
	}

	keys := make([]string, 0, len(rn.cnt))
	for k := range rn.cnt {
		keys = append(keys, k)
	}
	sort.Strings(keys)
	for _, k := range keys {
		res.DistN(k, rn.cnt[k])
	}
	res.Partial = append(res.Partial,
		"proof tampering changes every byte position of every proof node once (one random corruption per position; positions sub-sampled beyond 700 bytes per proof, counted under tamper-subsampled-proof), not all 255 alternative byte values",
		"Dereference is only issued for roots with an outstanding Reference (its contract); the live trie's base root keeps one reference, as core/blockchain.go does for block roots",
		"goroutine-concurrent use of trie.Database is not exercised")
	return nil
}

func sizeClass(n int) string {
	switch {
	case n < 2:
		return "0-1"
	case n < 5:
		return "2-4"
	case n < 10:
		return "5-9"
	default:
		return "10+"
	}
}

func clip(s []string, n int) []string {
	if len(s) > n {
		return append(append([]string{}, s[:n]...), fmt.Sprintf("… (%d more)", len(s)-n))
	}
	return s
}

func replay(c *vh.Ctx, body, comments []string) (bool, string) {
	quiet.Silence()
	var drv *vh.Driver
	if c.Driver != "" {
		drv, _ = vh.StartDriver(c.Driver)
		if drv != nil {
			defer drv.Close()
		}
	}
	fl, _, err := (&runner{drv: drv}).runSeq(body)
	if err != nil {
		return true, "driver error: " + err.Error()
	}
	if fl != nil {
		return true, fl.kind + ": " + fl.what
	}
	return false, "sequence passes (model and implementation agree, oracle satisfied)"
}
