package main

// Seeded structured generator of operation sequences (+ a malformed stream for VerifyProof).

import (
	"encoding/hex"
	"fmt"
	"strings"

	"github.com/youchainhq/go-youchain/crypto"
	"github.com/youchainhq/go-youchain/rlp"

	"verifharness/internal/vh"
)

var words = []string{"do", "dog", "doge", "dogglesworth", "doe", "horse", "house", "h", "", "a", "ab", "abc", "abd", "b"}

// keyPool builds an adversarial key set of one family.
func keyPool(r *vh.RNG, fam int) [][]byte {
	n := r.Range(3, 22)
	var ks [][]byte
	switch fam {
	case 0: // variable-length keys over a tiny alphabet: many keys are nibble-prefixes of others
		alpha := []byte{0x00, 0x01, 0x10, 0x11, 0x12, 0xff, 0xf0}
		for i := 0; i < n; i++ {
			l := r.Intn(5)
			k := make([]byte, l)
			for j := range k {
				k[j] = alpha[r.Intn(len(alpha))]
			}
			ks = append(ks, k)
		}
	case 1: // fixed 32-byte keys with long shared prefixes (the shape of secure-trie keys, adversarially close)
		base := r.Bytes(32)
		for i := 0; i < n; i++ {
			k := append([]byte{}, base...)
			switch r.Intn(5) {
			case 0:
				k[31] ^= byte(r.Range(1, 255))
			case 1:
				k[31] ^= byte(r.Range(1, 15)) // differs in the last nibble only
			case 2:
				k[0] ^= byte(r.Range(1, 255))
			case 3:
				j := r.Intn(32)
				k[j] ^= byte(1) << uint(r.Intn(8))
			case 4:
				k = r.Bytes(32)
			}
			ks = append(ks, k)
		}
	case 2: // dense two-byte keys: full nodes fill up and collapse again
		hi := byte(r.Intn(256))
		for i := 0; i < n; i++ {
			ks = append(ks, []byte{hi ^ byte(r.Intn(2)), byte(r.Intn(4))<<4 | byte(r.Intn(4))})
		}
	case 3: // words, some prefixes of others, and the empty key
		for i := 0; i < n; i++ {
			ks = append(ks, []byte(words[r.Intn(len(words))]))
		}
	case 4: // mixed lengths 0..40, extensions of one another
		var prev []byte
		for i := 0; i < n; i++ {
			var k []byte
			if prev != nil && r.Chance(50) {
				k = append(append([]byte{}, prev...), r.Bytes(r.Range(1, 3))...)
			} else {
				k = r.Bytes(r.Intn(41))
			}
			ks = append(ks, k)
			prev = k
		}
	case 5: // rlp(i) keys as DeriveSha uses them
		for i := 0; i < n; i++ {
			b, _ := rlp.EncodeToBytes(uint(r.Intn(300)))
			ks = append(ks, b)
		}
	}
	return ks
}

func genValue(r *vh.RNG) []byte {
	switch r.Intn(14) {
	case 0:
		return []byte{byte(r.Intn(128))} // single byte < 0x80: RLP encodes it as itself
	case 1:
		return []byte{byte(128 + r.Intn(128))}
	case 2, 3:
		return r.Bytes(r.Range(2, 6)) // small: nodes get embedded into their parents
	case 4:
		return r.Bytes(31)
	case 5:
		return r.Bytes(32)
	case 6:
		return r.Bytes(33)
	case 7:
		return r.Bytes(55)
	case 8:
		return r.Bytes(56)
	case 9:
		return r.Bytes(r.Range(57, 300))
	case 10:
		return []byte{0}
	case 11:
		return make([]byte, r.Range(1, 40)) // zeros
	default:
		return r.Bytes(r.Range(7, 30))
	}
}

// genSeq builds one operation sequence.
func genSeq(r *vh.RNG, maxOps int, tamperBudget *int) []string {
	secure := r.Chance(15)
	fam := r.Intn(6)
	if secure {
		fam = []int{0, 3, 4}[r.Intn(3)]
	}
	pool := keyPool(r, fam)
	pick := func() []byte {
		if r.Chance(4) {
			return r.Bytes(r.Intn(6)) // a key outside the pool
		}
		return pool[r.Intn(len(pool))]
	}
	var out []string
	if secure {
		out = append(out, "MODE sec")
	} else {
		out = append(out, "RESET")
	}
	if r.Chance(50) {
		out = append(out, fmt.Sprintf("LIM %d", r.Intn(4)))
	}
	nops := r.Range(maxOps/4, maxOps)
	copyAt := -1 // a second live trie from here on (25 % of the sequences), taken mid-history
	if r.Chance(25) {
		copyAt = r.Range(2, nops/2+2)
	}
	w := []int{40, 14, 10, 5, 3, 2, 6, 1, 5, 2, 1, 2, 2, 3, 2, 1, 2}
	for i := 0; i < nops; i++ {
		if i == copyAt {
			out = append(out, "COPY")
		}
		mark := -1
		if copyAt >= 0 && i >= copyAt && r.Bool() {
			out = append(out, "") // placeholder replaced below by the @1-prefixed op
			mark = len(out) - 1
		}
		before := len(out)
		switch r.Weighted(w) {
		case 0:
			out = append(out, fmt.Sprintf("U %s %s", hx(pick()), hx(genValue(r))))
		case 1:
			if r.Bool() {
				out = append(out, "D "+hx(pick()))
			} else {
				out = append(out, fmt.Sprintf("U %s -", hx(pick())))
			}
		case 2:
			out = append(out, "G "+hx(pick()))
		case 3:
			out = append(out, "H")
		case 4:
			out = append(out, "I")
		case 5:
			if r.Bool() {
				out = append(out, "IS "+hx(pick()))
			} else {
				out = append(out, "IS "+hx(r.Bytes(r.Intn(4))))
			}
		case 6:
			lvl := 0
			if r.Chance(15) {
				lvl = r.Range(1, 3)
			}
			out = append(out, fmt.Sprintf("P %s %d", hx(pick()), lvl))
		case 7:
			if *tamperBudget > 0 {
				*tamperBudget--
				out = append(out, fmt.Sprintf("T %s %d", hx(pick()), r.U64()%1000000))
			}
		case 8:
			out = append(out, "C")
		case 9:
			out = append(out, fmt.Sprintf("R %d", r.Intn(8)))
		case 10:
			out = append(out, fmt.Sprintf("RF %d", r.Intn(8)))
		case 11:
			out = append(out, fmt.Sprintf("DBC %d", r.Intn(8)))
		case 12:
			out = append(out, fmt.Sprintf("REF %d", r.Intn(8)))
		case 13:
			out = append(out, fmt.Sprintf("DEREF %d", r.Intn(8)))
		case 14:
			out = append(out, fmt.Sprintf("CAP %d", []int{0, 1, 200, 600, 2000, 100000}[r.Intn(6)]))
		case 15:
			out = append(out, fmt.Sprintf("LIM %d", r.Intn(4)))
		case 16:
			out = append(out, "CHK")
		}
		if mark >= 0 {
			// address the op just generated (if any) to the second trie
			if len(out) > before {
				out[mark] = "@1 " + out[len(out)-1]
				out = out[:len(out)-1]
			} else {
				out = out[:mark]
			}
		}
	}
	if copyAt >= 0 {
		out = append(out, "@1 H", "@1 I")
		for i := 0; i < 2; i++ {
			out = append(out, fmt.Sprintf("@1 P %s 0", hx(pick())))
		}
	}
	out = append(out, "H", "I", "CHK")
	for i := 0; i < 2; i++ {
		out = append(out, fmt.Sprintf("P %s 0", hx(pick())))
	}
	if *tamperBudget > 0 && r.Chance(40) {
		*tamperBudget--
		out = append(out, fmt.Sprintf("T %s %d", hx(pick()), r.U64()%1000000))
	}
	return out
}

func genDerive(r *vh.RNG) string {
	n := []int{0, 1, 2, 3, 16, 17, 127, 128, 129, 130, 200, 260}[r.Intn(12)]
	if r.Chance(50) {
		n = r.Intn(40)
	}
	items := make([]string, n)
	for i := range items {
		items[i] = hex.EncodeToString(append([]byte{0xc0 | byte(r.Intn(16))}, r.Bytes(r.Intn(60))...))
	}
	if n == 0 {
		return "DS -"
	}
	return "DS " + strings.Join(items, ",")
}

// ---- malformed stream: hostile proof stores -------------------------------------------------------

func rstr(b []byte) rlp.RawValue { x, _ := rlp.EncodeToBytes(b); return x }
func rlist(e ...rlp.RawValue) rlp.RawValue {
	x, _ := rlp.EncodeToBytes(e)
	return x
}

// genHostileNode returns bytes that are meant to reach deep into decodeNode.
func genHostileNode(r *vh.RNG, depth int) []byte {
	switch r.Intn(12) {
	case 0:
		return r.Bytes(r.Intn(40)) // garbage
	case 1: // short node, assorted compact keys (incl. empty, bad flags) and values
		keys := [][]byte{{}, {0x00}, {0x20}, {0x10}, {0x31}, {0x3f}, {0x40}, {0xf0, 0x12}, {0x20, 0x12, 0x34}, {0x00, 0x12}, {0x11, 0x23}, {0x80}, {0x05}}
		k := keys[r.Intn(len(keys))]
		switch r.Intn(5) {
		case 0:
			return rlist(rstr(k), rstr(r.Bytes(r.Intn(40))))
		case 1:
			return rlist(rstr(k), rstr(r.Bytes(32)))
		case 2:
			if depth < 4 {
				return rlist(rstr(k), genHostileNode(r, depth+1))
			}
			return rlist(rstr(k), rstr(nil))
		case 3:
			return rlist(rstr(k), rstr(nil))
		default:
			return rlist(rlist(rstr(k)), rstr([]byte{1}))
		}
	case 2, 3: // full node with assorted children
		var e []rlp.RawValue
		n := 17
		if r.Chance(15) {
			n = []int{0, 1, 3, 16, 18}[r.Intn(5)]
		}
		for i := 0; i < n; i++ {
			switch r.Intn(7) {
			case 0:
				e = append(e, rstr(r.Bytes(32)))
			case 1:
				if depth < 3 {
					e = append(e, genHostileNode(r, depth+1))
				} else {
					e = append(e, rstr(nil))
				}
			case 2:
				e = append(e, rstr(r.Bytes(r.Intn(34))))
			case 3:
				e = append(e, rlist(rstr([]byte{0x20}), rstr(r.Bytes(r.Intn(5)))))
			default:
				e = append(e, rstr(nil))
			}
		}
		return rlist(e...)
	case 4: // non-canonical sizes
		return [][]byte{{0xc2, 0x81, 0x05}, {0xb8, 0x01, 0x00}, {0xf8, 0x02, 0x20, 0x05}, {0xc3, 0x20, 0x81, 0x05}, {0xf9, 0x00, 0x38}, {0xc1}, {0xc0}, {0x80}, {0x05}, {0xf8}}[r.Intn(10)]
	case 5: // list longer than the input / trailing bytes
		b := rlist(rstr([]byte{0x20}), rstr([]byte("v")))
		if r.Bool() {
			return append(b, r.Bytes(r.Range(1, 3))...)
		}
		return b[:len(b)-1]
	case 6: // oversized embedded node
		return rlist(rstr([]byte{0x00}), rlist(rstr([]byte{0x20}), rstr(r.Bytes(r.Range(27, 40)))))
	case 7: // chain of embedded extension nodes with empty hex keys
		n := rlist(rstr([]byte{0x20}), rstr([]byte{7}))
		for i := 0; i < r.Range(1, 8); i++ {
			n = rlist(rstr([]byte{0x00}), n)
		}
		return n
	case 8: // 17-list whose 17th element is a list / a byte
		var e []rlp.RawValue
		for i := 0; i < 16; i++ {
			e = append(e, rstr(nil))
		}
		if r.Bool() {
			e = append(e, rlist(rstr([]byte{1})))
		} else {
			e = append(e, rstr([]byte{byte(r.Intn(256))}))
		}
		return rlist(e...)
	case 9: // child is a single byte (rlp kind Byte, not String)
		var e []rlp.RawValue
		for i := 0; i < 17; i++ {
			e = append(e, rstr(nil))
		}
		e[r.Intn(16)] = rlp.RawValue{byte(r.Intn(128))}
		return rlist(e...)
	default:
		return rlist(rstr([]byte{0x20}), rstr(r.Bytes(r.Intn(3))))
	}
}

func genHostileVerify(r *vh.RNG) string {
	n := r.Range(1, 3)
	var blobs [][]byte
	for i := 0; i < n; i++ {
		blobs = append(blobs, genHostileNode(r, 0))
	}
	// link: make node 0 point to node 1 when node 0 is a full node? keep simple: root = hash of blob 0
	root := crypto.Keccak256(blobs[0])
	key := [][]byte{{}, {0x00}, {0x12}, {0x12, 0x34}, {0xff}, r.Bytes(2)}[r.Intn(6)]
	var parts []string
	for _, b := range blobs {
		parts = append(parts, hex.EncodeToString(crypto.Keccak256(b))+":"+hx(b))
	}
	return fmt.Sprintf("V %s %s %s", hx(root), hx(key), strings.Join(parts, ","))
}
