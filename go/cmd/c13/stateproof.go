package main

// The node's own consumers of Trie.Prove: core/state.StateDB.GetProof / GetStorageProof hand Prove a Putter that
// RETAINS the slices it is given (core/state.proofList). The proof they return must verify against the roots.

import (
	"bytes"
	"fmt"
	"math/big"

	"github.com/youchainhq/go-youchain/common"
	"github.com/youchainhq/go-youchain/core/state"
	"github.com/youchainhq/go-youchain/crypto"
	"github.com/youchainhq/go-youchain/rlp"
	"github.com/youchainhq/go-youchain/trie"
	"github.com/youchainhq/go-youchain/youdb"

	"verifharness/internal/vh"
)

// keepPutter keeps the slices it is given, exactly as core/state.proofList does.
type keepPutter struct{ vals [][]byte }

func (p *keepPutter) Put(k, v []byte) error { p.vals = append(p.vals, v); return nil }

func verifyBlobs(root []byte, key []byte, blobs [][]byte) string {
	pdb := youdb.NewMemDatabase()
	for _, b := range blobs {
		pdb.Put(crypto.Keccak256(b), b)
	}
	return goVerify(root, key, pdb)
}

// stateProofCase: `SPROOF n seed` — a small StateDB with n accounts (one with storage), committed or not;
// GetProof / GetStorageProof must verify against the state root / the account's storage root.
func (r *runner) stateProofCase(li int, line string, n int, seed uint64) (fl *seqFail) {
	fail := func(f string, a ...interface{}) *seqFail {
		return &seqFail{kind: "oracle", line: li, what: fmt.Sprintf("line %d `%s`: ", li, line) + fmt.Sprintf(f, a...)}
	}
	defer func() {
		if rec := recover(); rec != nil {
			fl = fail("panic: %v", rec)
		}
	}()
	rng := vh.NewRNG(seed)
	sdb, err := state.New(common.Hash{}, common.Hash{}, common.Hash{}, state.NewDatabase(youdb.NewMemDatabase()))
	if err != nil {
		return fail("state.New: %v", err)
	}
	var addrs []common.Address
	for i := 0; i < n; i++ {
		a := common.BytesToAddress(rng.Bytes(20))
		addrs = append(addrs, a)
		sdb.AddBalance(a, new(big.Int).SetUint64(rng.U64()%1000000+1))
		sdb.SetNonce(a, uint64(i+1))
	}
	holder := addrs[0]
	var slots []common.Hash
	for i := 0; i < n; i++ {
		k := common.BytesToHash(rng.Bytes(32))
		slots = append(slots, k)
		sdb.SetState(holder, k, common.BytesToHash(rng.Bytes(rng.Range(1, 32))))
	}
	var root common.Hash
	if rng.Bool() {
		root, _, _, err = sdb.Commit(false)
		if err != nil {
			return fail("Commit: %v", err)
		}
	} else {
		root, _, _ = sdb.IntermediateRoot(false)
	}
	for i := 0; i < 6 && i < len(addrs); i++ {
		a := addrs[rng.Intn(len(addrs))]
		proof, err := sdb.GetProof(a)
		if err != nil {
			return fail("GetProof: %v", err)
		}
		r.dist(fmt.Sprintf("stateproof-account-nodes-%d", len(proof)))
		if g := verifyBlobs(root.Bytes(), crypto.Keccak256(a.Bytes()), proof); len(g) < 4 || g[:4] != "val:" {
			return fail("StateDB.GetProof(%x) does not verify against the state root: %s", a, g)
		}
	}
	st := sdb.StorageTrie(holder)
	if st == nil {
		return fail("no storage trie for the holder account")
	}
	sroot := st.Hash()
	for i := 0; i < 6; i++ {
		k := slots[rng.Intn(len(slots))]
		proof, err := sdb.GetStorageProof(holder, k)
		if err != nil {
			return fail("GetStorageProof: %v", err)
		}
		g := verifyBlobs(sroot.Bytes(), crypto.Keccak256(k.Bytes()), proof)
		var want []byte
		if v := sdb.GetState(holder, k); v != (common.Hash{}) {
			want, _ = rlp.EncodeToBytes(bytes.TrimLeft(v.Bytes(), "\x00"))
		}
		exp := "absent"
		if want != nil {
			exp = fmt.Sprintf("val:%x", want)
		}
		r.dist(fmt.Sprintf("stateproof-storage-nodes-%d", len(proof)))
		if g != exp {
			return fail("StateDB.GetStorageProof(%x, %x) verifies to %s against the storage root, the slot holds %s", holder, k, g, exp)
		}
	}
	_ = trie.VerifyProof
	return nil
}
