package main

// Proof tampering: every single-byte corruption (one flipped bit per byte position, positions
// sub-sampled only beyond a cap that the result file reports), truncation/extension, node removal
// and node substitution.  Each tampered proof is verified
//   (raw)   against a store that keeps the ORIGINAL hash keys (Go's VerifyProof does not re-hash what
//           it reads): pure correspondence with the Lean `verifyRaw`, including decode errors and panics;
//   (keyed) against a store keyed by Keccak(blob), i.e. the way a verifier that received a list of
//           blobs builds its store: here the implementation-level oracle applies — the answer must be
//           the honest one or an error, never a different value/absence.

import (
	"bytes"
	"encoding/hex"
	"fmt"
	"strings"

	"github.com/youchainhq/go-youchain/crypto"
	"github.com/youchainhq/go-youchain/rlp"
	"github.com/youchainhq/go-youchain/youdb"

	"verifharness/internal/vh"
)

const tamperCap = 700 // byte positions per proof before sub-sampling

func (r *runner) tamper(w *world, li int, line string, root, key []byte, blobs [][]byte, honest string, seed uint64) (*seqFail, error) {
	rng := vh.NewRNG(seed)
	keys := make([][]byte, len(blobs))
	for i, b := range blobs {
		keys[i] = crypto.Keccak256(b)
	}
	total := 0
	for _, b := range blobs {
		total += len(b)
	}
	check := func(what string, mod [][]byte) (*seqFail, error) {
		// raw store: original keys, modified blobs (nil = removed)
		raw := youdb.NewMemDatabase()
		var rawParts, keyedParts []string
		keyed := youdb.NewMemDatabase()
		for i, b := range mod {
			if b == nil {
				continue
			}
			if has, _ := raw.Has(keys[i]); !has {
				raw.Put(keys[i], b)
			}
			rawParts = append(rawParts, hex.EncodeToString(keys[i])+":"+hx(b))
			kb := crypto.Keccak256(b)
			if has, _ := keyed.Has(kb); !has {
				keyed.Put(kb, b)
			}
			keyedParts = append(keyedParts, hx(b))
		}
		gRaw := goVerify(root, key, raw)
		gKeyed := goVerify(root, key, keyed)
		r.dist("tamper-raw-" + strings.SplitN(gRaw, ":", 2)[0])
		r.dist("tamper-keyed-" + strings.SplitN(gKeyed, ":", 2)[0])
		if gRaw != honest && gRaw != "err" && gRaw != "crash" {
			r.dist("tamper-raw-different-answer(unkeyed store)")
		}
		if gKeyed != honest && gKeyed != "err" {
			return &seqFail{kind: "oracle", line: li, what: fmt.Sprintf("line %d `%s`: tampered proof (%s), stored under the hashes of its blobs, verifies to %s; the honest answer is %s", li, trunc(line, 80), what, gKeyed, honest)}, nil
		}
		if r.drv != nil {
			rs, ks := "-", "-"
			if len(rawParts) > 0 {
				rs = strings.Join(rawParts, ",")
				ks = strings.Join(keyedParts, ",")
			}
			m, e := r.ask(fmt.Sprintf("V %s %s %s", hx(root), hx(key), rs))
			if e != nil {
				return nil, e
			}
			if m != gRaw {
				return &seqFail{kind: "correspondence", line: li, what: fmt.Sprintf("line %d `%s`: tampered proof (%s) raw store: go=%s lean=%s", li, trunc(line, 80), what, gRaw, m)}, nil
			}
			m, e = r.ask(fmt.Sprintf("VK %s %s %s", hx(root), hx(key), ks))
			if e != nil {
				return nil, e
			}
			if m != gKeyed {
				return &seqFail{kind: "correspondence", line: li, what: fmt.Sprintf("line %d `%s`: tampered proof (%s) keyed store: go=%s lean=%s", li, trunc(line, 80), what, gKeyed, m)}, nil
			}
			if r.res != nil {
				r.res.TracesVsImpl += 2
			}
		}
		return nil, nil
	}
	clone := func() [][]byte {
		o := make([][]byte, len(blobs))
		for i, b := range blobs {
			o[i] = append([]byte{}, b...)
		}
		return o
	}
	// 1. every byte position: one flipped bit (or a substituted byte of interest)
	stride := 1
	if total > tamperCap {
		stride = (total + tamperCap - 1) / tamperCap
		r.dist("tamper-subsampled-proof")
	} else {
		r.dist("tamper-exhaustive-proof")
	}
	pos := 0
	off := rng.Intn(stride)
	for i, b := range blobs {
		for j := range b {
			pos++
			if (pos+off)%stride != 0 {
				continue
			}
			m := clone()
			switch rng.Intn(6) {
			case 0:
				m[i][j] = 0x80
			case 1:
				m[i][j] ^= 0x01
			default:
				m[i][j] ^= byte(1) << uint(rng.Intn(8))
			}
			if bytes.Equal(m[i], b) {
				m[i][j] ^= 0xff
			}
			if f, e := check(fmt.Sprintf("byte %d of node %d changed %02x->%02x", j, i, b[j], m[i][j]), m); f != nil || e != nil {
				return f, e
			}
		}
	}
	// 2. per node: truncate, extend, remove, substitute
	for i := range blobs {
		m := clone()
		m[i] = m[i][:len(m[i])-1]
		if f, e := check(fmt.Sprintf("node %d truncated", i), m); f != nil || e != nil {
			return f, e
		}
		m = clone()
		m[i] = append(m[i], byte(rng.Intn(256)))
		if f, e := check(fmt.Sprintf("node %d extended", i), m); f != nil || e != nil {
			return f, e
		}
		m = clone()
		m[i] = nil
		if f, e := check(fmt.Sprintf("node %d removed", i), m); f != nil || e != nil {
			return f, e
		}
		for j := range blobs {
			if j != i {
				m = clone()
				m[i] = append([]byte{}, blobs[j]...)
				if f, e := check(fmt.Sprintf("node %d replaced by node %d", i, j), m); f != nil || e != nil {
					return f, e
				}
			}
		}
		for n := 0; n < 3 && len(w.pool) > 0; n++ {
			m = clone()
			m[i] = append([]byte{}, w.pool[rng.Intn(len(w.pool))]...)
			if f, e := check(fmt.Sprintf("node %d replaced by a node of an earlier proof", i), m); f != nil || e != nil {
				return f, e
			}
		}
		// crafted substitutes: a well-formed node that says something else
		for _, c := range crafted(blobs[i], rng) {
			m = clone()
			m[i] = c
			if f, e := check(fmt.Sprintf("node %d replaced by a crafted well-formed node", i), m); f != nil || e != nil {
				return f, e
			}
		}
	}
	return nil, nil
}

// crafted returns well-formed variants of a node encoding: changed leaf value, removed / redirected child,
// value planted in slot 17, key nibble changed, empty compact key.
func crafted(blob []byte, rng *vh.RNG) [][]byte {
	var elems []rlp.RawValue
	if err := rlp.DecodeBytes(blob, &elems); err != nil {
		return nil
	}
	enc := func(e []rlp.RawValue) []byte {
		b, err := rlp.EncodeToBytes(e)
		if err != nil {
			return nil
		}
		return b
	}
	cp := func() []rlp.RawValue {
		o := make([]rlp.RawValue, len(elems))
		for i, e := range elems {
			o[i] = append(rlp.RawValue{}, e...)
		}
		return o
	}
	str := func(b []byte) rlp.RawValue { x, _ := rlp.EncodeToBytes(b); return x }
	var out [][]byte
	switch len(elems) {
	case 2:
		e := cp()
		e[1] = str([]byte("forged value"))
		out = append(out, enc(e))
		e = cp()
		e[1] = str(nil)
		out = append(out, enc(e))
		e = cp()
		e[1] = str(rng.Bytes(32))
		out = append(out, enc(e))
		e = cp()
		e[0] = str(nil) // empty compact key
		out = append(out, enc(e))
		e = cp()
		e[0] = str([]byte{0x20})
		out = append(out, enc(e))
		e = cp()
		e[0] = str([]byte{0x00})
		out = append(out, enc(e))
		var kb []byte
		if rlp.DecodeBytes(elems[0], &kb) == nil && len(kb) > 0 {
			e = cp()
			k2 := append([]byte{}, kb...)
			k2[0] ^= 0x20 // flip the leaf flag
			e[0] = str(k2)
			out = append(out, enc(e))
			e = cp()
			k2 = append([]byte{}, kb...)
			k2[len(k2)-1] ^= 0x01
			e[0] = str(k2)
			out = append(out, enc(e))
		}
	case 17:
		for n := 0; n < 4; n++ {
			e := cp()
			i := rng.Intn(17)
			switch rng.Intn(4) {
			case 0:
				e[i] = str(nil)
			case 1:
				e[i] = str(rng.Bytes(32))
			case 2:
				e[16] = str([]byte("planted"))
			case 3:
				e[i] = enc([]rlp.RawValue{str([]byte{0x20}), str([]byte("embedded forged leaf"))})
			}
			out = append(out, enc(e))
		}
		e := cp()
		out = append(out, enc(e[:16]))
		out = append(out, enc(append(e, str(nil))))
	}
	var res [][]byte
	for _, o := range out {
		if o != nil {
			res = append(res, o)
		}
	}
	return res
}
