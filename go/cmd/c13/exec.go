package main

// Execution of one operation sequence on the REAL trie code, with the implementation-level oracle
// (in-harness map + independent root calculator + snapshot comparison), and — line by line — on the
// Lean model through the driver.
//
// Lines (hex byte strings, "-" = empty):
//   RESET | MODE sec                   fresh world (plain Trie / SecureTrie)
//   U k v | D k | G k | H | I | IS s   Update / Delete / Get / Hash / iterate (from s)
//   P k lvl                            Prove + VerifyProof
//   T k seed                           tamper battery on the proof of k
//   C | LIM n                          Trie.Commit (+ Reference of the new root) | SetCacheLimit
//   R i | RF i                         reopen root i on the same Database | on a fresh Database over the disk
//   DBC i | REF i | DEREF i | CAP n    trie.Database Commit / Reference / Dereference / Cap
//   CHK                                every protected root is still fully readable and equals its snapshot
//   DS items                           types.DeriveSha
//   V root k db | VK root k blobs      raw / keyed VerifyProof on an arbitrary store (malformed stream)

import (
	"bytes"
	"encoding/hex"
	"fmt"
	"sort"
	"strconv"
	"strings"

	"github.com/youchainhq/go-youchain/common"
	"github.com/youchainhq/go-youchain/core/types"
	"github.com/youchainhq/go-youchain/crypto"
	"github.com/youchainhq/go-youchain/trie"
	"github.com/youchainhq/go-youchain/youdb"

	"verifharness/internal/vh"
)

func hx(b []byte) string {
	if len(b) == 0 {
		return "-"
	}
	return hex.EncodeToString(b)
}
func unhx(s string) []byte {
	if s == "-" || s == "" {
		return nil
	}
	b, err := hex.DecodeString(s)
	if err != nil {
		return nil
	}
	return b
}

type rootRec struct {
	hash      common.Hash
	snap      map[string][]byte // content as the underlying trie sees it (hashed keys for a SecureTrie)
	user      map[string][]byte // content by user key (the oracle's own record; preimages are not relied upon)
	refs      int
	persisted bool
}

type world struct {
	secure  bool
	disk    *recDisk
	db      *trie.Database
	tr      *trie.Trie
	st      *trie.SecureTrie
	content map[string][]byte // oracle map (by user key)
	roots   []*rootRec
	base    int // index of the root the live trie was opened from / last committed to (-1 = none)
	limit   uint16
	pool    [][]byte // proof blobs seen so far (for node substitution)
	known   map[common.Hash]bool // hashes the Lean Database model currently has in memory
	copied  bool                 // a second live trie exists (op COPY)
	cur     int                  // the side the active fields (tr, st, content, touched, base) belong to
	other   *sideState           // the inactive side
	expectOrder string           // order of node writes of the last Database.Commit / Cap ("n:digest")
	touched map[string]bool      // user keys written through the live SecureTrie object (their preimages must be findable)
	// statistics
	maxSize    int
	effDeletes int
}

// sideState is what differs between the two live tries after a COPY.
type sideState struct {
	tr      *trie.Trie
	st      *trie.SecureTrie
	content map[string][]byte
	touched map[string]bool
	base    int
}

// copyTrie makes the second live trie: SecureTrie.Copy, or the struct copy it performs for a plain Trie.
func (w *world) copyTrie() {
	// (the copy of a SecureTrie starts with an empty preimage cache: no key counts as written through it yet)
	o := &sideState{content: copyMap(w.content), touched: map[string]bool{}, base: w.base}
	if w.secure {
		o.st = w.st.Copy()
	} else {
		cp := *w.tr
		o.tr = &cp
	}
	w.other = o
	w.copied = true
}

func (w *world) switchSide() {
	o := w.other
	w.other = &sideState{tr: w.tr, st: w.st, content: w.content, touched: w.touched, base: w.base}
	w.tr, w.st, w.content, w.touched, w.base = o.tr, o.st, o.content, o.touched, o.base
	w.cur = 1 - w.cur
}

func newWorld(secure bool) *world {
	w := &world{secure: secure, content: map[string][]byte{}, base: -1, known: map[common.Hash]bool{}}
	w.disk = newRecDisk()
	w.db = trie.NewDatabase(w.disk)
	w.open(common.Hash{})
	return w
}

func (w *world) open(root common.Hash) error {
	w.touched = map[string]bool{}
	if w.secure {
		st, err := trie.NewSecure(root, w.db, w.limit)
		if err != nil {
			return err
		}
		w.st = st
		return nil
	}
	tr, err := trie.New(root, w.db)
	if err != nil {
		return err
	}
	tr.SetCacheLimit(w.limit)
	w.tr = tr
	return nil
}

func copyMap(m map[string][]byte) map[string][]byte {
	o := make(map[string][]byte, len(m))
	for k, v := range m {
		o[k] = v
	}
	return o
}

type recPutter struct{ keys, vals [][]byte }

func (p *recPutter) Put(k, v []byte) error {
	p.keys = append(p.keys, common.CopyBytes(k))
	p.vals = append(p.vals, common.CopyBytes(v))
	return nil
}

// guarded runs f and converts a panic into ("crash", msg)
func guarded(f func() string) (out string) {
	defer func() {
		if r := recover(); r != nil {
			out = "crash"
		}
	}()
	return f()
}

func goVerify(root []byte, key []byte, db *youdb.MemDatabase) string {
	return guarded(func() string {
		v, _, err := trie.VerifyProof(common.BytesToHash(root), key, db)
		if err != nil {
			return "err"
		}
		if v == nil {
			return "absent"
		}
		return "val:" + hex.EncodeToString(v)
	})
}

func iterate(it *trie.Iterator) (string, [][2][]byte) {
	var parts []string
	var kvs [][2][]byte
	for it.Next() {
		k, v := common.CopyBytes(it.Key), common.CopyBytes(it.Value)
		kvs = append(kvs, [2][]byte{k, v})
		parts = append(parts, hx(k)+":"+hx(v))
	}
	if it.Err != nil {
		return "itererr:" + it.Err.Error(), kvs
	}
	if len(parts) == 0 {
		return "-", kvs
	}
	return strings.Join(parts, ";"), kvs
}

func expectLeaves(content map[string][]byte, start []byte, haveStart bool) string {
	ps := sortedHex(content)
	var parts []string
	var sh []byte
	if haveStart {
		sh = toHexT(start)
		sh = sh[:len(sh)-1]
	}
	for _, p := range ps {
		if haveStart && bytes.Compare(p.k, sh) < 0 {
			continue
		}
		kb := make([]byte, 0, len(p.k)/2)
		for i := 0; i+1 < len(p.k)-1; i += 2 {
			kb = append(kb, p.k[i]<<4|p.k[i+1])
		}
		parts = append(parts, hx(kb)+":"+hx(p.v))
	}
	if len(parts) == 0 {
		return "-"
	}
	return strings.Join(parts, ";")
}

// failure of a sequence
type seqFail struct {
	kind string // correspondence | oracle | crash
	what string
	line int
}

type runner struct {
	drv   *vh.Driver
	res   *vh.Result // may be nil (shrinking / replay)
	quick bool
	// counters for the distribution
	cnt map[string]int
}

func (r *runner) dist(k string) {
	if r.cnt != nil {
		r.cnt[k]++
	}
}

func (r *runner) ask(l string) (string, error) {
	if r.drv == nil {
		return "", nil
	}
	return r.drv.Ask(l)
}

func protected(rr *rootRec) bool { return rr.refs > 0 || rr.persisted }

// runSeq executes the lines; returns the first failure (nil if none) and sequence statistics.
func (r *runner) runSeq(lines []string) (fail *seqFail, w *world, err error) {
	mkfail := func(kind string, i int, f string, a ...interface{}) *seqFail {
		return &seqFail{kind: kind, what: fmt.Sprintf("line %d `%s`: ", i, trunc(lines[i], 120)) + fmt.Sprintf(f, a...), line: i}
	}
	for i, l := range lines {
		f := strings.Fields(l)
		if len(f) == 0 {
			continue
		}
		// `@1 op …` addresses the second live trie (after COPY); everything else the first
		side := 0
		if strings.HasPrefix(f[0], "@") {
			if f[0] == "@1" {
				side = 1
			}
			f = f[1:]
			if len(f) == 0 {
				continue
			}
		}
		if w != nil && w.copied && side != w.cur {
			w.switchSide()
			if _, e := r.ask(fmt.Sprintf("SIDE %d", w.cur)); e != nil {
				return nil, w, e
			}
		}
		if side == 1 && (w == nil || !w.copied) {
			r.dist("skipped-no-second-trie")
			continue
		}
		if w == nil && f[0] != "RESET" && f[0] != "MODE" && f[0] != "DS" && f[0] != "V" && f[0] != "VK" && f[0] != "CRASH" && f[0] != "SPROOF" {
			w = newWorld(false)
			if _, e := r.ask("RESET"); e != nil {
				return nil, w, e
			}
			if _, e := r.ask("DBRESET"); e != nil {
				return nil, w, e
			}
		}
		r.dist("op-" + f[0])
		switch f[0] {
		case "RESET", "MODE":
			w = newWorld(f[0] == "MODE" && len(f) > 1 && f[1] == "sec")
			if _, e := r.ask("RESET"); e != nil {
				return nil, w, e
			}
			if _, e := r.ask("DBRESET"); e != nil {
				return nil, w, e
			}
		case "U", "D":
			if len(f) < 2 {
				continue
			}
			k := unhx(f[1])
			var v []byte
			if f[0] == "U" && len(f) > 2 {
				v = unhx(f[2])
			}
			g := guarded(func() string {
				var e error
				switch {
				case w.secure && f[0] == "D":
					e = w.st.TryDelete(k)
				case w.secure:
					e = w.st.TryUpdate(k, v)
				case f[0] == "D":
					e = w.tr.TryDelete(k)
				default:
					e = w.tr.TryUpdate(k, v)
				}
				if e != nil {
					return "err:" + e.Error()
				}
				return "ok"
			})
			if len(v) == 0 {
				if _, ok := w.content[string(k)]; ok {
					w.effDeletes++
					r.dist("delete-hit")
				} else {
					r.dist("delete-miss")
				}
				delete(w.content, string(k))
			} else {
				w.content[string(k)] = v
				w.touched[string(k)] = true
				r.dist(fmt.Sprintf("vlen-%s", lenClass(len(v))))
			}
			if len(w.content) > w.maxSize {
				w.maxSize = len(w.content)
			}
			if g != "ok" {
				return mkfail("oracle", i, "update failed on the real trie: %s", g), w, nil
			}
			cmd := "U"
			if w.secure {
				cmd = "SU"
			}
			m, e := r.ask(fmt.Sprintf("%s %s %s", cmd, hx(k), hx(v)))
			if e != nil {
				return nil, w, e
			}
			if r.drv != nil && m != g {
				return mkfail("correspondence", i, "go=%s lean=%s", g, m), w, nil
			}
		case "G":
			k := unhx(f[1])
			g := guarded(func() string {
				var v []byte
				var e error
				if w.secure {
					v, e = w.st.TryGet(k)
				} else {
					v, e = w.tr.TryGet(k)
				}
				if e != nil {
					return "err:" + e.Error()
				}
				if v == nil {
					return "absent"
				}
				return "val:" + hex.EncodeToString(v)
			})
			exp := "absent"
			if v, ok := w.content[string(k)]; ok {
				exp = "val:" + hex.EncodeToString(v)
				r.dist("get-hit")
			} else {
				r.dist("get-miss")
			}
			if g != exp {
				return mkfail("oracle", i, "Get returned %s, the surviving content says %s", g, exp), w, nil
			}
			cmd := "G"
			if w.secure {
				cmd = "SG"
			}
			m, e := r.ask(cmd + " " + hx(k))
			if e != nil {
				return nil, w, e
			}
			if r.drv != nil && m != g {
				return mkfail("correspondence", i, "go=%s lean=%s", g, m), w, nil
			}
		case "H":
			g := guarded(func() string {
				if w.secure {
					return hex.EncodeToString(w.st.Hash().Bytes())
				}
				return hex.EncodeToString(w.tr.Hash().Bytes())
			})
			exp := hex.EncodeToString(refRoot(w.hashedContent()))
			if g != exp {
				return mkfail("oracle", i, "Hash() = %s but the standard Merkle-Patricia root of the surviving content is %s", g, exp), w, nil
			}
			m, e := r.ask("H")
			if e != nil {
				return nil, w, e
			}
			if r.drv != nil && m != g {
				return mkfail("correspondence", i, "root go=%s lean=%s", g, m), w, nil
			}
			r.dist("root-compared")
			// the Lean definition of the standard construction (Spec.lean: specRoot), fed with the oracle's content
			if r.drv != nil {
				hc := w.hashedContent()
				ks := make([]string, 0, len(hc))
				for k := range hc {
					ks = append(ks, k)
				}
				sort.Strings(ks)
				parts := make([]string, 0, len(ks))
				for j := len(ks) - 1; j >= 0; j-- { // any order must do: the construction is a function of the map
					parts = append(parts, hx([]byte(ks[j]))+":"+hx(hc[ks[j]]))
				}
				ps := "-"
				if len(parts) > 0 {
					ps = strings.Join(parts, ";")
				}
				m, e := r.ask("SR " + ps)
				if e != nil {
					return nil, w, e
				}
				if m != g {
					return mkfail("correspondence", i, "Lean specRoot of the surviving content = %s, Hash() = %s", m, g), w, nil
				}
				r.dist("specroot-compared")
			}
		case "I", "IS":
			var start []byte
			have := f[0] == "IS"
			if have && len(f) > 1 {
				start = unhx(f[1])
			}
			var kvs [][2][]byte
			g := guarded(func() string {
				var it *trie.Iterator
				if w.secure {
					it = trie.NewIterator(w.st.NodeIterator(start))
				} else {
					it = trie.NewIterator(w.tr.NodeIterator(start))
				}
				s, x := iterate(it)
				kvs = x
				return s
			})
			exp := expectLeaves(w.hashedContent(), start, have)
			if g != exp {
				return mkfail("oracle", i, "iteration yields %s, surviving content (ascending hex order) is %s", trunc(g, 300), trunc(exp, 300)), w, nil
			}
			if prefixFree(w.hashedContent()) {
				for j := 0; j+1 < len(kvs); j++ {
					if bytes.Compare(kvs[j][0], kvs[j+1][0]) >= 0 {
						return mkfail("oracle", i, "prefix-free key set iterated out of ascending key order at %d", j), w, nil
					}
				}
				r.dist("iter-prefixfree")
			} else {
				r.dist("iter-with-prefix-keys")
			}
			// Iterator.Prove (nodeIterator.LeafProof) at one leaf must be the proof Trie.Prove builds for that key
			if len(kvs) > 0 {
				j := i % len(kvs)
				what := guarded(func() string {
					var it *trie.Iterator
					if w.secure {
						it = trie.NewIterator(w.st.NodeIterator(start))
					} else {
						it = trie.NewIterator(w.tr.NodeIterator(start))
					}
					for n := 0; n <= j; n++ {
						if !it.Next() {
							return "iterator ended early"
						}
					}
					lp := it.Prove()
					var rp recPutter
					var e error
					if w.secure {
						e = w.st.Prove(it.Key, 0, &rp)
					} else {
						e = w.tr.Prove(it.Key, 0, &rp)
					}
					if e != nil {
						return "Prove: " + e.Error()
					}
					if len(lp) != len(rp.vals) {
						return fmt.Sprintf("Iterator.Prove has %d nodes, Trie.Prove %d", len(lp), len(rp.vals))
					}
					for n := range lp {
						if !bytes.Equal(lp[n], rp.vals[n]) {
							return fmt.Sprintf("node %d differs", n)
						}
					}
					return "ok"
				})
				r.dist("iterator-leafproof-compared")
				if what != "ok" {
					return mkfail("oracle", i, "Iterator.Prove at leaf %d disagrees with Trie.Prove: %s", j, what), w, nil
				}
			}
			cmd := "I"
			if have {
				cmd = "IS " + hx(start)
			}
			m, e := r.ask(cmd)
			if e != nil {
				return nil, w, e
			}
			if r.drv != nil && m != g {
				return mkfail("correspondence", i, "leaves go=%s lean=%s", trunc(g, 300), trunc(m, 300)), w, nil
			}
		case "P", "T":
			k := unhx(f[1])
			lvl := 0
			if f[0] == "P" && len(f) > 2 {
				lvl, _ = strconv.Atoi(f[2])
			}
			hk := k
			if w.secure {
				hk = crypto.Keccak256(k)
			}
			var rp recPutter
			var kp keepPutter // keeps the slices Prove hands over, as core/state.proofList does
			var root []byte
			g := guarded(func() string {
				var e error
				if w.secure {
					root = w.st.Hash().Bytes()
					e = w.st.Prove(hk, uint(lvl), &rp)
					if e == nil {
						e = w.st.Prove(hk, uint(lvl), &kp)
					}
				} else {
					root = w.tr.Hash().Bytes()
					e = w.tr.Prove(hk, uint(lvl), &rp)
					if e == nil {
						e = w.tr.Prove(hk, uint(lvl), &kp)
					}
				}
				if e != nil {
					return "err:" + e.Error()
				}
				var parts []string
				for _, b := range rp.vals {
					parts = append(parts, hex.EncodeToString(b))
				}
				if len(parts) == 0 {
					return "-"
				}
				return strings.Join(parts, ",")
			})
			// the retained slices must still be the proof — right after Prove, and after the trie has hashed and proved
			// something else (which reuses the hasher's scratch buffers)
			for round := 0; round < 2; round++ {
				if len(kp.vals) != len(rp.vals) {
					return mkfail("oracle", i, "Prove handed %d nodes to a retaining Putter, %d to a copying one", len(kp.vals), len(rp.vals)), w, nil
				}
				for j := range kp.vals {
					if !bytes.Equal(kp.vals[j], rp.vals[j]) {
						return mkfail("oracle", i, "proof node %d kept by a retaining Putter (as core/state.proofList) was overwritten (%s): %s, the proof node is %s", j, []string{"right after Prove", "after a further Hash/Prove"}[round], trunc(fmt.Sprintf("%x", kp.vals[j]), 80), trunc(fmt.Sprintf("%x", rp.vals[j]), 80)), w, nil
					}
				}
				if round == 0 {
					guarded(func() string {
						var sink recPutter
						other := crypto.Keccak256(hk)
						if w.secure {
							w.st.Hash()
							w.st.Prove(other, 0, &sink)
						} else {
							w.tr.Hash()
							w.tr.Prove(other[:3], 0, &sink)
						}
						return ""
					})
				}
			}
			r.dist("proof-retained-slices-checked")
			for j, b := range rp.vals {
				if !bytes.Equal(crypto.Keccak256(b), rp.keys[j]) {
					return mkfail("oracle", i, "Prove stored blob %d under a key that is not its Keccak hash", j), w, nil
				}
			}
			m, e := r.ask(fmt.Sprintf("P %s %d", hx(hk), lvl))
			if e != nil {
				return nil, w, e
			}
			if r.drv != nil && m != g {
				return mkfail("correspondence", i, "proof go=%s lean=%s", trunc(g, 400), trunc(m, 400)), w, nil
			}
			if strings.HasPrefix(g, "err") || g == "crash" {
				return mkfail("oracle", i, "Prove failed: %s", g), w, nil
			}
			if lvl == 0 && len(w.content) > 0 {
				pdb := youdb.NewMemDatabase()
				for j := range rp.vals {
					pdb.Put(rp.keys[j], rp.vals[j])
				}
				honest := goVerify(root, hk, pdb)
				exp := "absent"
				if v, ok := w.content[string(k)]; ok {
					exp = "val:" + hex.EncodeToString(v)
					r.dist("proof-present")
				} else {
					r.dist("proof-absent")
				}
				if honest != exp {
					return mkfail("oracle", i, "proof verifies to %s, surviving content says %s", honest, exp), w, nil
				}
				m, e := r.ask(fmt.Sprintf("VK %s %s %s", hx(root), hx(hk), g))
				if e != nil {
					return nil, w, e
				}
				if r.drv != nil && m != honest {
					return mkfail("correspondence", i, "verify(honest proof) go=%s lean=%s", honest, m), w, nil
				}
				// instance check of the codec hypothesis of the Lean theorem proof_complete_partial, on every
				// node of this path, for this key and two more stored keys
				var probes []string
				for pk := range w.hashedContent() {
					probes = append(probes, hx([]byte(pk)))
				}
				sort.Strings(probes)
				if len(probes) > 2 {
					probes = probes[:2]
				}
				ps := "-"
				if len(probes) > 0 {
					ps = strings.Join(probes, ",")
				}
				if r.drv != nil {
					m, e := r.ask(fmt.Sprintf("CODEC %s %s", hx(hk), ps))
					if e != nil {
						return nil, w, e
					}
					r.dist("codec-hypothesis-instances")
					if m != "ok" {
						return mkfail("correspondence", i, "the codec hypothesis of proof_complete_partial (decodeNode . encode steps like the node) fails on the path of this key: %s", m), w, nil
					}
				}
				if f[0] == "T" {
					seed := uint64(1)
					if len(f) > 2 {
						seed, _ = strconv.ParseUint(f[2], 10, 64)
					}
					if fl, e := r.tamper(w, i, lines[i], root, hk, rp.vals, honest, seed); fl != nil || e != nil {
						return fl, w, e
					}
				}
				for _, b := range rp.vals {
					if len(w.pool) < 64 {
						w.pool = append(w.pool, b)
					}
				}
			}
		case "LIM":
			n, _ := strconv.Atoi(f[1])
			w.limit = uint16(n)
			if !w.secure {
				w.tr.SetCacheLimit(w.limit)
			}
		case "C":
			var root common.Hash
			g := guarded(func() string {
				var e error
				if w.secure {
					root, e = w.st.Commit(nil)
				} else {
					root, e = w.tr.Commit(nil)
				}
				if e != nil {
					return "err:" + e.Error()
				}
				return "ok"
			})
			if g != "ok" {
				return mkfail("oracle", i, "Commit failed: %s", g), w, nil
			}
			if w.secure {
				// SecureTrie.Commit hands the key preimages to the Database: GetKey must find every stored key that was
				// written through this trie object (preimages of older keys may legitimately be gone after a restart
				// that followed a Cap without a Database.Commit; they are not part of the property)
				for k := range w.content {
					if !w.touched[k] {
						continue
					}
					if got := w.st.GetKey(crypto.Keccak256([]byte(k))); !bytes.Equal(got, []byte(k)) {
						return mkfail("oracle", i, "SecureTrie.GetKey(keccak(%x)) = %x right after Commit", k, got), w, nil
					}
				}
				r.dist("secure-getkey-checked")
			}
			exp := refRoot(w.hashedContent())
			if !bytes.Equal(root.Bytes(), exp) {
				return mkfail("oracle", i, "Commit() root %x differs from the standard root %x", root, exp), w, nil
			}
			idx := -1
			for j, rr := range w.roots {
				if rr.hash == root {
					idx = j
				}
			}
			if idx < 0 {
				w.roots = append(w.roots, &rootRec{hash: root, snap: copyMap(w.hashedContent()), user: copyMap(w.content)})
				idx = len(w.roots) - 1
			}
			if fl, e := r.dbSync(w, i, lines[i], ""); fl != nil || e != nil {
				return fl, w, e
			}
			// the live trie's base stays referenced (what core/blockchain.go does for every block root)
			w.db.Reference(root, common.Hash{})
			w.roots[idx].refs++
			w.base = idx
			if fl, e := r.dbSync(w, i, lines[i], "DBREF "+hx(root.Bytes())); fl != nil || e != nil {
				return fl, w, e
			}
		case "COPY":
			// a second live trie, taken while the first may hold uncommitted modifications
			if w.copied && w.cur != 0 {
				continue
			}
			g := guarded(func() string { w.copyTrie(); return "ok" })
			if g != "ok" {
				return mkfail("crash", i, "copying the trie panicked"), w, nil
			}
			if _, e := r.ask("COPY"); e != nil {
				return nil, w, e
			}
			r.dist("trie-copied")
		case "REF", "DEREF", "DBC", "R", "RF":
			if w.copied && (f[0] == "DEREF" || f[0] == "R" || f[0] == "RF") {
				r.dist("skipped-after-copy") // two live tries: nothing is released or re-opened, both bases stay referenced
				continue
			}
			if len(w.roots) == 0 {
				r.dist("skipped-no-root")
				continue
			}
			n, _ := strconv.Atoi(f[1])
			idx := n % len(w.roots)
			rr := w.roots[idx]
			switch f[0] {
			case "REF":
				if !protected(rr) && !w.readable(rr) {
					r.dist("skipped-ref-dead-root")
					continue
				}
				w.db.Reference(rr.hash, common.Hash{})
				rr.refs++
				if fl, e := r.dbSync(w, i, lines[i], "DBREF "+hx(rr.hash.Bytes())); fl != nil || e != nil {
					return fl, w, e
				}
			case "DEREF":
				// the contract of Dereference: it releases an earlier Reference; the live trie's base keeps one
				if rr.refs == 0 || (idx == w.base && rr.refs == 1 && !rr.persisted) {
					r.dist("skipped-deref")
					continue
				}
				g := guarded(func() string { w.db.Dereference(rr.hash); return "ok" })
				if g != "ok" {
					return mkfail("crash", i, "Dereference panicked"), w, nil
				}
				rr.refs--
				if fl, e := r.dbSync(w, i, lines[i], "DBDEREF "+hx(rr.hash.Bytes())); fl != nil || e != nil {
					return fl, w, e
				}
			case "DBC":
				if !protected(rr) {
					r.dist("skipped-commit-dead-root")
					continue
				}
				w.disk.log = nil
				g := guarded(func() string {
					if e := w.db.Commit(rr.hash, false); e != nil {
						return "err:" + e.Error()
					}
					return "ok"
				})
				if g != "ok" {
					return mkfail("oracle", i, "Database.Commit failed: %s", g), w, nil
				}
				rr.persisted = true
				w.expectOrder = w.disk.nodeOrder()
				if fl, e := r.dbSync(w, i, lines[i], "DBCOMMIT "+hx(rr.hash.Bytes())); fl != nil || e != nil {
					return fl, w, e
				}
			case "R", "RF":
				if !protected(rr) || (f[0] == "RF" && !rr.persisted) {
					r.dist("skipped-reopen")
					continue
				}
				if f[0] == "RF" {
					// restart: everything that was only in memory is gone
					w.db = trie.NewDatabase(w.disk)
					for _, x := range w.roots {
						x.refs = 0
					}
					if fl, e := r.dbSync(w, i, lines[i], "DBNEW"); fl != nil || e != nil {
						return fl, w, e
					}
				}
				var e error
				g := guarded(func() string { e = w.open(rr.hash); return "ok" })
				if g != "ok" || e != nil {
					return mkfail("oracle", i, "reopening protected root %x failed: %v %s", rr.hash, e, g), w, nil
				}
				w.base = idx
				// the model is told the content of the reopened root
				if _, e := r.ask("RESET"); e != nil {
					return nil, w, e
				}
				ks := make([]string, 0, len(rr.snap))
				for k := range rr.snap {
					ks = append(ks, k)
				}
				sort.Strings(ks)
				// (for a SecureTrie the snapshot keys are the hashed keys, which is what the plain model trie holds)
				w.content = copyMap(rr.user)
				for _, k := range ks {
					if _, e := r.ask(fmt.Sprintf("U %s %s", hx([]byte(k)), hx(rr.snap[k]))); e != nil {
						return nil, w, e
					}
				}
			}
		case "CAP":
			n, _ := strconv.Atoi(f[1])
			w.disk.log = nil
			g := guarded(func() string {
				if e := w.db.Cap(common.StorageSize(n)); e != nil {
					return "err:" + e.Error()
				}
				return "ok"
			})
			if g != "ok" {
				return mkfail("oracle", i, "Cap failed: %s", g), w, nil
			}
			w.expectOrder = w.disk.nodeOrder()
			if fl, e := r.dbSync(w, i, lines[i], fmt.Sprintf("DBCAP %d", n)); fl != nil || e != nil {
				return fl, w, e
			}
		case "CHK":
			for j, rr := range w.roots {
				if !protected(rr) {
					continue
				}
				if what := w.checkRoot(rr, w.db); what != "" {
					return mkfail("oracle", i, "protected root #%d %x (refs=%d persisted=%v): %s", j, rr.hash, rr.refs, rr.persisted, what), w, nil
				}
				r.dist("chk-root-readable")
				if rr.persisted {
					if what := w.checkRoot(rr, trie.NewDatabase(w.disk)); what != "" {
						return mkfail("oracle", i, "persisted root #%d %x unreadable after restart: %s", j, rr.hash, what), w, nil
					}
					r.dist("chk-root-readable-after-restart")
				}
			}
		case "CRASH":
			if len(f) < 4 {
				continue
			}
			n, _ := strconv.Atoi(f[1])
			vl, _ := strconv.Atoi(f[2])
			sd, _ := strconv.ParseUint(f[3], 10, 64)
			if fl := r.crashCase(i, lines[i], n, vl, sd); fl != nil {
				return fl, w, nil
			}
		case "SPROOF":
			if len(f) < 3 {
				continue
			}
			n, _ := strconv.Atoi(f[1])
			sd, _ := strconv.ParseUint(f[2], 10, 64)
			if fl := r.stateProofCase(i, lines[i], n, sd); fl != nil {
				return fl, w, nil
			}
		case "DS":
			var items [][]byte
			if len(f) > 1 && f[1] != "-" {
				for _, s := range strings.Split(f[1], ",") {
					items = append(items, unhx(s))
				}
			}
			g := guarded(func() string { return hex.EncodeToString(types.DeriveSha(blobList(items)).Bytes()) })
			cm := map[string][]byte{}
			for j, it := range items {
				if len(it) > 0 {
					cm[string(rEnc(ritem{str: beBytes(j)}))] = it
				} else {
					delete(cm, string(rEnc(ritem{str: beBytes(j)})))
				}
			}
			exp := hex.EncodeToString(refRoot(cm))
			if g != exp {
				return mkfail("oracle", i, "DeriveSha = %s, standard root of {rlp(i) -> item} is %s", g, exp), w, nil
			}
			m, e := r.ask(l)
			if e != nil {
				return nil, w, e
			}
			if r.drv != nil && m != g {
				return mkfail("correspondence", i, "DeriveSha go=%s lean=%s", g, m), w, nil
			}
		case "V", "VK":
			if len(f) < 4 {
				continue
			}
			root, k := unhx(f[1]), unhx(f[2])
			pdb := youdb.NewMemDatabase()
			if f[3] != "-" {
				for _, e := range strings.Split(f[3], ",") {
					if f[0] == "V" {
						hb := strings.SplitN(e, ":", 2)
						if len(hb) == 2 {
							if has, _ := pdb.Has(unhx(hb[0])); !has { // first entry wins, as in the model's list
								pdb.Put(unhx(hb[0]), unhx(hb[1]))
							}
						}
					} else {
						b := unhx(e)
						if has, _ := pdb.Has(crypto.Keccak256(b)); !has {
							pdb.Put(crypto.Keccak256(b), b)
						}
					}
				}
			}
			g := goVerify(root, k, pdb)
			r.dist("rawverify-" + strings.SplitN(g, ":", 2)[0])
			m, e := r.ask(l)
			if e != nil {
				return nil, w, e
			}
			if r.drv != nil && m != g {
				return mkfail("correspondence", i, "VerifyProof go=%s lean=%s", g, m), w, nil
			}
		}
	}
	return nil, w, nil
}

func beBytes(n int) []byte {
	var b []byte
	for x := n; x > 0; x >>= 8 {
		b = append([]byte{byte(x)}, b...)
	}
	return b
}

type blobList [][]byte

func (b blobList) Len() int            { return len(b) }
func (b blobList) GetRlp(i int) []byte { return b[i] }

func trunc(s string, n int) string {
	if len(s) > n {
		return s[:n] + "…"
	}
	return s
}

func lenClass(n int) string {
	switch {
	case n == 1:
		return "1"
	case n < 31:
		return "2-30"
	case n <= 33:
		return strconv.Itoa(n)
	case n < 55:
		return "34-54"
	case n <= 56:
		return strconv.Itoa(n)
	default:
		return "57+"
	}
}

// hashedContent is the content as the underlying trie sees it (keys hashed for a SecureTrie).
func (w *world) hashedContent() map[string][]byte {
	if !w.secure {
		return w.content
	}
	m := make(map[string][]byte, len(w.content))
	for k, v := range w.content {
		m[string(crypto.Keccak256([]byte(k)))] = v
	}
	return m
}

func (w *world) readable(rr *rootRec) bool {
	return w.checkRoot(rr, w.db) == ""
}

// checkRoot opens the root on db, walks it completely and compares with the snapshot.
func (w *world) checkRoot(rr *rootRec, db *trie.Database) (what string) {
	defer func() {
		if r := recover(); r != nil {
			what = fmt.Sprintf("panic: %v", r)
		}
	}()
	t, err := trie.New(rr.hash, db)
	if err != nil {
		return "New: " + err.Error()
	}
	it := trie.NewIterator(t.NodeIterator(nil))
	s, _ := iterate(it)
	exp := expectLeaves(rr.snap, nil, false)
	if s != exp {
		return fmt.Sprintf("content %s differs from the snapshot taken at commit %s", trunc(s, 200), trunc(exp, 200))
	}
	for k, v := range rr.snap {
		got, err := t.TryGet([]byte(k))
		if err != nil || !bytes.Equal(got, v) {
			return fmt.Sprintf("Get(%x) = %x, %v; snapshot has %x", k, got, err, v)
		}
	}
	if t.Hash() != rr.hash {
		return "Hash() of the reopened trie differs from its root"
	}
	return ""
}

// dbSync brings the Lean model of trie.Database up to date with what the real Database just did and
// compares the complete reference-counting state: first the nodes the hasher inserted (they are the
// hashes that are new at the tail of the flush-list), then the operation itself, then a dump of both.
func (r *runner) dbSync(w *world, li int, line string, op string) (*seqFail, error) {
	nodes, meta, mapped := w.db.VerifC13Dump()
	if mapped != len(nodes) {
		return &seqFail{kind: "oracle", line: li, what: fmt.Sprintf("line %d `%s`: trie.Database flush-list has %d nodes but the node map has %d", li, trunc(line, 80), len(nodes), mapped)}, nil
	}
	if r.drv == nil {
		return nil, nil
	}
	if op == "DBNEW" {
		w.known = map[common.Hash]bool{}
	}
	if op == "" {
		for _, n := range nodes {
			if !w.known[n.Hash] {
				var ks []string
				for _, k := range n.Kids {
					ks = append(ks, hex.EncodeToString(k.Bytes()))
				}
				kk := "-"
				if len(ks) > 0 {
					kk = strings.Join(ks, ",")
				}
				if _, e := r.ask(fmt.Sprintf("DBINS %x %d %s", n.Hash.Bytes(), n.Size, kk)); e != nil {
					return nil, e
				}
				r.dist("db-insert")
			}
		}
	} else {
		m, e := r.ask(op)
		if e != nil {
			return nil, e
		}
		if strings.HasPrefix(op, "DBCOMMIT ") || strings.HasPrefix(op, "DBCAP ") {
			// the SEQUENCE of node writes (first occurrences), not only the final set
			r.dist("db-write-order-compared")
			exp := "ok " + w.expectOrder
			if strings.HasPrefix(op, "DBCOMMIT ") {
				// ordered-closed=true: the state before the commit meets the hypotheses of db_commit_children_first
				exp += " ordered-closed=true"
			}
			if m != exp {
				return &seqFail{kind: "correspondence", line: li, what: fmt.Sprintf("line %d `%s` (%s): order of disk writes differs: go=%s lean=%s (the model writes children before parents)", li, trunc(line, 80), op, w.expectOrder, m)}, nil
			}
		}
	}
	// canonical text of the Go state
	var mem, mt, dk []string
	w.known = map[common.Hash]bool{}
	for _, n := range nodes {
		mem = append(mem, fmt.Sprintf("%x:%d", n.Hash.Bytes(), n.Parents))
		w.known[n.Hash] = true
		if len(n.Ext) > 0 {
			r.dist("db-node-with-external-children")
		}
	}
	for h, c := range meta {
		mt = append(mt, fmt.Sprintf("%x:%d", h.Bytes(), c))
	}
	sort.Strings(mt)
	for _, k := range w.disk.MemDatabase.Keys() {
		if len(k) == 32 {
			dk = append(dk, hex.EncodeToString(k))
		}
	}
	sort.Strings(dk)
	dg := func(parts []string) string {
		return fmt.Sprintf("%d:%s", len(parts), hex.EncodeToString(crypto.Keccak256([]byte(strings.Join(parts, ","))))[:16])
	}
	g := fmt.Sprintf("mem=%s meta=%s disk=%s", dg(mem), dg(mt), dg(dk))
	m, e := r.ask("DBDUMP")
	if e != nil {
		return nil, e
	}
	r.dist("db-state-compared")
	if m != g {
		full, _ := r.ask("DBDUMPFULL")
		return &seqFail{kind: "correspondence", line: li, what: fmt.Sprintf("line %d `%s` (%s): trie.Database state go=%s lean=%s; go mem=%s meta=%s; lean %s", li, trunc(line, 80), op, g, m, trunc(strings.Join(mem, ","), 600), strings.Join(mt, ","), trunc(full, 900))}, nil
	}
	return nil, nil
}
