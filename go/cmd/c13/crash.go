package main

// A recording / crashing disk under trie.Database, and the crash stream: Database.Commit is not atomic
// (its batch is written every youdb.IdealBatchSize = 100 KB), so a crash between two batch writes leaves a
// prefix of the write sequence on disk.  "Committing and reopening loses nothing" then needs the
// children-before-parents write order: whatever is on disk after the crash must be closed under children
// (a root that is on disk is completely readable).

import (
	"bytes"
	"encoding/hex"
	"errors"
	"fmt"
	"sort"

	"github.com/youchainhq/go-youchain/common"
	"github.com/youchainhq/go-youchain/crypto"
	"github.com/youchainhq/go-youchain/trie"
	"github.com/youchainhq/go-youchain/youdb"

	"verifharness/internal/vh"
)

var errCrashed = errors.New("disk died")

// recDisk wraps a MemDatabase: it logs the order of node writes and can die after n batch writes.
type recDisk struct {
	*youdb.MemDatabase
	log        [][]byte // keys in the order they reached the disk
	writes     int      // batch writes that reached the disk
	dieAfter   int      // < 0: never; otherwise the (dieAfter+1)-th batch write and all later writes are lost
	dead       bool
	lostWrites int
}

func newRecDisk() *recDisk { return &recDisk{MemDatabase: youdb.NewMemDatabase(), dieAfter: -1} }

func (d *recDisk) Put(k, v []byte) error {
	if d.dead {
		return errCrashed
	}
	d.log = append(d.log, common.CopyBytes(k))
	return d.MemDatabase.Put(k, v)
}

func (d *recDisk) NewBatch() youdb.Batch { return &recBatch{d: d} }

type recBatch struct {
	d    *recDisk
	kvs  [][2][]byte
	size int
}

func (b *recBatch) Put(k, v []byte) error {
	b.kvs = append(b.kvs, [2][]byte{common.CopyBytes(k), common.CopyBytes(v)})
	b.size += len(v)
	return nil
}
func (b *recBatch) Delete(k []byte) error { return nil }
func (b *recBatch) ValueSize() int        { return b.size }
func (b *recBatch) Reset()                { b.kvs, b.size = nil, 0 }
func (b *recBatch) Write() error {
	d := b.d
	if d.dead || (d.dieAfter >= 0 && d.writes >= d.dieAfter) {
		d.dead = true
		d.lostWrites++
		return errCrashed
	}
	for _, kv := range b.kvs {
		d.log = append(d.log, kv[0])
		d.MemDatabase.Put(kv[0], kv[1])
	}
	if len(b.kvs) > 0 {
		d.writes++
	}
	return nil
}

// nodeOrder returns the 32-byte keys of the log, first occurrences only, as "n:digest".
func (d *recDisk) nodeOrder() string {
	seen := map[string]bool{}
	var parts []string
	for _, k := range d.log {
		if len(k) == 32 && !seen[string(k)] {
			seen[string(k)] = true
			parts = append(parts, hex.EncodeToString(k))
		}
	}
	return fmt.Sprintf("%d:%s", len(parts), hex.EncodeToString(crypto.Keccak256([]byte(joinComma(parts))))[:16])
}

func joinComma(p []string) string {
	var b bytes.Buffer
	for i, s := range p {
		if i > 0 {
			b.WriteByte(',')
		}
		b.WriteString(s)
	}
	return b.String()
}

// diskClosed checks on a FRESH Database over the surviving disk that every node on disk can be opened as a
// trie and walked completely (so all its descendants are on disk).
func diskClosed(d *recDisk) string {
	fresh := trie.NewDatabase(d)
	keys := d.MemDatabase.Keys()
	sort.Slice(keys, func(a, b int) bool { return bytes.Compare(keys[a], keys[b]) < 0 })
	bad, total := 0, 0
	first := ""
	for _, k := range keys {
		if len(k) != 32 {
			continue
		}
		total++
		what := func() (what string) {
			defer func() {
				if r := recover(); r != nil {
					what = fmt.Sprintf("panic %v", r)
				}
			}()
			t, err := trie.New(common.BytesToHash(k), fresh)
			if err != nil {
				return err.Error()
			}
			it := t.NodeIterator(nil) // node level: the paths below an inner node are not whole keys
			for it.Next(true) {
			}
			if it.Error() != nil {
				return it.Error().Error()
			}
			return ""
		}()
		if what != "" {
			bad++
			if first == "" {
				first = fmt.Sprintf("%x: %s", k, what)
			}
		}
	}
	if bad > 0 {
		return fmt.Sprintf("%d of %d nodes on disk have missing descendants (e.g. %s)", bad, total, first)
	}
	return ""
}

// crashCase: `CRASH n vlen seed` — build a trie of n entries with ~vlen-byte values, Trie.Commit + Reference, then
// Database.Commit on a disk that dies after k batch writes, for every k; after each crash reopen and check.
func (r *runner) crashCase(li int, line string, n, vlen int, seed uint64) *seqFail {
	build := func(dieAfter int) (*recDisk, *trie.Database, common.Hash, map[string][]byte, error) {
		rng := vh.NewRNG(seed)
		d := newRecDisk()
		db := trie.NewDatabase(d)
		tr, _ := trie.New(common.Hash{}, db)
		content := map[string][]byte{}
		for i := 0; i < n; i++ {
			k := rng.Bytes(rng.Range(3, 8))
			v := rng.Bytes(vlen + rng.Intn(20))
			tr.Update(k, v)
			content[string(k)] = v
		}
		root, err := tr.Commit(nil)
		if err != nil {
			return nil, nil, root, nil, err
		}
		db.Reference(root, common.Hash{})
		d.dieAfter = dieAfter
		return d, db, root, content, nil
	}
	fail := func(f string, a ...interface{}) *seqFail {
		return &seqFail{kind: "oracle", line: li, what: fmt.Sprintf("line %d `%s`: ", li, line) + fmt.Sprintf(f, a...)}
	}
	d, db, root, content, err := build(-1)
	if err != nil {
		return fail("Trie.Commit failed: %v", err)
	}
	if err := db.Commit(root, false); err != nil {
		return fail("Database.Commit failed: %v", err)
	}
	total := d.writes
	r.dist(fmt.Sprintf("crash-commit-batch-writes-%d", total))
	if what := diskClosed(d); what != "" {
		return fail("after a complete Database.Commit: %s", what)
	}
	rr := &rootRec{hash: root, snap: content}
	if what := (&world{}).checkRoot(rr, trie.NewDatabase(d)); what != "" {
		return fail("after a complete Database.Commit and restart: %s", what)
	}
	for k := 0; k < total; k++ {
		d, db, root, content, err = build(k)
		if err != nil {
			return fail("Trie.Commit failed: %v", err)
		}
		func() {
			defer func() { recover() }()
			db.Commit(root, false) // expected to fail at the crash point
		}()
		r.dist("crash-points-checked")
		if what := diskClosed(d); what != "" {
			return fail("crash after %d of %d batch writes of Database.Commit, restart on the surviving disk: %s", k, total, what)
		}
		if has, _ := d.MemDatabase.Has(root[:]); has {
			rr := &rootRec{hash: root, snap: content}
			if what := (&world{}).checkRoot(rr, trie.NewDatabase(d)); what != "" {
				return fail("crash after %d of %d batch writes: the root is on disk but %s", k, total, what)
			}
			r.dist("crash-root-on-disk-readable")
		}
	}
	return nil
}
