package main

// Independent reference: the Yellow-Paper construction of the Merkle-Patricia root over a finite map
// (appendix D, c(J, i)), with its own RLP encoder and hex-prefix encoding. It shares no code with
// /repo/trie or /repo/rlp (only Keccak-256 from /repo/crypto); it is the "standard root of that
// content" against which Trie.Hash() is judged.

import (
	"bytes"
	"sort"

	"github.com/youchainhq/go-youchain/crypto"
)

type ritem struct {
	list  bool
	str   []byte
	elems []ritem
}

func rEncLen(n int, off byte) []byte {
	if n < 56 {
		return []byte{off + byte(n)}
	}
	var lb []byte
	for x := n; x > 0; x >>= 8 {
		lb = append([]byte{byte(x)}, lb...)
	}
	return append([]byte{off + 55 + byte(len(lb))}, lb...)
}

func rEnc(it ritem) []byte {
	if !it.list {
		if len(it.str) == 1 && it.str[0] < 0x80 {
			return []byte{it.str[0]}
		}
		return append(rEncLen(len(it.str), 0x80), it.str...)
	}
	var payload []byte
	for _, e := range it.elems {
		payload = append(payload, rEnc(e)...)
	}
	return append(rEncLen(len(payload), 0xc0), payload...)
}

// hex-prefix encoding of a nibble string with leaf flag t
func hp(nibs []byte, t bool) []byte {
	f := byte(0)
	if t {
		f = 2
	}
	var out []byte
	if len(nibs)%2 == 1 {
		out = append(out, (f+1)<<4|nibs[0])
		nibs = nibs[1:]
	} else {
		out = append(out, f<<4)
	}
	for i := 0; i+1 < len(nibs); i += 2 {
		out = append(out, nibs[i]<<4|nibs[i+1])
	}
	return out
}

type rkv struct {
	k []byte // nibbles, then 16
	v []byte
}

func toHexT(k []byte) []byte {
	out := make([]byte, 0, 2*len(k)+1)
	for _, b := range k {
		out = append(out, b>>4, b&15)
	}
	return append(out, 16)
}

func refNode(ps []rkv, i int) ritem {
	if len(ps) == 1 {
		k := ps[0].k[i:]
		return ritem{list: true, elems: []ritem{{str: hp(k[:len(k)-1], true)}, {str: ps[0].v}}}
	}
	// longest common prefix from i
	l := 0
	for {
		c := ps[0].k[i+l]
		same := true
		for _, p := range ps[1:] {
			if p.k[i+l] != c {
				same = false
				break
			}
		}
		if !same {
			break
		}
		l++
	}
	if l > 0 {
		return ritem{list: true, elems: []ritem{{str: hp(ps[0].k[i:i+l], false)}, refRef(refNode(ps, i+l))}}
	}
	br := ritem{list: true, elems: make([]ritem, 17)}
	for n := 0; n < 16; n++ {
		var g []rkv
		for _, p := range ps {
			if p.k[i] == byte(n) {
				g = append(g, p)
			}
		}
		if len(g) > 0 {
			br.elems[n] = refRef(refNode(g, i+1))
		}
	}
	for _, p := range ps {
		if p.k[i] == 16 {
			br.elems[16] = ritem{str: p.v}
		}
	}
	return br
}

func refRef(it ritem) ritem {
	e := rEnc(it)
	if len(e) < 32 {
		return it
	}
	return ritem{str: crypto.Keccak256(e)}
}

// sortedHex returns the content as (hex key with terminator, value) in ascending hex order
// (terminator 16 sorts after every nibble).
func sortedHex(content map[string][]byte) []rkv {
	ps := make([]rkv, 0, len(content))
	for k, v := range content {
		ps = append(ps, rkv{toHexT([]byte(k)), v})
	}
	sort.Slice(ps, func(a, b int) bool { return bytes.Compare(ps[a].k, ps[b].k) < 0 })
	return ps
}

func refRoot(content map[string][]byte) []byte {
	if len(content) == 0 {
		return crypto.Keccak256([]byte{0x80})
	}
	return crypto.Keccak256(rEnc(refNode(sortedHex(content), 0)))
}

func prefixFree(content map[string][]byte) bool {
	ks := make([]string, 0, len(content))
	for k := range content {
		ks = append(ks, k)
	}
	sort.Strings(ks)
	for i := 0; i+1 < len(ks); i++ {
		if len(ks[i]) <= len(ks[i+1]) && ks[i+1][:len(ks[i])] == ks[i] {
			return false
		}
	}
	return true
}

func keccak(b []byte) []byte { return crypto.Keccak256(b) }
