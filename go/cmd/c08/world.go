package main

// The real side of the C08 check: a real core/state.StateDB driven op by op (direct StateDB API calls for the
// fine-grained ops, the real staking take-effect / penalty / settlement code through staking/verif_hooks_c08.go),
// its canonical observation, and the implementation-level oracle (the property evaluated directly).

import (
	"crypto/ecdsa"
	"fmt"
	"math/big"
	"runtime/debug"
	"sort"
	"strconv"
	"strings"

	"github.com/youchainhq/go-youchain/common"
	"github.com/youchainhq/go-youchain/core/state"
	"github.com/youchainhq/go-youchain/core/types"
	"github.com/youchainhq/go-youchain/crypto"
	"github.com/youchainhq/go-youchain/local"
	"github.com/youchainhq/go-youchain/params"
	"github.com/youchainhq/go-youchain/rlp"
	"github.com/youchainhq/go-youchain/staking"
	"github.com/youchainhq/go-youchain/youdb"
)

const (
	NV = 6 // validator ids 1..NV
	ND = 5 // delegator/operator account ids 1..ND
)

type universe struct {
	valPub  [NV + 1][]byte
	valAddr [NV + 1]common.Address
	dAddr   [ND + 1]common.Address
	valID   map[common.Address]int
	dID     map[common.Address]int
	opFrom  common.Address // sender of validator-side staking txs (never observed)
}

var uni = mkUniverse()

func mkUniverse() *universe {
	u := &universe{valID: map[common.Address]int{}, dID: map[common.Address]int{}}
	type kv struct {
		pub  []byte
		addr common.Address
	}
	var ks []kv
	for i := 0; len(ks) < NV; i++ {
		k, err := crypto.ToECDSA(crypto.Keccak256([]byte(fmt.Sprintf("c08-val-%d", i))))
		if err != nil {
			continue
		}
		ks = append(ks, kv{crypto.CompressPubkey(&k.PublicKey), crypto.PubkeyToAddress(k.PublicKey)})
	}
	// ids follow address order, so that "sorted by address" in Go is "sorted by id" in the model
	sort.Slice(ks, func(i, j int) bool { return ks[i].addr.Big().Cmp(ks[j].addr.Big()) < 0 })
	for i, k := range ks {
		u.valPub[i+1], u.valAddr[i+1] = k.pub, k.addr
		u.valID[k.addr] = i + 1
	}
	var ds []common.Address
	for i := 0; i < ND; i++ {
		ds = append(ds, common.BytesToAddress(crypto.Keccak256([]byte(fmt.Sprintf("c08-dlg-%d", i)))[12:]))
	}
	sort.Slice(ds, func(i, j int) bool { return ds[i].Big().Cmp(ds[j].Big()) < 0 })
	for i, a := range ds {
		u.dAddr[i+1] = a
		u.dID[a] = i + 1
	}
	u.opFrom = common.BytesToAddress(crypto.Keccak256([]byte("c08-operator"))[12:])
	return u
}

var _ = (*ecdsa.PrivateKey)(nil)

// ---------------------------------------------------------------------------------------------

type cfgT struct {
	unit               *big.Int
	minStake, maxStake [4]uint64
	minSelf            [4]uint64
	minDlg             *big.Int
	v5                 bool
}

func (c cfgT) line() string {
	v5 := 0
	if c.v5 {
		v5 = 1
	}
	return fmt.Sprintf("cfg %s %d %d %d %d %d %d %d %d %d %s %d", c.unit, c.minStake[1], c.minStake[2], c.minStake[3],
		c.maxStake[1], c.maxStake[2], c.maxStake[3], c.minSelf[1], c.minSelf[2], c.minSelf[3], c.minDlg, v5)
}

func parseCfg(f []string) (cfgT, error) {
	var c cfgT
	if len(f) != 13 {
		return c, fmt.Errorf("bad cfg line")
	}
	c.unit, _ = new(big.Int).SetString(f[1], 10)
	for i := 0; i < 3; i++ {
		c.minStake[i+1], _ = strconv.ParseUint(f[2+i], 10, 64)
		c.maxStake[i+1], _ = strconv.ParseUint(f[5+i], 10, 64)
		c.minSelf[i+1], _ = strconv.ParseUint(f[8+i], 10, 64)
	}
	c.minDlg, _ = new(big.Int).SetString(f[11], 10)
	c.v5 = f[12] != "0"
	if c.unit == nil || c.minDlg == nil || c.unit.Cmp(params.StakeUint) != 0 {
		return c, fmt.Errorf("bad cfg values (unit must be params.StakeUint)")
	}
	return c, nil
}

func (c cfgT) youParams() *params.YouParams {
	base := params.Versions[params.YouV5]
	p := base // struct copy; maps replaced below
	p.MinStakes = map[params.ValidatorRole]uint64{}
	p.MaxStakes = map[params.ValidatorRole]uint64{}
	p.MinSelfStakes = map[params.ValidatorRole]uint64{}
	for r := 1; r <= 3; r++ {
		p.MinStakes[params.ValidatorRole(r)] = c.minStake[r]
		p.MaxStakes[params.ValidatorRole(r)] = c.maxStake[r]
		p.MinSelfStakes[params.ValidatorRole(r)] = c.minSelf[r]
	}
	p.MinDelegationTokens = new(big.Int).Set(c.minDlg)
	if c.v5 {
		p.Version = params.YouV5
	} else {
		p.Version = params.YouV4
	}
	return &p
}

// ---------------------------------------------------------------------------------------------

type world struct {
	db  state.Database
	st  *state.StateDB
	cfg cfgT
	yp  *params.YouParams
	hdr *types.Header
	// which parts of the property's hypotheses still hold for this case (see oracle)
	statWf    bool // every UpdateValidator so far passed an `old` agreeing with the stored record on (role,status,stake,token); no negative totals; no RemoveValidator
	sumsWf    bool // only handler-level ops (and raw updates of fields outside the sums) so far
	linksWf   bool // every delegation so far came from an existing account
	apiWf     bool // only operations the property quantifies over (RemoveValidator has no caller and is not among them)
	dead      bool // the Go code panicked: the StateDB is in an unspecified state
	lastPanic string
	prev      *state.StateDB // the original of the last Copy, and what it showed then: a Copy must be independent
	prevObs   string
	readerBad string // what the consensus-side reader (NewVldReader on the committed validator root) shows wrong
	modelOff  bool   // an oracle-only op (endblock, lastactive) ran: the model no longer follows this case
	funded    bool
}

func newWorld() *world {
	params.InitNetworkId(params.NetworkIdForTestCase) // the scaled-down parameter table (period 16, inactivity wait 32)
	w := &world{}
	w.reset()
	return w
}

func (w *world) reset() {
	w.db = state.NewDatabase(youdb.NewMemDatabase())
	st, err := state.New(common.Hash{}, common.Hash{}, common.Hash{}, w.db)
	if err != nil {
		panic(err)
	}
	w.st = st
	w.statWf, w.sumsWf, w.linksWf, w.apiWf, w.dead = true, true, true, true, false
	w.prev, w.prevObs = nil, ""
	w.modelOff, w.funded, w.readerBad = false, false, ""
}

func (w *world) setCfg(c cfgT) {
	w.cfg = c
	w.yp = c.youParams()
	w.hdr = &types.Header{Number: big.NewInt(1000), CurrVersion: w.yp.Version}
}

func bi(s string) *big.Int {
	x, ok := new(big.Int).SetString(s, 10)
	if !ok {
		panic("bad integer " + s)
	}
	return x
}
func atoi(s string) int {
	n, err := strconv.Atoi(s)
	if err != nil {
		panic("bad int " + s)
	}
	return n
}

func vaddr(id int) common.Address {
	if id >= 1 && id <= NV {
		return uni.valAddr[id]
	}
	return common.BigToAddress(big.NewInt(int64(0x7700000 + id)))
}
func daddr(id int) common.Address {
	if id >= 1 && id <= ND {
		return uni.dAddr[id]
	}
	return common.BigToAddress(big.NewInt(int64(0x8800000 + id)))
}

func setField(v *state.Validator, f string, x *big.Int) {
	switch f {
	case "role":
		v.Role = params.ValidatorRole(x.Uint64())
	case "status":
		v.Status = uint8(x.Uint64())
	case "token":
		v.Token = new(big.Int).Set(x)
	case "stake":
		v.Stake = new(big.Int).Set(x)
	case "selftoken":
		v.SelfToken = new(big.Int).Set(x)
	case "selfstake":
		v.SelfStake = new(big.Int).Set(x)
	case "rewards":
		v.RewardsDistributable = new(big.Int).Set(x)
	case "expelled":
		v.Expelled = x.Sign() != 0
	case "accept":
		v.AcceptDelegation = uint16(x.Uint64())
	case "risk":
		v.RiskObligation = uint16(x.Uint64())
	case "commission":
		v.CommissionRate = uint16(x.Uint64())
	default:
		panic("bad field " + f)
	}
}

func statField(f string) bool { return f == "role" || f == "status" || f == "token" || f == "stake" }
func sumField(f string) bool {
	return f == "token" || f == "stake" || f == "selftoken" || f == "selfstake"
}

func sumsHold(v *state.Validator) bool {
	t, s := new(big.Int).Set(v.SelfToken), new(big.Int).Set(v.SelfStake)
	for _, d := range v.Delegations {
		t.Add(t, d.Token)
		s.Add(s, d.Stake)
	}
	return t.Cmp(v.Token) == 0 && s.Cmp(v.Stake) == 0
}

func hasTopic(r *types.Receipt, topic string) bool {
	h := common.StringToHash(topic)
	for _, l := range r.Logs {
		if len(l.Topics) > 0 && l.Topics[0] == h {
			return true
		}
	}
	return false
}

// exec runs one op on the real code. skip = the op is not applicable in the current real state (it is then
// not sent to the model either). A panic of the Go code is returned as "crash" (and marks the world dead).
func (w *world) exec(line string) (out string, skip bool) {
	defer func() {
		if r := recover(); r != nil {
			msg := fmt.Sprint(r)
			w.lastPanic = msg
			// where in /repo: the first frames inside go-youchain
			var where []string
			for _, ln := range strings.Split(string(debug.Stack()), "\n") {
				ln = strings.TrimSpace(ln)
				if strings.Contains(ln, ".go:") && !strings.Contains(ln, "/verif/") && (strings.Contains(ln, "/staking/") || strings.Contains(ln, "/core/state/")) {
					if k := strings.Index(ln, " +0x"); k > 0 {
						ln = ln[:k]
					}
					where = append(where, ln[strings.LastIndex(ln[:strings.LastIndex(ln, "/")], "/")+1:])
					if len(where) == 3 {
						break
					}
				}
			}
			if len(where) > 0 {
				w.lastPanic += " at " + strings.Join(where, " <- ")
			}
			out = "crash"
			w.dead = true
		}
	}()
	f := strings.Fields(line)
	st := w.st
	te := func(from common.Address, nonce uint64, action staking.ActionType, payload interface{}) *types.Receipt {
		bs, err := rlp.EncodeToBytes(payload)
		if err != nil {
			panic("harness: " + err.Error())
		}
		rc, err := staking.VerifC08TakeEffect(st, w.yp, w.hdr, from, nonce, action, bs)
		if err != nil {
			panic("harness: handler error " + err.Error())
		}
		return rc
	}
	switch f[0] {
	case "create":
		id, role, status := atoi(f[1]), atoi(f[2]), atoi(f[3])
		tok, stk := bi(f[4]), bi(f[5])
		if tok.Sign() < 0 || stk.Sign() < 0 {
			w.statWf, w.sumsWf = false, false
		}
		v := st.CreateValidator(fmt.Sprintf("v%d", id), uni.opFrom, uni.opFrom, params.ValidatorRole(role), uni.valPub[id], nil, tok, stk,
			uint16(atoi(f[6])), uint16(atoi(f[7])), uint16(atoi(f[8])), uint8(status))
		if v != nil && stk.Cmp(params.YOUToStake(tok)) != 0 {
			w.sumsWf = false
		}
		return strconv.FormatBool(v != nil), false
	case "upd", "upds":
		cur := st.GetValidatorByMainAddr(vaddr(atoi(f[1])))
		if cur == nil {
			return "missing", false
		}
		nv := cur.PartialCopy()
		x := bi(f[3])
		setField(nv, f[2], x)
		old := cur
		if sumField(f[2]) {
			w.sumsWf = false
		}
		if statField(f[2]) && x.Sign() < 0 {
			w.statWf = false
		}
		if f[0] == "upds" {
			old = cur.PartialCopy()
			setField(old, f[4], bi(f[5]))
			if statField(f[4]) && !old.StakeEqual(cur) {
				w.statWf = false
			}
			if sumField(f[4]) {
				w.sumsWf = false
			}
		}
		return strconv.FormatBool(st.UpdateValidator(nv, old)), false
	case "remove":
		w.statWf, w.sumsWf, w.linksWf, w.apiWf = false, false, false, false
		a := vaddr(atoi(f[1]))
		st.VerifC09RawValidator(a) // make sure the object is live: RemoveValidator only looks at live objects
		return strconv.FormatBool(st.RemoveValidator(a)), false
	case "mkacct":
		st.SetNonce(daddr(atoi(f[1])), 1)
		return "done", false
	case "deleg":
		val := st.GetValidatorByMainAddr(vaddr(atoi(f[2])))
		if val == nil {
			return "missing", false
		}
		d := daddr(atoi(f[1]))
		delta := bi(f[3])
		if !st.Exist(d) {
			w.linksWf = false
		}
		if delta.Sign() < 0 {
			if df := val.GetDelegationFrom(d); df != nil && new(big.Int).Add(df.Token, delta).Sign() < 0 {
				w.statWf, w.sumsWf = false, false
			}
		}
		st.UpdateDelegation(d, val, delta)
		return "ok", false
	case "deposit":
		rc := te(uni.opFrom, 0, staking.ValidatorDeposit, &staking.TxValidatorDeposit{MainAddress: vaddr(atoi(f[1])), Value: bi(f[2])})
		if hasTopic(rc, staking.LogTopicDepositFailed) {
			return "refused", false
		}
		return "ok", false
	case "withdraw":
		te(daddr(atoi(f[3])), uint64(atoi(f[4])), staking.ValidatorWithDraw,
			&staking.TxValidatorWithdraw{MainAddress: vaddr(atoi(f[1])), Recipient: daddr(atoi(f[3])), Value: bi(f[2])})
		return "ok", false
	case "chstatus":
		rc := te(uni.opFrom, 0, staking.ValidatorChangeStatus, &staking.TxValidatorChangeStatus{MainAddress: vaddr(atoi(f[1])), Status: uint8(atoi(f[2]))})
		if hasTopic(rc, staking.LogTopicChangeStatusFailed) {
			return "refused", false
		}
		return "ok", false
	case "dadd":
		d := daddr(atoi(f[1]))
		if !st.Exist(d) {
			w.linksWf = false
		}
		rc := te(d, 0, staking.DelegationAdd, &staking.TxDelegation{Validator: vaddr(atoi(f[2])), Value: bi(f[3])})
		if hasTopic(rc, staking.LogTopicDelegationAddFailed) {
			return "refused", false
		}
		return "ok", false
	case "dsub":
		d := daddr(atoi(f[1]))
		rc := te(d, uint64(atoi(f[4])), staking.DelegationSub, &staking.TxDelegation{Validator: vaddr(atoi(f[2])), Value: bi(f[3])})
		if hasTopic(rc, staking.LogTopicDelegationSubFailed) {
			return "refused", false
		}
		return "ok", false
	case "penal":
		val := st.GetValidatorByMainAddr(vaddr(atoi(f[1])))
		if val == nil {
			return "missing", false
		}
		staking.VerifC08Penalize(st, w.yp, w.hdr, val, bi(f[2]))
		return "ok", false
	case "settle":
		val := st.GetValidatorByMainAddr(vaddr(atoi(f[1])))
		if val == nil {
			return "missing", false
		}
		if !sumsHold(val) || val.Stake.Sign() < 0 || val.RewardsDistributable.Sign() < 0 {
			return "", true // settleValidatorRewards would logging.Crit (os.Exit) on inconsistent sums
		}
		for _, d := range val.Delegations {
			if !st.Exist(d.Delegator) || d.Stake.Sign() < 0 {
				return "", true // paying a delegator without an account would create it (outside the model)
			}
		}
		_, _, _, before := st.VerifC09Lens()
		staking.VerifC08Settle(st, w.yp, w.hdr, val)
		_, _, _, after := st.VerifC09Lens()
		if after == before {
			return "refused", false
		}
		return "ok", false
	case "snap":
		return fmt.Sprintf("id %d", st.Snapshot()), false
	case "revert":
		st.RevertToSnapshot(atoi(f[1]))
		return "done", false
	case "fin":
		st.Finalise(true)
		return "done", false
	case "iroot":
		st.IntermediateRoot(f[1] != "0")
		return "done", false
	case "reload":
		r, vr, sr, err := st.Commit(f[1] != "0")
		if err != nil {
			panic("commit: " + err.Error())
		}
		n, err := state.New(r, vr, sr, w.db)
		if err != nil {
			panic("reload: " + err.Error())
		}
		w.st = n
		w.readerBad = w.consensusView(vr)
		return "done", false
	case "lastactive":
		// oracle-only: Ext.LastActive is outside the model
		w.modelOff = true
		cur := st.GetValidatorByMainAddr(vaddr(atoi(f[1])))
		if cur == nil {
			return "missing", false
		}
		nv := cur.PartialCopy()
		nv.UpdateLastActive(uint64(atoi(f[2])))
		st.UpdateValidator(nv, cur)
		return "ok", false
	case "endblock":
		// oracle-only: the real end-of-block hook (staking.EndBlock) as ONE unit on this StateDB:
		// YouV5 upgrade step -> slashing -> rewardsToPool -> endStakingPeriod (inactivity slashing and recovery,
		// distributeRewards, processWithdrawQueue, processPendingTxs).
		// Preconditions: those under which the unchanged code cannot reach logging.Crit (os.Exit) or the known
		// division by zero of rewardsToPool: the proposer exists, some validator is online, and the property holds now.
		height := uint64(atoi(f[1]))
		if !w.statWf || !w.sumsWf || !w.apiWf || w.oracle() != "" {
			return "", true
		}
		if !w.cfg.v5 {
			// before YouV5 distributeRewards reads the cached GetValidators() set, which is only meaningful on a
			// StateDB opened for this block (as the node does): commit and reopen first. (Inapplicable when that
			// commit cannot encode the state.)
			for _, v := range st.GetValidatorsForUpdate() {
				if v.Token.Sign() < 0 || v.Stake.Sign() < 0 || v.SelfToken.Sign() < 0 || v.SelfStake.Sign() < 0 || v.RewardsDistributable.Sign() < 0 {
					return "", true
				}
			}
			w.modelOff = true
			r, vr, sr, err := st.Commit(true)
			if err != nil {
				panic("commit: " + err.Error())
			}
			n, err := state.New(r, vr, sr, w.db)
			if err != nil {
				panic("reload: " + err.Error())
			}
			w.st, st = n, n
			w.prev = nil
		}
		prop := st.GetValidatorByMainAddr(vaddr(atoi(f[2])))
		if prop == nil {
			return "", true
		}
		online := false
		chamberOn := map[params.ValidatorRole]*big.Int{}
		for _, v := range st.GetValidatorsForUpdate() {
			if !sumsHold(v) || v.Token.Sign() < 0 || v.RewardsDistributable.Sign() < 0 {
				return "", true
			}
			for _, d := range v.Delegations {
				if !st.Exist(d.Delegator) {
					return "", true
				}
			}
			if v.IsOnline() {
				online = true
				if v.Role != params.RoleHouse && v.Stake.Sign() <= 0 {
					// An ONLINE chamber validator with zero stake is not a reachable state: every shipped table has
					// MinStakes[chancellor/senator] >= 500, teCreate creates offline, going online needs
					// stake >= MinStakes, and withdrawals / delegation withdrawals / penalties that take the stake
					// below MinStakes force the validator offline. (The harness can build it with minStake = 0
					// and a direct CreateValidator(status = online).) With it, distributeRewards divides the role's
					// pool by an online stake of zero once the other members are slashed (endblock.go:292).
					return "", true
				}
				if v.Role != params.RoleHouse {
					if chamberOn[v.Role] == nil {
						chamberOn[v.Role] = new(big.Int)
					}
					chamberOn[v.Role].Add(chamberOn[v.Role], v.Stake)
				}
			}
		}
		// known totalisation hazards of the reward code (not C08's subject): no online validator at all
		// (rewardsToPool divides by the sum of portions) or an online chamber role whose total stake is zero
		// (distributeRewards divides by it)
		if !online {
			return "", true
		}
		for _, s := range chamberOn {
			if s.Sign() == 0 {
				return "", true
			}
		}
		w.modelOff = true
		if !w.funded {
			st.AddBalance(w.yp.RewardsPoolAddress, new(big.Int).Mul(big.NewInt(1000000), params.StakeUint))
			w.funded = true
		}
		pv := w.yp.Version
		if len(f) > 3 && f[3] == "1" && w.cfg.v5 {
			pv = params.YouV4 // the first YouV5 block: checkAndUpgradeValidatorsToYouV5 runs
		}
		parent := &types.Header{Number: new(big.Int).SetUint64(height - 1), CurrVersion: pv, GasRewards: new(big.Int), Subsidy: new(big.Int)}
		header := &types.Header{Number: new(big.Int).SetUint64(height), CurrVersion: w.yp.Version, Coinbase: prop.MainAddress(),
			GasRewards: big.NewInt(int64(atoi(f[4]))), Subsidy: new(big.Int), ParentHash: parent.Hash()}
		hook := staking.EndBlock(staking.NewStaking(nil))
		if _, _, err := hook(&fakeChain{cfg: w.yp, parent: parent}, header, nil, st, false, local.FakeRecorder()); err != nil {
			return "err", false
		}
		return "ok", false
	case "copy":
		w.prev, w.prevObs = st, w.observe()
		w.st = st.Copy()
		return "done", false
	}
	panic("harness: unknown op " + line)
}

// ---------------------------------------------------------------------------------------------
// canonical observation (must print exactly what Driver/C08.lean `obs` prints)

func showBucket(b *state.ValKindStat) string {
	return fmt.Sprintf("%s,%s,%d,%s,%s,%d", b.GetOnlineStake(), b.GetOnlineToken(), b.GetCount(), b.GetOfflineStake(), b.GetOfflineToken(), b.GetOfflineCount())
}

func (w *world) observe() (out string) {
	defer func() {
		if r := recover(); r != nil {
			out = fmt.Sprintf("observe-panic: %v", r)
		}
	}()
	st := w.st
	var sb strings.Builder
	stat, err := st.GetValidatorsStat()
	if err != nil {
		return "stat-error " + err.Error()
	}
	sb.WriteString("S ")
	sb.WriteString(strings.Join([]string{showBucket(stat.GetByKind(params.KindValidator)), showBucket(stat.GetByKind(params.KindChamber)), showBucket(stat.GetByKind(params.KindHouse)),
		showBucket(stat.GetByRole(params.RoleChancellor)), showBucket(stat.GetByRole(params.RoleSenator)), showBucket(stat.GetByRole(params.RoleHouse))}, " "))
	sb.WriteString(" I ")
	var idx []string
	for id := 1; id <= NV; id++ {
		if st.VerifC09InIndex(uni.valAddr[id]) {
			idx = append(idx, strconv.Itoa(id))
		}
	}
	sb.WriteString(strings.Join(idx, ","))
	sb.WriteString(" V ")
	sb.WriteString(w.showVals())
	sb.WriteString(" A ")
	var as []string
	for id := 1; id <= ND; id++ {
		o := st.VerifC09Obj(uni.dAddr[id])
		if !o.Exists || o.Deleted {
			continue
		}
		var ds []string
		for _, a := range o.Delegations {
			if v, ok := uni.valID[a]; ok {
				ds = append(ds, strconv.Itoa(v))
			} else {
				ds = append(ds, "?")
			}
		}
		as = append(as, fmt.Sprintf("%d:%s:%s", id, o.DelegationBal, strings.Join(ds, ",")))
	}
	sb.WriteString(strings.Join(as, ";"))
	sb.WriteString(" Q ")
	var qs []string
	for _, r := range st.GetWithdrawQueue().Records {
		d := 0
		if r.Delegator != (common.Address{}) {
			d = uni.dID[r.Delegator]
		}
		qs = append(qs, fmt.Sprintf("%d/%d/%s", uni.valID[r.Validator], d, r.FinalBalance))
	}
	sb.WriteString(strings.Join(qs, ";"))
	return sb.String()
}

func (w *world) showVals() (out string) {
	defer func() {
		if r := recover(); r != nil {
			out = "panic"
		}
	}()
	var vs []string
	for _, v := range w.st.GetValidatorsForUpdate() {
		var ds []string
		for _, d := range v.Delegations {
			ds = append(ds, fmt.Sprintf("%d/%s/%s", uni.dID[d.Delegator], d.Token, d.Stake))
		}
		ex := 0
		if v.Expelled {
			ex = 1
		}
		vs = append(vs, fmt.Sprintf("%d:%d:%d:%s:%s:%s:%s:%s:%d:%d:%d:%d:[%s]", uni.valID[v.MainAddress()], v.Role, v.Status, v.Token, v.Stake, v.SelfToken, v.SelfStake,
			v.RewardsDistributable, ex, v.AcceptDelegation, v.CommissionRate, v.RiskObligation, strings.Join(ds, ",")))
	}
	return strings.Join(vs, ";")
}

// ---------------------------------------------------------------------------------------------
// implementation-level oracle: the statement of C08 evaluated on the real StateDB.

type acc struct {
	onStake, onToken, offStake, offToken *big.Int
	on, off                              uint64
}

func newAcc() *acc { return &acc{new(big.Int), new(big.Int), new(big.Int), new(big.Int), 0, 0} }
func (a *acc) add(v *state.Validator) {
	if v.Status == params.ValidatorOnline {
		a.onStake.Add(a.onStake, v.Stake)
		a.onToken.Add(a.onToken, v.Token)
		a.on++
	} else {
		a.offStake.Add(a.offStake, v.Stake)
		a.offToken.Add(a.offToken, v.Token)
		a.off++
	}
}
func (a *acc) String() string {
	return fmt.Sprintf("%s,%s,%d,%s,%s,%d", a.onStake, a.onToken, a.on, a.offStake, a.offToken, a.off)
}

// oracle returns "" or a description of the first violated clause.
func (w *world) oracle() (bad string) {
	defer func() {
		if r := recover(); r != nil {
			bad = fmt.Sprintf("oracle: reading the state panicked: %v", r)
		}
	}()
	st := w.st
	if w.readerBad != "" && w.apiWf && w.statWf {
		bad = w.readerBad
		w.readerBad = ""
		return bad
	}
	w.readerBad = ""
	if w.prev != nil {
		// operations on a Copy must not show through on the original (statistics, index, records, delegation lists)
		w.st = w.prev
		now := w.observe()
		w.st = st
		if now != w.prevObs {
			return fmt.Sprintf("copy: the original changed after operations on its Copy\n  at copy: %s\n  now:     %s", w.prevObs, now)
		}
	}
	if !w.apiWf {
		return ""
	}
	vals := st.GetValidatorsForUpdate()
	// (3) the index lists exactly the existing validators
	listed := map[common.Address]bool{}
	for _, v := range vals {
		listed[v.MainAddress()] = true
	}
	for id := 1; id <= NV; id++ {
		a := uni.valAddr[id]
		exists := st.GetValidatorByMainAddr(a) != nil
		if exists != listed[a] || exists != st.VerifC09InIndex(a) {
			return fmt.Sprintf("index: validator %d exists=%v listed-by-GetValidatorsForUpdate=%v in-index=%v", id, exists, listed[a], st.VerifC09InIndex(a))
		}
	}
	// a negative total is outside every claim about the statistics (SubVal clamps); it is itself a violation
	// unless a raw update of a total made it possible
	for _, v := range vals {
		if v.Token.Sign() < 0 || v.Stake.Sign() < 0 {
			if w.sumsWf {
				return fmt.Sprintf("sums: validator %d has a negative total (token %s, stake %s)", uni.valID[v.MainAddress()], v.Token, v.Stake)
			}
			w.statWf = false
		}
	}
	// (1) statistics = recomputation
	if w.statWf {
		kinds := map[params.ValidatorKind]*acc{params.KindValidator: newAcc(), params.KindChamber: newAcc(), params.KindHouse: newAcc()}
		roles := map[params.ValidatorRole]*acc{params.RoleChancellor: newAcc(), params.RoleSenator: newAcc(), params.RoleHouse: newAcc()}
		for _, v := range vals {
			if r := roles[v.Role]; r != nil {
				r.add(v)
			}
			kinds[v.Kind()].add(v)
			kinds[params.KindValidator].add(v)
		}
		stat, err := st.GetValidatorsStat()
		if err != nil {
			return "stat error " + err.Error()
		}
		for k, a := range kinds {
			if got := showBucket(stat.GetByKind(k)); got != a.String() {
				return fmt.Sprintf("stats: kind %d stored %s, recomputed from records %s", k, got, a)
			}
		}
		for r, a := range roles {
			if got := showBucket(stat.GetByRole(r)); got != a.String() {
				return fmt.Sprintf("stats: role %d stored %s, recomputed from records %s", r, got, a)
			}
		}
	}
	// (2) totals = own + delegations; stake = token / unit, component-wise
	if w.sumsWf {
		for _, v := range vals {
			id := uni.valID[v.MainAddress()]
			if !sumsHold(v) {
				return fmt.Sprintf("sums: validator %d token=%s stake=%s but self+delegations differ (self %s/%s, %d delegations)", id, v.Token, v.Stake, v.SelfToken, v.SelfStake, len(v.Delegations))
			}
			if params.YOUToStake(v.SelfToken).Cmp(v.SelfStake) != 0 {
				return fmt.Sprintf("sums: validator %d selfStake %s != selfToken %s / unit", id, v.SelfStake, v.SelfToken)
			}
			for _, d := range v.Delegations {
				if params.YOUToStake(d.Token).Cmp(d.Stake) != 0 {
					return fmt.Sprintf("sums: validator %d delegation from %d stake %s != token %s / unit", id, uni.dID[d.Delegator], d.Stake, d.Token)
				}
			}
		}
	}
	// (4) delegators and validators agree on who delegates to whom
	if w.linksWf {
		for did := 1; did <= ND; did++ {
			d := uni.dAddr[did]
			o := st.VerifC09Obj(d)
			mine := map[common.Address]bool{}
			if o.Exists && !o.Deleted {
				for _, a := range o.Delegations {
					mine[a] = true
					v := st.GetValidatorByMainAddr(a)
					if v == nil {
						return fmt.Sprintf("links: account %d lists a validator that does not exist (%s)", did, a.String())
					}
					if v.GetDelegationFrom(d) == nil {
						return fmt.Sprintf("links: account %d lists validator %d, which has no delegation from it", did, uni.valID[a])
					}
				}
			}
			for _, v := range vals {
				if v.GetDelegationFrom(d) != nil && !mine[v.MainAddress()] {
					return fmt.Sprintf("links: validator %d holds a delegation from account %d, which does not list it", uni.valID[v.MainAddress()], did)
				}
			}
		}
	}
	return ""
}

// fakeChain is the minimal vm.ChainReader the staking end-block hook needs.
type fakeChain struct {
	cfg    *params.YouParams
	parent *types.Header
}

func (c *fakeChain) VersionForRound(uint64) (*params.YouParams, error) { return c.cfg, nil }
func (c *fakeChain) GetHeader(common.Hash, uint64) *types.Header       { return c.parent }
func (c *fakeChain) GetHeaderByHash(common.Hash) *types.Header         { return c.parent }
func (c *fakeChain) GetBlock(common.Hash, uint64) *types.Block         { return nil }
func (c *fakeChain) CurrentHeader() *types.Header                      { return c.parent }

// consensusView opens the committed validator trie the way consensus does (state.NewVldReader, sorted GetValidators)
// and checks that its statistics equal the recomputation from its own validator list.
func (w *world) consensusView(valRoot common.Hash) (bad string) {
	defer func() {
		if r := recover(); r != nil {
			bad = fmt.Sprintf("consensus view: reading the committed validator trie panicked: %v", r)
		}
	}()
	rd, err := state.NewVldReader(valRoot, w.db, true)
	if err != nil {
		return "consensus view: NewVldReader: " + err.Error()
	}
	stat, err := rd.GetValidatorsStat()
	if err != nil {
		return "consensus view: stat: " + err.Error()
	}
	all, on := newAcc(), newAcc()
	_ = on
	for _, v := range rd.GetValidators().List() {
		all.add(v)
	}
	if got := showBucket(stat.GetByKind(params.KindValidator)); got != all.String() {
		return fmt.Sprintf("stats: consensus view (NewVldReader on the committed root): stored %s, recomputed from GetValidators() %s", got, all)
	}
	return ""
}
