package main

import "verifharness/internal/vh"

func main() {
	vh.Main(vh.Harness{Property: "C08", Run: run, Replay: replay})
}
