package main

// C08 harness: seeded op-sequence generator, lock-step execution on the real StateDB and on the Lean model
// (driver drv_c08), canonical diff after every op, implementation-level oracle after every op, shrinking,
// replay files, corpus, known-finding matchers.

import (
	"fmt"
	"math/big"
	"os"
	"path/filepath"
	"strings"

	"verifharness/internal/quiet"
	"verifharness/internal/vh"
)

// ---------------------------------------------------------------------------------------------
// running one op sequence on both sides

type failure struct {
	kind string // correspondence | oracle
	what string
	at   int // index of the op at which it shows
}

type runner struct {
	drv *vh.Driver
	w   *world
}

func (r *runner) ask(l string) (string, error) {
	if r.drv == nil {
		return "", nil
	}
	return r.drv.Ask(l)
}

type caseStats struct {
	applied, skipped, crashed int
	ops                       map[string]int
	results                   map[string]int
	oracleEvals               int
	c09                       bool
}

// runCase executes the lines (first line may be a cfg line) from a fresh state on both sides.
// It returns the first failure, or nil.
func (r *runner) runCase(lines []string, cs *caseStats) (*failure, error) {
	r.w.reset()
	if _, err := r.ask("reset"); err != nil {
		return nil, err
	}
	cfgSet := false
	for i, l := range lines {
		f := strings.Fields(l)
		if len(f) == 0 {
			continue
		}
		if f[0] == "cfg" {
			c, err := parseCfg(f)
			if err != nil {
				return nil, err
			}
			r.w.setCfg(c)
			cfgSet = true
			if _, err := r.ask(l); err != nil {
				return nil, err
			}
			continue
		}
		if !cfgSet {
			r.w.setCfg(defaultCfg())
			if _, err := r.ask(defaultCfg().line()); err != nil {
				return nil, err
			}
			cfgSet = true
		}
		gout, skip := r.w.exec(l)
		if skip {
			if cs != nil {
				cs.skipped++
			}
			continue
		}
		if cs != nil {
			cs.applied++
			cs.ops[f[0]]++
			cs.results[f[0]+"="+strings.Fields(gout + " _")[0]]++
		}
		if r.w.modelOff {
			if fl := r.oracleOnly(l, i, gout, cs); fl != nil || r.w.dead {
				return fl, nil
			}
			continue
		}
		if gout == "crash-revert" {
			// RevertToSnapshot refused a snapshot id the model knows: C09's subject (revision bookkeeping),
			// not a C08 observation. The case ends here.
			m, err := r.ask(l)
			if err != nil {
				return nil, err
			}
			if cs != nil {
				cs.c09 = true
			}
			if strings.HasPrefix(m, "crash") {
				return nil, nil
			}
			return nil, nil
		}
		m, err := r.ask(l)
		if err != nil {
			return nil, err
		}
		if r.drv != nil {
			mres, mobs := m, ""
			if k := strings.Index(m, " # "); k >= 0 {
				mres, mobs = m[:k], m[k+3:]
			}
			if gout == "crash" || mres == "crash" {
				if cs != nil {
					cs.crashed++
				}
				if gout != mres {
					return &failure{"correspondence", fmt.Sprintf("op %d `%s`: Go result %q, model result %q (panic: %s)", i, l, gout, mres, r.w.lastPanic), i}, nil
				}
				return nil, nil // both crash: the Go state is unspecified after a panic; the case ends
			}
			if gout != mres {
				return &failure{"correspondence", fmt.Sprintf("op %d `%s`: Go result %q, model result %q", i, l, gout, mres), i}, nil
			}
			gobs := r.w.observe()
			if gobs != mobs {
				return &failure{"correspondence", fmt.Sprintf("op %d `%s`: observation differs\n  go:    %s\n  model: %s", i, l, gobs, mobs), i}, nil
			}
		} else if gout == "crash" {
			return nil, nil
		}
		if bad := r.w.oracle(); bad != "" {
			return &failure{"oracle", fmt.Sprintf("after op %d `%s`: %s", i, l, bad), i}, nil
		}
		if cs != nil {
			cs.oracleEvals++
		}
	}
	return nil, nil
}

// ---------------------------------------------------------------------------------------------
// generator

var unit = new(big.Int).Exp(big.NewInt(10), big.NewInt(18), nil)

func defaultCfg() cfgT {
	return cfgT{unit: unit, minDlg: new(big.Int), v5: true}
}

func genCfg(r *vh.RNG) cfgT {
	c := defaultCfg()
	for role := 1; role <= 3; role++ {
		c.minStake[role] = []uint64{0, 0, 5, 10}[r.Intn(4)]
		c.maxStake[role] = []uint64{0, 0, 60, 120}[r.Intn(4)]
		c.minSelf[role] = []uint64{0, 0, 3, 8}[r.Intn(4)]
	}
	c.minDlg = new(big.Int).Mul(big.NewInt(int64([]int{0, 0, 2, 5}[r.Intn(4)])), unit)
	c.v5 = r.Chance(75)
	return c
}

func tokens(r *vh.RNG, maxYou int) *big.Int {
	t := new(big.Int).Mul(big.NewInt(int64(r.Intn(maxYou+1))), unit)
	switch r.Intn(6) {
	case 0:
		t.Add(t, big.NewInt(1))
	case 1:
		t.Add(t, new(big.Int).Sub(unit, big.NewInt(1)))
	case 2:
		t.Add(t, new(big.Int).SetUint64(r.U64()%1000000000000000000))
	}
	return t
}

type gen struct {
	r        *vh.RNG
	rn       *runner
	lines    []string
	nonce    int
	acc, val []int // shadow of validRevisions / valValidRevisions ids under the unrepaired bookkeeping (C09)
	nextID   int
	mal      bool
	eb       bool   // this case also runs the real end-of-block hook (oracle-only from the first such op on)
	height   uint64 // block height of the next endblock op
}

func (g *gen) exists(id int) bool { return g.rn.w.st.GetValidatorByMainAddr(vaddr(id)) != nil }
func (g *gen) someVal() int {
	var ex []int
	for id := 1; id <= NV; id++ {
		if g.exists(id) {
			ex = append(ex, id)
		}
	}
	if len(ex) == 0 || g.r.Chance(4) {
		return g.r.Range(1, NV)
	}
	return ex[g.r.Intn(len(ex))]
}

// endBlockOp: the real staking.EndBlock at ordinary and period-end heights, with activity marks around the
// inactivity threshold so that some online chamber validators are slashed, others not, and expelled ones recover.
func (g *gen) endBlockOp() string {
	r := g.r
	if r.Chance(35) {
		a := g.someVal()
		back := uint64(r.Range(0, 70))
		n := uint64(1)
		if g.height > back {
			n = g.height - back
		}
		return fmt.Sprintf("lastactive %d %d", a, n)
	}
	g.height += uint64(r.Range(1, 24))
	if r.Chance(70) {
		g.height = ((g.height+1+15)/16)*16 - 1 // last block of a staking period
	}
	// proposer: prefer an online validator
	cb := g.someVal()
	for id := 1; id <= NV; id++ {
		k := (id+int(r.U64()%NV))%NV + 1
		if v := g.rn.w.st.GetValidatorByMainAddr(vaddr(k)); v != nil && v.IsOnline() {
			cb = k
			break
		}
	}
	return fmt.Sprintf("endblock %d %d %d %d", g.height, cb, boolInt(r.Chance(10)), []int{0, 0, 1000000}[r.Intn(3)])
}

func (g *gen) next() string {
	r := g.r
	if g.eb && r.Chance(22) {
		return g.endBlockOp()
	}
	w := []int{8, 10, 3, 6, 8, 7, 6, 8, 8, 4, 5, 4, 6, 5, 3, 4, 3, 2, 3}
	//          cr up us mk dp wd cs da ds dl pn st sn rv fi ir rl cp mal
	if !g.mal {
		w[18] = 0
	}
	switch r.Weighted(w) {
	case 0:
		id := r.Range(1, NV)
		tok := tokens(r, 40)
		stk := new(big.Int).Div(tok, unit)
		return fmt.Sprintf("create %d %d %d %s %s %d %d %d", id, r.Range(1, 3), r.Intn(2), tok, stk, boolInt(r.Chance(80)), []int{0, 0, 500, 10000}[r.Intn(4)], []int{0, 0, 2500, 10000, 20000}[r.Intn(5)])
	case 1:
		a := g.someVal()
		switch r.Intn(8) {
		case 0:
			return fmt.Sprintf("upd %d role %d", a, r.Range(1, 3))
		case 1:
			return fmt.Sprintf("upd %d status %d", a, []int{0, 1, 1, 2}[r.Intn(4)])
		case 2:
			return fmt.Sprintf("upd %d rewards %s", a, tokens(r, 3))
		case 3:
			return fmt.Sprintf("upd %d expelled %d", a, r.Intn(2))
		case 4:
			return fmt.Sprintf("upd %d accept %d", a, r.Intn(2))
		case 5:
			return fmt.Sprintf("upd %d risk %d", a, []int{0, 100, 5000, 10000}[r.Intn(4)])
		case 6:
			return fmt.Sprintf("upd %d commission %d", a, []int{0, 100, 5000, 10000}[r.Intn(4)])
		default:
			// raw total update (breaks the sums, keeps the statistics claim)
			t := tokens(r, 30)
			if r.Bool() {
				return fmt.Sprintf("upd %d token %s", a, t)
			}
			return fmt.Sprintf("upd %d stake %s", a, new(big.Int).Div(t, unit))
		}
	case 2:
		// stale `old` that agrees with the stored record on everything the statistics depend on.
		// Not under a live snapshot: reverting restores the stale copy as a clean live object, which the merged
		// map of the model cannot tell from the trie record (live/trie coherence is outside the model).
		a := g.someVal()
		if len(g.acc) > 0 {
			return fmt.Sprintf("upd %d rewards %s", a, tokens(r, 3))
		}
		return fmt.Sprintf("upds %d %s %s rewards %s", a, []string{"rewards", "status", "role"}[r.Intn(3)], []string{"7", "1", "2"}[r.Intn(3)], tokens(r, 2))
	case 3:
		return fmt.Sprintf("mkacct %d", r.Range(1, ND))
	case 4:
		return fmt.Sprintf("deposit %d %s", g.someVal(), tokens(r, 30))
	case 5:
		g.nonce++
		return fmt.Sprintf("withdraw %d %s %d %d", g.someVal(), tokens(r, 25), r.Range(1, ND), g.nonce)
	case 6:
		return fmt.Sprintf("chstatus %d %d", g.someVal(), r.Intn(2))
	case 7:
		d := r.Range(1, ND)
		if !g.mal && !g.rn.w.st.Exist(daddr(d)) {
			return fmt.Sprintf("mkacct %d", d)
		}
		v := new(big.Int).Add(tokens(r, 12), big.NewInt(1))
		return fmt.Sprintf("dadd %d %d %s", d, g.someVal(), v)
	case 8:
		g.nonce++
		v := new(big.Int).Add(tokens(r, 10), big.NewInt(1))
		d, a := r.Range(1, ND), g.someVal()
		if r.Chance(85) {
			// prefer a delegation that exists
			type pair struct{ d, a int }
			var ps []pair
			for id := 1; id <= NV; id++ {
				if val := g.rn.w.st.GetValidatorByMainAddr(vaddr(id)); val != nil {
					for _, df := range val.Delegations {
						ps = append(ps, pair{uni.dID[df.Delegator], id})
					}
				}
			}
			if len(ps) > 0 {
				p := ps[r.Intn(len(ps))]
				d, a = p.d, p.a
			}
		}
		return fmt.Sprintf("dsub %d %d %s %d", d, a, v, g.nonce)
	case 9:
		d := r.Range(1, ND)
		if !g.mal && !g.rn.w.st.Exist(daddr(d)) {
			return fmt.Sprintf("mkacct %d", d)
		}
		a := g.someVal()
		delta := new(big.Int).Add(tokens(r, 8), big.NewInt(1))
		if r.Chance(30) {
			// a negative change no larger than the delegation
			if v := g.rn.w.st.GetValidatorByMainAddr(vaddr(a)); v != nil {
				if df := v.GetDelegationFrom(daddr(d)); df != nil && df.Token.Sign() > 0 {
					delta = new(big.Int).Neg(new(big.Int).Div(df.Token, big.NewInt(int64(r.Range(1, 3)))))
				}
			}
		}
		return fmt.Sprintf("deleg %d %d %s", d, a, delta)
	case 10:
		a := g.someVal()
		amt := big.NewInt(0)
		if v := g.rn.w.st.GetValidatorByMainAddr(vaddr(a)); v != nil {
			frac := int64([]int{0, 1, 2, 2, 5}[r.Intn(5)])
			amt = new(big.Int).Div(new(big.Int).Mul(v.Token, big.NewInt(frac)), big.NewInt(100))
			if amt.Sign() < 0 {
				amt = big.NewInt(0)
			}
		}
		return fmt.Sprintf("penal %d %s", a, amt)
	case 11:
		a := g.someVal()
		if v := g.rn.w.st.GetValidatorByMainAddr(vaddr(a)); v != nil && v.RewardsDistributable.Sign() == 0 && r.Chance(70) {
			return fmt.Sprintf("upd %d rewards %s", a, tokens(r, 3))
		}
		return fmt.Sprintf("settle %d", a)
	case 12:
		return "snap"
	case 13:
		// only ids that both the repaired and the unrepaired revision bookkeeping accept
		var ok []int
		for _, id := range g.acc {
			for _, v := range g.val {
				if v == id {
					ok = append(ok, id)
				}
			}
		}
		if len(ok) == 0 {
			return "snap"
		}
		return fmt.Sprintf("revert %d", ok[r.Intn(len(ok))])
	case 14:
		return "fin"
	case 15:
		return fmt.Sprintf("iroot %d", boolInt(r.Chance(80)))
	case 16:
		return fmt.Sprintf("reload %d", boolInt(r.Chance(80)))
	case 17:
		return "copy"
	default:
		return g.malformed()
	}
}

func boolInt(b bool) int {
	if b {
		return 1
	}
	return 0
}

// malformed stream: calls no real caller makes (the model must still agree with the code on them)
func (g *gen) malformed() string {
	r := g.r
	switch r.Intn(9) {
	case 0:
		return fmt.Sprintf("create %d %d 1 %s 5 1 0 0", r.Range(1, NV), []int{0, 4, 7}[r.Intn(3)], new(big.Int).Mul(big.NewInt(5), unit))
	case 1:
		return fmt.Sprintf("upd %d role %d", g.someVal(), []int{0, 4}[r.Intn(2)])
	case 2:
		// stale old that disagrees on a field the statistics depend on: drift expected, identically on both sides
		a := g.someVal()
		if len(g.acc) > 0 {
			// same restriction as for the benign stale update: not under a live snapshot
			return fmt.Sprintf("upd %d rewards 1", a)
		}
		return fmt.Sprintf("upds %d rewards 1 %s %s", a, []string{"token", "stake", "status", "role"}[r.Intn(4)], []string{"0", "1", "3", "2"}[r.Intn(4)])
	case 3:
		return fmt.Sprintf("remove %d", g.someVal())
	case 4:
		return fmt.Sprintf("upd %d token -%s", g.someVal(), tokens(r, 3))
	case 5:
		return fmt.Sprintf("revert %d", 50+r.Intn(5))
	case 6:
		// a multiple of 2^64 LU: IsInvalid() truncates with Uint64()
		return fmt.Sprintf("upd %d token %s", g.someVal(), new(big.Int).Lsh(big.NewInt(int64(r.Range(0, 3))), 64))
	case 7:
		return fmt.Sprintf("upd %d stake 0", g.someVal())
	default:
		return fmt.Sprintf("penal %d %s", g.someVal(), tokens(r, 60))
	}
}

// shadow of the live snapshot ids (both revision lists, kept in step since /repo commit 7d33d17)
func (g *gen) track(l string) {
	f := strings.Fields(l)
	switch f[0] {
	case "snap":
		g.acc = append(g.acc, g.nextID)
		g.val = append(g.val, g.nextID)
		g.nextID++
	case "fin", "iroot":
		g.acc, g.val = nil, nil
	case "reload", "copy":
		g.acc, g.val, g.nextID = nil, nil, 0
	case "revert":
		id := atoi(f[1])
		for i, x := range g.acc {
			if x == id {
				g.acc = g.acc[:i]
				if i < len(g.val) {
					g.val = g.val[:i]
				}
				break
			}
		}
	}
}

// ---------------------------------------------------------------------------------------------

const prop = "C08"

func run(c *vh.Ctx) error {
	quiet.Silence()
	res := c.Res
	res.Rule = "case = one op sequence on a fresh StateDB (validator creations/updates, take-effect deposits, withdrawals, status changes, delegations, settlements, penalties, snapshots/reverts, Finalise/IntermediateRoot, Commit+state.New, Copy); non-trivial when >= 1 validator was created, >= 1 delegator account touched by a delegation that took effect, and >= 1 of revert/flush/reload/copy occurred; distinct by the canonical text of the op list"
	rn := &runner{w: newWorld()}
	if c.Driver != "" {
		d, err := vh.StartDriver(c.Driver)
		if err != nil {
			return err
		}
		defer d.Close()
		rn.drv = d
	} else {
		return fmt.Errorf("no Lean driver given: the tie between model and code cannot be checked")
	}

	// ---- corpus first ---------------------------------------------------------------------------
	for _, cf := range vh.CorpusFiles(prop) {
		body, comments, err := vh.ReadReplay(cf)
		if err != nil {
			return err
		}
		fl, err := rn.runCase(body, nil)
		if err != nil {
			return err
		}
		res.Dist("corpus-files")
		expect := ""
		for _, cm := range comments {
			if strings.HasPrefix(cm, "expect ") {
				expect = strings.TrimPrefix(cm, "expect ")
			}
		}
		if fl != nil {
			m := matcher(body, fl)
			res.Fail("corpus", m, fmt.Sprintf("corpus file %s: %s: %s", filepath.Base(cf), fl.kind, fl.what), cf)
		} else if expect == "violation" {
			// a witness of an open known finding that no longer reproduces is only noted
			res.Dist("corpus-open-finding-not-reproduced")
		}
	}

	// ---- probes of findings -----------------------------------------------------------------------
	probes(rn, res)

	// ---- seeded cases ---------------------------------------------------------------------------
	known, unmatched := 0, 0
	n := c.N(2500, 40000)
	if c.Search {
		n *= 2
	}
	for ci := 0; ci < n; ci++ {
		r := c.R.Fork()
		g := &gen{r: r, rn: rn, mal: r.Chance(20)}
		g.eb = !g.mal && r.Chance(30)
		g.height = uint64(1000 + r.Intn(40))
		cs := &caseStats{ops: map[string]int{}, results: map[string]int{}}
		cfg := genCfg(r)
		nops := r.Range(6, 45)
		// lock-step generation: each op is generated from the real state reached so far, executed on both sides
		rn.w.reset()
		if _, err := rn.ask("reset"); err != nil {
			return err
		}
		rn.w.setCfg(cfg)
		if _, err := rn.ask(cfg.line()); err != nil {
			return err
		}
		g.lines = append(g.lines, cfg.line())
		var fl *failure
		for k := 0; k < nops && fl == nil; k++ {
			var l string
			switch {
			case k < 2:
				tok := tokens(r, 40)
				l = fmt.Sprintf("create %d %d %d %s %s 1 %d %d", r.Range(1, NV), r.Range(1, 3), r.Intn(2), tok, new(big.Int).Div(tok, unit), []int{0, 500}[r.Intn(2)], []int{0, 2500}[r.Intn(2)])
			case k < 4:
				l = fmt.Sprintf("mkacct %d", r.Range(1, ND))
			default:
				l = g.next()
			}
			g.lines = append(g.lines, l)
			g.track(l)
			var err error
			fl, err = rn.stepOne(l, len(g.lines)-1, cs)
			if err != nil {
				return err
			}
			if rn.w.dead || cs.c09 {
				break
			}
			if strings.HasPrefix(l, "remove ") && fl == nil {
				// RemoveValidator has no caller; the model follows it only as far as the flush that shows the
				// double decrement (the live/trie split behind a flagged object is outside the merged map)
				l2 := "iroot 1"
				g.lines = append(g.lines, l2)
				g.track(l2)
				fl, err = rn.stepOne(l2, len(g.lines)-1, cs)
				if err != nil {
					return err
				}
				break
			}
		}
		canon := strings.Join(g.lines, "\n")
		nontriv := cs.results["create=true"] > 0 && (cs.results["dadd=ok"]+cs.results["deleg=ok"]+cs.results["dsub=ok"]) > 0 &&
			(cs.ops["revert"]+cs.ops["iroot"]+cs.ops["reload"]+cs.ops["copy"]) > 0
		res.Count(canon, nontriv)
		res.TracesVsImpl++
		for k, v := range cs.results {
			res.DistN("op:"+k, v)
		}
		res.DistN("ops-applied", cs.applied)
		res.DistN("ops-skipped-inapplicable", cs.skipped)
		res.DistN("oracle-evaluations", cs.oracleEvals)
		if g.eb {
			res.Dist("cases-with-real-EndBlock-hook")
		}
		if g.mal {
			res.Dist("cases-malformed-stream")
		} else {
			res.Dist("cases-valid-stream")
		}
		if cs.c09 {
			res.Dist("cases-ended-by-C09-revision-panic")
		}
		if !rn.w.statWf {
			res.Dist("cases-with-stat-wf-violating-call")
		}
		if !rn.w.sumsWf {
			res.Dist("cases-with-raw-total-update")
		}
		res.Dist(fmt.Sprintf("len-%02d-%02d", (len(g.lines)/10)*10, (len(g.lines)/10)*10+9))
		if ci < 2 {
			res.Sample(map[string]interface{}{"ops": g.lines, "final_observation": rn.w.observe()})
		}
		if fl != nil {
			// shrink, re-check, classify
			kind := fl.kind
			shr := vh.Shrink(g.lines, func(ls []string) bool {
				f2, err := rn.runCase(ls, nil)
				return err == nil && f2 != nil && f2.kind == kind
			})
			f2, _ := rn.runCase(shr, nil)
			if f2 == nil {
				f2, shr = fl, g.lines
			}
			m := matcher(shr, f2)
			rp := vh.WriteReplay(c.ReplayDir, prop, fmt.Sprintf("%s-seed%d-case%d", f2.kind, c.Seed, ci), c.Seed,
				append([]string{"kind " + f2.kind, "matcher " + m}, commentLines(f2.what)...), shr)
			if m != "" {
				// instances of a known finding: keep a few, keep going
				known++
				res.Dist("known-finding-instances:" + m)
				if known <= 3 {
					res.Fail(f2.kind, m, f2.what, rp)
				} else {
					os.Remove(rp)
				}
			} else {
				res.Fail(f2.kind, m, f2.what, rp)
				unmatched++
				if unmatched >= 8 {
					break
				}
			}
		}
	}
	res.Partial = append(res.Partial,
		"live-object/trie coherence behind Commit+state.New and Copy is not modelled (the model keeps one merged map); it is sampled by the reload/copy ops of the correspondence check",
		"pointer aliasing inside the Go code is not modelled (value-semantics model); differences surface as correspondence failures")
	return nil
}

func commentLines(s string) []string {
	var out []string
	for _, l := range strings.Split(s, "\n") {
		out = append(out, l)
	}
	return out
}

// stepOne executes one more op of a case in progress (same logic as runCase, incremental).
func (r *runner) stepOne(l string, i int, cs *caseStats) (*failure, error) {
	f := strings.Fields(l)
	gout, skip := r.w.exec(l)
	if skip {
		cs.skipped++
		return nil, nil
	}
	cs.applied++
	cs.ops[f[0]]++
	cs.results[f[0]+"="+strings.Fields(gout + " _")[0]]++
	if r.w.modelOff {
		return r.oracleOnly(l, i, gout, cs), nil
	}
	m, err := r.ask(l)
	if err != nil {
		return nil, err
	}
	if gout == "crash-revert" {
		cs.c09 = true
		return nil, nil
	}
	mres, mobs := m, ""
	if k := strings.Index(m, " # "); k >= 0 {
		mres, mobs = m[:k], m[k+3:]
	}
	if gout == "crash" || mres == "crash" {
		cs.crashed++
		r.w.dead = true
		if gout != mres {
			return &failure{"correspondence", fmt.Sprintf("op %d `%s`: Go result %q, model result %q (panic: %s)", i, l, gout, mres, r.w.lastPanic), i}, nil
		}
		return nil, nil
	}
	if gout != mres {
		return &failure{"correspondence", fmt.Sprintf("op %d `%s`: Go result %q, model result %q", i, l, gout, mres), i}, nil
	}
	if gobs := r.w.observe(); gobs != mobs {
		return &failure{"correspondence", fmt.Sprintf("op %d `%s`: observation differs\n  go:    %s\n  model: %s", i, l, gobs, mobs), i}, nil
	}
	if bad := r.w.oracle(); bad != "" {
		return &failure{"oracle", fmt.Sprintf("after op %d `%s`: %s", i, l, bad), i}, nil
	}
	cs.oracleEvals++
	return nil, nil
}

// oracleOnly handles an op of the oracle-only part of a case (after the first endblock/lastactive op).
func (r *runner) oracleOnly(l string, i int, gout string, cs *caseStats) *failure {
	if gout == "crash" {
		r.w.dead = true
		if strings.HasPrefix(l, "endblock") {
			return &failure{"oracle", fmt.Sprintf("op %d `%s`: the real end-of-block hook panicked on a state satisfying the property: %s", i, l, r.w.lastPanic), i}
		}
		return nil
	}
	if bad := r.w.oracle(); bad != "" {
		return &failure{"oracle", fmt.Sprintf("after op %d `%s`: %s", i, l, bad), i}
	}
	if cs != nil {
		cs.oracleEvals++
	}
	return nil
}

// ---------------------------------------------------------------------------------------------

func replay(c *vh.Ctx, body, comments []string) (bool, string) {
	quiet.Silence()
	rn := &runner{w: newWorld()}
	if c.Driver != "" {
		d, err := vh.StartDriver(c.Driver)
		if err != nil {
			return true, "cannot start driver: " + err.Error()
		}
		defer d.Close()
		rn.drv = d
	}
	for _, l := range body {
		if strings.HasPrefix(l, "obligation ") {
			return true, "replay names a broken proof/tie obligation, not an input: " + l
		}
	}
	fl, err := rn.runCase(body, nil)
	if err != nil {
		return true, "harness error: " + err.Error()
	}
	if fl == nil {
		return false, "no failure: model and code agree on every op and the oracle holds after every op"
	}
	return true, fl.kind + ": " + fl.what
}

var _ = os.Exit
