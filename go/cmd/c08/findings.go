package main

// Known-finding matchers (predicates over the shrunk failing input) and probes.

import (
	"math/big"
	"strings"

	"verifharness/internal/vh"
)

// F-C08f: a penalty that consumes a whole delegation makes takePenalty drop the delegator from the validator's
// list (UpdateDelegationFrom with an empty record) without touching the delegator's account, which keeps listing
// the validator. Needs a penalty far above every shipped PenaltyFraction (1-2 % of the validator's tokens).
//
// The matcher holds only if (a) the violated clause is the delegator->validator link, (b) it shows right after a
// `penal` op, and (c) that penalty exceeds 2 % of the validator's tokens before the op (re-executed on the real
// code). A broken link after a penalty within the shipped fractions, or after any other op, is NOT matched.
func matcher(lines []string, fl *failure) string {
	if fl == nil || fl.kind != "oracle" || !strings.Contains(fl.what, "links: account") || !strings.Contains(fl.what, "which has no delegation from it") {
		return ""
	}
	if fl.at < 0 || fl.at >= len(lines) {
		return ""
	}
	f := strings.Fields(lines[fl.at])
	if len(f) != 3 || f[0] != "penal" {
		return ""
	}
	amount, ok := new(big.Int).SetString(f[2], 10)
	if !ok {
		return ""
	}
	// token of the validator before the op, on the real code
	w := newWorld()
	w.setCfg(defaultCfg())
	for _, l := range lines[:fl.at] {
		ff := strings.Fields(l)
		if len(ff) == 0 {
			continue
		}
		if ff[0] == "cfg" {
			if c, err := parseCfg(ff); err == nil {
				w.setCfg(c)
			}
			continue
		}
		w.exec(l)
		if w.dead {
			return ""
		}
	}
	val := w.st.GetValidatorByMainAddr(vaddr(atoi(f[1])))
	if val == nil {
		return ""
	}
	lhs := new(big.Int).Mul(amount, big.NewInt(100))
	rhs := new(big.Int).Mul(val.Token, big.NewInt(2))
	if lhs.Cmp(rhs) > 0 {
		return "penalty-consumes-whole-delegation"
	}
	return ""
}

var probeC08f = []string{
	"create 5 1 1 5000000000000000001 5 1 0 2500",
	"mkacct 2",
	"dadd 2 5 1000000000000000002",
	"penal 5 54000000000000000000",
}

func probes(rn *runner, res *vh.Result) {
	fl, err := rn.runCase(probeC08f, nil)
	p := vh.Probe{ID: "F-C08f", What: "penalty of 54 YOU on a 6 YOU validator with one 1 YOU delegation: the delegation is consumed, the validator forgets the delegator, the delegator's account still lists the validator"}
	if err == nil && fl != nil && matcher(probeC08f, fl) == "penalty-consumes-whole-delegation" {
		p.Reproduced = true
		p.What += " — reproduced: " + fl.what
	}
	res.Probes = append(res.Probes, p)
}
